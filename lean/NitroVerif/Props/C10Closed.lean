/-
C10 — closed forms on the generated schema declaration file itself, and completeness of the membership procedure.

`C10_alias_exact` of the property statement, for every kind: inside the namespace of target `t` of the file the model
emits (and through the qualified route `<namespace>.T`), the alias of a schema type `T` admits exactly `Ref_t(T)`.
Proofs: `Lemmas/DeclsClosed*.lean` (table of the file, binding commutes with the body constructions, unbound scalar
texts, induction on values).
-/
import NitroVerif.Props.C10
import NitroVerif.Lemmas.DeclsClosedInduct
import NitroVerif.Lemmas.DeclsClosedResolvers
namespace NitroVerif.Props.C10
open NitroVerif.Gql NitroVerif.Ts NitroVerif.DeclCfg NitroVerif.SchemaDecls NitroVerif.RefTypes

/-! ### the membership procedure is complete -/

/-- COMPLETENESS of the executable membership procedure the O streams evaluate: every member of a closed type (in the
    sense of the relation `Mem` the theorems are stated in) is accepted by `memG` once the fuel is large enough. -/
theorem membership_procedure_complete {e : Env} {v : J} {t : Ty} (h : Mem e v t) : ∃ n, memG e n v t = true :=
  memG_complete h

/-- more fuel never turns an accepted value into a rejected one -/
theorem membership_procedure_monotone {e : Env} {n m : Nat} {v : J} {t : Ty} (h : memG e n v t = true) (hle : n ≤ m) :
    memG e m v t = true :=
  memG_le h hle

/-- the relation of the theorems and the procedure of the O streams coincide (soundness + completeness) -/
theorem membership_procedure_exact {e : Env} {v : J} {t : Ty} : Mem e v t ↔ ∃ n, memG e n v t = true :=
  mem_iff_memG

/-! ### what the closed forms assume

`DocOK c doc` (`Lemmas/DeclsClosedExact.lean`): the document is a checked schema — type names distinct, none starting
with `__tmp_` or named like one of the three prelude helpers; every field type of an object names a defined non-input
type, every field type of an input object a defined scalar / enum / input object, every union member a defined object
type — and the configured scalar texts stay clear of the printer's own identifiers (no identifier of a text starts with
`__tmp_` — the open finding — or is one of `__nitrogql_schema`, `__Beautify`, `__SelectionSet`, `__OperationInput`,
`__OperationOutput`, `__ResolverInput`, `__ResolverOutput`), the supplied parse of a text mentions only identifiers of
that text and no internal absolute reference.

OPEN — carried by K/O only: `DocOK` is a HYPOTHESIS of every closed form of this file (its schema part is derived from the
schema check only in `Props/C10ComposedChecked.lean`; its configuration part `bagOK` / `parses` nowhere); `kindFits` limits
the in-namespace statements to kinds fitting the target's direction; the resolver forms additionally assume `ResolversOK`
(`_std`, `_result_`) and arguments of defined scalar / enum / input-object type (`_args_`), and read `Args` / `Result` at the
top level of the resolvers file; the linked forms assume a flat importing file with exactly one star import. The full
list is the OPEN block at the end of `Props/C10.lean`. -/

/-- a small schema for the non-vacuity examples: two scalars (one configured with an opaque global text), an enum, an
    input object, a self-referential object, an interface and a union -/
def exQuery : TypeDef :=
  { kind := .object, name := "Query", implements := [("Node", {})],
    fields := [{ name := "n", ty := .named "Int" {} }, { name := "d", ty := .nonNull (.named "Date" {}) },
               { name := "self", ty := .list (.named "Query" {}) {} }, { name := "u", ty := .named "U" {} }] }

def exDoc : TsDoc :=
  [.typeDef { kind := .scalar, name := "Int" },
   .typeDef { kind := .scalar, name := "Date" },
   .typeDef { kind := .enum, name := "Color", values := [{ name := "RED" }, { name := "GREEN" }] },
   .typeDef { kind := .input, name := "In",
              inputs := [{ name := "x", ty := .list (.named "Int" {}) {} },
                         { name := "c", ty := .nonNull (.named "Color" {}) }, { name := "self", ty := .named "In" {} }] },
   .typeDef exQuery,
   .typeDef { kind := .interface, name := "Node" },
   .typeDef { kind := .union, name := "U", members := [("Query", {})] }]

def exCfg : Cfg :=
  { scalars := [("Date", .sendReceive "Date | string" "string")],
    parses := ("Date | string", .union [.ref "Date", .prim "string"]) :: builtinParses }

/-- the file the model emits for the example -/
def exFile : File := match schemaFile exCfg exDoc with | .ok f => f | .error _ => []

theorem exFile_ok : schemaFile exCfg exDoc = .ok exFile := rfl

theorem exDoc_ok : DocOK exCfg exDoc where
  distinct := by decide
  names := by decide
  notPrelude := by decide
  fields := by decide
  inputs := by decide
  members := by decide
  bagOK := by decide
  parses := by decide

/-! ### the closed form -/

section closed
variable (c : Cfg) (doc : TsDoc) (F : File) (hF : schemaFile c doc = .ok F) (ok : DocOK c doc)

include hF ok in
/-- `C10_alias_exact`, CLOSED FORM, all kinds. In the schema declaration file the model emits for a checked schema, the
    reference to a schema type `T` written inside the namespace of target `t` (the way the generated bodies refer to it:
    by its local name) denotes EXACTLY `Ref_t(T)` — for scalars, enums, objects, input objects, interfaces and unions,
    provided `T`'s kind is usable in the direction of `t` (objects / interfaces / unions in output namespaces, input
    objects in input namespaces, scalars and enums everywhere). Name resolution through the namespace, local renaming,
    binding of the stored body, the configured scalar text read globally and the recursion through fields are all
    included. -/
theorem C10_alias_exact_closed (t : Target) (td : TypeDef) (hm : td ∈ typeDefsOf doc)
    (hfit : kindFits td.kind t = true) (v : J) :
    Mem (Env.ofFile F) v (globalise (Decls.ofFile F) [t.name] [] ((Ctx.new c doc t).leaf td.name))
      ↔ Ref c ⟨doc⟩ t td.name v := by
  have H : Hosted (Env.ofFile F).decls [] F := hosted_ofFile F
  have hl := leaf_abs hF ok H t hm hfit
  have hx := hosted_alias_exact hF ok H t (fun _ _ _ => rfl) hm hfit v
  rw [show (Decls.ofFile F) = (Env.ofFile F).decls from rfl, show [t.name] = [] ++ [t.name] from rfl, hl]
  exact hx

include hF ok in
/-- THE QUALIFIED ROUTE. From the top level of the file, `<namespace of t>.T` — `T` being the SCHEMA name, which the
    namespace exports directly when the type keeps its name and through `export type { __tmp_T as T }` when it was
    renamed — denotes exactly `Ref_t(T)`. (This is the form the O stream queries: `M.<ns>.<T>`.) -/
theorem C10_alias_exact_qualified (t : Target) (td : TypeDef) (hm : td ∈ typeDefsOf doc)
    (hfit : kindFits td.kind t = true) (v : J) :
    Mem (Env.ofFile F) v (globalise (Decls.ofFile F) [] [] (.qref [t.name, td.name]))
      ↔ Ref c ⟨doc⟩ t td.name v := by
  have H : Hosted (Env.ofFile F).decls [] F := hosted_ofFile F
  obtain ⟨ty, hb⟩ := fits_body hF t hm hfit
  have hq := hosted_qualified_inner hF ok H t hm hb
  have hx := hosted_alias_exact hF ok H t (fun _ _ _ => rfl) hm hfit v
  have hg : globalise (Decls.ofFile F) [] [] (.qref [t.name, td.name]) = absRef c doc [] t td.name := by
    simp only [globalise, List.contains_nil, Bool.false_eq_true, if_false]
    rw [show (Decls.ofFile F) = (Env.ofFile F).decls from rfl, hq]
    rfl
  rw [hg]
  exact hx

include hF ok in
/-- THE TOP-LEVEL REPRESENTATIVE. At the top level of the file, the alias of a schema type `T` (bound under `T`'s local
    name) admits exactly `Ref` of `T` for the target its representative points into — `__ResolverInput` for input
    objects, `__OperationOutput` for every other kind (`repTarget`). -/
theorem C10_alias_exact_toplevel (td : TypeDef) (hm : td ∈ typeDefsOf doc) (v : J) :
    Mem (Env.ofFile F) v (globalise (Decls.ofFile F) [] [] (.ref (localName (bag (scalarTypes c doc)) td.name)))
      ↔ Ref c ⟨doc⟩ (repTarget td) td.name v := by
  have H : Hosted (Env.ofFile F).decls [] F := hosted_ofFile F
  have hfl := hosted_findLocal_top hF ok H hm
  have hg : globalise (Decls.ofFile F) [] [] (.ref (localName (bag (scalarTypes c doc)) td.name))
      = Ty.abs [] (lname c doc td.name) := by
    simp only [globalise, List.contains_nil, Bool.false_eq_true, if_false]
    rw [show (Decls.ofFile F) = (Env.ofFile F).decls from rfl, resolveRef_of_findLocal hfl]
    rfl
  rw [hg]
  exact hosted_rep_exact hF ok H (fun _ _ _ => rfl) hm v

/-! ### the file linked as a module (the form the O stream queries: `M.<ns>.<T>` and `M.<T>`)

`main` is any flat file (no namespace statement) whose only star import is `import type * as A from m`; the schema file
is supplied as module `m`. -/

section linked
variable (main : File) (m A : String) (hflat : main.all (fun s => !s.isNamespace) = true)
  (himp : starImports main = [(m, A)])

include hF ok hflat himp in
/-- `A.<namespace of t>.T` in a file that links the schema file as `A` denotes exactly `Ref_t(T)`. -/
theorem C10_alias_exact_module (t : Target) (td : TypeDef) (hm : td ∈ typeDefsOf doc)
    (hfit : kindFits td.kind t = true) (v : J) :
    Mem (Env.ofFiles main [(m, F)]) v (globalise (Decls.ofFiles main [(m, F)]) [] [] (.qref [A, t.name, td.name]))
      ↔ Ref c ⟨doc⟩ t td.name v := by
  have H : Hosted (Env.ofFiles main [(m, F)]).decls [A] F := hosted_ofFiles main m A F hflat himp
  obtain ⟨ty, hb⟩ := fits_body hF t hm hfit
  have hq := hosted_qualified_outer hF ok H t (sc := []) (A := A) (ofFiles_resolveNs main m A F himp) hm hb
  have hg : globalise (Decls.ofFiles main [(m, F)]) [] [] (.qref [A, t.name, td.name]) = absRef c doc [A] t td.name := by
    simp only [globalise, List.contains_nil, Bool.false_eq_true, if_false]
    rw [show (Decls.ofFiles main [(m, F)]) = (Env.ofFiles main [(m, F)]).decls from rfl, hq]
    rfl
  rw [hg]
  exact hosted_alias_exact hF ok H t (fun _ _ _ => rfl) hm hfit v

include hF ok hflat himp in
/-- `A.T` (the top-level export of the schema file, `T` = SCHEMA name; exported directly or through
    `export type { __tmp_T as T }`) denotes exactly `Ref` of `T` for its representative target. -/
theorem C10_alias_exact_module_toplevel (td : TypeDef) (hm : td ∈ typeDefsOf doc) (v : J) :
    Mem (Env.ofFiles main [(m, F)]) v (globalise (Decls.ofFiles main [(m, F)]) [] [] (.qref [A, td.name]))
      ↔ Ref c ⟨doc⟩ (repTarget td) td.name v := by
  have H : Hosted (Env.ofFiles main [(m, F)]).decls [A] F := hosted_ofFiles main m A F hflat himp
  have hq := hosted_qualified_top hF ok H (sc := []) (A := A) (ofFiles_resolveNs main m A F himp) hm
  have hg : globalise (Decls.ofFiles main [(m, F)]) [] [] (.qref [A, td.name]) = Ty.abs [A] (lname c doc td.name) := by
    simp only [globalise, List.contains_nil, Bool.false_eq_true, if_false]
    rw [show (Decls.ofFiles main [(m, F)]) = (Env.ofFiles main [(m, F)]).decls from rfl, hq]
    rfl
  rw [hg]
  exact hosted_rep_exact hF ok H (fun _ _ _ => rfl) hm v

include hF ok hflat himp in
/-- `A.<namespace of t>.T` with the standard helper type `Omit` interpreted (`Env.withStd`, the environment the driver of
    the O stream uses), provided no configured scalar text applies `Omit<…>` on its spine: the same set. -/
theorem C10_alias_exact_module_std
    (hno : ∀ p ∈ scalarTypes c doc, ∀ t ∈ Target.all, (c.parseOf (p.2.getType t)).noOmit = true)
    (t : Target) (td : TypeDef) (hm : td ∈ typeDefsOf doc) (hfit : kindFits td.kind t = true) (v : J) :
    Mem (Env.ofFiles main [(m, F)]).withStd v
        (globalise (Decls.ofFiles main [(m, F)]) [] [] (.qref [A, t.name, td.name]))
      ↔ Ref c ⟨doc⟩ t td.name v := by
  have H : Hosted (Env.ofFiles main [(m, F)]).withStd.decls [A] F := hosted_ofFiles main m A F hflat himp
  obtain ⟨ty, hb⟩ := fits_body hF t hm hfit
  have hq := hosted_qualified_outer hF ok H t (sc := []) (A := A) (ofFiles_resolveNs main m A F himp) hm hb
  have hg : globalise (Decls.ofFiles main [(m, F)]) [] [] (.qref [A, t.name, td.name]) = absRef c doc [A] t td.name := by
    simp only [globalise, List.contains_nil, Bool.false_eq_true, if_false]
    rw [show (Decls.ofFiles main [(m, F)]) = (Env.ofFiles main [(m, F)]).withStd.decls from rfl, hq]
    rfl
  rw [hg]
  exact hosted_alias_exact' hF ok H
    (fun p hp t' ht' _ => mem_indep_std (fun _ _ _ => rfl) (hno p hp t' ht')) t hm hfit v

end linked

/-! ### the resolvers file linked with the schema file: the `Args` record -/

include hF ok in
/-- RESOLVER ARGUMENTS, closed form. In the resolvers declaration file the model emits, linked with the generated schema
    file through its `import type * as Schema`, the `Args` type of the resolver of a field `f` (whose arguments have
    defined scalar / enum / input-object types) admits exactly `Ref_ResolverInput(args f)` — the executable reference
    `RefTypes.refArgs` of the O stream: a record with every argument a REQUIRED key, each value wrapper-exact over
    `Ref_ResolverInput`, no other key. -/
theorem C10_resolver_args_closed (f : FieldDef)
    (hargs : ∀ a ∈ f.args, ∃ td ∈ typeDefsOf doc, td.name = a.ty.unwrapped ∧ kindFits td.kind .resolverInput = true)
    (v : J) :
    Mem (Env.ofFiles (ResolverDecls.resolversFile c doc) [(ResolverDecls.schemaSource, F)]) v
      (globalise (Decls.ofFiles (ResolverDecls.resolversFile c doc) [(ResolverDecls.schemaSource, F)]) [] []
        (ResolverDecls.argsType f.args))
      ↔ ∃ n, refArgs c ⟨doc⟩ n f.args v = true := by
  exact ResolverDecls.args_exact hF ok (E := Env.ofFiles (ResolverDecls.resolversFile c doc) [(ResolverDecls.schemaSource, F)])
    rfl (scalarsGlobal_of_nohook ok (fun _ _ _ => rfl)) f.args hargs v

include hF ok in
/-- the same in the environment the O stream uses (the standard helper type `Omit` interpreted), provided no configured
    scalar text applies `Omit<…>` on its spine -/
theorem C10_resolver_args_closed_std (rok : ResolverDecls.ResolversOK c doc) (f : FieldDef)
    (hargs : ∀ a ∈ f.args, ∃ td ∈ typeDefsOf doc, td.name = a.ty.unwrapped ∧ kindFits td.kind .resolverInput = true)
    (v : J) :
    Mem (Env.ofFiles (ResolverDecls.resolversFile c doc) [(ResolverDecls.schemaSource, F)]).withStd v
      (globalise (Decls.ofFiles (ResolverDecls.resolversFile c doc) [(ResolverDecls.schemaSource, F)]) [] []
        (ResolverDecls.argsType f.args))
      ↔ ∃ n, refArgs c ⟨doc⟩ n f.args v = true :=
  ResolverDecls.args_exact hF ok (E := ResolverDecls.RE c doc F) rfl (ResolverDecls.RE_scalars rok) f.args hargs v

include hF ok in
/-- RESOLVER RESULT, closed form. In the resolvers declaration file linked with the generated schema file (standard
    helper `Omit` interpreted, as in the O stream), the `Result` type of the resolver of a field `f` — `f`'s type over
    the file's LOCAL aliases: `Omit<Schema.__ResolverOutput.O, "__typename">` for objects, the union of those for
    interfaces / unions, `Schema.__ResolverOutput.T` for scalars / enums — admits exactly the resolver result reference
    (`RefTypes.refResolverOut`, the executable of the O stream): an object's record WITHOUT the `__typename` key at the
    top, nested values full `Ref_ResolverOutput`, wrapper-exact at every list / non-null depth. Side conditions
    `ResolversOK`: no scalar text applies `Omit<…>`, no type is named `__Resolver` / `__TypeResolver` / `Omit`, no field
    is called `__typename`. -/
theorem C10_resolver_result_closed (rok : ResolverDecls.ResolversOK c doc) (f : FieldDef) (td : TypeDef)
    (hm : td ∈ typeDefsOf doc) (hki : td.kind ≠ .input) (hn : td.name = f.ty.unwrapped) (v : J) :
    Mem (Env.ofFiles (ResolverDecls.resolversFile c doc) [(ResolverDecls.schemaSource, F)]).withStd v
      (globalise (Decls.ofFiles (ResolverDecls.resolversFile c doc) [(ResolverDecls.schemaSource, F)]) [] []
        (tsOf .ref false f.ty))
      ↔ ∃ k, conf (refResolverOut c ⟨doc⟩ k) f.ty v = true :=
  ResolverDecls.RE_result_exact hF ok rok f.ty hm hki hn v

/-! ### kind by kind (the clauses of the property statement, with `Ref` itself at the leaves) -/

include hF ok in
/-- SCALARS, closed form: the alias admits exactly the values of the configured TypeScript text for the target, read
    GLOBALLY (in the empty declaration environment) — the namespace the alias stands in adds nothing to the text
    (second half of rename soundness). -/
theorem C10_alias_exact_scalar_closed (t : Target) (td : TypeDef) (hm : td ∈ typeDefsOf doc) (hk : td.kind = .scalar)
    (v : J) :
    Mem (Env.ofFile F) v (globalise (Decls.ofFile F) [t.name] [] ((Ctx.new c doc t).leaf td.name)) ↔
      ∃ sc, scalarType? c doc td.name = some sc ∧ Mem Env.empty v (c.parseOf (sc.getType t)) := by
  rw [C10_alias_exact_closed c doc F hF ok t td hm (by simp [hk, kindFits]) v,
    Ref_scalar c ⟨doc⟩ t (typeDef?_of_mem ok hm) hk]

include hF ok in
/-- OBJECTS, closed form: exactly the records with `__typename` = the type's name and, for every field, a value
    conforming wrapper-exactly to the field's type over `Ref`; no other key; no field omitted. -/
theorem C10_alias_exact_object_closed (t : Target) (td : TypeDef) (hm : td ∈ typeDefsOf doc) (hk : td.kind = .object)
    (ht : t.isOutput = true) (v : J) :
    Mem (Env.ofFile F) v (globalise (Decls.ofFile F) [t.name] [] ((Ctx.new c doc t).leaf td.name)) ↔
      ∃ kvs, v = .obj kvs ∧
        RecordSpec (("__typename", false, fun x => x = .str td.name)
          :: td.fields.map fun f => (f.name, false, Conf (Ref c ⟨doc⟩ t) f.ty)) kvs := by
  rw [C10_alias_exact_closed c doc F hF ok t td hm (by simp [hk, kindFits, ht]) v,
    Ref_object c ⟨doc⟩ t (typeDef?_of_mem ok hm) hk ht]

include hF ok in
/-- INPUT OBJECTS, closed form: exactly the records with a conforming value (over `Ref`) for every field, a field being
    omissible iff it is nullable and `allowUndefinedAsOptionalInput` is on; no other key. -/
theorem C10_alias_exact_input_closed (t : Target) (td : TypeDef) (hm : td ∈ typeDefsOf doc) (hk : td.kind = .input)
    (ht : t.isInput = true) (v : J) :
    Mem (Env.ofFile F) v (globalise (Decls.ofFile F) [t.name] [] ((Ctx.new c doc t).leaf td.name)) ↔
      ∃ kvs, v = .obj kvs ∧
        RecordSpec (td.inputs.map fun f => (f.name, c.optionalInput && !f.ty.isNonNull, Conf (Ref c ⟨doc⟩ t) f.ty)) kvs := by
  rw [C10_alias_exact_closed c doc F hF ok t td hm (by simp [hk, kindFits, ht]) v,
    Ref_input c ⟨doc⟩ t (typeDef?_of_mem ok hm) hk ht]

include hF ok in
/-- INTERFACES and UNIONS, closed form: exactly the union of `Ref` over the possible object types (the object types
    implementing the interface, in definition order / the union's members). -/
theorem C10_alias_exact_members_closed (t : Target) (td : TypeDef) (hm : td ∈ typeDefsOf doc)
    (hk : td.kind = .interface ∨ td.kind = .union) (ht : t.isOutput = true) (v : J) :
    Mem (Env.ofFile F) v (globalise (Decls.ofFile F) [t.name] [] ((Ctx.new c doc t).leaf td.name)) ↔
      ∃ o ∈ (Schema.mk doc).possibleTypes td.name, Ref c ⟨doc⟩ t o v := by
  rw [C10_alias_exact_closed c doc F hF ok t td hm (by rcases hk with hk | hk <;> simp [hk, kindFits, ht]) v,
    Ref_abstract c ⟨doc⟩ t (typeDef?_of_mem ok hm) hk ht]

end closed

/-- non-vacuity: the hypotheses hold for the example schema, for the object type `Query` in an output namespace -/
example : ∀ v, Mem (Env.ofFile exFile) v (globalise (Decls.ofFile exFile) [Target.operationOutput.name] []
      ((Ctx.new exCfg exDoc .operationOutput).leaf "Query")) ↔ Ref exCfg ⟨exDoc⟩ .operationOutput "Query" v :=
  C10_alias_exact_closed exCfg exDoc exFile exFile_ok exDoc_ok .operationOutput exQuery (by simp [exDoc, typeDefsOf]) rfl

/-! ### why the side condition on scalar texts is needed (second corner, besides `C10_rename_counterexample`)

FULL STATEMENT (no side condition on the configured texts): false. A scalar text may mention one of the printer's own
NAMESPACE names as the head of a qualified name; inside the generated file that head is bound (to the sibling
namespace), so the text is not read globally. Witness: scalar `S` configured as `__OperationOutput.Foo`, enum `Foo`. -/

def cxDoc : TsDoc :=
  [.typeDef { kind := .scalar, name := "S" },
   .typeDef { kind := .enum, name := "Foo", values := [{ name := "A" }] }]

def cxCfg : Cfg :=
  { scalars := [("S", .single "__OperationOutput.Foo")],
    parses := [("__OperationOutput.Foo", .qref ["__OperationOutput", "Foo"])] }

def cxFile : File := match schemaFile cxCfg cxDoc with | .ok f => f | .error _ => []

/-- in the file emitted for `cxCfg`/`cxDoc` the alias of scalar `S` (input namespace) admits the enum value `"A"` of the
    schema type `Foo`, which `Ref` (the text read globally: an opaque name) does not -/
theorem C10_namespace_capture_counterexample :
    Mem (Env.ofFile cxFile) (.str "A") (globalise (Decls.ofFile cxFile) [Target.operationInput.name] []
      ((Ctx.new cxCfg cxDoc .operationInput).leaf "S")) ∧
    ¬ Ref cxCfg ⟨cxDoc⟩ .operationInput "S" (.str "A") := by
  constructor
  · exact memFuel_sound (e := Env.ofFile cxFile) [Target.operationInput.name] 5 _ _ (by decide +kernel)
  · rw [Ref_scalar cxCfg ⟨cxDoc⟩ .operationInput (td := { kind := .scalar, name := "S" })
      (by simp [Schema.typeDef?, Schema.typeDefs, cxDoc]) rfl]
    rintro ⟨sc, hsc, hm⟩
    have : sc = .single "__OperationOutput.Foo" := by
      have h2 : scalarType? cxCfg cxDoc "S" = some (.single "__OperationOutput.Foo") := by decide +kernel
      rw [show (Schema.mk cxDoc).items = cxDoc from rfl, h2] at hsc
      cases hsc; rfl
    subst this
    have hp : cxCfg.parseOf ((ScalarCfg.single "__OperationOutput.Foo").getType .operationInput)
        = .qref ["__OperationOutput", "Foo"] := by simp [Cfg.parseOf, cxCfg, ScalarCfg.getType]
    rw [hp, mem_opaque_iff (by rfl)] at hm
    cases hm

/-- the side conditions of the resolver `Result` closed form hold for the example schema -/
theorem exDoc_resolversOK : ResolverDecls.ResolversOK exCfg exDoc where
  noOmit := by decide
  names := by decide
  fieldNames := by decide

/-- non-vacuity of the resolver closed forms: field `self: [Query]` of the example's object type `Query` -/
example : ∀ v, Mem (Env.ofFiles (ResolverDecls.resolversFile exCfg exDoc) [(ResolverDecls.schemaSource, exFile)]).withStd v
      (globalise (Decls.ofFiles (ResolverDecls.resolversFile exCfg exDoc) [(ResolverDecls.schemaSource, exFile)]) [] []
        (tsOf .ref false (.list (.named "Query" {}) {})))
    ↔ ∃ k, conf (refResolverOut exCfg ⟨exDoc⟩ k) (.list (.named "Query" {}) {}) v = true :=
  C10_resolver_result_closed exCfg exDoc exFile exFile_ok exDoc_ok exDoc_resolversOK
    { name := "self", ty := .list (.named "Query" {}) {} } exQuery (by simp [exDoc, typeDefsOf]) (by decide) rfl

/-- non-vacuity of the linked form: a one-line file importing the example schema file as `M` -/
example : ∀ v, Mem (Env.ofFiles [.import "./schema" true (.star "M")] [("./schema", exFile)]) v
      (globalise (Decls.ofFiles [.import "./schema" true (.star "M")] [("./schema", exFile)]) [] [] (.qref ["M", "Query"]))
    ↔ Ref exCfg ⟨exDoc⟩ .operationOutput "Query" v :=
  C10_alias_exact_module_toplevel exCfg exDoc exFile exFile_ok exDoc_ok _ "./schema" "M" (by decide) (by decide)
    exQuery (by simp [exDoc, typeDefsOf])

end NitroVerif.Props.C10
