import NitroVerif.Lemmas.ExtResolve
/-!
# C11 — schema extensions merge into their definitions without loss or invention

Property theorems only. Model: `NitroVerif/Model/ExtResolve.lean` (`resolve` = `resolve_schema_extensions` of
`crates/semantics/src/schema_extension_resolver`, tied to the code by the correspondence check
`harness/src/bin/c11.rs`); specification: `NitroVerif/Spec/ExtMerge.lean` (`refMerge`, `NoDupOriginal`, `NoOrphan`).
All theorems quantify over ALL type-system documents (any number of items, names, components, files).

Composed with the stages downstream (second stage): `Props/C11Composed.lean` (`C11_one_schema_definition`,
`C11_decls_perm_from_sources`: the generated declaration files do not depend on the order of the source items, up to
`DeclFileEquiv` / `ResolversFileEquiv`) and `Props/C10Composed.lean` (`C10_from_sources*`: every alias of the generated
schema declaration file denotes `Ref` over `refMerge src` — the merged components of `extend type / enum / union / input /
interface / scalar / schema` all arrive in the file, nothing lost or invented).
-/
namespace NitroVerif.ExtResolve
open NitroVerif.Gql NitroVerif.ExtMerge

/-- Resolution succeeds exactly when no name is defined twice within a kind and every extension has a
    definition of its own kind. -/
theorem C11_ok_iff (doc : TsDoc) : (∃ out, resolve doc = .ok out) ↔ NoDupOriginal doc ∧ NoOrphan doc := by
  constructor
  · rintro ⟨out, h⟩
    have := resolve_ok doc out h
    exact ⟨this.1, this.2.1⟩
  · rintro ⟨h1, h2⟩
    exact resolve_ok_of doc h1 h2

/-- On success the output is, up to the order of definitions, the directive definitions followed by the reference
    merge: one definition per schema/type definition of the input whose component lists are the original's followed
    by those of its same-kind same-name extensions in document order (`refType`, `refSchema`). -/
theorem C11_merge (doc out : TsDoc) (h : resolve doc = .ok out) : out.Perm (directiveDefs doc ++ refMerge doc) := by
  obtain ⟨_, _, ss, ts, rfl, hs, ht⟩ := resolve_ok doc out h
  rw [map_dirsOf, List.append_assoc]
  exact List.Perm.append_left _ ((hs.append ht).trans (refMerge_perm doc).symm)

/-- Nothing is lost: every type definition of the input has its merged form in the output — same kind, name,
    description and positions, directives = the original's ++ those of each extension in document order, and
    likewise for the other component lists the kind has. -/
theorem C11_merge_components (doc out : TsDoc) (h : resolve doc = .ok out) (t : TypeDef) (ht : .typeDef t ∈ doc) :
    ∃ t', TsItem.typeDef t' ∈ out ∧
      t'.kind = t.kind ∧ t'.name = t.name ∧ t'.desc = t.desc ∧ t'.pos = t.pos ∧ t'.namePos = t.namePos ∧
      t'.dirs = t.dirs ++ (typeExts t.kind t.name doc).flatMap (·.dirs) ∧
      ((t.kind = .object ∨ t.kind = .interface) →
        t'.implements = t.implements ++ (typeExts t.kind t.name doc).flatMap (·.implements) ∧
        t'.fields = t.fields ++ (typeExts t.kind t.name doc).flatMap (·.fields)) ∧
      (t.kind = .union → t'.members = t.members ++ (typeExts t.kind t.name doc).flatMap (·.members)) ∧
      (t.kind = .enum → t'.values = t.values ++ (typeExts t.kind t.name doc).flatMap (·.values)) ∧
      (t.kind = .input → t'.inputs = t.inputs ++ (typeExts t.kind t.name doc).flatMap (·.inputs)) := by
  refine ⟨refType doc t, ?_, rfl, rfl, rfl, rfl, rfl, rfl, ?_, ?_, ?_, ?_⟩
  · rw [(C11_merge doc out h).mem_iff, List.mem_append]
    right
    exact List.mem_filterMap.mpr ⟨_, ht, rfl⟩
  · rintro (hk | hk) <;> simp [refType, refTypeWith, hasImplements, hasFields, hk]
  · intro hk; simp [refType, refTypeWith, hasMembers, hk]
  · intro hk; simp [refType, refTypeWith, hasValues, hk]
  · intro hk; simp [refType, refTypeWith, hasInputs, hk]

/-- The same for the schema definition: directives and root operation types of the original followed by those of
    every `extend schema` in document order. -/
theorem C11_merge_schema (doc out : TsDoc) (h : resolve doc = .ok out) (s : SchemaDef) (hs : .schemaDef s ∈ doc) :
    ∃ s', TsItem.schemaDef s' ∈ out ∧ s'.desc = s.desc ∧ s'.pos = s.pos ∧
      s'.dirs = s.dirs ++ (schemaExts doc).flatMap (·.dirs) ∧
      s'.roots = s.roots ++ (schemaExts doc).flatMap (·.roots) := by
  refine ⟨refSchema doc s, ?_, rfl, rfl, rfl, rfl⟩
  rw [(C11_merge doc out h).mem_iff, List.mem_append]
  right
  exact List.mem_filterMap.mpr ⟨_, hs, rfl⟩

/-- Nothing is invented: every item of the output is a directive definition of the input, or the merged form of a
    schema/type definition of the input; and there are exactly as many items as definitions. -/
theorem C11_no_invention (doc out : TsDoc) (h : resolve doc = .ok out) :
    (∀ it ∈ out,
      (∃ d, it = .directiveDef d ∧ it ∈ doc) ∨
      (∃ s, .schemaDef s ∈ doc ∧ it = .schemaDef (refSchema doc s)) ∨
      (∃ t, .typeDef t ∈ doc ∧ it = .typeDef (refType doc t))) ∧
    out.length = (doc.filter fun it => !isExt it).length := by
  have hp := C11_merge doc out h
  constructor
  · intro it hit
    rw [hp.mem_iff, List.mem_append] at hit
    rcases hit with hit | hit
    · obtain ⟨x, hx, hxe⟩ := List.mem_filterMap.mp hit
      cases x <;> simp at hxe
      subst hxe
      exact Or.inl ⟨_, rfl, hx⟩
    · obtain ⟨x, hx, hxe⟩ := List.mem_filterMap.mp hit
      cases x <;> simp [refItem?] at hxe
      · subst hxe; exact Or.inr (Or.inl ⟨_, hx, rfl⟩)
      · subst hxe; exact Or.inr (Or.inr ⟨_, hx, rfl⟩)
  · rw [hp.length_eq, List.length_append]
    exact length_defs doc doc

/-- No `extend` item survives. -/
theorem C11_no_extend (doc out : TsDoc) (h : resolve doc = .ok out) : ∀ it ∈ out, isExt it = false := by
  intro it hit
  rcases (C11_no_invention doc out h).1 it hit with ⟨d, rfl, _⟩ | ⟨s, _, rfl⟩ | ⟨t, _, rfl⟩ <;> rfl

/-- Directive definitions pass through unchanged (and in document order, at the front of the output); a schema or
    type definition that has no extension passes through unchanged. -/
theorem C11_passthrough (doc out : TsDoc) (h : resolve doc = .ok out) :
    (∃ rest, out = directiveDefs doc ++ rest ∧ ∀ it ∈ rest, ∀ d, it ≠ .directiveDef d) ∧
    (∀ t, .typeDef t ∈ doc → typeExts t.kind t.name doc = [] → .typeDef t ∈ out) ∧
    (∀ s, .schemaDef s ∈ doc → schemaExts doc = [] → .schemaDef s ∈ out) := by
  refine ⟨?_, ?_, ?_⟩
  · obtain ⟨_, _, ss, ts, rfl, hs, ht⟩ := resolve_ok doc out h
    refine ⟨ss ++ ts, by rw [map_dirsOf, List.append_assoc], ?_⟩
    intro it hit d hd'
    subst hd'
    rcases List.mem_append.mp hit with hm | hm
    · have := hs.mem_iff.mp hm
      simp [schemaRef] at this
    · have := ht.mem_iff.mp hm
      simp [kindRef] at this
  · intro t ht he
    obtain ⟨t', hm, _⟩ := C11_merge_components doc out h t ht
    have : refType doc t = t := by
      simp [refType, refTypeWith, he]
    have hm' : TsItem.typeDef (refType doc t) ∈ out := by
      rw [(C11_merge doc out h).mem_iff, List.mem_append]
      exact Or.inr (List.mem_filterMap.mpr ⟨_, ht, rfl⟩)
    rwa [this] at hm'
  · intro s hs he
    have : refSchema doc s = s := by
      simp [refSchema, refSchemaWith, he]
    have hm' : TsItem.schemaDef (refSchema doc s) ∈ out := by
      rw [(C11_merge doc out h).mem_iff, List.mem_append]
      exact Or.inr (List.mem_filterMap.mpr ⟨_, hs, rfl⟩)
    rwa [this] at hm'

/-- The outcome does not depend on the order of the items (extension before or after its definition, which file
    holds it): for every permutation `doc'` of `doc` that keeps, per kind and name, the relative order of the
    extensions, either both resolutions fail or both succeed with the same definitions up to their order. -/
theorem C11_perm (doc doc' : TsDoc) (hp : doc'.Perm doc) (hk : KeepsExtOrder doc' doc) :
    ((∃ out', resolve doc' = .ok out') ↔ (∃ out, resolve doc = .ok out)) ∧
    ∀ out out', resolve doc = .ok out → resolve doc' = .ok out' → out'.Perm out := by
  constructor
  · rw [C11_ok_iff, C11_ok_iff]
    have hsd : (schemaDefs doc').Perm (schemaDefs doc) := hp.filterMap _
    have htd : ∀ k, (typeDefs k doc').Perm (typeDefs k doc) := fun k => hp.filterMap _
    have hte : ∀ k, (typeExtsOfKind k doc').Perm (typeExtsOfKind k doc) := fun k => hp.filterMap _
    have h1 : NoDupOriginal doc' ↔ NoDupOriginal doc := by
      unfold NoDupOriginal
      rw [hsd.length_eq]
      exact and_congr Iff.rfl (forall_congr' fun k => ((htd k).map _).nodup_iff)
    have h2 : NoOrphan doc' ↔ NoOrphan doc := by
      unfold NoOrphan
      rw [hk.1]
      have hsd' : schemaDefs doc' ≠ [] ↔ schemaDefs doc ≠ [] := by
        have := hsd.length_eq
        constructor <;> intro hne heq <;> apply hne <;> apply List.eq_nil_of_length_eq_zero <;>
          simp_all
      rw [hsd']
      apply and_congr Iff.rfl
      apply forall_congr'
      intro k
      constructor
      · intro hh e he
        exact ((htd k).map _).mem_iff.mp (hh e ((hte k).mem_iff.mpr he))
      · intro hh e he
        exact ((htd k).map _).mem_iff.mpr (hh e ((hte k).mem_iff.mp he))
    rw [h1, h2]
  · intro out out' h h'
    have hm := C11_merge doc out h
    have hm' := C11_merge doc' out' h'
    have hf : refItem? doc' = refItem? doc := by
      funext x
      cases x <;> simp [refItem?, refSchema, refType, hk.1, hk.2]
    have hr : (refMerge doc').Perm (refMerge doc) := by
      unfold refMerge
      rw [hf]
      exact hp.filterMap _
    have hd : (directiveDefs doc').Perm (directiveDefs doc) := hp.filterMap _
    exact hm'.trans ((hd.append hr).trans hm.symm)

/-- A failure is reported as the code does, at the offending items.
    Duplicate original: `it` is the first item of the document that defines a (kind, name) — or the schema — for the
    second time (the document before it has no duplicate); the diagnostic is positioned at the earlier definition
    `f` of that kind and name, with a note at `it`. Duplicates are detected before orphans.
    Orphan extension (only when no original is duplicated): the diagnostic is positioned at `x`, the first — in
    document order — extension of its kind that has no same-kind definition, where that kind is the first one with
    an orphan in the order schema, scalar, object, interface, union, enum, input object. -/
theorem C11_err_pos (doc : TsDoc) (e : ExtError) (h : resolve doc = .error e) :
    (∃ pre it post, doc = pre ++ it :: post ∧ NoDupOriginal pre ∧ ¬ NoDupOriginal (pre ++ [it]) ∧
      ((∃ s f, it = .schemaDef s ∧ TsItem.schemaDef f ∈ pre ∧
          e = .duplicateOriginal "schema" "" f.pos s.pos) ∨
       (∃ t f, it = .typeDef t ∧ TsItem.typeDef f ∈ pre ∧ f.kind = t.kind ∧ f.name = t.name ∧
          e = .duplicateOriginal (elemName t.kind) t.name f.pos t.pos)) ∧
      e.additional = [itemPos it] ∧ ∃ f ∈ pre, e.position = itemPos f) ∨
    (NoDupOriginal doc ∧ ¬ NoOrphan doc ∧
      ((∃ x, schemaDefs doc = [] ∧ (schemaExts doc).head? = some x ∧ e = .noOriginal "schema" x.pos ∧
          e.position = x.pos) ∨
       ((schemaExts doc ≠ [] → schemaDefs doc ≠ []) ∧
        ∃ a k b x, kindOrder = a ++ k :: b ∧
          (∀ k' ∈ a, ∀ y ∈ typeExtsOfKind k' doc, isOrphan k' doc y = false) ∧
          (typeExtsOfKind k doc).find? (isOrphan k doc) = some x ∧
          e = .noOriginal (elemName k) x.pos ∧ e.position = x.pos))) := by
  rcases resolve_err doc e h with ⟨pre, it, post, hd, hnd, hcase⟩ | ⟨hnd, hcase⟩
  · left
    refine ⟨pre, it, post, hd, hnd, ?_⟩
    rcases hcase with ⟨s, f, rfl, hf, rfl⟩ | ⟨t, f, rfl, hf, rfl⟩
    · have hfm : TsItem.schemaDef f ∈ pre := by
        have : f ∈ schemaDefs pre := by rw [hf]; simp
        obtain ⟨x, hx, hxe⟩ := List.mem_filterMap.mp this
        cases x <;> simp at hxe
        subst hxe; exact hx
      refine ⟨?_, Or.inl ⟨s, f, rfl, hfm, rfl⟩, rfl, _, hfm, rfl⟩
      intro hn
      have := hn.1
      rw [schemaDefs_append, hf] at this
      simp [schemaDefs] at this
    · have hmem := List.mem_of_find?_eq_some hf
      have hname : f.name = t.name := by simpa using List.find?_some hf
      have hfm := mem_typeDefs.mp hmem
      refine ⟨?_, Or.inr ⟨t, f, rfl, hfm.1, hfm.2, hname, rfl⟩, rfl, _, hfm.1, rfl⟩
      intro hn
      have := hn.2 t.kind
      rw [typeDefs_append, List.map_append, List.nodup_append] at this
      exact this.2.2 f.name (List.mem_map.mpr ⟨f, hmem, rfl⟩) t.name (by simp [typeDefs]) hname
  · right
    have hno : ¬ NoOrphan doc := by
      intro hno
      obtain ⟨out, ho⟩ := resolve_ok_of doc hnd hno
      rw [h] at ho
      simp at ho
    refine ⟨hnd, hno, ?_⟩
    rcases hcase with ⟨x, h1, h2, rfl⟩ | ⟨h0, a, k, b, x, hko, ha, hx, rfl⟩
    · exact Or.inl ⟨x, h1, h2, rfl, rfl⟩
    · refine Or.inr ⟨h0, a, k, b, x, hko, ?_, hx, rfl, rfl⟩
      intro k' hk' y hy
      simpa [isOrphan] using ha k' hk' y hy

/-! Non-vacuity: the hypotheses of the theorems above are met by concrete documents (kernel-evaluated). -/

/-- `extend scalar S @d` before `"x" scalar S`, and `scalar A` in a second file at the same (line, column) -/
def sampleOk : TsDoc :=
  [ .typeExt { kind := .scalar, name := "S", dirs := [{ name := "d", pos := ⟨0, 16, 0, false⟩ }], pos := ⟨0, 0, 0, false⟩ },
    .directiveDef { name := "d", locations := ["SCALAR"], pos := ⟨1, 0, 0, false⟩ },
    .typeDef { kind := .scalar, desc := some "x", name := "S", pos := ⟨2, 0, 0, false⟩ },
    .typeDef { kind := .scalar, name := "A", pos := ⟨2, 0, 1, false⟩ } ]

example : ∃ out, resolve sampleOk = .ok out ∧ out.length = 3 := ⟨_, rfl, rfl⟩

/-- a second `scalar S` fails at the first one, with a note at the second -/
example : resolve (sampleOk ++ [.typeDef { kind := .scalar, name := "S", pos := ⟨9, 0, 0, false⟩ }]) =
    .error (.duplicateOriginal "scalar" "S" ⟨2, 0, 0, false⟩ ⟨9, 0, 0, false⟩) := rfl

/-- `extend type S` is an orphan although a scalar `S` exists -/
example : resolve (sampleOk ++ [.typeExt { kind := .object, name := "S", pos := ⟨9, 0, 0, false⟩ }]) =
    .error (.noOriginal "type" ⟨9, 0, 0, false⟩) := rfl

/-- a permutation of `sampleOk` that keeps the order of the extensions of each name -/
example : (sampleOk.reverse).Perm sampleOk ∧ KeepsExtOrder sampleOk.reverse sampleOk :=
  ⟨List.reverse_perm _, rfl, fun k n => by
    simp only [sampleOk, List.reverse_cons, List.reverse_nil, List.nil_append, List.cons_append, typeExts,
      List.filterMap_cons, List.filterMap_nil]⟩

end NitroVerif.ExtResolve
