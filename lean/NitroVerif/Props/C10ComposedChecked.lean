/-
C10 ∘ C11 ∘ C05 — the end-to-end statement with the schema check in place of the side condition.

`DocOK c R`, the hypothesis of every closed form of `Props/C10Closed.lean` / `Props/C10Composed.lean`, splits into
* a SCHEMA part — type names distinct, none starting with `__tmp_` or named like a prelude helper; object field types
  defined and not input objects; input field types defined scalars / enums / input objects; union members defined
  object types — which FOLLOWS from `checkSchema R = []` (C05: `C05_unique_type_names` since fix 8cdbacf,
  `C05_sound_reservedNames`, `C05_sound_knownTypeRefs`, `C05_sound_outputPositions`, `C05_sound_inputPositions`,
  `C05_sound_unionMembersObjects`), given that the built-in-position definitions do not repeat a name (a fact about
  the constant list `generate_builtins()`: `builtinTypeNamesDistinct_cli`);
* a CONFIGURATION part `CfgOK` (`bagOK`, `parses`) which no schema check can establish.
So the end-to-end statement reads: the sources resolve, the resolved document passes the schema check, the
configuration satisfies `CfgOK` ⇒ every alias denotes `Ref` over the merged schema.
Only theorems of C05 whose statements do not mention the directive-recursion walk are used.

OPEN — carried by K/O only (full list: the OPEN block of `Props/C10.lean`): `CfgOK` is discharged nowhere; `hpos` (no user
definition carries a built-in position) is a fact about the parser, assumed; `ResolversOK` stays a hypothesis of
`C10_resolvers_from_sources_checked` — `ResolversOK_of_checked` / `C10_cli_resolversOK` derive only its reserved-name part
and keep "no type named `Omit`", "only `type` / `interface` definitions carry fields", "no scalar text applies `Omit<…>`";
`resolve` and `checkSchema` are the C11 / C05 MODELS (tied to the Rust code by those properties' K streams).
-/
import NitroVerif.Props.C10Composed
import NitroVerif.Lemmas.DeclsComposedValid
import NitroVerif.Props.C05
namespace NitroVerif.Props.C10
open NitroVerif.Gql NitroVerif.Ts NitroVerif.DeclCfg NitroVerif.SchemaDecls NitroVerif.RefTypes
open NitroVerif.ExtMerge NitroVerif.ExtResolve NitroVerif.DeclsComposed NitroVerif.CheckTs

/-- **`DocOK` FROM THE SCHEMA CHECK.** A document the schema check accepts (`checkSchema R = []`), whose
    built-in-position type definitions do not repeat a name, satisfies every SCHEMA part of `DocOK`; with the
    configuration conditions `CfgOK` (scalar texts clear of the printer's own identifiers; faithful-looking parses)
    it satisfies `DocOK`. -/
theorem DocOK_of_checked (c : Cfg) (R : TsDoc) (hchk : checkSchema R = [])
    (hb : ValidTs.builtinTypeNamesDistinct R = true) (cfg : CfgOK c R) : DocOK c R :=
  docOK_of_rules ((C05_unique_type_names R hchk).2.2 hb) (C05_sound_reservedNames R hchk)
    (C05_sound_knownTypeRefs R hchk) (C05_sound_outputPositions R hchk) (C05_sound_inputPositions R hchk)
    (C05_sound_unionMembersObjects R hb hchk) cfg.bagOK cfg.parses

/-- conversely the configuration part is literally the last two fields of `DocOK`: nothing else is assumed -/
theorem CfgOK_of_DocOK (c : Cfg) (R : TsDoc) (ok : DocOK c R) : CfgOK c R := cfgOK_of_docOK ok

/-- **`ResolversOK` FROM THE SCHEMA CHECK.** Reserved names (`__…`) give "no type is called `__Resolver` /
    `__TypeResolver`" and "no field is called `__typename`"; what remains: only object / interface definitions carry
    a field list (true of every parsed document), no type is called `Omit`, no scalar text applies `Omit<…>`. -/
theorem ResolversOK_of_checked (c : Cfg) (R : TsDoc) (hchk : checkSchema R = [])
    (hfields : ∀ td ∈ typeDefsOf R, td.kind ≠ .object → td.kind ≠ .interface → td.fields = [])
    (homit : ∀ td ∈ typeDefsOf R, td.name ≠ "Omit")
    (hno : ∀ p ∈ scalarTypes c R, ∀ t ∈ Target.all, (c.parseOf (p.2.getType t)).noOmit = true) :
    ResolverDecls.ResolversOK c R :=
  resolversOK_of_rules (C05_sound_reservedNames R hchk) hfields homit hno

section checked
variable (c : Cfg) (user R : TsDoc) (F : File)
  (hres : resolve (user ++ CliSchema.builtins) = .ok R)
  (hpos : ∀ td, TsItem.typeDef td ∈ user → td.namePos.builtin = false)
  (hchk : checkSchema R = []) (cfg : CfgOK c R) (hF : schemaFile c R = .ok F)

include hres hpos hchk cfg in
/-- the side condition of the closed forms holds of what the CLI resolves, checks and prints -/
theorem C10_cli_docOK : DocOK c R :=
  DocOK_of_checked c R hchk (builtinTypeNamesDistinct_cli hres hpos) cfg

include hres hchk in
/-- `ResolversOK` for what the CLI resolves, from conditions on the USER's items: only `type` / `interface` definitions
    carry a field list (true of every parsed document), no type is called `Omit`; and on the configuration: no scalar
    text applies `Omit<…>`. The rest follows from the schema check. -/
theorem C10_cli_resolversOK
    (hfields : ∀ td, TsItem.typeDef td ∈ user → td.kind ≠ .object → td.kind ≠ .interface → td.fields = [])
    (homit : ∀ td, TsItem.typeDef td ∈ user → td.name ≠ "Omit")
    (hno : ∀ p ∈ scalarTypes c R, ∀ t ∈ Target.all, (c.parseOf (p.2.getType t)).noOmit = true) :
    ResolverDecls.ResolversOK c R := by
  refine ResolversOK_of_checked c R hchk ?_ ?_ hno
  · intro td' htd' h1 h2
    obtain ⟨td, htd, rfl⟩ := (mem_typeDefsOf_resolved hres).mp htd'
    have h0 : td.fields = [] := by
      rcases (mem_cli_defs user td).mp htd with h | ⟨n, _, rfl⟩
      · exact hfields td h h1 h2
      · rfl
    have hk : hasFields td.kind = false := by
      revert h1 h2; rw [refType_kind]; cases td.kind <;> simp [hasFields]
    simp [refType, refTypeWith, h0, hk]
  · intro td' htd'
    obtain ⟨td, htd, rfl⟩ := (mem_typeDefsOf_resolved hres).mp htd'
    rcases (mem_cli_defs user td).mp htd with h | ⟨n, hn, rfl⟩
    · exact homit td h
    · simp only [List.mem_cons, List.not_mem_nil, or_false] at hn
      rcases hn with rfl | rfl | rfl | rfl | rfl <;> simp [refType_name]

include hres hpos hchk cfg hF in
/-- **C10 END TO END.** The user's schema files `user` (definitions and extensions of all kinds, any order; no
    definition stamped with a built-in position — the parser never does), the built-ins appended as the CLI does,
    resolve to `R`; `R` passes the schema check; the configuration satisfies `CfgOK`; `F` is the schema declaration
    file printed for `R`. Then for every type `T` defined by the user or built in, and every target `t` fitting its
    kind, the alias of `T` in the namespace of `t` denotes EXACTLY `Ref_t(T)` over the merged schema (each definition
    followed by the components of its extensions in document order). -/
theorem C10_from_sources_checked (t : Target) (td : TypeDef)
    (hm : TsItem.typeDef td ∈ user ++ CliSchema.builtins) (hfit : kindFits td.kind t = true) (v : J) :
    Mem (Env.ofFile F) v (globalise (Decls.ofFile F) [t.name] [] ((Ctx.new c R t).leaf td.name))
      ↔ Ref c ⟨refMerge (user ++ CliSchema.builtins)⟩ t td.name v :=
  C10_from_sources c _ R F hres hF (C10_cli_docOK c user R hres hpos hchk cfg) t td hm hfit v

include hres hpos hchk cfg hF in
/-- **THE RESOLVERS FILE END TO END.** Under the same hypotheses (+ `ResolversOK`, see `ResolversOK_of_checked`): for
    every object type `O` the user defines and every field `f` of the MERGED type — declared by `type O {…}` or by an
    `extend type O {…}` — `Resolvers<Context>` has the member `O.f` (`C10_resolvers_from_sources`), its `Args` type
    admits exactly `Ref_ResolverInput(args f)` and its `Result` type exactly the resolver result reference. The
    argument condition of `C10_resolver_args_closed` is DISCHARGED by the schema check (arguments have defined
    scalar / enum / input-object types). -/
theorem C10_resolvers_from_sources_checked (rok : ResolverDecls.ResolversOK c R) (od : TypeDef)
    (hod : TsItem.typeDef od ∈ user ++ CliSchema.builtins) (hk : od.kind = .object) (f : FieldDef)
    (hf : f ∈ mergedFields user od) (v : J) :
    (Mem (Env.ofFiles (ResolverDecls.resolversFile c R) [(ResolverDecls.schemaSource, F)]).withStd v
      (globalise (Decls.ofFiles (ResolverDecls.resolversFile c R) [(ResolverDecls.schemaSource, F)]) [] []
        (ResolverDecls.argsType f.args))
      ↔ ∃ n, refArgs c ⟨refMerge (user ++ CliSchema.builtins)⟩ n f.args v = true) ∧
    (Mem (Env.ofFiles (ResolverDecls.resolversFile c R) [(ResolverDecls.schemaSource, F)]).withStd v
      (globalise (Decls.ofFiles (ResolverDecls.resolversFile c R) [(ResolverDecls.schemaSource, F)]) [] []
        (tsOf .ref false f.ty))
      ↔ ∃ k, conf (refResolverOut c ⟨refMerge (user ++ CliSchema.builtins)⟩ k) f.ty v = true) := by
  have ok := C10_cli_docOK c user R hres hpos hchk cfg
  have hf' : f ∈ mergedFields (user ++ CliSchema.builtins) od := by rw [mergedFields_cli]; exact hf
  refine ⟨?_, C10_resolver_result_from_sources c _ R F hres hF ok rok od hod hk f hf' v⟩
  have hmR := refType_mem_resolved hres hod
  have hfR : f ∈ (refType (user ++ CliSchema.builtins) od).fields := by
    rw [refType_fields _ od (Or.inl hk)]; exact hf'
  have hargs := argsOK_of_rules (C05_sound_knownTypeRefs R hchk) (C05_sound_inputPositions R hchk) _ hmR
    (Or.inl hk) f hfR
  simp only [refArgs_resolved_eq c hres ok.distinct]
  exact C10_resolver_args_closed_std c R F hF ok rok f hargs v

end checked

/-! ### non-vacuity: the two-file project of `Props/C10Composed.lean` passes the schema check -/

theorem srcR_checked : checkSchema srcR = [] := by decide +kernel

theorem srcUser_positions : ∀ td, TsItem.typeDef td ∈ srcFile1 ++ srcFile0 → td.namePos.builtin = false := by
  intro td h
  simp only [srcFile1, srcFile0, List.cons_append, List.nil_append, List.mem_cons, List.not_mem_nil, or_false,
    reduceCtorEq, false_or, TsItem.typeDef.injEq] at h
  rcases h with rfl | rfl | rfl | rfl | rfl | rfl | rfl | rfl | rfl <;> rfl

/-- the derived side condition is the one `Props/C10Composed.lean` checked by evaluation -/
example : DocOK exCfg srcR :=
  C10_cli_docOK exCfg (srcFile1 ++ srcFile0) srcR srcR_ok srcUser_positions srcR_checked (CfgOK_of_DocOK _ _ srcR_docOK)

/-- … and so is `ResolversOK`, from conditions on the user's items -/
example : ResolverDecls.ResolversOK exCfg srcR :=
  C10_cli_resolversOK exCfg (srcFile1 ++ srcFile0) srcR srcR_ok srcR_checked
    (by
      intro td h
      simp only [srcFile1, srcFile0, List.cons_append, List.nil_append, List.mem_cons, List.not_mem_nil, or_false,
        reduceCtorEq, false_or, TsItem.typeDef.injEq] at h
      rcases h with rfl | rfl | rfl | rfl | rfl | rfl | rfl | rfl | rfl <;> intro h1 h2 <;>
        first | rfl | exact absurd rfl h1 | exact absurd rfl h2)
    (by
      intro td h
      simp only [srcFile1, srcFile0, List.cons_append, List.nil_append, List.mem_cons, List.not_mem_nil, or_false,
        reduceCtorEq, false_or, TsItem.typeDef.injEq] at h
      rcases h with rfl | rfl | rfl | rfl | rfl | rfl | rfl | rfl | rfl <;> decide)
    srcR_resolversOK.noOmit

/-- end to end on the example: the interface `Node`, whose implementer `Post` implements it through an extension -/
example : ∀ v, Mem (Env.ofFile srcF) v (globalise (Decls.ofFile srcF) [Target.operationOutput.name] []
      ((Ctx.new exCfg srcR .operationOutput).leaf "Node")) ↔ Ref exCfg ⟨refMerge srcAll⟩ .operationOutput "Node" v :=
  C10_from_sources_checked exCfg (srcFile1 ++ srcFile0) srcR srcF srcR_ok srcUser_positions srcR_checked
    (CfgOK_of_DocOK _ _ srcR_docOK) srcF_ok .operationOutput srcNodeT (by simp [srcFile0]) rfl

/-- … and the resolver of `Query.search`, a field only `extend type Query` declares -/
example := C10_resolvers_from_sources_checked exCfg (srcFile1 ++ srcFile0) srcR srcF srcR_ok srcUser_positions
  srcR_checked (CfgOK_of_DocOK _ _ srcR_docOK) srcF_ok srcR_resolversOK srcQueryT (by simp [srcFile0]) rfl srcSearchF
  (by rw [← mergedFields_cli]; exact (srcQuery_fields ▸ by simp : srcSearchF ∈ mergedFields srcAll srcQueryT))

end NitroVerif.Props.C10
