import NitroVerif.Lemmas.Imports
import NitroVerif.Model.Paths
/-!
# C13 — `#import` resolution brings in every requested fragment, transitively, once

Property theorems only. Model: `NitroVerif/Model/Imports.lean` (the import resolver after the `fix:` commit 7cb51d3,
tied to `operation_import_resolver/mod.rs` and `operation_extension_resolver/mod.rs` by `harness/src/bin/c13.rs`);
specification: `NitroVerif/Spec/Imports.lean`.

The theorems hold for EVERY path type `κ`, path-literal type `ρ` and resolution function `res : κ → ρ → κ`
(so in particular for `κ = Paths.P`, `res doc rel = Paths.resolve doc (Paths.components rel)`, see the last section):
a file is identified by its resolved path, however the literal was spelled.

`RootOK fs root rootFile` (the resolver does not know the root's path, or maps it to the root document) is the only
side condition (of `C13_result`, `C13_scope`, `C13_result_exec` and, on both sides, of `C13_order_indep`; `C13_err_iff`,
`C13_terminates`, `C13_total` need none); both resolvers of the code base satisfy it by inspection of the code — that is
not proved here (for the loader model: `C19_rootOK_of_normalised` in `Props/C19Composed.lean`).

Instances and compositions proved elsewhere (`Props/C12Composed.lean`, `Props/C19Composed.lean`):
`C13_with_paths` / `C13_respelled` / `C13_literal_of_relative_path` — `res` := the C20 model of `resolve_relative_path`
(files identified by normalised resolved path, respelled literals identified, literals written by `relative_path` land
on the intended file); `C12_from_files*` — the result document feeds the runtime-document printer;
`C19_emit_is_printer` — the resolver inside the loader's `emit_js`, on exactly the files a task holds (`resolve` reads
its file map only through lookups and is independent of the recursion budget: `Lemmas/LoaderComposedFuel.lean`).

OPEN — carried by K/O only (`harness/src/bin/c13.rs`): that the model is the code (the model recurses on explicit fuel,
`C13_terminates` shows it is never exhausted; that the real recursion terminates is observed only; `HashMap`/`HashSet`
are lists here; the parser is used as is, the model starts from parsed import lines); `resolveExt` succeeds ↔ the wildcard
rules hold (`Spec.WellFormed`) — `C13_merge` speaks about successful merges only; `RootOK` of the two real
`OperationResolver`s; the CLI's use of the resolver (every configured document a root; CLI leg, process level).
The `legacy_*_counterexample` theorems are about `Legacy.resolve`, the algorithm BEFORE commit 7cb51d3 (the three defects
are `fixed:` in known-findings.txt), not about the current code; each also evaluates the repaired model `resolve` on the same input.
-/
namespace NitroVerif.Imports
open NitroVerif.Imports.Spec

variable {κ ρ : Type} [DecidableEq κ] [DecidableEq ρ]
variable (res : κ → ρ → κ) (fs : FS κ ρ) (root : κ) (rootFile : File ρ)

/-- Success ⇒ the appended definitions are exactly the reference set — every (file, definition) requested by an
    import line of a file reachable from the root, except the root's own definitions — and each appears once.
    (The result document is the root's own definitions followed by this list.) -/
theorem C13_result (hroot : RootOK fs root rootFile) {out : List (DefId κ)}
    (h : resolve res fs root rootFile = .ok out) :
    (∀ x, x ∈ out ↔ InRef res fs root rootFile x) ∧ out.Nodup := by
  obtain ⟨st, hp, rfl⟩ := resolve_ok res fs root rootFile h
  refine ⟨?_, nodup_emit fs hp.inv.nodup⟩
  intro x
  rw [mem_emit, post_finished res fs root rootFile hp]
  constructor
  · rintro ⟨⟨_, hne⟩, hreq, _⟩
    obtain ⟨q, imp, f, h1, h2, h3, h4, h5⟩ := hp.inv.just x hreq
    obtain ⟨n, hn, hr⟩ := (mem_selectedIdx _ _ _).mp h5
    refine ⟨⟨q, imp, f.defs, n, h1, h2, h3, defsAt_of_lookup fs h4, hn, hr⟩, ?_⟩
    rw [mem_rootIds]
    exact fun h => hne h.1
  · rintro ⟨⟨q, imp, ds, n, h1, h2, h3, h4, h5, h6⟩, hnot⟩
    obtain ⟨f, hl, hexp, _, hsel⟩ := (post_closed res fs root rootFile hp q h1).2 imp h2
    rw [h3] at hl hexp hsel
    have hds : ds = f.defs := by
      have := defsAt_of_lookup fs hl
      rw [h4] at this
      injection this
    subst hds
    have hlt : x.2 < f.defs.length := by
      have := List.getElem?_eq_some_iff.mp h5
      exact this.1
    refine ⟨⟨hexp, ?_⟩, hsel x.2 ((mem_selectedIdx _ _ _).mpr ⟨n, h5, h6⟩), f, hl, hlt⟩
    intro he
    apply hnot
    rw [mem_rootIds]
    refine ⟨he, ?_⟩
    have : f = rootFile := hroot f (by rw [← he]; exact hl)
    rw [← this]; exact hlt

/-- An error is reported exactly when some import line of a file reachable from the root points to a file that is
    not among the configured documents, or names a fragment its target file does not define. -/
theorem C13_err_iff :
    (resolve res fs root rootFile).isErr = true ↔ Dangling res fs root rootFile ∨ MissingName res fs root rootFile := by
  constructor
  · intro h
    cases hr : resolve res fs root rootFile with
    | ok out => rw [hr] at h; simp [Res.isErr] at h
    | outOfFuel => rw [hr] at h; simp [Res.isErr] at h
    | err e =>
      have hj := resolve_err res fs root rootFile hr
      cases hj with
      | dangling h1 h2 h3 => exact Or.inl ⟨_, _, h1, h2, by simp [defsAt, h3]⟩
      | missing h1 h2 h3 h4 =>
        obtain ⟨hn, hnot⟩ := missingTarget_some h4
        exact Or.inr ⟨_, _, _, _, h1, h2, defsAt_of_lookup fs h3, hn, hnot⟩
  · intro h
    cases hr : resolve res fs root rootFile with
    | err e => rfl
    | outOfFuel => exact absurd hr (resolve_fuel res fs root rootFile)
    | ok out =>
      exfalso
      obtain ⟨st, hp, _⟩ := resolve_ok res fs root rootFile hr
      rcases h with ⟨q, imp, h1, h2, h3⟩ | ⟨q, imp, ds, n, h1, h2, h3, h4, h5⟩
      · obtain ⟨f, hl, _⟩ := (post_closed res fs root rootFile hp q h1).2 imp h2
        simp [defsAt, hl] at h3
      · obtain ⟨f, hl, _, hm, _⟩ := (post_closed res fs root rootFile hp q h1).2 imp h2
        have : ds = f.defs := by
          have := defsAt_of_lookup fs hl
          rw [h3] at this
          injection this
        subst this
        exact h5 ((missingTarget_none _ _).mp hm n h4)

/-- Resolution always terminates: the recursion budget `number of configured files + 1` of the model is never
    exhausted, whatever the import graph looks like (cycles, self-imports, diamonds). -/
theorem C13_terminates : resolve res fs root rootFile ≠ .outOfFuel :=
  resolve_fuel res fs root rootFile

/-- so the result is always a success or an error -/
theorem C13_total : (∃ out, resolve res fs root rootFile = .ok out) ∨ (∃ e, resolve res fs root rootFile = .err e) := by
  cases hr : resolve res fs root rootFile with
  | ok out => exact Or.inl ⟨out, rfl⟩
  | err e => exact Or.inr ⟨e, rfl⟩
  | outOfFuel => exact absurd hr (C13_terminates res fs root rootFile)

/-- Permuting the import lines of any of the files (root included) permutes the result: the same definitions are
    appended, and an error is reported for the one input iff it is reported for the other. -/
theorem C13_order_indep {fs' : FS κ ρ} {rootFile' : File ρ} (hfs : FSPerm fs fs') (hr : FilePerm rootFile rootFile')
    (hroot : RootOK fs root rootFile) (hroot' : RootOK fs' root rootFile') :
    match resolve res fs root rootFile, resolve res fs' root rootFile' with
    | .ok out, .ok out' => out.Perm out'
    | .err _, .err _ => True
    | _, _ => False := by
  have hd := hfs.defsAt
  have hi := hfs.importsOf root hr
  have hd' := fun p => (hd p).symm
  have hi' := fun q imp => (hi q imp).symm
  have herr : (resolve res fs root rootFile).isErr = true ↔ (resolve res fs' root rootFile').isErr = true := by
    rw [C13_err_iff, C13_err_iff]
    constructor
    · rintro (h | h)
      · exact Or.inl (dangling_congr res root hd hi h)
      · exact Or.inr (missing_congr res root hd hi h)
    · rintro (h | h)
      · exact Or.inl (dangling_congr res root hd' hi' h)
      · exact Or.inr (missing_congr res root hd' hi' h)
  cases h1 : resolve res fs root rootFile with
  | outOfFuel => exact absurd h1 (C13_terminates res fs root rootFile)
  | err e =>
    cases h2 : resolve res fs' root rootFile' with
    | outOfFuel => exact absurd h2 (C13_terminates res fs' root rootFile')
    | err e' => trivial
    | ok out' => rw [h1, h2] at herr; simp [Res.isErr] at herr
  | ok out =>
    cases h2 : resolve res fs' root rootFile' with
    | outOfFuel => exact absurd h2 (C13_terminates res fs' root rootFile')
    | err e' => rw [h1, h2] at herr; simp [Res.isErr] at herr
    | ok out' =>
      obtain ⟨m1, n1⟩ := C13_result res fs root rootFile hroot h1
      obtain ⟨m2, n2⟩ := C13_result res fs' root rootFile' hroot' h2
      show out.Perm out'
      rw [List.perm_ext_iff_of_nodup n1 n2]
      intro x
      rw [m1, m2]
      have hrid : rootIds root rootFile = rootIds root rootFile' := by simp [rootIds, hr.1]
      constructor
      · rintro ⟨hs, hn⟩
        exact ⟨selected_congr res root hd hi hs, by rw [← hrid]; exact hn⟩
      · rintro ⟨hs, hn⟩
        exact ⟨selected_congr res root hd' hi' hs, by rw [hrid]; exact hn⟩

/-- Scope: on success, whenever a reachable file `q` (the root or a transitively imported file) has an import line
    that brings fragment `n` of file `res q imp.rel` into `q`'s scope, that fragment definition is in the result
    document (among the root's own definitions or among the appended ones). -/
theorem C13_scope (hroot : RootOK fs root rootFile) {out : List (DefId κ)}
    (h : resolve res fs root rootFile = .ok out) {q : κ} {imp : Import ρ} {ds : List Def} {i n : Nat}
    (hq : Reach res fs root rootFile q) (himp : imp ∈ importsOf fs root rootFile q)
    (hds : defsAt fs (res q imp.rel) = some ds) (hi : ds[i]? = some (Def.frag n)) (hreq : Requests imp.targets n) :
    (res q imp.rel, i) ∈ rootIds root rootFile ++ out := by
  rw [List.mem_append]
  by_cases hin : (res q imp.rel, i) ∈ rootIds root rootFile
  · exact Or.inl hin
  · right
    rw [(C13_result res fs root rootFile hroot h).1]
    exact ⟨⟨q, imp, ds, n, hq, himp, rfl, hds, hi, hreq⟩, hin⟩

/-! ### merging of import lines by `resolve_operation_extensions` -/

/-- When the import lines of a document pass `resolve_operation_extensions`, the merged import list has the same
    path literals as the raw lines, requests a fragment name from a literal iff some raw line with that literal does
    (`*` requests every name), and names a fragment explicitly iff some raw line does. -/
theorem C13_merge {lines : List (RawImport ρ)} {imps : List (Import ρ)} (h : resolveExt lines = .ok imps) :
    (∀ r, (∃ e ∈ imps, e.rel = r) ↔ ∃ l ∈ lines, l.rel = r) ∧
    (∀ r n, (∃ e ∈ imps, e.rel = r ∧ Requests e.targets n) ↔
      ∃ l ∈ lines, l.rel = r ∧ (RawTarget.wildcard ∈ l.targets ∨ RawTarget.name n ∈ l.targets)) ∧
    (∀ r n, (∃ e ∈ imps, e.rel = r ∧ n ∈ namesOf e.targets) ↔ ∃ l ∈ lines, l.rel = r ∧ RawTarget.name n ∈ l.targets) := by
  obtain ⟨h1, h2, h3⟩ := extLoop_sem lines [] 0 imps h
  refine ⟨fun r => ?_, fun r n => ?_, fun r n => ?_⟩
  · rw [h1]; simp
  · rw [h2]; simp [RawRequests]
  · rw [h3]; simp

/-- The reference (reachability, selected definitions, the two error conditions) depends on the import list of each
    document only through the three views preserved by `C13_merge`: so it is the same whether it is read off the raw
    `#import` lines or off the merged import lists the resolver works on. -/
theorem C13_spec_views {fs' : FS κ ρ} {rootFile' : File ρ}
    (hd : ∀ p, defsAt fs p = defsAt fs' p) (hrid : rootFile.defs.length = rootFile'.defs.length)
    (h1 : ∀ q r, (∃ imp ∈ importsOf fs root rootFile q, imp.rel = r) ↔
      ∃ imp ∈ importsOf fs' root rootFile' q, imp.rel = r)
    (h2 : ∀ q r n, (∃ imp ∈ importsOf fs root rootFile q, imp.rel = r ∧ Requests imp.targets n) ↔
      ∃ imp ∈ importsOf fs' root rootFile' q, imp.rel = r ∧ Requests imp.targets n)
    (h3 : ∀ q r n, (∃ imp ∈ importsOf fs root rootFile q, imp.rel = r ∧ n ∈ namesOf imp.targets) ↔
      ∃ imp ∈ importsOf fs' root rootFile' q, imp.rel = r ∧ n ∈ namesOf imp.targets) :
    (∀ x, InRef res fs root rootFile x ↔ InRef res fs' root rootFile' x) ∧
    (Dangling res fs root rootFile ↔ Dangling res fs' root rootFile') ∧
    (MissingName res fs root rootFile ↔ MissingName res fs' root rootFile') := by
  have hd' := fun p => (hd p).symm
  have hr : rootIds root rootFile = rootIds root rootFile' := by simp [rootIds, hrid]
  refine ⟨fun x => ⟨?_, ?_⟩, ⟨?_, ?_⟩, ⟨?_, ?_⟩⟩
  · rintro ⟨hs, hn⟩
    exact ⟨selected_views res root hd (fun q r => (h1 q r).mp) (fun q r n => (h2 q r n).mp) hs, by rw [← hr]; exact hn⟩
  · rintro ⟨hs, hn⟩
    exact ⟨selected_views res root hd' (fun q r => (h1 q r).mpr) (fun q r n => (h2 q r n).mpr) hs, by rw [hr]; exact hn⟩
  · exact dangling_views res root hd (fun q r => (h1 q r).mp)
  · exact dangling_views res root hd' (fun q r => (h1 q r).mpr)
  · exact missing_views res root hd (fun q r => (h1 q r).mp) (fun q r n => (h3 q r n).mp)
  · exact missing_views res root hd' (fun q r => (h1 q r).mpr) (fun q r n => (h3 q r n).mpr)

/-! ### the executable reference used on the O stream is the declarative one -/

/-- `refImports` (plain fixed-point iteration + selection, what the driver answers as "the spec's answer") lists
    exactly the reference set, each element once, and `refError` decides the two error conditions. -/
theorem C13_spec_exec :
    (∀ x, x ∈ refImports res fs root rootFile ↔ InRef res fs root rootFile x) ∧
    (refImports res fs root rootFile).Nodup ∧
    (refError res fs root rootFile = true ↔ Dangling res fs root rootFile ∨ MissingName res fs root rootFile) :=
  ⟨mem_refImports res fs root rootFile, nodup_refImports res fs root rootFile, refError_iff res fs root rootFile⟩

/-- model against executable reference: success ⇒ the result is a permutation of `refImports`;
    an error is reported iff `refError` says so -/
theorem C13_result_exec (hroot : RootOK fs root rootFile) :
    (resolve res fs root rootFile).isErr = refError res fs root rootFile ∧
    ∀ out, resolve res fs root rootFile = .ok out → out.Perm (refImports res fs root rootFile) := by
  constructor
  · have h1 := C13_err_iff res fs root rootFile
    have h2 := refError_iff res fs root rootFile
    cases ha : (resolve res fs root rootFile).isErr <;> cases hb : refError res fs root rootFile <;> simp_all
  · intro out h
    obtain ⟨hm, hn⟩ := C13_result res fs root rootFile hroot h
    rw [List.perm_ext_iff_of_nodup hn (nodup_refImports res fs root rootFile)]
    intro x
    rw [hm, mem_refImports]

/-! ### the algorithm before the repair violated the property (kernel-checked witnesses)

Files are numbered (`κ = ρ = Nat`, a path literal is the number of its target). These are the inputs of
DESIGN §9-ad/ae/af, reproduced on the real code before commit 7cb51d3 (replays `findings/C13-fixed-*.json`). -/

def natRes : Nat → Nat → Nat := fun _ rel => rel

/-- main(0) imports N2 from y(2) and N0 from x(1); y imports N1 from x -/
def diamondRoot : File Nat := ⟨[⟨2, 0, .specific [⟨2, 0, 0⟩]⟩, ⟨1, 1, .specific [⟨0, 1, 0⟩]⟩], [.other]⟩
def diamondFs : FS Nat Nat :=
  [(0, diamondRoot), (1, ⟨[], [.frag 0, .frag 1]⟩), (2, ⟨[⟨1, 0, .specific [⟨1, 0, 0⟩]⟩], [.frag 2]⟩)]

/-- §9-ad: the old traversal marked x visited while importing N1 for y, then skipped main's own import of N0 -/
theorem legacy_diamond_counterexample :
    Legacy.resolve natRes diamondFs 0 diamondRoot = .ok [(1, 1), (2, 0)] ∧
    (1, 0) ∈ refImports natRes diamondFs 0 diamondRoot ∧
    resolve natRes diamondFs 0 diamondRoot = .ok [(1, 0), (1, 1), (2, 0)] := by decide

/-- main(0) imports N1 from x(1); x imports N0 from main -/
def cycleRoot : File Nat := ⟨[⟨1, 0, .specific [⟨1, 0, 0⟩]⟩], [.other, .frag 0]⟩
def cycleFs : FS Nat Nat := [(0, cycleRoot), (1, ⟨[⟨0, 0, .specific [⟨0, 0, 0⟩]⟩], [.frag 1]⟩)]

/-- §9-ae: the old traversal appended the root's own fragment N0 a second time -/
theorem legacy_root_cycle_counterexample :
    Legacy.resolve natRes cycleFs 0 cycleRoot = .ok [(0, 1), (1, 0)] ∧
    (0, 1) ∈ rootIds 0 cycleRoot ∧
    resolve natRes cycleFs 0 cycleRoot = .ok [(1, 0)] := by decide

/-- `#import N0, N0 from x`, as merged by `resolve_operation_extensions` -/
def repeatRoot : File Nat := ⟨[⟨1, 0, .specific [⟨0, 0, 0⟩, ⟨0, 0, 1⟩]⟩], [.other]⟩
def repeatFs : FS Nat Nat := [(0, repeatRoot), (1, ⟨[], [.frag 0]⟩)]

/-- §9-af: one fragment found for two requested names made the old code look for a missing name that does not
    exist — `expect("missing target not found")` -/
theorem legacy_repeated_name_counterexample :
    Legacy.resolve natRes repeatFs 0 repeatRoot = .panic ∧
    resolve natRes repeatFs 0 repeatRoot = .ok [(1, 0)] ∧
    (resolveExt [(⟨1, [.name 0, .name 0]⟩ : RawImport Nat)]).toOption = some repeatRoot.imports := by decide

/-- non-vacuity of `RootOK` (and of the success hypothesis): the three graphs above satisfy it -/
example : RootOK diamondFs 0 diamondRoot ∧ RootOK cycleFs 0 cycleRoot ∧ RootOK repeatFs 0 repeatRoot := by
  refine ⟨?_, ?_, ?_⟩ <;> intro f h <;> simp [diamondFs, cycleFs, repeatFs] at h <;> exact h.symm

/-- non-vacuity of `C13_order_indep`: the diamond with main's two lines swapped -/
example : FSPerm diamondFs [(0, ⟨diamondRoot.imports.reverse, diamondRoot.defs⟩), (1, ⟨[], [.frag 0, .frag 1]⟩),
      (2, ⟨[⟨1, 0, .specific [⟨1, 0, 0⟩]⟩], [.frag 2]⟩)] ∧
    FilePerm diamondRoot ⟨diamondRoot.imports.reverse, diamondRoot.defs⟩ := by
  have hp : FilePerm diamondRoot ⟨diamondRoot.imports.reverse, diamondRoot.defs⟩ :=
    ⟨rfl, (List.reverse_perm _).symm⟩
  exact ⟨FSPerm.cons hp (FSPerm.cons ⟨rfl, List.Perm.refl _⟩ (FSPerm.cons ⟨rfl, List.Perm.refl _⟩ FSPerm.nil)), hp⟩

/-! ### the instance the code runs: paths as component lists, literals resolved by the C20 model -/

/-- `resolve_relative_path(doc, Path::new(rel))` -/
def pathRes (doc : Paths.P) (rel : String) : Paths.P := Paths.resolve doc (Paths.components rel)

/-- `C13_result` for real paths: two literals that resolve to the same normalised path denote the same file -/
example (fs : FS Paths.P String) (root : Paths.P) (rootFile : File String) (hroot : RootOK fs root rootFile)
    (out : List (DefId Paths.P)) (h : resolve pathRes fs root rootFile = .ok out) :
    (∀ x, x ∈ out ↔ InRef pathRes fs root rootFile x) ∧ out.Nodup :=
  C13_result pathRes fs root rootFile hroot h

end NitroVerif.Imports
