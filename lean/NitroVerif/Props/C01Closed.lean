/-
C01 — second stage: the hypotheses of the refinement theorem (`Props/C01.lean`) are discharged by composing with the
results of the other properties.

  1. `hyp_of_schemaFile`: `Hyp` holds for the schema declaration file THE MODEL of the schema printer emits
     (`SchemaDecls.schemaFile`, C10's subject) linked into any flat operation file through `import type * as NS`, read with
     the real `__SelectionSet` hook — from C10's closed forms (`Lemmas/DeclsClosed*.lean`).  `C01_end_to_end`: the refinement
     theorem's ⊆ direction with no hypothesis about the declaration file left.
  2. `resultTree_ok`: with the fuels the model really uses (`fuelFor D = 2·docSize D + 4`, `mfuelFor D = docSize D + 64`)
     `OpTypes.resultTree` returns a tree for every definition of an accepted, coherent document, provided the list / non-null
     wrappers of the schema's field types are not absurdly deep: `(Dn + 1)·(G + 1) ≤ docSize D + 64` (`Dn` a nesting bound
     the document fits, `G` the deepest wrapper nesting).  Ingredients, each for ALL documents: an accepted document has
     no fragment cycle and therefore nests at most `docSize D` deep (`accepted_document_fits_its_size`);
     `get_boolean_variables` visits every selection once, so `docSize D` steps suffice
     (`Lemmas/OpTypesClosedBoolVars.lean` — the first stage's bound was the EXPANDED size); `wrapper_bound_witness`: with
     70 list markers the model's own merge fuel is exhausted (a limit of the model, not of the code).
  3. `accepted_document_passes_checks`: unique type names and the decidable checks `parentsOkB` / `selOkB` / `fitsS` of
     `impl_no_panic` follow from what the REAL pipeline guarantees before generation — `checkOp S D = []` — through
     prove-c08b's walk lemma (`Lemmas/StagesGen*.lean`), under the schema conditions `schemaOkB` / `ifaceOkB`
     (both established by the schema check, which since fix 8cdbacf also establishes unique type names:
     `C08.schemaOk_of_checked` — with `noReservedFieldsB` —, `C08.ifaceOk_of_checked`, Props/C08Stages.lean, for resolved
     documents with `builtinTypeNamesDistinct`; not imported here, kept as hypotheses) and `skipIncludeB`.
     `schema_conditions_of_valid`: `schemaOkB` and C10's `DocOK` from C03's `SchemaValid` (+ no `__` type names + the
     conditions on scalar texts); `spec_fragment_map_agrees`: the two fragment maps coincide on accepted documents.
  `C01_pipeline_end_to_end` composes the three.
-/
import NitroVerif.Props.C01
import NitroVerif.Lemmas.OpTypesClosedWitness
import NitroVerif.Lemmas.OpTypesClosedFile
import NitroVerif.Lemmas.OpTypesClosedSpecFuel
import NitroVerif.Lemmas.OpTypesClosedValid
namespace NitroVerif.Props.C01
open NitroVerif.Gql NitroVerif.Ts NitroVerif.OpTypes NitroVerif.Exec NitroVerif.DeclCfg NitroVerif.SchemaDecls
open NitroVerif.OpTypes.Closed NitroVerif.Stages NitroVerif.CheckOp

/-! ### 1. `Hyp` for the model's schema declaration file -/

open NitroVerif.OpTypes.Ref in
/-- **`hyp_of_schemaFile`.** For every schema `c.S` and configuration `cfg` satisfying C10's side conditions (`DocOK`:
    a checked schema document — type names distinct, field / member types defined and usable — and scalar texts that stay
    clear of the printer's identifiers) and `CfgOk` (the value set of a scalar is what its configured text denotes; no
    scalar text applies an absolute reference or admits `null`; every composite type has a possible object type): the
    environment built from ANY flat operation file `main` whose only star import is `import type * as ns from m` and the
    schema declaration file `F` THE MODEL emits (`schemaFile cfg c.S.items = .ok F`), the way Driver/C01.lean builds it
    (`Decls.ofFiles main [(m, F)]` + `SelSem.hook`), satisfies all of `Hyp`: `__SelectionSet` has the prelude's reading,
    every object type's declaration lists `__typename` and exactly its fields, a leaf type's declaration admits exactly
    the leaf's values and never `null`. -/
theorem hyp_of_schemaFile {cfg : Cfg} {c : Exec.Ctx} {F : File} (hF : schemaFile cfg c.S.items = .ok F)
    (ok : DocOK cfg c.S.items) (K : CfgOk cfg c) (main : File) (m ns : String)
    (hflat : main.all (fun s => !s.isNamespace) = true) (himp : starImports main = [(m, ns)]) :
    Hyp c (SelSem.envOf main m F) ((Refs.ofNs ns).close (Decls.ofFiles main [(m, F)]))
      (fun tn => SelSem.origFields (Decls.ofFiles main [(m, F)]) 8
        (((Refs.ofNs ns).close (Decls.ofFiles main [(m, F)])).out tn)) :=
  hyp_schemaFile hF ok K main m ns hflat himp

/-- the side conditions are satisfiable: the witness schema, the default configuration, the file the model emits for
    them, the operation file `import type * as Schema from ""` -/
example : schemaFile Closed.W.cfg Closed.W.ctx.S.items = .ok Closed.W.file ∧ DocOK Closed.W.cfg Closed.W.ctx.S.items ∧
    CfgOk Closed.W.cfg Closed.W.ctx ∧ Closed.W.main.all (fun s => !s.isNamespace) = true ∧
    starImports Closed.W.main = [("", "Schema")] :=
  ⟨Closed.W.file_ok, Closed.W.docOK, Closed.W.cfgOk, Closed.W.main_flat, Closed.W.main_imp⟩

open NitroVerif.OpTypes.Ref in
/-- **`C01_end_to_end`** (one selection set).  Whenever the printer model returns a tree `T` for the selection set `ss` at
    a root type, every response of a spec-conformant execution (`Exec`: any σ, any resolver results, any nullable position
    null, any list length) of `ss` on a possible object type of the root is a member of THE MODEL'S EMITTED RESULT TYPE
    `toTs ns T` — closed against the declaration table of the operation file linked with THE MODEL'S EMITTED SCHEMA
    DECLARATION FILE and read with the real `__SelectionSet` hook.  No hypothesis about the declaration file is left:
    `Hyp` is `hyp_of_schemaFile`, unique type names are part of `DocOK`; what remains is about the inputs only — `DocOK`,
    `CfgOk` and the coherence of the document (FieldsInSetCanMerge + Leaf Field Selections). -/
theorem C01_end_to_end {cfg : Cfg} {c : Exec.Ctx} {F : File} (hF : schemaFile cfg c.S.items = .ok F)
    (ok : DocOK cfg c.S.items) (K : CfgOk cfg c) (main : File) (m ns : String)
    (hflat : main.all (fun s => !s.isNamespace) = true) (himp : starImports main = [(m, ns)])
    {mfuel fuel : Nat} {root : Name} {p : Pos} {ss : List Selection} {T : SelTree}
    (h : implTree c.S c.F mfuel fuel (.nonNull (.named root p)) ss = .ok T) (hC : ∀ d, Coh c d (Sb1 ss) root)
    {σ : Sigma} {o : Name} (ho : o ∈ c.S.possibleTypes root) {v : J} (hx : Exec c σ o ss v) :
    Mem (SelSem.envOf main m F) v (globalise (Decls.ofFiles main [(m, F)]) [] [] (toTs ns T)) := by
  rw [toTs_closed]
  exact C01_admits_every_response (hyp_of_schemaFile hF ok K main m ns hflat himp) (typeNamesNodup_of_docOK ok) h hC ho hx

set_option maxRecDepth 16384 in
open NitroVerif.OpTypes.Ref in
/-- non-vacuity: the witness `W` — schema `Query { a: A, name: String! }  A { x: Int, y: String }`, default configuration,
    the MODEL's schema declaration file, the document `{ a { x } a { y @skip(if: $v) } }` — satisfies every hypothesis
    (`decide` / `rfl`), and the theorem yields membership of the v = true response `{ a: { x: 1 } }` -/
example : ∃ T, implTree Closed.W.ctx.S Closed.W.ctx.F 16 16 (.nonNull (.named "Query" {})) W.selA = .ok T ∧
    Mem (SelSem.envOf Closed.W.main "" Closed.W.file) (.obj [("a", OpTypes.W.respX)])
      (globalise (Decls.ofFiles Closed.W.main [("", Closed.W.file)]) [] [] (toTs "Schema" T)) := by
  refine ⟨_, rfl, ?_⟩
  refine C01_end_to_end Closed.W.file_ok Closed.W.docOK Closed.W.cfgOk Closed.W.main "" "Schema" Closed.W.main_flat
    Closed.W.main_imp (mfuel := 16) (fuel := 16) (root := "Query") (p := {}) (ss := W.selA) rfl ?_
    (σ := sigmaOf [("v", true)]) (o := "Query") (by decide) ⟨3, execMem_sound _ _ 3 _ _ _ (by decide +kernel)⟩
  exact coherence_check_sufficient Closed.W.ctx 4 4 W.selA "Query" (by decide) (by decide)

/-! ### 2. the fuels the model really uses -/

open NitroVerif.OpTypes.Ref in
/-- **An accepted document nests at most as deep as it is long.** For every schema satisfying `schemaOkB` / `ifaceOkB` /
    `skipIncludeB` and every document the operation checker accepts, every definition's selection set — fragment spreads
    expanded — fits the nesting bound `docSize D` (`fitsS`: no fragment cycle, every spread defined): along a path
    through the expansion, selections are distinct selections of the document, because no fragment is entered twice. -/
theorem accepted_document_fits_its_size {S : Schema} {D : Doc} (hS : schemaOkB S = true) (hI : ifaceOkB S = true)
    (hSI : skipIncludeB S = true) (h : checkOp S D = []) : FitsDoc D (docSize D) :=
  fitsDoc_docSize_of_checked hS hI hSI h

open NitroVerif.OpTypes.Ref in
/-- **`resultTree_ok`.** `OpTypes.resultTree` — `get_type_for_selection_set` run with THE MODEL'S OWN fuels `fuelFor D`
    and `mfuelFor D`, the function the K stream compares with the real printer — returns a tree for every definition of
    the document (no `expect` / `panic!` site, neither fuel exhausted), for every schema with `schemaOkB` / `ifaceOkB` /
    `skipIncludeB`, every document the operation checker accepts that passes the coherence check `noKeyClashB`
    (FieldsInSetCanMerge + Leaf Field Selections), provided the type wrappers are not absurdly deep:
    `(Dn + 1)·(G + 1) ≤ docSize D + 64`, where `Dn` is any nesting bound the document fits (`fitsDocB`, decidable; such a
    bound exists and `docSize D` is one) and `G = fieldDepthBound S` the deepest list / non-null nesting of a field type.
    Both fuel bounds of `impl_no_panic` are DISCHARGED: `2·Dn + 2 ≤ fuelFor D` because the nesting is at most `docSize D`,
    and the auxiliary fuel suffices for `get_boolean_variables` because its work list visits every selection once. -/
theorem resultTree_ok {S : Schema} {D : Doc} (hS : schemaOkB S = true) (hI : ifaceOkB S = true)
    (hSI : skipIncludeB S = true) (h : checkOp S D = []) {Dc d : Nat} (hK : noKeyClashB S D Dc d = true)
    {Dn : Nat} (hfit : fitsDocB D Dn = true) (hG : (Dn + 1) * (fieldDepthBound S + 1) ≤ docSize D + 64) :
    ∀ x ∈ D, ∀ r, resultTree S D x = some r → ∃ T, r = .ok T :=
  fun x hx => def_tree_model_fuels hS hI hSI h hx (List.all_eq_true.1 hK x hx) (fitsDoc_of_check hfit) hG

/-- `query Q($v: Boolean!) { a { x } a { y @skip(if: $v) } }` -/
def wOp : ExecDef :=
  .op { kind := .query, name := some ("Q", {}), vars := [{ name := "v", ty := .nonNull (.named "Boolean" {}) }],
        sel := W.selA }

def wDoc : Doc := [wOp]

/-- the hypotheses are satisfiable: the witness schema and the document `query Q($v: Boolean!) { a { x } a { y @skip(if: $v) } }`
    (nesting bound 4, wrapper depth 1, `docSize` 6) -/
example : schemaOkB Closed.W.S = true ∧ ifaceOkB Closed.W.S = true ∧ skipIncludeB Closed.W.S = true ∧
    checkOp Closed.W.S wDoc = [] ∧ noKeyClashB Closed.W.S wDoc 4 4 = true ∧ fitsDocB wDoc 4 = true ∧
    (4 + 1) * (fieldDepthBound Closed.W.S + 1) ≤ docSize wDoc + 64 := by
  decide +kernel

/-- a named type under `n` list markers -/
def wrapN : Nat → GType → GType
  | 0, t => t
  | n + 1, t => .list (wrapN n t) {}

/-- `type A { x: Int }  type Query { a: [[…[A]…]] }` with `n` list markers (and the built-in scalars) -/
def deepSchema (n : Nat) : Schema := ⟨[
  .typeDef { kind := .scalar, name := "Int" }, .typeDef { kind := .scalar, name := "String" },
  .typeDef { kind := .scalar, name := "Boolean" },
  .typeDef { kind := .object, name := "A", fields := [{ name := "x", ty := .named "Int" {} }] },
  .typeDef { kind := .object, name := "Query", fields := [{ name := "a", ty := wrapN n (.named "A" {}) }] }]⟩

/-- `query Q { a { x } a { x } }` -/
def deepDoc : Doc := [
  .op { kind := .query, name := some ("Q", {}),
        sel := [.field none "a" {} [] [] (some [.field none "x" {} [] [] none]),
                .field none "a" {} [] [] (some [.field none "x" {} [] [] none])] }]

/-- **The wrapper bound of `resultTree_ok` cannot be dropped** (cf. `C08.model_fuels_not_sufficient_witness`): with a
    field type under 70 list markers every other hypothesis holds, the bound fails (`(2 + 1)·(70 + 1) > 5 + 64`) and the
    model runs out of its merge fuel; the bound is sufficient, not necessary (66 markers: it fails, yet a tree is returned).
    A limit of the MODEL — the Rust recursion has no such bound. -/
theorem wrapper_bound_witness :
    schemaOkB (deepSchema 70) = true ∧ ifaceOkB (deepSchema 70) = true ∧ skipIncludeB (deepSchema 70) = true ∧
    checkOp (deepSchema 70) deepDoc = [] ∧ noKeyClashB (deepSchema 70) deepDoc 2 2 = true ∧ fitsDocB deepDoc 2 = true ∧
    ¬ ((2 + 1) * (fieldDepthBound (deepSchema 70) + 1) ≤ docSize deepDoc + 64) ∧
    (deepDoc.all fun x => match resultTree (deepSchema 70) deepDoc x with
      | some (.error .outOfFuel) => true | _ => false) = true ∧
    (deepDoc.all fun x => match resultTree (deepSchema 66) deepDoc x with
      | some (.ok _) => true | _ => false) = true := by
  decide +kernel

/-! ### 3. the decidable checks of `impl_no_panic` follow from the operation check -/

open NitroVerif.OpTypes.Ref in
/-- **`accepted_document_passes_checks`.** What the REAL pipeline guarantees before generation implies the hypotheses of
    `impl_no_panic`: for a schema with `schemaOkB` (which contains the uniqueness of type names), `ifaceOkB` and
    `skipIncludeB`, and a document with `checkOp S D = []`, for every definition of the document: type names are unique,
    the root / type-condition type has parent objects (`parentsOkB`), and every selection passes the validity check `selOkB`
    for EVERY possible object type and has no fragment cycle (`fitsS`) — all at the explicit nesting bound `docSize D`. -/
theorem accepted_document_passes_checks {S : Schema} {D : Doc} (hS : schemaOkB S = true) (hI : ifaceOkB S = true)
    (hSI : skipIncludeB S = true) (h : checkOp S D = []) {x : ExecDef} (hx : x ∈ D) (hni : ∀ i, x ≠ .imp i) :
    TypeNamesNodup S ∧ parentsOkB S (rootNameOf S x) = true ∧
    (S.possibleTypes (rootNameOf S x)).all (fun o => (selOfDef x).all (selOkB S (OpTypes.fragsOf D) (docSize D) o)) = true ∧
    (selOfDef x).all (fitsS (OpTypes.fragsOf D) (docSize D)) = true := by
  obtain ⟨A, seen, vars, hA, hq⟩ := def_walked hS hI hSI h hx hni
  obtain ⟨ct, hct, hcomp, Dp, hDp⟩ := quietSet_ok hS hI hSI (CheckOp.accepted_condsDefined h) hA hq
  have hfit : ∀ s ∈ selOfDef x, fitsS (OpTypes.fragsOf D) (docSize D) s = true := by
    intro s hs
    exact fitsDoc_docSize_of_checked hS hI hSI h x hx s (by rw [selOf_eq]; exact hs)
  refine ⟨typeNamesNodup_of_valid hS, parentsOk_of_composite hS hct hcomp, ?_, List.all_eq_true.2 hfit⟩
  rw [List.all_eq_true]
  intro o ho
  rw [List.all_eq_true]
  intro s hs
  exact selOkB_down (docSize D) Dp o s ((hDp s hs).2 o ho) (hfit s hs)

open NitroVerif.OpTypes.Ref in
/-- the hypotheses are satisfiable, and the conclusion can be evaluated: the witness schema and document -/
example : (wOp ∈ wDoc ∧ ∀ i, wOp ≠ .imp i) ∧ parentsOkB Closed.W.S (rootNameOf Closed.W.S wOp) = true ∧
    (Closed.W.S.possibleTypes (rootNameOf Closed.W.S wOp)).all
      (fun o => (selOfDef wOp).all (selOkB Closed.W.S (OpTypes.fragsOf wDoc) (docSize wDoc) o)) = true :=
  ⟨⟨List.mem_cons_self, fun i hi => by cases hi⟩, by decide +kernel, by decide +kernel⟩

/-- **The schema-side hypotheses from C03's `SchemaValid`.** For a schema that is valid in the sense of C03/C04
    (`Valid.SchemaValid`: the decidable "the schema passed `check`" — unique type names, field / argument / input-field /
    member types defined and of a usable kind, built-in scalars present, root types objects) and has no type name starting
    with `__`, and a configuration whose scalar texts stay clear of the printer's identifiers (`CfgTextsOk` = the last two
    clauses of C10's `DocOK`): `schemaOkB S` (the condition of `resultTree_ok` / `accepted_document_passes_checks`) and
    C10's `DocOK` (the condition of `hyp_of_schemaFile`) hold.  What remains on the schema side of the pipeline theorems
    is `ifaceOkB` (objects implement their interfaces — the schema check's `InterfaceFieldNotImplemented` …, derived in
    `C08.ifaceOk_of_checked`) and `skipIncludeB`. -/
theorem schema_conditions_of_valid {cfg : Cfg} {S : Schema} (hv : Valid.SchemaValid S)
    (hd : noDunderTypeNamesB S = true) (hc : CfgTextsOk cfg S.items) : schemaOkB S = true ∧ DocOK cfg S.items :=
  ⟨schemaOk_of_valid hv, docOK_of_valid hv hd hc⟩

/-- the witness schema completed with the built-in scalars `Float` and `ID` (which `SchemaValid` requires) -/
def validSchema : Schema :=
  ⟨Closed.W.doc ++ [.typeDef { kind := .scalar, name := "Float" }, .typeDef { kind := .scalar, name := "ID" }]⟩

/-- the hypotheses are satisfiable -/
example : Valid.SchemaValid validSchema ∧ noDunderTypeNamesB validSchema = true ∧
    CfgTextsOk Closed.W.cfg validSchema.items ∧ ifaceOkB validSchema = true ∧ skipIncludeB validSchema = true :=
  ⟨by decide +kernel, by decide +kernel, ⟨by decide, by decide⟩, by decide +kernel, by decide +kernel⟩

/-! ### the composition -/

/-- **One fragment map.** The refinement theorem uses one fragment map for the printer model and the specification
    (`c.F`); the printer collects definitions into a `HashMap` (the LAST definition of a name wins), the specification
    (`Exec.fragsOf`, what the driver of the O stream uses) takes the FIRST.  On every document the operation checker
    accepts they are the same function, because the checker reports repeated fragment names. -/
theorem spec_fragment_map_agrees {S : Schema} {D : Doc} (h : checkOp S D = []) : Exec.fragsOf D = OpTypes.fragsOf D :=
  fragMaps_agree (CheckOp.accepted_nodup h)

/-- `query Q { a { ...F } }  fragment F on A { x }` -/
def fragDoc : Doc := [
  .op { kind := .query, name := some ("Q", {}),
        sel := [.field none "a" {} [] [] (some [.spread "F" {} [] {}])] },
  .frag { name := "F", cond := "A", sel := [.field none "x" {} [] [] none] }]

/-- the hypothesis is satisfiable by a document with a fragment -/
example : checkOp Closed.W.S fragDoc = [] := by decide +kernel

open NitroVerif.OpTypes.Ref in
/-- **`C01_pipeline_end_to_end`.** For every schema `S` with `schemaOkB` / `ifaceOkB` / `skipIncludeB` (what the schema
    check establishes), configuration `cfg` with C10's `DocOK` and `CfgOk`, and every document `D` that PASSES THE OPERATION
    CHECK (`checkOp S D = []`) and satisfies FieldsInSetCanMerge (`noKeyClashB`), whose wrappers are not absurdly deep:
    for every definition of `D`, the model of the operation type printer — run with its own fuels — returns a tree `T`,
    `opDecls` declares the type `toTs ns T` for it, and EVERY response of a spec-conformant execution of the definition's
    selection set on a possible object type of its root is a member of that type, closed against the declaration table
    of THE MODEL'S operation file (`opFileOf`) linked with THE MODEL'S schema declaration file `F` and read with the real
    `__SelectionSet` hook.  (The specification's fuel is arbitrary: the ⊆ direction needs none.  `specCtx` takes the
    printer's fragment map, which on accepted documents is the specification's: `spec_fragment_map_agrees`.) -/
theorem C01_pipeline_end_to_end {cfg : Cfg} {S : Schema} {D : Doc} {F : File} (scalar : Name → J → Bool) (fuel : Nat)
    (hS : schemaOkB S = true) (hI : ifaceOkB S = true) (hSI : skipIncludeB S = true)
    (hF : schemaFile cfg S.items = .ok F) (ok : DocOK cfg S.items) (K : CfgOk cfg (specCtx S D scalar fuel))
    (h : checkOp S D = []) {Dc d : Nat} (hK : noKeyClashB S D Dc d = true)
    {Dn : Nat} (hfit : fitsDocB D Dn = true) (hG : (Dn + 1) * (fieldDepthBound S + 1) ≤ docSize D + 64)
    (o : Opts) (m : String) {x : ExecDef} (hx : x ∈ D) (hni : ∀ i, x ≠ .imp i) :
    ∃ T, resultTree S D x = some (.ok T) ∧ (∃ dcl ∈ opDecls S o D, dcl.ty = .ok (toTs o.ns T)) ∧
      ∀ (σ : Sigma) (o' : Name) (v : J), o' ∈ S.possibleTypes (rootNameOf S x) →
        Exec (specCtx S D scalar fuel) σ o' (selOfDef x) v →
        Mem (SelSem.envOf (opFileOf o m S D) m F) v
          (globalise (Decls.ofFiles (opFileOf o m S D) [(m, F)]) [] [] (toTs o.ns T)) := by
  have hr : ∃ r, resultTree S D x = some r := by
    cases x with
    | op op => exact ⟨_, rfl⟩
    | frag f => exact ⟨_, rfl⟩
    | imp i => exact absurd rfl (hni i)
  obtain ⟨r, hr⟩ := hr
  obtain ⟨T, rfl⟩ := resultTree_ok hS hI hSI h hK hfit hG x hx r hr
  refine ⟨T, hr, opDecls_of_resultTree S o D hx hr, ?_⟩
  intro σ o' v ho' hex
  obtain ⟨p, himpl⟩ := resultTree_implTree hr
  have hcoh := List.all_eq_true.1 hK x hx
  simp only [cohDefB, Bool.and_eq_true, List.all_eq_true] at hcoh
  have hC : ∀ d', Coh (specCtx S D scalar fuel) d' (Sb1 (selOfDef x)) (rootNameOf S x) :=
    coh_of_cohB (specCtx S D scalar fuel) Dc d (selOfDef x) (rootNameOf S x) hcoh.1 hcoh.2
  exact C01_end_to_end (c := specCtx S D scalar fuel) hF ok K (opFileOf o m S D) m o.ns (opFileOf_flat o m S D)
    (opFileOf_imports o m S D) himpl hC ho' hex

set_option maxRecDepth 16384 in
/-- non-vacuity of the composition: witness schema (with `@skip` defined), default configuration, the document
    `query Q($v: Boolean!) { a { x } a { y @skip(if: $v) } }` — every hypothesis by `decide` / `rfl`; the theorem gives a
    tree and membership of the v = true response `{ a: { x: 1 } }` in the type declared as `QResult` -/
example : ∃ T, resultTree Closed.W.S wDoc wOp = some (.ok T) ∧
    Mem (SelSem.envOf (opFileOf {} "" Closed.W.S wDoc) "" Closed.W.file) (.obj [("a", OpTypes.W.respX)])
      (globalise (Decls.ofFiles (opFileOf {} "" Closed.W.S wDoc) [("", Closed.W.file)]) [] [] (toTs "Schema" T)) := by
  have K : CfgOk Closed.W.cfg (specCtx Closed.W.S wDoc (Closed.W.scalarOf Closed.W.cfg Closed.W.doc) 16) :=
    ⟨Closed.W.cfgOk.scalars, Closed.W.cfgOk.plain, Closed.W.cfgOk.notNull, Closed.W.cfgOk.inhabited⟩
  obtain ⟨T, h1, _, h3⟩ := C01_pipeline_end_to_end (cfg := Closed.W.cfg) (S := Closed.W.S) (D := wDoc)
    (Closed.W.scalarOf Closed.W.cfg Closed.W.doc) 16 (by decide +kernel) (by decide +kernel) (by decide +kernel)
    Closed.W.file_ok Closed.W.docOK K (by decide +kernel) (Dc := 4) (d := 4) (by decide +kernel) (Dn := 4)
    (by decide +kernel) (by decide +kernel) {} "" (x := wOp) List.mem_cons_self (by intro i hi; cases hi)
  exact ⟨T, h1, h3 (sigmaOf [("v", true)]) "Query" _ (by decide)
    ⟨3, execMem_sound _ _ 3 _ _ _ (by decide +kernel)⟩⟩

/-
OPEN after this file — carried by K/O only

  * that the Lean models ARE the code: the operation type printer (K of C01), the schema declaration printer (K of C10),
    the operation checker (K of C03/C04);
  * the reading of the emitted TypeScript (Ts/Sem.lean, Ts/SelSem.lean) — trusted;
  * the schema-side hypotheses `schemaOkB` / `ifaceOkB` (derived from the schema check in `Props/C08Stages.lean`:
    `schemaOk_of_checked` — under `builtinTypeNamesDistinct` and `noReservedFieldsB` —, `ifaceOk_of_checked` — under
    `builtinTypeNamesDistinct`; the schema check establishes unique type names since fix 8cdbacf; that module is not
    imported, they are kept as hypotheses here; `schemaOkB` also follows from C03's `SchemaValid`:
    `schema_conditions_of_valid`), `skipIncludeB` (a schema may shadow `@skip` / `@include`: C08's open finding),
    C10's `DocOK` (unique type names, field / member types defined and usable — what the schema check reports —, scalar
    texts clear of the printer's identifiers; the parse of a scalar text is not modelled: `Cfg.parses` is a supplied
    table, constrained by `DocOK.parses` only) and `CfgOk` (scalar value sets = configured texts — a definition, C09's
    subject —; no scalar text admits `null` / applies an absolute reference; `inhabited`: every composite type has a
    possible object type — an interface without implementing object type is valid GraphQL, its member type `never` is
    read as "key absent" by the trusted reading of `__SelectionSet`);
  * `noKeyClashB` (FieldsInSetCanMerge): part of spec validity, NOT checked by the real `check`
    (`C03_field_merge_not_implemented`, Props/C03FieldMerge.lean; open finding recorded under C08,
    `O:panic:generate:leaf-object-key-clash`);
  * the wrapper bound of `resultTree_ok` is sufficient, not necessary (`wrapper_bound_witness`);
  * `opFileOf` has only the import and the result-type statements of the operation file (no Variables types, no document
    constants): the theorems hold for EVERY flat file with that one star import (`C01_end_to_end`).
-/

end NitroVerif.Props.C01
