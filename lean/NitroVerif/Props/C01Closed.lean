/-
C01 — second stage: the hypotheses of the refinement theorem (`Props/C01.lean`) are discharged by composing with the
results of the other properties.

  1. `hyp_of_schemaFile`: `Hyp` holds for the schema declaration file THE MODEL of the schema printer emits
     (`SchemaDecls.schemaFile`, C10's subject) linked into any flat operation file through `import type * as NS`, read with
     the real `__SelectionSet` hook — from C10's closed forms (`Lemmas/DeclsClosed*.lean`).  `C01_end_to_end`: the refinement
     theorem's ⊆ direction with no hypothesis about the declaration file left.
-/
import NitroVerif.Props.C01
import NitroVerif.Lemmas.OpTypesClosedWitness
namespace NitroVerif.Props.C01
open NitroVerif.Gql NitroVerif.Ts NitroVerif.OpTypes NitroVerif.Exec NitroVerif.DeclCfg NitroVerif.SchemaDecls
open NitroVerif.OpTypes.Closed

/-! ### 1. `Hyp` for the model's schema declaration file -/

open NitroVerif.OpTypes.Ref in
/-- **`hyp_of_schemaFile`.** For every schema `c.S` and configuration `cfg` satisfying C10's side conditions (`DocOK`:
    a checked schema document — type names distinct, field / member types defined and usable — and scalar texts that stay
    clear of the printer's identifiers) and `CfgOk` (the value set of a scalar is what its configured text denotes; no
    scalar text applies an absolute reference or admits `null`; every composite type has a possible object type): the
    environment built from ANY flat operation file `main` whose only star import is `import type * as ns from m` and the
    schema declaration file `F` THE MODEL emits (`schemaFile cfg c.S.items = .ok F`), the way Driver/C01.lean builds it
    (`Decls.ofFiles main [(m, F)]` + `SelSem.hook`), satisfies all of `Hyp`: `__SelectionSet` has the prelude's reading,
    every object type's declaration lists `__typename` and exactly its fields, a leaf type's declaration admits exactly
    the leaf's values and never `null`. -/
theorem hyp_of_schemaFile {cfg : Cfg} {c : Exec.Ctx} {F : File} (hF : schemaFile cfg c.S.items = .ok F)
    (ok : DocOK cfg c.S.items) (K : CfgOk cfg c) (main : File) (m ns : String)
    (hflat : main.all (fun s => !s.isNamespace) = true) (himp : starImports main = [(m, ns)]) :
    Hyp c (SelSem.envOf main m F) ((Refs.ofNs ns).close (Decls.ofFiles main [(m, F)]))
      (fun tn => SelSem.origFields (Decls.ofFiles main [(m, F)]) 8
        (((Refs.ofNs ns).close (Decls.ofFiles main [(m, F)])).out tn)) :=
  hyp_schemaFile hF ok K main m ns hflat himp

/-- the side conditions are satisfiable: the witness schema, the default configuration, the file the model emits for
    them, the operation file `import type * as Schema from ""` -/
example : schemaFile Closed.W.cfg Closed.W.ctx.S.items = .ok Closed.W.file ∧ DocOK Closed.W.cfg Closed.W.ctx.S.items ∧
    CfgOk Closed.W.cfg Closed.W.ctx ∧ Closed.W.main.all (fun s => !s.isNamespace) = true ∧
    starImports Closed.W.main = [("", "Schema")] :=
  ⟨Closed.W.file_ok, Closed.W.docOK, Closed.W.cfgOk, Closed.W.main_flat, Closed.W.main_imp⟩

open NitroVerif.OpTypes.Ref in
/-- **`C01_end_to_end`** (one selection set).  Whenever the printer model returns a tree `T` for the selection set `ss` at
    a root type, every response of a spec-conformant execution (`Exec`: any σ, any resolver results, any nullable position
    null, any list length) of `ss` on a possible object type of the root is a member of THE MODEL'S EMITTED RESULT TYPE
    `toTs ns T` — closed against the declaration table of the operation file linked with THE MODEL'S EMITTED SCHEMA
    DECLARATION FILE and read with the real `__SelectionSet` hook.  No hypothesis about the declaration file is left:
    `Hyp` is `hyp_of_schemaFile`, unique type names are part of `DocOK`; what remains is about the inputs only — `DocOK`,
    `CfgOk` and the coherence of the document (FieldsInSetCanMerge + Leaf Field Selections). -/
theorem C01_end_to_end {cfg : Cfg} {c : Exec.Ctx} {F : File} (hF : schemaFile cfg c.S.items = .ok F)
    (ok : DocOK cfg c.S.items) (K : CfgOk cfg c) (main : File) (m ns : String)
    (hflat : main.all (fun s => !s.isNamespace) = true) (himp : starImports main = [(m, ns)])
    {mfuel fuel : Nat} {root : Name} {p : Pos} {ss : List Selection} {T : SelTree}
    (h : implTree c.S c.F mfuel fuel (.nonNull (.named root p)) ss = .ok T) (hC : ∀ d, Coh c d (Sb1 ss) root)
    {σ : Sigma} {o : Name} (ho : o ∈ c.S.possibleTypes root) {v : J} (hx : Exec c σ o ss v) :
    Mem (SelSem.envOf main m F) v (globalise (Decls.ofFiles main [(m, F)]) [] [] (toTs ns T)) := by
  rw [toTs_closed]
  exact C01_admits_every_response (hyp_of_schemaFile hF ok K main m ns hflat himp) (typeNamesNodup_of_docOK ok) h hC ho hx

set_option maxRecDepth 16384 in
open NitroVerif.OpTypes.Ref in
/-- non-vacuity: the witness `W` — schema `Query { a: A, name: String! }  A { x: Int, y: String }`, default configuration,
    the MODEL's schema declaration file, the document `{ a { x } a { y @skip(if: $v) } }` — satisfies every hypothesis
    (`decide` / `rfl`), and the theorem yields membership of the v = true response `{ a: { x: 1 } }` -/
example : ∃ T, implTree Closed.W.ctx.S Closed.W.ctx.F 16 16 (.nonNull (.named "Query" {})) W.selA = .ok T ∧
    Mem (SelSem.envOf Closed.W.main "" Closed.W.file) (.obj [("a", OpTypes.W.respX)])
      (globalise (Decls.ofFiles Closed.W.main [("", Closed.W.file)]) [] [] (toTs "Schema" T)) := by
  refine ⟨_, rfl, ?_⟩
  refine C01_end_to_end Closed.W.file_ok Closed.W.docOK Closed.W.cfgOk Closed.W.main "" "Schema" Closed.W.main_flat
    Closed.W.main_imp (mfuel := 16) (fuel := 16) (root := "Query") (p := {}) (ss := W.selA) rfl ?_
    (σ := sigmaOf [("v", true)]) (o := "Query") (by decide) ⟨3, execMem_sound _ _ 3 _ _ _ (by decide +kernel)⟩
  exact coherence_check_sufficient Closed.W.ctx 4 4 W.selA "Query" (by decide) (by decide)

end NitroVerif.Props.C01
