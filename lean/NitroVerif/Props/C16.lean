import NitroVerif.Lemmas.JsTemplate
import NitroVerif.Lemmas.GqlString
import NitroVerif.Lemmas.Strip
import NitroVerif.Lemmas.GqlTokens
/-!
# C16 — the emitted server schema string re-parses to the schema that was checked; parse ∘ print = id

Property theorems only. Models: `Model/JsTemplate.lean` (`JsStringWriter`, `JustWriter`, the module wrapper of
generate.rs), `Model/GqlPrint.lean` (graphql_printer, `remove_builtins`, the model plugin's server transform),
tied to the Rust code by the correspondence check `harness/src/bin/c16.rs`. Specifications: `Spec/Cook.lean`
(ECMAScript template cooking), `Spec/GqlString.lean` (GraphQL StringValue semantics), `Spec/StripDirective.lean`,
`Spec/GqlTokens.lean`.

The property is the composition   parse (cook (between-back-ticks (module))) = strip (checked document).
Proved here, for ALL inputs: the template layer (`template_roundtrip`, `template_no_break`, with the bridge
`printString_no_cr`), the quoted string-literal layer (`print_string_roundtrip_partial`), the stripping layer
(`strip_exact`, `strip_model_exact`) and the Type sub-language at token level (`print_tokens_type`,
`C16_roundtrip_partial`). What is NOT proved is listed in the OPEN blocks and is carried by K/O only.
-/
namespace NitroVerif.C16
open NitroVerif.Gql NitroVerif.JsTemplate NitroVerif.Cook NitroVerif.GqlPrint NitroVerif.GqlString

/-! ## 1. template literal layer -/

/-- the text holds no carriage return (a raw CR, alone or before LF, is cooked to LF — see `template_cr_counterexample`) -/
def NoCR (s : List Char) : Prop := ∀ c ∈ s, c ≠ '\r'

/-- For EVERY text without a carriage return (any length; back-ticks, backslashes, `$`, `{`, `${`, line feeds,
    U+2028/2029, any other character): evaluating the template literal that `JsStringWriter` writes for it
    gives back exactly the text. -/
theorem template_roundtrip (s : List Char) (h : NoCR s) : cook (jsStringBody s) = some s :=
  run_jsGo s false h

example : NoCR "a`b${c}\\d\n$\\{".toList := by unfold NoCR; decide

/-- For EVERY text (no hypothesis): what `JsStringWriter` writes between the back-ticks contains no unescaped
    back-tick, no unescaped `${`, and does not end inside an escape — the literal ends where the writer ends it. -/
theorem template_no_break (s : List Char) : unbroken false false (jsStringBody s) = true :=
  unbroken_jsGo s false

/-- The `NoCR` hypothesis is necessary: a carriage return is written raw and cooks to a line feed. -/
theorem template_cr_counterexample : cook (jsStringBody ['a', '\r', 'b']) = some ['a', '\n', 'b'] := by decide

/-- Bridge to the GraphQL printer: the quoted form of a string literal never contains a carriage return
    (it is written `\r`), and the block form is only chosen for strings without one (`canBlock`), so string
    literals never hand a CR to the template writer. -/
theorem printQuoted_no_cr (s : List Char) : NoCR (printQuoted s) := by
  intro c hc
  unfold printQuoted at hc
  simp only [List.mem_cons, List.mem_append, List.mem_nil_iff, or_false] at hc
  rcases hc with hc | hc | hc
  · subst hc; decide
  · induction s with
    | nil => simp [quotedBody] at hc
    | cons a as ih =>
      simp only [quotedBody, List.mem_append] at hc
      rcases hc with hc | hc
      · exact quotedChar_no_cr a c hc
      · exact ih hc
  · subst hc; decide

/-! ## 2. string literal layer -/

/-
FULL STATEMENT (false of the code — see the two counterexamples and known-findings.txt):

  theorem print_string_roundtrip (s : List Char) : decodeStringLiteral (printString s) = some s

It fails (a) for a string with a double quote printed in the quoted form (the quote is written unescaped;
escaping it changes the pinned `read_introspection` snapshot), and (b) for a string printed in the block form
whose `BlockStringValue` differs from itself (leading / trailing blank line, common indentation): the AST
cannot tell a decoded value from raw block-string content, and the printer snapshot pins the block form.
-/

/-- For EVERY string that is printed in the quoted form and holds no double quote (any other character:
    backslashes, CR, LF, every control character, astral characters …): the literal `print_string` writes is
    exactly one GraphQL string token whose value is the string. -/
theorem print_string_roundtrip_partial (s : List Char) (hform : useBlock s = false) (hq : ∀ c ∈ s, c ≠ dquote) :
    decodeStringLiteral (printString s) = some s := by
  unfold printString
  simp only [hform, Bool.false_eq_true, if_false]
  exact decode_printQuoted s hq

example : useBlock "say 'hi' \\ there\r\n\\u0041 \x01".toList = false ∧ ∀ c ∈ "say 'hi' \\ there\r\n\\u0041 \x01".toList, c ≠ dquote := by
  decide

/-- (a) a double quote is not escaped: the literal written for `a"b` is not a string token -/
theorem print_string_roundtrip_counterexample :
    decodeStringLiteral (printString ['a', dquote, 'b']) = none := by decide

/-- (b) a leading blank line is lost: the literal written for "\na" (block form) denotes "a" -/
theorem print_string_block_counterexample :
    decodeStringLiteral (printString ['\n', 'a']) = some ['a'] := by decide

/-! ## 3. stripping layer -/

/-- `@n` is applied on scalar definitions only (what the type-system checker guarantees for
    `@nitrogql_ts_type … on SCALAR`) -/
def OnlyOnScalars (n : Name) (d : TsDoc) : Prop :=
  ∀ i ∈ d, match i with
    | .typeDef t => Strip.typeInnerClean n t = true ∧ (t.kind = .scalar ∨ Strip.dirsClean n t.dirs = true)
    | .typeExt t => Strip.typeInnerClean n t = true ∧ Strip.dirsClean n t.dirs = true
    | .directiveDef dd => dd.args.all (Strip.ivClean n) = true
    | .schemaDef s => Strip.dirsClean n s.dirs = true
    | .schemaExt s => Strip.dirsClean n s.dirs = true

/-- `remove_builtins` removes exactly the nitrogql-only directive: on every document in which
    `@nitrogql_ts_type` is applied on scalars only, its result is the document without the definition of the
    directive and without any application of it — every other item, and every other part of every item, is
    kept, in order. -/
theorem strip_exact (d : TsDoc) (h : OnlyOnScalars nitroName d) :
    removeBuiltins d = Strip.stripDirective nitroName d := by
  unfold removeBuiltins Strip.stripDirective
  induction d with
  | nil => rfl
  | cons i is ih =>
    have hi := h i (by simp)
    have his : OnlyOnScalars nitroName is := fun j hj => h j (by simp [hj])
    have key : removeBuiltinsItem i = Strip.item nitroName i := by
      cases i with
      | directiveDef dd =>
        simp only at hi
        simp only [removeBuiltinsItem, Strip.item, Strip.inputValues_clean _ _ hi]
        by_cases hn : dd.name = nitroName <;> simp [hn]
      | typeDef t =>
        simp only at hi
        obtain ⟨hin, hd⟩ := hi
        simp only [removeBuiltinsItem, Strip.item, Strip.typeDef_inner_clean _ _ hin]
        by_cases hk : t.kind = .scalar
        · simp [hk, dropDirs, Strip.dirs]
        · have hd' : Strip.dirsClean nitroName t.dirs = true := by
            rcases hd with hd | hd
            · exact absurd hd hk
            · exact hd
          simp [hk, Strip.dirs_clean _ _ hd']
      | typeExt t =>
        simp only at hi
        simp only [removeBuiltinsItem, Strip.item, Strip.typeDef_inner_clean _ _ hi.1, Strip.dirs_clean _ _ hi.2]
      | schemaDef s =>
        simp only at hi
        simp only [removeBuiltinsItem, Strip.item, Strip.schemaDef, Strip.dirs_clean _ _ hi]
      | schemaExt s =>
        simp only at hi
        simp only [removeBuiltinsItem, Strip.item, Strip.schemaDef, Strip.dirs_clean _ _ hi]
    simp only [List.filterMap_cons, key, ih his]

example : OnlyOnScalars nitroName
    [.typeDef { kind := .scalar, name := "Date", dirs := [{ name := "nitrogql_ts_type" }, { name := "specifiedBy" }] },
     .directiveDef { name := "nitrogql_ts_type", locations := ["SCALAR"] },
     .typeDef { kind := .object, name := "Q", fields := [{ name := "f", ty := .named "Date" {}, dirs := [{ name := "deprecated" }] }] }] := by
  intro i hi
  simp only [List.mem_cons, List.mem_nil_iff, or_false] at hi
  rcases hi with rfl | rfl | rfl <;> decide

/-
OPEN — carried by K/O only
  * `strip_model_exact`: the same statement for the model plugin's `transform_document_for_runtime_server`
    (`removeModel d = stripDirective "model" d` when `@model` is applied on object types and their fields only).
    K compares the real transform with `removeModel`, O compares the re-parsed server schema with
    `stripDirective "model" (stripDirective "nitrogql_ts_type" checked)`.
-/

/-! ## 4. token level: the Type sub-language -/

/-- For EVERY type: the significant tokens the printer writes are the canonical token stream of the type. -/
theorem print_tokens_type (t : GType) : (printType t).filterMap lex = GqlTokens.typeToks t := by
  induction t with
  | named n p => rfl
  | list t p ih => simp [printType, GqlTokens.typeToks, List.filterMap_append, lex, ih]
  | nonNull t ih => simp [printType, GqlTokens.typeToks, List.filterMap_append, lex, ih]

/-- parse ∘ print = id on the Type sub-language, for EVERY type the grammar can produce (arbitrary nesting of
    lists and non-null markers, arbitrary names): reading the printer's significant tokens with the
    specification's token parser gives back the type (positions erased), and consumes exactly its tokens. -/
theorem C16_roundtrip_partial (t : GType) (hwf : GqlTokens.wfType t = true) (rest : List GqlTokens.LTok)
    (hrest : rest.head? ≠ some (.p "!")) :
    GqlTokens.parseType (GqlTokens.depth t + 1) ((printType t).filterMap lex ++ rest) = some (t.erasePos, rest) := by
  rw [print_tokens_type, parseType_typeToks t hwf rest _ (by omega)]
  split
  · rfl
  · cases rest with
    | nil => rfl
    | cons tok r =>
      have : tok ≠ .p "!" := by
        intro h; subst h; simp at hrest
      simp [GqlTokens.bang, this]

example : GqlTokens.wfType (.nonNull (.list (.nonNull (.named "Int" {})) {})) = true := by decide

/-- the well-formedness hypothesis is necessary: `Int!!` is printed for the (unparsable-from-text) tree
    non-null of non-null, and does not read back -/
theorem C16_roundtrip_counterexample :
    GqlTokens.parseType 3 ((printType (.nonNull (.nonNull (.named "Int" {})))).filterMap lex) ≠
      some ((GType.nonNull (.nonNull (.named "Int" {}))).erasePos, []) := by decide

/-
OPEN — carried by K/O only (never claimed as proved)
  * `print_tokens` for Value, Directive, selections, definitions: "the significant tokens printed for A are the
    canonical token stream of A" and the token-level parse-back for those node kinds.
  * `print_block_roundtrip`: `useBlock s → decodeStringLiteral (printString s) = some (blockStringValue s)`
    (the block form lexes back to ONE token whose raw value is `s`), and its indentation-stable version
    (the writer indents the continuation lines of a block string by the current indentation).
  * the composition `parse (cook (serverModule …)) = stripDirective … d` over a parser model (C07's PEG model):
    O evaluates it on the real parser for generated schemas; K ties every model in this file to the code.
  * `jsLiteral ops = "`\n" ++ jsStringBody (justText ops) ++ "`"` when no written chunk ends in `$`
    (the writer's dollar flag is per chunk); K compares both writers' outputs on every generated document.
-/

end NitroVerif.C16
