import NitroVerif.Lemmas.JsTemplate
import NitroVerif.Lemmas.GqlString
import NitroVerif.Lemmas.Strip
import NitroVerif.Lemmas.GqlTokens
import NitroVerif.Lemmas.PrinterWalk
import NitroVerif.Lemmas.BlockString
import NitroVerif.Lemmas.ValueTokens
/-!
# C16 — the emitted server schema string re-parses to the schema that was checked; parse ∘ print = id

Property theorems only. Models: `Model/JsTemplate.lean` (`JsStringWriter`, `JustWriter`, the module wrapper of
generate.rs), `Model/GqlPrint.lean` (graphql_printer, `remove_builtins`, the model plugin's server transform),
tied to the Rust code by the correspondence check `harness/src/bin/c16.rs`. Specifications: `Spec/Cook.lean`
(ECMAScript template cooking), `Spec/GqlString.lean` (GraphQL StringValue semantics), `Spec/StripDirective.lean`,
`Spec/GqlTokens.lean`.

The property is the composition   parse (cook (between-back-ticks (module))) = strip (checked document).
Proved here, for ALL inputs that satisfy the hypotheses stated with each theorem: the template layer (`template_roundtrip`
under `NoCR`, `template_no_break`, with the bridge `printQuoted_no_cr`; the full bridge `printString_no_cr` is in
`Lemmas/TokChunks.lean`), the string-literal layer (`print_string_roundtrip_partial`, `print_block_*`,
`print_string_roundtrip_exact`), the stripping layer (`strip_exact`, `strip_model_exact`) and the Type sub-language at token
level (`print_tokens_type`, `C16_roundtrip_partial`), Value, Directive and the token streams of executable definitions. Whole
documents (token streams of type-system definitions, parse-back of every definition, the block form under indentation, the
composition `C16_roundtrip_tokens_*`) are in `Props/C16Tokens.lean`; the character level (`C16_roundtrip_text_*`) is in
`Props/C16Text.lean` — both over the SPECIFICATION's lexer and parser; the composition over the model of nitrogql's OWN parser
(`C16_roundtrip_own_parser_*`, `server_module_roundtrip_own`) is in `Props/C16Own.lean`. What is NOT proved is listed in the
OPEN blocks and is carried by K/O only.

The `*_counterexample` theorems are of two kinds. Open findings of the CODE (known-findings.txt): the double quote
(`print_string_roundtrip_counterexample`), the block form of a string with `BlockStringValue s ≠ s`
(`print_string_block_counterexample`), the member-less union (`print_tokens_union_counterexample` in C16Tokens). Inherent side
conditions, NOT defects: `template_cr_counterexample` (ECMAScript cooking turns a raw CR into LF; the printer never hands a CR
to the writer — string literals by `printQuoted_no_cr` / `canBlock`, names by `nameOK`), `template_chunks_counterexample`
(a chunk sequence the printer does not produce when names are `nameOK`: `printer_chunks_safe_*`),
`C16_roundtrip_counterexample` and `C16_roundtrip_value_counterexample` (trees
of the AST that no GraphQL text denotes: non-null of non-null, an enum value named `true`).
-/
namespace NitroVerif.C16
open NitroVerif.Gql NitroVerif.JsTemplate NitroVerif.Cook NitroVerif.GqlPrint NitroVerif.GqlString

/-! ## 1. template literal layer -/

/-- the text holds no carriage return (a raw CR, alone or before LF, is cooked to LF — see `template_cr_counterexample`) -/
def NoCR (s : List Char) : Prop := ∀ c ∈ s, c ≠ '\r'

/-- For EVERY text without a carriage return (any length; back-ticks, backslashes, `$`, `{`, `${`, line feeds,
    U+2028/2029, any other character): evaluating the template literal that `JsStringWriter` writes for it
    gives back exactly the text. -/
theorem template_roundtrip (s : List Char) (h : NoCR s) : cook (jsStringBody s) = some s :=
  run_jsGo s false h

example : NoCR "a`b${c}\\d\n$\\{".toList := by unfold NoCR; decide

/-- For EVERY text (no hypothesis): what `JsStringWriter` writes between the back-ticks contains no unescaped
    back-tick, no unescaped `${`, and does not end inside an escape — the literal ends where the writer ends it. -/
theorem template_no_break (s : List Char) : unbroken false false (jsStringBody s) = true :=
  unbroken_jsGo s false

/-- The `NoCR` hypothesis is necessary: a carriage return is written raw and cooks to a line feed. -/
theorem template_cr_counterexample : cook (jsStringBody ['a', '\r', 'b']) = some ['a', '\n', 'b'] := by decide

/-- Bridge to the GraphQL printer: the quoted form of a string literal never contains a carriage return
    (it is written `\r`), and the block form is only chosen for strings without one (`canBlock`), so string
    literals never hand a CR to the template writer. -/
theorem printQuoted_no_cr (s : List Char) : NoCR (printQuoted s) := by
  intro c hc
  unfold printQuoted at hc
  simp only [List.mem_cons, List.mem_append, List.mem_nil_iff, or_false] at hc
  rcases hc with hc | hc | hc
  · subst hc; decide
  · induction s with
    | nil => simp [quotedBody] at hc
    | cons a as ih =>
      simp only [quotedBody, List.mem_append] at hc
      rcases hc with hc | hc
      · exact quotedChar_no_cr a c hc
      · exact ih hc
  · subst hc; decide

/-! ### 1b. the writer's real chunking

`JsStringWriter` keeps its `dollar_flag` per `write` call. `safeOps` (Lemmas/JsChunks.lean) is the exact condition on a
sequence of writer operations: no chunk starts with `{` directly after a `$` written by an EARLIER chunk, no chunk holds
a CR. Indentation, newlines and any split of the text into chunks are covered. -/

/-- For EVERY safe sequence of writer operations (any chunking, any indentation): cooking everything
    `JsStringWriter` wrote gives exactly the text `JustWriter` writes for the same operations. -/
theorem template_roundtrip_chunks (ops : List WOp) (h : safeOps false ops = true) :
    cook (runOps true {} ops) = some (justText ops) :=
  run_runOps ops {} false (by simp) h

example : safeOps false [.write "a$".toList, .indent, .write "b{\n${`".toList, .write "{".toList] = true := by decide

/-- The condition is necessary: `$` at the end of one chunk and `{` at the start of the next are written `${`. -/
theorem template_chunks_counterexample : cook (runOps true {} [.write ['$'], .write ['{']]) = none := by decide

/-- The GraphQL printer only produces safe chunk sequences: for EVERY type-system document whose printed names,
    numbers and variable names hold no CR, do not end in `$` (variable names: are non-empty and do not start with
    `{`) — true of every GraphQL Name — the operations handed to the writer are safe. The printer's own texts
    (punctuators, layout) and its string literals are covered unconditionally by a walk over all printing functions. -/
theorem printer_chunks_safe_ts (d : TsDoc) (hn : ∀ t ∈ printTsDoc d, t.nameOK = true) :
    safeOps false (ops (printTsDoc d)) = true :=
  safe_of_names _ (fixed_tsDoc d) hn

/-- the same for every executable document (operations, fragments, `#import` lines) -/
theorem printer_chunks_safe_op (d : Doc) (hn : ∀ t ∈ printDoc d, t.nameOK = true) :
    safeOps false (ops (printDoc d)) = true :=
  safe_of_names _ (fixed_doc d) hn

/-- End to end for the template layer: for EVERY type-system document with such names, the cooked value of the
    characters between the back-ticks of the `serverGraphqlOutput` module is a line feed followed by exactly the
    GraphQL text the printer writes (into a `JustWriter`) for the document. -/
theorem server_template_cooks (d : TsDoc) (hn : ∀ t ∈ printTsDoc d, t.nameOK = true) :
    cook ('\n' :: runOps true {} (ops (printTsDoc d))) = some ('\n' :: text (printTsDoc d)) := by
  have h := template_roundtrip_chunks _ (printer_chunks_safe_ts d hn)
  unfold cook at h ⊢
  simp only [Cook.run, Cook.step, Cook.stepNormal]
  simp only [show ('\n' = '`') = False by decide, show ('\n' = '\\') = False by decide,
    show ('\n' = '$') = False by decide, show ('\n' = '\r') = False by decide, if_false, h]
  rfl

/-- a small document with a variable, used to show the hypotheses are satisfiable -/
def exampleDoc : TsDoc :=
  [.typeDef { kind := .object, name := "Q", fields := [{ name := "f", ty := .named "Int" {}, dirs := [{ name := "d", args := [("a", {}, .var "v" {})] }] }] }]

example : (printTsDoc exampleDoc).all Tok.nameOK = true := by decide

/-! ## 2. string literal layer -/

/-
FULL STATEMENT (false of the code — see the two counterexamples and known-findings.txt):

  theorem print_string_roundtrip (s : List Char) : decodeStringLiteral (printString s) = some s

It fails (a) for a string with a double quote printed in the quoted form (the quote is written unescaped;
escaping it changes the pinned `read_introspection` snapshot), and (b) for a string printed in the block form
whose `BlockStringValue` differs from itself (leading / trailing blank line, common indentation): the AST
cannot tell a decoded value from raw block-string content, and the printer snapshot pins the block form.
-/

/-- For EVERY string that is printed in the quoted form and holds no double quote (any other character:
    backslashes, CR, LF, every control character, astral characters …): the literal `print_string` writes is
    exactly one GraphQL string token whose value is the string. -/
theorem print_string_roundtrip_partial (s : List Char) (hform : useBlock s = false) (hq : ∀ c ∈ s, c ≠ dquote) :
    decodeStringLiteral (printString s) = some s := by
  unfold printString
  simp only [hform, Bool.false_eq_true, if_false]
  exact decode_printQuoted s hq

example : useBlock "say 'hi' \\ there\r\n\\u0041 \x01".toList = false ∧ ∀ c ∈ "say 'hi' \\ there\r\n\\u0041 \x01".toList, c ≠ dquote := by
  decide

/-- (a) a double quote is not escaped: the literal written for `a"b` is not a string token -/
theorem print_string_roundtrip_counterexample :
    decodeStringLiteral (printString ['a', dquote, 'b']) = none := by decide

/-- (b) a leading blank line is lost: the literal written for "\na" (block form) denotes "a" -/
theorem print_string_block_counterexample :
    decodeStringLiteral (printString ['\n', 'a']) = some ['a'] := by decide

/-! ### 2b. the block form -/

/-- For EVERY string the code prints in the block form: the printed text is exactly one block-string token, and its
    value is `BlockStringValue` of the string itself (every `"""` inside is escaped and read back, the token ends
    exactly at the closing `"""`). -/
theorem print_block_lexes (s : List Char) (h : useBlock s = true) :
    decodeStringLiteral (printString s) = some (blockStringValue s) := by
  have hcan : canBlock s = true := by
    simp only [useBlock, Bool.decide_and, Bool.and_eq_true, decide_eq_true_eq] at h; exact h.2
  simp [canBlock] at hcan
  obtain ⟨hq, hb, hall⟩ := hcan
  have hend : endOK 0 s := by
    unfold endOK; simp only [pending, if_true]; exact ⟨hq, hb⟩
  have hsrc : ∀ c ∈ s, sourceChar c = true := by
    intro c hc
    rcases hall c hc with h1 | h1 | h1
    · subst h1; decide
    · subst h1; decide
    · simp [isControl] at h1
      simp [sourceChar]; omega
  have hraw := blockRaw_escTriple s 0 (by omega) hend hsrc
  simp only [List.replicate, List.nil_append] at hraw
  unfold printString printBlock
  simp only [h, if_true]
  show decodeStringLiteral (dquote :: dquote :: dquote :: (escTriple 0 s ++ close3)) = _
  simp [decodeStringLiteral, hraw]

/-- The EXACT side condition for the block form: the printed literal denotes the string if and only if
    `BlockStringValue` leaves the string unchanged. -/
theorem print_block_roundtrip_iff (s : List Char) (h : useBlock s = true) :
    decodeStringLiteral (printString s) = some s ↔ blockStringValue s = s := by
  rw [print_block_lexes s h]
  exact ⟨fun e => Option.some.inj e, fun e => by rw [e]⟩

/-- A structural sufficient condition: first and last line not blank, no common indentation of the continuation
    lines (`blockFaithful`, e.g. "multi\nline", "a\n\nb  c\n\tq\nz"). -/
theorem print_block_roundtrip (s : List Char) (h : useBlock s = true) (hf : blockFaithful s = true) :
    decodeStringLiteral (printString s) = some s := by
  have hcan : canBlock s = true := by
    simp only [useBlock, Bool.decide_and, Bool.and_eq_true, decide_eq_true_eq] at h; exact h.2
  exact (print_block_roundtrip_iff s h).mpr (blockStringValue_faithful s (canBlock_no_cr s hcan) hf)

example : useBlock "multi\nline \"q\" \\ \"\"\" x".toList = true ∧ blockFaithful "multi\nline \"q\" \\ \"\"\" x".toList = true := by
  decide

/-- `print_string` as a whole, with the exact side conditions of its two forms -/
theorem print_string_roundtrip_exact (s : List Char)
    (h1 : useBlock s = false → ∀ c ∈ s, c ≠ dquote) (h2 : useBlock s = true → blockStringValue s = s) :
    decodeStringLiteral (printString s) = some s := by
  by_cases h : useBlock s = true
  · exact (print_block_roundtrip_iff s h).mpr (h2 h)
  · have h' : useBlock s = false := by simpa using h
    exact print_string_roundtrip_partial s h' (h1 h')

/-! ## 3. stripping layer -/

/-- `@n` is applied on scalar definitions only (what the type-system checker guarantees for
    `@nitrogql_ts_type … on SCALAR`) -/
def OnlyOnScalars (n : Name) (d : TsDoc) : Prop :=
  ∀ i ∈ d, match i with
    | .typeDef t => Strip.typeInnerClean n t = true ∧ (t.kind = .scalar ∨ Strip.dirsClean n t.dirs = true)
    | .typeExt t => Strip.typeInnerClean n t = true ∧ Strip.dirsClean n t.dirs = true
    | .directiveDef dd => dd.args.all (Strip.ivClean n) = true
    | .schemaDef s => Strip.dirsClean n s.dirs = true
    | .schemaExt s => Strip.dirsClean n s.dirs = true

/-- `remove_builtins` removes exactly the nitrogql-only directive: on every document in which
    `@nitrogql_ts_type` is applied on scalars only, its result is the document without the definition of the
    directive and without any application of it — every other item, and every other part of every item, is
    kept, in order. -/
theorem strip_exact (d : TsDoc) (h : OnlyOnScalars nitroName d) :
    removeBuiltins d = Strip.stripDirective nitroName d := by
  unfold removeBuiltins Strip.stripDirective
  induction d with
  | nil => rfl
  | cons i is ih =>
    have hi := h i (by simp)
    have his : OnlyOnScalars nitroName is := fun j hj => h j (by simp [hj])
    have key : removeBuiltinsItem i = Strip.item nitroName i := by
      cases i with
      | directiveDef dd =>
        simp only at hi
        simp only [removeBuiltinsItem, Strip.item, Strip.inputValues_clean _ _ hi]
        by_cases hn : dd.name = nitroName <;> simp [hn]
      | typeDef t =>
        simp only at hi
        obtain ⟨hin, hd⟩ := hi
        simp only [removeBuiltinsItem, Strip.item, Strip.typeDef_inner_clean _ _ hin]
        by_cases hk : t.kind = .scalar
        · simp [hk, dropDirs, Strip.dirs]
        · have hd' : Strip.dirsClean nitroName t.dirs = true := by
            rcases hd with hd | hd
            · exact absurd hd hk
            · exact hd
          simp [hk, Strip.dirs_clean _ _ hd']
      | typeExt t =>
        simp only at hi
        simp only [removeBuiltinsItem, Strip.item, Strip.typeDef_inner_clean _ _ hi.1, Strip.dirs_clean _ _ hi.2]
      | schemaDef s =>
        simp only at hi
        simp only [removeBuiltinsItem, Strip.item, Strip.schemaDef, Strip.dirs_clean _ _ hi]
      | schemaExt s =>
        simp only at hi
        simp only [removeBuiltinsItem, Strip.item, Strip.schemaDef, Strip.dirs_clean _ _ hi]
    simp only [List.filterMap_cons, key, ih his]

example : OnlyOnScalars nitroName
    [.typeDef { kind := .scalar, name := "Date", dirs := [{ name := "nitrogql_ts_type" }, { name := "specifiedBy" }] },
     .directiveDef { name := "nitrogql_ts_type", locations := ["SCALAR"] },
     .typeDef { kind := .object, name := "Q", fields := [{ name := "f", ty := .named "Date" {}, dirs := [{ name := "deprecated" }] }] }] := by
  intro i hi
  simp only [List.mem_cons, List.mem_nil_iff, or_false] at hi
  rcases hi with rfl | rfl | rfl <;> decide

/-- `@n` is applied on object type definitions and on their fields only (what the model plugin's `check_schema`
    and the location list `OBJECT | FIELD_DEFINITION` leave possible in an accepted schema) -/
def OnlyOnObjects (n : Name) (d : TsDoc) : Prop :=
  ∀ i ∈ d, match i with
    | .typeDef t =>
      (t.kind = .object ∧ Strip.objectInnerClean n t = true) ∨
      (t.kind ≠ .object ∧ Strip.typeInnerClean n t = true ∧ Strip.dirsClean n t.dirs = true)
    | .typeExt t => Strip.typeInnerClean n t = true ∧ Strip.dirsClean n t.dirs = true
    | .directiveDef dd => dd.args.all (Strip.ivClean n) = true
    | .schemaDef s => Strip.dirsClean n s.dirs = true
    | .schemaExt s => Strip.dirsClean n s.dirs = true

/-- The model plugin's `transform_document_for_runtime_server` removes exactly `@model`: on every document in which
    `@model` is applied on object types and object fields only, its result is the document without the definition
    of the directive and without any application of it; everything else is kept, in order. -/
theorem strip_model_exact (d : TsDoc) (h : OnlyOnObjects modelName d) :
    removeModel d = Strip.stripDirective modelName d := by
  unfold removeModel Strip.stripDirective
  induction d with
  | nil => rfl
  | cons i is ih =>
    have hi := h i (by simp)
    have his : OnlyOnObjects modelName is := fun j hj => h j (by simp [hj])
    have key : removeModelItem i = Strip.item modelName i := by
      cases i with
      | directiveDef dd =>
        simp only at hi
        simp only [removeModelItem, Strip.item, Strip.inputValues_clean _ _ hi]
      | typeDef t =>
        simp only at hi
        rcases hi with ⟨hk, hin⟩ | ⟨hk, hin, hd⟩
        · simp only [removeModelItem, Strip.item, hk, if_true, Strip.typeDef_object_clean _ _ hin]
          rfl
        · simp [removeModelItem, Strip.item, hk, Strip.typeDef_inner_clean _ _ hin, Strip.dirs_clean _ _ hd]
      | typeExt t =>
        simp only at hi
        simp only [removeModelItem, Strip.item, Strip.typeDef_inner_clean _ _ hi.1, Strip.dirs_clean _ _ hi.2]
      | schemaDef s =>
        simp only at hi
        simp only [removeModelItem, Strip.item, Strip.schemaDef, Strip.dirs_clean _ _ hi]
      | schemaExt s =>
        simp only at hi
        simp only [removeModelItem, Strip.item, Strip.schemaDef, Strip.dirs_clean _ _ hi]
    simp only [List.filterMap_cons, key, ih his]

example : OnlyOnObjects modelName
    [.typeDef { kind := .object, name := "User", dirs := [{ name := "model" }], fields := [{ name := "id", ty := .named "ID" {}, dirs := [{ name := "model" }, { name := "deprecated" }] }] },
     .directiveDef { name := "model", locations := ["OBJECT", "FIELD_DEFINITION"] },
     .typeDef { kind := .scalar, name := "Date" }] := by
  intro i hi
  simp only [List.mem_cons, List.mem_nil_iff, or_false] at hi
  rcases hi with rfl | rfl | rfl <;> decide

/-- composition as in generate.rs: `remove_builtins`, then the plugin -/
theorem strip_both_exact (d : TsDoc) (h1 : OnlyOnScalars nitroName d)
    (h2 : OnlyOnObjects modelName (Strip.stripDirective nitroName d)) :
    removeModel (removeBuiltins d) = Strip.stripDirective modelName (Strip.stripDirective nitroName d) := by
  rw [strip_exact d h1, strip_model_exact _ h2]

/-! ## 4. token level: the Type sub-language -/

/-- For EVERY type: the significant tokens the printer writes are the canonical token stream of the type. -/
theorem print_tokens_type (t : GType) : (printType t).flatMap lex = GqlTokens.typeToks t := by
  induction t with
  | named n p => rfl
  | list t p ih => simp [printType, GqlTokens.typeToks, List.flatMap_append, lex, ih]
  | nonNull t ih => simp [printType, GqlTokens.typeToks, List.flatMap_append, lex, ih]

/-- parse ∘ print = id on the Type sub-language, for EVERY type the grammar can produce (arbitrary nesting of
    lists and non-null markers, arbitrary names): reading the printer's significant tokens with the
    specification's token parser gives back the type (positions erased), and consumes exactly its tokens. -/
theorem C16_roundtrip_partial (t : GType) (hwf : GqlTokens.wfType t = true) (rest : List GqlTokens.LTok)
    (hrest : rest.head? ≠ some (.p "!")) :
    GqlTokens.parseType (GqlTokens.depth t + 1) ((printType t).flatMap lex ++ rest) = some (t.erasePos, rest) := by
  rw [print_tokens_type, parseType_typeToks t hwf rest _ (by omega)]
  split
  · rfl
  · cases rest with
    | nil => rfl
    | cons tok r =>
      have : tok ≠ .p "!" := by
        intro h; subst h; simp at hrest
      simp [GqlTokens.bang, this]

example : GqlTokens.wfType (.nonNull (.list (.nonNull (.named "Int" {})) {})) = true := by decide

/-- the well-formedness hypothesis is necessary: `Int!!` is printed for the (unparsable-from-text) tree
    non-null of non-null, and does not read back -/
theorem C16_roundtrip_counterexample :
    GqlTokens.parseType 3 ((printType (.nonNull (.nonNull (.named "Int" {})))).flatMap lex) ≠
      some ((GType.nonNull (.nonNull (.named "Int" {}))).erasePos, []) := by decide

/-! ## 5. token level: Value and Directive -/

/-- For EVERY value (arbitrarily nested lists and input objects): the significant tokens the printer writes
    (commas, spaces, newlines and indentation dropped) are the canonical token stream of the value. -/
theorem print_tokens_value (v : Value) : (printValue v).flatMap lex = GqlTokens.valueToks v :=
  toks_value v

/-- For EVERY directive application: the significant tokens printed are `@`, the name and the canonical stream of
    its arguments (one argument on one line, two or more one per line — layout only). -/
theorem print_tokens_directive (d : Directive) : (printDirective d).flatMap lex = GqlTokens.directiveToks d := by
  simp [printDirective, GqlTokens.directiveToks, lex, List.flatMap_append, toks_args]

/-- parse ∘ print = id on the Value sub-language, for EVERY value the grammar can produce (enum values other than
    `true` / `false` / `null`; arbitrary strings, numbers, names, nesting) and every continuation: the specification's
    token parser reads the printer's significant tokens back to the value (positions erased) and consumes exactly them. -/
theorem C16_roundtrip_value (v : Value) (hwf : GqlTokens.wfValue v = true) (rest : List GqlTokens.LTok) :
    GqlTokens.parseValue (2 * v.size) ((printValue v).flatMap lex ++ rest) = some (v.erasePos, rest) := by
  rw [print_tokens_value]
  exact parse_value v hwf rest _ (Nat.le_refl _)

example : GqlTokens.wfValue (.obj [("a", {}, .list [.int "1" {}, .str "s\"\n" {}, .enum "E" {}, .var "v" {}] {}), ("b", {}, .obj [] {})] {}) = true := by
  decide

/-- the hypothesis is necessary: the tree "enum value named true" is printed `true`, which reads back as a Boolean -/
theorem C16_roundtrip_value_counterexample :
    GqlTokens.parseValue 2 ((printValue (.enum "true" {})).flatMap lex) = some (.bool true Pos.none, []) := by
  simp [printValue, lex, GqlTokens.parseValue, GqlTokens.nameValue]

/-- parse ∘ print = id for directive applications: for EVERY directive whose argument values the grammar can produce,
    followed by anything that is not `(`. -/
theorem C16_roundtrip_directive (d : Directive) (hwf : GqlTokens.wfFields d.args = true) (rest : List GqlTokens.LTok)
    (hrest : rest.head? ≠ some (.p "(")) :
    GqlTokens.parseDirective (2 * Value.sizeFields d.args + 1) ((printDirective d).flatMap lex ++ rest) =
      some (GqlTokens.eraseDirective d, rest) := by
  rw [print_tokens_directive]
  unfold GqlTokens.directiveToks GqlTokens.eraseDirective
  cases hargs : d.args with
  | nil =>
    cases rest with
    | nil => simp [GqlTokens.argsToks, GqlTokens.parseDirective, Value.erasePosFields]
    | cons tok r =>
      have : tok ≠ .p "(" := by intro h; subst h; simp at hrest
      simp [GqlTokens.argsToks, GqlTokens.parseDirective, Value.erasePosFields, this]
  | cons a as =>
    rw [hargs] at hwf
    have h := parse_fields ")" (a :: as) hwf rest (2 * Value.sizeFields (a :: as) + 1) (Nat.le_refl _)
    obtain ⟨k, p, v⟩ := a
    simp only [Value.erasePosFields] at h
    simp [GqlTokens.argsToks, GqlTokens.parseDirective, h, Value.erasePosFields]

/-! ## 6. token level: executable definitions (token streams here; parse-back: `C16_parse_*` in `Props/C16Tokens.lean`) -/

/-- For EVERY selection (fields with aliases, arguments, directives and nested selection sets; fragment spreads;
    inline fragments — arbitrary nesting): the significant tokens printed are the canonical token stream. -/
theorem print_tokens_selection (s : Selection) : (printSelection s).flatMap lex = GqlTokens.selectionToks s :=
  toks_selection s

/-- For EVERY variable definition: `$name : Type`, then `= default` if there is one, then the directives — nothing
    is dropped (the pinned code dropped the last two). -/
theorem print_tokens_var_def (v : VarDef) : (printVarDef v).flatMap lex = GqlTokens.varDefToks v :=
  toks_varDef v

/-- For EVERY operation definition: kind, name, variable definitions, directives, selection set. -/
theorem print_tokens_operation (o : OperationDef) : (printOperation o).flatMap lex = GqlTokens.operationToks o :=
  toks_operation o

/-- For EVERY fragment definition. -/
theorem print_tokens_fragment (f : FragmentDef) : (printFragment f).flatMap lex = GqlTokens.fragmentToks f :=
  toks_fragment f

/-
CONTINUED in `Props/C16Tokens.lean` (proved there, for all inputs):
  * `print_tokens_*` for every type-system definition / extension / document (`…_partial` for type definitions:
    a union without members is printed with a dangling `=` — counterexample kept);
  * token-level parse-back (`C16_parse_*`) for selections, selection sets, variable definitions, operations, fragments,
    executable documents, type definitions / extensions, schema definitions / extensions, directive definitions and
    type-system documents;
  * the indentation-stable block form (`print_block_lexes_indented`, `print_string_written_exact`);
  * the composition `C16_roundtrip_tokens_exec` / `_ts` / `_tsext`, `server_module_roundtrip_tokens`.
and in `Props/C16Text.lean`:
  * the character level: `lex_written_text` (lexing what the writer wrote), `printer_lexable_*` (the printer always
    separates its tokens), `C16_roundtrip_text_exec` / `_ts` / `_tsext`, `server_module_roundtrip_text` (cook, lex, parse).

and in `Props/C16Own.lean` (nitrogql's OWN parser — C07's PEG model: generated grammar + builders — as the reader):
  * `print_string_spec_escape` (where `print_string` writes C07's `specEscape` literal), `printed_exec_is_c07_rendering`
    (the printed text of an executable document IS a rendering of C07: the printer's blanks, line feeds, commas and
    indentation are a legal trivia assignment), `C16_roundtrip_own_parser_exec`;
  * `printed_ts_is_c07_rendering_partial` (type-system documents without a list that takes a leading `&` / `|`),
    `own_parser_reads_lead_renderings` (C07's document theorem extended to the renderings WITH the leading separators the
    printer always writes), `printed_ts_is_own_rendering`, `C16_roundtrip_own_parser_ts` / `_tsext`;
  * `server_module_roundtrip_own`: parse (cook (module)) = the checked schema without the stripped directives, over
    nitrogql's own parser model.

OPEN — carried by K/O only (never claimed as proved)
  * over nitrogql's own parser, the documents OUTSIDE the explicit (decidable) side conditions of `Props/C16Own.lean`:
      - strings that are not written as C07's `specEscape` literal (`strQ`): a string with a line feed that the printer
        writes as a BLOCK string (C07's renderings have no block strings; finding t of C07: returned raw — for a
        description inside a definition the round trip is FALSE over the own parser, the writer's indentation comes
        back: `C16_roundtrip_own_parser_block_counterexample`), a string with a
        control character other than CR / LF (the printer writes `\u{…}`, which C07's renderings never contain — the
        parser model does read it back, evaluated on witnesses), a string with a double quote (written unescaped: open
        finding, the text is rejected — `C16_roundtrip_own_parser_ts_counterexample`);
      - a union extension without members (`extend union U @d =`, open finding; rejected — same counterexample);
      - what C07's `WFDef` / `WFTsItem` / `NormalItem` exclude (invalid names, empty selection sets, the bare `interface I`,
        an object type without fields and directives, …: see the OPEN block of `Props/C07.lean`);
      - `#import` lines of executable documents (comments for GraphQL; not covered by C07 either).
    For those O evaluates the property on the real parser for generated schemas and operations; K ties every model in
    these files to the code. Over the SPECIFICATION's lexer and parser the block form (when `BlockStringValue s = s`) and
    all control characters are covered (`C16_roundtrip_text_*`).
  * over the specification's lexer and parser (`C16_roundtrip_tokens_*`, `C16_roundtrip_text_*`,
    `server_module_roundtrip_tokens` / `_text`), the documents OUTSIDE the hypotheses: `strsOK` (a double quote in the quoted
    form; a block-printed string with `BlockStringValue s ≠ s` — the two open string findings), `itemUnionOK` (a union
    without members — open finding for extensions), `lexemesOK` (names / numbers that are not GraphQL Names / numbers),
    `wfDoc` / `wfTsDoc` (trees no text denotes; `#import` lines). The specification's lexer and parser are never run against
    the real parser: O reads with the real parser after re-quoting block strings by their specification value.
  * that a checked schema satisfies `OnlyOnScalars` / `OnlyOnObjects` (hypotheses of `strip_exact`, `strip_model_exact` and
    of every `server_module_roundtrip_*`): not proved of the checker; O's `server` stream runs accepted projects.
  * the ORDERED plugin list of generate.rs (fold over the plugins): `serverGraphqlOutput` takes one Boolean for the model
    plugin; the fold is in `Driver/C16.lean` (`runtimeServerSchema`) and compared by K only.
  * ECMAScript: `Spec/Cook.lean` is a hand-written model of template-literal cooking; no JavaScript engine is run.
-/

end NitroVerif.C16
