import NitroVerif.Lemmas.Shape
/-!
# C08 — no input text can make the toolchain panic (parser part: grammar ⇒ builder preconditions)

Property theorems only. The builders of nitrogql-parser take pairs apart with positional matchers that panic on
any child sequence they do not expect (`parts!`, `only_child`, `all_children`, two hand-written loops). The
claim "the grammar guarantees the builders' preconditions" is a claim over all inputs; here it is decided by a
verified reflection over the GENERATED grammar (`Gen/Grammar.lean`) and the GENERATED pattern table
(`Gen/Parts.lean`), so an edit of grammar.pest or of a builder re-opens the obligation on the next run.

Model: `Model/Shape.lean` (shapes, automata, abstract interpretation), `Model/Build.lean` (the builders),
`Model/Peg.lean` (the parser). Tied to the code by translators + the K stream of `harness/src/bin/c07.rs`, `c08.rs`.
-/
namespace NitroVerif.C08
open NitroVerif.Peg NitroVerif.Shape NitroVerif.Gen NitroVerif.Gen.Parts NitroVerif.Build

/-- Soundness of the reflection: if the abstract interpretation accepts, then the matcher of pattern `p` does not
    panic on ANY child sequence in the language of `e`. -/
theorem accepts_sound (p : Pattern) (e : Re) (h : accepts p e = true) :
    ∀ w, Mem e w → p.matches w = true := by
  intro w hw
  cases p with
  | parts items => exact acceptsA_sound _ _ e h w hw
  | onlyChild allowed => exact acceptsA_sound _ _ e h w hw
  | allChildren r => exact acceptsA_sound _ _ e h w hw
  | headThenAll hd r => exact acceptsA_sound _ _ e h w hw
  | anyChildren => rfl

/-- Every builder pattern extracted from the Rust sources accepts every child sequence its subject rule can
    produce according to the generated grammar. Evaluated by the kernel over the 75 pattern sites.
    (On the pinned tree this was false for `OperationDefinition`: see `shorthand_pinned_counterexample`.) -/
theorem builders_total :
    ∀ e ∈ builderTable, accepts e.pat (ruleShape gList e.subject) = true := by
  decide +kernel

/-- … hence no extracted matcher panics on any child sequence in the shape of its subject rule. -/
theorem builders_match (e : Entry) (he : e ∈ builderTable) :
    ∀ w, Mem (ruleShape gList e.subject) w → e.pat.matches w = true :=
  accepts_sound e.pat _ (builders_total e he)

/-- For `parts!` sites, in terms of the builder model itself: `matchParts` (what `Model/Build.lean` runs, and
    what K compares with the real macro) succeeds on every list of pairs whose rules are in the shape. -/
theorem parts_no_panic (e : Entry) (he : e ∈ builderTable) (items : List Item) (hp : e.pat = .parts items)
    (cs : List Pair) (hcs : Mem (ruleShape gList e.subject) (cs.map Pair.rule)) :
    (matchParts items cs).isOk = true := by
  have h := builders_match e he _ hcs
  rw [hp] at h
  rw [matchParts_ok items cs items.length]
  exact h

example : ∃ e ∈ builderTable, ∃ items, e.pat = .parts items ∧ items.length = 2 :=
  ⟨builderTable[4], List.getElem_mem _, _, rfl, rfl⟩

/-- the pattern `build_executable_definition` had on the pinned tree (OperationType required) -/
def pinnedOperationDefinitionPattern : List Item :=
  [.req R.OperationType, .opt R.Name, .opt R.VariablesDefinition, .opt R.Directives, .req R.SelectionSet]

/-- Finding v (repaired by fbd660b): with the pinned pattern the reflection FAILS, and the failing child sequence
    is the anonymous-query shorthand: `[SelectionSet]` is a child sequence of `OperationDefinition` and the pinned
    matcher panics on it ("Expected OperationType, actual SelectionSet"). -/
theorem shorthand_pinned_counterexample :
    accepts (.parts pinnedOperationDefinitionPattern) (ruleShape gList R.OperationDefinition) = false ∧
    matchesRe (ruleShape gList R.OperationDefinition) [R.SelectionSet] = true ∧
    Pattern.matches (.parts pinnedOperationDefinitionPattern) [R.SelectionSet] = false := by
  decide +kernel

/-- … while the repaired pattern (`OperationType opt`) accepts the shorthand. -/
theorem shorthand_repaired :
    Pattern.matches (.parts P_OperationDefinition) [R.SelectionSet] = true := by
  decide +kernel

/-! ### value lemmas (builder/value.rs): after `validate_unicode_escapes` the two panics of the `\u` arms are
    unreachable -/

/-- An escape that passed the validation decodes: `u32::from_str_radix(..).unwrap()` and
    `char::from_u32(..).expect(..)` both succeed on its digits. (Findings w: `"\uD800"`, `"\u{110000}"`,
    more than 8 hex digits — repaired by 668f535.) -/
theorem validated_escape_decodes (digits : List Char) (h : escapeDenotesChar digits = true) :
    ∃ c, (parseHexU32 digits >>= charFromU32) = .ok c := by
  unfold escapeDenotesChar at h
  cases hp : parseHexU32 digits with
  | error e => simp [hp] at h
  | ok n =>
    simp only [hp] at h
    exact ⟨Char.ofNat n, by simp [bind, Except.bind, charFromU32, h]⟩

example : escapeDenotesChar ['1', 'F', '6', '0', '0'] = true := by decide +kernel

/-- the escapes of findings w are exactly what the validation rejects -/
theorem invalid_escapes_rejected :
    escapeDenotesChar ['D', '8', '0', '0'] = false ∧
    escapeDenotesChar ['1', '1', '0', '0', '0', '0'] = false ∧
    escapeDenotesChar ['1', '2', '3', '4', '5', '6', '7', '8', '9'] = false ∧
    escapeDenotesChar ['0', '0', '0', '0', '0', '0', '0', '0', '0', '4', '1'] = true := by
  decide +kernel

/-- With the validation in place the model parser turns the three witnesses into syntax errors at the escape,
    not panics; and `{ a }` into a document. -/
theorem witnesses_are_diagnostics :
    (parseOp "query { a(s: \"\\uD800\") }".toList).isPanic = false ∧
    (parseOp "query { a(s: \"\\u{110000}\") }".toList).isPanic = false ∧
    (parseOp "query { a(s: \"\\u{123456789}\") }".toList).isPanic = false ∧
    (parseOp "{ a }".toList).isPanic = false := by
  decide +kernel

/-! ### observation z (DESIGN §9): nested list types parse in exponentially many steps -/

/-- `[`ⁿ `Int` `]`ⁿ -/
def nestedListType (n : Nat) : List Char :=
  List.replicate n '[' ++ ['I', 'n', 't'] ++ List.replicate n ']'

def typeSteps (n : Nat) : Nat :=
  (runTr gList (4096 * 64) R.«Type» (nestedListType n)).1.steps

/-- the number of rule calls of the PEG run on a list type nested `n` deep is at least 2ⁿ (checked for
    n ≤ 6; the cause is `NonNullType = (NamedType "!") | (ListType "!")` tried before `ListType` at every level).
    An observation about cost outside "ordinary limits", not a violation; the harness keeps list types shallow. -/
theorem parse_steps_nested_list : ∀ n ∈ [1, 2, 3, 4, 5, 6], 2 ^ n ≤ typeSteps n := by
  decide +kernel

/-
OPEN — carried by K/O only (stated, not proved):

theorem run_children_in_shape :
    callRule g fuel r at_ .none tr c = (tr', .ok c' ps) → ∀ p ∈ allPairs ps,
      Mem (ruleShape g p.rule) (p.children.map Pair.rule)
  -- every pair the interpreter emits has children in the shape of its rule. `ruleShape` follows the case analysis
  -- of `eval`/`callRule`/`ruleWrap` clause by clause; the induction over the mutual interpreter is not done.
  -- Evidence instead: the driver evaluates this statement (`Shape.matchesRe`) on every pair of every text that K
  -- parses (request `gql.shapecheck`, stream "shape" of c07/c08): a violation is a K failure.

theorem parse_no_panic : ∀ input, (parseOp input).isPanic = false ∧ (parseTs input).isPanic = false
  -- follows from run_children_in_shape + builders_match (+ the dispatch arms of Build.lean being the extracted
  -- `onlyChild` sets, + validated_escape_decodes for the string arms). Carried by K (model = code on the outcome
  -- of every text of the malformed stream) and O (no panic of the real parser on that stream).

theorem resolveExt_total, resolveImports_total, check_total, generate_total, render_error_total, loader_total
  -- later stages: exercised by the O stream of c08.rs only (every public entry point under catch_unwind);
  -- generate_total is FALSE today (open finding: same response key for a leaf and an object).
-/

end NitroVerif.C08
