import NitroVerif.Lemmas.Shape
import NitroVerif.Lemmas.ShapeInv
import NitroVerif.Lemmas.TypeNoPanic
import NitroVerif.Lemmas.ValueNoPanic
import NitroVerif.Lemmas.ParseNoPanic
/-!
# C08 — no input text can make the toolchain panic (parser part: grammar ⇒ builder preconditions)

Property theorems only. The builders of nitrogql-parser take pairs apart with positional matchers that panic on
any child sequence they do not expect (`parts!`, `only_child`, `all_children`, two hand-written loops). The
claim "the grammar guarantees the builders' preconditions" is a claim over all inputs; here it is decided by a
verified reflection over the GENERATED grammar (`Gen/Grammar.lean`) and the GENERATED pattern table
(`Gen/Parts.lean`), so an edit of grammar.pest or of a builder re-opens the obligation on the next run.

Model: `Model/Shape.lean` (shapes, automata, abstract interpretation), `Model/Build.lean` (the builders),
`Model/Peg.lean` (the parser). Tied to the code by translators + the K stream of `harness/src/bin/c07.rs`, `c08.rs`.
-/
namespace NitroVerif.C08
open NitroVerif.Peg NitroVerif.Shape NitroVerif.Gen NitroVerif.Gen.Parts NitroVerif.Build

/-- Soundness of the reflection: if the abstract interpretation accepts, then the matcher of pattern `p` does not
    panic on ANY child sequence in the language of `e`. -/
theorem accepts_sound (p : Pattern) (e : Re) (h : accepts p e = true) :
    ∀ w, Mem e w → p.matches w = true := by
  intro w hw
  cases p with
  | parts items => exact acceptsA_sound _ _ e h w hw
  | onlyChild allowed => exact acceptsA_sound _ _ e h w hw
  | allChildren r => exact acceptsA_sound _ _ e h w hw
  | headThenAll hd r => exact acceptsA_sound _ _ e h w hw
  | anyChildren => rfl

/-- Every builder pattern extracted from the Rust sources accepts every child sequence its subject rule can
    produce according to the generated grammar. Evaluated by the kernel over the 75 pattern sites.
    (On the pinned tree this was false for `OperationDefinition`: see `shorthand_pinned_counterexample`.) -/
theorem builders_total :
    ∀ e ∈ builderTable, accepts e.pat (ruleShape gList e.subject) = true := by
  decide +kernel

/-- … hence no extracted matcher panics on any child sequence in the shape of its subject rule. -/
theorem builders_match (e : Entry) (he : e ∈ builderTable) :
    ∀ w, Mem (ruleShape gList e.subject) w → e.pat.matches w = true :=
  accepts_sound e.pat _ (builders_total e he)

/-- For `parts!` sites, in terms of the builder model itself: `matchParts` (what `Model/Build.lean` runs, and
    what K compares with the real macro) succeeds on every list of pairs whose rules are in the shape. -/
theorem parts_no_panic (e : Entry) (he : e ∈ builderTable) (items : List Item) (hp : e.pat = .parts items)
    (cs : List Pair) (hcs : Mem (ruleShape gList e.subject) (cs.map Pair.rule)) :
    (matchParts items cs).isOk = true := by
  have h := builders_match e he _ hcs
  rw [hp] at h
  rw [matchParts_ok items cs items.length]
  exact h

/-- `run_children_in_shape`: for ANY grammar table, depth bounds, rule, atomicity and cursor — whatever a rule call
    of the interpreter returns (outside lookahead), the rules of the returned top-level pairs are a word of the
    computed shape of the call, and every pair in the returned trees, at any depth, has children in `ruleShape` of
    its own rule. (Induction on the interpreter's depth bound over its four mutually recursive functions.) -/
theorem run_children_in_shape (g : G) (fuel F : Nat) (r : RuleId) (at_ : Atomicity) (tr : Tr) (c : Cur)
    (tr' : Tr) (c' : Cur) (ps : List Pair) (h : callRule g fuel r at_ .none tr c = (tr', .ok c' ps)) :
    Mem (callShape g F r at_) (ps.map Pair.rule) ∧ ∀ p ∈ ps, DeepOk g p :=
  ⟨(memInv g fuel).cr F _ _ _ _ _ _ _ h, (deepInv g fuel).cr _ _ _ _ _ _ _ h⟩

/-- every positional matcher the builders apply to pairs of rule `r` accepts the child-rule word `w` -/
def MatchersAccept (r : RuleId) (w : List RuleId) : Prop :=
  ∀ e ∈ builderTable, e.subject = r → e.pat.matches w = true

/-- `parse_no_panic`, matcher part, for ALL inputs: in the pair tree of a successful parse of ANY text with the
    generated grammar (any start rule, any depth bound), at every pair of the tree every `parts!` / `only_child` (+
    dispatch arms) / `all_children` / hand-written loop that the builders apply to pairs of that rule succeeds.
    This is the kernel-checked "the builders' matchers never panic on anything the grammar produces":
    `run_children_in_shape` + `accepts_sound` + `builders_total` (the latter re-evaluated over the regenerated
    grammar and patterns on every run). -/
theorem parsed_pairs_match_patterns (fuel : Nat) (r : RuleId) (input : List Char) (ps : List Pair)
    (h : Peg.parse gList fuel r input = .pairs ps) : ∀ p ∈ ps, Deep MatchersAccept p := by
  intro p hp
  refine Deep.mono ?_ (parse_deepOk gList fuel r input ps h p hp)
  intro r w hw e he hr
  exact builders_match e he w (hr ▸ hw)

/-- the same, phrased on the builder model: at every pair of a parse tree, `matchParts` with any `parts!` pattern
    extracted for the pair's rule returns `ok` -/
theorem parsed_pairs_parts_ok (fuel : Nat) (r : RuleId) (input : List Char) (ps : List Pair)
    (h : Peg.parse gList fuel r input = .pairs ps) :
    ∀ p ∈ ps, Deep (fun r w => ∀ e ∈ builderTable, e.subject = r → ∀ items, e.pat = .parts items →
      (partsAuto items.length).ok items w = true) p := by
  intro p hp
  refine Deep.mono ?_ (parsed_pairs_match_patterns fuel r input ps h p hp)
  intro r w hw e he hr items hpat
  have := hw e he hr
  rw [hpat] at this
  exact this

/-- A closed instance of `parse_no_panic`: for ANY input text, any start rule and depth bounds, `build_type`
    (builder/type.rs: four `only_child` sites and two dispatches) applied to ANY `Type` pair anywhere in the parse
    tree returns a type or hits the model's own depth bound — it never reaches one of its panic arms. -/
theorem buildType_no_panic (fuel : Nat) (r : RuleId) (input : List Char) (ps : List Pair)
    (h : Peg.parse gList fuel r input = .pairs ps) (ctx : Ctx) (bfuel : Nat) :
    ∀ q ∈ flatList ps, q.rule = R.«Type» → NoPanic (buildType ctx bfuel q) := by
  intro q hq hr
  obtain ⟨p, hp, hqp⟩ := mem_flatList hq
  exact (buildType_noPanic ctx bfuel).1 q ((parse_deepOk gList fuel r input ps h p hp).sub q hqp) hr

/-- More closed instances: for ANY input text, the value, string, argument and directive builders (builder/value.rs,
    base.rs, directives.rs: 14 matcher / dispatch sites, mutually recursive through lists and objects) applied to
    any pair of their rule anywhere in the parse tree cannot end in a matcher or dispatch panic (`Safe`): the only
    error values left in the model are the text-dependent sites `TextPanic` (escape decoding — discharged after
    validation by `validated_escape_decodes` — `split_at`, `chars().next()`) and the model's own depth bound. -/
theorem value_builders_no_matcher_panic (fuel : Nat) (r : RuleId) (input : List Char) (ps : List Pair)
    (h : Peg.parse gList fuel r input = .pairs ps) (ctx : Ctx) (bfuel : Nat) :
    ∀ q ∈ flatList ps,
      (q.rule = R.Value → Safe (buildValue ctx bfuel q)) ∧
      (q.rule = R.StringValue → Safe (buildStringValue ctx q)) ∧
      (q.rule = R.Arguments → Safe (buildArguments ctx bfuel q)) ∧
      (q.rule = R.Directives → Safe (buildDirectives ctx bfuel q)) := by
  intro q hq
  obtain ⟨p, hp, hqp⟩ := mem_flatList hq
  have hd := (parse_deepOk gList fuel r input ps h p hp).sub q hqp
  exact ⟨safe_buildValue ctx bfuel q hd, safe_buildStringValue ctx q hd, safe_buildArguments ctx bfuel q hd,
    safe_buildDirectives ctx bfuel q hd⟩

example : ∃ e ∈ builderTable, ∃ items, e.pat = .parts items ∧ items.length = 2 :=
  ⟨builderTable[4], List.getElem_mem _, _, rfl, rfl⟩

/-- the pattern `build_executable_definition` had on the pinned tree (OperationType required) -/
def pinnedOperationDefinitionPattern : List Item :=
  [.req R.OperationType, .opt R.Name, .opt R.VariablesDefinition, .opt R.Directives, .req R.SelectionSet]

/-- Finding v (repaired by fbd660b): with the pinned pattern the reflection FAILS, and the failing child sequence
    is the anonymous-query shorthand: `[SelectionSet]` is a child sequence of `OperationDefinition` and the pinned
    matcher panics on it ("Expected OperationType, actual SelectionSet"). -/
theorem shorthand_pinned_counterexample :
    accepts (.parts pinnedOperationDefinitionPattern) (ruleShape gList R.OperationDefinition) = false ∧
    matchesRe (ruleShape gList R.OperationDefinition) [R.SelectionSet] = true ∧
    Pattern.matches (.parts pinnedOperationDefinitionPattern) [R.SelectionSet] = false := by
  decide +kernel

/-- … while the repaired pattern (`OperationType opt`) accepts the shorthand. -/
theorem shorthand_repaired :
    Pattern.matches (.parts P_OperationDefinition) [R.SelectionSet] = true := by
  decide +kernel

/-! ### value lemmas (builder/value.rs): after `validate_unicode_escapes` the two panics of the `\u` arms are
    unreachable -/

/-- An escape (other than half of a surrogate pair) that passed the validation decodes: `u32::from_str_radix(..).unwrap()` and
    `char::from_u32(..).expect(..)` both succeed on its digits. (Findings w: `"\uD800"`, `"\u{110000}"`,
    more than 8 hex digits — repaired by 668f535.) -/
theorem validated_escape_decodes (digits : List Char) (h : escapeDenotesChar digits = true) :
    ∃ c, (parseHexU32 digits >>= charFromU32) = .ok c := by
  unfold escapeDenotesChar at h
  cases hp : parseHexU32 digits with
  | error e => simp [hp] at h
  | ok n =>
    simp only [hp] at h
    exact ⟨Char.ofNat n, by simp [bind, Except.bind, charFromU32, h]⟩

example : escapeDenotesChar ['1', 'F', '6', '0', '0'] = true := by decide +kernel

/-- (fix fff8e9c) The pair arm of `build_string_value`: the code `0x10000 + ((lead − 0xD800) << 10) + (trail − 0xDC00)` of a
    leading surrogate `0xD800..=0xDBFF` and a trailing surrogate `0xDC00..=0xDFFF` is ALWAYS a (supplementary) scalar value,
    so `char::from_u32(code).expect("Invalid character code")` in that arm cannot panic. -/
theorem surrogate_pair_decodes (lead trail : Nat) (h1 : isLeadSurrogate lead = true) (h2 : isTrailSurrogate trail = true) :
    charFromU32 (surrogatePairCode lead trail) = .ok (Char.ofNat (surrogatePairCode lead trail)) ∧
      0x10000 ≤ surrogatePairCode lead trail ∧ surrogatePairCode lead trail ≤ 0x10FFFF := by
  obtain ⟨hv, hlo, hhi⟩ := surrogatePair_valid h1 h2
  exact ⟨by simp [charFromU32, hv], hlo, hhi⟩

example : isLeadSurrogate 0xD83D = true ∧ isTrailSurrogate 0xDE00 = true ∧ surrogatePairCode 0xD83D 0xDE00 = 0x1F600 := by
  decide

/-- (fix fff8e9c) A string that passed the loop of `validate_unicode_escapes` decodes: for the `StringCharacter` pairs `l` of a
    `NormalStringValue` of any parse tree (`CharsOk`: pairs of the tree, in the shape of their rule, witnessed by the
    grammar), if the validation loop over their characters finds nothing (`scanEscapes … = none`: every `\u` escape denotes
    a scalar value or is half of a surrogate pair `\uHHHH\uLLLL` inside this string), the loop of `build_string_value` —
    which peeks for a trailing surrogate after every `\uXXXX` — ends in a value: none of its `unwrap` / `expect` sites is
    reached. -/
theorem validated_string_decodes (inp : List Char) (l : List Pair) (hl : CharsOk inp l)
    (hv : scanEscapes (Ctx.spec inp) none (l.flatMap Pair.children) = none) :
    Quiet (decodeChars (Ctx.spec inp) false l) :=
  (quiet_decodeChars l hl).1 hv

/-- the escapes of findings w are exactly what the validation rejects -/
theorem invalid_escapes_rejected :
    escapeDenotesChar ['D', '8', '0', '0'] = false ∧
    escapeDenotesChar ['1', '1', '0', '0', '0', '0'] = false ∧
    escapeDenotesChar ['1', '2', '3', '4', '5', '6', '7', '8', '9'] = false ∧
    escapeDenotesChar ['0', '0', '0', '0', '0', '0', '0', '0', '0', '4', '1'] = true := by
  decide +kernel

/-- With the validation in place the model parser turns the three witnesses into syntax errors at the escape,
    not panics; and `{ a }` into a document. -/
theorem witnesses_are_diagnostics :
    (parseOp "query { a(s: \"\\uD800\") }".toList).isPanic = false ∧
    (parseOp "query { a(s: \"\\u{110000}\") }".toList).isPanic = false ∧
    (parseOp "query { a(s: \"\\u{123456789}\") }".toList).isPanic = false ∧
    (parseOp "{ a }".toList).isPanic = false ∧
    (parseOp "query { a(s: \"\\uD83D\\uDE00\") }".toList).isPanic = false ∧
    (parseOp "query { a(s: \"\\uD83D\") b(t: \"\\uDE00\") }".toList).isPanic = false := by
  decide +kernel

/-! ### observation z (DESIGN §9): nested list types parse in exponentially many steps -/

/-- `[`ⁿ `Int` `]`ⁿ -/
def nestedListType (n : Nat) : List Char :=
  List.replicate n '[' ++ ['I', 'n', 't'] ++ List.replicate n ']'

def typeSteps (n : Nat) : Nat :=
  (runTr gList (4096 * 64) R.«Type» (nestedListType n)).1.steps

/-- the number of rule calls of the PEG run on a list type nested `n` deep is at least 2ⁿ (checked for
    n ≤ 6; the cause is `NonNullType = (NamedType "!") | (ListType "!")` tried before `ListType` at every level).
    An observation about cost outside "ordinary limits", not a violation; the harness keeps list types shallow. -/
theorem parse_steps_nested_list : ∀ n ∈ [1, 2, 3, 4, 5, 6], 2 ^ n ≤ typeSteps n := by
  decide +kernel

/-! ### the closed statement for the parser -/

/-- `pair_text_preconditions`: the text-dependent panic sites of the builders are unreachable — for ANY input, start rule
    and depth bound, at every pair `q` of the parse tree: an `OperationType` pair's text is one of the three keywords
    (`str_to_operation_type` returns), an `EscapedCharacter` pair's text is a known escape ("Unknown escape sequence" is
    not reached), a `BlockStringValue` pair has at least 6 characters and an `EscapedUnicode4` pair at least 2 (the
    `split_at` calls are in range), a `NormalStringCharacter` pair is not empty (`chars().next().unwrap()`), and an
    `EscapedUnicodeBrace` pair has exactly one child whose text is the pair's text without `\u{` and `}` (what
    `validate_unicode_escapes` checked is what the builder decodes). Derived from the witness of each pair (the
    evaluation of its rule's body, `Lemmas/ParseWit.lean`) and the rule bodies of the GENERATED grammar. -/
theorem pair_text_preconditions (fuel : Nat) (r : RuleId) (input : List Char) (ps : List Pair)
    (h : Peg.parse gList fuel r input = .pairs ps) : ∀ q ∈ flatList ps,
      (q.rule = R.OperationType → ∃ k, strToOperationType (asStr (Ctx.spec input) q) = .ok k) ∧
      (q.rule = R.EscapedCharacter → ∃ ch, escapedChar (asStr (Ctx.spec input) q) = .ok ch) ∧
      (q.rule = R.BlockStringValue → 6 ≤ (asStr (Ctx.spec input) q).length) ∧
      (q.rule = R.EscapedUnicode4 → 2 ≤ (asStr (Ctx.spec input) q).length) ∧
      (q.rule = R.NormalStringCharacter → ∃ d, asStr (Ctx.spec input) q = [d]) ∧
      (q.rule = R.EscapedUnicodeBrace → ∃ d, q.children = [d] ∧ asStr (Ctx.spec input) d =
        ((asStr (Ctx.spec input) q).drop 3).take ((asStr (Ctx.spec input) q).length - 4)) := by
  intro q hq
  obtain ⟨p, hp, hqp⟩ := mem_flatList hq
  have hw : Wit gList input q := by
    have := parse_wit gList fuel r input ps h p hp
    clear hq hp h
    induction this with
    | mk kind body at_ fuel tr0 tr1 c c' hl hk hseen hc hc' hs he hb hcs ih =>
      simp only [flat, List.mem_cons] at hqp
      rcases hqp with rfl | hqp
      · exact .mk kind body at_ fuel tr0 tr1 c c' hl hk hseen hc hc' hs he hb hcs
      · obtain ⟨x, hx, hqx⟩ := mem_flatList hqp
        exact ih x hx hqx
  exact ⟨ParseText.operationType_ok hw, ParseText.escapedCharacter_ok hw, ParseText.blockString_len hw,
    ParseText.unicode4_len hw, ParseText.normalChar_text hw, ParseText.unicodeBrace_child hw⟩

/-- the hypothesis of `pair_text_preconditions` is satisfiable -/
example : (match Peg.parse gList 64 R.OperationType "query".toList with
    | .pairs [.mk r 0 5 [_]] => r == R.OperationType
    | _ => false) = true := by decide +kernel

/-- `parse_no_panic`: NO input text makes the model of `parse_operation_document` or of
    `parse_type_system_document` end in a panic: every result is a document, a `ParseError` with a position, or the
    model's own depth bound (`outOfFuel`, which is not a behaviour of the Rust code) — never `Outcome.panic`.
    The walk goes through ALL builder functions of `Model/Build.lean` (strings, values, arguments, directives, types,
    selection sets, variable definitions, operations, fragments, `#import`, descriptions, input values, fields, enum
    values, implements-lists, the six type definitions and six type extensions, schema definitions / extensions,
    directive definitions, both documents): each is only handed a pair of its subject rule, every matcher succeeds
    (`run_children_in_shape` + the kernel-evaluated `accepts` of every extracted pattern against the shape of the
    GENERATED grammar), every text-dependent site has its precondition (`pair_text_preconditions`), and the `\u` arms
    decode because `validate_unicode_escapes` passed (`validated_string_decodes`; since fix fff8e9c the validation runs per
    string and accepts a surrogate pair `\uHHHH\uLLLL`, which the builder combines — `surrogate_pair_decodes`). -/
theorem parse_no_panic (input : List Char) :
    (parseOp input).isPanic = false ∧ (parseTs input).isPanic = false :=
  ⟨parseWith_noPanic R.ExecutableDocument buildOperationDocument input look_ExecutableDocument (by decide)
      (fun _ n hg hr => quiet_buildOperationDocument n hg hr),
    parseWith_noPanic R.TypeSystemExtensionDocument buildTypeSystemDocument input look_TypeSystemExtensionDocument
      (by decide) (fun _ n hg hr => quiet_buildTypeSystemDocument n hg hr)⟩

/-- the same for the array-backed variants the compiled driver runs is NOT stated: `parseOpFast` / `parseTsFast` use
    `Ctx.ofInput` and `gArr`, which agree with `Ctx.spec` / `gList` on every offset of the input
    (`C07.driver_tables_agree`). -/
example : (parseOp "query Q($v: [Int!] = [1, 2]) @d(a: \"x\\u{1F600}\") { a: b(x: {k: $v}) { ...F ... on T { c } } }".toList).isPanic
    = false := (parse_no_panic _).1

/-
The later stages are in `Props/C08Stages.lean`: `resolveExt_total`, `resolveImports_total`, `checkOp_total`, `checkTs_total`,
`generate_total_partial` (the unconditional `generate_total` is FALSE: `generate_total_counterexample` — same response key
for a leaf and an object —, `generate_shadowed_skip_counterexample`), `render_error_total`, `loader_total`,
`js_printers_total`, `schemaDecls_lookups_total`, `pipeline_no_panic_partial`; its OPEN block says what is left there.

OPEN — carried by K/O only (stated, not proved), for the parser part:

What `parse_no_panic` does NOT say: (1) it is about the MODEL (`Model/Peg.lean` + `Model/Build.lean`, generated tables);
that the model's outcome — including the panic site — equals the real parser's on every text is the K stream;
(2) `outOfFuel` is excluded from "panic" by definition of `Outcome.isPanic`; that the depth bounds `defaultFuel` /
`4·|input| + 64` are never hit is not proved (never observed on any K text); (3) the compiled driver runs the
array-backed `parseOpFast` / `parseTsFast` (equal tables: `C07.driver_tables_agree`).
-/

end NitroVerif.C08
