import NitroVerif.Lemmas.Cli
/-!
# C18 — CLI status, diagnostics and written files are consistent and well-located

Property theorems only.  Model: `NitroVerif/Model/Cli.lean` (tied to `crates/cli/src/{main,check,generate}.rs`,
`output/mod.rs`, `file_store.rs`, `crates/error/src/lib.rs` by the correspondence check `harness/src/bin/c18.rs`,
which runs the real binary).  Every theorem quantifies over ALL stage results `r : Run` (any number of files, any
diagnostics, any command list, any generate options).  Process-level behaviour (how the exit code, stdout/stderr
and the file system are actually driven) is observed on the binary, not proved.
-/
namespace NitroVerif.Cli

/-- the CLI never reaches the `panic!` of `FileStore::add_file` (all schema files are added before the first
    operation file), so every run has an outcome -/
theorem C18_no_store_panic (r : Run) : (runCli r).isSome = true := by
  obtain ⟨o, h, _⟩ := runCli_shape r
  simp [h]

/-- the exit code is 0 or 1 -/
theorem C18_exit_01 (r : Run) (o : Outcome) (h : runCli r = some o) : o.exit = 0 ∨ o.exit = 1 := by
  obtain ⟨o', h', sh⟩ := runCli_shape r
  rw [h] at h'; cases h'
  cases sh with
  | noCommand _ ho => subst ho; simp [outcomeOf]
  | schemaParse _ _ ho => subst ho; simp [outcomeOf]
  | opParse _ _ _ ho => subst ho; simp [outcomeOf]
  | commands _ _ _ ho =>
    subst ho
    cases (runCommands r r.cmds St.init).2 <;> simp [outcomeOf]

/-- exit code 0 exactly when there is no diagnostic and no command error -/
theorem C18_exit_iff (r : Run) (o : Outcome) (h : runCli r = some o) :
    o.exit = 0 ↔ (o.diags = [] ∧ o.error = none) := by
  obtain ⟨o', h', sh⟩ := runCli_shape r
  rw [h] at h'; cases h'
  cases sh with
  | noCommand _ ho => subst ho; simp [outcomeOf]
  | schemaParse _ _ ho => subst ho; simp [outcomeOf]
  | opParse _ _ _ ho => subst ho; simp [outcomeOf]
  | commands _ _ _ ho =>
    subst ho
    have hd := (runCommands_spec r r.cmds St.init (Good.init r)).2
    cases he : (runCommands r r.cmds St.init).2 with
    | none =>
      have : (runCommands r r.cmds St.init).1.diags = [] := by
        cases hq : (runCommands r r.cmds St.init).1.diags with
        | nil => rfl
        | cons a b => exact absurd he (hd (by simp [hq]))
      simp [outcomeOf, this]
    | some e => simp [outcomeOf]

/-- exit code 0 exactly when the stage results contain no fault that the requested commands look at: a usable
    command list (`check` or `generate` first, then only `generate`), every file parses, `check_impl` reports
    nothing, and — if `generate` is requested — usable options, no printer error, no file-system failure -/
theorem C18_exit_iff_faults (r : Run) (o : Outcome) (h : runCli r = some o) : o.exit = 0 ↔ Clean r := by
  obtain ⟨o', h', sh⟩ := runCli_shape r
  rw [h] at h'; cases h'
  cases sh with
  | noCommand h0 ho =>
    subst ho
    simp [outcomeOf, Clean, h0, cmdsOk]
  | schemaParse _ he ho =>
    subst ho
    have : ¬ Clean r := fun c => he ((parseErrs_nil_iff _ _ _ _).mpr c.2.1)
    simp [outcomeOf, this]
  | opParse _ _ he ho =>
    subst ho
    have : ¬ Clean r := by
      intro c
      refine he ((parseErrs_nil_iff _ _ _ _).mpr ?_)
      intro p hp
      obtain ⟨f, hf, rfl⟩ := List.mem_map.mp hp
      exact c.2.2.1 f hf
    simp [outcomeOf, this]
  | commands hc hs hp ho =>
    subst ho
    have hk := runCommands_init_ok r r.cmds
    have hs' := (parseErrs_nil_iff _ _ _ _).mp hs
    have hp' : ∀ f ∈ r.opFiles, f.parse = .ok := by
      intro f hf
      exact (parseErrs_nil_iff _ _ _ _).mp hp f.parse (List.mem_map.mpr ⟨f, hf, rfl⟩)
    have hex : (outcomeOf (runCommands r r.cmds St.init).1 (runCommands r r.cmds St.init).2
        ⟨r.schemaFiles.length, r.opFiles.length⟩).exit = 0 ↔ (runCommands r r.cmds St.init).2 = none := by
      cases (runCommands r r.cmds St.init).2 <;> simp [outcomeOf]
    rw [hex, hk]
    constructor
    · rintro (h0 | ⟨h1, h2, h3⟩)
      · exact absurd h0 hc
      · exact ⟨h1, hs', hp', h2, h3⟩
    · intro c
      exact Or.inr ⟨c.1, c.2.2.2.1, c.2.2.2.2⟩

example : Clean ⟨[.check, .generate], [.ok], none, [], [⟨.ok, none, none, [], .ok⟩],
    ⟨true, false, false, true, true, .withLoaderTs50⟩, false, .ok, .ok, .ok⟩ :=
  ⟨by decide, by decide, by decide, by decide, by decide⟩

/-- a diagnostic always comes with exit code 1 -/
theorem C18_diag_exit_1 (r : Run) (o : Outcome) (h : runCli r = some o) (hd : o.diags ≠ []) : o.exit = 1 := by
  rcases C18_exit_01 r o h with h0 | h1
  · exact absurd ((C18_exit_iff r o h).mp h0).1 hd
  · exact h1

example : ∃ r o, runCli r = some o ∧ o.diags ≠ [] :=
  ⟨⟨[.check], [.ok], none, [], [⟨.ok, none, none, [⟨⟨0, 0, 1, false⟩, [], 0⟩], .ok⟩], ⟨true, false, false, false, false, .withLoaderTs50⟩,
    false, .ok, .ok, .ok⟩, _, rfl, by decide⟩

/-- when check ran, the diagnostics are exactly the result of `check_impl` (nothing dropped, nothing invented);
    when it did not run and the inputs parse, there are none -/
theorem C18_diags_are_check_result (r : Run) (o : Outcome) (h : runCli r = some o)
    (hc : Cmd.check ∈ o.commandsRun) : o.diags = checkImpl r := by
  obtain ⟨o', h', sh⟩ := runCli_shape r
  rw [h] at h'; cases h'
  cases sh with
  | noCommand _ ho => subst ho; simp [outcomeOf, St.init] at hc
  | schemaParse _ _ ho => subst ho; simp [outcomeOf, St.init] at hc
  | opParse _ _ _ ho => subst ho; simp [outcomeOf, St.init] at hc
  | commands _ _ _ ho =>
    subst ho
    exact (runCommands_spec r r.cmds St.init (Good.init r)).1.ran hc

/-- `check` (any command list without `generate`) writes no file and lists none -/
theorem C18_check_writes_nothing (r : Run) (o : Outcome) (h : runCli r = some o) (hg : Cmd.generate ∉ r.cmds) :
    o.written = [] ∧ o.listed = [] := by
  obtain ⟨o', h', sh⟩ := runCli_shape r
  rw [h] at h'; cases h'
  cases sh with
  | noCommand _ ho => subst ho; simp [outcomeOf, St.init]
  | schemaParse _ _ ho => subst ho; simp [outcomeOf, St.init]
  | opParse _ _ _ ho => subst ho; simp [outcomeOf, St.init]
  | commands _ _ _ ho =>
    subst ho
    have := runCommands_no_generate r r.cmds St.init hg
    simpa [outcomeOf, St.init] using this

example : ∃ r : Run, Cmd.generate ∉ r.cmds ∧ r.cmds ≠ [] := ⟨⟨[.check, .check], [], none, [], [], ⟨true, false, false, false, false, .withLoaderTs50⟩, false, .ok, .ok, .ok⟩, by decide, by decide⟩

/-- did the inputs fail to parse or did `check_impl` report anything? -/
def CheckFails (r : Run) : Prop :=
  parseErrs .schema .parseSchema 0 r.schemaFiles ≠ [] ∨
  parseErrs .operation .parseOperation r.schemaFiles.length (r.opFiles.map (·.parse)) ≠ [] ∨
  checkImpl r ≠ []

/-- when check fails (or an input does not parse) nothing is written, whatever commands were requested -/
theorem C18_generate_gated (r : Run) (o : Outcome) (h : runCli r = some o) (hf : CheckFails r) :
    o.written = [] ∧ o.listed = [] := by
  obtain ⟨o', h', sh⟩ := runCli_shape r
  rw [h] at h'; cases h'
  cases sh with
  | noCommand _ ho => subst ho; simp [outcomeOf, St.init]
  | schemaParse _ _ ho => subst ho; simp [outcomeOf, St.init]
  | opParse _ _ _ ho => subst ho; simp [outcomeOf, St.init]
  | commands _ hs hp ho =>
    subst ho
    have hc : checkImpl r ≠ [] := by
      rcases hf with hf | hf | hf
      · exact absurd hs hf
      · exact absurd hp hf
      · exact hf
    have fin := (runCommands_spec r r.cmds St.init (Good.init r)).1
    have hw := fin.gated hc
    exact ⟨by simpa [outcomeOf] using hw, by simpa [outcomeOf] using fin.wl.symm.trans hw⟩

example : CheckFails ⟨[.generate], [.ok], none, [], [⟨.ok, none, none, [⟨⟨0, 0, 1, false⟩, [], 0⟩], .ok⟩],
    ⟨true, false, false, true, true, .withLoaderTs50⟩, false, .ok, .ok, .ok⟩ := Or.inr (Or.inr (by decide))

/-- the files written are exactly the files listed (same files, same order), and every listed source map has its
    file listed: the map is the `<file name>.map` sibling of that file -/
theorem C18_written_eq_listed (r : Run) (o : Outcome) (h : runCli r = some o) :
    o.written = o.listed ∧ MapsHaveFiles o.listed := by
  obtain ⟨o', h', sh⟩ := runCli_shape r
  rw [h] at h'; cases h'
  cases sh with
  | noCommand _ ho => subst ho; exact ⟨rfl, by intro t ht; cases ht⟩
  | schemaParse _ _ ho => subst ho; exact ⟨rfl, by intro t ht; cases ht⟩
  | opParse _ _ _ ho => subst ho; exact ⟨rfl, by intro t ht; cases ht⟩
  | commands _ _ _ ho =>
    subst ho
    have fin := (runCommands_spec r r.cmds St.init (Good.init r)).1
    exact ⟨fin.wl, fin.maps⟩

/-- the JSON document lists under `generate.files` exactly the files written -/
theorem C18_json_lists_written (r : Run) (o : Outcome) (h : runCli r = some o) (fs : List OutFile)
    (hj : (jsonView o).generate = some fs) : fs = o.written := by
  have := (C18_written_eq_listed r o h).1
  unfold jsonView at hj
  simp only [] at hj
  split at hj
  · cases hj; exact this.symm
  · cases hj

/-! ## every offending file is reported -/

/-- every file with a parse error contributes a diagnostic that names it (schema files; operation files when all
    schema files parse) — all of them, not only the first -/
theorem C18_parse_errors_all_reported (r : Run) (o : Outcome) (h : runCli r = some o) (hc : r.cmds ≠ []) :
    (∀ i l c t, r.schemaFiles[i]? = some (.err l c t) →
      (⟨.schema, .parseSchema, ⟨⟨l, c, i, false⟩, [], t⟩⟩ : CheckErr) ∈ o.diags) ∧
    ((∀ f ∈ r.schemaFiles, f = .ok) → ∀ j l c t, (r.opFiles.map (·.parse))[j]? = some (.err l c t) →
      (⟨.operation, .parseOperation, ⟨⟨l, c, r.schemaFiles.length + j, false⟩, [], t⟩⟩ : CheckErr) ∈ o.diags) := by
  obtain ⟨o', h', sh⟩ := runCli_shape r
  rw [h] at h'; cases h'
  constructor
  · intro i l c t hi
    have hm := parseErrs_complete .schema .parseSchema 0 r.schemaFiles i l c t hi
    simp only [Nat.zero_add] at hm
    cases sh with
    | noCommand h0 _ => exact absurd h0 hc
    | schemaParse _ _ ho => subst ho; simpa [outcomeOf] using hm
    | opParse _ hs _ _ => rw [hs] at hm; cases hm
    | commands _ hs _ _ => rw [hs] at hm; cases hm
  · intro hok j l c t hj
    have hm := parseErrs_complete .operation .parseOperation r.schemaFiles.length (r.opFiles.map (·.parse)) j l c t hj
    cases sh with
    | noCommand h0 _ => exact absurd h0 hc
    | schemaParse _ he _ => exact absurd ((parseErrs_nil_iff _ _ _ _).mpr hok) he
    | opParse _ _ _ ho => subst ho; simpa [outcomeOf] using hm
    | commands _ _ hp _ => rw [hp] at hm; cases hm

/-- `check_impl` reports EVERY operation file that has a fault at the first operation stage that reports anything
    (extension resolution, then import resolution, then the operation check), provided the schema is accepted -/
theorem checkImpl_first_stage (r : Run) (hs1 : r.schemaExt = none) (hs2 : r.schemaCheck = []) :
    (∀ f ∈ r.opFiles, ∀ d, f.ext = some d → (⟨.operation, .opExt, d⟩ : CheckErr) ∈ checkImpl r) ∧
    ((∀ f ∈ r.opFiles, f.ext = none) →
      ∀ f ∈ r.opFiles, ∀ d, f.imp = some d → (⟨.operation, .opImport, d⟩ : CheckErr) ∈ checkImpl r) ∧
    ((∀ f ∈ r.opFiles, f.ext = none ∧ f.imp = none) →
      ∀ f ∈ r.opFiles, ∀ d ∈ f.check, (⟨.operation, .opCheck, d⟩ : CheckErr) ∈ checkImpl r) := by
  have none_ext : (∀ f ∈ r.opFiles, f.ext = none) → r.opFiles.filterMap (·.ext) = [] := by
    intro h; rw [List.filterMap_eq_nil_iff]; exact h
  have none_imp : (∀ f ∈ r.opFiles, f.imp = none) → r.opFiles.filterMap (·.imp) = [] := by
    intro h; rw [List.filterMap_eq_nil_iff]; exact h
  refine ⟨?_, ?_, ?_⟩
  · intro f hf d hd
    have hm : d ∈ r.opFiles.filterMap (·.ext) := List.mem_filterMap.mpr ⟨f, hf, hd⟩
    have hne : (r.opFiles.filterMap (·.ext)).isEmpty = false := by
      cases hq : r.opFiles.filterMap (·.ext) with
      | nil => rw [hq] at hm; cases hm
      | cons a b => rfl
    unfold checkImpl
    simp only [hs1, hs2, List.isEmpty_nil, Bool.not_true, Bool.false_eq_true, if_false, hne, Bool.not_false, if_true]
    exact mem_tagged.mpr ⟨rfl, rfl, hm⟩
  · intro hnone f hf d hd
    have hm : d ∈ r.opFiles.filterMap (·.imp) := List.mem_filterMap.mpr ⟨f, hf, hd⟩
    have hne : (r.opFiles.filterMap (·.imp)).isEmpty = false := by
      cases hq : r.opFiles.filterMap (·.imp) with
      | nil => rw [hq] at hm; cases hm
      | cons a b => rfl
    unfold checkImpl
    simp only [hs1, hs2, none_ext hnone, List.isEmpty_nil, Bool.not_true, Bool.false_eq_true, if_false, hne,
      Bool.not_false, if_true]
    exact mem_tagged.mpr ⟨rfl, rfl, hm⟩
  · intro hnone f hf d hd
    have hm : d ∈ r.opFiles.flatMap (·.check) := List.mem_flatMap.mpr ⟨f, hf, hd⟩
    unfold checkImpl
    simp only [hs1, hs2, none_ext (fun f hf => (hnone f hf).1), none_imp (fun f hf => (hnone f hf).2),
      List.isEmpty_nil, Bool.not_true, Bool.false_eq_true, if_false]
    exact mem_tagged.mpr ⟨rfl, rfl, hm⟩

/-- does file `f` have a fault `d` at the first operation stage of the run that reports anything? -/
def FirstStageFault (r : Run) (f : OpFile) (d : Diag) : Prop :=
  f.ext = some d ∨
  ((∀ g ∈ r.opFiles, g.ext = none) ∧ f.imp = some d) ∨
  ((∀ g ∈ r.opFiles, g.ext = none ∧ g.imp = none) ∧ d ∈ f.check)

/-
FULL STATEMENT (false of the code, see `C18_all_files_reported_counterexample`; open findings
`unnamed:op-*:masked-by:op-*` with replays under findings/):

  theorem C18_all_files_reported : check ran → schema accepted →
      ∀ f ∈ r.opFiles, ∀ d, (f.ext = some d ∨ f.imp = some d ∨ d ∈ f.check) → ∃ e ∈ o.diags, e.diag = d

The code reports the faults of ONE operation stage only — the first that reports anything — but of every file at
that stage.  Likewise for schema files: `resolve_schema_extensions` returns a single error, which hides the
extension-resolution faults of other schema files and every fault `check_type_system_document` would find
(`C18_schema_stage_counterexample`); and a schema that is not accepted ends the check before operations are looked at.
`resolve_operation_imports` also returns ONE error per root file — the first met along the import chain, so it may be
located in an imported file (`imp : Option Diag` carries an arbitrary position): the theorem below says the fault is
REPORTED; that the report names the file itself needs the position to lie in that file (open finding
`unnamed:op-import:masked-by:op-import`).
-/

/-- every operation file with a fault at the first failing operation stage contributes a diagnostic carrying that
    fault (when the check ran and the schema was accepted) -/
theorem C18_all_files_reported_partial (r : Run) (o : Outcome) (h : runCli r = some o)
    (hc : Cmd.check ∈ o.commandsRun) (hs1 : r.schemaExt = none) (hs2 : r.schemaCheck = [])
    (f : OpFile) (hf : f ∈ r.opFiles) (d : Diag) (hd : FirstStageFault r f d) :
    ∃ e ∈ o.diags, e.kind = .operation ∧ e.diag = d := by
  rw [C18_diags_are_check_result r o h hc]
  obtain ⟨h1, h2, h3⟩ := checkImpl_first_stage r hs1 hs2
  rcases hd with hd | ⟨hn, hd⟩ | ⟨hn, hd⟩
  · exact ⟨_, h1 f hf d hd, rfl, rfl⟩
  · exact ⟨_, h2 hn f hf d hd, rfl, rfl⟩
  · exact ⟨_, h3 hn f hf d hd, rfl, rfl⟩

/-- the check runs whenever the first command is `check` or `generate` and the inputs parse -/
theorem C18_check_runs (r : Run) (o : Outcome) (h : runCli r = some o) (c : Cmd) (cs : List Cmd)
    (hcmds : r.cmds = c :: cs) (hc : c = .check ∨ c = .generate)
    (hs : ∀ f ∈ r.schemaFiles, f = .ok) (hp : ∀ f ∈ r.opFiles, f.parse = .ok) : Cmd.check ∈ o.commandsRun := by
  obtain ⟨o', h', sh⟩ := runCli_shape r
  rw [h] at h'; cases h'
  cases sh with
  | noCommand h0 _ => rw [hcmds] at h0; cases h0
  | schemaParse _ he _ => exact absurd ((parseErrs_nil_iff _ _ _ _).mpr hs) he
  | opParse _ _ he _ =>
    refine absurd ((parseErrs_nil_iff _ _ _ _).mpr ?_) he
    intro p hp'
    obtain ⟨f, hf, rfl⟩ := List.mem_map.mp hp'
    exact hp f hf
  | commands _ _ _ ho =>
    subst ho
    rw [hcmds]
    exact first_command_runs_check r c cs hc

/-- the witness: file 0 misuses a wildcard import (extension stage), file 1 selects an unknown field (check stage) -/
def maskedRun : Run :=
  ⟨[.check], [.ok], none, [],
    [⟨.ok, some ⟨⟨0, 0, 1, false⟩, [], 0⟩, none, [], .ok⟩, ⟨.ok, none, none, [⟨⟨0, 11, 2, false⟩, [], 1⟩], .ok⟩],
    ⟨true, false, false, false, false, .withLoaderTs50⟩, false, .ok, .ok, .ok⟩

/-- the full statement fails: the check-stage fault of file 1 is not reported (only file 0 is named) -/
theorem C18_all_files_reported_counterexample :
    ∃ o, runCli maskedRun = some o ∧ Cmd.check ∈ o.commandsRun ∧
      (⟨⟨0, 11, 2, false⟩, [], 1⟩ : Diag) ∈ (maskedRun.opFiles.flatMap (·.check)) ∧
      ∀ e ∈ o.diags, e.diag.pos.file ≠ 2 := by
  refine ⟨_, rfl, by decide, by decide, by decide⟩

/-- two schema files with faults: only the single extension-resolution error is reported -/
def maskedSchemaRun : Run :=
  ⟨[.check], [.ok, .ok], some ⟨⟨1, 0, 0, false⟩, [], 0⟩, [⟨⟨2, 13, 1, false⟩, [], 1⟩], [],
    ⟨true, false, false, false, false, .withLoaderTs50⟩, false, .ok, .ok, .ok⟩

theorem C18_schema_stage_counterexample :
    ∃ o, runCli maskedSchemaRun = some o ∧ ∀ e ∈ o.diags, e.diag.pos.file ≠ 1 := by
  refine ⟨_, rfl, by decide⟩

/-! ## every diagnostic is located in the file store, in a file of the right kind -/

/-- the stages report positions of their own inputs: schema stages positions in schema files (or built-in
    definitions), operation stages positions in operation files; the notes attached to a diagnostic point into
    any loaded file.  (`Pos::new` copies the file index the CLI set before parsing the file; the checkers copy
    node positions — tied to the real stages by the correspondence check on every case.) -/
structure WF (r : Run) : Prop where
  schemaExt : ∀ d, r.schemaExt = some d → d.pos.builtin = true ∨ d.pos.file < r.schemaFiles.length
  schemaCheck : ∀ d ∈ r.schemaCheck, d.pos.builtin = true ∨ d.pos.file < r.schemaFiles.length
  ops : ∀ f ∈ r.opFiles, ∀ d, (f.ext = some d ∨ f.imp = some d ∨ d ∈ f.check) →
    d.pos.builtin = true ∨ (r.schemaFiles.length ≤ d.pos.file ∧ d.pos.file < r.schemaFiles.length + r.opFiles.length)

example : WF maskedRun := by
  refine ⟨by decide, by decide, ?_⟩
  intro f hf d hd
  simp only [maskedRun, List.mem_cons, List.mem_nil_iff, or_false] at hf
  rcases hf with rfl | rfl
  · simp at hd; subst hd; right; decide
  · simp at hd; subst hd; right; decide

/-- every diagnostic that is not about a built-in definition has a file index inside the file store, and the file
    there is of the kind the diagnostic announces (`fileType`); the JSON `file` member is then not null and
    carries exactly that index, line and column -/
theorem C18_located (r : Run) (o : Outcome) (h : runCli r = some o) (wf : WF r) :
    ∀ e ∈ o.diags, e.diag.pos.builtin = false →
      (∃ i, o.store.getFile e.diag.pos.file = some (e.kind, i)) ∧
      jsonFile o.store e.diag.pos = some (e.diag.pos.file, e.diag.pos.line, e.diag.pos.col) := by
  have key : ∀ (fs : FileStore) (e : CheckErr), e.diag.pos.builtin = false →
      (∃ i, fs.getFile e.diag.pos.file = some (e.kind, i)) →
      (∃ i, fs.getFile e.diag.pos.file = some (e.kind, i)) ∧
      jsonFile fs e.diag.pos = some (e.diag.pos.file, e.diag.pos.line, e.diag.pos.col) := by
    intro fs e hb ⟨i, hi⟩
    exact ⟨⟨i, hi⟩, by simp [jsonFile, hb, hi]⟩
  obtain ⟨o', h', sh⟩ := runCli_shape r
  rw [h] at h'; cases h'
  intro e he hb
  cases sh with
  | noCommand _ ho => subst ho; simp [outcomeOf, St.init] at he
  | schemaParse _ _ ho =>
    subst ho
    have he' : e ∈ parseErrs .schema .parseSchema 0 r.schemaFiles := by simpa [outcomeOf] using he
    obtain ⟨hk, _, _, _, hlt⟩ := parseErrs_mem _ _ _ _ e he'
    apply key _ e hb
    refine ⟨e.diag.pos.file, ?_⟩
    rw [hk]
    exact getFile_schema _ _ _ (by simpa using hlt)
  | opParse _ _ _ ho =>
    subst ho
    have he' : e ∈ parseErrs .operation .parseOperation r.schemaFiles.length (r.opFiles.map (·.parse)) := by
      simpa [outcomeOf] using he
    obtain ⟨hk, _, _, hge, hlt⟩ := parseErrs_mem _ _ _ _ e he'
    apply key _ e hb
    refine ⟨e.diag.pos.file - r.schemaFiles.length, ?_⟩
    rw [hk]
    have := getFile_operation r.schemaFiles.length r.opFiles.length (e.diag.pos.file - r.schemaFiles.length)
      (by simp at hlt; omega)
    rwa [Nat.add_sub_cancel' hge] at this
  | commands _ _ _ ho =>
    subst ho
    have fin := (runCommands_spec r r.cmds St.init (Good.init r)).1
    have he' : e ∈ checkImpl r := by
      have he0 : e ∈ (runCommands r r.cmds St.init).1.diags := by simpa [outcomeOf] using he
      by_cases hc : Cmd.check ∈ (runCommands r r.cmds St.init).1.commandsRun
      · rw [fin.ran hc] at he0; exact he0
      · rw [fin.notRan hc] at he0; cases he0
    apply key _ e hb
    rcases checkImpl_mem r e he' with ⟨hk, hsrc⟩ | ⟨hk, f, hf, hsrc⟩
    · have hlt : e.diag.pos.file < r.schemaFiles.length := by
        rcases hsrc with hsrc | hsrc
        · rcases wf.schemaExt _ hsrc with hb' | hlt
          · rw [hb] at hb'; cases hb'
          · exact hlt
        · rcases wf.schemaCheck _ hsrc with hb' | hlt
          · rw [hb] at hb'; cases hb'
          · exact hlt
      refine ⟨e.diag.pos.file, ?_⟩
      rw [hk]
      exact getFile_schema _ _ _ hlt
    · rcases wf.ops f hf e.diag hsrc with hb' | ⟨hge, hlt⟩
      · rw [hb] at hb'; cases hb'
      · refine ⟨e.diag.pos.file - r.schemaFiles.length, ?_⟩
        rw [hk]
        have := getFile_operation r.schemaFiles.length r.opFiles.length (e.diag.pos.file - r.schemaFiles.length)
          (by omega)
        rwa [Nat.add_sub_cancel' hge] at this

/-- the human format lists the same diagnostics as the JSON document (schema group first, then operations) -/
theorem C18_human_same_diags (o : Outcome) (a b : List CheckErr) (h : humanView o = some (a, b)) :
    (a ++ b).Perm o.diags := by
  unfold humanView at h
  split at h
  · cases h
    have := List.filter_append_perm (fun e : CheckErr => decide (e.kind = .schema)) o.diags
    simpa using this
  · cases h

/-! ## rendering a position never panics -/

/-- `message_for_line` never panics: `skip_chars` always splits the line at a character boundary inside it
    (byte offset = UTF-8 length of a prefix), `saturating_sub` never underflows, whatever line/column the position
    has — also past the end of the file, in blank surroundings, with multi-byte characters -/
theorem C18_render_total (path src : List Char) (p : Pos) (msg : List Char) (additional : Bool) :
    (messageForLine path src p msg additional).isSome = true ∧
    (∀ (l : List Char) (n : Nat), skipChars l n = some (l.drop n)) :=
  ⟨messageForLine_isSome path src p msg additional, skipChars_eq⟩

/-- `print_positioned_error` does not panic when the main position and the notes are built-in or carry file
    indices inside the file store (which `C18_located` provides for every diagnostic the CLI renders) -/
theorem C18_print_total (files : List (List Char × List Char)) (msg : List Char) (pos : Option Pos)
    (extras : List (Pos × List Char))
    (hp : ∀ p, pos = some p → p.builtin = true ∨ p.file < files.length)
    (he : ∀ q ∈ extras, q.1.builtin = true ∨ q.1.file < files.length) :
    (printPositioned files msg pos extras).isSome = true := by
  unfold printPositioned
  split
  · rfl
  · next p =>
    split
    · rfl
    · next hb =>
      have hf : p.file < files.length := by
        rcases hp p rfl with h1 | h1
        · exact absurd h1 hb
        · exact h1
      have hget : files[p.file]? = some files[p.file] := by simp [hf]
      rw [hget]
      simp only []
      have h1 := messageForLine_isSome files[p.file].1 files[p.file].2 p msg false
      have h2 := renderExtras_isSome files extras he
      cases hm : messageForLine files[p.file].1 files[p.file].2 p msg false with
      | none => simp [hm] at h1
      | some a =>
        cases hx : renderExtras files extras with
        | none => simp [hx] at h2
        | some b => simp

example : ∃ files msg p, (∀ q, some p = some q → q.builtin = true ∨ q.file < files.length) ∧
    (printPositioned files msg (some p) []).isSome = true :=
  ⟨[(['f'], ['q', ' ', '{', '\n'])], ['m'], ⟨0, 2, 0, false⟩, by intro q hq; cases hq; right; decide,
    C18_print_total _ _ _ _ (by intro q hq; cases hq; right; decide) (by intro q hq; cases hq)⟩

/-- when the position is inside the file at a character that is not white space (the start of a token), the line
    is shown, the common indent `m` removed from it is at most the column, and the caret — `column - m` spaces in —
    stands under exactly that character of the shown line -/
theorem C18_caret_under_token (src : List Char) (p : Pos) (l : List Char) (c : Char)
    (hl : (lines src)[p.line]? = some l) (hc : l[p.col]? = some c) (hw : isWs c = false) :
    ∃ m, minIndent (relevantLines (lines src) p.line) = some m ∧ m ≤ p.col ∧
      (p.line, l) ∈ relevantLines (lines src) p.line ∧ (l.drop m)[p.col - m]? = some c := by
  obtain ⟨m, hm, hle⟩ := minIndent_le (lines src) p.line p.col l c hl hc hw
  refine ⟨m, hm, hle, mem_relevantLines _ _ _ hl, ?_⟩
  rw [List.getElem?_drop]
  have : m + (p.col - m) = p.col := by omega
  rw [this]; exact hc

example : ∃ (src : List Char) (p : Pos) (l : List Char) (c : Char),
    (lines src)[p.line]? = some l ∧ l[p.col]? = some c ∧ isWs c = false :=
  ⟨['a', '\n', ' ', ' ', 'x', '\n'], ⟨1, 2, 0, false⟩, [' ', ' ', 'x'], 'x', by decide, by decide, by decide⟩

/-
SECOND STAGE — proved in `Props/C18Composed.lean` / `Props/C18ComposedTs.lean` (wave 3): the driver model composed with
the stage models (`CliComposed.stagesOf`: parser [abstract] → merge + built-ins → `ExtResolve.resolve` →
`CheckTs.checkSchema`; parser → `Imports.resolveExt` → `Imports.resolve` → `CheckOp.checkOp`), for all projects:
`C18_exit_iff_clean` (exit = 0 ⇔ every file parses, both resolvers succeed for every file, both checker models report
nothing — the property's first sentence at the level of the stage MODELS applied to the input texts),
`C18_exit_zero_implies_rules` / `C18_valid_project_exits_zero` (composition with C03 / C04 / C05),
`C18_generate_gated_concrete`, `C18_diag_positions_from_ast` (no stage model invents a position),
`C18_located_composed` (the hypothesis `WF` of `C18_located` above is a THEOREM for the composed stage models, given only
that the parser stamps positions with the file index), `C18_human_total_composed`, `C18_ext_stage_files_named`,
`C18_import_stage_files_named`, `C18_check_stage_files_named`.

OPEN — carried by K/O only
* exit = 0 ↔ "no fault was injected" at the level of the INPUT TEXTS: the parsers stay abstract in the composed
  theorems (any functions `file index → text → document | error`); that the real parsers are `Build.parseTs` /
  `Build.parseOp` with positions re-stamped by the file index, produce no empty selection set and stamp every position
  (`ParserStamps`) is C07 / C08 and the K streams, not a theorem here.  The other parameters of `Env` (`res` =
  `resolve_relative_path`, the name coding, `pathPos`, the tag tables) are abstract as well, and the command list, the
  generate options, `ScalarTypeNotProvided` and the results of the writes (`IoRes`) are INPUTS of the project that no
  stage model computes.  The glue of `stagesOf` (merge = concatenation + built-ins, `Operations::new` keeps the last
  file of a path, imported definitions appended) was read off main.rs / check.rs; it is not proved but COMPARED: the
  K stream `composed:*` (harness/src/bin/c18/composed.rs) evaluates `runCli (stagesOf E P)` on whole projects — only
  the parsers are real — against the json run of the binary (the other K stream of C18 feeds the REAL stage results
  to the driver model; each stage model has the K stream of its own property).
* the stage models report `(kind, main position)`: the notes (`additional_info`) of the two checkers' diagnostics are not
  in the models, so the composed diagnostics carry none for them (observed on the binary by K).
* side conditions that stay hypotheses in the composed theorems: C03's `SchemaValid` of the resolved schema in
  `C18_exit_zero_implies_operation_rules` / `C18_valid_*` (the schema check does not establish all of it — e.g. not
  that root types exist: `C05_sound_knownTypes_counterexample`) and `ParserStamps` / "no empty selection set" of the
  abstract parsers.  (`C18_located_composed` needs `ParserStamps` only: the part of `SchemaValid` it uses IS derived
  from the schema check, `Lemmas/CliComposedChecked.lean`.)
* "line/column at the start of a token": inherited from C07 (node positions are token starts); here it is the
  O clause `located:not-token-start` with an independent lexer.  (`C18_diag_positions_from_ast` reduces it to: node
  positions of parsed documents are token starts.)
* one well-formed JSON document on stdout; stdout/stderr separation; what the file system really contains after
  the run: observed on the binary (O clauses `json-wellformed`, `written-neq-listed`, `check-writes-files`, …).
  `written` / `listed` are lists of output-file IDENTITIES (`OutFile` = target + is-it-a-map); the CONTENT of the
  written files is not in this model (the printers are the subject of other properties).
-/

end NitroVerif.Cli
