import NitroVerif.Lemmas.Determinism
import NitroVerif.Gen.HashSites
/-!
# C17 — generation is deterministic and independent of incidental ordering

Property theorems only. Model: `NitroVerif/Model/Determinism.lean`. The list of hash-iteration sites
(`NitroVerif/Gen/HashSites.lean`) is regenerated from the non-test sources of /repo/crates by
`translate/hash_sites.py` on every run; a site that is not accounted for makes the translator fail, a covering
theorem that is not stated here makes `Cover.statement` non-exhaustive (build failure).

What is PROVED here: (a) hash-seed independence of the model at every accounted order-insensitive site, for every
permutation of the iteration order; (b) order-independence of the lookup views, of the verdict shape and of the
denotation of declarations under permutation of key-distinct definitions.
What is NOT proved (observed by `harness/src/bin/c17.rs`, stream O): that fresh processes (different `RandomState`
seeds) write byte-identical files / diagnostics, and that the library entry points produce the CLI's bytes.
That the CONCRETE checker / printer models (not just the abstract shape `diagnostics` / `declOf` used here) are
invariant under permutation of definitions is proved in `Props/C17Concrete.lean`; the server schema file under
permutation is in `Props/C17Server.lean`. The OPEN block at the end of this file covers all three modules.
-/
namespace NitroVerif.Determinism
open NitroVerif.Gql

/-! ## (a) generic lemmas: collecting into a map / a set is permutation-invariant -/

/-- Collecting key-distinct pairs into a map (`collect`, `extend`, repeated `insert`) gives the same `get` for every
    order in which the pairs arrive. -/
theorem C17_collect_map_indep {K V : Type} [BEq K] [LawfulBEq K] {l₁ l₂ : List (K × V)}
    (h : l₁.Perm l₂) (nd : NoDupKeys l₁) (k : K) : getLast l₁ k = getLast l₂ k :=
  getLast_perm h nd k

/-- the same for `entry().or_insert` (first write wins) -/
theorem C17_collect_map_first_indep {K V : Type} [BEq K] [LawfulBEq K] {l₁ l₂ : List (K × V)}
    (h : l₁.Perm l₂) (nd : NoDupKeys l₁) (k : K) : getFirst l₁ k = getFirst l₂ k :=
  getFirst_perm h nd k

/-- Collecting into a set: membership does not depend on the order of arrival. -/
theorem C17_collect_set_indep {α : Type} {l₁ l₂ : List α} (h : l₁.Perm l₂) (a : α) : a ∈ l₁ ↔ a ∈ l₂ :=
  h.mem_iff

example : NoDupKeys [("Date", 1), ("ID", 2), ("JSON", 3)] ∧
    [("Date", 1), ("ID", 2), ("JSON", 3)].Perm [("JSON", 3), ("Date", 1), ("ID", 2)] := by
  unfold NoDupKeys
  decide

/-! ## (a) per site -/

/-- `Schema::map_str`: whatever order the hash map yields its entries in, the new map answers `get` the same way —
    provided `f` maps the keys to distinct keys. -/
theorem mapStr_get_indep {K V K' V' : Type} [BEq K'] [LawfulBEq K'] (f : K → K') (g : V → V')
    {it₁ it₂ : List (K × V)} (h : it₁.Perm it₂) (inj : ((it₁.map Prod.fst).map f).Nodup) (k : K') :
    getLast (mapStr f g it₁) k = getLast (mapStr f g it₂) k := by
  apply getLast_perm (h.map _)
  unfold NoDupKeys
  simpa [mapStr, List.map_map, Function.comp_def] using inj

example : (([("Query", 1), ("User", 2)] : List (String × Nat)).map Prod.fst |>.map fun s => s ++ "!").Nodup := by decide

/-- The side condition of `mapStr_get_indep` is needed: with a non-injective `f` two entries collide and the hash
    order decides which one survives (library API only; the CLI does not call `map_str`). -/
theorem mapStr_noninjective_counterexample :
    ∃ (it₁ it₂ : List (Nat × Nat)), it₁.Perm it₂ ∧ NoDupKeys it₁ ∧
      getLast (mapStr (fun _ => 0) id it₁) 0 ≠ getLast (mapStr (fun _ => 0) id it₂) 0 :=
  ⟨[(1, 10), (2, 20)], [(2, 20), (1, 10)], List.Perm.swap _ _ _, by unfold NoDupKeys; decide, by decide⟩

/-- `get_bag_of_identifiers`: the set of identifiers does not depend on the order of `scalar_types.values()`. -/
theorem bag_mem_indep {it₁ it₂ : List (List (List Char))} (h : it₁.Perm it₂) (x : List Char) :
    x ∈ bag it₁ ↔ x ∈ bag it₂ :=
  (h.flatMap_right _).mem_iff

/-- hence the local name chosen for every schema type (`make_local_type_names`) does not depend on it either -/
theorem localName_indep {it₁ it₂ : List (List (List Char))} (h : it₁.Perm it₂) (n : List Char) :
    localName (bag it₁) n = localName (bag it₂) n := by
  unfold localName
  have : (bag it₁).contains n = (bag it₂).contains n := by
    rw [Bool.eq_iff_iff, List.contains_iff_mem, List.contains_iff_mem]
    exact bag_mem_indep h n
  rw [this]

/-- `local_type_names.get(k)` in closed form: defined exactly for the type names of the document, whatever their
    order and multiplicity -/
theorem localTypeNames_get (bagIds : List (List Char)) (typeNames : List (List Char)) (k : List Char) :
    getLast (localTypeNames bagIds typeNames) k = if typeNames.contains k then some (localName bagIds k) else none :=
  getLast_map_fn (localName bagIds) typeNames k

/-- `SchemaTypePrinterOptions::from_config`: built-in scalar map extended by the configured entries -/
theorem fromConfig_get_indep {K V : Type} [BEq K] [LawfulBEq K] (builtin : List (K × V))
    {it₁ it₂ : List (K × V)} (h : it₁.Perm it₂) (nd : NoDupKeys it₁) (k : K) :
    getLast (fromConfig builtin it₁) k = getLast (fromConfig builtin it₂) k :=
  getLast_append_perm builtin h nd k

/-- graphql-scalars plugin, `load_schema_extensions` -/
theorem loadSchemaExtensions_get_indep {K E V : Type} [BEq K] [LawfulBEq K] (parse : E → Option V)
    (prev : List (K × V)) {it₁ it₂ : List (K × E)} (h : it₁.Perm it₂) (nd : NoDupKeys it₁) (k : K) :
    getLast (loadSchemaExtensions parse prev it₁) k = getLast (loadSchemaExtensions parse prev it₂) k :=
  getLast_append_perm prev (h.filterMap _) (noDupKeys_filterMap parse it₁ nd) k

/-- graphql-scalars plugin, `schema_addition`: the vector is sorted by the (distinct) keys before it is printed, so
    the printed text is the same for every iteration order -/
theorem schemaAddition_indep {K V : Type} (le : K → K → Bool)
    (trans : ∀ a b c, le a b = true → le b c = true → le a c = true)
    (total : ∀ a b, (le a b || le b a) = true)
    (antisymm : ∀ a b, le a b = true → le b a = true → a = b)
    {it₁ it₂ : List (K × V)} (h : it₁.Perm it₂) (nd : NoDupKeys it₁) :
    schemaAddition le it₁ = schemaAddition le it₂ := by
  unfold schemaAddition
  have p₁ := List.mergeSort_perm it₁ (fun a b => le a.1 b.1)
  have p₂ := List.mergeSort_perm it₂ (fun a b => le a.1 b.1)
  have s₁ := List.pairwise_mergeSort (le := fun (a b : K × V) => le a.1 b.1)
    (fun a b c => trans a.1 b.1 c.1) (fun a b => total a.1 b.1) it₁
  have s₂ := List.pairwise_mergeSort (le := fun (a b : K × V) => le a.1 b.1)
    (fun a b c => trans a.1 b.1 c.1) (fun a b => total a.1 b.1) it₂
  refine eq_of_perm_of_sorted_on (fun a b => le a.1 b.1 = true) _ _ ?_ (p₁.trans (h.trans p₂.symm)) s₁ s₂
  intro a ha b hb hab hba
  exact eq_of_key_eq (nd.perm p₁.symm) ha hb (antisymm _ _ hab hba)

/-- the hypotheses are satisfiable: `≤` on `Nat` keys, three entries in two orders -/
example : schemaAddition (fun a b : Nat => decide (a ≤ b)) [(3, "c"), (1, "a"), (2, "b")] =
    schemaAddition (fun a b : Nat => decide (a ≤ b)) [(1, "a"), (2, "b"), (3, "c")] :=
  schemaAddition_indep _ (by intro a b c; simp; omega) (by intro a b; simp; omega) (by intro a b; simp; omega)
    (by decide) (by unfold NoDupKeys; decide)

/-- loader `get_required_files`: WHICH files are still required does not depend on the hash order of the file table… -/
theorem requiredFiles_mem_indep {P : Type} [BEq P] [LawfulBEq P] {it₁ it₂ : List (P × List P)}
    (h : it₁.Perm it₂) (p : P) : p ∈ requiredFiles it₁ ↔ p ∈ requiredFiles it₂ := by
  unfold requiredFiles
  rw [mem_foldl_requiredStep, mem_foldl_requiredStep]
  have hk : ∀ q, q ∈ it₁.map Prod.fst ↔ q ∈ it₂.map Prod.fst := fun q => (h.map _).mem_iff
  constructor
  · rintro (h0 | ⟨hk', fi, hfi, hp⟩)
    · cases h0
    · exact Or.inr ⟨fun hm => hk' ((hk p).mpr hm), fi, h.mem_iff.mp hfi, hp⟩
  · rintro (h0 | ⟨hk', fi, hfi, hp⟩)
    · cases h0
    · exact Or.inr ⟨fun hm => hk' ((hk p).mp hm), fi, h.mem_iff.mpr hfi, hp⟩

/-- …and no file is listed twice -/
theorem requiredFiles_nodup {P : Type} [BEq P] [LawfulBEq P] (it : List (P × List P)) : (requiredFiles it).Nodup :=
  nodup_foldl_requiredStep _ it [] List.nodup_nil

/-- …but the ORDER of the list does (order-sensitive site, loader protocol only — see `Gen/HashSites.lean`). -/
theorem requiredFiles_order_counterexample :
    ∃ (it₁ it₂ : List (Nat × List Nat)), it₁.Perm it₂ ∧ NoDupKeys it₁ ∧ requiredFiles it₁ ≠ requiredFiles it₂ :=
  ⟨[(1, [10]), (2, [20])], [(2, [20]), (1, [10])], List.Perm.swap _ _ _, by unfold NoDupKeys; decide, by decide⟩

/-! ## every accounted site is covered -/

/-- the statement proved for each cover name used in `translate/hash_sites_accounted.json` -/
def Cover.statement : Gen.HashSites.Cover → Prop
  | .mapStr_get_indep =>
    ∀ (K V K' V' : Type) [BEq K'] [LawfulBEq K'] (f : K → K') (g : V → V') (it₁ it₂ : List (K × V)),
      it₁.Perm it₂ → ((it₁.map Prod.fst).map f).Nodup → ∀ k, getLast (mapStr f g it₁) k = getLast (mapStr f g it₂) k
  | .bag_mem_indep =>
    ∀ (it₁ it₂ : List (List (List Char))), it₁.Perm it₂ →
      (∀ x, x ∈ bag it₁ ↔ x ∈ bag it₂) ∧ ∀ n, localName (bag it₁) n = localName (bag it₂) n
  | .fromConfig_get_indep =>
    ∀ (K V : Type) [BEq K] [LawfulBEq K] (builtin it₁ it₂ : List (K × V)),
      it₁.Perm it₂ → NoDupKeys it₁ → ∀ k, getLast (fromConfig builtin it₁) k = getLast (fromConfig builtin it₂) k
  | .loadSchemaExtensions_get_indep =>
    ∀ (K E V : Type) [BEq K] [LawfulBEq K] (parse : E → Option V) (prev : List (K × V)) (it₁ it₂ : List (K × E)),
      it₁.Perm it₂ → NoDupKeys it₁ →
      ∀ k, getLast (loadSchemaExtensions parse prev it₁) k = getLast (loadSchemaExtensions parse prev it₂) k
  | .schemaAddition_indep =>
    ∀ (K V : Type) (le : K → K → Bool),
      (∀ a b c, le a b = true → le b c = true → le a c = true) → (∀ a b, (le a b || le b a) = true) →
      (∀ a b, le a b = true → le b a = true → a = b) →
      ∀ (it₁ it₂ : List (K × V)), it₁.Perm it₂ → NoDupKeys it₁ → schemaAddition le it₁ = schemaAddition le it₂

/-- **Hash-seed independence.** For every site that the scanner finds and the accounted list classifies as
    order-insensitive, the modelled result is the same for EVERY permutation of the iteration order (the order the
    process-random hash seed picks). -/
theorem C17_hash_indep :
    ∀ s ∈ Gen.HashSites.sites, ∀ c, s.verdict = .insensitive c → Cover.statement c := by
  intro _ _ c _
  cases c
  · intro K V K' V' _ _ f g it₁ it₂ h inj k; exact mapStr_get_indep f g h inj k
  · intro it₁ it₂ h; exact ⟨fun x => bag_mem_indep h x, fun n => localName_indep h n⟩
  · intro K V _ _ builtin it₁ it₂ h nd k; exact fromConfig_get_indep builtin h nd k
  · intro K E V _ _ parse prev it₁ it₂ h nd k; exact loadSchemaExtensions_get_indep parse prev h nd k
  · intro K V le tr to an it₁ it₂ h nd; exact schemaAddition_indep le tr to an h nd

/-- the accounted list has the sites the model speaks about (guards against an emptied list) -/
theorem C17_sites_nonempty :
    (Gen.HashSites.sites.filter fun s => match s.verdict with | .insensitive _ => true | _ => false).length ≥ 6 := by
  decide

/-! ## (b) reordering definitions: lookup views -/

/-- `Schema::get_type` / `DefinitionMap.types.get`: the definition found under a name does not depend on the order
    of the definitions, when type names are distinct -/
theorem typeDef?_perm {items₁ items₂ : TsDoc} (h : items₁.Perm items₂) (nd : NoDupTypeNames items₁) (n : Name) :
    (Schema.mk items₁).typeDef? n = (Schema.mk items₂).typeDef? n :=
  find?_perm_of_unique _ (typeDefs_perm h) (filter_length_le_one_of_nodup (fun t : TypeDef => t.name) _ nd n)

theorem directiveDef?_perm {items₁ items₂ : TsDoc} (h : items₁.Perm items₂) (nd : NoDupDirectiveNames items₁) (n : Name) :
    (Schema.mk items₁).directiveDef? n = (Schema.mk items₂).directiveDef? n :=
  find?_perm_of_unique _ (directiveDefs_perm h) (filter_length_le_one_of_nodup (fun d : DirectiveDef => d.name) _ nd n)

/-- the whole lookup view is the same -/
theorem viewOf_perm {items₁ items₂ : TsDoc} (h : items₁.Perm items₂)
    (ndt : NoDupTypeNames items₁) (ndd : NoDupDirectiveNames items₁) : viewOf items₁ = viewOf items₂ := by
  unfold viewOf
  congr 1
  · funext n; exact typeDef?_perm h ndt n
  · funext n; exact directiveDef?_perm h ndd n

/-- `DefinitionMap` (last definition wins) and the type system (`SchemaBuilder`, first wins) see the same
    definition under every name, and neither depends on the order of the definitions -/
theorem defMapTypes_get_perm {items₁ items₂ : TsDoc} (h : items₁.Perm items₂) (nd : NoDupTypeNames items₁) (n : Name) :
    getLast (defMapTypes items₁) n = getLast (defMapTypes items₂) n ∧
    getFirst (builderTypes items₁) n = getFirst (builderTypes items₂) n ∧
    getLast (defMapTypes items₁) n = getFirst (builderTypes items₁) n := by
  have ndk : NoDupKeys (defMapTypes items₁) := by
    unfold NoDupKeys
    rw [defMapTypes_keys]
    exact nd
  exact ⟨getLast_perm (h.filterMap _) ndk n, getFirst_perm (h.filterMap _) ndk n, getLast_eq_getFirst _ ndk n⟩

theorem fieldsOf_perm {items₁ items₂ : TsDoc} (h : items₁.Perm items₂) (nd : NoDupTypeNames items₁) (n : Name) :
    (Schema.mk items₁).fieldsOf n = (Schema.mk items₂).fieldsOf n := by
  unfold Schema.fieldsOf
  rw [typeDef?_perm h nd n]

theorem kindOf?_perm {items₁ items₂ : TsDoc} (h : items₁.Perm items₂) (nd : NoDupTypeNames items₁) (n : Name) :
    (Schema.mk items₁).kindOf? n = (Schema.mk items₂).kindOf? n := by
  unfold Schema.kindOf?
  rw [typeDef?_perm h nd n]

theorem objectImplementers_perm {items₁ items₂ : TsDoc} (h : items₁.Perm items₂) (n : Name) :
    ((Schema.mk items₁).objectImplementers n).Perm ((Schema.mk items₂).objectImplementers n) :=
  ((typeDefs_perm h).filter _).map _

/-- possible runtime types of a composite type: the same SET (for an interface the list follows definition order) -/
theorem possibleTypes_perm {items₁ items₂ : TsDoc} (h : items₁.Perm items₂) (nd : NoDupTypeNames items₁) (n : Name) :
    ((Schema.mk items₁).possibleTypes n).Perm ((Schema.mk items₂).possibleTypes n) := by
  unfold Schema.possibleTypes
  rw [typeDef?_perm h nd n]
  cases (Schema.mk items₂).typeDef? n with
  | none => exact List.Perm.refl _
  | some t =>
    cases hk : t.kind <;> simp only [hk] <;> first | exact List.Perm.refl _ | exact objectImplementers_perm h n

/-- root operation type names: with at most one `schema { … }` definition they do not depend on the order -/
theorem rootName_perm {items₁ items₂ : TsDoc} (h : items₁.Perm items₂)
    (one : (Schema.mk items₁).schemaDefs.length ≤ 1) (k : OpKind) :
    (Schema.mk items₁).rootName k = (Schema.mk items₂).rootName k := by
  have hp : (Schema.mk items₁).schemaDefs.Perm (Schema.mk items₂).schemaDefs := h.filterMap _
  have he : (Schema.mk items₁).schemaDefs = (Schema.mk items₂).schemaDefs := by
    match h1 : (Schema.mk items₁).schemaDefs, h2 : (Schema.mk items₂).schemaDefs with
    | [], [] => rfl
    | [], _ :: _ => rw [h1, h2] at hp; exact absurd hp.symm.eq_nil (by simp)
    | _ :: _, [] => rw [h1, h2] at hp; exact absurd hp.eq_nil (by simp)
    | [a], [b] => rw [h1, h2] at hp; simpa using hp
    | [a], _ :: _ :: _ => rw [h1, h2] at hp; exact absurd hp.length_eq (by simp)
    | _ :: _ :: _, _ => rw [h1] at one; simp at one
  unfold Schema.rootName Schema.explicitRoot?
  rw [he]

example : (Schema.mk [.schemaDef { roots := [(.query, "Q", {})] }, .typeDef { kind := .object, name := "Q" }]).schemaDefs.length ≤ 1 := by
  decide

/-! ## (b) verdict and denotation -/

/-- **Verdict.** For a checker that visits the definitions in document order and consults the rest of the document
    only through the lookup view, reordering key-distinct definitions permutes the diagnostics and leaves the
    verdict unchanged. (`chk` is arbitrary: the statement holds for every per-definition rule set.) -/
theorem C17_verdict_perm {E : Type} (chk : View → TsItem → List E) {items₁ items₂ : TsDoc} (h : items₁.Perm items₂)
    (ndt : NoDupTypeNames items₁) (ndd : NoDupDirectiveNames items₁) :
    (diagnostics chk (viewOf items₁) items₁).Perm (diagnostics chk (viewOf items₂) items₂) ∧
    verdictOk chk (viewOf items₁) items₁ = verdictOk chk (viewOf items₂) items₂ := by
  have hv := viewOf_perm h ndt ndd
  have hp : (diagnostics chk (viewOf items₁) items₁).Perm (diagnostics chk (viewOf items₂) items₂) := by
    unfold diagnostics
    rw [hv]
    exact h.flatMap_right _
  refine ⟨hp, ?_⟩
  unfold verdictOk
  rw [Bool.eq_iff_iff, List.isEmpty_iff, List.isEmpty_iff]
  exact ⟨fun e => by rw [e] at hp; exact hp.symm.eq_nil, fun e => by rw [e] at hp; exact hp.eq_nil⟩

/-- the relation the harness checks per exported alias: same name, bodies equal with unions read as sets -/
def DeclRel : Option Decl → Option Decl → Prop
  | some d₁, some d₂ => d₁.name = d₂.name ∧ d₁.body.Equiv d₂.body
  | none, none => True
  | _, _ => False

/-- **Denotation.** Reordering key-distinct definitions changes at most the order of the declarations: the same
    aliases are declared, and each alias denotes the same type (union members as a set). -/
theorem C17_denotation_perm {items₁ items₂ : TsDoc} (h : items₁.Perm items₂) (nd : NoDupTypeNames items₁) :
    ((decls items₁).map (·.name)).Perm ((decls items₂).map (·.name)) ∧
    ∀ a, DeclRel (declNamed (decls items₁) a) (declNamed (decls items₂) a) := by
  constructor
  · unfold decls
    simp only [List.map_map]
    exact (typeDefs_perm h).map _
  · intro a
    rw [declNamed_decls, declNamed_decls, typeDef?_perm h nd a]
    cases (Schema.mk items₂).typeDef? a with
    | none => trivial
    | some t =>
      refine ⟨rfl, ?_⟩
      simp only [declOf]
      cases t.kind <;> simp only [DeclBody.Equiv] <;> first | rfl | exact List.Perm.refl _ | exact objectImplementers_perm h _

/-- non-vacuity of the hypotheses of (b): two orders of a three-type document with an interface -/
example :
    let q : TypeDef := { kind := .object, name := "Query" }
    let n : TypeDef := { kind := .interface, name := "Node" }
    let u : TypeDef := { kind := .object, name := "User", implements := [("Node", {})] }
    let items₁ : TsDoc := [.typeDef q, .typeDef n, .typeDef u]
    let items₂ : TsDoc := [.typeDef u, .typeDef q, .typeDef n]
    NoDupTypeNames items₁ ∧ NoDupDirectiveNames items₁ ∧ items₁ ≠ items₂ := by
  refine ⟨by unfold NoDupTypeNames; decide, by unfold NoDupDirectiveNames; decide, ?_⟩
  intro h
  have := congrArg (fun l => l.head?.map fun | TsItem.typeDef t => t.name | _ => "") h
  simp at this

/-! ## library entry points and the CLI glue -/

/-- **Library = CLI (model level).** The file the CLI writes is the text the library printer produces followed by
    the `sourceMappingURL` trailer, and removing the trailer recovers exactly the library text — so comparing the
    CLI's bytes with the library's text modulo the trailer (what the harness does) loses nothing. -/
theorem C17_lib_eq_cli (printed mapFileName : List Char) :
    stripTrailer mapFileName (cliDeclFile printed mapFileName) = some printed := by
  unfold stripTrailer cliDeclFile
  simp

/-
OPEN — carried by K/O only (observed by harness/src/bin/c17.rs, not proved):

* `∀ project P, ∀ runs r₁ r₂ in fresh processes: out(r₁) = out(r₂)` bytewise (declarations, source maps, server
  schema, `--output-format json` stdout, diagnostics of `check`): the theorems above show that the modelled results
  at the SCANNED hash-iteration sites do not depend on the iteration order (the per-process `RandomState` seed is
  modelled as "any permutation"); that the process has no OTHER source of nondeterminism (hash iteration the scanner
  cannot see, allocator addresses, time, environment, third-party crates) is observed on N fresh processes.
* the per-site models: only `bag` / `localTypeNames` (K `identifiers`, `localnames`) and `requiredFiles` (K
  `required-files`) are compared with the code; `mapStr`, `fromConfig`, `loadSchemaExtensions`, `schemaAddition` are
  transcriptions by reading with abstract parameters (key / value functions, extension parser, sort comparator assumed a
  total order); `NoDupKeys` of the iteration sequence is the std-HashMap fact "every key once" (trusted).
* what a permutation is: a permutation of the LIST of definitions, each carrying its recorded positions. Files are not
  modelled, nor the new positions a definition gets when source text is moved (observed: streams `perm`, `targeted`,
  `multi-def`, `dup-names` of harness/src/bin/c17.rs).
* (moved to theorems, wave 3 — `Props/C17Concrete.lean`) that the checker / printers are of the shape `diagnostics chk
  view defs` / `decls` is no longer "by reading": permutation invariance is proved of the CONCRETE executable models
  `CheckTs.checkSchema`, `CheckOp.checkOp` (schema side and document side), `SchemaDecls.schemaFile`,
  `ResolverDecls.resolversFile`, `OpTypes.implTree`/`toTs`/`opDecls`, with kernel-checked witnesses of necessity for
  `BuiltinsApart`, "at most one schema definition" (operation checker), `NoDupFragNames` (multiset statement) and the
  "up to order" clauses, and PRE-REPAIR witnesses (`…_prerepair`, about `checkSchemaItems`, the function before fix
  8cdbacf) for repeated type / directive names; there is no witness for `NoDupOpNames`, `KeepsExtOrder` or
  `builtinTypeNamesDistinct`. The theorems KEEP `NoDupTypeNames` / `NoDupDirectiveNames` / "at most one schema
  definition" / `BuiltinsApart` as hypotheses (not discharged from "the pipeline produced this document").
  What is still carried by K/O only:
  that these models compute what the real code computes (K streams of C03/C04/C05 for the checkers,
  C09/C10 for the schema declaration file, C01/C02 for the operation types — other properties' harnesses), and the
  consequence on the real CLI (verdict and per-alias denotation invariant under shuffling definitions inside and
  across files, and renaming files: O stream of harness/src/bin/c17.rs).
* (moved to theorems — `Props/C17Server.lean`) the server schema file under permutation: the `serverGraphqlOutput` module
  (C16's model: `remove_builtins`, the model plugin's strip, `print_graphql` into `JsStringWriter`, the wrapper) is the
  wrapper around the CONCATENATION of per-definition blocks, each block being what the printer writes for that definition
  alone (`C17_server_doc_is_blocks`, `C17_server_module_is_blocks`); for every permutation of the definitions the blocks
  are permuted the same way and are byte for byte the same (`C17_server_schema_perm`, no side condition), the text does
  depend on the order (`C17_server_schema_order_leaks_into_text`); composed with C11 from the raw source items
  (`C17_server_schema_from_sources`) and with C16's round trip (`C17_server_schema_parse_perm`, `_pipeline`: both
  orders evaluate, lex and parse to the same document up to the order of definitions). Still carried by K/O only: that
  the model is the code (K of C16, byte for byte), and the line-multiset comparison of the real files under permutation
  (O here).
* Not modelled, hence not proved: `additional_info` of diagnostics and the rendered message text (the models carry kind +
  main position).
* the site list is complete only as far as the syntactic scan sees (name-based; documented in translate/hash_sites.py).
-/

end NitroVerif.Determinism
