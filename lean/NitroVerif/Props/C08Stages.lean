import NitroVerif.Lemmas.StagesCheckTs
import NitroVerif.Lemmas.StagesLoader
import NitroVerif.Lemmas.StagesRender
import NitroVerif.Lemmas.StagesJs
import NitroVerif.Lemmas.StagesDecls
import NitroVerif.Lemmas.StagesGenD
import NitroVerif.Lemmas.StagesIface
import NitroVerif.Lemmas.CheckTsUnique
import NitroVerif.Lemmas.CheckOpSoundUsed
import NitroVerif.Lemmas.Imports
import NitroVerif.Model.ExtResolve
import NitroVerif.Props.C08
/-!
# C08 — no input can make the toolchain panic: the stages AFTER parsing

Property theorems only (the parser part, `parse_no_panic`, is in `Props/C08.lean`).  Every model of a later stage is a
total Lean function in which each `panic!` / `unwrap` / `expect` / index of the Rust function it mirrors is an explicit
result (a `Panic` constructor, `none`, a `trap`, an out-of-fuel value); the models are tied to the code by the K streams
of their own properties (C03/C04 operation checker, C05 schema checker, C06 extension resolver, C13 imports, C01 operation
type printer, C12 JSON / JS printer, C18 diagnostics rendering, C19 loader).  Here: for ALL inputs, each stage's panic
results are unreachable — or reachable exactly under the stated condition.  design-notes/C08.md ("Wave 3b") lists, per
theorem, the panic sites of the Rust function that it covers.

Side conditions of the generation theorems (all decidable; `ifaceOkB`, `skipIncludeB` and `noKeyClashB` each have a
kernel-checked necessity witness below, none is given for `schemaOkB`):
`schemaOkB S` (unique type names, no field named `__typename`, union members are object types — a small part of C03's
`SchemaValid`) and `ifaceOkB S` (objects implement their interfaces), both established by the schema checker — which since
fix 8cdbacf also establishes unique type names (`uniqueTypeNames_of_checked`; `schemaOk_of_checked`, `ifaceOk_of_checked`;
all three under `builtinTypeNamesDistinct`, `schemaOk_of_checked` also under `noReservedFieldsB`), `skipIncludeB S` (a user
definition that shadows `@skip` / `@include` still requires `if` — the real code panics otherwise: open finding),
`noKeyClashB` (one response key = one field, with or without sub-selection, recursively — the FieldsInSetCanMerge rule the
checker lacks: open finding).
-/
namespace NitroVerif.C08
open NitroVerif.Gql NitroVerif.Stages

/-! ## 1. `resolve_schema_extensions` -/

/-- `resolveExt_total`: the model of `resolve_schema_extensions` is a structural recursion without fuel and without a
    panic result — the Rust function (schema_extension_resolver/{mod,extension_list}.rs) has no panic site at all (no
    `unwrap`/`expect`/`panic!`/index): for every document it returns the resolved document or one `ExtensionError`
    (duplicate original / extension without original), which carries a position. -/
theorem resolveExt_total (doc : TsDoc) :
    (∃ out, ExtResolve.resolve doc = .ok out) ∨ (∃ e, ExtResolve.resolve doc = .error e) := by
  cases h : ExtResolve.resolve doc with
  | ok out => exact Or.inl ⟨out, rfl⟩
  | error e => exact Or.inr ⟨e, rfl⟩

/-! ## 2. `resolve_operation_extensions`, `resolve_operation_imports` -/

section
open NitroVerif.Imports
variable {κ ρ : Type} [DecidableEq κ] [DecidableEq ρ]

/-- `resolveImports_total`: for every resolver `fs`, path function, root document and import graph (cycles, self
    imports, diamonds, dangling paths, repeated names), the repaired `resolve_operation_imports` returns the appended
    definitions or one `ImportError`: the recursion budget of the model (`number of files + 1`) is never exhausted and
    the result type of the repaired model has no panic value — the one `expect("missing target not found")` of the
    pre-repair code is gone (its reachability is the kernel-checked `C13.legacy_repeated_name_counterexample`).
    `resolve_operation_extensions` (import lines merged by path literal) is a fold returning `Ok` or one error. -/
theorem resolveImports_total (res : κ → ρ → κ) (fs : FS κ ρ) (root : κ) (rootFile : File ρ)
    (lines : List (RawImport ρ)) :
    resolve res fs root rootFile ≠ .outOfFuel ∧
    ((∃ out, resolve res fs root rootFile = .ok out) ∨ (∃ e, resolve res fs root rootFile = .err e)) ∧
    ((∃ imps, resolveExt lines = .ok imps) ∨ (∃ e, resolveExt lines = .error e)) := by
  have hf := resolve_fuel res fs root rootFile
  refine ⟨hf, ?_, ?_⟩
  · cases hr : resolve res fs root rootFile with
    | ok out => exact Or.inl ⟨out, rfl⟩
    | err e => exact Or.inr ⟨e, rfl⟩
    | outOfFuel => exact absurd hr hf
  · cases hr : resolveExt lines with
    | ok imps => exact Or.inl ⟨imps, rfl⟩
    | error e => exact Or.inr ⟨e, rfl⟩

end

/-! ## 3. the two checkers -/

section
open NitroVerif.CheckOp NitroVerif.CheckCommon

/-- `checkOp_total`: `check_operation_document` has three panic sites (common.rs: the slice `arguments[..idx]` with
    `idx` from `enumerate`, and two `unreachable!()` arms for `Value::Variable` after the variable case has returned) —
    none is a result of the model because none is reachable by construction of the function itself.  What the model adds
    are three fuels (walk through fragment spreads, root keys of a subscription, the closure of used fragments) with
    out-of-fuel branches the Rust code does not have.  For every schema and document, every walk fuel `n ≥ #fragments +
    1`, every number `m ≥ #fragments + 1` of closure rounds and ARBITRARY behaviours `Z`, `ZK` of the out-of-fuel
    branches, the diagnostics are exactly those of `checkOp`: no out-of-fuel branch is ever evaluated.
    (Restates C03's `checkOp_all_fuels_irrelevant` from the same lemmas.) -/
theorem checkOp_total (S : Schema) (D : Doc) (n m : Nat) (Z : SpreadHandler) (ZK : KeysHandler)
    (hn : CheckOp.fuelFor D ≤ n) (hm : (CheckOp.fragsOf D).length + 1 ≤ m) : checkOpXU S D n m Z ZK = checkOp S D := by
  rw [checkOpXU_eq_X S D Z ZK hm, checkOp_eq_X]
  exact checkOpX_indep S D Z exhaustedSpread ZK exhaustedKeys hn (Nat.le_refl _)

example (D : Doc) : CheckOp.fuelFor D ≤ CheckOp.fuelFor D + 1 ∧ (CheckOp.fragsOf D).length + 1 ≤ (CheckOp.fragsOf D).length + 2 :=
  ⟨Nat.le_succ _, Nat.le_succ _⟩

end

section
open NitroVerif.CheckTs

/-- `checkTs_total`: `check_type_system_document` (type_system_checker/*.rs) has no panic site (`check_unique_names`,
    which runs first since fix 8cdbacf, is one bounded pass over the definitions); its only unbounded loops are
    the breadth-first search of `check_directive_recursion`, which the model runs with `|T| + 2` rounds of fuel and a
    SILENT out-of-fuel branch, and — since fix 2e4a65e — the recursion of `directives_in_type` through the types of
    the fields of nested input objects, which the model runs with `|T| + 1` nesting levels of fuel and a silent
    out-of-fuel branch.  For every document, every fuel `n ≥ |T| + 2` and every behaviour `Z` of the first out-of-fuel
    branch, every fuel `m ≥ |T| + 1` and every behaviour `ZT` of the second, the checker run with `(n, Z, m, ZT)` reports
    exactly what `checkSchema` reports: neither branch is ever evaluated — every round that continues puts a new
    directive name of the document into `seen`, whether or not it reports, and every nested call of
    `directives_in_type` that does not return at once puts a new input-object name of the document into `seen_types`.
    (C05 proved the first only for searches that report nothing; here it holds for every directive definition, also one
    that is shadowed by a later definition of its name.) -/
theorem checkTs_total (T : TsDoc) (n : Nat) (Z : List Name → List DirectiveDef → List Err) (m : Nat) (ZT : WalkZ)
    (hn : T.length + 2 ≤ n) (hm : T.length + 1 ≤ m) :
    checkSchemaX T n Z m ZT = checkSchema T :=
  checkSchemaX_eq T n Z m ZT hn hm

/-- … in particular out-of-fuel branches that REPORT / invent a directive (instead of staying silent) change nothing -/
example (T : TsDoc) : checkSchemaX T (T.length + 2) (fun _ _ => [(CheckTs.ErrKind.RecursingDirective, {})])
    (T.length + 1) (fun _ seen => ([{ name := "boom" }], seen)) = checkSchema T :=
  checkTs_total T _ _ _ _ (Nat.le_refl _) (Nat.le_refl _)

end

/-! ## 4. the operation type printer (`print_types_for_operation_document`) -/

section
open NitroVerif.CheckOp NitroVerif.Valid NitroVerif.OpTypes

/-- `generate_total_partial`: for every schema and every document the operation checker accepts, under the four
    decidable side conditions (`schemaOkB`, `ifaceOkB`, `skipIncludeB` on the schema; `noKeyClashB` on the document,
    evaluated at any fragment-nesting bound `Dc` at which the document fits and any depth `d`), the model of
    `get_type_for_selection_set` returns a selection tree for EVERY definition of the document and ALL sufficiently
    large fuels of the model: none of the 13 `expect("Type system error")` / `panic!("Type system error")` sites of
    type_printer.rs (12) and selection_set_visitor.rs (1), neither of the two merge panics of deep_merge.rs ("Cannot
    merge fields of different types", "Cannot merge selection trees of different types") is reached (the other 2 of the
    17 sites of operation_type_printer/ are constant), and neither fuel runs out.  (The fuels are artefacts of the model; that its own `fuelFor` / `mfuelFor` are among the sufficient ones is
    NOT claimed — see the OPEN block.) -/
theorem generate_total_partial (S : Schema) (D : Doc) (hS : schemaOkB S = true) (hI : ifaceOkB S = true)
    (hSI : skipIncludeB S = true) (h : checkOp S D = []) (Dc d : Nat) (hK : noKeyClashB S D Dc d = true) :
    ∃ N M, ∀ fuel, N ≤ fuel → ∀ mfuel, M ≤ mfuel → ∀ x ∈ D, ∀ r, treeOf S D mfuel fuel x = some r → ∃ T, r = .ok T :=
  doc_trees_ok hS hI hSI h hK

/-- `treeOf` at the model's own fuels is `OpTypes.resultTree` (what the K stream of C01 compares with the real printer) -/
theorem treeOf_is_resultTree (S : Schema) (D : Doc) (x : ExecDef) :
    resultTree S D x = treeOf S D (OpTypes.mfuelFor D) (OpTypes.fuelFor D) x :=
  resultTree_eq S D x

/-- `generate_no_rust_panic`: … and at EVERY pair of fuels — too small ones included — the result for every definition
    is a tree or the model's own out-of-fuel value: the two fuels of the model can only replace a result by
    `outOfFuel`, they never change it into (or between) the panics of the Rust code (`implTree` is monotone in both
    fuels, `Lemmas/StagesFuel.lean`). -/
theorem generate_no_rust_panic (S : Schema) (D : Doc) (hS : schemaOkB S = true) (hI : ifaceOkB S = true)
    (hSI : skipIncludeB S = true) (h : checkOp S D = []) (Dc d : Nat) (hK : noKeyClashB S D Dc d = true)
    (fuel mfuel : Nat) :
    ∀ x ∈ D, ∀ r, treeOf S D mfuel fuel x = some r → (∃ T, r = .ok T) ∨ r = .error .outOfFuel :=
  doc_trees_any_fuel hS hI hSI h hK fuel mfuel

/-- … in particular at the model's own fuels, i.e. for `OpTypes.resultTree` itself — the function the K stream of C01
    compares with the real printer, panics included: under the side conditions it never returns `typeSystemError`,
    `mergeFieldsDifferentTypes` or `mergeTreesDifferentTypes`. -/
theorem generate_resultTree_no_rust_panic (S : Schema) (D : Doc) (hS : schemaOkB S = true) (hI : ifaceOkB S = true)
    (hSI : skipIncludeB S = true) (h : checkOp S D = []) (Dc d : Nat) (hK : noKeyClashB S D Dc d = true) :
    ∀ x ∈ D, ∀ r, resultTree S D x = some r → (∃ T, r = .ok T) ∨ r = .error .outOfFuel := by
  intro x hx r hr
  rw [treeOf_is_resultTree] at hr
  exact generate_no_rust_panic S D hS hI hSI h Dc d hK _ _ x hx r hr

/-! ### witnesses: the hypotheses are satisfiable, and each side condition is necessary -/

def builtinScalars : List TsItem := [
  .typeDef { kind := .scalar, name := "Int" }, .typeDef { kind := .scalar, name := "Float" },
  .typeDef { kind := .scalar, name := "String" }, .typeDef { kind := .scalar, name := "Boolean" },
  .typeDef { kind := .scalar, name := "ID" }]

def skipDef : TsItem :=
  .directiveDef { name := "skip", args := [{ name := "if", ty := .nonNull (.named "Boolean" {}) }],
                  locations := ["FIELD", "FRAGMENT_SPREAD", "INLINE_FRAGMENT"] }

/-- `interface Node { id: ID }  type A implements Node { id: ID x: Int }  type Query { a: A  f: Int  node: Node }` -/
def wSchema : Schema := ⟨builtinScalars ++ [skipDef,
  .typeDef { kind := .interface, name := "Node", fields := [{ name := "id", ty := .named "ID" {} }] },
  .typeDef { kind := .object, name := "A", implements := [("Node", {})],
             fields := [{ name := "id", ty := .named "ID" {} }, { name := "x", ty := .named "Int" {} }] },
  .typeDef { kind := .object, name := "Query",
             fields := [{ name := "a", ty := .named "A" {} }, { name := "f", ty := .named "Int" {} },
                        { name := "node", ty := .named "Node" {} }] }]⟩

/-- `query Q($v: Boolean!) { n: a { x } a { x @skip(if: $v) ...F } node { id ... on A { x } } }  fragment F on A { id }` -/
def wDoc : Doc := [
  .op { kind := .query, name := some ("Q", {}), vars := [{ name := "v", ty := .nonNull (.named "Boolean" {}) }],
        sel := [.field (some ("n", {})) "a" {} [] [] (some [.field none "x" {} [] [] none]),
                .field none "a" {} [] [] (some [
                  .field none "x" {} [] [{ name := "skip", args := [("if", {}, .var "v" {})] }] none,
                  .spread "F" {} [] {}]),
                .field none "node" {} [] [] (some [.field none "id" {} [] [] none,
                  .inline (some ("A", {})) [] [.field none "x" {} [] [] none] {}])] },
  .frag { name := "F", cond := "A", sel := [.field none "id" {} [] [] none] }]

/-- the hypotheses of `generate_total_partial` hold of a non-trivial pair (alias, `@skip` on a variable, a fragment
    spread, an interface-typed field with an inline fragment), and the model's own fuels are sufficient there -/
example : schemaOkB wSchema = true ∧ SchemaValid wSchema ∧ ifaceOkB wSchema = true ∧ skipIncludeB wSchema = true ∧
    checkOp wSchema wDoc = [] ∧
    noKeyClashB wSchema wDoc 4 4 = true ∧
    wDoc.all (fun x => match resultTree wSchema wDoc x with | some (.ok _) => true | _ => false) = true := by
  decide +kernel

/-- `query Q { n: a { x } n: f }` — the open finding (known-findings: `O:panic:generate:leaf-object-key-clash`; code
    site deep_merge.rs, "Cannot merge fields of different types") -/
def clashDoc : Doc := [
  .op { kind := .query, name := some ("Q", {}),
        sel := [.field (some ("n", {})) "a" {} [] [] (some [.field none "x" {} [] [] none]),
                .field (some ("n", {})) "f" {} [] [] none] }]

/-- **`generate_total` (without the key-clash condition) is FALSE**, of the model and of the real code: the document
    `query Q { n: a { x } n: f }` is accepted by the checker against a schema satisfying all three schema conditions,
    and the printer panics with "Cannot merge fields of different types"; `noKeyClashB` is exactly what fails. -/
theorem generate_total_counterexample :
    schemaOkB wSchema = true ∧ SchemaValid wSchema ∧ ifaceOkB wSchema = true ∧ skipIncludeB wSchema = true ∧
    checkOp wSchema clashDoc = [] ∧
    (clashDoc.all fun x => match resultTree wSchema clashDoc x with
      | some (.error .mergeFieldsDifferentTypes) => true | _ => false) = true ∧
    noKeyClashB wSchema clashDoc 4 4 = false := by
  decide +kernel

/-- a named type under `n` list markers -/
def wrapN : Nat → GType → GType
  | 0, t => t
  | n + 1, t => .list (wrapN n t) {}

/-- `type A { x: Int }  type Query { a: [[…[A]…]] }` with `n` list markers -/
def deepSchema (n : Nat) : Schema := ⟨builtinScalars ++ [skipDef,
  .typeDef { kind := .object, name := "A", fields := [{ name := "x", ty := .named "Int" {} }] },
  .typeDef { kind := .object, name := "Query", fields := [{ name := "a", ty := wrapN n (.named "A" {}) }] }]⟩

/-- `query Q { a { x } a { x } }` -/
def deepDoc : Doc := [
  .op { kind := .query, name := some ("Q", {}),
        sel := [.field none "a" {} [] [] (some [.field none "x" {} [] [] none]),
                .field none "a" {} [] [] (some [.field none "x" {} [] [] none])] }]

/-- `generate_resultTree_no_rust_panic` cannot be strengthened to "a tree" at the model's own fuels: with a field type
    under 70 list markers (more than `mfuelFor = docSize + 64 = 69`) all side conditions hold and the MODEL runs out of
    its merge fuel, while with 66 markers it returns a tree.  A limit of the model (the Rust recursion has no such bound);
    the K stream never generates such types. -/
theorem model_fuels_not_sufficient_witness :
    schemaOkB (deepSchema 70) = true ∧ SchemaValid (deepSchema 70) ∧ ifaceOkB (deepSchema 70) = true ∧
    skipIncludeB (deepSchema 70) = true ∧
    checkOp (deepSchema 70) deepDoc = [] ∧ noKeyClashB (deepSchema 70) deepDoc 4 4 = true ∧
    (deepDoc.all fun x => match resultTree (deepSchema 70) deepDoc x with
      | some (.error .outOfFuel) => true | _ => false) = true ∧
    (deepDoc.all fun x => match resultTree (deepSchema 66) deepDoc x with
      | some (.ok _) => true | _ => false) = true := by
  decide +kernel

/-- `directive @skip on FIELD  type Query { a: Int }` — a user definition that shadows the built-in `@skip` (built-ins
    are appended after the user's definitions and the first definition of a name wins) -/
def shadowSchema : Schema := ⟨[
  .directiveDef { name := "skip", locations := ["FIELD"] }] ++ builtinScalars ++ [skipDef,
  .typeDef { kind := .object, name := "Query", fields := [{ name := "a", ty := .named "Int" {} }] }]⟩

/-- `query Q { a @skip }` -/
def shadowDoc : Doc := [
  .op { kind := .query, name := some ("Q", {}), sel := [.field none "a" {} [] [{ name := "skip" }] none] }]

/-- **Open finding, found by this proof (known-findings: `O:panic:generate:shadowed-builtin-directive:skip` / `:include`;
    real code panics: type_printer.rs `check_skip_directive`, `expect("Type system error")`).**
    A schema that redefines `@skip` without a required `if` argument: `query Q { a @skip }` passes the operation check
    (the shadowing definition takes no arguments) and the printer, which interprets `@skip` by NAME, panics looking for
    `if`.  All other side conditions hold; `skipIncludeB` is exactly what fails.  Nothing reports the repeated directive
    name (`resolve_schema_extensions` collects directive definitions without a uniqueness check; C05's
    `uniqueDirectiveNames` hypothesis). -/
theorem generate_shadowed_skip_counterexample :
    schemaOkB shadowSchema = true ∧ ifaceOkB shadowSchema = true ∧ checkOp shadowSchema shadowDoc = [] ∧
    noKeyClashB shadowSchema shadowDoc 4 4 = true ∧
    (shadowDoc.all fun x => match resultTree shadowSchema shadowDoc x with
      | some (.error .typeSystemError) => true | _ => false) = true ∧
    skipIncludeB shadowSchema = false := by
  decide +kernel

/-- `interface I { x: Int }  type A implements I { y: Int }  type Query { i: I }` — passes `SchemaValid` (which does not look
    at field implementations) but not the schema checker (`InterfaceFieldNotImplemented`) -/
def badImplSchema : Schema := ⟨builtinScalars ++ [skipDef,
  .typeDef { kind := .interface, name := "I", fields := [{ name := "x", ty := .named "Int" {} }] },
  .typeDef { kind := .object, name := "A", implements := [("I", {})], fields := [{ name := "y", ty := .named "Int" {} }] },
  .typeDef { kind := .object, name := "Query", fields := [{ name := "i", ty := .named "I" {} }] }]⟩

def badImplDoc : Doc := [
  .op { kind := .query, name := some ("Q", {}),
        sel := [.field none "i" {} [] [] (some [.field none "x" {} [] [] none])] }]

/-- `ifaceOkB` cannot be dropped either (at the level of the models): the operation checker looks fields up on the STATIC
    type (`I` has `x`), the printer on every possible object type (`A` has no `x`).  In the real pipeline this schema does
    not get that far: the schema checker rejects it, which is what `ifaceOk_of_checked` states in general. -/
theorem generate_needs_ifaceOk :
    schemaOkB badImplSchema = true ∧ SchemaValid badImplSchema ∧ skipIncludeB badImplSchema = true ∧
    checkOp badImplSchema badImplDoc = [] ∧
    noKeyClashB badImplSchema badImplDoc 4 4 = true ∧
    (badImplDoc.all fun x => match resultTree badImplSchema badImplDoc x with
      | some (.error .typeSystemError) => true | _ => false) = true ∧
    ifaceOkB badImplSchema = false ∧ CheckTs.checkSchema badImplSchema.items ≠ [] := by
  decide +kernel

end

/-! ## 5. rendering diagnostics; the loader ABI -/

section
open NitroVerif.Cli

/-- `render_error_total`: for ALL file stores, source texts, messages and positions — also lines and columns outside
    the text, in blank surroundings, inside multi-byte characters' lines —
    (1) `message_for_line` never panics (`skip_chars`' `split_at` is always at a character boundary inside the line; the
        two `saturating_sub` cannot underflow), and
    (2) `print_positioned_error` panics EXACTLY when the file index of the main position, or of an additional note, of
        an error that is not built-in lies outside the file store (`files[position.file]`, the only other panic site;
        `write!(..).unwrap()` on a `String` cannot fail).  C18 proves the CLI only renders indices inside its store. -/
theorem render_error_total (files : List (List Char × List Char)) (msg : List Char) (pos : Option Cli.Pos)
    (extras : List (Cli.Pos × List Char)) :
    (∀ path src p m additional, (messageForLine path src p m additional).isSome = true) ∧
    (printPositioned files msg pos extras = none ↔
      ∃ p, pos = some p ∧ p.builtin = false ∧
        (files.length ≤ p.file ∨ ∃ q ∈ extras, q.1.builtin = false ∧ files.length ≤ q.1.file)) :=
  ⟨fun path src p m additional => messageForLine_isSome path src p m additional,
   printPositioned_none_iff files msg pos extras⟩

/-- both directions have instances: a position far outside a one-line file renders, an index outside the store does not -/
example : (printPositioned [(['f'], ['q', '\n'])] ['m'] (some ⟨99, 99, 0, false⟩) []).isSome = true ∧
    printPositioned [(['f'], ['q', '\n'])] ['m'] (some ⟨0, 0, 1, false⟩) [] = none := by decide

end

section
open NitroVerif.Loader
variable {P S J : Type} [DecidableEq P]

/-- `loader_total`: for every parser, path resolver and emitter that does not trap (`EmitTotal`: import resolution and
    the JS printer — items 2 and 6 here), along EVERY history of calls of the loader's exported functions from a fresh
    instance (any task ids: live, freed, never issued, 0; any file names and sources; `get_result_ptr/size` anywhere):
    some call traps iff the history contains the documented misuse — a `get_result_*` at a moment when no call has
    written RESULT yet (every earlier response was a task id, `true` from `load_file`, or the return of `free_task`).
    In particular `expect("Root file should be present")` (tasks.rs) is unreachable. -/
theorem loader_total (env : Env P S J) (he : EmitTotal env) (h : List (Op P S)) :
    (∃ r ∈ runResps env init h, r = .trap) ↔
      ∃ h1 h2, h = h1 ++ .getResult :: h2 ∧ ∀ r ∈ runResps env init h1, Resp.silent r = true :=
  run_trap_iff env he h

/-- on a reachable live instance, call by call: the only trapping operation is reading the empty RESULT cell -/
theorem loader_step_total (env : Env P S J) (he : EmitTotal env) (h : List (Op P S))
    (hd : (runSt env init h).dead = false) (op : Op P S) :
    (step env (runSt env init h) op).2 = .trap ↔ (op = .getResult ∧ (runSt env init h).result = none) :=
  (step_trap_iff env he _ hd (run_inv env h init keysLt_init rootOk_init (parsedOk_init env)).2.1 op).1

/-- the misuse exists, and a history without it answers every call -/
example :
    let env : Env Nat Nat Nat := ⟨fun _ => .ok [], fun a _ => a, fun _ _ => .js 0⟩
    runResps env init [.call (.initiate 0 0), .getResult] = [.taskId 1, .trap] ∧
    runResps env init [.call (.initiate 0 0), .call (.emit 1), .getResult, .call (.free 7)] =
      [.taskId 1, .js 0, .result (.js 0), .freed] := by decide

end

/-! ## 6. the other printers -/

section
open NitroVerif.CheckOp NitroVerif.Valid NitroVerif.FragClosure

/-- `js_printers_total`: in a document the operation checker accepts (schema without a field named `__typename`), the
    runtime document of EVERY definition is produced: `fragments.get(name).expect("fragment not found")` of
    `print_operation_runtime` / `print_fragment_runtime` is unreachable (C12 showed it is the only failure and is reached
    exactly for an undefined transitively spread name; the checker's rule 5.5.2.1 excludes that), and the depth bound of
    the model's fragment collection is not exhausted.  The JSON tree printer (`to_json.rs`, `Model/DocJson.lean`) and
    the naming / export decisions (`Model/Exports.lean`) are structural recursions without any panic site. -/
theorem js_printers_total (S : Schema) (D : Doc) (hS : noReservedFieldsB S = true) (h : checkOp S D = []) :
    ∀ x ∈ D, ∃ ds, runtimeDefs D x = .ok ds :=
  fun _ hx => runtimeDefs_ok h hS hx

example : noReservedFieldsB wSchema = true ∧ checkOp wSchema wDoc = [] ∧
    (wDoc.all fun x => match x, runtimeDefs wDoc x with | .op _, .ok ds => ds.length == 2 | .frag _, .ok ds => ds.length == 1 | _, _ => false) = true := by
  decide +kernel

end

section
open NitroVerif.CheckTs NitroVerif.ValidTs

/-- `schemaDecls_lookups_total`: the panic sites of the schema / resolver declaration printers that depend on the input
    (transcribed by hand in `Lemmas/StagesDecls.lean`; `Model/SchemaDecls.lean` does not represent them): in a document
    the schema checker accepts, every name handed to `local_type_names.get(..).expect("Local type name not
    generated")` — object and input field types, union members — is the name of a type definition; and
    `schema.get_type(name)…expect("Type system error")` finds every input object's own definition with all its fields,
    because type names are unique: the checker reports every name that is repeated (fix 8cdbacf), the built-in-position
    definitions being pairwise distinct (`builtinTypeNamesDistinct`, a fact about the constant `generate_builtins()`). -/
theorem schemaDecls_lookups_total (T : TsDoc) (h : checkSchema T = []) :
    (∀ n ∈ declLookups T, n ∈ declKeys T) ∧
    (builtinTypeNamesDistinct T = true → ∀ td ∈ typeDefs T, inputSelfLookupOk T td = true) :=
  ⟨declLookups_defined h, fun hb => inputSelfLookup_ok (uniqueTypeNames_of_accepted h hb)⟩

/-- `uniqueTypeNames_of_checked`: the side condition "unique type names across kinds" of the generation theorems IS
    established by the schema check (fix 8cdbacf, `check_unique_names`): in a document `check_type_system_document`
    accepts, no two user type definitions share a name and none takes a built-in type's name; with pairwise distinct
    built-in-position definitions all type names are pairwise distinct. -/
theorem uniqueTypeNames_of_checked (T : TsDoc) (hb : builtinTypeNamesDistinct T = true) (h : checkSchema T = []) :
    uniqueTypeNames T = true :=
  uniqueTypeNames_of_accepted h hb

/-- the hypotheses of `uniqueTypeNames_of_checked` hold, non-vacuously, of a document whose scalars ARE at built-in
    positions (as the CLI appends them) next to user definitions -/
example :
    let T : TsDoc := [
      .typeDef { kind := .object, name := "Query", fields := [{ name := "a", ty := .named "Int" {} }] },
      .typeDef { kind := .input, name := "In", inputs := [{ name := "s", ty := .named "String" {} }] },
      .typeDef { kind := .scalar, name := "Int", namePos := { builtin := true } },
      .typeDef { kind := .scalar, name := "String", namePos := { builtin := true } }]
    builtinTypeNamesDistinct T = true ∧ checkSchema T = [] ∧ uniqueTypeNames T = true ∧
      builtinNames (typeIdents T) = ["Int", "String"] := by decide

/-- `type A { x: Int }  input A { y: Int }  type Query { a: A }` (with the built-in scalars) -/
def dupKindDoc : TsDoc := builtinScalars ++ [
  .typeDef { kind := .object, name := "A", fields := [{ name := "x", ty := .named "Int" {} }] },
  .typeDef { kind := .input, name := "A", inputs := [{ name := "y", ty := .named "Int" {} }] },
  .typeDef { kind := .object, name := "Query", fields := [{ name := "a", ty := .named "A" {} }] }]

/-- what `resolve_schema_extensions` makes of it (same definitions, grouped by kind) -/
def dupKindResolved : TsDoc := (ExtResolve.resolve dupKindDoc).toOption.getD []

/-- **Pre-repair witness (the defect fix 8cdbacf repairs; the real code panicked: schema_type_printer/type_printer.rs,
    `expect("Type system error")` in the input object printer).** `type A {…}  input A {…}` passes the extension
    resolver (which rejects a repeated name of the SAME kind only) and the per-definition rules of the schema checker
    (`checkSchemaItems` — all that `check_type_system_document` did before the fix), and the printer of `input A` looks
    its fields up in the FIRST definition named `A`, an object type. Now the checker rejects the document
    (`DuplicatedName` at the second `A`), so the printer is never reached: `uniqueTypeNames_of_checked`. -/
theorem schemaDecls_duplicate_kind_prerepair :
    (ExtResolve.resolve dupKindDoc).toOption.isSome = true ∧ checkSchemaItems dupKindResolved = [] ∧
    uniqueTypeNames dupKindResolved = false ∧
    (typeDefs dupKindResolved).any (fun td => !inputSelfLookupOk dupKindResolved td) = true ∧
    checkSchema dupKindResolved = [(.DuplicatedName, {})] ∧ builtinTypeNamesDistinct dupKindResolved = true := by
  decide +kernel

end

/-! ## the schema checker establishes `ifaceOkB` -/

section
open NitroVerif.CheckTs NitroVerif.ValidTs

/-- `ifaceOk_of_checked`: a resolved schema document (built-in-position type definitions pairwise distinct) that
    `check_type_system_document` accepts satisfies `ifaceOkB` — every object type has every field of every interface it declares, at a type whose possible
    object types are among those of the interface field's type (the checker's `InterfaceFieldNotImplemented`,
    `FieldTypeMisMatchWithInterface` = the spec's covariance, and `InterfaceNotImplemented` for transitivity). So in the
    pipeline this side condition of `generate_total_partial` is discharged by the schema check. -/
theorem ifaceOk_of_checked (T : TsDoc) (hb : builtinTypeNamesDistinct T = true) (h : checkSchema T = []) :
    ifaceOkB ⟨T⟩ = true :=
  ifaceOk_of_accepted (uniqueTypeNames_of_accepted h hb) h

/-- `schemaOk_of_checked`: … and `schemaOkB`: unique type names by `check_unique_names`, the members of every union are
    defined object types by the checker's `NonObjectTypeUnionMember` / `UnknownType`; "no type declares a field named
    `__typename`" stays a hypothesis because the abstract `TypeDef` can carry fields on any kind while the checker looks
    at the fields of object and interface types only (for those it reports every name starting with `__`). -/
theorem schemaOk_of_checked (T : TsDoc) (hb : builtinTypeNamesDistinct T = true) (h : checkSchema T = [])
    (hnr : Valid.noReservedFieldsB ⟨T⟩ = true) : schemaOkB ⟨T⟩ = true :=
  schemaOk_of_accepted (uniqueTypeNames_of_accepted h hb) h hnr

/-- C03's `SchemaValid` implies it as well -/
theorem schemaOk_of_schemaValid (S : Schema) (h : Valid.SchemaValid S) : schemaOkB S = true :=
  schemaOk_of_valid h

end

/-! ## composition -/

section
open NitroVerif.CheckOp NitroVerif.Valid NitroVerif.OpTypes NitroVerif.FragClosure NitroVerif.CheckTs NitroVerif.ValidTs
  NitroVerif.Build

/-- `pipeline_no_panic_partial`: for EVERY resolved schema document `T` and operation document `D` (whatever texts
    they were parsed from): if both checks report nothing, then under the explicit decidable side conditions —
    schema: no field named `__typename`, `skipIncludeB`, and the built-in-position type definitions (the constant list
    the CLI appends) pairwise distinct (`schemaOkB`, `ifaceOkB` AND unique type names across kinds follow from the
    schema check: `schemaOk_of_checked`, `ifaceOk_of_checked`, `uniqueTypeNames_of_checked` — the latter since fix
    8cdbacf; nothing else of C03's `SchemaValid` is needed); document:
    `noKeyClashB` (no response key shared
    by different fields / by a leaf and an object, at some bound `Dc` at which the document fits) — no model of a
    generation stage reaches a panic result:
    (1) the operation type printer returns a tree for every definition, for all sufficiently large fuels, and at the
        model's own fuels a tree or the model's out-of-fuel value — never a panic of the Rust code;
    (2) the JavaScript / JSON printer produces the runtime document of every definition;
    (3) the schema and resolver declaration printers find every name they look up.
    Together with `parse_no_panic` (no text makes a parser model panic), `resolveExt_total`, `resolveImports_total`,
    `checkOp_total`, `checkTs_total` (total, fuels never exhausted) and `render_error_total` (diagnostics of a failing
    stage are rendered without panic for positions inside the file store) this covers every stage of `check` and
    `generate`. -/
theorem pipeline_no_panic_partial (T : TsDoc) (D : Doc)
    (hnr : noReservedFieldsB ⟨T⟩ = true) (hSI : skipIncludeB ⟨T⟩ = true) (hb : builtinTypeNamesDistinct T = true)
    (hT : checkSchema T = []) (hD : checkOp ⟨T⟩ D = []) (Dc d : Nat) (hK : noKeyClashB ⟨T⟩ D Dc d = true) :
    (∃ N M, ∀ fuel, N ≤ fuel → ∀ mfuel, M ≤ mfuel → ∀ x ∈ D, ∀ r, treeOf ⟨T⟩ D mfuel fuel x = some r → ∃ t, r = .ok t) ∧
    (∀ x ∈ D, ∀ r, resultTree ⟨T⟩ D x = some r → (∃ t, r = .ok t) ∨ r = .error .outOfFuel) ∧
    (∀ x ∈ D, ∃ ds, runtimeDefs D x = .ok ds) ∧
    (∀ n ∈ declLookups T, n ∈ declKeys T) ∧ (∀ td ∈ typeDefs T, inputSelfLookupOk T td = true) :=
  ⟨generate_total_partial ⟨T⟩ D (schemaOk_of_checked T hb hT hnr) (ifaceOk_of_checked T hb hT) hSI hD Dc d hK,
   generate_resultTree_no_rust_panic ⟨T⟩ D (schemaOk_of_checked T hb hT hnr) (ifaceOk_of_checked T hb hT) hSI hD Dc d hK,
   js_printers_total ⟨T⟩ D hnr hD,
   (schemaDecls_lookups_total T hT).1, (schemaDecls_lookups_total T hT).2 hb⟩

/-- the same, from the TEXTS of a one-file schema and a one-file operation document (`builtins` = the definitions the
    CLI appends): no text makes either parser model panic, and whenever both parse, the extension resolver succeeds and
    both checkers report nothing, the conclusions of `pipeline_no_panic_partial` hold under its side conditions -/
theorem pipeline_no_panic_texts (schemaText opText : List Char) (builtins : TsDoc) :
    (parseTs schemaText).isPanic = false ∧ (parseOp opText).isPanic = false ∧
    ∀ T0 T D, parseTs schemaText = .ok T0 → ExtResolve.resolve (T0 ++ builtins) = .ok T → parseOp opText = .ok D →
      checkSchema T = [] → checkOp ⟨T⟩ D = [] →
      noReservedFieldsB ⟨T⟩ = true → skipIncludeB ⟨T⟩ = true → builtinTypeNamesDistinct T = true →
      ∀ Dc d, noKeyClashB ⟨T⟩ D Dc d = true →
      (∃ N M, ∀ fuel, N ≤ fuel → ∀ mfuel, M ≤ mfuel → ∀ x ∈ D, ∀ r, treeOf ⟨T⟩ D mfuel fuel x = some r → ∃ t, r = .ok t) ∧
      (∀ x ∈ D, ∀ r, resultTree ⟨T⟩ D x = some r → (∃ t, r = .ok t) ∨ r = .error .outOfFuel) ∧
      (∀ x ∈ D, ∃ ds, runtimeDefs D x = .ok ds) ∧
      (∀ n ∈ declLookups T, n ∈ declKeys T) ∧ (∀ td ∈ typeDefs T, inputSelfLookupOk T td = true) := by
  refine ⟨(parse_no_panic schemaText).2, (parse_no_panic opText).1, ?_⟩
  · intro T0 T D _ _ _ hT hD hnr hSI hb Dc d hK
    exact pipeline_no_panic_partial T D hnr hSI hb hT hD Dc d hK

/-- the hypotheses of the composition are satisfiable together: the witness schema (as a resolved document) and document -/
example : schemaOkB ⟨wSchema.items⟩ = true ∧ noReservedFieldsB ⟨wSchema.items⟩ = true ∧ skipIncludeB ⟨wSchema.items⟩ = true ∧
    builtinTypeNamesDistinct wSchema.items = true ∧ uniqueTypeNames wSchema.items = true ∧
    checkSchema wSchema.items = [] ∧ checkOp ⟨wSchema.items⟩ wDoc = [] ∧
    noKeyClashB ⟨wSchema.items⟩ wDoc 4 4 = true := by
  decide +kernel

end

/-
OPEN — carried by K/O only (stated, not proved), after this file:

* model = code for every stage: the K streams of C01, C03/C04, C05, C06, C12, C13, C18, C19 (and the O stream of c08.rs,
  which runs every public entry point under catch_unwind / in a child process).  The panic sites of the schema and
  resolver declaration printers are NOT in `Model/SchemaDecls.lean`; `schemaDecls_lookups_total` speaks about a hand
  transcription of them (`Lemmas/StagesDecls.lean`).
* `generate_total_partial` gives a tree for "all sufficiently large fuels"; `generate_resultTree_no_rust_panic` gives
  "tree or `outOfFuel`" at the model's own `fuelFor d = 2·docSize + 4`, `mfuelFor d = docSize + 64`.  That these are
  SUFFICIENT (no `outOfFuel` at all) is false for the model on extreme inputs (`model_fuels_not_sufficient_witness`: a
  field type wrapped in more than `docSize + 64` list markers merged under one key) and not proved for ordinary ones.  `outOfFuel` is a limit of the model, not a
  behaviour of the Rust code (whose recursion is bounded by its stack only); K never met it.
* the schema-side hypotheses of `pipeline_no_panic_partial` that no check establishes: no field named `__typename` on a
  type of a kind without fields (vacuous for parsed documents), `skipIncludeB` (a user re-declaration of `@skip` /
  `@include` stays allowed after fix 8cdbacf: `generate_shadowed_skip_counterexample`), and `builtinTypeNamesDistinct`
  (about the constant list `generate_builtins()` = Int, Float, String, Boolean, ID; the K stream of C05 passes it as
  data). "Unique type names across kinds" is no longer among them: `uniqueTypeNames_of_checked`.
* the other hypotheses nothing here discharges: `noKeyClashB` on the document (the checker has no FieldsInSetCanMerge
  rule: `generate_total_counterexample`, open finding); `EmitTotal` in `loader_total` / `loader_step_total` (parser, path
  resolver and emitter are abstract parameters there; the loader does not run the checker); file indices inside the store
  in `render_error_total` (C18).
* `parse_config`, plugin hosts, the file system and the CLI process (C18's assumptions) have no theorem here, and their
  panic sites (cli/src/{main,generate,schema_loader,plugin_host}.rs, config-file/src/{node,execute}.rs, plugin/src,
  async-runtime/src, utils/src/relative_path.rs) are outside `translate/stage_sites.py`: O stream only (c08.rs runs
  `parse_config` in process and the built CLI binary on configuration × file-set × plugin rows, judged by exit status
  and `panicked at`).
-/

end NitroVerif.C08
