/-
C02 — generated result types admit nothing no execution could return.

Proved here: soundness of the executable decider of `RefLocal` the O stream uses; the wrapper-exactness of the leaf
translation (`leafTs_exact`: the TypeScript type printed for a leaf of GraphQL type `ty` denotes EXACTLY the values
`CompleteValue` allows — `null` at nullable positions only, lists element-wise, the named type's own values);
`C02_leaf_exact` (a selected, unconditionally included leaf is a REQUIRED field with exactly that type);
`C02_typename_literal` (`__typename`, under any response key, is the literal of the branch's object type, which
admits exactly that string); `C02_keys_survive_extract` (the reading of `__SelectionSet` keeps exactly the keys the
schema declaration declares); the kernel-checked witness of the defect of the pinned code that made C02 false
(`aliased_typename_counterexample` — §9-b, repaired in /repo 72cec20) with the proof that the repaired model excludes
the value.  The full statement is kept visible in the block "OPEN — carried by K/O only" at the end.
-/
import NitroVerif.Lemmas.OpTypes
import NitroVerif.Lemmas.TsSemSound
namespace NitroVerif.Props.C02
open NitroVerif.Gql NitroVerif.Ts NitroVerif.OpTypes NitroVerif.Exec

/-- The executable decider of the O stream only accepts members of `RefLocal`. -/
theorem refLocalMem_sound (c : Ctx) :
    ∀ n obj ss v, refLocalMem c n obj ss v = true → RefLocalN c n obj ss v := by
  intro n
  induction n with
  | zero => intro _ _ _ h; simp [refLocalMem] at h
  | succ n ih =>
    intro obj ss v h
    simp only [refLocalMem, List.any_eq_true] at h
    obtain ⟨a, _, ha⟩ := h
    split at ha
    · rename_i g hg
      exact ⟨sigmaOf a, g, hg, refLocalMem c n, ih, ha⟩
    · simp at ha

/-- non-vacuity: `{ a { x } a { y @skip(if: $v) } }` admits `a: { x: 1 }` in `RefLocal` -/
example : RefLocal W.ctx "Query" W.selA (.obj [("a", .obj [("x", .num)])]) :=
  ⟨3, refLocalMem_sound _ 3 _ _ _ (by decide +kernel)⟩

/-- **Wrapper-exactness.** With the named type printed as `q n` (not itself a union), the type printed for a leaf of
    GraphQL type `ty` admits exactly: `null` iff the position is nullable, lists of admitted elements at list
    positions, and the values of `q n` at the named position. -/
theorem leafTs_exact {e : Env} (q : Name → Ty) (hq : ∀ n ts, q n ≠ .union ts) (ty : GType) :
    (∀ v, Mem e v (leafTs q ty) ↔ WrapConf (fun n v => Mem e v (q n)) ty v) ∧
    (∀ v, Mem e v (leafCore q ty) ↔ WrapConfNN (fun n v => Mem e v (q n)) ty v) :=
  leafTs_den q hq ty

/-- non-vacuity of `hq`: the mapper of the printer (`Schema.__OperationOutput.<n>`, closed or not) is never a union -/
example : ∀ n ts, (fun n => Ty.qref ["Schema", "__OperationOutput", n]) n ≠ .union ts := by
  intro n ts h; cases h

/-- **A selected, unconditionally included leaf is required, with exactly its schema type.** If the selection
    `key: name` (no sub-selection, not skipped, `name ≠ __typename`) yields a tree field, then the object type declares
    `name` with some type `ty`, the field is the leaf `key : ty`, and it is printed as the REQUIRED, non-optional
    field `key: leafTs ty` — whose denotation is wrapper-exact by `leafTs_exact`. -/
theorem C02_leaf_exact {obj : TypeDef} {key name : Name} {rec : GType → List Selection → Except Panic SelTree}
    {f : SField} (hn : (name == "__typename") = false) (h : fieldTree obj key name false none rec = .ok f)
    (ns : String) (parent : Name) :
    ∃ ty, directField? obj name = some ty ∧ f = .leaf key ty false ∧
      fieldTs (Refs.ofNs ns) parent f = (key, false, false, leafTs (Refs.ofNs ns).out ty) := by
  unfold fieldTree at h
  simp only [Bool.false_eq_true, ↓reduceIte, hn] at h
  split at h
  · cases h
  · rename_i ty hty
    cases h
    exact ⟨ty, hty, rfl, by simp [fieldTs]⟩

/-- the hypotheses are satisfiable: `x` on the witness type `A` -/
example : ∃ f, fieldTree (W.S.typeDef? "A").get! "x" "x" false none (fun _ _ => .error .outOfFuel) = .ok f :=
  ⟨_, rfl⟩

/-- **`__typename` is the literal of the matching object type**, whatever its response key: the tree field of a
    selected `__typename` is the typename leaf, it is printed as the required field `key: "<Parent>"`, and that type
    admits exactly the string `<Parent>`. -/
theorem C02_typename_literal {e : Env} (obj : TypeDef) (key : Name) (sub : Option (List Selection))
    (rec : GType → List Selection → Except Panic SelTree) (ns : String) (parent : Name) :
    fieldTree obj key "__typename" false sub rec = .ok (.leaf key (.named "String" { builtin := true }) true) ∧
    fieldTs (Refs.ofNs ns) parent (.leaf key (.named "String" { builtin := true }) true) = (key, false, false, .strLit parent) ∧
    (∀ v, Mem e v (.strLit parent) ↔ v = .str parent) := by
  refine ⟨by simp [fieldTree], by simp [fieldTs], fun v => mem_strLit_iff⟩

/-- **Keys survive `Extract<keyof Orig, keyof Obj>` exactly when the schema declaration declares them.** Under the
    reading of `__SelectionSet` (Ts/SelSem.lean) a key of `Obj` is kept iff `Orig` declares it; so if the object
    declaration lists every selected key (it lists `__typename` and every field — compared on the real schema file by
    the O stream), no selected key is silently dropped. -/
theorem C02_keys_survive_extract (orig obj : List Field) :
    (SelSem.picked orig obj).map (·.1) = (obj.filter fun f => orig.any (·.1 == f.1)).map (·.1) ∧
    ((∀ f ∈ obj, orig.any (·.1 == f.1) = true) → (SelSem.picked orig obj).map (·.1) = obj.map (·.1)) := by
  constructor
  · simp [SelSem.picked, List.map_map, Function.comp_def]
  · intro h
    simp only [SelSem.picked, List.map_map, Function.comp_def]
    rw [List.filter_eq_self.2 h]

/-! ### §9-b: aliased `__typename` (pre-repair `field_to_type`) -/

/-- no execution of `{ t: __typename }` on `Query` returns `t: null`, even per selection set -/
theorem typename_null_not_refLocal : ¬ RefLocal W.ctx "Query" W.selT (.obj [("t", .null)]) := by
  rintro ⟨n, hn⟩
  cases n with
  | zero => exact hn
  | succ n =>
    obtain ⟨σ, g, hg, Rb, _, hs⟩ := hn
    have : collectFields W.ctx σ "Query" W.selT = some [("t", [⟨"__typename", none⟩])] := by rfl
    rw [this] at hg
    cases hg
    have hf : fieldOk W.ctx Rb "Query" [⟨"__typename", none⟩] (J.get [("t", J.null)] "t") = false := by rfl
    simp [setOkB, hf] at hs

/-- **Counterexample to C02 on the pinned code (§9-b).** `{ t: __typename }`: the tree field is the typename leaf under
    the key `t`; the pre-repair printer typed it `Schema.__OperationOutput.String | null`, which admits `null` (and any
    string) — values no execution returns; the repaired printer types it as the literal `"Query"`, which excludes them. -/
theorem aliased_typename_counterexample :
    (fieldTsByKey "Schema" "Query" (.leaf "t" (.named "String" { builtin := true }) true)).2.2.2
      = .union [.qref ["Schema", "__OperationOutput", "String"], .prim "null"] ∧
    Mem W.env .null (W.close (.union [.qref ["Schema", "__OperationOutput", "String"], .prim "null"])) ∧
    ¬ RefLocal W.ctx "Query" W.selT (.obj [("t", .null)]) ∧
    (fieldTs (Refs.ofNs "Schema") "Query" (.leaf "t" (.named "String" { builtin := true }) true)).2.2.2 = .strLit "Query" ∧
    ¬ Mem W.env .null (.strLit "Query") := by
  refine ⟨rfl, ?_, typename_null_not_refLocal, rfl, ?_⟩
  · apply memG_sound 4; decide +kernel
  · rw [mem_strLit_iff]; intro h; cases h

/-- the whole repaired pipeline on `{ t: __typename }`: the emitted type excludes `t: null` and admits `t: "Query"` -/
theorem aliased_typename_repaired :
    ∃ t, implTree W.S W.noFrags 16 16 (.nonNull (.named "Query" {})) W.selT = .ok t ∧
      Mem W.env (.obj [("t", .str "Query")]) (W.close (toTs "Schema" t)) ∧
      memG W.env 16 (.obj [("t", .null)]) (W.close (toTs "Schema" t)) = false := by
  refine ⟨_, rfl, ?_, ?_⟩
  · apply memG_sound 8; decide +kernel
  · decide +kernel

/-
OPEN — carried by K/O only (stated at full strength; not proved in budget)

  theorem impl_eq_refLocal  (see Props/C01.lean — one refinement statement, two corollaries)
  theorem C02_admits_only_local_executions :
      implTree S (fragsOf D) (mfuelFor D) (fuelFor D) (rootOf X) X.sel = .ok t →
      Mem (envOf S cfg) v (close (toTs ns t)) → ∃ o ∈ S.possibleTypes (rootOf X).unwrapped, RefLocal c o X.sel v
  -- object fields: `treeTs` of a sub-tree denotes the union over its branches of the `__SelectionSet` records
  -- (the leaf part is `leafTs_exact`, the key part `C02_keys_survive_extract`, `__typename` `C02_typename_literal`)
  What carries these statements today: K (model = code, tree against tree) and O (`oracle.c02`: every abstract value
  — responses and their single-point mutants: null, key dropped, extra key, foreign atom / string, other literal,
  number, [] / singleton list, {} — that the REAL emitted type admits is in RefLocal; 0 failures after the repairs).
-/

end NitroVerif.Props.C02
