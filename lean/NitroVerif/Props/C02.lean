/-
C02 — generated result types admit nothing no execution could return.

Proved here: `C02_admits_only_local_executions` (the ⊇ direction of the refinement theorem `C01.impl_eq_refLocal`: every
value without repeated record keys that the emitted type admits is a `RefLocal` response on a possible object type of the
root), soundness of the executable decider of `RefLocal` the O stream uses; the wrapper-exactness of the leaf translation
(`leafTs_exact`), `C02_leaf_exact`, `C02_typename_literal`, `C02_keys_survive_extract`; kernel-checked witnesses: the defect of
the pinned code that made C02 false (`aliased_typename_counterexample` — §9-b, repaired in /repo 72cec20) with the proof
that the repaired model excludes the value, and `repeated_key_counterexample` (why the value hypothesis is there).
-/
import NitroVerif.Lemmas.OpTypes
import NitroVerif.Lemmas.TsSemSound
import NitroVerif.Props.C01
namespace NitroVerif.Props.C02
open NitroVerif.Gql NitroVerif.Ts NitroVerif.OpTypes NitroVerif.Exec NitroVerif.Props

/-- The executable decider of the O stream only accepts members of `RefLocal`. -/
theorem refLocalMem_sound (c : Ctx) :
    ∀ n obj ss v, refLocalMem c n obj ss v = true → RefLocalN c n obj ss v := by
  intro n
  induction n with
  | zero => intro _ _ _ h; simp [refLocalMem] at h
  | succ n ih =>
    intro obj ss v h
    simp only [refLocalMem, List.any_eq_true] at h
    obtain ⟨a, _, ha⟩ := h
    split at ha
    · rename_i g hg
      exact ⟨sigmaOf a, g, hg, refLocalMem c n, ih, ha⟩
    · simp at ha

/-- non-vacuity: `{ a { x } a { y @skip(if: $v) } }` admits `a: { x: 1 }` in `RefLocal` -/
example : RefLocal W.ctx "Query" W.selA (.obj [("a", .obj [("x", .num)])]) :=
  ⟨3, refLocalMem_sound _ 3 _ _ _ (by decide +kernel)⟩

/-- **Wrapper-exactness.** With the named type printed as `q n` (not itself a union), the type printed for a leaf of
    GraphQL type `ty` admits exactly: `null` iff the position is nullable, lists of admitted elements at list
    positions, and the values of `q n` at the named position. -/
theorem leafTs_exact {e : Env} (q : Name → Ty) (hq : ∀ n ts, q n ≠ .union ts) (ty : GType) :
    (∀ v, Mem e v (leafTs q ty) ↔ WrapConf (fun n v => Mem e v (q n)) ty v) ∧
    (∀ v, Mem e v (leafCore q ty) ↔ WrapConfNN (fun n v => Mem e v (q n)) ty v) :=
  leafTs_den q hq ty

/-- non-vacuity of `hq`: the mapper of the printer (`Schema.__OperationOutput.<n>`, closed or not) is never a union -/
example : ∀ n ts, (fun n => Ty.qref ["Schema", "__OperationOutput", n]) n ≠ .union ts := by
  intro n ts h; cases h

/-- **A selected, unconditionally included leaf is required, with exactly its schema type.** If the selection
    `key: name` (no sub-selection, not skipped, `name ≠ __typename`) yields a tree field, then the object type declares
    `name` with some type `ty`, the field is the leaf `key : ty`, and it is printed as the REQUIRED, non-optional
    field `key: leafTs ty` — whose denotation is wrapper-exact by `leafTs_exact`. -/
theorem C02_leaf_exact {obj : TypeDef} {key name : Name} {rec : GType → List Selection → Except Panic SelTree}
    {f : SField} (hn : (name == "__typename") = false) (h : fieldTree obj key name false none rec = .ok f)
    (ns : String) (parent : Name) :
    ∃ ty, directField? obj name = some ty ∧ f = .leaf key ty false ∧
      fieldTs (Refs.ofNs ns) parent f = (key, false, false, leafTs (Refs.ofNs ns).out ty) := by
  unfold fieldTree at h
  simp only [Bool.false_eq_true, ↓reduceIte, hn] at h
  split at h
  · cases h
  · rename_i ty hty
    cases h
    exact ⟨ty, hty, rfl, by simp [fieldTs]⟩

/-- the hypotheses are satisfiable: `x` on the witness type `A` -/
example : ∃ f, fieldTree (W.S.typeDef? "A").get! "x" "x" false none (fun _ _ => .error .outOfFuel) = .ok f :=
  ⟨_, rfl⟩

/-- **`__typename` is the literal of the matching object type**, whatever its response key: the tree field of a
    selected `__typename` is the typename leaf, it is printed as the required field `key: "<Parent>"`, and that type
    admits exactly the string `<Parent>`. -/
theorem C02_typename_literal {e : Env} (obj : TypeDef) (key : Name) (sub : Option (List Selection))
    (rec : GType → List Selection → Except Panic SelTree) (ns : String) (parent : Name) :
    fieldTree obj key "__typename" false sub rec = .ok (.leaf key (.named "String" { builtin := true }) true) ∧
    fieldTs (Refs.ofNs ns) parent (.leaf key (.named "String" { builtin := true }) true) = (key, false, false, .strLit parent) ∧
    (∀ v, Mem e v (.strLit parent) ↔ v = .str parent) := by
  refine ⟨by simp [fieldTree], by simp [fieldTs], fun v => mem_strLit_iff⟩

/-- **Keys survive `Extract<keyof Orig, keyof Obj>` exactly when the schema declaration declares them.** Under the
    reading of `__SelectionSet` (Ts/SelSem.lean) a key of `Obj` is kept iff `Orig` declares it; so if the object
    declaration lists every selected key (it lists `__typename` and every field — compared on the real schema file by
    the O stream), no selected key is silently dropped. -/
theorem C02_keys_survive_extract (orig obj : List Field) :
    (SelSem.picked orig obj).map (·.1) = (obj.filter fun f => orig.any (·.1 == f.1)).map (·.1) ∧
    ((∀ f ∈ obj, orig.any (·.1 == f.1) = true) → (SelSem.picked orig obj).map (·.1) = obj.map (·.1)) := by
  constructor
  · simp [SelSem.picked, List.map_map, Function.comp_def]
  · intro h
    simp only [SelSem.picked, List.map_map, Function.comp_def]
    rw [List.filter_eq_self.2 h]

/-! ### §9-b: aliased `__typename` (pre-repair `field_to_type`) -/

/-- no execution of `{ t: __typename }` on `Query` returns `t: null`, even per selection set -/
theorem typename_null_not_refLocal : ¬ RefLocal W.ctx "Query" W.selT (.obj [("t", .null)]) := by
  rintro ⟨n, hn⟩
  cases n with
  | zero => exact hn
  | succ n =>
    obtain ⟨σ, g, hg, Rb, _, hs⟩ := hn
    have : collectFields W.ctx σ "Query" W.selT = some [("t", [⟨"__typename", none⟩])] := by rfl
    rw [this] at hg
    cases hg
    have hf : fieldOk W.ctx Rb "Query" [⟨"__typename", none⟩] (J.get [("t", J.null)] "t") = false := by rfl
    simp [setOkB, hf] at hs

/-- **Counterexample to C02 on the pinned code (§9-b).** `{ t: __typename }`: the tree field is the typename leaf under
    the key `t`; the pre-repair printer typed it `Schema.__OperationOutput.String | null`, which admits `null` (and any
    string) — values no execution returns; the repaired printer types it as the literal `"Query"`, which excludes them. -/
theorem aliased_typename_counterexample :
    (fieldTsByKey "Schema" "Query" (.leaf "t" (.named "String" { builtin := true }) true)).2.2.2
      = .union [.qref ["Schema", "__OperationOutput", "String"], .prim "null"] ∧
    Mem W.env .null (W.close (.union [.qref ["Schema", "__OperationOutput", "String"], .prim "null"])) ∧
    ¬ RefLocal W.ctx "Query" W.selT (.obj [("t", .null)]) ∧
    (fieldTs (Refs.ofNs "Schema") "Query" (.leaf "t" (.named "String" { builtin := true }) true)).2.2.2 = .strLit "Query" ∧
    ¬ Mem W.env .null (.strLit "Query") := by
  refine ⟨rfl, ?_, typename_null_not_refLocal, rfl, ?_⟩
  · apply memG_sound 4; decide +kernel
  · rw [mem_strLit_iff]; intro h; cases h

/-- the whole repaired pipeline on `{ t: __typename }`: the emitted type excludes `t: null` and admits `t: "Query"` -/
theorem aliased_typename_repaired :
    ∃ t, implTree W.S W.noFrags 16 16 (.nonNull (.named "Query" {})) W.selT = .ok t ∧
      Mem W.env (.obj [("t", .str "Query")]) (W.close (toTs "Schema" t)) ∧
      memG W.env 16 (.obj [("t", .null)]) (W.close (toTs "Schema" t)) = false := by
  refine ⟨_, rfl, ?_, ?_⟩
  · apply memG_sound 8; decide +kernel
  · decide +kernel

/-! ### C02 from the refinement theorem (Props/C01.lean `impl_eq_refLocal`, ⊇ direction) -/

open NitroVerif.OpTypes.Ref in
/-- **C02.** Every value (without repeated record keys) that the emitted type admits is a response some execution
    could return when the Boolean variables are re-chosen per selection set (`RefLocal`), on some possible object type of
    the root: no missing key, no extra key, `null` only at nullable positions, `__typename` only the matching object
    type's name, lists element-wise, merged same-key object fields exactly the merged selection set.  Hypotheses as in
    `C01.impl_eq_refLocal` (declaration file faithful to the schema — `Hyp` —, unique type names, coherent document,
    fuel of the executable specification sufficient). -/
theorem C02_admits_only_local_executions {c : Ctx} {e : Env} {r : Refs} {orig : Name → Option (List Field)}
    (H : Hyp c e r orig) (hnd : TypeNamesNodup c.S) {mfuel fuel D : Nat} {root : Name} {p : Pos} {ss : List Selection}
    {T : SelTree} (h : implTree c.S c.F mfuel fuel (.nonNull (.named root p)) ss = .ok T)
    (hC : ∀ d, Coh c d (Sb1 ss) root) (hf : FuelOk c D ss) {v : J} (hv : JWf v)
    (hm : Mem e v (treeTs r T false)) : ∃ o ∈ c.S.possibleTypes root, RefLocal c o ss v :=
  (C01.impl_eq_refLocal_root H hnd h hC hf v hv).1 hm

open NitroVerif.OpTypes.Ref in
/-- … for the type as emitted (references closed against the linked declaration table, real `__SelectionSet` hook) -/
theorem C02_admits_only_local_executions_emitted {c : Ctx} (d : Decls) (ns : String)
    {orig : Name → Option (List Field)}
    (H : Hyp c { decls := d, appHook := SelSem.hook } ((Refs.ofNs ns).close d) orig)
    (hnd : TypeNamesNodup c.S) {mfuel fuel D : Nat} {root : Name} {p : Pos} {ss : List Selection} {T : SelTree}
    (h : implTree c.S c.F mfuel fuel (.nonNull (.named root p)) ss = .ok T) (hC : ∀ d, Coh c d (Sb1 ss) root)
    (hf : FuelOk c D ss) {v : J} (hv : JWf v)
    (hm : Mem { decls := d, appHook := SelSem.hook } v (globalise d [] [] (toTs ns T))) :
    ∃ o ∈ c.S.possibleTypes root, RefLocal c o ss v :=
  (C01.impl_eq_refLocal_emitted d ns H hnd h hC hf v hv).1 hm

set_option maxRecDepth 16384 in
open NitroVerif.OpTypes.Ref in
/-- the hypotheses are satisfiable by a non-trivial input (witness schema + declaration file, the document
    `{ a { x } a { y @skip(if: $v) } }`), and the theorem applies to a value the emitted type admits -/
example : ∃ T, implTree W.ctx.S W.ctx.F 16 16 (.nonNull (.named "Query" {})) W.selA = .ok T ∧
    Mem W.env (.obj [("a", W.respX)]) (treeTs Ref.W.r T false) ∧
    ∃ o ∈ W.ctx.S.possibleTypes "Query", RefLocal W.ctx o W.selA (.obj [("a", W.respX)]) := by
  have hm : Mem W.env (.obj [("a", W.respX)])
      (treeTs Ref.W.r (implTree W.ctx.S W.ctx.F 16 16 (.nonNull (.named "Query" {})) W.selA).toOption.get! false) := by
    apply memG_sound 12; decide +kernel
  exact ⟨_, rfl, hm, C02_admits_only_local_executions Ref.W.hyp Ref.W.typeNamesNodup (mfuel := 16) (fuel := 16)
    (root := "Query") (p := {}) rfl Ref.W.coh_selA Ref.W.fuelOk_selA (by simp [JWf, JWfFields, W.respX]) hm⟩

open NitroVerif.OpTypes.Ref in
/-- **Why ⊇ is stated for values without repeated record keys.** The value domain `J` of the TypeScript semantics allows a
    record to list a key twice; the exact-key reading looks a key up by its FIRST entry.  The type emitted for
    `{ x  y @skip(if: $v) }` on `A` admits `{ x: 1, y: <absent>, y: "s" }` (through the `y?: never` branch: the first `y` is
    absent, and `y` is a declared key), which no execution returns.  No JSON parser produces such a value; the hypothesis
    `JWf` of `C02_admits_only_local_executions` excludes exactly these. -/
theorem repeated_key_counterexample :
    (W.newTree.toOption.map fun t => W.close (toTs "Schema" t)) = some W.newTy ∧ Mem W.env Cex.dup W.newTy ∧
    ¬ RefLocal W.ctx "A" (W.selX ++ W.selYskip) Cex.dup ∧ ¬ JWf Cex.dup :=
  ⟨W.newTree_ty, Cex.dup_mem, Cex.dup_not_refLocal, Cex.dup_not_wf⟩

/-
OPEN — carried by K/O only: nothing of C02's statement except what `Props/C01.lean` lists (model = code (K); the trusted
reading of TypeScript).  The hypotheses `Hyp` are PROVED for the schema declaration file the model of the schema printer
emits and the absence of panics with the model's own fuels is proved (`Props/C01Closed.lean`); `Props/C02Closed.lean` has
the end-to-end forms (`C02_end_to_end`, `C02_pipeline_end_to_end`) and what is left after them: the hypotheses no check
establishes, listed in the block at the end of `Props/C01Closed.lean` (`skipIncludeB`, `CfgOk`, `noKeyClashB`, the
scalar-text clauses of `DocOK`, the wrapper bound, `schemaOkB` / `ifaceOkB` kept as hypotheses), the value hypothesis
`JWf`, and the fuel of the executable specification, which is covered from the expanded size upwards, not at the
driver's `docSize D + 8` (`fuelOk_not_tight_witness`).  `RefLocal` is a superset of `Exec` (`C01.exec_sub_refLocal`):
exclusion is proved relative to `RefLocal`.  The O stream keeps testing the REAL emitted files.
-/

end NitroVerif.Props.C02
