import NitroVerif.Props.C19
import NitroVerif.Props.C14
import NitroVerif.Props.C12Composed
import NitroVerif.Lemmas.LoaderComposed
/-!
# C19 composed with C13, C12 and C14: the loader with its CONCRETE emitter

Property theorems only.  `Props/C19.lean` quantifies over every emitter; here `Loader.Env.emit` is instantiated
(`LoaderC.concreteEnv π`, `Lemmas/LoaderComposed.lean`) with the composition the code performs in `emit_js`:

  import resolution   `resolve_operation_imports((root, ..), TaskOperationResolver(task))` = C13's model on the task's files
  undefined spreads   `find_undefined_fragment_spread` (fix 08fd7e5)                        = `Composed.findUndefined`
  printing            `print_js`: statements of C14's loader module + per definition the JSON of C12's runtime document

`π : Params P S` keeps abstract what C19 is not about: the parser (any function from sources to parsed files), the path
resolver (any function), the `Nat`-coding of fragment names, the configuration, the numbering of error messages.
-/
namespace NitroVerif.Loader
open NitroVerif NitroVerif.Gql NitroVerif.Composed NitroVerif.LoaderC NitroVerif.FragClosure NitroVerif.C12
open NitroVerif.Imports (Res ImpErr)

variable {P S : Type} [DecidableEq P]

/-- The concrete emitter never traps — for EVERY root and EVERY set of files: import resolution terminates
    (`C13_terminates`) with a document or an error result; a spread of a fragment that no definition of the
    import-resolved document carries is answered with the `FragmentNotDefined` error BEFORE printing (fix 08fd7e5); and
    once every written spread is defined the printer's only panic site, `expect("fragment not found")`, is unreachable
    for every definition of the document (`C12_panic_only_on_undefined` lifted over the check).
    This discharges the hypothesis `EmitTotal` of `C19_isolation` and `C19_no_trap` for the concrete emitter. -/
theorem C19_emit_total (π : Params P S) : EmitTotal (concreteEnv π) :=
  emitTotal_concrete π

/-- Isolation with the concrete emitter, no hypothesis left: the responses to the calls addressed to a task are those
    of running only these calls in a fresh instance — whatever parser, path resolver and configuration. -/
theorem C19_isolation_concrete (π : Params P S) (t : Nat) (h : List (Call P S)) :
    respsOf (concreteEnv π) t init h = runResps (concreteEnv π) init ((proj (concreteEnv π) t init h).map .call) :=
  C19_isolation (concreteEnv π) (C19_emit_total π) t h

/-- No call of any history traps with the concrete emitter. -/
theorem C19_no_trap_concrete (π : Params P S) (h : List (Call P S)) :
    ∀ r ∈ runResps (concreteEnv π) init (h.map .call), r ≠ .trap :=
  C19_no_trap (concreteEnv π) (C19_emit_total π) h

/-- `emit_js` IS the printer applied to the import-resolved root document.  For every history and every live task
    `t` holding files `T.files`: every held file is the parse of its source, the root file is held, and the answer of
    `emit_js(t)` is decided by `resolveDoc` (C13's resolver run on exactly the task's files, root's definitions followed
    by the imported ones; the root document is the one held under the root name AS SUPPLIED, the resolver knows it by
    the NORMALISED name `norm T.root`, as `resolve_operation_imports` does):
    * import resolution fails with `e` → the error result numbered `eImp e`;
    * it yields `R` but some written spread names no fragment definition of `R` → the `FragmentNotDefined` error for
      the first such spread (never a trap);
    * otherwise → the module `m` with `moduleOf cfg R = ok m`: its statements are C14's loader module of the resolved
      document (`Exports.loaderJs`), it has one document literal per definition of `R`, and literal `i` is the JSON
      (`DocJson.toJson`) of C12's runtime document of definition `i` (`FragClosure.runtimeDefs R`).
    Exactly one of the three cases applies. -/
theorem C19_emit_is_printer (π : Params P S) (h : List (Op P S)) (t : Nat) (T : Task P S)
    (hd : (runSt (concreteEnv π) init h).dead = false)
    (hl : lookup (runSt (concreteEnv π) init h).tasks t = some T) :
    ∃ rootFile, (projOf π T.files).lookup T.root = some rootFile ∧
      (∀ e ∈ T.files, π.parseSrc e.2.src = .ok (parsedOf π e.2) ∧
        e.2.imports = (parsedOf π e.2).imports.map (·.rel)) ∧
      ((∃ e, resolveDoc π.code π.res (projOf π T.files) (π.norm T.root) rootFile = .err e ∧
          (step (concreteEnv π) (runSt (concreteEnv π) init h) (.call (.emit t))).2 = .failed (.source (π.eImp e))) ∨
       (∃ R n, resolveDoc π.code π.res (projOf π T.files) (π.norm T.root) rootFile = .ok R ∧ findUndefined R = some n ∧
          (∃ d ∈ R, n ∈ ReadDoc.spreads (selOf d)) ∧ getFrag R n = none ∧
          (step (concreteEnv π) (runSt (concreteEnv π) init h) (.call (.emit t))).2 = .failed (.source (π.eUndef n))) ∨
       (∃ R m, resolveDoc π.code π.res (projOf π T.files) (π.norm T.root) rootFile = .ok R ∧ findUndefined R = none ∧
          moduleOf π.cfg R = .ok m ∧
          (step (concreteEnv π) (runSt (concreteEnv π) init h) (.call (.emit t))).2 = .js m ∧
          m.stmts = Exports.loaderJs π.cfg (cliFile rootFile.defs.length R) ∧
          m.docs.length = R.length ∧
          ∀ (i : Nat) (d : ExecDef), R[i]? = some d →
            ∃ ds, runtimeDefs R d = .ok ds ∧ m.docs[i]? = some (DocJson.toJson ds))) := by
  obtain ⟨_, hroot, hparsed⟩ := run_inv (concreteEnv π) h init keysLt_init rootOk_init (parsedOk_init _)
  generalize runSt (concreteEnv π) init h = σ at hd hl hroot hparsed
  cases hr : lookup T.files T.root with
  | none => exact absurd hr (hroot t T hl)
  | some d =>
    have hlk : (projOf π T.files).lookup T.root = some (parsedOf π d) := by rw [lookup_projOf, hr]; rfl
    refine ⟨parsedOf π d, hlk, ?_, ?_⟩
    · intro e he
      have hp := hparsed t T hl e he
      have hp' : (match π.parseSrc e.2.src with
          | .ok f => Except.ok (f.imports.map Imports.Import.rel)
          | .error c => Except.error c) = .ok e.2.imports := hp
      cases hq : π.parseSrc e.2.src with
      | error c => rw [hq] at hp'; cases hp'
      | ok f =>
        rw [hq] at hp'
        injection hp' with hp'
        simp only [parsedOf, hq]
        exact ⟨trivial, hp'.symm⟩
    · rw [step_emit_some (concreteEnv π) hd hl hr]
      have hemit : (concreteEnv π).emit T.root (lookup T.files) = emitFiles π T.root T.files :=
        emitOfLook_lookup π T.root T.files
      rw [hemit]
      unfold emitFiles
      rw [hlk]
      simp only
      cases hres : resolveDoc π.code π.res (projOf π T.files) (π.norm T.root) (parsedOf π d) with
      | err e => exact Or.inl ⟨e, rfl, rfl⟩
      | outOfFuel =>
        exfalso
        unfold resolveDoc at hres
        cases hq : Imports.resolve π.res (absFS π.code (projOf π T.files)) (π.norm T.root) (absFile π.code (parsedOf π d)) with
        | ok out => rw [hq] at hres; cases hres
        | err e => rw [hq] at hres; cases hres
        | outOfFuel => exact Imports.resolve_fuel _ _ _ _ hq
      | ok R =>
        simp only
        cases hu : findUndefined R with
        | some n =>
          obtain ⟨h1, h2⟩ := findUndefined_some hu
          exact Or.inr (Or.inl ⟨R, n, rfl, hu, h1, h2, rfl⟩)
        | none =>
          obtain ⟨m, hm, hs, hlen, hidx⟩ := moduleOf_ok π.cfg ((findUndefined_none_iff R).mp hu)
          refine Or.inr (Or.inr ⟨R, m, rfl, hu, hm, by simp [hm], ?_, hlen, hidx⟩)
          rw [hs, Exports.loaderJs, cliFile_asLocal]

/-- The module `emit_js` answers exports what the declaration file declares (C14) and its constants hold C12's runtime
    documents: with `F` = the resolved document as the CLI's declaration printer sees it (`cliFile`: the root's
    definitions local, the appended ones imported),
    * every value export of the declaration file `dts cfg F` is an export of the emitted module, in the same order, and
      the two have the same default export;
    * the emitted module declares exactly the constants `constsFrom … F`: the constant of definition `i` is named after
      definition `i` (`C14_names`), and its value `docs[i]` is the JSON of `runtimeDefs R R[i]`;
    * for an operation `X = R[i]` of the ROOT file whose transitive spreads are all defined among the root's fragments
      and the reference import set, with pairwise distinct fragment names in `R`, with every held file as the parser
      produces it (`ReadDoc.Resolved rootFile.defs`, `ProjectOk`), and when no OTHER document is held
      under the root's normalised name (`RootOKp … (norm root) rootFile`; `C19_rootOK_of_normalised`: automatic when
      the root name is normalised): `docs[i]` reads back, with the
      independent graphql-js reader, as `[X] ++` the reference closure of X's spreads over the reference document, each
      fragment once (`C12_from_files`). -/
theorem C19_emit_exports (π : Params P S) (root : P) (files : List (P × Doc P S)) (rootFile : SrcFile P)
    {R : List ExecDef} (hR : resolveDoc π.code π.res (projOf π files) (π.norm root) rootFile = .ok R)
    (hu : findUndefined R = none) {m : JsModule} (hm : moduleOf π.cfg R = .ok m) :
    (Exports.valueExports (Exports.dts π.cfg (cliFile rootFile.defs.length R))).Sublist (Exports.exports m.stmts) ∧
    Exports.defaultOf (Exports.dts π.cfg (cliFile rootFile.defs.length R)) = Exports.defaultOf m.stmts ∧
    Exports.consts m.stmts =
      Exports.constsFrom (Exports.BaseOptions.fromConfig π.cfg) 0 (cliFile rootFile.defs.length R) ∧
    (∀ (i : Nat) (o : OperationDef), rootFile.defs[i]? = some (.op o) →
      RootOKp (projOf π files) (π.norm root) rootFile → ReadDoc.Resolved rootFile.defs →
      (C12.fragNamesOf R).Nodup → ProjectOk (projOf π files) →
      (∀ n, ReadDoc.Reach (envOf (refDoc π.code π.res (projOf π files) (π.norm root) rootFile)) o.sel n →
        (getFrag (refDoc π.code π.res (projOf π files) (π.norm root) rootFile) n).isSome) →
      ∃ names, ReadDoc.closure (envOf (refDoc π.code π.res (projOf π files) (π.norm root) rootFile))
          (refDoc π.code π.res (projOf π files) (π.norm root) rootFile).length o.sel = some names ∧
        m.docs[i]? = some (DocJson.toJson (.op o :: fragDefs (refDoc π.code π.res (projOf π files) (π.norm root) rootFile) names)) ∧
        ReadDoc.readDoc (DocJson.toJson (.op o :: fragDefs (refDoc π.code π.res (projOf π files) (π.norm root) rootFile) names)) =
          some (ReadDoc.erasePos (.op o :: fragDefs (refDoc π.code π.res (projOf π files) (π.norm root) rootFile) names)) ∧
        C12.fragNamesOf (fragDefs (refDoc π.code π.res (projOf π files) (π.norm root) rootFile) names) = names) := by
  obtain ⟨m', hm', hs, _, hidx⟩ := moduleOf_ok π.cfg ((findUndefined_none_iff R).mp hu)
  rw [hm] at hm'
  injection hm' with hm'
  subst hm'
  have hst : m.stmts = Exports.loaderJs π.cfg (cliFile rootFile.defs.length R) := by
    rw [hs, Exports.loaderJs, cliFile_asLocal]
  refine ⟨?_, ?_, ?_, ?_⟩
  · rw [hst]; exact Exports.C14_value_exports_loader _ _
  · rw [hst]; exact (Exports.C14_default_same _ _).2
  · rw [hst]; exact (Exports.C14_names _ _).2.2
  · intro i o hi hroot hrootOk hnd hok hdef
    have hX : ExecDef.op o ∈ rootFile.defs := List.mem_of_getElem? hi
    obtain ⟨names, h1, _, _, h4, h5, h6, _⟩ :=
      C12_from_files π.code π.res (projOf π files) (π.norm root) rootFile hroot hok hrootOk hR hnd o hX hdef
    obtain ⟨out, _, hRe⟩ := resolveDoc_ok _ _ _ _ _ hR
    have hRi : R[i]? = some (.op o) := by
      rw [hRe, List.getElem?_append_left (List.getElem?_eq_some_iff.mp hi).1]; exact hi
    obtain ⟨ds, hds, hdoc⟩ := hidx i _ hRi
    rw [h4] at hds
    injection hds with hds
    subst hds
    exact ⟨names, h1, hdoc, h5, h6⟩

/-- "A task whose required files are all loaded": when `get_required_files` answers the empty list (every resolved
    import target of every held file is itself held), import resolution inside `emit_js` cannot fail with `FileNotFound`;
    the only import error left is `FragmentNotFound` (an import line names a fragment its target file does not
    define).  So such a task's `emit_js` answers the module, `FragmentNotFound`, or `FragmentNotDefined`.
    `hnorm` (resolving against the normalised name of a file is resolving against its name) holds of
    `resolve_relative_path`, which normalises its base. -/
theorem C19_emit_all_loaded (π : Params P S) (h : List (Op P S)) (t : Nat) (T : Task P S)
    (hl : lookup (runSt (concreteEnv π) init h).tasks t = some T)
    (hnorm : ∀ p r, π.res (π.norm p) r = π.res p r)
    (hreq : requiredOf (concreteEnv π) T.files = []) (rootFile : SrcFile P)
    (hlk : (projOf π T.files).lookup T.root = some rootFile) (e : ImpErr P P)
    (he : resolveDoc π.code π.res (projOf π T.files) (π.norm T.root) rootFile = .err e) :
    ∃ q rel id, e = .fragmentNotFound q rel id := by
  obtain ⟨_, _, hparsed⟩ := run_inv (concreteEnv π) h init keysLt_init rootOk_init (parsedOk_init _)
  generalize runSt (concreteEnv π) init h = σ at hl hparsed
  -- every resolved import target of a held file is held
  have hall : ∀ p ∈ targets (concreteEnv π) T.files, lookup T.files p ≠ none := by
    intro p hp hn
    have : p ∈ requiredOf (concreteEnv π) T.files := by
      unfold requiredOf
      rw [mem_foldl_addNew]
      exact Or.inr (List.mem_filter.mpr ⟨hp, by simp [hn]⟩)
    rw [hreq] at this; cases this
  -- the import lines of a held file, as the resolver sees them
  have himps : ∀ q d, lookup T.files q = some d → d.imports = (parsedOf π d).imports.map (·.rel) := by
    intro q d hq
    have hp : (match π.parseSrc d.src with
        | .ok f => Except.ok (f.imports.map Imports.Import.rel)
        | .error c => Except.error c) = .ok d.imports := hparsed t T hl (q, d) (lookup_mem hq)
    cases hs : π.parseSrc d.src with
    | error c => rw [hs] at hp; cases hp
    | ok f => rw [hs] at hp; injection hp with hp; simp only [parsedOf, hs]; exact hp.symm
  unfold resolveDoc at he
  cases hq : Imports.resolve π.res (absFS π.code (projOf π T.files)) (π.norm T.root) (absFile π.code rootFile) with
  | ok out => rw [hq] at he; cases he
  | outOfFuel => rw [hq] at he; cases he
  | err e' =>
    rw [hq] at he
    injection he with he
    subst he
    have hj := Imports.resolve_err _ _ _ _ hq
    cases hj with
    | missing _ _ _ _ => exact ⟨_, _, _, rfl⟩
    | dangling hreach himp hnone =>
      rename_i q imp
      exfalso
      -- some held file `q'` has the line `imp`, and its target is the one that was not found
      have hheld : ∃ q' d, lookup T.files q' = some d ∧ imp ∈ (parsedOf π d).imports ∧
          π.res q' imp.rel = π.res q imp.rel := by
        unfold Imports.Spec.importsOf at himp
        by_cases hqr : q = π.norm T.root
        · rw [if_pos hqr] at himp
          rw [lookup_projOf] at hlk
          cases hd : lookup T.files T.root with
          | none => rw [hd] at hlk; cases hlk
          | some d =>
            rw [hd] at hlk
            simp only [Option.map_some, Option.some.injEq] at hlk
            exact ⟨T.root, d, hd, by rw [hlk]; exact himp, by rw [hqr, hnorm]⟩
        · rw [if_neg hqr, lookup_absFS, lookup_projOf] at himp
          cases hd : lookup T.files q with
          | none => rw [hd] at himp; simp at himp
          | some d => rw [hd] at himp; exact ⟨q, d, hd, by simpa [absFile] using himp, rfl⟩
      obtain ⟨q', d, hdq, hmem, hsame⟩ := hheld
      have htar : π.res q imp.rel ∈ targets (concreteEnv π) T.files := by
        unfold targets
        rw [List.mem_flatMap]
        refine ⟨(q', d), lookup_mem hdq, ?_⟩
        rw [List.mem_map]
        refine ⟨imp.rel, ?_, hsame⟩
        rw [himps q' d hdq, List.mem_map]
        exact ⟨imp, hmem, rfl⟩
      apply hall _ htar
      rw [lookup_absFS, lookup_projOf] at hnone
      cases hx : lookup T.files (π.res q imp.rel) with
      | none => rfl
      | some d' => rw [hx] at hnone; simp at hnone

/-- When the root file name is normalised (what the JavaScript side passes: bundlers hand over absolute resolved
    ids) the resolver's name of the root is the name the task holds it under, so the side condition "no other
    document is held under the root's normalised name" of `C19_emit_exports` is automatic. -/
theorem C19_rootOK_of_normalised (π : Params P S) (root : P) (files : List (P × Doc P S)) (rootFile : SrcFile P)
    (hn : π.norm root = root) (hlk : (projOf π files).lookup root = some rootFile) :
    RootOKp (projOf π files) (π.norm root) rootFile := by
  intro f hf
  rw [hn, hlk] at hf
  injection hf with hf
  exact hf.symm

/-- The C20 model of `resolve_relative_path` / `normalize_path` meets the side condition `hnorm` of
    `C19_emit_all_loaded` (and makes the model's "resolve the root's literals against the normalised root name" the
    code's "resolve them against the name as supplied"): the base is normalised before anything else. -/
theorem C19_norm_ok_paths (p r : Paths.P) : Paths.resolve (Paths.normalize p) r = Paths.resolve p r :=
  Paths.resolve_normalize_base Paths.normalize_idem_all p r

/-! ### non-vacuity: the 3-file diamond project of `Props/C12Composed.lean` through the loader

Paths are component lists (C20 model, `res = Paths.resolve`), sources are numbered (`0 ↦ main`, `1 ↦ x`, `2 ↦ sub/y`,
`3 ↦ query Q { ...Missing }`, anything else does not parse). -/
namespace ExL
open NitroVerif.C12.Ex

def mainL : SrcFile Paths.P :=
  ⟨[⟨Paths.components "./sub/y.graphql", 0, .specific [⟨exCode "Y", 0, 0⟩]⟩,
    ⟨Paths.components "x.graphql", 1, .specific [⟨exCode "X0", 1, 0⟩]⟩],
   [.op opQ, .frag fragL]⟩
def xL : SrcFile Paths.P := ⟨[], [.frag fragX0, .frag fragX1]⟩
def yL : SrcFile Paths.P := ⟨[⟨Paths.components "../sub/../x.graphql", 0, .specific [⟨exCode "X1", 0, 0⟩]⟩], [.frag fragY]⟩

def πEx : Params Paths.P Nat where
  parseSrc s := if s = 0 then .ok mainL else if s = 1 then .ok xL else if s = 2 then .ok yL else .error 7
  res := Paths.resolve
  norm := Paths.normalize
  code := exCode
  cfg := Exports.Config.parse {}
  eImp _ := 1
  eUndef _ := 2

def hist : List (Op Paths.P Nat) :=
  [.call (.initiate pMain 0), .call (.required 1), .call (.load 1 pY 2), .call (.load 1 pX 1), .call (.required 1)]

theorem ex_dead : (runSt (concreteEnv πEx) init hist).dead = false := by decide

def exFiles : List (Paths.P × Doc Paths.P Nat) :=
  [(pX, ⟨[], 1⟩), (pY, ⟨[Paths.components "../sub/../x.graphql"], 2⟩),
   (pMain, ⟨[Paths.components "./sub/y.graphql", Paths.components "x.graphql"], 0⟩)]

theorem ex_task0 : (lookup (runSt (concreteEnv πEx) init hist).tasks 1).map (fun T => (T.root, T.files)) = some (pMain, exFiles) := by
  decide

theorem ex_task : ∃ T, lookup (runSt (concreteEnv πEx) init hist).tasks 1 = some T ∧ T.root = pMain ∧ T.files = exFiles := by
  have h := ex_task0
  cases hT : lookup (runSt (concreteEnv πEx) init hist).tasks 1 with
  | none => rw [hT] at h; cases h
  | some T =>
    rw [hT] at h
    simp only [Option.map_some, Option.some.injEq, Prod.mk.injEq] at h
    exact ⟨T, rfl, h.1, h.2⟩

theorem ex_req : requiredOf (concreteEnv πEx) exFiles = [] := by decide

theorem ex_proj_root : (projOf πEx exFiles).lookup pMain = some mainL := rfl

theorem ex_resolve : Imports.resolve Paths.resolve (absFS exCode (projOf πEx exFiles)) pMain (absFile exCode mainL) = .ok [(pX, 0), (pX, 1), (pY, 0)] := by
  decide

/-- the root name of the examples is normalised -/
theorem ex_norm : Paths.normalize pMain = pMain := by decide

theorem ex_resolveDoc : resolveDoc exCode Paths.resolve (projOf πEx exFiles) pMain mainL = .ok exR := by
  unfold resolveDoc
  rw [ex_resolve]
  rfl

/-- the diamond project through the loader: after `initiate(main)`, `get_required_files` (answers `sub/y`, `x`), two
    `load_file`s and an empty `get_required_files`, `emit_js` answers a module — the third case of
    `C19_emit_is_printer` — with one document literal per definition of the resolved document `Q, L, X0, X1, Y` and the
    exports `default, L, X0, X1, Y` (the loader also exports the imported fragments, cf. `C14_loader_exports_imported_fragment`) -/
example : ∃ m, (step (concreteEnv πEx) (runSt (concreteEnv πEx) init hist) (.call (.emit 1))).2 = .js m ∧
    m.docs.length = 5 ∧
    Exports.exports m.stmts = ["default".toList, "L".toList, "X0".toList, "X1".toList, "Y".toList] := by
  obtain ⟨T, hT, hroot, hfiles⟩ := ex_task
  obtain ⟨rootFile, hlk, _, hc⟩ := C19_emit_is_printer πEx hist 1 T ex_dead hT
  rw [hroot, hfiles] at hlk hc
  have h3 : some rootFile = some mainL := hlk.symm.trans rfl
  injection h3 with h3
  subst h3
  have hres : resolveDoc πEx.code πEx.res (projOf πEx exFiles) (πEx.norm pMain) mainL = .ok exR := by
    show resolveDoc _ _ _ (Paths.normalize pMain) _ = _
    rw [ex_norm]; exact ex_resolveDoc
  rcases hc with ⟨e, he, _⟩ | ⟨R, n, hR, hu, _⟩ | ⟨R, m, hR, hu, hm, hresp, hst, hlen, _⟩
  · rw [hres] at he; cases he
  · rw [hres] at hR; injection hR with hR; subst hR
    have : findUndefined exR = none := by decide
    rw [this] at hu; cases hu
  · rw [hres] at hR; injection hR with hR; subst hR
    refine ⟨m, hresp, hlen, ?_⟩
    rw [hst]
    decide


/-- the hypotheses of `C19_emit_exports` (outer and inner) hold of the diamond project -/
example : (projOf πEx exFiles).lookup pMain = some mainL ∧
    resolveDoc πEx.code πEx.res (projOf πEx exFiles) (πEx.norm pMain) mainL = .ok exR ∧ findUndefined exR = none ∧
    RootOKp (projOf πEx exFiles) (πEx.norm pMain) mainL ∧
    (∃ m, moduleOf πEx.cfg exR = .ok m) ∧ (C12.fragNamesOf exR).Nodup ∧ ProjectOk (projOf πEx exFiles) ∧
    SpreadsDefined (refDoc πEx.code πEx.res (projOf πEx exFiles) (πEx.norm pMain) mainL) := by
  have hu : findUndefined exR = none := by decide
  obtain ⟨m, hm, _⟩ := moduleOf_ok πEx.cfg ((findUndefined_none_iff exR).mp hu)
  have hN : πEx.norm pMain = pMain := ex_norm
  rw [hN]
  refine ⟨rfl, ex_resolveDoc, hu, ?_, ⟨m, hm⟩, by decide, ?_, ?_⟩
  · have := C19_rootOK_of_normalised πEx pMain exFiles mainL hN rfl
    rw [hN] at this; exact this
  · apply projectOk_of_forall
    intro e he
    have : projOf πEx exFiles = [(pX, xL), (pY, yL), (pMain, mainL)] := rfl
    rw [this] at he
    simp only [List.mem_cons, List.not_mem_nil, or_false] at he
    rcases he with rfl | rfl | rfl <;> decide
  · have hr : Imports.Spec.refImports Paths.resolve (absFS exCode (projOf πEx exFiles)) pMain (absFile exCode mainL) =
        [(pY, 0), (pX, 0), (pX, 1)] := by decide
    have : refDoc πEx.code πEx.res (projOf πEx exFiles) pMain mainL =
        [.op opQ, .frag fragL, .frag fragY, .frag fragX0, .frag fragX1] := by
      show refDoc exCode Paths.resolve _ pMain mainL = _
      unfold refDoc
      rw [hr]
      rfl
    rw [this]
    decide

/-- `main` importing a fragment `Nope` that `x.graphql` does not define -/
def nopeL : SrcFile Paths.P :=
  ⟨[⟨Paths.components "x.graphql", 0, .specific [⟨exCode "Nope", 0, 0⟩]⟩], [.op opQ]⟩

def πNope : Params Paths.P Nat := { πEx with parseSrc := fun s => if s = 4 then .ok nopeL else πEx.parseSrc s }

/-- the hypotheses of `C19_emit_all_loaded` are satisfiable: every required file is loaded
    (`get_required_files` answers `[]`), and import resolution fails — with `FragmentNotFound`, as the theorem says -/
example : requiredOf (concreteEnv πNope) [(pX, ⟨[], 1⟩), (pMain, ⟨[Paths.components "x.graphql"], 4⟩)] = [] ∧
    (projOf πNope [(pX, ⟨[], 1⟩), (pMain, ⟨[Paths.components "x.graphql"], 4⟩)]).lookup pMain = some nopeL ∧
    resolveDoc πNope.code πNope.res (projOf πNope [(pX, ⟨[], 1⟩), (pMain, ⟨[Paths.components "x.graphql"], 4⟩)])
        (πNope.norm pMain) nopeL =
      .err (.fragmentNotFound pMain (Paths.components "x.graphql") ⟨exCode "Nope", 0, 0⟩) ∧
    (lookup (runSt (concreteEnv πNope) init [.call (.initiate pMain 4), .call (.load 1 pX 1)]).tasks 1).map
      (fun T => (T.root, T.files)) = some (pMain, [(pX, ⟨[], 1⟩), (pMain, ⟨[Paths.components "x.graphql"], 4⟩)]) := by
  refine ⟨by decide, rfl, ?_, by decide⟩
  have : Imports.resolve Paths.resolve
      (absFS exCode (projOf πNope [(pX, ⟨[], 1⟩), (pMain, ⟨[Paths.components "x.graphql"], 4⟩)])) pMain
      (absFile exCode nopeL) = .err (.fragmentNotFound pMain (Paths.components "x.graphql") ⟨exCode "Nope", 0, 0⟩) := by
    decide
  show resolveDoc exCode Paths.resolve _ (Paths.normalize pMain) nopeL = _
  rw [ex_norm]
  unfold resolveDoc
  rw [this]

/-- `query Q { ...Missing }` -/
def badL : SrcFile Paths.P := ⟨[], [.op { kind := .query, name := some ("Q", {}), sel := [spr "Missing"] }]⟩

def πBad : Params Paths.P Nat := { πEx with parseSrc := fun s => if s = 3 then .ok badL else πEx.parseSrc s }

/-- the defect repaired by 08fd7e5, on the concrete emitter: `emit_js` of `query Q { ...Missing }` answers the
    `FragmentNotDefined` error (second case of `C19_emit_is_printer`), it does not trap -/
example : (step (concreteEnv πBad) (runSt (concreteEnv πBad) init [.call (.initiate pMain 3)]) (.call (.emit 1))).2 =
    .failed (.source 2) := by
  have hd : (runSt (concreteEnv πBad) init [.call (.initiate pMain 3)]).dead = false := by decide
  have h0 : (lookup (runSt (concreteEnv πBad) init [.call (.initiate pMain 3)]).tasks 1).map
      (fun T => (T.root, T.files)) = some (pMain, [(pMain, ⟨[], 3⟩)]) := by decide
  cases hT : lookup (runSt (concreteEnv πBad) init [.call (.initiate pMain 3)]).tasks 1 with
  | none => rw [hT] at h0; cases h0
  | some T =>
    rw [hT] at h0
    simp only [Option.map_some, Option.some.injEq, Prod.mk.injEq] at h0
    obtain ⟨rootFile, hlk, _, hc⟩ := C19_emit_is_printer πBad _ 1 T hd hT
    rw [h0.1, h0.2] at hlk hc
    have h3 : some rootFile = some badL := hlk.symm.trans rfl
    injection h3 with h3
    subst h3
    have hres : resolveDoc πBad.code πBad.res (projOf πBad [(pMain, ⟨[], 3⟩)]) (πBad.norm pMain) badL = .ok badL.defs := by
      have : Imports.resolve Paths.resolve (absFS exCode (projOf πBad [(pMain, ⟨[], 3⟩)])) pMain (absFile exCode badL) =
          .ok [] := by decide
      show resolveDoc exCode Paths.resolve _ (Paths.normalize pMain) badL = _
      rw [ex_norm]
      unfold resolveDoc
      rw [this]
      rfl
    have hu : findUndefined badL.defs = some "Missing" := by decide
    rcases hc with ⟨e, he, _⟩ | ⟨R, n, hR, hn, _, _, hresp⟩ | ⟨R, m, hR, hn, _⟩
    · rw [hres] at he; cases he
    · rw [hres] at hR
      have hR' : badL.defs = R := by injection hR
      subst hR'
      rw [hu] at hn
      have hn' : "Missing" = n := by injection hn
      subst hn'
      exact hresp
    · rw [hres] at hR
      have hR' : badL.defs = R := by injection hR
      subst hR'
      rw [hu] at hn
      cases hn


/-! the root is known to the import resolver by its NORMALISED name (found by the K stream `emit-concrete`, probe
`unnormalised-root-name`): root supplied as `/p/sub/../main.graphql` (`#import F from "./f.graphql"  query Q { ...F }`),
`/p/f.graphql` = `#import M from "./main.graphql"  fragment F { a ...M }`, and ANOTHER file held as `/p/main.graphql`
(`fragment M { m }`) -/

def pRootU : Paths.P := Paths.components "/p/sub/../main.graphql"
def pF : Paths.P := Paths.components "/p/f.graphql"
def fragM : FragmentDef := { name := "M", cond := "Query", sel := [fld "m"] }
def fragF : FragmentDef := { name := "F", cond := "Query", sel := [fld "a", spr "M"] }
def rootU : SrcFile Paths.P :=
  ⟨[⟨Paths.components "./f.graphql", 0, .specific [⟨exCode "F", 0, 0⟩]⟩],
   [.op { kind := .query, name := some ("Q", {}), sel := [spr "F"] }]⟩
def fU : SrcFile Paths.P := ⟨[⟨Paths.components "./main.graphql", 0, .specific [⟨exCode "M", 0, 0⟩]⟩], [.frag fragF]⟩
def mU : SrcFile Paths.P := ⟨[], [.frag fragM]⟩
def projU : Project Paths.P Paths.P := [(pMain, mU), (pF, fU), (pRootU, rootU)]

/-- Starting from the normalised root name (what the code does, and what `emitFiles` now does) the file held as
    `/p/main.graphql` IS the root for the resolver: it is never finished, `M` is not appended, and the loader answers
    `FragmentNotDefined M`.  Starting from the name as supplied (the mis-transcription) `M` would be appended and a
    module printed. -/
theorem C19_emit_unnormalised_root_witness :
    Paths.normalize pRootU = pMain ∧
    (match resolveDoc exCode Paths.resolve projU (Paths.normalize pRootU) rootU with
      | .ok R => C12.fragNamesOf R = ["F"] ∧ findUndefined R = some "M"
      | _ => False) ∧
    (match resolveDoc exCode Paths.resolve projU pRootU rootU with
      | .ok R => C12.fragNamesOf R = ["M", "F"] ∧ findUndefined R = none
      | _ => False) := by
  have h1 : Imports.resolve Paths.resolve (absFS exCode projU) (Paths.normalize pRootU) (absFile exCode rootU) =
      .ok [(pF, 0)] := by decide
  have h2 : Imports.resolve Paths.resolve (absFS exCode projU) pRootU (absFile exCode rootU) =
      .ok [(pMain, 0), (pF, 0)] := by decide
  refine ⟨by decide, ?_, ?_⟩
  · unfold resolveDoc
    rw [h1]
    exact ⟨by decide, by decide⟩
  · unfold resolveDoc
    rw [h2]
    exact ⟨by decide, by decide⟩

end ExL

end NitroVerif.Loader
