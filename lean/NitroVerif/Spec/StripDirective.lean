import NitroVerif.Gql.Ast
/-
Reference specification for "minus nitrogql-only directives" (C16): `stripDirective n d` is the
type-system document `d` without the definition of the directive `@n` and without ANY application of
`@n`, wherever a directive application can stand in a type-system document (schema definition /
extension, every kind of type definition / extension, field definitions, argument definitions, input
fields, enum values, directive-definition arguments). Everything else is kept, in order.
Core Lean only.
-/
namespace NitroVerif.Strip
open NitroVerif.Gql

def dirs (n : Name) (ds : List Directive) : List Directive := ds.filter fun d => d.name != n

def inputValue (n : Name) (v : InputValueDef) : InputValueDef := { v with dirs := dirs n v.dirs }

def field (n : Name) (f : FieldDef) : FieldDef :=
  { f with dirs := dirs n f.dirs, args := f.args.map (inputValue n) }

def enumValue (n : Name) (v : EnumValueDef) : EnumValueDef := { v with dirs := dirs n v.dirs }

def typeDef (n : Name) (t : TypeDef) : TypeDef :=
  { t with dirs := dirs n t.dirs, fields := t.fields.map (field n), values := t.values.map (enumValue n),
           inputs := t.inputs.map (inputValue n) }

def schemaDef (n : Name) (s : SchemaDef) : SchemaDef := { s with dirs := dirs n s.dirs }

def item (n : Name) : TsItem → Option TsItem
  | .directiveDef d => if d.name = n then none else some (.directiveDef { d with args := d.args.map (inputValue n) })
  | .typeDef t => some (.typeDef (typeDef n t))
  | .typeExt t => some (.typeExt (typeDef n t))
  | .schemaDef s => some (.schemaDef (schemaDef n s))
  | .schemaExt s => some (.schemaExt (schemaDef n s))

def stripDirective (n : Name) (d : TsDoc) : TsDoc := d.filterMap (item n)

end NitroVerif.Strip
