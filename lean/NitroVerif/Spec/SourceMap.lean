/-
Reference decoder for the `mappings` field of a Source Map (v3 / ECMA-426), written from the
specification and independent of the model of the Rust encoder (this file imports nothing):

* base64: RFC 4648 §4 alphabet — 'A'..'Z' = 0..25, 'a'..'z' = 26..51, '0'..'9' = 52..61, '+' = 62, '/' = 63;
* VLQ: each base64 digit carries 5 value bits (least significant group first) and a continuation
  bit (32); the least significant bit of the assembled number is the sign;
* `mappings`: lines separated by ';', segments separated by ','; a segment has 1, 4 or 5 VLQ fields
  (generated column | + source index, original line, original column | + name index); every field
  is relative to the previous occurrence of the same field, except that the generated column
  restarts from 0 on every line. An empty segment (nothing between separators) carries no
  mapping and is skipped, as ECMA-426's decoding algorithm does; `strictSegments` tells whether any occurs.

Fields decode to `Int`: an ill-formed map can make an absolute field negative; `checkMap`
rejects that. Executable; core Lean only.
-/
namespace NitroVerif.SourceMapSpec

/-- RFC 4648 base64 value of a character -/
def b64Val (c : Char) : Option Nat :=
  let n := c.toNat
  if 65 ≤ n ∧ n ≤ 90 then some (n - 65)            -- 'A'..'Z'
  else if 97 ≤ n ∧ n ≤ 122 then some (n - 97 + 26)  -- 'a'..'z'
  else if 48 ≤ n ∧ n ≤ 57 then some (n - 48 + 52)   -- '0'..'9'
  else if n = 43 then some 62                        -- '+'
  else if n = 47 then some 63                        -- '/'
  else none

/-- assemble the 5-bit groups; `acc` = value so far, `mul` = weight of the next group -/
def vlqDecodeNat (acc mul : Nat) : List Nat → Option (Nat × List Nat)
  | [] => none                                   -- ran out of digits while the continuation bit was set
  | d :: ds =>
    if 64 ≤ d then none
    else if 32 ≤ d then vlqDecodeNat (acc + (d % 32) * mul) (mul * 32) ds
    else some (acc + d * mul, ds)

/-- sign is the least significant bit; "-0" is read as −2³¹ (ECMA-426) -/
def fromVlqSigned (v : Nat) : Int :=
  if v % 2 = 1 then (if v / 2 = 0 then -(2 : Int) ^ 31 else -((v / 2 : Nat) : Int)) else ((v / 2 : Nat) : Int)

/-- decode one VLQ number from the front of a list of base64 digit values -/
def vlqDecode (ds : List Nat) : Option (Int × List Nat) :=
  match vlqDecodeNat 0 1 ds with
  | some (v, rest) => some (fromVlqSigned v, rest)
  | none => none

/-- decode all VLQ numbers of a segment (fuel = number of digits is always enough) -/
def vlqDecodeMany : Nat → List Nat → Option (List Int)
  | 0, ds => if ds.isEmpty then some [] else none
  | f + 1, ds =>
    if ds.isEmpty then some []
    else match vlqDecode ds with
      | none => none
      | some (n, rest) => match vlqDecodeMany f rest with
        | none => none
        | some ns => some (n :: ns)

structure Segment where
  genCol : Int
  /-- source index, original line, original column -/
  orig : Option (Int × Int × Int)
  name : Option Int
  deriving Repr, DecidableEq, Inhabited

/-- the running absolute values -/
structure DState where
  genCol : Int
  src : Int
  origLine : Int
  origCol : Int
  name : Int
  deriving Repr

def DState.init : DState := ⟨0, 0, 0, 0, 0⟩

def applyFields (st : DState) : List Int → Option (DState × Segment)
  | [c] => some ({ st with genCol := st.genCol + c }, ⟨st.genCol + c, none, none⟩)
  | [c, s, l, o] =>
    some ({ st with genCol := st.genCol + c, src := st.src + s, origLine := st.origLine + l, origCol := st.origCol + o },
          ⟨st.genCol + c, some (st.src + s, st.origLine + l, st.origCol + o), none⟩)
  | [c, s, l, o, n] =>
    some ({ genCol := st.genCol + c, src := st.src + s, origLine := st.origLine + l, origCol := st.origCol + o, name := st.name + n },
          ⟨st.genCol + c, some (st.src + s, st.origLine + l, st.origCol + o), some (st.name + n)⟩)
  | _ => none

/-- end of a segment: `seg` = its base64 digits; an empty segment is skipped -/
def closeSeg (st : DState) (seg : List Nat) (line : List Segment) : Option (DState × List Segment) :=
  if seg.isEmpty then some (st, line)
  else match vlqDecodeMany seg.length seg with
    | none => none
    | some fields => match applyFields st fields with
      | none => none
      | some (st', s) => some (st', line ++ [s])

/-- one pass over the text. `seg` = digits of the segment being read, `line` = segments of the current line -/
def decodeGo (st : DState) (seg : List Nat) (line : List Segment) : List Char → Option (List (List Segment))
  | [] => match closeSeg st seg line with
    | none => none
    | some (_, line') => some [line']
  | c :: cs =>
    if c = ';' then
      match closeSeg st seg line with
      | none => none
      | some (st', line') => match decodeGo { st' with genCol := 0 } [] [] cs with
        | none => none
        | some rest => some (line' :: rest)
    else if c = ',' then
      match closeSeg st seg line with
      | none => none
      | some (st', line') => decodeGo st' [] line' cs
    else match b64Val c with
      | none => none
      | some d => decodeGo st (seg ++ [d]) line cs

/-- `mappings` text → one list of segments (absolute values) per generated line -/
def decodeMappings (s : List Char) : Option (List (List Segment)) := decodeGo DState.init [] [] s

/-- `true` iff no segment of the text is empty (a line may be empty) -/
def strictGo (segEmpty afterComma : Bool) : List Char → Bool
  | [] => !(afterComma && segEmpty)
  | c :: cs =>
    if c = ',' then (!segEmpty) && strictGo true true cs
    else if c = ';' then (!(afterComma && segEmpty)) && strictGo true false cs
    else strictGo false afterComma cs

def strictSegments (s : List Char) : Bool := strictGo true false s

/-! ### checks on a decoded map against the generated text -/

def utf16Char (c : Char) : Nat := if c.toNat < 0x10000 then 1 else 2

/-- UTF-16 lengths of the lines of a text (lines separated by '\n') -/
def lineLengths (cur : Nat) : List Char → List Nat
  | [] => [cur]
  | c :: cs => if c = '\n' then cur :: lineLengths 0 cs else lineLengths (cur + utf16Char c) cs

inductive Problem where
  | undecodable
  | moreLinesThanText (line : Nat)
  | unordered (line : Nat) (idx : Nat)
  | genColNegative (line : Nat) (idx : Nat)
  | genColPastEnd (line : Nat) (idx : Nat)
  | sourceNegative (line : Nat) (idx : Nat) (v : Int)
  | sourceOutOfRange (line : Nat) (idx : Nat) (v : Int)
  | origNegative (line : Nat) (idx : Nat)
  | nameNegative (line : Nat) (idx : Nat)
  | nameOutOfRange (line : Nat) (idx : Nat)
  deriving Repr

def checkSegs (lineNo lineLen nSources nNames : Nat) (prev : Int) (idx : Nat) : List Segment → List Problem
  | [] => []
  | s :: ss =>
    (if s.genCol < prev then [Problem.unordered lineNo idx] else [])
    ++ (if s.genCol < 0 then [Problem.genColNegative lineNo idx] else [])
    ++ (if s.genCol > (lineLen : Int) then [Problem.genColPastEnd lineNo idx] else [])
    ++ (match s.orig with
        | none => []
        | some (src, ol, oc) =>
          (if src < 0 then [Problem.sourceNegative lineNo idx src]
           else if src ≥ (nSources : Int) then [Problem.sourceOutOfRange lineNo idx src] else [])
          ++ (if ol < 0 ∨ oc < 0 then [Problem.origNegative lineNo idx] else []))
    ++ (match s.name with
        | none => []
        | some n =>
          if n < 0 then [Problem.nameNegative lineNo idx]
          else if n ≥ (nNames : Int) then [Problem.nameOutOfRange lineNo idx] else [])
    ++ checkSegs lineNo lineLen nSources nNames s.genCol (idx + 1) ss

def checkLines (nSources nNames : Nat) (lineNo : Nat) : List (List Segment) → List Nat → List Problem
  | [], _ => []
  | segs :: rest, [] =>
    (if segs.isEmpty then [] else [Problem.moreLinesThanText lineNo]) ++ checkLines nSources nNames (lineNo + 1) rest []
  | segs :: rest, len :: lens =>
    checkSegs lineNo len nSources nNames 0 0 segs ++ checkLines nSources nNames (lineNo + 1) rest lens

/-- the clauses of C06 that can be judged from (generated text, mappings, |sources|, |names|) alone:
    the mappings decode; per line the segments are ordered by generated column; every segment lies
    inside the generated text; source and name indices are in range; no absolute field is negative -/
def checkMap (generated mappings : List Char) (nSources nNames : Nat) : List Problem :=
  match decodeMappings mappings with
  | none => [Problem.undecodable]
  | some lines => checkLines nSources nNames 0 lines (lineLengths 0 generated)

end NitroVerif.SourceMapSpec
