import NitroVerif.Spec.GqlTokens
import NitroVerif.Spec.GqlString
/-
Reference specification (C16, character level): the lexical grammar of GraphQL (specification October 2021, §2.1):

  Ignored      :: UnicodeBOM | WhiteSpace (U+0009, U+0020) | LineTerminator (LF, CR) | Comment (# …) | Comma
  Token        :: Punctuator | Name | IntValue | FloatValue | StringValue
  Punctuator   :: one of  ! $ & ( ) ... : = @ [ ] { | }
  Name         :: NameStart NameContinue* [lookahead ≠ NameContinue]
  IntValue     :: IntegerPart [lookahead ≠ Digit . NameStart]        IntegerPart :: -? 0 | -? NonZeroDigit Digit*
  FloatValue   :: IntegerPart FractionalPart ExponentPart? | IntegerPart ExponentPart   [same lookahead]
                  FractionalPart :: . Digit+      ExponentPart :: (e|E) (+|-)? Digit+
  StringValue  :: `""` [lookahead ≠ `"`] | `"` StringCharacter+ `"` | `"""` BlockStringCharacter* `"""`
                  (value: `Spec/GqlString.lean`)

`lexDocument text` is the token sequence of `text` (string tokens by VALUE, numbers and names by their text), `none`
if the text is not a sequence of tokens and ignored characters. Names, numbers and strings are scanned by one-character-
per-step machines (structural recursion); the driver loop takes fuel (text length + 1 suffices). Core Lean only.
-/
namespace NitroVerif.GqlLexer
open NitroVerif.GqlTokens NitroVerif.GqlString

def isDigit (c : Char) : Bool := '0' ≤ c ∧ c ≤ '9'
def isLetter (c : Char) : Bool := ('a' ≤ c ∧ c ≤ 'z') ∨ ('A' ≤ c ∧ c ≤ 'Z')
def nameStart (c : Char) : Bool := isLetter c || c = '_'
def nameContinue (c : Char) : Bool := nameStart c || isDigit c

/-- WhiteSpace, LineTerminator, Comma, UnicodeBOM -/
def isIgnored (c : Char) : Bool := c = ' ' ∨ c = '\t' ∨ c = '\n' ∨ c = '\r' ∨ c = ',' ∨ c = Char.ofNat 0xFEFF

/-- the one-character punctuators -/
def punct1 (c : Char) : Bool :=
  c = '!' ∨ c = '$' ∨ c = '&' ∨ c = '(' ∨ c = ')' ∨ c = ':' ∨ c = '=' ∨ c = '@' ∨ c = '[' ∨ c = ']' ∨ c = '{' ∨ c = '|' ∨
    c = '}'

/-- maximal run of NameContinue characters -/
def spanName : List Char → List Char × List Char
  | [] => ([], [])
  | c :: cs => if nameContinue c then ((c :: (spanName cs).1), (spanName cs).2) else ([], c :: cs)

/-- rest of a comment: up to (not including) the next LineTerminator -/
def dropComment : List Char → List Char
  | [] => []
  | c :: cs => if c = '\n' ∨ c = '\r' then c :: cs else dropComment cs

/-! ### numbers -/

inductive NumSt where
  | start | sign | zero | int | dot | frac | e | esign | exp
  deriving DecidableEq, Repr

/-- one character of a number; `none` = the character does not continue the number -/
def numStep : NumSt → Char → Option NumSt
  | .start, c => if c = '-' then some .sign else if c = '0' then some .zero else if isDigit c then some .int else none
  | .sign, c => if c = '0' then some .zero else if isDigit c then some .int else none
  | .zero, c => if c = '.' then some .dot else if c = 'e' ∨ c = 'E' then some .e else none
  | .int, c =>
    if isDigit c then some .int else if c = '.' then some .dot else if c = 'e' ∨ c = 'E' then some .e else none
  | .dot, c => if isDigit c then some .frac else none
  | .frac, c => if isDigit c then some .frac else if c = 'e' ∨ c = 'E' then some .e else none
  | .e, c => if c = '+' ∨ c = '-' then some .esign else if isDigit c then some .exp else none
  | .esign, c => if isDigit c then some .exp else none
  | .exp, c => if isDigit c then some .exp else none

/-- longest prefix that `numStep` accepts: (final state, consumed, rest) -/
def scanNum : NumSt → List Char → NumSt × List Char × List Char
  | st, [] => (st, [], [])
  | st, c :: cs =>
    match numStep st c with
    | some st' => ((scanNum st' cs).1, c :: (scanNum st' cs).2.1, (scanNum st' cs).2.2)
    | none => (st, [], c :: cs)

/-- the lookahead restriction after a number -/
def numFollowOK : List Char → Bool
  | [] => true
  | c :: _ => !(isDigit c || c = '.' || nameStart c)

/-- the number token at the front of the text -/
def lexNumber (cs : List Char) : Option (LTok × List Char) :=
  match scanNum .start cs with
  | (st, txt, rest) =>
    if numFollowOK rest then
      match st with
      | .zero | .int => some (.int (String.ofList txt), rest)
      | .frac | .exp => some (.float (String.ofList txt), rest)
      | _ => none
    else none

/-! ### strings in context -/

/-- like `GqlString.quotedRun`, but returns what follows the closing quote -/
def quotedRest : St → List Char → Option (List Char × List Char)
  | _, [] => none
  | st, c :: cs =>
    match step st c with
    | .fail => none
    | .close => some ([], cs)
    | .go out st' => (quotedRest st' cs).map fun r => (out ++ r.1, r.2)

/-- the string token whose opening `"` was just read: (value, rest) -/
def lexString : List Char → Option (List Char × List Char)
  | '"' :: '"' :: r => (blockRaw r).map fun x => (blockStringValue x.1, x.2)
  | cs => quotedRest .normal cs

/-! ### the token loop -/

def lexText : Nat → List Char → Option (List LTok)
  | 0, _ => none
  | _, [] => some []
  | f + 1, c :: cs =>
    if isIgnored c then lexText f cs
    else if c = '#' then lexText f (dropComment cs)
    else if punct1 c then (lexText f cs).map (LTok.p (String.ofList [c]) :: ·)
    else if c = '.' then
      match cs with
      | '.' :: '.' :: r => (lexText f r).map (LTok.p "..." :: ·)
      | _ => none
    else if nameStart c then
      (lexText f (spanName cs).2).map (LTok.name (String.ofList (c :: (spanName cs).1)) :: ·)
    else if c = '-' ∨ isDigit c then
      match lexNumber (c :: cs) with
      | some (tok, r) => (lexText f r).map (tok :: ·)
      | none => none
    else if c = '"' then
      match lexString cs with
      | some (v, r) => (lexText f r).map (LTok.str (String.ofList v) :: ·)
      | none => none
    else none

/-- the token sequence of a text -/
def lexDocument (text : List Char) : Option (List LTok) := lexText (text.length + 1) text

end NitroVerif.GqlLexer
