/-
Reference specification: the *cooked* value (TV) of the characters of an ECMAScript template literal
without substitutions, written from ECMA-262 §12.9.6 "Template Literal Lexical Components" and
§12.9.4 "String Literals" (escape sequences). Input: the source text *between* the two back-ticks.

  TemplateCharacter ::  `$` [lookahead ≠ `{`]  |  `\` TemplateEscapeSequence  |  `\` NotEscapeSequence
                     |  LineContinuation  |  LineTerminatorSequence  |  SourceCharacter but not one of `` ` `` `\` `$` LineTerminator
  * TV of LineTerminatorSequence: <LF> → LF, <CR> → LF, <CR><LF> → LF, <LS>, <PS> → themselves
  * TV of LineContinuation (`\` LineTerminatorSequence) is the empty sequence
  * CharacterEscapeSequence: SingleEscapeCharacter ' " \ b f n r t v, NonEscapeCharacter (→ itself)
  * `\0` [lookahead ∉ DecimalDigit] → NUL;  `\x` HexDigit HexDigit;  `\u` Hex4Digits;  `\u{` CodePoint `}`
  * NotEscapeSequence (`\1`…`\9`, `\0` DecimalDigit, bad `\x`/`\u`) has no cooked value → `none`
    (a syntax error in an untagged template)
`cook` returns `none` when the text is not the body of ONE substitution-free template literal:
an unescaped back-tick (the literal ends early), `${` (a substitution starts), a dangling `\`.
Codomain: the cooked value is given as a list of code points; a `\uHHHH` / `\u{…}` escape denoting a
surrogate code unit has no `Char` and is answered with `none` (the printer never emits `\u`).

Written as a one-character-per-step machine so that every function is structurally recursive.
Core Lean only.
-/
namespace NitroVerif.Cook

inductive St where
  | normal
  /-- the previous character was an unescaped `$` (already part of the value) -/
  | dollar
  /-- the previous character was an unescaped CR (its LF is already part of the value): a following LF belongs to it -/
  | cr
  /-- directly after a backslash -/
  | bs
  /-- after `\` CR (a line continuation): a following LF belongs to it -/
  | bscr
  /-- after `\0` (NUL is already part of the value): a decimal digit may not follow -/
  | zero
  /-- inside `\xHH`: digits remaining, value so far -/
  | hex (n : Nat) (acc : Nat)
  /-- directly after `\u` -/
  | ustart
  /-- inside `\uHHHH`: digits remaining, value so far -/
  | u4 (n : Nat) (acc : Nat)
  /-- inside `\u{…}`: value so far, at least one digit seen -/
  | ubrace (acc : Nat) (any : Bool)
  deriving Repr, DecidableEq, Inhabited

def hexVal (c : Char) : Option Nat :=
  if '0' ≤ c ∧ c ≤ '9' then some (c.toNat - 48)
  else if 'a' ≤ c ∧ c ≤ 'f' then some (c.toNat - 87)
  else if 'A' ≤ c ∧ c ≤ 'F' then some (c.toNat - 55)
  else none

def isDecimalDigit (c : Char) : Bool := '0' ≤ c ∧ c ≤ '9'

def isSurrogate (n : Nat) : Bool := 0xD800 ≤ n ∧ n ≤ 0xDFFF

/-- the code point `n` as a cooked character, if it is one -/
def codePoint (n : Nat) : Option Char :=
  if n ≤ 0x10FFFF ∧ !isSurrogate n then some (Char.ofNat n) else none

def LS : Char := Char.ofNat 0x2028
def PS : Char := Char.ofNat 0x2029

/-- a character read outside any escape sequence -/
def stepNormal (c : Char) : Option (List Char × St) :=
  if c = '`' then none
  else if c = '\\' then some ([], .bs)
  else if c = '$' then some (['$'], .dollar)
  else if c = '\r' then some (['\n'], .cr)
  else some ([c], .normal)

/-- the character after a backslash -/
def stepBs (c : Char) : Option (List Char × St) :=
  if c = '\n' then some ([], .normal)
  else if c = '\r' then some ([], .bscr)
  else if c = LS ∨ c = PS then some ([], .normal)
  else if c = 'b' then some (['\x08'], .normal)
  else if c = 'f' then some (['\x0c'], .normal)
  else if c = 'n' then some (['\n'], .normal)
  else if c = 'r' then some (['\r'], .normal)
  else if c = 't' then some (['\t'], .normal)
  else if c = 'v' then some (['\x0b'], .normal)
  else if c = '0' then some (['\x00'], .zero)
  else if isDecimalDigit c then none
  else if c = 'x' then some ([], .hex 2 0)
  else if c = 'u' then some ([], .ustart)
  else some ([c], .normal)      -- ' " \ and every NonEscapeCharacter

def step : St → Char → Option (List Char × St)
  | .normal, c => stepNormal c
  | .dollar, c => if c = '{' then none else stepNormal c
  | .cr, c => if c = '\n' then some ([], .normal) else stepNormal c
  | .bscr, c => if c = '\n' then some ([], .normal) else stepNormal c
  | .zero, c => if isDecimalDigit c then none else stepNormal c
  | .bs, c => stepBs c
  | .hex n acc, c =>
    match hexVal c with
    | none => none
    | some v =>
      if n ≤ 1 then (codePoint (acc * 16 + v)).map fun ch => ([ch], St.normal)
      else some ([], .hex (n - 1) (acc * 16 + v))
  | .ustart, c =>
    if c = '{' then some ([], .ubrace 0 false)
    else match hexVal c with
      | none => none
      | some v => some ([], .u4 3 v)
  | .u4 n acc, c =>
    match hexVal c with
    | none => none
    | some v =>
      if n ≤ 1 then (codePoint (acc * 16 + v)).map fun ch => ([ch], St.normal)
      else some ([], .u4 (n - 1) (acc * 16 + v))
  | .ubrace acc any, c =>
    if c = '}' then
      if any then (codePoint acc).map fun ch => ([ch], St.normal) else none
    else match hexVal c with
      | none => none
      | some v => if acc * 16 + v ≤ 0x10FFFF then some ([], .ubrace (acc * 16 + v) true) else none

/-- end of the template characters (the closing back-tick follows) -/
def finish : St → Option (List Char)
  | .normal | .dollar | .cr | .bscr | .zero => some []
  | _ => none      -- a dangling backslash would escape the closing back-tick; an unfinished \x, \u

def run : St → List Char → Option (List Char)
  | st, [] => finish st
  | st, c :: cs =>
    match step st c with
    | none => none
    | some (out, st') => (run st' cs).map (out ++ ·)

/-- cooked value of the template body `s` (`none`: `s` is not the body of one substitution-free literal) -/
def cook (s : List Char) : Option (List Char) := run .normal s

/-- Independent, simpler reading of "the literal is not broken": scanning left to right, a backslash
    protects the next character; an unprotected back-tick ends the literal; an unprotected `$`
    directly followed by `{` starts a substitution; the text may not end inside an escape. -/
def unbroken : (afterBackslash : Bool) → (afterDollar : Bool) → List Char → Bool
  | p, _, [] => !p
  | true, _, _ :: cs => unbroken false false cs
  | false, d, c :: cs =>
    if c = '\\' then unbroken true false cs
    else if c = '`' then false
    else if c = '{' ∧ d then false
    else unbroken false (c == '$') cs

end NitroVerif.Cook
