/-
Reference specification: the semantic value of a GraphQL `StringValue` token, written from the GraphQL
specification §2.9.4 "String Value" (October 2021 edition, with the `\u{…}` / surrogate-pair escapes of
the current draft, which nitrogql's grammar also accepts).

  StringValue ::  `""` [lookahead ≠ `"`]  |  `"` StringCharacter+ `"`  |  `"""` BlockStringCharacter* `"""`
  StringCharacter ::  SourceCharacter but not `"` `\` LineTerminator
                   |  `\u` EscapedUnicode  |  `\` EscapedCharacter          (one of  " \ / b f n r t)
  BlockStringCharacter ::  SourceCharacter but not `"""` or `\"""`  |  `\"""`       (→ `"""`)
  block strings: the value is `BlockStringValue(rawValue)` — split into lines at LineTerminators, remove the
  common indentation of all lines but the first, remove leading and trailing blank lines, join with U+000A.
  SourceCharacter: U+0009, U+000A, U+000D and everything from U+0020 (the other C0 controls are not source text).

`decodeStringLiteral lit` is the value of `lit` if `lit` is exactly ONE string token, else `none`
(`none` also when a `\uHHHH` escape denotes a lone surrogate).
One character per step / nested-pattern recursion only: everything is structurally recursive. Core Lean only.
-/
namespace NitroVerif.GqlString

def hexVal (c : Char) : Option Nat :=
  if '0' ≤ c ∧ c ≤ '9' then some (c.toNat - 48)
  else if 'a' ≤ c ∧ c ≤ 'f' then some (c.toNat - 87)
  else if 'A' ≤ c ∧ c ≤ 'F' then some (c.toNat - 55)
  else none

def isSurrogate (n : Nat) : Bool := 0xD800 ≤ n ∧ n ≤ 0xDFFF
def isHighSurrogate (n : Nat) : Bool := 0xD800 ≤ n ∧ n ≤ 0xDBFF
def isLowSurrogate (n : Nat) : Bool := 0xDC00 ≤ n ∧ n ≤ 0xDFFF

def codePoint (n : Nat) : Option Char :=
  if n ≤ 0x10FFFF ∧ !isSurrogate n then some (Char.ofNat n) else none

/-- SourceCharacter -/
def sourceChar (c : Char) : Bool := c = '\t' ∨ c = '\n' ∨ c = '\r' ∨ 32 ≤ c.toNat

/-! ### quoted strings -/

inductive St where
  | normal
  | bs (hi : Option Nat)
  | ustart (hi : Option Nat)
  | u4 (n : Nat) (acc : Nat) (hi : Option Nat)
  | ubrace (acc : Nat) (any : Bool)
  /-- a leading surrogate `\uD8xx` was read: `\uDCxx` must follow -/
  | needLow (hi : Nat)
  deriving Repr, DecidableEq, Inhabited

inductive Step where
  | fail
  | close
  | go (out : List Char) (st : St)

def escaped (c : Char) : Option Char :=
  if c = '"' then some '"'
  else if c = '\\' then some '\\'
  else if c = '/' then some '/'
  else if c = 'b' then some '\x08'
  else if c = 'f' then some '\x0c'
  else if c = 'n' then some '\n'
  else if c = 'r' then some '\r'
  else if c = 't' then some '\t'
  else none

/-- a finished `\uHHHH` escape with value `n`; `hi` = pending leading surrogate -/
def finishU4 (n : Nat) (hi : Option Nat) : Step :=
  match hi with
  | some h =>
    if isLowSurrogate n then
      match codePoint (0x10000 + (h - 0xD800) * 0x400 + (n - 0xDC00)) with
      | some ch => .go [ch] .normal
      | none => .fail
    else .fail
  | none =>
    if isHighSurrogate n then .go [] (.needLow n)
    else match codePoint n with
      | some ch => .go [ch] .normal
      | none => .fail

def step : St → Char → Step
  | .normal, c =>
    if c = '"' then .close
    else if c = '\\' then .go [] (.bs none)
    else if c = '\n' ∨ c = '\r' then .fail
    else if sourceChar c then .go [c] .normal
    else .fail
  | .needLow h, c => if c = '\\' then .go [] (.bs (some h)) else .fail
  | .bs hi, c =>
    if c = 'u' then .go [] (.ustart hi)
    else match hi, escaped c with
      | none, some ch => .go [ch] .normal
      | _, _ => .fail
  | .ustart hi, c =>
    if c = '{' then (if hi.isSome then .fail else .go [] (.ubrace 0 false))
    else match hexVal c with
      | some v => .go [] (.u4 3 v hi)
      | none => .fail
  | .u4 n acc hi, c =>
    match hexVal c with
    | none => .fail
    | some v => if n ≤ 1 then finishU4 (acc * 16 + v) hi else .go [] (.u4 (n - 1) (acc * 16 + v) hi)
  | .ubrace acc any, c =>
    if c = '}' then
      if any then (match codePoint acc with | some ch => .go [ch] .normal | none => .fail) else .fail
    else match hexVal c with
      | none => .fail
      | some v => if acc * 16 + v ≤ 0x10FFFF then .go [] (.ubrace (acc * 16 + v) true) else .fail

/-- the characters after the opening `"`: value, provided the closing `"` is the last character -/
def quotedRun : St → List Char → Option (List Char)
  | _, [] => none
  | st, c :: cs =>
    match step st c with
    | .fail => none
    | .close => if cs.isEmpty then some [] else none
    | .go out st' => (quotedRun st' cs).map (out ++ ·)

/-! ### block strings -/

/-- the characters after the opening `"""`: (raw value with `\"""` replaced by `"""`, text after the closing `"""`) -/
def blockRaw : List Char → Option (List Char × List Char)
  | '"' :: '"' :: '"' :: rest => some ([], rest)
  | '\\' :: '"' :: '"' :: '"' :: rest => (blockRaw rest).map fun r => ('"' :: '"' :: '"' :: r.1, r.2)
  | c :: rest => if sourceChar c then (blockRaw rest).map fun r => (c :: r.1, r.2) else none
  | [] => none

/-- split at LineTerminators (`\n`, `\r\n`, `\r`); `cr` = the previous character was `\r`; `cur` reversed -/
def splitLinesAux : Bool → List Char → List Char → List (List Char)
  | _, [], cur => [cur.reverse]
  | cr, c :: cs, cur =>
    if c = '\n' then
      if cr then splitLinesAux false cs cur
      else cur.reverse :: splitLinesAux false cs []
    else if c = '\r' then cur.reverse :: splitLinesAux true cs []
    else splitLinesAux false cs (c :: cur)

def splitLines (s : List Char) : List (List Char) := splitLinesAux false s []

def isWs (c : Char) : Bool := c = ' ' ∨ c = '\t'

def leadingWs : List Char → Nat
  | [] => 0
  | c :: cs => if isWs c then leadingWs cs + 1 else 0

def isBlank (l : List Char) : Bool := l.all isWs

/-- common indentation of the given lines (`none` = null) -/
def commonIndent : List (List Char) → Option Nat
  | [] => none
  | l :: ls =>
    let rest := commonIndent ls
    let indent := leadingWs l
    if indent < l.length then
      match rest with
      | none => some indent
      | some r => some (min indent r)
    else rest

def dropLeadingBlank : List (List Char) → List (List Char)
  | [] => []
  | l :: ls => if isBlank l then dropLeadingBlank ls else l :: ls

def dropTrailingBlank (ls : List (List Char)) : List (List Char) :=
  (dropLeadingBlank ls.reverse).reverse

def joinLines : List (List Char) → List Char
  | [] => []
  | [l] => l
  | l :: ls => l ++ '\n' :: joinLines ls

/-- remove the common indentation (`none` = null: nothing to remove) from every line -/
def stripIndent : Option Nat → List (List Char) → List (List Char)
  | none, ls => ls
  | some n, ls => ls.map (·.drop n)

/-- `BlockStringValue(rawValue)` -/
def blockStringValue (raw : List Char) : List Char :=
  match splitLines raw with
  | [] => []
  | first :: others =>
    joinLines (dropTrailingBlank (dropLeadingBlank (first :: stripIndent (commonIndent others) others)))

/-- the value of the text `lit` read as exactly one `StringValue` token -/
def decodeStringLiteral : List Char → Option (List Char)
  | '"' :: '"' :: '"' :: rest =>
    match blockRaw rest with
    | some (raw, []) => some (blockStringValue raw)
    | _ => none
  | '"' :: rest => quotedRun .normal rest
  | _ => none

end NitroVerif.GqlString
