import NitroVerif.Gql.Ast
/-
Reference specification (C16, token level): lexical tokens of GraphQL (spec §2.1.6 `Token :: Punctuator | Name |
IntValue | FloatValue | StringValue`), the canonical token stream of a `Type` (spec §2.12: `Type : NamedType |
ListType | NonNullType`, `ListType : [ Type ]`, `NonNullType : NamedType ! | ListType !`) and a recursive-descent
parser for `Type` over tokens, written from those productions. Strings are tokens by VALUE.
Core Lean only.
-/
namespace NitroVerif.GqlTokens
open NitroVerif.Gql

inductive LTok where
  | p (s : String)
  | name (s : String)
  | int (s : String)
  | float (s : String)
  | str (v : String)
  deriving DecidableEq, Repr, Inhabited

def typeToks : GType → List LTok
  | .named n _ => [.name n]
  | .list t _ => .p "[" :: typeToks t ++ [.p "]"]
  | .nonNull t => typeToks t ++ [.p "!"]

/-- `NonNullType`: an optional `!` after a named or list type -/
def bang (t : GType) : List LTok → GType × List LTok
  | [] => (t, [])
  | tok :: r => if tok = .p "!" then (.nonNull t, r) else (t, tok :: r)

/-- parse one `Type` from the front of the token list (positions are not part of the result) -/
def parseType : Nat → List LTok → Option (GType × List LTok)
  | 0, _ => none
  | _, [] => none
  | f + 1, tok :: r =>
    match tok with
    | .name n => some (bang (.named n Pos.none) r)
    | .p s =>
      if s = "[" then
        match parseType f r with
        | some (t, tok' :: r') => if tok' = .p "]" then some (bang (.list t Pos.none) r') else none
        | _ => none
      else none
    | _ => none

/-- what the grammar can produce: no `!` directly on a non-null type -/
def wfType : GType → Bool
  | .named _ _ => true
  | .list t _ => wfType t
  | .nonNull t => !t.isNonNull && wfType t

def depth : GType → Nat
  | .named _ _ => 0
  | .list t _ => depth t + 1
  | .nonNull t => depth t + 1

/-! ### Value and Directive (spec §2.9 `Value`, §2.10, §2.6 `Arguments`, §2.13 `Directive : @ Name Arguments?`) -/

mutual
def valueToks : Value → List LTok
  | .var n _ => [.p "$", .name n]
  | .int s _ => [.int s]
  | .float s _ => [.float s]
  | .str s _ => [.str s]
  | .bool b _ => [.name (if b then "true" else "false")]
  | .null _ => [.name "null"]
  | .enum n _ => [.name n]
  | .list vs _ => .p "[" :: (valueListToks vs ++ [.p "]"])
  | .obj fs _ => .p "{" :: (fieldToks fs ++ [.p "}"])
def valueListToks : List Value → List LTok
  | [] => []
  | v :: vs => valueToks v ++ valueListToks vs
/-- `Name : Value` entries (object fields, arguments) -/
def fieldToks : List (Name × Pos × Value) → List LTok
  | [] => []
  | (k, _, v) :: r => .name k :: .p ":" :: (valueToks v ++ fieldToks r)
end

def argsToks : List Arg → List LTok
  | [] => []
  | a :: as => .p "(" :: (fieldToks (a :: as) ++ [.p ")"])

def directiveToks (d : Directive) : List LTok := .p "@" :: .name d.name :: argsToks d.args

/-- a name token read as a value: `true`, `false`, `null` are keywords, everything else is an enum value -/
def nameValue (n : String) : Value :=
  if n = "true" then .bool true Pos.none
  else if n = "false" then .bool false Pos.none
  else if n = "null" then .null Pos.none
  else .enum n Pos.none

mutual
/-- parse one `Value` from the front of the token list -/
def parseValue : Nat → List LTok → Option (Value × List LTok)
  | 0, _ => none
  | _, [] => none
  | f + 1, tok :: r =>
    match tok with
    | .int s => some (.int s Pos.none, r)
    | .float s => some (.float s Pos.none, r)
    | .str s => some (.str s Pos.none, r)
    | .name n => some (nameValue n, r)
    | .p s =>
      if s = "$" then
        match r with
        | .name n :: r' => some (.var n Pos.none, r')
        | _ => none
      else if s = "[" then (parseValues f r).map fun x => (.list x.1 Pos.none, x.2)
      else if s = "{" then (parseFields "}" f r).map fun x => (.obj x.1 Pos.none, x.2)
      else none
/-- values up to the closing `]` -/
def parseValues : Nat → List LTok → Option (List Value × List LTok)
  | 0, _ => none
  | _, [] => none
  | f + 1, tok :: r =>
    if tok = .p "]" then some ([], r)
    else match parseValue f (tok :: r) with
      | some (v, r') => (parseValues f r').map fun x => (v :: x.1, x.2)
      | none => none
/-- `Name : Value` entries up to the closing punctuator `close` -/
def parseFields (close : String) : Nat → List LTok → Option (List (Name × Pos × Value) × List LTok)
  | 0, _ => none
  | _, [] => none
  | f + 1, tok :: r =>
    if tok = .p close then some ([], r)
    else match tok, r with
      | .name k, colon :: r1 =>
        if colon = .p ":" then
          match parseValue f r1 with
          | some (v, r2) => (parseFields close f r2).map fun x => ((k, Pos.none, v) :: x.1, x.2)
          | none => none
        else none
      | _, _ => none
end

/-- `Directive : @ Name Arguments?` with `Arguments : ( Argument+ )` -/
def parseDirective (f : Nat) : List LTok → Option (Directive × List LTok)
  | at_ :: .name n :: r =>
    if at_ = .p "@" then
      match r with
      | [] => some ({ name := n }, [])
      | tok :: r' =>
        if tok = .p "(" then
          match parseFields ")" f r' with
          | some (a :: as, r'') => some ({ name := n, args := a :: as }, r'')
          | _ => none
        else some ({ name := n }, tok :: r')
    else none
  | _ => none

/-- what the grammar can produce: an enum value is not one of the keywords `true`, `false`, `null` -/
def okEnum (n : String) : Bool := n != "true" && n != "false" && n != "null"

mutual
def wfValue : Value → Bool
  | .enum n _ => okEnum n
  | .list vs _ => wfValueList vs
  | .obj fs _ => wfFields fs
  | _ => true
def wfValueList : List Value → Bool
  | [] => true
  | v :: vs => wfValue v && wfValueList vs
def wfFields : List (Name × Pos × Value) → Bool
  | [] => true
  | (_, _, v) :: r => wfValue v && wfFields r
end

/-- a directive without positions -/
def eraseDirective (d : Directive) : Directive := { name := d.name, args := Value.erasePosFields d.args }

/-! ### selections, variable definitions, operations, fragments (spec §2.4–§2.8, §2.10) — canonical token streams -/

def dirsToks : List Directive → List LTok
  | [] => []
  | d :: ds => directiveToks d ++ dirsToks ds

mutual
def selectionToks : Selection → List LTok
  | .field al n _ as ds ss =>
    (match al with
     | some (a, _) => [.name a, .p ":"]
     | none => []) ++ .name n :: (argsToks as ++ dirsToks ds ++
    (match ss with
     | some xs => .p "{" :: (selectionsToks xs ++ [.p "}"])
     | none => []))
  | .spread n _ ds _ => .p "..." :: .name n :: dirsToks ds
  | .inline c ds ss _ =>
    .p "..." :: ((match c with
     | some (t, _) => [.name "on", .name t]
     | none => []) ++ dirsToks ds ++ .p "{" :: (selectionsToks ss ++ [.p "}"]))
def selectionsToks : List Selection → List LTok
  | [] => []
  | s :: ss => selectionToks s ++ selectionsToks ss
end

def selectionSetToks (ss : List Selection) : List LTok := .p "{" :: (selectionsToks ss ++ [.p "}"])

def varDefToks (v : VarDef) : List LTok :=
  .p "$" :: .name v.name :: .p ":" :: (typeToks v.ty ++
    (match v.default with
     | some d => .p "=" :: valueToks d
     | none => []) ++ dirsToks v.dirs)

def varDefListToks : List VarDef → List LTok
  | [] => []
  | v :: vs => varDefToks v ++ varDefListToks vs

def varDefsToks : List VarDef → List LTok
  | [] => []
  | v :: vs => .p "(" :: (varDefListToks (v :: vs) ++ [.p ")"])

def operationToks (o : OperationDef) : List LTok :=
  .name o.kind.asStr :: ((match o.name with
    | some (n, _) => [.name n]
    | none => []) ++ varDefsToks o.vars ++ dirsToks o.dirs ++ selectionSetToks o.sel)

def fragmentToks (f : FragmentDef) : List LTok :=
  .name "fragment" :: .name f.name :: .name "on" :: .name f.cond :: (dirsToks f.dirs ++ selectionSetToks f.sel)

end NitroVerif.GqlTokens
