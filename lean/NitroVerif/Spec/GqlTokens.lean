import NitroVerif.Gql.Ast
/-
Reference specification (C16, token level): lexical tokens of GraphQL (spec §2.1.6 `Token :: Punctuator | Name |
IntValue | FloatValue | StringValue`), the canonical token stream of a `Type` (spec §2.12: `Type : NamedType |
ListType | NonNullType`, `ListType : [ Type ]`, `NonNullType : NamedType ! | ListType !`) and a recursive-descent
parser for `Type` over tokens, written from those productions. Strings are tokens by VALUE.
Core Lean only.
-/
namespace NitroVerif.GqlTokens
open NitroVerif.Gql

inductive LTok where
  | p (s : String)
  | name (s : String)
  | num (s : String)
  | str (v : String)
  deriving DecidableEq, Repr, Inhabited

def typeToks : GType → List LTok
  | .named n _ => [.name n]
  | .list t _ => .p "[" :: typeToks t ++ [.p "]"]
  | .nonNull t => typeToks t ++ [.p "!"]

/-- `NonNullType`: an optional `!` after a named or list type -/
def bang (t : GType) : List LTok → GType × List LTok
  | [] => (t, [])
  | tok :: r => if tok = .p "!" then (.nonNull t, r) else (t, tok :: r)

/-- parse one `Type` from the front of the token list (positions are not part of the result) -/
def parseType : Nat → List LTok → Option (GType × List LTok)
  | 0, _ => none
  | _, [] => none
  | f + 1, tok :: r =>
    match tok with
    | .name n => some (bang (.named n Pos.none) r)
    | .p s =>
      if s = "[" then
        match parseType f r with
        | some (t, tok' :: r') => if tok' = .p "]" then some (bang (.list t Pos.none) r') else none
        | _ => none
      else none
    | _ => none

/-- what the grammar can produce: no `!` directly on a non-null type -/
def wfType : GType → Bool
  | .named _ _ => true
  | .list t _ => wfType t
  | .nonNull t => !t.isNonNull && wfType t

def depth : GType → Nat
  | .named _ _ => 0
  | .list t _ => depth t + 1
  | .nonNull t => depth t + 1

end NitroVerif.GqlTokens
