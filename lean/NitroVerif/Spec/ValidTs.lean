/-
Executable reference specification of the type-system rules of property C05, written from the GraphQL
specification (October 2021, §3 "Type System"; rule texts quoted per predicate), independently of the
checker: every rule is a plain quantification ("for all definitions … for all fields …") over the lookup
view `Gql.Schema` of the resolved document, not a replay of the checker's loops.

One `Bool` predicate per rule of the C05 statement (`Holds_<r> T := <r> T = true` in Props/C05.lean),
`violated` (ids of the violated rules, for the oracle stream) and `tsSpecValid` (their conjunction plus
the two name-uniqueness rules of §3.3/§3.13 that make "the type named n" well defined).

Kind discipline: `TypeDef` is one structure for the six kinds; only the component lists that a kind has
are read (`fieldsOfT`, `inputsOfT`, …), so junk in the other lists of a hand-made value is ignored — as
the checker does.

Core Lean only; structurally recursive.
-/
import NitroVerif.Gql.Schema
import NitroVerif.Spec.IntLit
namespace NitroVerif.ValidTs
open NitroVerif.Gql

/-! ### helpers -/

/-- "must not begin with the characters `__`" -/
def startsWithUU (n : Name) : Bool :=
  match n.toList with
  | '_' :: '_' :: _ => true
  | _ => false

def noDup : List Name → Bool
  | [] => true
  | x :: xs => !xs.contains x && noDup xs

def isObjOrIface (t : TypeDef) : Bool := t.kind == .object || t.kind == .interface
def fieldsOfT (t : TypeDef) : List FieldDef := if isObjOrIface t then t.fields else []
def implementsOfT (t : TypeDef) : List (Name × Pos) := if isObjOrIface t then t.implements else []
def membersOfT (t : TypeDef) : List (Name × Pos) := if t.kind == .union then t.members else []
def valuesOfT (t : TypeDef) : List EnumValueDef := if t.kind == .enum then t.values else []
def inputsOfT (t : TypeDef) : List InputValueDef := if t.kind == .input then t.inputs else []

def typeDefs (T : TsDoc) : List TypeDef := Schema.typeDefs ⟨T⟩
def directiveDefs (T : TsDoc) : List DirectiveDef := Schema.directiveDefs ⟨T⟩
def schemaDefs (T : TsDoc) : List SchemaDef := Schema.schemaDefs ⟨T⟩

/-- every list of argument definitions: of fields of object / interface types and of directive definitions -/
def argLists (T : TsDoc) : List (List InputValueDef) :=
  ((typeDefs T).flatMap fun t => (fieldsOfT t).map (·.args)) ++ (directiveDefs T).map (·.args)

/-- every input value definition: arguments and input-object fields -/
def inputValues (T : TsDoc) : List InputValueDef :=
  (argLists T).flatten ++ (typeDefs T).flatMap inputsOfT

def known (S : Schema) (n : Name) : Bool := (S.typeDef? n).isSome

/-! ### reserved names (§3 "Reserved Names": any Name within a type system must not start with `__`) -/

def reservedNames (T : TsDoc) : Bool :=
  (typeDefs T).all (fun t =>
    !startsWithUU t.name &&
    (fieldsOfT t).all (fun f => !startsWithUU f.name && f.args.all (fun a => !startsWithUU a.name)) &&
    (valuesOfT t).all (fun v => !startsWithUU v.name) &&
    (inputsOfT t).all (fun f => !startsWithUU f.name)) &&
  (directiveDefs T).all (fun d => !startsWithUU d.name && d.args.all (fun a => !startsWithUU a.name))

/-! ### uniqueness (§3.6 fields, §3.6.1 arguments, §3.9 enum values, §3.8 union members, §3.10 input fields,
    §3.3 "All types within a GraphQL schema must have unique names") -/

def uniqueFields (T : TsDoc) : Bool :=
  (typeDefs T).all fun t => noDup ((fieldsOfT t).map (·.name)) && noDup ((inputsOfT t).map (·.name))

def uniqueArgs (T : TsDoc) : Bool := (argLists T).all fun as => noDup (as.map (·.name))

def uniqueEnumValues (T : TsDoc) : Bool := (typeDefs T).all fun t => noDup ((valuesOfT t).map (·.name))

def uniqueUnionMembers (T : TsDoc) : Bool := (typeDefs T).all fun t => noDup ((membersOfT t).map (·.1))

def noDupKinded : List (TypeKind × Name) → Bool
  | [] => true
  | x :: xs => !xs.contains x && noDupKinded xs

/-- no two type definitions of the same kind with the same name, at most one schema definition -/
def uniqueTypeDefs (T : TsDoc) : Bool :=
  noDupKinded ((typeDefs T).map fun t => (t.kind, t.name)) && (schemaDefs T).length ≤ 1

def uniqueTypeNames (T : TsDoc) : Bool := noDup ((typeDefs T).map (·.name))
def uniqueDirectiveNames (T : TsDoc) : Bool := noDup ((directiveDefs T).map (·.name))

/-! ### name uniqueness, told apart by who wrote the definition (§3.3 / §3.13; the built-in definitions are data of
    the resolved document, recognisable by the `builtin` flag of the position of their name). These are the
    statements `check_unique_names` (fix 8cdbacf) is measured against; they are not part of the rule table. -/

/-- (name, position of the name) of every type definition, in document order -/
def typeIdents (T : TsDoc) : List (Name × Pos) := (typeDefs T).map fun t => (t.name, t.namePos)
/-- (name, position of the name) of every directive definition, in document order -/
def directiveIdents (T : TsDoc) : List (Name × Pos) := (directiveDefs T).map fun d => (d.name, d.namePos)

/-- names of the definitions written by the user (name not at a built-in position) -/
def userNames (l : List (Name × Pos)) : List Name := (l.filter fun x => !x.2.builtin).map (·.1)
/-- names of the definitions at built-in positions -/
def builtinNames (l : List (Name × Pos)) : List Name := (l.filter fun x => x.2.builtin).map (·.1)

/-- no two user type definitions (of whatever kinds) share a name -/
def userTypeNamesUnique (T : TsDoc) : Bool := noDup (userNames (typeIdents T))
/-- no user type definition takes the name of a built-in-position type definition (`Int`, `Float`, …) -/
def builtinTypeNamesNotTaken (T : TsDoc) : Bool :=
  (userNames (typeIdents T)).all fun n => !(builtinNames (typeIdents T)).contains n
/-- the built-in-position type definitions have pairwise distinct names (a fact about the constant list
    `generate_builtins()`, not about the user's input) -/
def builtinTypeNamesDistinct (T : TsDoc) : Bool := noDup (builtinNames (typeIdents T))
/-- no two user directive definitions share a name (re-declaring a built-in directive is not covered) -/
def userDirectiveNamesUnique (T : TsDoc) : Bool := noDup (userNames (directiveIdents T))

/-- no built-in-position identifier precedes a user identifier of the same name -/
def builtinsLast : List (Name × Pos) → Bool
  | [] => true
  | x :: xs => (!x.2.builtin || xs.all fun y => !(y.1 == x.1 && !y.2.builtin)) && builtinsLast xs

/-- no built-in-position directive definition precedes a user definition of the same directive (the CLI appends the
    built-ins after the user's definitions and `resolve_schema_extensions` keeps directive definitions in order) -/
def builtinDirectivesLast (T : TsDoc) : Bool := builtinsLast (directiveIdents T)
/-- the built-in-position directive definitions have pairwise distinct names (a fact about `generate_builtins()`) -/
def builtinDirectiveNamesDistinct (T : TsDoc) : Bool := noDup (builtinNames (directiveIdents T))
/-- no user directive definition re-declares a built-in-position directive (`@skip`, `@include`, `@deprecated`, …) -/
def builtinDirectivesNotRedeclared (T : TsDoc) : Bool :=
  (userNames (directiveIdents T)).all fun n => !(builtinNames (directiveIdents T)).contains n

/-! ### type references are defined -/

/-- every named type referenced inside a type or directive definition — field, argument and input-field
    types, implemented interfaces, union members — is defined -/
def knownTypeRefs (T : TsDoc) : Bool :=
  let S : Schema := ⟨T⟩
  (typeDefs T).all (fun t =>
    (fieldsOfT t).all (fun f => known S f.ty.unwrapped) &&
    (implementsOfT t).all (fun i => known S i.1) &&
    (membersOfT t).all (fun m => known S m.1)) &&
  (inputValues T).all (fun v => known S v.ty.unwrapped)

/-- §3.3.1: the root operation types named by a schema definition are defined -/
def knownRootTypes (T : TsDoc) : Bool :=
  (schemaDefs T).all (fun s => s.roots.all fun r => known ⟨T⟩ r.2.1)

/-- every named type that is referenced is defined -/
def knownTypes (T : TsDoc) : Bool := knownTypeRefs T && knownRootTypes T

/-! ### input / output positions (§3.4.2 IsInputType / IsOutputType) -/

/-- fields of object and interface types return output types (no input object) -/
def outputPositions (T : TsDoc) : Bool :=
  let S : Schema := ⟨T⟩
  (typeDefs T).all fun t => (fieldsOfT t).all fun f =>
    match S.kindOf? f.ty.unwrapped with
    | some k => k != .input
    | none => true

/-- arguments (of fields and of directives) and input-object fields accept input types
    (scalar, enum, input object) -/
def inputPositions (T : TsDoc) : Bool :=
  let S : Schema := ⟨T⟩
  (inputValues T).all fun v =>
    match S.kindOf? v.ty.unwrapped with
    | some k => k == .scalar || k == .enum || k == .input
    | none => true

/-! ### implementing interfaces (§3.6 Objects / §3.7 Interfaces, type validation + IsValidImplementation) -/

/-- the interfaces `t` says it implements, with their definitions (those that are defined interfaces) -/
def implementedIfaces (S : Schema) (t : TypeDef) : List TypeDef :=
  (implementsOfT t).filterMap fun i =>
    match S.typeDef? i.1 with
    | some d => if d.kind == .interface then some d else none
    | none => none

/-- "An object type may declare that it implements one or more unique interfaces" — every implemented
    name that is defined is an interface type -/
def implementsInterfaces (T : TsDoc) : Bool :=
  let S : Schema := ⟨T⟩
  (typeDefs T).all fun t => (implementsOfT t).all fun i =>
    match S.kindOf? i.1 with
    | some k => k == .interface
    | none => true

/-- "An interface type may not implement itself" -/
def noSelfImplements (T : TsDoc) : Bool :=
  (typeDefs T).all fun t => t.kind != .interface || t.implements.all fun i => i.1 != t.name

/-- IsValidImplementation 1: "If implementedType declares it implements any interfaces, type must also
    declare it implements those interfaces" -/
def transitiveInterfaces (T : TsDoc) : Bool :=
  let S : Schema := ⟨T⟩
  (typeDefs T).all fun t => (implementedIfaces S t).all fun i =>
    i.implements.all fun j => (implementsOfT t).any (·.1 == j.1)

/-- IsValidImplementation 2: "type must include a field of the same name for every field defined in
    implementedType" -/
def ifaceFieldsPresent (T : TsDoc) : Bool :=
  let S : Schema := ⟨T⟩
  (typeDefs T).all fun t => (implementedIfaces S t).all fun i =>
    i.fields.all fun impF => (fieldsOfT t).any (·.name == impF.name)

/-- IsSubType(possibleSubType, superType) -/
def isSubTypeSpec (S : Schema) (sub sup : Name) : Bool :=
  sub == sup ||
  (match S.typeDef? sub, S.typeDef? sup with
   | some sd, some pd =>
     ((sd.kind == .object || sd.kind == .interface) && pd.kind == .interface &&
        sd.implements.any (·.1 == sup)) ||
     (sd.kind == .object && pd.kind == .union && pd.members.any (·.1 == sub))
   | _, _ => false)

/-- IsValidImplementationFieldType(fieldType, implementedFieldType) -/
def validImplFieldType (S : Schema) : GType → GType → Bool
  | .nonNull a, .nonNull b => validImplFieldType S a b
  | .nonNull a, b => validImplFieldType S a b
  | .list a _, .list b _ => validImplFieldType S a b
  | .named a _, .named b _ => isSubTypeSpec S a b
  | _, _ => false

/-- the (first) field of `t` with the name of an interface field, paired with that interface field -/
def implPairs (S : Schema) (t : TypeDef) : List (FieldDef × FieldDef) :=
  (implementedIfaces S t).flatMap fun i => i.fields.filterMap fun impF =>
    ((fieldsOfT t).find? (·.name == impF.name)).map fun f => (f, impF)

/-- IsValidImplementation 2.e: "field must return a type which is equal to or a sub-type of (covariant)
    the return type of implementedField" -/
def ifaceFieldsCovariant (T : TsDoc) : Bool :=
  let S : Schema := ⟨T⟩
  (typeDefs T).all fun t => (implPairs S t).all fun p => validImplFieldType S p.1.ty p.2.ty

/-- same type, positions ignored -/
def sameType : GType → GType → Bool
  | .named a _, .named b _ => a == b
  | .list a _, .list b _ => sameType a b
  | .nonNull a, .nonNull b => sameType a b
  | _, _ => false

/-- an argument is required if its type is non-null and it has no default value (§5.4.2.1) -/
def requiredArg (a : InputValueDef) : Bool := a.ty.isNonNull && a.default.isNone

/-- IsValidImplementation 2.c/2.d: every argument of the interface field exists on the field with the same
    type (invariant); additional arguments must not be required -/
def ifaceFieldArgs (T : TsDoc) : Bool :=
  let S : Schema := ⟨T⟩
  (typeDefs T).all fun t => (implPairs S t).all fun p =>
    p.2.args.all (fun ia =>
      match p.1.args.find? (·.name == ia.name) with
      | some fa => sameType fa.ty ia.ty
      | none => false) &&
    p.1.args.all (fun fa => p.2.args.any (·.name == fa.name) || !requiredArg fa)

/-! ### unions (§3.8: "The member types of a Union type must all be Object base types") -/

def unionMembersObjects (T : TsDoc) : Bool :=
  let S : Schema := ⟨T⟩
  (typeDefs T).all fun t => (membersOfT t).all fun m =>
    match S.kindOf? m.1 with
    | some k => k == .object
    | none => true

/-! ### directive applications (§3.13 + §5.7.1–5.7.3, §5.4, §5.6 on constant values) -/

def specLocation : TypeKind → String
  | .scalar => "SCALAR" | .object => "OBJECT" | .interface => "INTERFACE"
  | .union => "UNION" | .enum => "ENUM" | .input => "INPUT_OBJECT"

/-- every place of a type-system document where directives can be applied: (location, the directives) -/
def dirSites (T : TsDoc) : List (String × List Directive) :=
  T.flatMap fun
    | .schemaDef s => [("SCHEMA", s.dirs)]
    | .typeDef t =>
      (specLocation t.kind, t.dirs) ::
      ((fieldsOfT t).flatMap fun f =>
        ("FIELD_DEFINITION", f.dirs) :: f.args.map fun a => ("ARGUMENT_DEFINITION", a.dirs)) ++
      (valuesOfT t).map (fun v => ("ENUM_VALUE", v.dirs)) ++
      (inputsOfT t).map (fun f => ("INPUT_FIELD_DEFINITION", f.dirs))
    | .directiveDef d => d.args.map fun a => ("ARGUMENT_DEFINITION", a.dirs)
    | _ => []

/-- 5.7.1 Directives Are Defined -/
def directivesDefined (T : TsDoc) : Bool :=
  (dirSites T).all fun s => s.2.all fun d => ((Schema.mk T).directiveDef? d.name).isSome

/-- 5.7.2 Directives Are In Valid Locations -/
def directivesLocated (T : TsDoc) : Bool :=
  (dirSites T).all fun s => s.2.all fun d =>
    match (Schema.mk T).directiveDef? d.name with
    | some df => df.locations.contains s.1
    | none => true

/-- 5.7.3 Directives Are Unique Per Location (unless `repeatable`) -/
def directivesUnique (T : TsDoc) : Bool :=
  (dirSites T).all fun s => s.2.all fun d =>
    match (Schema.mk T).directiveDef? d.name with
    | some df => df.repeatable || (s.2.filter (·.name == d.name)).length ≤ 1
    | none => true

def stripNN : GType → GType
  | .nonNull t => stripNN t
  | t => t

def builtinScalar (n : Name) : Bool :=
  n == "Int" || n == "Float" || n == "String" || n == "Boolean" || n == "ID"

/-- input coercion of a *leaf* literal (not a list, not null, not a variable) for the named type `n`
    (§3.5.1–3.5.5 built-in scalars incl. Int → Float and Int → ID, §3.5 custom scalars, §3.9 enums);
    input objects are handled in `valueOk`. §3.5.1: an `Int` input is an integer whose value lies in `[-2^31, 2^31)`
    (`Spec/IntLit.lean`); `Float` and `ID` accept an integer literal of any size -/
def scalarLeafOk (n : Name) (v : Value) : Bool :=
  if n == "Int" then (match v with | .int s _ => SpecInt.intTextInRange s | _ => false)
  else if n == "Float" then (match v with | .int .. | .float .. => true | _ => false)
  else if n == "String" then (match v with | .str .. => true | _ => false)
  else if n == "Boolean" then (match v with | .bool .. => true | _ => false)
  else if n == "ID" then (match v with | .str .. | .int .. => true | _ => false)
  else true

def leafOk (S : Schema) (n : Name) (v : Value) : Bool :=
  match S.typeDef? n with
  | none => false
  | some td =>
    match td.kind with
    | .scalar => scalarLeafOk n v
    | .enum => (match v with | .enum e _ => td.values.any (·.name == e) | _ => false)
    | _ => false

mutual
/-- "values of correct type" for a constant literal (§5.6.1, with the input coercion rules of §3:
    null only for nullable types, item → list of one item (§3.11), input objects (§3.10: every field
    defined, no field twice, every required field present)) -/
def valueOk (S : Schema) : Value → GType → Bool
  | .var _ _, _ => false
  | .null _, ty => !ty.isNonNull
  | .list vs _, ty =>
    match stripNN ty with
    | .list inner _ => valueOkList S vs inner
    | .named n _ => (S.kindOf? n == some .scalar) && !builtinScalar n
    | .nonNull _ => false
  | .obj fs p, ty =>
    match S.typeDef? ty.unwrapped with
    | none => false
    | some td =>
      match td.kind with
      | .input =>
        noDup (fs.map (·.1)) &&
        td.inputs.all (fun ef => fs.any (·.1 == ef.name) || !(ef.ty.isNonNull && ef.default.isNone)) &&
        fieldsOk S fs td.inputs
      | _ => leafOk S ty.unwrapped (.obj [] p)
  | v, ty => leafOk S ty.unwrapped v
def valueOkList (S : Schema) : List Value → GType → Bool
  | [], _ => true
  | v :: vs, ty => valueOk S v ty && valueOkList S vs ty
/-- every field of the literal is defined and its value fits the field's type -/
def fieldsOk (S : Schema) : List (Name × Pos × Value) → List InputValueDef → Bool
  | [], _ => true
  | (k, _, v) :: r, defs =>
    (match defs.find? (·.name == k) with
     | some ef => valueOk S v ef.ty
     | none => false) && fieldsOk S r defs
end

/-- 5.4.1 argument names, 5.4.2.1 required arguments, 5.6.1 values of correct type — for one application -/
def directiveArgsOk (S : Schema) (df : DirectiveDef) (d : Directive) : Bool :=
  d.args.all (fun a =>
    match df.args.find? (·.name == a.1) with
    | some ad => valueOk S a.2.2 ad.ty
    | none => false) &&
  df.args.all (fun ad => d.args.any (·.1 == ad.name) || !requiredArg ad)

/-- 5.4.2 Argument Uniqueness: no application gives one argument twice -/
def directiveArgNamesUnique (T : TsDoc) : Bool :=
  (dirSites T).all fun s => s.2.all fun d => noDup (d.args.map (·.1))

def directiveArgs (T : TsDoc) : Bool :=
  (dirSites T).all fun s => s.2.all fun d =>
    match (Schema.mk T).directiveDef? d.name with
    | some df => directiveArgsOk ⟨T⟩ df d
    | none => true

/-! ### directive definitions must not be recursive (§3.13: "A directive definition must not contain the
    use of a directive which references itself directly [or] indirectly by referencing a Type or Directive
    which transitively includes a reference to this directive") -/

inductive Node where
  | dir (n : Name)
  | ty (n : Name)
  deriving DecidableEq, Repr

/-- all directives applied anywhere inside a type definition -/
def dirsWithin (t : TypeDef) : List Directive :=
  t.dirs ++ (fieldsOfT t).flatMap (fun f => f.dirs ++ f.args.flatMap (·.dirs)) ++
  (valuesOfT t).flatMap (·.dirs) ++ (inputsOfT t).flatMap (·.dirs)

/-- what a definition references: a directive definition references the directives applied to its
    arguments and the types of its arguments; a type references the directives applied inside it and the
    types of its input fields -/
def refs (S : Schema) : Node → List Node
  | .dir n =>
    match S.directiveDef? n with
    | none => []
    | some d => d.args.flatMap fun a => a.dirs.map (fun x => Node.dir x.name) ++ [Node.ty a.ty.unwrapped]
  | .ty n =>
    match S.typeDef? n with
    | none => []
    | some t => (dirsWithin t).map (fun x => Node.dir x.name) ++ (inputsOfT t).map (fun f => Node.ty f.ty.unwrapped)

/-- "transitively includes a reference": at least one step along `refs` -/
inductive SpecReaches (S : Schema) : Node → Node → Prop where
  | step {a b : Node} : b ∈ refs S a → SpecReaches S a b
  | cons {a b c : Node} : b ∈ refs S a → SpecReaches S b c → SpecReaches S a c

/-- the recursion rule as a relation: no directive definition transitively references itself -/
def NoSpecRecursion (T : TsDoc) : Prop :=
  ∀ d ∈ directiveDefs T, ¬ SpecReaches ⟨T⟩ (.dir d.name) (.dir d.name)

def insertNew : List Node → List Node → List Node
  | acc, [] => acc
  | acc, n :: ns => if acc.contains n then insertNew acc ns else insertNew (acc ++ [n]) ns

/-- `k` rounds of "add everything referenced by what we have" -/
def closure (S : Schema) : Nat → List Node → List Node
  | 0, V => V
  | k + 1, V => closure S k (insertNew V (V.flatMap (refs S)))

/-- the nodes reachable from `start` in at least one step (`|T| + 1` rounds reach every defined node) -/
def reachable (T : TsDoc) (start : Node) : List Node :=
  closure ⟨T⟩ (T.length + 1) (insertNew [] (refs ⟨T⟩ start))

def noRecursiveDirectives (T : TsDoc) : Bool :=
  (directiveDefs T).all fun d => !(reachable T (.dir d.name)).contains (.dir d.name)

/-! ### the rule table -/

/-- (rule id, predicate); the ids are the labels of the harness' mutations -/
def rules : List (String × (TsDoc → Bool)) :=
  [("reserved-names", reservedNames),
   ("dup-fields", uniqueFields), ("dup-args", uniqueArgs), ("dup-enum-values", uniqueEnumValues),
   ("dup-union-members", uniqueUnionMembers), ("dup-type-defs", uniqueTypeDefs),
   ("unknown-types", knownTypes),
   ("input-in-output", outputPositions), ("output-in-input", inputPositions),
   ("implements-non-interface", implementsInterfaces), ("implements-self", noSelfImplements),
   ("missing-transitive", transitiveInterfaces),
   ("iface-field-missing", ifaceFieldsPresent), ("iface-field-type", ifaceFieldsCovariant),
   ("iface-field-args", ifaceFieldArgs),
   ("union-member-non-object", unionMembersObjects),
   ("directive-unknown", directivesDefined), ("directive-location", directivesLocated),
   ("directive-repeated", directivesUnique), ("directive-args", directiveArgs),
   ("directive-recursion", noRecursiveDirectives),
   ("unique-type-names", uniqueTypeNames), ("unique-directive-names", uniqueDirectiveNames),
   ("directive-arg-names-unique", directiveArgNamesUnique)]

def violated (T : TsDoc) : List String := (rules.filter fun r => !r.2 T).map (·.1)

/-- valid under every rule above -/
def tsSpecValid (T : TsDoc) : Bool :=
  reservedNames T && uniqueFields T && uniqueArgs T && uniqueEnumValues T && uniqueUnionMembers T &&
  uniqueTypeDefs T && knownTypes T && outputPositions T && inputPositions T && implementsInterfaces T &&
  noSelfImplements T && transitiveInterfaces T && ifaceFieldsPresent T && ifaceFieldsCovariant T &&
  ifaceFieldArgs T && unionMembersObjects T && directivesDefined T && directivesLocated T &&
  directivesUnique T && directiveArgs T && noRecursiveDirectives T && uniqueTypeNames T &&
  uniqueDirectiveNames T && directiveArgNamesUnique T

end NitroVerif.ValidTs
