/-
Reference validator for executable documents, written from the GraphQL specification (October 2021, §5
"Validation") — independently of the checker's recursion scheme: every rule quantifies over ALL selection
sets / directive applications / argument lists of the document (fragment definitions included, whether or
not anybody spreads them), collected first into flat lists (`allCtxs`, `dirSites`, `argSites`, `typedValues`),
and is then a plain `List.all` over those lists. Per-operation rules (variables) follow fragment spreads
through a reachability closure (`reachable`), not through a stack walk.

  rule id      spec section
  5.2.1.1      Operation Name Uniqueness            5.5.1.1  Fragment Name Uniqueness
  5.2.2.1      Lone Anonymous Operation             5.5.1.2  Fragment Spread Type Existence
  5.2.3.1      Single Root Field (subscriptions)    5.5.1.3  Fragments on Composite Types
  5.3.1        Field Selections                     5.5.2.1  Fragment Spread Target Defined
  5.3.3        Leaf Field Selections                5.5.2.2  Fragment Spreads Must Not Form Cycles
  5.4.1        Argument Names (+ 5.4.2 Uniqueness)  5.5.2.3  Fragment Spread Is Possible
  5.4.2.1      Required Arguments                   5.7.1    Directives Are Defined
  5.6.1        Values of Correct Type               5.7.2    Directives Are in Valid Locations
  5.6.2        Input Object Field Names             5.7.3    Directives Are Unique per Location
  5.6.3        Input Object Field Uniqueness        5.8.1    Variable Uniqueness
  5.6.4        Input Object Required Fields         5.8.2    Variables Are Input Types
                                                    5.8.3    All Variable Uses Defined
                                                    5.8.5    All Variable Usages Are Allowed
  additional rules of `SpecValid` (not implemented by nitrogql, needed for "valid under the specification"):
  5.2.3.1b (no introspection root field in a subscription), 5.3.2 (field merging — a *sufficient* document-wide
  check), 5.5.1.4 (fragments must be used), 5.8.4 (all variables used).

`kindsOf` is the rule ↔ diagnostic-kind table (DESIGN Appendix C, final version).
Core Lean only; structurally recursive (kernel-evaluable).
-/
import NitroVerif.Gql.Schema
import NitroVerif.Gen.ErrKinds
import NitroVerif.Spec.IntLit
namespace NitroVerif.Valid
open NitroVerif.Gql

/-! ### schema view -/

def typenameMeta : FieldDef := { name := "__typename", ty := .nonNull (.named "String" { builtin := true }) }

/-- the field `fname` of the type `parent` in scope (spec 5.3.1: object / interface fields, and the
    `__typename` meta field on object, interface and union types) -/
def fieldDef? (S : Schema) (parent fname : Name) : Option FieldDef :=
  match S.typeDef? parent with
  | some td =>
    match td.kind with
    | .object | .interface => if fname == "__typename" then some typenameMeta else td.fields.find? (·.name == fname)
    | .union => if fname == "__typename" then some typenameMeta else none
    | _ => none
  | none => none

def isLeafKind : TypeKind → Bool
  | .scalar | .enum => true
  | _ => false
def isCompositeKind : TypeKind → Bool
  | .object | .interface | .union => true
  | _ => false

def nodupB : List Name → Bool
  | [] => true
  | x :: xs => !xs.contains x && nodupB xs

def dedup (xs : List Name) : List Name :=
  xs.foldl (fun acc x => if acc.contains x then acc else acc ++ [x]) []

/-! ### flat views of a document -/

def frags (D : Doc) : List FragmentDef := D.filterMap fun | .frag f => some f | _ => none
def ops (D : Doc) : List OperationDef := D.filterMap fun | .op o => some o | _ => none
def frag? (D : Doc) (n : Name) : Option FragmentDef := (frags D).find? (·.name == n)

/-- a selection set together with the type in scope (`none` when the type in scope cannot be determined
    because an enclosing field is not defined) -/
structure Ctx where
  parent : Option Name
  sels : List Selection
  deriving Inhabited

mutual
/-- the selection sets nested inside one selection -/
def ctxsOfSel (S : Schema) (parent : Option Name) : Selection → List Ctx
  | .field _ name _ _ _ (some ss) =>
    let p := parent.bind fun t => (fieldDef? S t name).map (·.ty.unwrapped)
    ⟨p, ss⟩ :: ctxsOfSels S p ss
  | .field _ _ _ _ _ none => []
  | .spread .. => []
  | .inline (some (c, _)) _ ss _ => ⟨some c, ss⟩ :: ctxsOfSels S (some c) ss
  | .inline none _ ss _ => ⟨parent, ss⟩ :: ctxsOfSels S parent ss
def ctxsOfSels (S : Schema) (parent : Option Name) : List Selection → List Ctx
  | [] => []
  | s :: ss => ctxsOfSel S parent s ++ ctxsOfSels S parent ss
end

/-- a selection set and everything nested in it -/
def ctxsOfRoot (S : Schema) (parent : Name) (ss : List Selection) : List Ctx :=
  ⟨some parent, ss⟩ :: ctxsOfSels S (some parent) ss

def ctxsOfDef (S : Schema) : ExecDef → List Ctx
  | .op o => ctxsOfRoot S (S.rootName o.kind) o.sel
  | .frag f => ctxsOfRoot S f.cond f.sel
  | .imp _ => []

/-- every selection set of the document -/
def allCtxs (S : Schema) (D : Doc) : List Ctx := D.flatMap (ctxsOfDef S)

/-- the selections of all selection sets (each selection of the document exactly once) with their type in scope -/
def allSels (cs : List Ctx) : List (Option Name × Selection) :=
  cs.flatMap fun c => c.sels.map fun s => (c.parent, s)

/-! ### directive applications -/

def selDirSite : Selection → String × List Directive
  | .field _ _ _ _ dirs _ => ("FIELD", dirs)
  | .spread _ _ dirs _ => ("FRAGMENT_SPREAD", dirs)
  | .inline _ dirs _ _ => ("INLINE_FRAGMENT", dirs)

def opLocation : OpKind → String
  | .query => "QUERY" | .mutation => "MUTATION" | .subscription => "SUBSCRIPTION"

/-- directive applications on the definition itself (operation + its variable definitions / fragment definition) -/
def defDirSites : ExecDef → List (String × List Directive)
  | .op o => (opLocation o.kind, o.dirs) :: o.vars.map fun v => ("VARIABLE_DEFINITION", v.dirs)
  | .frag f => [("FRAGMENT_DEFINITION", f.dirs)]
  | .imp _ => []

def ctxDirSites (cs : List Ctx) : List (String × List Directive) :=
  (allSels cs).map fun ps => selDirSite ps.2

/-- every location of the document where directives may be applied, with the directives applied there -/
def dirSites (S : Schema) (D : Doc) : List (String × List Directive) :=
  D.flatMap defDirSites ++ ctxDirSites (allCtxs S D)

/-! ### argument lists -/

/-- an argument list together with the argument definitions it is checked against -/
structure ArgSite where
  args : List Arg
  defs : List InputValueDef

def fieldArgSites (S : Schema) (cs : List Ctx) : List ArgSite :=
  (allSels cs).filterMap fun
    | (some t, .field _ name _ args _ _) => (fieldDef? S t name).map fun fd => ⟨args, fd.args⟩
    | _ => none

def dirArgSites (S : Schema) (sites : List (String × List Directive)) : List ArgSite :=
  sites.flatMap fun site => site.2.filterMap fun d => (S.directiveDef? d.name).map fun dd => ⟨d.args, dd.args⟩

def argSites (S : Schema) (D : Doc) : List ArgSite :=
  fieldArgSites S (allCtxs S D) ++ dirArgSites S (dirSites S D)

/-- a value with the type expected at its position and whether that position has a default value -/
structure TypedValue where
  value : Value
  ty : GType
  locDefault : Bool

def typedValuesOf (sites : List ArgSite) : List TypedValue :=
  sites.flatMap fun s => s.args.filterMap fun a =>
    (s.defs.find? (·.name == a.1)).map fun d => ⟨a.2.2, d.ty, d.default.isSome⟩

/-! ### input coercion of literals (spec §3.5 – §3.12 "Input Coercion", §5.6) -/

def stripNonNull : GType → GType
  | .nonNull t => stripNonNull t
  | t => t

def isBuiltinScalar (n : Name) : Bool :=
  n == "Int" || n == "Float" || n == "String" || n == "Boolean" || n == "ID"

/-- a literal that is neither a variable, `null`, a list nor an object, against a named type.
    `Int` (§3.5.1 input coercion): an integer literal whose value lies in `[-2^31, 2^31)` (`Spec/IntLit.lean`);
    `Float` (§3.5.2) and `ID` (§3.5.5) accept an integer literal of any size -/
def leafCoercible (S : Schema) (v : Value) (n : Name) : Bool :=
  match S.typeDef? n with
  | none => false
  | some td =>
    match td.kind with
    | .scalar =>
      if n == "Int" then (match v with | .int s _ => SpecInt.intTextInRange s | _ => false)
      else if n == "Float" then (match v with | .int .. => true | .float .. => true | _ => false)
      else if n == "String" then (match v with | .str .. => true | _ => false)
      else if n == "Boolean" then (match v with | .bool .. => true | _ => false)
      else if n == "ID" then (match v with | .str .. => true | .int .. => true | _ => false)
      else true
    | .enum => (match v with | .enum m _ => td.values.any (·.name == m) | _ => false)
    | _ => false

mutual
/-- rule ids (5.6.1 – 5.6.4) violated inside the literal `v` expected to have type `t`.
    A non-null, non-list literal for a list type is coerced as a single item (recursively through nested
    lists), and non-null markers are transparent for a non-null literal, so such a literal is checked against
    the innermost named type `t.unwrapped`. -/
def valueIssues (S : Schema) : Value → GType → List String
  | .var .., _ => []
  | .null _, t => if t.isNonNull then ["5.6.1"] else []
  | .list vs _, t =>
    match stripNonNull t with
    | .list inner _ => valueIssuesList S vs inner
    | .named n _ =>
      (match S.typeDef? n with
       | some td => if td.kind == .scalar && !isBuiltinScalar n then [] else ["5.6.1"]
       | none => ["5.6.1"])
    | .nonNull _ => []
  | .obj fs _, t =>
    match S.typeDef? t.unwrapped with
    | some td =>
      if td.kind == .input then
        (if fs.all (fun f => td.inputs.any (·.name == f.1)) then [] else ["5.6.2"]) ++
        (if nodupB (fs.map (·.1)) then [] else ["5.6.3"]) ++
        (if td.inputs.all (fun d => !(d.ty.isNonNull && d.default.isNone) || fs.any (·.1 == d.name)) then [] else ["5.6.4"]) ++
        fieldIssues S fs td.inputs
      else if td.kind == .scalar && !isBuiltinScalar td.name then [] else ["5.6.1"]
    | none => ["5.6.1"]
  | v, t => if leafCoercible S v t.unwrapped then [] else ["5.6.1"]
def valueIssuesList (S : Schema) : List Value → GType → List String
  | [], _ => []
  | v :: vs, t => valueIssues S v t ++ valueIssuesList S vs t
def fieldIssues (S : Schema) : List (Name × Pos × Value) → List InputValueDef → List String
  | [], _ => []
  | (k, _, v) :: rest, defs =>
    (match defs.find? (·.name == k) with
     | some d => valueIssues S v d.ty
     | none => []) ++ fieldIssues S rest defs
end

/-- a variable usage: name, position, the type expected at the location, whether the location has a default -/
structure VarUse where
  name : Name
  pos : Pos
  locTy : GType
  locDefault : Bool

mutual
def varUses (S : Schema) : Value → GType → Bool → List VarUse
  | .var n p, t, d => [⟨n, p, t, d⟩]
  | .list vs _, t, _ =>
    (match stripNonNull t with
     | .list inner _ => varUsesList S vs inner
     | _ => [])
  | .obj fs _, t, _ =>
    (match S.typeDef? t.unwrapped with
     | some td => if td.kind == .input then varUsesFields S fs td.inputs else []
     | none => [])
  | _, _, _ => []
def varUsesList (S : Schema) : List Value → GType → List VarUse
  | [], _ => []
  | v :: vs, t => varUses S v t false ++ varUsesList S vs t
def varUsesFields (S : Schema) : List (Name × Pos × Value) → List InputValueDef → List VarUse
  | [], _ => []
  | (k, _, v) :: rest, defs =>
    (match defs.find? (·.name == k) with
     | some d => varUses S v d.ty d.default.isSome
     | none => []) ++ varUsesFields S rest defs
end

/-- spec `AreTypesCompatible(variableType, locationType)` -/
def areTypesCompatible : GType → GType → Bool
  | .nonNull v, .nonNull l => areTypesCompatible v l
  | .named _ _, .nonNull _ => false
  | .list _ _, .nonNull _ => false
  | .nonNull v, l => areTypesCompatible v l
  | .list v _, .list l _ => areTypesCompatible v l
  | .named _ _, .list _ _ => false
  | .list _ _, .named _ _ => false
  | .named v _, .named l _ => v == l

def isNullLit : Value → Bool
  | .null _ => true
  | _ => false

/-- `hasNonNullVariableDefaultValue`: a default value exists and is not the `null` literal -/
def hasNonNullVariableDefault (vd : VarDef) : Bool :=
  match vd.default with
  | some d => !isNullLit d
  | none => false

/-- spec `IsVariableUsageAllowed(variableDefinition, variableUsage)` -/
def usageAllowed (vd : VarDef) (u : VarUse) : Bool :=
  match u.locTy, vd.ty with
  | .nonNull nullableLoc, .named .. | .nonNull nullableLoc, .list .. =>
    if !hasNonNullVariableDefault vd && !u.locDefault then false
    else areTypesCompatible vd.ty nullableLoc
  | l, v => areTypesCompatible v l

/-! ### fragment reachability -/

mutual
/-- names of all fragment spreads anywhere inside a selection (through fields and inline fragments) -/
def spreadsDeepSel : Selection → List Name
  | .field _ _ _ _ _ (some ss) => spreadsDeep ss
  | .field _ _ _ _ _ none => []
  | .spread n _ _ _ => [n]
  | .inline _ _ ss _ => spreadsDeep ss
def spreadsDeep : List Selection → List Name
  | [] => []
  | s :: ss => spreadsDeepSel s ++ spreadsDeep ss
end

mutual
/-- names of the fragment spreads at the level of a selection set (through inline fragments, not through fields) -/
def spreadsFlatSel : Selection → List Name
  | .field .. => []
  | .spread n _ _ _ => [n]
  | .inline _ _ ss _ => spreadsFlat ss
def spreadsFlat : List Selection → List Name
  | [] => []
  | s :: ss => spreadsFlatSel s ++ spreadsFlat ss
end

/-- least set containing `start` and closed under `next` (iterated `fuel` times; `fuel` = number of fragment
    definitions + 1 suffices because every round that changes the set adds a defined fragment name) -/
def closure (next : Name → List Name) : Nat → List Name → List Name
  | 0, acc => acc
  | fuel + 1, acc => closure next fuel (dedup (acc ++ acc.flatMap next))

def reachFuel (D : Doc) : Nat := (frags D).length + 1

/-- fragments (names) reachable from a selection set through spreads at any depth -/
def reachable (D : Doc) (ss : List Selection) : List Name :=
  closure (fun n => match frag? D n with | some f => spreadsDeep f.sel | none => []) (reachFuel D) (dedup (spreadsDeep ss))

/-- fragments reachable from the top level of a selection set (spec `CollectFields`) -/
def reachableFlat (D : Doc) (ss : List Selection) : List Name :=
  closure (fun n => match frag? D n with | some f => spreadsFlat f.sel | none => []) (reachFuel D) (dedup (spreadsFlat ss))

mutual
/-- response keys of the fields at the level of a selection set (through inline fragments) -/
def keysFlatSel : Selection → List Name
  | .field (some (a, _)) _ _ _ _ _ => [a]
  | .field none n _ _ _ _ => [n]
  | .spread .. => []
  | .inline _ _ ss _ => keysFlat ss
def keysFlat : List Selection → List Name
  | [] => []
  | s :: ss => keysFlatSel s ++ keysFlat ss
end

mutual
def namesFlatSel : Selection → List Name
  | .field _ n _ _ _ _ => [n]
  | .spread .. => []
  | .inline _ _ ss _ => namesFlat ss
def namesFlat : List Selection → List Name
  | [] => []
  | s :: ss => namesFlatSel s ++ namesFlat ss
end

/-- the distinct response keys of spec `CollectFields(rootType, selectionSet, {})` -/
def rootKeys (D : Doc) (ss : List Selection) : List Name :=
  dedup (keysFlat ss ++ (reachableFlat D ss).flatMap fun n => match frag? D n with | some f => keysFlat f.sel | none => [])

def rootFieldNames (D : Doc) (ss : List Selection) : List Name :=
  namesFlat ss ++ (reachableFlat D ss).flatMap fun n => match frag? D n with | some f => namesFlat f.sel | none => []

/-! ### per-operation scope -/

/-- every selection set in the scope of an operation: its own and those of the fragments it reaches -/
def opCtxs (S : Schema) (D : Doc) (o : OperationDef) : List Ctx :=
  ctxsOfRoot S (S.rootName o.kind) o.sel ++
  (reachable D o.sel).flatMap fun n => match frag? D n with | some f => ctxsOfRoot S f.cond f.sel | none => []

def opDirSites (S : Schema) (D : Doc) (o : OperationDef) : List (String × List Directive) :=
  defDirSites (.op o) ++
  ((reachable D o.sel).flatMap fun n => match frag? D n with | some f => defDirSites (.frag f) | none => []) ++
  ctxDirSites (opCtxs S D o)

/-- every variable usage in the scope of an operation -/
def opVarUses (S : Schema) (D : Doc) (o : OperationDef) : List VarUse :=
  (typedValuesOf (fieldArgSites S (opCtxs S D o) ++ dirArgSites S (opDirSites S D o))).flatMap fun tv =>
    varUses S tv.value tv.ty tv.locDefault

/-! ### the rules -/

def opNames (D : Doc) : List Name := (ops D).filterMap fun o => o.name.map (·.1)

def rule_5_2_1_1 (_ : Schema) (D : Doc) : Bool := nodupB (opNames D)

def rule_5_2_2_1 (_ : Schema) (D : Doc) : Bool :=
  !(ops D).any (·.name.isNone) || (ops D).length == 1

def rule_5_2_3_1 (_ : Schema) (D : Doc) : Bool :=
  (ops D).all fun o => o.kind != .subscription || (rootKeys D o.sel).length == 1

def rule_5_2_3_1b (_ : Schema) (D : Doc) : Bool :=
  (ops D).all fun o => o.kind != .subscription || (rootFieldNames D o.sel).all (fun n => !n.startsWith "__")

def rule_5_3_1 (S : Schema) (D : Doc) : Bool :=
  (allSels (allCtxs S D)).all fun
    | (some t, .field _ name _ _ _ _) => (fieldDef? S t name).isSome
    | _ => true

def rule_5_3_3 (S : Schema) (D : Doc) : Bool :=
  (allSels (allCtxs S D)).all fun
    | (some t, .field _ name _ _ _ sel) =>
      (match fieldDef? S t name with
       | some fd =>
         (match S.kindOf? fd.ty.unwrapped with
          | some k =>
            if isLeafKind k then sel.isNone
            else if isCompositeKind k then sel.isSome   -- (the grammar makes a selection set non-empty)
            else true
          | none => true)
       | none => true)
    | _ => true

def rule_5_4_1 (S : Schema) (D : Doc) : Bool :=
  (argSites S D).all fun s => s.args.all fun a => s.defs.any (·.name == a.1)

def rule_5_4_2 (S : Schema) (D : Doc) : Bool :=
  (fieldArgSitesAll S D ++ dirArgSitesAll D).all fun as => nodupB (as.map (·.1))
where
  fieldArgSitesAll (S : Schema) (D : Doc) : List (List Arg) :=
    (allSels (allCtxs S D)).filterMap fun | (_, .field _ _ _ args _ _) => some args | _ => none
  dirArgSitesAll (D : Doc) : List (List Arg) :=
    (dirSites S D).flatMap fun s => s.2.map (·.args)

def rule_5_4_2_1 (S : Schema) (D : Doc) : Bool :=
  (argSites S D).all fun s => s.defs.all fun d =>
    !(d.ty.isNonNull && d.default.isNone) || s.args.any (·.1 == d.name)

/-- all values with an expected type: argument values of fields and directives, and variable default values -/
def typedValues (S : Schema) (D : Doc) : List TypedValue :=
  typedValuesOf (argSites S D) ++
  (ops D).flatMap fun o => o.vars.filterMap fun v => v.default.map fun d => ⟨d, v.ty, false⟩

def valueRule (tag : String) (S : Schema) (D : Doc) : Bool :=
  (typedValues S D).all fun tv => !(valueIssues S tv.value tv.ty).contains tag

def rule_5_6_1 := valueRule "5.6.1"
def rule_5_6_2 := valueRule "5.6.2"
def rule_5_6_3 := valueRule "5.6.3"
def rule_5_6_4 := valueRule "5.6.4"

def rule_5_8_1 (_ : Schema) (D : Doc) : Bool :=
  (ops D).all fun o => nodupB (o.vars.map (·.name))

def rule_5_8_2 (S : Schema) (D : Doc) : Bool :=
  (ops D).all fun o => o.vars.all fun v =>
    match S.kindOf? v.ty.unwrapped with
    | some k => Schema.isInputKind k
    | none => false

def rule_5_8_3 (S : Schema) (D : Doc) : Bool :=
  (ops D).all fun o => (opVarUses S D o).all fun u => o.vars.any (·.name == u.name)

def rule_5_8_4 (S : Schema) (D : Doc) : Bool :=
  (ops D).all fun o => o.vars.all fun v => (opVarUses S D o).any (·.name == v.name)

def rule_5_8_5 (S : Schema) (D : Doc) : Bool :=
  (ops D).all fun o => (opVarUses S D o).all fun u =>
    match o.vars.find? (·.name == u.name) with
    | some vd => usageAllowed vd u
    | none => true

def rule_5_5_1_1 (_ : Schema) (D : Doc) : Bool := nodupB ((frags D).map (·.name))

/-- the type conditions of the document: fragment definitions and inline fragments -/
def typeConditions (S : Schema) (D : Doc) : List Name :=
  (frags D).map (·.cond) ++
  (allSels (allCtxs S D)).filterMap fun | (_, .inline (some (c, _)) _ _ _) => some c | _ => none

def rule_5_5_1_2 (S : Schema) (D : Doc) : Bool :=
  (typeConditions S D).all fun c => (S.typeDef? c).isSome

def rule_5_5_1_3 (S : Schema) (D : Doc) : Bool :=
  (typeConditions S D).all fun c =>
    match S.kindOf? c with
    | some k => isCompositeKind k
    | none => true

def rule_5_5_1_4 (_ : Schema) (D : Doc) : Bool :=
  (frags D).all fun f => (ops D).any fun o => (reachable D o.sel).contains f.name

def rule_5_5_2_1 (S : Schema) (D : Doc) : Bool :=
  (allSels (allCtxs S D)).all fun
    | (_, .spread n _ _ _) => (frag? D n).isSome
    | _ => true

def rule_5_5_2_2 (_ : Schema) (D : Doc) : Bool :=
  (frags D).all fun f => !(reachable D f.sel).contains f.name

/-- spec `GetPossibleTypes(a) ∩ GetPossibleTypes(b) ≠ ∅`; a type always overlaps itself (the reading of the
    reference implementation `doTypesOverlap`: an interface without any implementing object type, which the
    specification does not forbid, can still be narrowed to itself) -/
def canApply (S : Schema) (scope cond : Name) : Bool :=
  !(S.isComposite scope && S.isComposite cond) || scope == cond ||
  (S.possibleTypes scope).any fun t => (S.possibleTypes cond).contains t

def rule_5_5_2_3 (S : Schema) (D : Doc) : Bool :=
  (allSels (allCtxs S D)).all fun
    | (some t, .spread n _ _ _) => (match frag? D n with | some f => canApply S t f.cond | none => true)
    | (some t, .inline (some (c, _)) _ _ _) => canApply S t c
    | _ => true

def rule_5_7_1 (S : Schema) (D : Doc) : Bool :=
  (dirSites S D).all fun s => s.2.all fun d => (S.directiveDef? d.name).isSome

def rule_5_7_2 (S : Schema) (D : Doc) : Bool :=
  (dirSites S D).all fun s => s.2.all fun d =>
    match S.directiveDef? d.name with
    | some dd => dd.locations.contains s.1
    | none => true

def rule_5_7_3 (S : Schema) (D : Doc) : Bool :=
  (dirSites S D).all fun s =>
    nodupB ((s.2.filter fun d => match S.directiveDef? d.name with | some dd => !dd.repeatable | none => true).map (·.name))

/-- a *sufficient* condition for 5.3.2 (Field Selection Merging): any two field selections of the document
    with the same response key select the same field name with the same arguments (positions ignored) and
    the same field type; then every pair the spec compares is mergeable, recursively -/
def rule_5_3_2 (S : Schema) (D : Doc) : Bool :=
  let fs := (allSels (allCtxs S D)).filterMap fun
    | (p, .field alias name _ args _ _) =>
      some ((match alias with | some (a, _) => a | none => name), name,
            Value.erasePos (.obj args {}),
            (p.bind fun t => fieldDef? S t name).map (·.ty.erasePos))
    | _ => none
  fs.all fun a => fs.all fun b =>
    a.1 != b.1 || (a.2.1 == b.2.1 && a.2.2.1 == b.2.2.1 && a.2.2.2 == b.2.2.2)

/-- rule id ↦ predicate -/
def ruleTable : List (String × (Schema → Doc → Bool)) := [
  ("5.2.1.1", rule_5_2_1_1), ("5.2.2.1", rule_5_2_2_1), ("5.2.3.1", rule_5_2_3_1),
  ("5.3.1", rule_5_3_1), ("5.3.3", rule_5_3_3),
  ("5.4.1", rule_5_4_1), ("5.4.2", rule_5_4_2), ("5.4.2.1", rule_5_4_2_1),
  ("5.6.1", rule_5_6_1), ("5.6.2", rule_5_6_2), ("5.6.3", rule_5_6_3), ("5.6.4", rule_5_6_4),
  ("5.8.1", rule_5_8_1), ("5.8.2", rule_5_8_2), ("5.8.3", rule_5_8_3), ("5.8.5", rule_5_8_5),
  ("5.5.1.1", rule_5_5_1_1), ("5.5.1.2", rule_5_5_1_2), ("5.5.1.3", rule_5_5_1_3),
  ("5.5.2.1", rule_5_5_2_1), ("5.5.2.2", rule_5_5_2_2), ("5.5.2.3", rule_5_5_2_3),
  ("5.7.1", rule_5_7_1), ("5.7.2", rule_5_7_2), ("5.7.3", rule_5_7_3)]

/-- the rules nitrogql implements (the list of the C03 statement) -/
def ImplementedRules : List String := ruleTable.map (·.1)

/-- the remaining rules of the specification -/
def extraRuleTable : List (String × (Schema → Doc → Bool)) := [
  ("5.2.3.1b", rule_5_2_3_1b), ("5.3.2", rule_5_3_2),
  ("5.5.1.4", rule_5_5_1_4), ("5.8.4", rule_5_8_4)]

def violated (tbl : List (String × (Schema → Doc → Bool))) (S : Schema) (D : Doc) : List String :=
  (tbl.filter fun r => !r.2 S D).map (·.1)

/-- `Holds r S D`: rule `r` of the table holds of document `D` against schema `S` -/
def Holds (r : String) (S : Schema) (D : Doc) : Prop :=
  ∀ f, (r, f) ∈ ruleTable ++ extraRuleTable → f S D = true

def specValidB (S : Schema) (D : Doc) : Bool :=
  (ruleTable ++ extraRuleTable).all fun r => r.2 S D

/-- valid under the specification (every rule above) -/
def SpecValid (S : Schema) (D : Doc) : Prop := specValidB S D = true

instance (S : Schema) (D : Doc) : Decidable (SpecValid S D) := inferInstanceAs (Decidable (_ = true))

/-- rule ↔ kinds of `CheckErrorMessage` that count as "a diagnostic of the kind belonging to the rule" -/
def kindsOf : String → List ErrKind
  | "5.2.1.1" => [.DuplicateOperationName]
  | "5.2.2.1" => [.UnNamedOperationMustBeSingle]
  | "5.2.3.1" => [.SubscriptionMustHaveExactlyOneRootField]
  | "5.3.1" => [.FieldNotFound, .SelectionOnInvalidType]
  | "5.3.3" => [.MustSpecifySelectionSet, .SelectionOnInvalidType]
  | "5.4.1" => [.UnknownArgument, .ArgumentsNotNeeded]
  | "5.4.2" => [.DuplicatedName]
  | "5.4.2.1" => [.RequiredArgumentNotSpecified]
  | "5.6.1" | "5.6.2" | "5.6.3" | "5.6.4" => [.TypeMismatch, .UnknownEnumMember]
  | "5.8.1" => [.DuplicatedVariableName]
  | "5.8.2" => [.NoOutputType, .UnknownType]
  | "5.8.3" => [.UnknownVariable]
  | "5.8.5" => [.TypeMismatch]
  | "5.5.1.1" => [.DuplicateFragmentName]
  | "5.5.1.2" => [.UnknownType]
  | "5.5.1.3" => [.InvalidFragmentTarget, .SelectionOnInvalidType]
  | "5.5.2.1" => [.UnknownFragment]
  | "5.5.2.2" => [.RecursingFragmentSpread]
  | "5.5.2.3" => [.FragmentConditionNeverMatches]
  | "5.7.1" => [.UnknownDirective]
  | "5.7.2" => [.DirectiveLocationNotAllowed]
  | "5.7.3" => [.RepeatedDirective]
  | _ => []

/-! ### schema sanity (the part of "the schema passed `check`" the theorems and the generators rely on) -/

/-- no type declares a field named `__typename` (part of "names starting with `__` are reserved") -/
def noReservedFieldsB (S : Schema) : Bool :=
  S.typeDefs.all fun t => t.fields.all fun f => f.name != "__typename"

/-- the names of the arguments of every field and directive, and of the fields of every input object, are
    pairwise different -/
def uniqueArgNamesB (S : Schema) : Bool :=
  S.typeDefs.all (fun t => nodupB (t.inputs.map (·.name)) && t.fields.all fun f => nodupB (f.args.map (·.name))) &&
  S.directiveDefs.all fun d => nodupB (d.args.map (·.name))

def schemaValidB (S : Schema) : Bool :=
  let tds := S.typeDefs
  noReservedFieldsB S && (uniqueArgNamesB S && (
  nodupB (tds.map (·.name)) &&
  nodupB (S.directiveDefs.map (·.name)) &&
  ["Int", "Float", "String", "Boolean", "ID"].all (fun n => S.kindOf? n == some .scalar) &&
  tds.all (fun t =>
    nodupB (t.fields.map (·.name)) && nodupB (t.inputs.map (·.name)) && nodupB (t.values.map (·.name)) &&
    t.fields.all (fun f =>
      (match S.kindOf? f.ty.unwrapped with | some k => Schema.isOutputKind k | none => false) &&
      nodupB (f.args.map (·.name)) &&
      f.args.all (fun a => match S.kindOf? a.ty.unwrapped with | some k => Schema.isInputKind k | none => false)) &&
    t.inputs.all (fun a => match S.kindOf? a.ty.unwrapped with | some k => Schema.isInputKind k | none => false) &&
    t.members.all (fun m => S.kindOf? m.1 == some .object) &&
    t.implements.all (fun i => S.kindOf? i.1 == some .interface)) &&
  S.directiveDefs.all (fun d => nodupB (d.args.map (·.name)) &&
    d.args.all (fun a => match S.kindOf? a.ty.unwrapped with | some k => Schema.isInputKind k | none => false)) &&
  [OpKind.query, .mutation, .subscription].all (fun k =>
    match S.typeDef? (S.rootName k) with
    | some t => t.kind == .object
    | none => k != .query)))

def SchemaValid (S : Schema) : Prop := schemaValidB S = true

instance (S : Schema) : Decidable (SchemaValid S) := inferInstanceAs (Decidable (_ = true))

end NitroVerif.Valid
