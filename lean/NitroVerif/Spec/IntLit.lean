/-
Spec §3.5.1 (Int), "Input Coercion": "When expected as an input type, only integer input values are accepted. […] If the
integer input value represents a value less than -2^31 or greater than or equal to 2^31, a request error should be
raised." 5.6.1 (Values of Correct Type) asks every literal to be coercible by these rules. `Float` (§3.5.2) and `ID`
(§3.5.5) accept an integer literal of any size.

Written from the specification, not from the checker: `intValue?` is the integer a text DENOTES (decimal notation: an
optional sign and at least one digit), `intTextInRange` says that this integer lies in `[-2^31, 2^31)`.
The grammar's `IntValue` is `-?(0|[1-9][0-9]*)`; texts the grammar cannot produce (a `+` sign, leading zeros) are
read by the usual decimal convention, a text that denotes no integer is not an Int input.
Core Lean only; structurally recursive (kernel-evaluable).
-/
namespace NitroVerif.SpecInt

/-- the decimal digit a character stands for -/
def digit? (c : Char) : Option Nat :=
  if 48 ≤ c.toNat && c.toNat ≤ 57 then some (c.toNat - 48) else none

/-- the natural number denoted by `cs` appended (in decimal notation) to the number `acc` -/
def digitsValue? : List Char → Nat → Option Nat
  | [], acc => some acc
  | c :: cs, acc =>
    match digit? c with
    | some d => digitsValue? cs (acc * 10 + d)
    | none => none

/-- one or more digits -/
def natValue? : List Char → Option Nat
  | [] => none
  | cs => digitsValue? cs 0

/-- the integer a text denotes: an optional sign followed by one or more decimal digits -/
def intValue? : List Char → Option Int
  | '-' :: ds => (natValue? ds).map fun n => -(n : Int)
  | '+' :: ds => (natValue? ds).map fun n => (n : Int)
  | ds => (natValue? ds).map fun n => (n : Int)

/-- the text of an integer literal denotes a value in `[-2^31, 2^31)` -/
def intTextInRange (s : String) : Bool :=
  match intValue? s.toList with
  | some i => decide (-2147483648 ≤ i) && decide (i ≤ 2147483647)
  | none => false

end NitroVerif.SpecInt
