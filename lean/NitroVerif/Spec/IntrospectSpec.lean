/-
Reference specification: the result of the standard introspection query for a schema (GraphQL spec, October 2021,
§4 "Introspection"; query text = graphql-js `getIntrospectionQuery` with every optional part switched on:
descriptions, `specifiedByURL`, directive `isRepeatable`, schema `description`, input-value deprecation,
`fields/args/inputFields/enumValues(includeDeprecated: true)`).

`introspectSpec M = encode (specSchema M)`:

* `specSchema` — the type system a service built from the (resolved, valid) document `M` exposes:
  - the named types of `M` in document order, then the built-in scalars that are REFERENCED (§3.5: "If a built-in
    scalar type is not referenced anywhere in a schema … it must not be included"; `String` and `Boolean` are always
    referenced because the introspection types and built-in directives use them), then the eight introspection
    types `__Schema … __DirectiveLocation` (§4.2 "Schema Introspection Schema");
  - the built-in directives `@skip @include @deprecated @specifiedBy` (§3.13) followed by `M`'s directives;
  - root operation types (§3.3.1): those of the schema definition if `M` has one, otherwise the object types named
    `Query` / `Mutation` / `Subscription` that exist;
  - `isDeprecated` / `deprecationReason` from `@deprecated` (default reason "No longer supported").
* `encode` — §4.2: `__Schema { description types queryType mutationType subscriptionType directives }`,
  `__Type` with the kind-specific fields (`fields` and `interfaces` for OBJECT and INTERFACE, `possibleTypes` for
  INTERFACE and UNION, `enumValues` for ENUM, `inputFields` for INPUT_OBJECT, all others `null`), wrapping types as
  `LIST` / `NON_NULL` with `ofType` nesting, default values as GraphQL-formatted strings.

The per-definition conversions (`convTypeDef`, `deprecationOf`, `display`) are shared with `Model/AstSchema`; the
independent second rendering of the same specification is the harness's `introspection_json` (Rust), which is
compared with this one on every generated case.
Core Lean only; structurally recursive.
-/
import NitroVerif.Base.Json
import NitroVerif.Gql.Ast
import NitroVerif.Model.SchemaIR
import NitroVerif.Model.AstSchema
namespace NitroVerif.IntrospectSpec
open NitroVerif NitroVerif.Gql NitroVerif.SchemaIR NitroVerif.AstSchema

/-! ### the type system of `M` per spec §3 -/

def userTypes (M : TsDoc) : List ITypeDef :=
  M.filterMap fun | .typeDef t => some (convTypeDef t) | _ => none

def userDirectives (M : TsDoc) : List IDirectiveDef :=
  M.filterMap fun | .directiveDef d => some (convDirectiveDef d) | _ => none

def schemaDefs (M : TsDoc) : List SchemaDef :=
  M.filterMap fun | .schemaDef d => some d | _ => none

def bool! : IType := .nonNull (.named "Boolean")
def str : IType := .named "String"
def str! : IType := .nonNull (.named "String")

/-- §3.13 -/
def builtinDirectives : List IDirectiveDef :=
  [ { name := "skip", locations := ["FIELD", "FRAGMENT_SPREAD", "INLINE_FRAGMENT"], args := [{ name := "if", ty := bool! }] },
    { name := "include", locations := ["FIELD", "FRAGMENT_SPREAD", "INLINE_FRAGMENT"], args := [{ name := "if", ty := bool! }] },
    { name := "deprecated",
      locations := ["FIELD_DEFINITION", "ARGUMENT_DEFINITION", "INPUT_FIELD_DEFINITION", "ENUM_VALUE"],
      args := [{ name := "reason", ty := str, default := some "\"No longer supported\"" }] },
    { name := "specifiedBy", locations := ["SCALAR"], args := [{ name := "url", ty := str! }] } ]

def named! (n : String) : IType := .nonNull (.named n)
def listOf! (n : String) : IType := .nonNull (.list (.nonNull (.named n)))
def listOf (n : String) : IType := .list (.nonNull (.named n))

def includeDeprecated : IInputValue := { name := "includeDeprecated", ty := .named "Boolean", default := some "false" }

/-- §4.2 "Schema Introspection Schema" -/
def introspectionTypes : List ITypeDef :=
  [ { kind := .object, name := "__Schema", fields := [
        { name := "description", ty := str }, { name := "types", ty := listOf! "__Type" },
        { name := "queryType", ty := named! "__Type" }, { name := "mutationType", ty := .named "__Type" },
        { name := "subscriptionType", ty := .named "__Type" }, { name := "directives", ty := listOf! "__Directive" } ] },
    { kind := .object, name := "__Type", fields := [
        { name := "kind", ty := named! "__TypeKind" }, { name := "name", ty := str }, { name := "description", ty := str },
        { name := "specifiedByURL", ty := str },
        { name := "fields", ty := listOf "__Field", args := [includeDeprecated] },
        { name := "interfaces", ty := listOf "__Type" }, { name := "possibleTypes", ty := listOf "__Type" },
        { name := "enumValues", ty := listOf "__EnumValue", args := [includeDeprecated] },
        { name := "inputFields", ty := listOf "__InputValue", args := [includeDeprecated] },
        { name := "ofType", ty := .named "__Type" } ] },
    { kind := .enum, name := "__TypeKind", members := [
        { name := "SCALAR" }, { name := "OBJECT" }, { name := "INTERFACE" }, { name := "UNION" }, { name := "ENUM" },
        { name := "INPUT_OBJECT" }, { name := "LIST" }, { name := "NON_NULL" } ] },
    { kind := .object, name := "__Field", fields := [
        { name := "name", ty := str! }, { name := "description", ty := str },
        { name := "args", ty := listOf! "__InputValue", args := [includeDeprecated] },
        { name := "type", ty := named! "__Type" }, { name := "isDeprecated", ty := bool! },
        { name := "deprecationReason", ty := str } ] },
    { kind := .object, name := "__InputValue", fields := [
        { name := "name", ty := str! }, { name := "description", ty := str }, { name := "type", ty := named! "__Type" },
        { name := "defaultValue", ty := str }, { name := "isDeprecated", ty := bool! },
        { name := "deprecationReason", ty := str } ] },
    { kind := .object, name := "__EnumValue", fields := [
        { name := "name", ty := str! }, { name := "description", ty := str }, { name := "isDeprecated", ty := bool! },
        { name := "deprecationReason", ty := str } ] },
    { kind := .object, name := "__Directive", fields := [
        { name := "name", ty := str! }, { name := "description", ty := str }, { name := "isRepeatable", ty := bool! },
        { name := "locations", ty := listOf! "__DirectiveLocation" },
        { name := "args", ty := listOf! "__InputValue", args := [includeDeprecated] } ] },
    { kind := .enum, name := "__DirectiveLocation", members := [
        { name := "QUERY" }, { name := "MUTATION" }, { name := "SUBSCRIPTION" }, { name := "FIELD" },
        { name := "FRAGMENT_DEFINITION" }, { name := "FRAGMENT_SPREAD" }, { name := "INLINE_FRAGMENT" },
        { name := "VARIABLE_DEFINITION" }, { name := "SCHEMA" }, { name := "SCALAR" }, { name := "OBJECT" },
        { name := "FIELD_DEFINITION" }, { name := "ARGUMENT_DEFINITION" }, { name := "INTERFACE" }, { name := "UNION" },
        { name := "ENUM" }, { name := "ENUM_VALUE" }, { name := "INPUT_OBJECT" }, { name := "INPUT_FIELD_DEFINITION" } ] } ]

def builtinScalarNames : List String := ["Int", "Float", "String", "Boolean", "ID"]

def ivRefs (v : IInputValue) : String := v.ty.unwrapped

/-- the named types a definition mentions in field / argument / input-field positions -/
def typeRefs (t : ITypeDef) : List String :=
  t.fields.flatMap (fun f => f.ty.unwrapped :: f.args.map ivRefs) ++ t.inputs.map ivRefs

def directiveRefs (d : IDirectiveDef) : List String := d.args.map ivRefs

/-- §3.5: the built-in scalars that are referenced (the introspection types and built-in directives count) -/
def referencedBuiltins (types : List ITypeDef) (dirs : List IDirectiveDef) : List ITypeDef :=
  let refs := types.flatMap typeRefs ++ dirs.flatMap directiveRefs
  (builtinScalarNames.filter fun b => refs.contains b).map fun b => { kind := .scalar, name := b }

/-- §3.3.1 default root operation type names apply when there is no schema definition -/
def defaultRoot (user : List ITypeDef) (n : String) : Option String :=
  if user.any (fun t => t.name == n && t.kind == .object) then some n else none

def specRoots (M : TsDoc) : Roots :=
  match schemaDefs M with
  | d :: _ => setRoots {} d.roots
  | [] =>
    let user := userTypes M
    { query := defaultRoot user "Query", mutation := defaultRoot user "Mutation",
      subscription := defaultRoot user "Subscription" }

def specDesc (M : TsDoc) : Option String :=
  match schemaDefs M with
  | d :: _ => d.desc
  | [] => none

def specSchema (M : TsDoc) : Schema :=
  let user := userTypes M
  let dirs := builtinDirectives ++ userDirectives M
  { desc := specDesc M,
    types := user ++ referencedBuiltins (user ++ introspectionTypes) dirs ++ introspectionTypes,
    directives := dirs,
    roots := specRoots M,
    explicitRoots := false }

/-- `@specifiedBy(url: "…")` of the scalar definitions of `M` -/
def specifiedByOf (dirs : List Directive) : Option String :=
  match dirs.find? (·.name == "specifiedBy") with
  | some d => match d.args.find? (·.1 == "url") with
    | some (_, _, .str s _) => some s
    | _ => none
  | none => none

def specifiedBy (M : TsDoc) (n : String) : Option String :=
  (M.findSome? fun
    | .typeDef t => if t.name == n && t.kind == .scalar then some (specifiedByOf t.dirs) else none
    | _ => none).bind id

/-! ### §4.2: rendering a type system as the introspection result -/

def kindStr : IKind → String
  | .scalar => "SCALAR" | .object => "OBJECT" | .interface => "INTERFACE"
  | .union => "UNION" | .enum => "ENUM" | .input => "INPUT_OBJECT"

/-- `__Type.kind` of a named type (a name without definition is rendered as SCALAR; does not occur for valid `M`) -/
def kindOfName (s : Schema) (n : String) : String :=
  match s.typeDef? n with
  | some t => kindStr t.kind
  | none => "SCALAR"

def optStrJ : Option String → Json
  | some s => .str s
  | none => .null

def encNamedRefKvs (s : Schema) (n : String) : List (String × Json) :=
  [("kind", .str (kindOfName s n)), ("name", .str n), ("ofType", .null)]

def encNamedRef (s : Schema) (n : String) : Json := .obj (encNamedRefKvs s n)

def encTypeKvs (s : Schema) : IType → List (String × Json)
  | .named n => encNamedRefKvs s n
  | .list t => [("kind", .str "LIST"), ("name", .null), ("ofType", .obj (encTypeKvs s t))]
  | .nonNull t => [("kind", .str "NON_NULL"), ("name", .null), ("ofType", .obj (encTypeKvs s t))]

def encType (s : Schema) (t : IType) : Json := .obj (encTypeKvs s t)

def encIV (s : Schema) (v : IInputValue) : Json :=
  .obj [("name", .str v.name), ("description", optStrJ v.desc), ("type", encType s v.ty),
        ("defaultValue", optStrJ v.default), ("isDeprecated", .bool v.deprecation.isSome),
        ("deprecationReason", optStrJ v.deprecation)]

def encField (s : Schema) (f : IField) : Json :=
  .obj [("name", .str f.name), ("description", optStrJ f.desc), ("args", .arr (f.args.map (encIV s))),
        ("type", encType s f.ty), ("isDeprecated", .bool f.deprecation.isSome),
        ("deprecationReason", optStrJ f.deprecation)]

def encMember (m : IEnumMember) : Json :=
  .obj [("name", .str m.name), ("description", optStrJ m.desc), ("isDeprecated", .bool m.deprecation.isSome),
        ("deprecationReason", optStrJ m.deprecation)]

/-- `possibleTypes` of an interface: the object types implementing it (in `types` order) -/
def possibleOf (s : Schema) (t : ITypeDef) : List String :=
  match t.kind with
  | .union => t.possible
  | .interface => s.objectImplementers t.name
  | _ => []

def encTypeDef (s : Schema) (url : String → Option String) (t : ITypeDef) : Json :=
  let hasFields := t.kind == .object || t.kind == .interface
  let abstract := t.kind == .union || t.kind == .interface
  .obj [("kind", .str (kindStr t.kind)), ("name", .str t.name), ("description", optStrJ t.desc),
        ("specifiedByURL", if t.kind == .scalar then optStrJ (url t.name) else .null),
        ("fields", if hasFields then .arr (t.fields.map (encField s)) else .null),
        ("inputFields", if t.kind == .input then .arr (t.inputs.map (encIV s)) else .null),
        ("interfaces", if hasFields then .arr (t.interfaces.map (encNamedRef s)) else .null),
        ("enumValues", if t.kind == .enum then .arr (t.members.map encMember) else .null),
        ("possibleTypes", if abstract then .arr ((possibleOf s t).map (encNamedRef s)) else .null)]

def encDirective (s : Schema) (d : IDirectiveDef) : Json :=
  .obj [("name", .str d.name), ("description", optStrJ d.desc), ("isRepeatable", .bool d.repeatable),
        ("locations", .arr (d.locations.map .str)), ("args", .arr (d.args.map (encIV s)))]

def encRoot : Option String → Json
  | some n => .obj [("name", .str n)]
  | none => .null

/-- the `data` of the introspection query's response -/
def encode (s : Schema) (url : String → Option String) : Json :=
  .obj [("__schema", .obj [
    ("description", optStrJ s.desc),
    ("queryType", encRoot s.roots.query),
    ("mutationType", encRoot s.roots.mutation),
    ("subscriptionType", encRoot s.roots.subscription),
    ("types", .arr (s.types.map (encTypeDef s url))),
    ("directives", .arr (s.directives.map (encDirective s)))])]

def introspectSpec (M : TsDoc) : Json := encode (specSchema M) (specifiedBy M)

end NitroVerif.IntrospectSpec
