/-
Reference semantics of GraphQL string literals (spec §2.9.4 "String Value"), over `List Char`:
* `specEscapeChar` / `specEscape`: a canonical way to write a character / a string inside a normal `"…"` literal;
* `blockStringValue`: the spec's `BlockStringValue(rawValue)` algorithm (common indentation removed from all lines
  but the first, leading and trailing blank lines removed, lines joined by U+000A); `blockRaw` undoes the one
  escape of block strings (`\"""` → `"""`).
Executable reference only (core Lean).
-/
namespace NitroVerif.Spec.Lex

/-- the two-character escapes of the spec -/
def simpleEscape? (c : Char) : Option Char :=
  if c = '"' then some '"'
  else if c = '\\' then some '\\'
  else if c = Char.ofNat 8 then some 'b'
  else if c = Char.ofNat 12 then some 'f'
  else if c = '\n' then some 'n'
  else if c = '\r' then some 'r'
  else if c = '\t' then some 't'
  else none

/-- how a character is written in a normal string literal: an escape for the seven characters that need (or
    have) one, the character itself otherwise (control characters other than these are left to `\uXXXX`, which
    `specEscape` does not produce) -/
def specEscapeChar (c : Char) : List Char :=
  match simpleEscape? c with
  | some e => ['\\', e]
  | none => [c]

def specEscape (s : List Char) : List Char := s.flatMap specEscapeChar

/-! ### block strings -/

def isLineWs (c : Char) : Bool := c = ' ' || c = '\t'

/-- split on the spec's line terminators (`\n`, `\r\n`, `\r`) -/
def splitLines : List Char → List Char → List (List Char)
  | [], cur => [cur.reverse]
  | '\r' :: '\n' :: r, cur => cur.reverse :: splitLines r []
  | '\r' :: r, cur => cur.reverse :: splitLines r []
  | '\n' :: r, cur => cur.reverse :: splitLines r []
  | c :: r, cur => splitLines r (c :: cur)

def indentOf (l : List Char) : Nat := (l.takeWhile isLineWs).length

def commonIndent : List (List Char) → Option Nat
  | [] => none
  | l :: ls =>
    let rest := commonIndent ls
    if indentOf l < l.length then
      match rest with
      | some c => some (min c (indentOf l))
      | none => some (indentOf l)
    else rest

def dropBlankHead : List (List Char) → List (List Char)
  | [] => []
  | l :: ls => if l.all isLineWs then dropBlankHead ls else l :: ls

def joinLines : List (List Char) → List Char
  | [] => []
  | [l] => l
  | l :: ls => l ++ '\n' :: joinLines ls

/-- spec `BlockStringValue(rawValue)` -/
def blockStringValue (raw : List Char) : List Char :=
  match splitLines raw [] with
  | [] => []
  | first :: rest =>
    let rest := match commonIndent rest with
      | some c => rest.map (·.drop c)
      | none => rest
    let ls := dropBlankHead (first :: rest)
    let ls := (dropBlankHead ls.reverse).reverse
    joinLines ls

/-- the characters of a block string token between the delimiters → rawValue (`\"""` is `"""`) -/
def blockRaw : List Char → List Char
  | '\\' :: '"' :: '"' :: '"' :: r => '"' :: '"' :: '"' :: blockRaw r
  | c :: r => c :: blockRaw r
  | [] => []

end NitroVerif.Spec.Lex
