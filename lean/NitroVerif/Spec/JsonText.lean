/-
Reference readers of JSON TEXT — text → `Json` tree — written from the standards, not from any implementation:

  * `JsonText.parse`        RFC 8259 / ECMA-404 (`JSON-text = ws value ws`), i.e. what `JSON.parse` and every conforming
                            JSON parser accept, with the tree they build;
  * `JsonText.JsLit.expr`   the SAME bracket/comma/colon grammar read with the LEXICAL layer of ECMA-262 (ES2019 and later):
                            the subset `Literal | ArrayLiteral | ObjectLiteral` of `PrimaryExpression` in which elements are
                            `AssignmentExpression`s of that same subset, property names are `StringLiteral`s and there are no
                            elisions, spreads, trailing commas, comments, template or regular-expression literals. Outside the
                            subset the reader answers `none` (it never mis-reads: ECMAScript's expression grammar is
                            unambiguous, so a text of the subset has one reading).

Both readers share the recursion `value / elements / members` (the two grammars coincide on it:
RFC 8259 §4/§5 `array = begin-array [ value *( value-separator value ) ] end-array`,
`object = begin-object [ member *( value-separator member ) ] end-object`, `member = string name-separator value`;
ECMA-262 §13.2.4 `ArrayLiteral : [ ElementList ]`, §13.2.5 `ObjectLiteral : { PropertyDefinitionList }`,
`PropertyDefinition : PropertyName : AssignmentExpression`) and differ in the lexical layer `Lex`:

                         RFC 8259                                   ECMA-262
  white space            SP HT LF CR (§2)                            WhiteSpace ∪ LineTerminator (§12.2, §12.3)
  string delimiters      "                                           " or '
  raw characters         %x20-21 / %x23-5B / %x5D-10FFFF (§7)        SourceCharacter but not the delimiter, `\`, CR, LF — U+2028 and
                                                                     U+2029 ARE allowed (ES2019, "JSON superset"; §12.9.4
                                                                     `DoubleStringCharacter :: <LS> | <PS>`); raw control characters too
  escapes                \" \\ \/ \b \f \n \r \t \uXXXX (§7)          the same, and \' \v \0 \xHH \u{…}, `\c` = `c` for every
                                                                     NonEscapeCharacter, line continuations; no octal (module code
                                                                     is strict)
  property names         any string                                  any string EXCEPT `__proto__`: Annex B.3.1 makes
                                                                     `{"__proto__": v}` set the prototype instead of creating a
                                                                     member; the reader refuses such a literal (`none`)
  numbers                [-] int [frac] [exp] (§6), raw text kept     the same forms (`- DecimalLiteral`; the other numeric forms of
                                                                     ECMAScript are outside the subset)

Strings are sequences of Unicode scalar values (Lean `Char`, Rust `char`). `\uXXXX` escapes denote UTF-16 code units (RFC 8259
§7, ECMA-262 §12.9.4.2 `SV`); a high surrogate escape immediately followed by a low surrogate escape denotes the scalar value of
the pair, a surrogate escape that is not part of such a pair denotes no scalar value: both readers answer `none` for it
(JavaScript would build a string with a lone surrogate, which no `Json` tree — and no Rust `str` — can hold).

Duplicate member names are kept, in text order, as the `Json` association list keeps them (which occurrence a consumer sees is
the consumer's business: `Json.get?`).

Recursion: explicit fuel everywhere, structural on the fuel. The string scanners consume at least one character per call and get
`length + 1`; `value / elements / members` get `fuelFor text = 2 * length + 2` (every two nested calls consume a character).
PROVED (`Lemmas/JsonTextFuel.lean fuel_enough`, `Props/C12Text.lean json_reader_fuel_independent`): for every text, an answer
obtained with some fuel is obtained with every larger fuel and with `fuelFor`; the fuel is a device for totality only.
No `partial`, kernel-evaluable.
Core Lean only.
-/
import NitroVerif.Base.Json
namespace NitroVerif.JsonText

/-- the lexical layer of a reader: what differs between RFC 8259 and ECMA-262 -/
structure Lex where
  /-- characters skipped between tokens -/
  ws : Char → Bool
  /-- characters that open a string -/
  quote : Char → Bool
  /-- `str q text`: the rest of a string opened by `q` — the characters it denotes and the text behind the closing delimiter -/
  str : Char → List Char → Option (List Char × List Char)
  /-- property names for which an object literal means "a member of that name" -/
  key : List Char → Bool

def skipWs (ws : Char → Bool) : List Char → List Char
  | [] => []
  | c :: cs => if ws c then skipWs ws cs else c :: cs

/-! ## numbers: RFC 8259 §6 `number = [ minus ] int [ frac ] [ exp ]` -/

def isDigit (c : Char) : Bool := decide (48 ≤ c.toNat) && decide (c.toNat ≤ 57)

/-- `*DIGIT`: the longest run of digits and the text behind it -/
def digits : List Char → List Char × List Char
  | [] => ([], [])
  | c :: cs => if isDigit c then ((digits cs).1.cons c, (digits cs).2) else ([], c :: cs)

/-- `int = zero / ( digit1-9 *DIGIT )` -/
def intPart : List Char → Option (List Char × List Char)
  | [] => none
  | c :: cs =>
    if c = '0' then some (['0'], cs)
    else if isDigit c then some (c :: (digits cs).1, (digits cs).2)
    else none

/-- `[ frac ]`, `frac = decimal-point 1*DIGIT` -/
def fracPart : List Char → Option (List Char × List Char)
  | [] => some ([], [])
  | c :: cs =>
    if c = '.' then
      (if (digits cs).1.isEmpty then none else some ('.' :: (digits cs).1, (digits cs).2))
    else some ([], c :: cs)

/-- `1*DIGIT` behind the exponent marker (and sign) -/
def expDigits (pre : List Char) (s : List Char) : Option (List Char × List Char) :=
  if (digits s).1.isEmpty then none else some (pre ++ (digits s).1, (digits s).2)

/-- `[ exp ]`, `exp = e [ minus / plus ] 1*DIGIT` (`e` in either case) -/
def expPart : List Char → Option (List Char × List Char)
  | [] => some ([], [])
  | c :: cs =>
    if c = 'e' ∨ c = 'E' then
      match cs with
      | [] => none
      | d :: ds => if d = '+' ∨ d = '-' then expDigits [c, d] ds else expDigits [c] (d :: ds)
    else some ([], c :: cs)

/-- a number token: its raw text and the text behind it -/
def number (s : List Char) : Option (List Char × List Char) :=
  let sign : List Char × List Char :=
    match s with
    | [] => ([], [])
    | c :: cs => if c = '-' then (['-'], cs) else ([], c :: cs)
  match intPart sign.2 with
  | none => none
  | some (i, r1) =>
    match fracPart r1 with
    | none => none
    | some (f, r2) =>
      match expPart r2 with
      | none => none
      | some (e, r3) => some (sign.1 ++ i ++ f ++ e, r3)

/-- `kw ++ rest` ↦ `rest` -/
def keyword : List Char → List Char → Option (List Char)
  | [], s => some s
  | _ :: _, [] => none
  | k :: ks, c :: cs => if c = k then keyword ks cs else none

/-! ## the grammar shared by both standards -/

mutual
/-- one value (leading white space skipped): the tree and the text behind it -/
def value (L : Lex) : Nat → List Char → Option (Json × List Char)
  | 0, _ => none
  | f + 1, s =>
    match skipWs L.ws s with
    | [] => none
    | c :: r =>
      if L.quote c then
        match L.str c r with
        | some (cs, r') => some (.str (String.ofList cs), r')
        | none => none
      else if c = '[' then
        match skipWs L.ws r with
        | [] => none
        | c1 :: r1 =>
          if c1 = ']' then some (.arr [], r1)
          else match elements L f (c1 :: r1) with
            | some (xs, r') => some (.arr xs, r')
            | none => none
      else if c = '{' then
        match skipWs L.ws r with
        | [] => none
        | c1 :: r1 =>
          if c1 = '}' then some (.obj [], r1)
          else match members L f (c1 :: r1) with
            | some (kvs, r') => some (.obj kvs, r')
            | none => none
      else if c = 't' then (keyword ['r', 'u', 'e'] r).map fun r' => (.bool true, r')
      else if c = 'f' then (keyword ['a', 'l', 's', 'e'] r).map fun r' => (.bool false, r')
      else if c = 'n' then (keyword ['u', 'l', 'l'] r).map fun r' => (.null, r')
      else
        match number (c :: r) with
        | some (raw, r') => some (.num (String.ofList raw), r')
        | none => none
/-- `value *( "," value ) "]"` -/
def elements (L : Lex) : Nat → List Char → Option (List Json × List Char)
  | 0, _ => none
  | f + 1, s =>
    match value L f s with
    | none => none
    | some (x, r) =>
      match skipWs L.ws r with
      | [] => none
      | c :: r' =>
        if c = ',' then
          match elements L f r' with
          | some (xs, r'') => some (x :: xs, r'')
          | none => none
        else if c = ']' then some ([x], r')
        else none
/-- `member *( "," member ) "}"`, `member = string ":" value` -/
def members (L : Lex) : Nat → List Char → Option (List (String × Json) × List Char)
  | 0, _ => none
  | f + 1, s =>
    match skipWs L.ws s with
    | [] => none
    | q :: r =>
      if L.quote q then
        match L.str q r with
        | none => none
        | some (k, r1) =>
          if L.key k then
            match skipWs L.ws r1 with
            | [] => none
            | c :: r2 =>
              if c = ':' then
                match value L f r2 with
                | none => none
                | some (v, r3) =>
                  match skipWs L.ws r3 with
                  | [] => none
                  | d :: r4 =>
                    if d = ',' then
                      match members L f r4 with
                      | some (kvs, r5) => some ((String.ofList k, v) :: kvs, r5)
                      | none => none
                    else if d = '}' then some ([(String.ofList k, v)], r4)
                    else none
              else none
          else none
      else none
end

/-- the fuel a whole text gets (see the header) -/
def fuelFor (s : List Char) : Nat := 2 * s.length + 2

/-- a whole text: `ws value ws` and nothing else -/
def parseWith (L : Lex) (s : List Char) : Option Json :=
  match value L (fuelFor s) s with
  | some (t, r) => if (skipWs L.ws r).isEmpty then some t else none
  | none => none

/-! ## escapes -/

def hexVal (c : Char) : Option Nat :=
  if 48 ≤ c.toNat ∧ c.toNat ≤ 57 then some (c.toNat - 48)
  else if 65 ≤ c.toNat ∧ c.toNat ≤ 70 then some (c.toNat - 55)
  else if 97 ≤ c.toNat ∧ c.toNat ≤ 102 then some (c.toNat - 87)
  else none

/-- `4HEXDIG` / `Hex4Digits`: the UTF-16 code unit -/
def hex4 (a b c d : Char) : Option Nat :=
  match hexVal a, hexVal b, hexVal c, hexVal d with
  | some a, some b, some c, some d => some (((a * 16 + b) * 16 + c) * 16 + d)
  | _, _, _, _ => none

def isHighSurrogate (n : Nat) : Bool := decide (0xD800 ≤ n) && decide (n ≤ 0xDBFF)
def isLowSurrogate (n : Nat) : Bool := decide (0xDC00 ≤ n) && decide (n ≤ 0xDFFF)

/-- the scalar value of a UTF-16 surrogate pair -/
def pairScalar (hi lo : Nat) : Nat := 0x10000 + (hi - 0xD800) * 0x400 + (lo - 0xDC00)

/-- put a character in front of what the rest of the string denotes -/
def push (c : Char) : Option (List Char × List Char) → Option (List Char × List Char)
  | some (cs, r) => some (c :: cs, r)
  | none => none

/-- `\uXXXX`, the four digits already read as `n`, `r` the text behind them; `k` reads the rest of the string.
    A high surrogate needs `\uXXXX` with a low surrogate right behind it. -/
def unicodeEscape (k : List Char → Option (List Char × List Char)) (n : Nat) (r : List Char) :
    Option (List Char × List Char) :=
  if isHighSurrogate n then
    match r with
    | b :: u :: l1 :: l2 :: l3 :: l4 :: r2 =>
      if b = '\\' ∧ u = 'u' then
        match hex4 l1 l2 l3 l4 with
        | some m => if isLowSurrogate m then push (Char.ofNat (pairScalar n m)) (k r2) else none
        | none => none
      else none
    | _ => none
  else if isLowSurrogate n then none
  else push (Char.ofNat n) (k r)

/-! ## RFC 8259 §7 strings -/

/-- `escape ( " / \ / "/" / b / f / n / r / t )` — the two-character escapes -/
def simpleEscape (e : Char) : Option Char :=
  if e = '"' then some '"'
  else if e = '\\' then some '\\'
  else if e = '/' then some '/'
  else if e = 'b' then some (Char.ofNat 8)
  else if e = 'f' then some (Char.ofNat 12)
  else if e = 'n' then some '\n'
  else if e = 'r' then some '\r'
  else if e = 't' then some '\t'
  else none

/-- `*char quotation-mark`: the characters denoted and the text behind the closing quotation mark (one unit of fuel per call) -/
def strBodyFuel : Nat → List Char → Option (List Char × List Char)
  | 0, _ => none
  | _ + 1, [] => none
  | f + 1, c :: cs =>
    if c = '"' then some ([], cs)
    else if c = '\\' then
      match cs with
      | [] => none
      | e :: r =>
        if e = 'u' then
          match r with
          | h1 :: h2 :: h3 :: h4 :: r1 =>
            match hex4 h1 h2 h3 h4 with
            | some n => unicodeEscape (strBodyFuel f) n r1
            | none => none
          | _ => none
        else
          match simpleEscape e with
          | some ch => push ch (strBodyFuel f r)
          | none => none
    else if c.toNat < 0x20 then none
    else push c (strBodyFuel f cs)

/-- the rest of a string: one unit of fuel per character is enough -/
def strBody (s : List Char) : Option (List Char × List Char) := strBodyFuel (s.length + 1) s

/-- the lexical layer of RFC 8259 -/
def rfc8259 : Lex where
  ws := fun c => c = ' ' ∨ c = '\t' ∨ c = '\n' ∨ c = '\r'
  quote := fun c => c = '"'
  str := fun _ s => strBody s
  key := fun _ => true

/-- `JSON.parse`, RFC 8259: the tree a JSON text denotes, `none` if it is not a JSON text -/
def parse (s : List Char) : Option Json := parseWith rfc8259 s

/-! ## ECMA-262 (ES2019 and later) string literals and white space -/
namespace JsLit

/-- §12.2 WhiteSpace (TAB VT FF ZWNBSP and the space separators `Zs`) and §12.3 LineTerminator (LF CR LS PS) -/
def ws (c : Char) : Bool :=
  let n := c.toNat
  n = 0x09 ∨ n = 0x0B ∨ n = 0x0C ∨ n = 0xFEFF ∨
  n = 0x20 ∨ n = 0xA0 ∨ n = 0x1680 ∨ (0x2000 ≤ n ∧ n ≤ 0x200A) ∨ n = 0x202F ∨ n = 0x205F ∨ n = 0x3000 ∨
  n = 0x0A ∨ n = 0x0D ∨ n = 0x2028 ∨ n = 0x2029

def isLineTerminator (c : Char) : Bool :=
  c.toNat = 0x0A ∨ c.toNat = 0x0D ∨ c.toNat = 0x2028 ∨ c.toNat = 0x2029

/-- §12.9.4 `SingleEscapeCharacter :: one of ' " \ b f n r t v` with its `CV` (table 37) -/
def singleEscape (e : Char) : Option Char :=
  if e = '\'' then some '\''
  else if e = '"' then some '"'
  else if e = '\\' then some '\\'
  else if e = 'b' then some (Char.ofNat 8)
  else if e = 'f' then some (Char.ofNat 12)
  else if e = 'n' then some '\n'
  else if e = 'r' then some '\r'
  else if e = 't' then some '\t'
  else if e = 'v' then some (Char.ofNat 11)
  else none

/-- the digits of `\u{…}` up to the closing brace: the code point (`none`: not hexadecimal, no brace, empty, or > 0x10FFFF) -/
def codePoint : Nat → Bool → List Char → Option (Nat × List Char)
  | _, _, [] => none
  | acc, any, c :: cs =>
    if c = '}' then (if any ∧ acc ≤ 0x10FFFF then some (acc, cs) else none)
    else match hexVal c with
      | some d => if acc * 16 + d ≤ 0x10FFFF then codePoint (acc * 16 + d) true cs else none
      | none => none

/-- `DoubleStringCharacters_opt "` / `SingleStringCharacters_opt '` for the delimiter `q`.
    `es2019 = false` is the grammar of the editions before ES2019, in which a raw U+2028 / U+2029 inside a string literal is a
    syntax error (`DoubleStringCharacter :: SourceCharacter but not one of " or \ or LineTerminator` without the `<LS> | <PS>`
    alternatives); it exists only to state what the ES2019 assumption buys. -/
def strBodyFuel (q : Char) (es2019 : Bool) : Nat → List Char → Option (List Char × List Char)
  | 0, _ => none
  | _ + 1, [] => none
  | f + 1, c :: cs =>
    if c = q then some ([], cs)
    else if c = '\\' then
      match cs with
      | [] => none
      | e :: r =>
        if e = 'u' then
          match r with
          | [] => none
          | b :: r0 =>
            if b = '{' then
              -- `\u{CodePoint}`
              match codePoint 0 false r0 with
              | some (n, r1) =>
                if isHighSurrogate n ∨ isLowSurrogate n then none else push (Char.ofNat n) (strBodyFuel q es2019 f r1)
              | none => none
            else
              match r0 with
              | h2 :: h3 :: h4 :: r1 =>
                match hex4 b h2 h3 h4 with
                | some n => unicodeEscape (strBodyFuel q es2019 f) n r1
                | none => none
              | _ => none
        else if e = 'x' then
          -- `HexEscapeSequence :: x HexDigit HexDigit`
          match r with
          | h1 :: h2 :: r1 =>
            match hexVal h1, hexVal h2 with
            | some a, some b => push (Char.ofNat (a * 16 + b)) (strBodyFuel q es2019 f r1)
            | _, _ => none
          | _ => none
        else if e = '0' then
          -- `0 [lookahead ∉ DecimalDigit]`; legacy octal escapes are not strict-mode syntax
          match r with
          | [] => none
          | d :: _ => if isDigit d then none else push (Char.ofNat 0) (strBodyFuel q es2019 f r)
        else if isDigit e then none
        else if isLineTerminator e then
          -- `LineContinuation :: \ LineTerminatorSequence` (CR LF is ONE sequence) denotes nothing
          match r with
          | [] => none
          | d :: r1 => if e.toNat = 0x0D ∧ d.toNat = 0x0A then strBodyFuel q es2019 f r1 else strBodyFuel q es2019 f r
        else
          match singleEscape e with
          | some ch => push ch (strBodyFuel q es2019 f r)
          | none => push e (strBodyFuel q es2019 f r)      -- `NonEscapeCharacter`: `\c` is `c`
    else if c.toNat = 0x0A ∨ c.toNat = 0x0D then none   -- no raw CR / LF
    else if es2019 = false ∧ (c.toNat = 0x2028 ∨ c.toNat = 0x2029) then none   -- <LS> <PS> are fine since ES2019
    else push c (strBodyFuel q es2019 f cs)

def strBody (es2019 : Bool) (q : Char) (s : List Char) : Option (List Char × List Char) :=
  strBodyFuel q es2019 (s.length + 1) s

/-- the lexical layer of ECMA-262 for the literal subset -/
def lexOf (es2019 : Bool) : Lex where
  ws := ws
  quote := fun c => c = '"' ∨ c = '\''
  str := strBody es2019
  key := fun k => k != ['_', '_', 'p', 'r', 'o', 't', 'o', '_', '_']

/-- ES2019 and later -/
def lex : Lex := lexOf true

/-- ES2018 and earlier -/
def lex2018 : Lex := lexOf false

/-- a `PrimaryExpression` of the literal subset at the head of a text: the value it evaluates to (as a tree) and the text
    behind it — e.g. behind `const X = ` in a module -/
def expr (s : List Char) : Option (Json × List Char) := value lex (fuelFor s) s

end JsLit

end NitroVerif.JsonText
