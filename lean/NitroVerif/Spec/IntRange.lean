import NitroVerif.Spec.Valid
/-!
# Spec §3.5.1 (Int, input coercion) inside rule 5.6.1 — the 32-bit range of Int literals

`Valid.leafCoercible` accepts every integer literal where `Int` is expected. The specification does not: "If the integer
input value represents a value less than -2^31 or greater than or equal to 2^31, a request error should be raised"
(§3.5.1 Input Coercion), and 5.6.1 (Values of Correct Type) asks literals to be coercible by those rules (the reference
implementation's `GraphQLInt.parseLiteral` rejects such a literal during validation). `Float` and `ID` accept any integer
literal (§3.5.2, §3.5.5).

This is a SEPARATE, additional predicate (`rule_int32`, id `5.6.1-int32`): the definitions of `Spec/Valid.lean`, on which the
C03 / C04 theorems are stated, are unchanged. The driver `nv_c03` reports the id beside the ids of the rule tables.
Neither the model `CheckOp` nor (at the time of writing) the real checker enforces it — see known-findings.txt.
-/
namespace NitroVerif.Valid
open NitroVerif NitroVerif.Gql

/-- the text of an integer literal (`-?(0|[1-9][0-9]*)`) denotes a value in `[-2^31, 2^31)` -/
def intTextInRange (s : String) : Bool :=
  match s.toInt? with
  | some i => decide (-2147483648 ≤ i) && decide (i ≤ 2147483647)
  | none => false

mutual
/-- no integer literal stands at a position whose innermost named type is `Int` unless it is a 32-bit value; lists
    (also a single value for a list type), input objects and their fields are traversed like `valueIssues` does -/
def intRangeOk (S : Schema) : Value → GType → Bool
  | .int s _, t => !(t.unwrapped == "Int") || intTextInRange s
  | .list vs _, t =>
    match stripNonNull t with
    | .list inner _ => intRangeOkList S vs inner
    | _ => true
  | .obj fs _, t =>
    match S.typeDef? t.unwrapped with
    | some td => if td.kind == .input then intRangeOkFields S fs td.inputs else true
    | none => true
  | _, _ => true
def intRangeOkList (S : Schema) : List Value → GType → Bool
  | [], _ => true
  | v :: vs, t => intRangeOk S v t && intRangeOkList S vs t
def intRangeOkFields (S : Schema) : List (Name × Pos × Value) → List InputValueDef → Bool
  | [], _ => true
  | (k, _, v) :: rest, defs =>
    (match defs.find? (·.name == k) with
     | some d => intRangeOk S v d.ty
     | none => true) && intRangeOkFields S rest defs
end

/-- every Int literal of the document at an `Int` position (arguments of fields and directives, nested lists and input
    objects, variable default values) is a 32-bit value -/
def rule_int32 (S : Schema) (D : Doc) : Bool :=
  (typedValues S D).all fun tv => intRangeOk S tv.value tv.ty

def intRangeId : String := "5.6.1-int32"

end NitroVerif.Valid
