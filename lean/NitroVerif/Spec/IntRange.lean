import NitroVerif.Spec.Valid
/-!
# Spec §3.5.1 (Int, input coercion) inside rule 5.6.1 — the 32-bit range of Int literals, as a statement of its own

"If the integer input value represents a value less than -2^31 or greater than or equal to 2^31, a request error should be
raised" (§3.5.1 Input Coercion); 5.6.1 (Values of Correct Type) asks literals to be coercible by those rules. `Float` and
`ID` accept any integer literal (§3.5.2, §3.5.5).

History: until fix e3584a3 of the checker `Valid.leafCoercible` accepted every integer literal where `Int` is expected and
this file carried the range as a SEPARATE predicate (id `5.6.1-int32`, an open finding of the real checker). Now
`Valid.leafCoercible` itself requires the range (`SpecInt.intTextInRange`, Spec/IntLit.lean), so the range is part of
`rule_5_6_1` / `SpecValid`. `rule_int32` stays as the direct, traversal-style statement of "every Int literal at an Int
position is a 32-bit value"; `Lemmas/IntRange.lean` proves `rule_5_6_1 S D = true → rule_int32 S D = true`, and
`Props/C03.lean` states `C03_int_literals_in_range` with it.
-/
namespace NitroVerif.Valid
open NitroVerif NitroVerif.Gql

/-- the text of an integer literal (`-?(0|[1-9][0-9]*)`) denotes a value in `[-2^31, 2^31)` -/
abbrev intTextInRange (s : String) : Bool := SpecInt.intTextInRange s

mutual
/-- no integer literal stands at a position whose innermost named type is `Int` unless it is a 32-bit value; lists
    (also a single value for a list type), input objects and their fields are traversed like `valueIssues` does -/
def intRangeOk (S : Schema) : Value → GType → Bool
  | .int s _, t => !(t.unwrapped == "Int") || intTextInRange s
  | .list vs _, t =>
    match stripNonNull t with
    | .list inner _ => intRangeOkList S vs inner
    | _ => true
  | .obj fs _, t =>
    match S.typeDef? t.unwrapped with
    | some td => if td.kind == .input then intRangeOkFields S fs td.inputs else true
    | none => true
  | _, _ => true
def intRangeOkList (S : Schema) : List Value → GType → Bool
  | [], _ => true
  | v :: vs, t => intRangeOk S v t && intRangeOkList S vs t
def intRangeOkFields (S : Schema) : List (Name × Pos × Value) → List InputValueDef → Bool
  | [], _ => true
  | (k, _, v) :: rest, defs =>
    (match defs.find? (·.name == k) with
     | some d => intRangeOk S v d.ty
     | none => true) && intRangeOkFields S rest defs
end

/-- every Int literal of the document at an `Int` position (arguments of fields and directives, nested lists and input
    objects, variable default values) is a 32-bit value -/
def rule_int32 (S : Schema) (D : Doc) : Bool :=
  (typedValues S D).all fun tv => intRangeOk S tv.value tv.ty

def intRangeId : String := "5.6.1-int32"

end NitroVerif.Valid
