/-
Reference specification for C10 (and the `Explicit_c` half of C09): `Ref_t(T)` — the set of JSON-ish values
(`Ts.J`) the GraphQL type `T` of a schema denotes for target `t`, written directly from the property statement
(NOT from the printer):

* wrapper conformance `Conf`: a nullable position admits `null`; a list position admits arrays whose elements
  conform to the element type; a non-null position admits exactly the non-null part;
* object type (output targets): a record with `__typename` = the type's name and, for EVERY declared field, a
  value conforming wrapper-exactly to the field's type; no other key;
* interface / union (output targets): the union over the possible object types;
* enum: the string literals of its values;
* input object (input targets): a record with a conforming value for every field; a field may be omitted
  exactly when its type is nullable AND the option `allowUndefinedAsOptionalInput` is on; no other key;
* scalar: the configured TypeScript text for that target, read GLOBALLY (in the empty declaration
  environment: identifiers of a scalar text are global TypeScript names, never schema types) — opaque texts
  denote their atom, `string`/`number`/`boolean` and unions thereof their usual sets.

Executable (`refMem`, structurally recursive on fuel) for the O stream; `Ref` (∃ fuel) for the theorems.
-/
import NitroVerif.Model.DeclCfg
import NitroVerif.Ts.Sem
namespace NitroVerif.RefTypes
open NitroVerif.Gql NitroVerif.Ts NitroVerif.DeclCfg

/-- the non-null part of a GraphQL type position, given the meaning `leaf` of named types -/
def confCore (leaf : Name → J → Bool) : GType → J → Bool
  | .named n _, v => leaf n v
  | .list t _, v =>
    match v with
    | .arr xs => xs.all fun x => (!t.isNonNull && x.isNull) || confCore leaf t x
    | _ => false
  | .nonNull t, v => confCore leaf t v

/-- wrapper-exact conformance of a value to a GraphQL type position -/
def conf (leaf : Name → J → Bool) (t : GType) (v : J) : Bool :=
  (!t.isNonNull && v.isNull) || confCore leaf t v

/-- `confCore`, as a proposition over an arbitrary meaning of named types (used by the theorems) -/
def ConfCore (leaf : Name → J → Prop) : GType → J → Prop
  | .named n _, v => leaf n v
  | .list t _, v => ∃ xs, v = .arr xs ∧ ∀ x ∈ xs, (t.isNonNull = false ∧ x = .null) ∨ ConfCore leaf t x
  | .nonNull t, v => ConfCore leaf t v

/-- `conf`, as a proposition: `null` iff the position is nullable; otherwise the non-null part -/
def Conf (leaf : Name → J → Prop) (t : GType) (v : J) : Prop :=
  (t.isNonNull = false ∧ v = .null) ∨ ConfCore leaf t v

/-- is the kind usable in the direction of the target? -/
def kindFits (k : TypeKind) (t : Target) : Bool :=
  match k with
  | .scalar | .enum => true
  | .object | .interface | .union => t.isOutput
  | .input => t.isInput

/-- record reading shared by objects and input objects: `fields` = (key, may be omitted, test) -/
def recordMem (fields : List (String × Bool × (J → Bool))) (kvs : List (String × J)) : Bool :=
  fields.all (fun f => let v := J.get kvs f.1; (f.2.1 && v.isAbsent) || f.2.2 v)
  && kvs.all (fun kv => kv.2.isAbsent || fields.any (·.1 == kv.1))

/-- `recordMem`, as a proposition over arbitrary value sets (used by the theorems) -/
def RecordSpec (fields : List (String × Bool × (J → Prop))) (kvs : List (String × J)) : Prop :=
  (∀ f ∈ fields, (f.2.1 = true ∧ J.get kvs f.1 = .absent) ∨ f.2.2 (J.get kvs f.1)) ∧
  (∀ kv ∈ kvs, kv.2 = .absent ∨ ∃ f ∈ fields, f.1 = kv.1)

/-- `Ref_t(T)` with fuel (each named-type step costs one) -/
def refMem (c : Cfg) (s : Schema) (t : Target) : Nat → Name → J → Bool
  | 0, _, _ => false
  | n + 1, name, v =>
    match s.typeDef? name with
    | none => false
    | some td =>
      if !kindFits td.kind t then false else
      match td.kind with
      | .scalar =>
        match scalarType? c s.items name with
        | some sc => memG Env.empty (n + 1) v (c.parseOf (sc.getType t))
        | none => false
      | .enum => match v with | .str x => td.values.any (·.name == x) | _ => false
      | .object =>
        match v with
        | .obj kvs =>
          recordMem (("__typename", false, fun x => match x with | .str y => y == td.name | _ => false)
            :: td.fields.map fun f => (f.name, false, conf (refMem c s t n) f.ty)) kvs
        | _ => false
      | .interface | .union => (s.possibleTypes name).any fun o => refMem c s t n o v
      | .input =>
        match v with
        | .obj kvs =>
          recordMem (td.inputs.map fun f =>
            (f.name, c.optionalInput && !f.ty.isNonNull, conf (refMem c s t n) f.ty)) kvs
        | _ => false

/-- What a resolver RETURNS for the named type (the resolvers file's local aliases): an object type's record without
    the `__typename` key at the top (`Omit<…, "__typename">`; nested objects are full `Ref_ResolverOutput` values),
    interfaces / unions the union over their possible object types, leaves as `Ref_ResolverOutput`. -/
def refResolverOut (c : Cfg) (s : Schema) : Nat → Name → J → Bool
  | 0, _, _ => false
  | n + 1, name, v =>
    match s.typeDef? name with
    | none => false
    | some td =>
      match td.kind with
      | .object =>
        match v with
        | .obj kvs =>
          recordMem (td.fields.map fun f => (f.name, false, conf (refMem c s .resolverOutput n) f.ty)) kvs
        | _ => false
      | .interface | .union => (s.possibleTypes name).any fun o => refResolverOut c s n o v
      | _ => refMem c s .resolverOutput (n + 1) name v

/-- `Ref_ResolverInput(args f)`: the record of a field's arguments as the resolver receives it — every argument is a
    REQUIRED key whose value conforms wrapper-exactly to the argument's type over `Ref_ResolverInput` (a nullable
    argument admits `null`), regardless of default values -/
def refArgs (c : Cfg) (s : Schema) (fuel : Nat) (args : List InputValueDef) (v : J) : Bool :=
  match v with
  | .obj kvs => recordMem (args.map fun a => (a.name, false, conf (refMem c s .resolverInput fuel) a.ty)) kvs
  | _ => false

def Ref (c : Cfg) (s : Schema) (t : Target) (name : Name) (v : J) : Prop := ∃ n, refMem c s t n name v = true

end NitroVerif.RefTypes
