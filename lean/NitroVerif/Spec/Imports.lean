import NitroVerif.Model.Imports
/-!
Reference specification of `#import` resolution (property C13).

Declarative part (what the theorems are stated against):
  `Reach`       files reachable from the root through import lines whose target file exists
  `Selected`    (file, definition) pairs selected by some import line of some reachable file
  `InRef`       `Selected` minus the root's own definitions  (= what must be appended, each once)
  `Dangling` / `MissingName`   the two error conditions
Executable part (what the driver answers on the O stream): `refImports`, `refError` — a plain fixed-point
iteration, independent of the depth-first traversal of the model. `Lemmas/Imports.lean` proves that the executable
part computes the declarative part.

Only the data types (`Import`, `Targets`, `Def`, `File`, `FS`) are shared with the model.
-/
namespace NitroVerif.Imports.Spec
open NitroVerif.Imports

variable {κ ρ : Type} [DecidableEq κ] [DecidableEq ρ]

/-- the import line asks for the fragment named `n` -/
def Requests : Targets → Nat → Prop
  | .wildcard, _ => True
  | .specific ids, n => ∃ id ∈ ids, id.name = n

instance : (t : Targets) → (n : Nat) → Decidable (Requests t n)
  | .wildcard, _ => isTrue trivial
  | .specific ids, n => inferInstanceAs (Decidable (∃ id ∈ ids, id.name = n))

/-- names written explicitly in the line -/
def namesOf : Targets → List Nat
  | .wildcard => []
  | .specific ids => ids.map (·.name)

variable (res : κ → ρ → κ) (fs : FS κ ρ) (root : κ) (rootFile : File ρ)

/-- import lines of the document at `q` (the root document is given separately from the resolver's map) -/
def importsOf (q : κ) : List (Import ρ) :=
  if q = root then rootFile.imports
  else match fs.lookup q with
    | some f => f.imports
    | none => []

/-- the definitions of the configured document at `p`, if there is one -/
def defsAt (p : κ) : Option (List Def) := (fs.lookup p).map (·.defs)

/-- files reachable from the root (only existing files are nodes) -/
inductive Reach : κ → Prop where
  | root : Reach root
  | step {q : κ} {imp : Import ρ} : Reach q → imp ∈ importsOf fs root rootFile q →
      (defsAt fs (res q imp.rel)).isSome = true → Reach (res q imp.rel)

/-- definition `x.2` of file `x.1` is a fragment requested by an import line of a reachable file -/
def Selected (x : DefId κ) : Prop :=
  ∃ q imp ds n, Reach res fs root rootFile q ∧ imp ∈ importsOf fs root rootFile q ∧
    res q imp.rel = x.1 ∧ defsAt fs x.1 = some ds ∧ ds[x.2]? = some (Def.frag n) ∧ Requests imp.targets n

/-- what has to be appended to the root's own definitions -/
def InRef (x : DefId κ) : Prop :=
  Selected res fs root rootFile x ∧ x ∉ rootIds root rootFile

/-- some reachable import line points to a file that is not among the configured documents -/
def Dangling : Prop :=
  ∃ q imp, Reach res fs root rootFile q ∧ imp ∈ importsOf fs root rootFile q ∧ defsAt fs (res q imp.rel) = none

/-- some reachable import line names a fragment its target file does not define -/
def MissingName : Prop :=
  ∃ q imp ds n, Reach res fs root rootFile q ∧ imp ∈ importsOf fs root rootFile q ∧
    defsAt fs (res q imp.rel) = some ds ∧ n ∈ namesOf imp.targets ∧ Def.frag n ∉ ds

/-- the resolver either does not know the root's path or maps it to the root document itself
    (true for both resolvers of the code base: the root is one of the configured / loaded documents) -/
def RootOK : Prop := ∀ f, fs.lookup root = some f → f = rootFile

/-! ### executable reference -/

def dedup {α : Type} [DecidableEq α] : List α → List α
  | [] => []
  | a :: l => if a ∈ l then dedup l else a :: dedup l

/-- existing targets of the import lines of the files in `S` -/
def targetsOf (S : List κ) : List κ :=
  S.flatMap fun q => (importsOf fs root rootFile q).filterMap fun imp =>
    if (defsAt fs (res q imp.rel)).isSome then some (res q imp.rel) else none

/-- add the not yet known targets until nothing is new -/
def closure : Nat → List κ → List κ
  | 0, S => S
  | n + 1, S =>
    let new := (targetsOf res fs root rootFile S).filter (fun p => p ∉ S)
    if new.isEmpty then S else closure n (S ++ new)

def reachList : List κ := closure res fs root rootFile fs.length [root]

/-- indices (from `i` on) of the fragments of `defs` that `t` requests -/
def requestedFrom (t : Targets) : Nat → List Def → List Nat
  | _, [] => []
  | i, .frag n :: ds => if Requests t n then i :: requestedFrom t (i + 1) ds else requestedFrom t (i + 1) ds
  | i, .other :: ds => requestedFrom t (i + 1) ds

def lineSel (q : κ) (imp : Import ρ) : List (DefId κ) :=
  match defsAt fs (res q imp.rel) with
  | none => []
  | some ds => (requestedFrom imp.targets 0 ds).map fun i => (res q imp.rel, i)

/-- the reference result: the set (as a duplicate-free list, in no particular order) of definitions to append -/
def refImports : List (DefId κ) :=
  dedup (((reachList res fs root rootFile).flatMap fun q =>
    (importsOf fs root rootFile q).flatMap (lineSel res fs q)).filter fun x => x ∉ rootIds root rootFile)

def lineBad (q : κ) (imp : Import ρ) : Bool :=
  match defsAt fs (res q imp.rel) with
  | none => true
  | some ds => (namesOf imp.targets).any fun n => !(ds.contains (Def.frag n))

/-- the reference verdict: must resolution report an error? -/
def refError : Bool :=
  (reachList res fs root rootFile).any fun q => (importsOf fs root rootFile q).any (lineBad res fs q)

/-! ### raw import lines -/

/-- a raw line read on its own (no merging): `*` anywhere in it makes it a wildcard line -/
def lineOfRaw (line : Nat) (raw : RawImport ρ) : Import ρ :=
  ⟨raw.rel, line,
    if RawTarget.wildcard ∈ raw.targets then .wildcard
    else .specific ((raw.targets.zipIdx).filterMap fun (t, i) =>
      match t with
      | .name n => some ⟨n, line, i⟩
      | .wildcard => none)⟩

def linesOfRaw (lines : List (RawImport ρ)) : List (Import ρ) :=
  (lines.zipIdx).map fun (raw, j) => lineOfRaw j raw

/-- all targets written for the path literal `rel`, over all lines -/
def targetsFor (lines : List (RawImport ρ)) (rel : ρ) : List RawTarget :=
  (lines.filter fun l => l.rel = rel).flatMap (·.targets)

/-- the rule enforced by `resolve_operation_extensions`: for one path literal, `*` stands alone -/
def WellFormed (lines : List (RawImport ρ)) : Prop :=
  ∀ l ∈ lines, RawTarget.wildcard ∈ targetsFor lines l.rel → (targetsFor lines l.rel).length = 1

instance (lines : List (RawImport ρ)) : Decidable (WellFormed lines) := by
  unfold WellFormed; infer_instance

end NitroVerif.Imports.Spec
