/-
Reference specification for C09, written from the GraphQL specification (Oct 2021, §3.x "Input Coercion" of each
type kind and §6.1.2 CoerceVariableValues), on JSON variable values (`Ts.J`):

* `Coercible` — the PERMISSIVE relation the server applies (target of the soundness direction):
  non-null rejects `null`/missing; nullable accepts `null`; a list type accepts an array of coercible items
  AND ALSO a single non-list value coercible to the item type (spec: "list of size one"); an enum accepts the
  names of its values; an input object accepts a record without unknown keys in which every field that is
  non-null and has no default is present, and every present field is coercible; a scalar accepts the values of
  its configured INPUT TypeScript text (read globally) — for the built-ins these are exactly the JSON shapes the
  spec lists (`number` for Int/Float, `string` for String, `boolean` for Boolean, `string | number` for ID);
  a variable may be missing iff it is nullable or has a default; provided values for undeclared variables are
  ignored (CoerceVariableValues iterates over the declared variables only).
* `Explicit` — the CANONICAL explicit assignments of the completeness direction: every variable and every
  input field given explicitly with a canonical coercible value (arrays for lists, records for input objects,
  member literals for enums), plus omission of NULLABLE ones iff the option is on. It is `RefTypes` applied
  to the record of variables; a bare item offered for a list type is coercible but deliberately not explicit.
-/
import NitroVerif.Spec.RefTypes
namespace NitroVerif.Coerce
open NitroVerif.Gql NitroVerif.Ts NitroVerif.DeclCfg NitroVerif.RefTypes

/-- input coercion of a PRESENT value (`absent` is handled by the caller) -/
def coerceVal (c : Cfg) (s : Schema) : Nat → GType → J → Bool
  | 0, _, _ => false
  | n + 1, ty, v =>
    if v.isAbsent then false else
    match ty with
    | .nonNull t => !v.isNull && coerceVal c s n t v
    | .list t _ =>
      v.isNull ||
      (match v with
       | .arr xs => xs.all (coerceVal c s n t)
       | _ => coerceVal c s n t v)
    | .named name _ =>
      v.isNull ||
      (match s.typeDef? name with
       | none => false
       | some td =>
         match td.kind with
         | .scalar =>
           match scalarType? c s.items name with
           | some sc => memG Env.empty (n + 1) v (c.parseOf (sc.getType .operationInput))
           | none => false
         | .enum => match v with | .str x => td.values.any (·.name == x) | _ => false
         | .input =>
           match v with
           | .obj kvs =>
             kvs.all (fun kv => kv.2.isAbsent || td.inputs.any (·.name == kv.1))
             && td.inputs.all (fun f =>
                  let x := J.get kvs f.name
                  if x.isAbsent then f.default.isSome || !f.ty.isNonNull else coerceVal c s n f.ty x)
           | _ => false
         | _ => false)

/-- CoerceVariableValues succeeds on the record `v` -/
def coercibleVars (c : Cfg) (s : Schema) (fuel : Nat) (vars : List VarDef) (v : J) : Bool :=
  match v with
  | .obj kvs =>
    vars.all fun d =>
      let x := J.get kvs d.name
      if x.isAbsent then d.default.isSome || !d.ty.isNonNull else coerceVal c s fuel d.ty x
  | _ => false

def Coercible (c : Cfg) (s : Schema) (vars : List VarDef) (v : J) : Prop :=
  ∃ n, coercibleVars c s n vars v = true

/-- the canonical explicit assignments (with omission of nullable variables / fields iff the option is on) -/
def explicitVars (c : Cfg) (s : Schema) (fuel : Nat) (vars : List VarDef) (v : J) : Bool :=
  match v with
  | .obj kvs =>
    recordMem (vars.map fun d =>
      (d.name, c.optionalInput && !d.ty.isNonNull, conf (refMem c s .operationInput fuel) d.ty)) kvs
  | _ => false

def Explicit (c : Cfg) (s : Schema) (vars : List VarDef) (v : J) : Prop :=
  ∃ n, explicitVars c s n vars v = true

end NitroVerif.Coerce
