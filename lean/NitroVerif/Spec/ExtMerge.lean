/-
Reference specification for C11: what resolving the extensions of a type-system document has to produce,
written without registries, passes or sorting.

  * per kind and name, a definition becomes: the original's components ++ the concatenation of the components of
    its same-kind same-name extensions in document order (`refSchema`, `refType`); the components a kind has are the
    ones of the GraphQL grammar (`TypeKind.has…`); everything else of the original (description, name, positions) is kept
  * `refMerge` = every schema/type definition of the document, merged, in document order;
    `directiveDefs` = the directive definitions, unchanged, in document order
  * failure ⇔ a duplicate original within a kind (two schema definitions; two definitions of one kind with one
    name) ∨ an orphan extension (a schema extension without schema definition; a type extension without a definition
    of the SAME kind and name)
Core Lean only.
-/
import NitroVerif.Gql.Ast
namespace NitroVerif.ExtMerge
open NitroVerif.Gql

def schemaDefs (doc : TsDoc) : List SchemaDef :=
  doc.filterMap fun | .schemaDef s => some s | _ => none

def schemaExts (doc : TsDoc) : List SchemaDef :=
  doc.filterMap fun | .schemaExt s => some s | _ => none

/-- the definitions of kind `k`, in document order -/
def typeDefs (k : TypeKind) (doc : TsDoc) : List TypeDef :=
  doc.filterMap fun | .typeDef t => if t.kind = k then some t else none | _ => none

/-- the extensions of kind `k` and name `n`, in document order -/
def typeExts (k : TypeKind) (n : Name) (doc : TsDoc) : List TypeDef :=
  doc.filterMap fun | .typeExt t => if t.kind = k ∧ t.name = n then some t else none | _ => none

/-- all extensions of kind `k` -/
def typeExtsOfKind (k : TypeKind) (doc : TsDoc) : List TypeDef :=
  doc.filterMap fun | .typeExt t => if t.kind = k then some t else none | _ => none

/-- the directive definitions, as items, in document order -/
def directiveDefs (doc : TsDoc) : List TsItem :=
  doc.filterMap fun | .directiveDef d => some (.directiveDef d) | _ => none

/-- no name is defined twice within a kind (at most one schema definition) -/
def NoDupOriginal (doc : TsDoc) : Prop :=
  (schemaDefs doc).length ≤ 1 ∧ ∀ k : TypeKind, ((typeDefs k doc).map (·.name)).Nodup

/-- every extension has a definition of the same kind (and name) -/
def NoOrphan (doc : TsDoc) : Prop :=
  (schemaExts doc ≠ [] → schemaDefs doc ≠ []) ∧
  ∀ k : TypeKind, ∀ e ∈ typeExtsOfKind k doc, e.name ∈ (typeDefs k doc).map (·.name)

def allKinds : List TypeKind := [.scalar, .object, .interface, .union, .enum, .input]

theorem mem_allKinds (k : TypeKind) : k ∈ allKinds := by cases k <;> simp [allKinds]

instance (doc : TsDoc) : Decidable (NoDupOriginal doc) :=
  decidable_of_iff ((schemaDefs doc).length ≤ 1 ∧ ∀ k ∈ allKinds, ((typeDefs k doc).map (·.name)).Nodup)
    ⟨fun h => ⟨h.1, fun k => h.2 k (mem_allKinds k)⟩, fun h => ⟨h.1, fun k _ => h.2 k⟩⟩

instance (doc : TsDoc) : Decidable (NoOrphan doc) :=
  decidable_of_iff ((schemaExts doc ≠ [] → schemaDefs doc ≠ []) ∧
      ∀ k ∈ allKinds, ∀ e ∈ typeExtsOfKind k doc, e.name ∈ (typeDefs k doc).map (·.name))
    ⟨fun h => ⟨h.1, fun k => h.2 k (mem_allKinds k)⟩, fun h => ⟨h.1, fun k _ => h.2 k⟩⟩

/-! which component lists a kind has (GraphQL June 2018 §3.5–3.10; every kind has directives) -/
def hasImplements : TypeKind → Bool | .object | .interface => true | _ => false
def hasFields : TypeKind → Bool | .object | .interface => true | _ => false
def hasMembers : TypeKind → Bool | .union => true | _ => false
def hasValues : TypeKind → Bool | .enum => true | _ => false
def hasInputs : TypeKind → Bool | .input => true | _ => false

/-- a schema definition followed by the components of the extensions `es` (in that order) -/
def refSchemaWith (s : SchemaDef) (es : List SchemaDef) : SchemaDef :=
  { s with dirs := s.dirs ++ es.flatMap (·.dirs), roots := s.roots ++ es.flatMap (·.roots) }

/-- a type definition followed by the components of the extensions `es` (in that order) -/
def refTypeWith (t : TypeDef) (es : List TypeDef) : TypeDef :=
  { t with
    implements := t.implements ++ (if hasImplements t.kind then es.flatMap (·.implements) else []),
    dirs := t.dirs ++ es.flatMap (·.dirs),
    fields := t.fields ++ (if hasFields t.kind then es.flatMap (·.fields) else []),
    members := t.members ++ (if hasMembers t.kind then es.flatMap (·.members) else []),
    values := t.values ++ (if hasValues t.kind then es.flatMap (·.values) else []),
    inputs := t.inputs ++ (if hasInputs t.kind then es.flatMap (·.inputs) else []) }

def refSchema (doc : TsDoc) (s : SchemaDef) : SchemaDef := refSchemaWith s (schemaExts doc)

def refType (doc : TsDoc) (t : TypeDef) : TypeDef := refTypeWith t (typeExts t.kind t.name doc)

/-- the merged form of a definition item of `doc` (`none` for directive definitions and extensions) -/
def refItem? (doc : TsDoc) : TsItem → Option TsItem
  | .schemaDef s => some (.schemaDef (refSchema doc s))
  | .typeDef t => some (.typeDef (refType doc t))
  | _ => none

/-- every schema/type definition, merged with its extensions, in document order -/
def refMerge (doc : TsDoc) : List TsItem := doc.filterMap (refItem? doc)

/-- the reference resolver -/
def refResolve (doc : TsDoc) : Option TsDoc :=
  if NoDupOriginal doc ∧ NoOrphan doc then some (directiveDefs doc ++ refMerge doc) else none

/-- an item that is an extension -/
def isExt : TsItem → Bool
  | .schemaExt _ | .typeExt _ => true
  | _ => false

/-- position of an item (its `position` field) -/
def itemPos : TsItem → Pos
  | .schemaDef s => s.pos
  | .schemaExt s => s.pos
  | .typeDef t => t.pos
  | .typeExt t => t.pos
  | .directiveDef d => d.pos

/-- `doc'` lists, for every kind and name, the same extensions in the same relative order as `doc` -/
def KeepsExtOrder (doc' doc : TsDoc) : Prop :=
  schemaExts doc' = schemaExts doc ∧ ∀ k n, typeExts k n doc' = typeExts k n doc

/-- the extension `e` of kind `k` has no definition of kind `k` with its name in `doc` -/
def isOrphan (k : TypeKind) (doc : TsDoc) (e : TypeDef) : Bool :=
  decide (e.name ∉ (typeDefs k doc).map (·.name))

end NitroVerif.ExtMerge
