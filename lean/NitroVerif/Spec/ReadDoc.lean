/-
Reference specification for C12.

1. `readDoc : Json → Option (List ExecDef)` — an INDEPENDENT reader of the graphql-js `DocumentNode` JSON shape
   (graphql-js `language/ast.ts`) back into the abstract syntax, positions erased. It is written against the
   graphql-js node types, not against nitrogql's printer:
     * a node is an object with a `kind` string; unknown kinds are rejected; unknown members (`loc`, `block`, …) are ignored;
     * members that graphql-js declares optional (`alias?`, `arguments?`, `directives?`, `variableDefinitions?`,
       `defaultValue?`, `name?` of operations, `typeCondition?` of inline fragments, `selectionSet?` of fields)
       may be absent (= empty / none); members it declares required must be present
       (`selectionSet` of operations, fragments and inline fragments, `typeCondition` of fragment definitions,
        `values`, `fields`, `selections`, `definitions`, `variable`, `type`, `value`, `name`);
     * `IntValue`/`FloatValue`/`StringValue`/`EnumValue` carry their text in a JSON string, `BooleanValue` a JSON boolean.
   The reader works bottom-up (every JSON object is first read as whatever node its `kind` says, from the readings of
   its members), which makes it structurally recursive and kernel-evaluable without fuel.

2. `erase…` — the abstract syntax with every position replaced by `Pos.none` ("positions ignored").

3. `spreads`, `visit`, `closure` — the reference transitive closure of fragment spreads: the textbook depth-first
   search over the *graph* whose nodes are fragment names and whose edges are "the body of A spreads B"
   (through fields and inline fragments), listing names in first-visit order; and `Reach`, the inductive
   (algorithm-free) definition of "transitively spread from".
Core Lean only.
-/
import NitroVerif.Base.Json
import NitroVerif.Gql.Ast
namespace NitroVerif.ReadDoc
open NitroVerif NitroVerif.Gql

/-! ### positions erased -/

def eraseArgs : List Arg → List Arg := Value.erasePosFields

def eraseDir (d : Directive) : Directive :=
  { name := d.name, namePos := Pos.none, args := eraseArgs d.args, pos := Pos.none }

def eraseOptName : Option (Name × Pos) → Option (Name × Pos)
  | none => none
  | some (n, _) => some (n, Pos.none)

mutual
def eraseSel : Selection → Selection
  | .field al n _ args dirs (some ss) =>
    .field (eraseOptName al) n Pos.none (eraseArgs args) (dirs.map eraseDir) (some (eraseSels ss))
  | .field al n _ args dirs none =>
    .field (eraseOptName al) n Pos.none (eraseArgs args) (dirs.map eraseDir) none
  | .spread n _ dirs _ => .spread n Pos.none (dirs.map eraseDir) Pos.none
  | .inline c dirs ss _ => .inline (eraseOptName c) (dirs.map eraseDir) (eraseSels ss) Pos.none
def eraseSels : List Selection → List Selection
  | [] => []
  | s :: r => eraseSel s :: eraseSels r
end

def eraseVarDef (v : VarDef) : VarDef :=
  { name := v.name, pos := Pos.none, ty := v.ty.erasePos, default := v.default.map Value.erasePos,
    dirs := v.dirs.map eraseDir }

def eraseOp (o : OperationDef) : OperationDef :=
  { kind := o.kind, name := eraseOptName o.name, vars := o.vars.map eraseVarDef, dirs := o.dirs.map eraseDir,
    sel := eraseSels o.sel, pos := Pos.none }

def eraseFrag (f : FragmentDef) : FragmentDef :=
  { name := f.name, namePos := Pos.none, cond := f.cond, condPos := Pos.none, dirs := f.dirs.map eraseDir,
    sel := eraseSels f.sel, pos := Pos.none }

def eraseDef : ExecDef → ExecDef
  | .op o => .op (eraseOp o)
  | .frag f => .frag (eraseFrag f)
  | .imp i => .imp { targets := i.targets.map eraseOptName, path := i.path, pos := Pos.none }

/-- a document with all positions erased -/
def erasePos (defs : List ExecDef) : List ExecDef := defs.map eraseDef

/-! ### the documents the property quantifies over -/

mutual
/-- no selection set is empty (the grammar requires at least one selection between braces) -/
def selOk : Selection → Bool
  | .field _ _ _ _ _ (some ss) => !ss.isEmpty && selsOk ss
  | .field _ _ _ _ _ none => true
  | .spread _ _ _ _ => true
  | .inline _ _ ss _ => !ss.isEmpty && selsOk ss
def selsOk : List Selection → Bool
  | [] => true
  | s :: r => selOk s && selsOk r
end

/-- a definition of an import-resolved, parsed document: an operation or a fragment (no `#import` line is left)
    whose selection sets are all non-empty -/
def defOk : ExecDef → Bool
  | .op o => !o.sel.isEmpty && selsOk o.sel
  | .frag f => !f.sel.isEmpty && selsOk f.sel
  | .imp _ => false

/-- an import-resolved document as the parser can produce it -/
def Resolved (defs : List ExecDef) : Prop := ∀ d ∈ defs, defOk d = true

instance (defs : List ExecDef) : Decidable (Resolved defs) := by unfold Resolved; infer_instance

/-! ### the reader -/

/-- what a JSON object can be read as -/
inductive Node where
  | name (s : String)
  | value (v : Value)
  | type (t : GType)
  | arg (a : Arg)
  | objField (a : Arg)
  | dir (d : Directive)
  | sel (s : Selection)
  | selSet (ss : List Selection)
  | varDef (v : VarDef)
  | defn (d : ExecDef)
  | doc (ds : List ExecDef)

/-- reading of an arbitrary JSON value -/
inductive R where
  | null
  | bool (b : Bool)
  | num (raw : String)
  | str (s : String)
  | arr (rs : List R)
  | node (n : Node)
  | bad

/-- member `k` (first occurrence) -/
def fld (k : String) : List (String × R) → Option R
  | [] => none
  | (k', v) :: r => if k' = k then some v else fld k r

/-- all elements satisfy `p` -/
def collect {α : Type} (p : R → Option α) : List R → Option (List α)
  | [] => some []
  | r :: rs => match p r, collect p rs with
    | some a, some as => some (a :: as)
    | _, _ => none

def asName : R → Option String
  | .node (.name s) => some s
  | _ => none
def asValue : R → Option Value
  | .node (.value v) => some v
  | _ => none
def asType : R → Option GType
  | .node (.type t) => some t
  | _ => none
def asArg : R → Option Arg
  | .node (.arg a) => some a
  | _ => none
def asObjField : R → Option Arg
  | .node (.objField a) => some a
  | _ => none
def asDir : R → Option Directive
  | .node (.dir d) => some d
  | _ => none
def asSel : R → Option Selection
  | .node (.sel s) => some s
  | _ => none
def asSelSet : R → Option (List Selection)
  | .node (.selSet ss) => some ss
  | _ => none
def asVarDef : R → Option VarDef
  | .node (.varDef v) => some v
  | _ => none
def asDef : R → Option ExecDef
  | .node (.defn d) => some d
  | _ => none
/-- the name of a `NamedType` node (type conditions) -/
def asNamedType : R → Option String
  | .node (.type (.named n _)) => some n
  | _ => none
/-- the name of a `Variable` node (`VariableDefinition.variable`) -/
def asVariable : R → Option String
  | .node (.value (.var n _)) => some n
  | _ => none
def asStr : R → Option String
  | .str s => some s
  | _ => none
def asBool : R → Option Bool
  | .bool b => some b
  | _ => none

/-- required member read by `p` -/
def req {α : Type} (m : List (String × R)) (k : String) (p : R → Option α) : Option α :=
  match fld k m with
  | some r => p r
  | none => none

/-- optional member: absent → `none`; present → must be readable by `p` -/
def opt {α : Type} (m : List (String × R)) (k : String) (p : R → Option α) : Option (Option α) :=
  match fld k m with
  | some r => (p r).map some
  | none => some none

/-- required array member -/
def reqList {α : Type} (m : List (String × R)) (k : String) (p : R → Option α) : Option (List α) :=
  match fld k m with
  | some (.arr rs) => collect p rs
  | _ => none

/-- optional array member: absent → `[]` -/
def optList {α : Type} (m : List (String × R)) (k : String) (p : R → Option α) : Option (List α) :=
  match fld k m with
  | some (.arr rs) => collect p rs
  | some _ => none
  | none => some []

def opKindOf (s : String) : Option OpKind :=
  if s = "query" then some .query
  else if s = "mutation" then some .mutation
  else if s = "subscription" then some .subscription
  else none

def withNone (n : Option String) : Option (Name × Pos) := n.map fun s => (s, Pos.none)

/-- read one JSON object from the readings of its members, by its `kind` (graphql-js `Kind` values) -/
def assemble (m : List (String × R)) : Option Node :=
  match req m "kind" asStr with
  | none => none
  | some k =>
    if k = "Name" then do
      some (.name (← req m "value" asStr))
    else if k = "Variable" then do
      some (.value (.var (← req m "name" asName) Pos.none))
    else if k = "IntValue" then do
      some (.value (.int (← req m "value" asStr) Pos.none))
    else if k = "FloatValue" then do
      some (.value (.float (← req m "value" asStr) Pos.none))
    else if k = "StringValue" then do
      some (.value (.str (← req m "value" asStr) Pos.none))
    else if k = "BooleanValue" then do
      some (.value (.bool (← req m "value" asBool) Pos.none))
    else if k = "NullValue" then
      some (.value (.null Pos.none))
    else if k = "EnumValue" then do
      some (.value (.enum (← req m "value" asStr) Pos.none))
    else if k = "ListValue" then do
      some (.value (.list (← reqList m "values" asValue) Pos.none))
    else if k = "ObjectValue" then do
      some (.value (.obj (← reqList m "fields" asObjField) Pos.none))
    else if k = "ObjectField" then do
      some (.objField (← req m "name" asName, Pos.none, ← req m "value" asValue))
    else if k = "Argument" then do
      some (.arg (← req m "name" asName, Pos.none, ← req m "value" asValue))
    else if k = "Directive" then do
      some (.dir { name := ← req m "name" asName, namePos := Pos.none, args := ← optList m "arguments" asArg,
                   pos := Pos.none })
    else if k = "NamedType" then do
      some (.type (.named (← req m "name" asName) Pos.none))
    else if k = "ListType" then do
      some (.type (.list (← req m "type" asType) Pos.none))
    else if k = "NonNullType" then do
      some (.type (.nonNull (← req m "type" asType)))
    else if k = "Field" then do
      some (.sel (.field (withNone (← opt m "alias" asName)) (← req m "name" asName) Pos.none
        (← optList m "arguments" asArg) (← optList m "directives" asDir) (← opt m "selectionSet" asSelSet)))
    else if k = "FragmentSpread" then do
      some (.sel (.spread (← req m "name" asName) Pos.none (← optList m "directives" asDir) Pos.none))
    else if k = "InlineFragment" then do
      some (.sel (.inline (withNone (← opt m "typeCondition" asNamedType)) (← optList m "directives" asDir)
        (← req m "selectionSet" asSelSet) Pos.none))
    else if k = "SelectionSet" then do
      some (.selSet (← reqList m "selections" asSel))
    else if k = "VariableDefinition" then do
      some (.varDef { name := ← req m "variable" asVariable, pos := Pos.none, ty := ← req m "type" asType,
                      default := ← opt m "defaultValue" asValue, dirs := ← optList m "directives" asDir })
    else if k = "OperationDefinition" then do
      let op ← req m "operation" asStr
      some (.defn (.op { kind := ← opKindOf op, name := withNone (← opt m "name" asName),
                         vars := ← optList m "variableDefinitions" asVarDef, dirs := ← optList m "directives" asDir,
                         sel := ← req m "selectionSet" asSelSet, pos := Pos.none }))
    else if k = "FragmentDefinition" then do
      some (.defn (.frag { name := ← req m "name" asName, namePos := Pos.none,
                           cond := ← req m "typeCondition" asNamedType, condPos := Pos.none,
                           dirs := ← optList m "directives" asDir, sel := ← req m "selectionSet" asSelSet,
                           pos := Pos.none }))
    else if k = "Document" then do
      some (.doc (← reqList m "definitions" asDef))
    else none

mutual
/-- bottom-up reading of a JSON tree -/
def rd : Json → R
  | .null => .null
  | .bool b => .bool b
  | .num s => .num s
  | .str s => .str s
  | .arr xs => .arr (rdList xs)
  | .obj kvs => match assemble (rdFields kvs) with
    | some n => .node n
    | none => .bad
def rdList : List Json → List R
  | [] => []
  | x :: xs => rd x :: rdList xs
def rdFields : List (String × Json) → List (String × R)
  | [] => []
  | (k, v) :: r => (k, rd v) :: rdFields r
end

/-- the executable definitions denoted by a graphql-js `DocumentNode` JSON value -/
def readDoc (j : Json) : Option (List ExecDef) :=
  match rd j with
  | .node (.doc ds) => some ds
  | _ => none

/-! ### reference closure of fragment spreads -/

mutual
/-- names spread directly in a selection list (through fields and inline fragments, NOT through fragments),
    in document order, with repetitions -/
def spreadsSel : Selection → List Name
  | .field _ _ _ _ _ (some ss) => spreads ss
  | .field _ _ _ _ _ none => []
  | .spread n _ _ _ => [n]
  | .inline _ _ ss _ => spreads ss
def spreads : List Selection → List Name
  | [] => []
  | s :: r => spreadsSel s ++ spreads r
end

/-- a fragment environment: name ↦ body of the fragment of that name (if any) -/
abbrev Env := Name → Option (List Selection)

/-- "`n` is transitively spread from the selection list `ss`" — inductive, algorithm-free -/
inductive Reach (env : Env) : List Selection → Name → Prop where
  | direct {ss n} : n ∈ spreads ss → Reach env ss n
  | step {ss m body n} : Reach env ss m → env m = some body → Reach env body n → Reach env ss n

/-- visit a list of nodes one after the other with the visitor `v` -/
def visitAll (v : Name → List Name → Option (List Name)) : List Name → List Name → Option (List Name)
  | [], vis => some vis
  | c :: cs, vis => match v c vis with
    | some vis' => visitAll v cs vis'
    | none => none

/-- depth-first visit of the node `x` with the visited list `vis` (first-visit order); the `Nat` bounds the
    recursion depth (`none` = bound exceeded; `closure_total` shows it never is) -/
def visit (env : Env) : Nat → Name → List Name → Option (List Name)
  | d, x, vis =>
    if x ∈ vis then some vis
    else match env x with
      | none => some (vis ++ [x])
      | some body => match d with
        | 0 => none
        | d + 1 => visitAll (visit env d) (spreads body) (vis ++ [x])

/-- names of all fragments transitively spread from `ss`, each once, in first-visit order; `bound` must be at
    least the number of distinct fragment names of `env` plus one -/
def closure (env : Env) (bound : Nat) (ss : List Selection) : Option (List Name) :=
  visitAll (visit env bound) (spreads ss) []

end NitroVerif.ReadDoc
