/-
Executable reference specification of GraphQL execution, as far as the SHAPE of a response is concerned
(GraphQL spec October 2021, §6.3 "Executing Selection Sets", §6.4 "Executing Fields"), written from the
specification text and independently of nitrogql's printer.

  collectFields   §6.3.2 CollectFields: @skip/@include under a variable assignment σ, type conditions
                  (DoesFragmentTypeApply), visitedFragments; the result is the ordered map responseKey ↦ fields.
                  (Written as a work list: the recursive calls of the specification process the fragment's
                  selections before the remaining siblings and append the groups in that order, which is exactly
                  what pushing the fragment's selections in front of the work list does; `visitedFragments` is the
                  one mutable set the specification threads through.)
  mergedSub       §6.4.3 MergeSelectionSets
  completeB       §6.4.3 CompleteValue: non-null, lists of any length, leaves, composite types with ANY possible
                  runtime object type (ResolveAbstractType is unconstrained)
  Exec  c σ T ss v     `v` is the data of SOME spec-conformant execution of selection set `ss` on an object of type
                       `T` under the Boolean variable values σ (any resolver results, any nullable position null —
                       which also covers the results of error propagation —, any list length)
  RefLocal c T ss v    the same with σ re-chosen at EVERY selection set (the per-selection-set reading of C02)

`Exec`/`RefLocal` are defined by recursion on a depth index (`ExecN`, `RefLocalN`) through the one-level check
`setOkB`, which is Boolean and parameterised by the test used for nested objects; the Prop-level `SetOk R`
says "some Boolean test that implies R makes `setOkB` succeed" (classically: R itself), so that no induction
over values is ever needed.  `execMem` / `refLocalMem` are the executable deciders (sound by `execMem_sound` /
`refLocalMem_sound` in Props/C01.lean), `enumerate` the bounded enumerator of responses used by the O stream.
Core Lean only; everything structurally recursive.
-/
import NitroVerif.Gql.Schema
import NitroVerif.Ts.Sem
namespace NitroVerif.Exec
open NitroVerif.Gql
open NitroVerif.Ts (J)

/-- what the specification is parameterised by: the schema, the fragments of the document, the set of values of
    each scalar type (result coercion is scalar-specific: C09's subject), and the fuel of the work lists -/
structure Ctx where
  S : Schema
  F : Name → Option FragmentDef
  scalar : Name → J → Bool
  fuel : Nat

/-- the fragment definitions of a document (names are unique in a valid document) -/
def fragsOf (d : Doc) : Name → Option FragmentDef := fun n =>
  d.findSome? fun x => match x with
    | .frag f => if f.name == n then some f else none
    | _ => none

abbrev Sigma := Name → Bool

def sigmaOf (a : List (Name × Bool)) : Sigma := fun v =>
  match a.find? (·.1 == v) with
  | some (_, b) => b
  | none => false

/-- value of the `if` argument of a directive under σ -/
def dirIf (σ : Sigma) (d : Directive) : Option Bool :=
  match d.args.find? (·.1 == "if") with
  | some (_, _, .bool b _) => some b
  | some (_, _, .var v _) => some (σ v)
  | _ => none

/-- §6.3.2 step 3.a/3.b: the selection is kept unless `@skip(if: true)` or `@include(if: false)` -/
def included (σ : Sigma) (ds : List Directive) : Bool :=
  ds.all fun d =>
    if d.name == "skip" then dirIf σ d != some true
    else if d.name == "include" then dirIf σ d != some false
    else true

/-- DoesFragmentTypeApply(objectType, fragmentType) -/
def fragmentTypeApplies (S : Schema) (obj fragType : Name) : Bool :=
  match S.typeDef? fragType with
  | some t =>
    match t.kind with
    | .object => t.name == obj
    | .interface => match S.typeDef? obj with
      | some o => o.implements.any (·.1 == fragType)
      | none => false
    | .union => t.members.any (·.1 == obj)
    | _ => false
  | none => false

/-- a collected field: its name and its sub-selection -/
structure CField where
  name : Name
  sub : Option (List Selection)
  deriving Inhabited

abbrev Groups := List (Name × List CField)

/-- append a field to the group of its response key (ordered map: a new key goes to the end) -/
def addField (key : Name) (f : CField) : Groups → Groups
  | [] => [(key, [f])]
  | (k, fs) :: r => if k == key then (k, fs ++ [f]) :: r else (k, fs) :: addField key f r

def selDirs : Selection → List Directive
  | .field _ _ _ _ ds _ => ds
  | .spread _ _ ds _ => ds
  | .inline _ ds _ _ => ds

/-- CollectFields as a work list -/
def collectGo (c : Ctx) (σ : Sigma) (obj : Name) : Nat → List Selection → List Name → Groups → Option Groups
  | 0, [], _, g => some g
  | 0, _ :: _, _, _ => none
  | _ + 1, [], _, g => some g
  | n + 1, s :: rest, visited, g =>
    if !included σ (selDirs s) then collectGo c σ obj n rest visited g
    else match s with
      | .field alias name _ _ _ sub =>
        let key := match alias with | some (a, _) => a | none => name
        collectGo c σ obj n rest visited (addField key ⟨name, sub⟩ g)
      | .spread nm _ _ _ =>
        if visited.contains nm then collectGo c σ obj n rest visited g
        else match c.F nm with
          | none => collectGo c σ obj n rest (nm :: visited) g
          | some f =>
            if fragmentTypeApplies c.S obj f.cond then collectGo c σ obj n (f.sel ++ rest) (nm :: visited) g
            else collectGo c σ obj n rest (nm :: visited) g
      | .inline cond _ ss _ =>
        match cond with
        | some (t, _) =>
          if fragmentTypeApplies c.S obj t then collectGo c σ obj n (ss ++ rest) visited g
          else collectGo c σ obj n rest visited g
        | none => collectGo c σ obj n (ss ++ rest) visited g

/-- CollectFields(objectType, selectionSet, variableValues) -/
def collectFields (c : Ctx) (σ : Sigma) (obj : Name) (ss : List Selection) : Option Groups :=
  collectGo c σ obj c.fuel ss [] []

/-- MergeSelectionSets(fields) -/
def mergedSub (fs : List CField) : List Selection :=
  fs.flatMap fun f => f.sub.getD []

/-- values of a leaf type: an enum value is the string of one of its members; a scalar's values are given -/
def leafOk (c : Ctx) (n : Name) (v : J) : Bool :=
  match c.S.typeDef? n with
  | some t =>
    match t.kind with
    | .enum => match v with
      | .str s => t.values.any (·.name == s)
      | _ => false
    | .scalar => c.scalar n v
    | _ => false
  | none => false

/-- CompleteValue for a named type: a composite type completes to the result of executing the merged
    sub-selection on ANY of its possible runtime object types -/
def namedOk (c : Ctx) (R : Name → List Selection → J → Bool) (sub : List Selection) (n : Name) (v : J) : Bool :=
  if c.S.isComposite n then (c.S.possibleTypes n).any fun o => R o sub v
  else leafOk c n v

mutual
/-- CompleteValue(fieldType, fields, result) for some result -/
def completeB (c : Ctx) (R : Name → List Selection → J → Bool) (sub : List Selection) : GType → J → Bool
  | .nonNull t, v => !v.isNull && completeNN c R sub t v
  | .named n _, v => v.isNull || namedOk c R sub n v
  | .list t _, v =>
    v.isNull || match v with
      | .arr xs => xs.all (completeB c R sub t)
      | _ => false
/-- … for a non-null result -/
def completeNN (c : Ctx) (R : Name → List Selection → J → Bool) (sub : List Selection) : GType → J → Bool
  | .nonNull t, v => completeNN c R sub t v
  | .named n _, v => namedOk c R sub n v
  | .list t _, v =>
    match v with
    | .arr xs => xs.all (completeB c R sub t)
    | _ => false
end

/-- ExecuteField for one response key: `__typename` is the name of the runtime object type; any other field
    completes at the type the object type declares for the first field of the group -/
def fieldOk (c : Ctx) (R : Name → List Selection → J → Bool) (obj : Name) (fs : List CField) (v : J) : Bool :=
  match fs with
  | [] => false
  | f :: _ =>
    if f.name == "__typename" then v == J.str obj
    else match c.S.field? obj f.name with
      | some fd => completeB c R (mergedSub fs) fd.ty v
      | none => false

/-- ExecuteSelectionSet, one level: the response map has exactly one entry per response key of the grouped field
    set, each a completed value, and no other entry.  Records are read the way `Ts/Sem.lean` reads them (`J.get`:
    a missing key is the value `absent`, which no field completes to — unless a scalar is configured with a
    TypeScript type that contains `undefined`). -/
def setOkB (c : Ctx) (R : Name → List Selection → J → Bool) (obj : Name) (g : Groups) (v : J) : Bool :=
  match v with
  | .obj kvs =>
    (g.all fun (key, fs) => fieldOk c R obj fs (J.get kvs key))
      && kvs.all fun kv => kv.2.isAbsent || g.any (·.1 == kv.1)
  | _ => false

/-- one level of ExecuteSelectionSet with nested objects satisfying `R` -/
def SetOk (c : Ctx) (R : Name → List Selection → J → Prop) (obj : Name) (g : Groups) (v : J) : Prop :=
  ∃ Rb : Name → List Selection → J → Bool, (∀ o s x, Rb o s x = true → R o s x) ∧ setOkB c Rb obj g v = true

/-- responses of nesting depth < n under the fixed assignment σ -/
def ExecN (c : Ctx) (σ : Sigma) : Nat → Name → List Selection → J → Prop
  | 0, _, _, _ => False
  | n + 1, obj, ss, v => ∃ g, collectFields c σ obj ss = some g ∧ SetOk c (ExecN c σ n) obj g v

/-- `v` is the data some spec-conformant execution returns for `ss` on an object of type `obj` under σ -/
def Exec (c : Ctx) (σ : Sigma) (obj : Name) (ss : List Selection) (v : J) : Prop := ∃ n, ExecN c σ n obj ss v

/-- the same with the assignment re-chosen at every selection set -/
def RefLocalN (c : Ctx) : Nat → Name → List Selection → J → Prop
  | 0, _, _, _ => False
  | n + 1, obj, ss, v => ∃ σ : Sigma, ∃ g, collectFields c σ obj ss = some g ∧ SetOk c (RefLocalN c n) obj g v

def RefLocal (c : Ctx) (obj : Name) (ss : List Selection) (v : J) : Prop := ∃ n, RefLocalN c n obj ss v

/-! ### executable deciders -/

def execMem (c : Ctx) (σ : Sigma) : Nat → Name → List Selection → J → Bool
  | 0, _, _, _ => false
  | n + 1, obj, ss, v =>
    match collectFields c σ obj ss with
    | some g => setOkB c (execMem c σ n) obj g v
    | none => false

/-- variables of the `if` arguments of `@skip`/`@include` -/
def dirVars (ds : List Directive) : List Name :=
  ds.filterMap fun d =>
    if d.name == "skip" || d.name == "include" then
      match d.args.find? (·.1 == "if") with
      | some (_, _, .var v _) => some v
      | _ => none
    else none

/-- the Boolean variables a selection set's own `@skip`/`@include` mention (through fragments and inline
    fragments, whatever their type conditions; `deep` also enters the sub-selections of fields) -/
def varsGo (c : Ctx) (deep : Bool) : Nat → List Selection → List Name → List Name → List Name
  | 0, _, _, acc => acc
  | _ + 1, [], _, acc => acc
  | n + 1, s :: rest, visited, acc =>
    let acc := acc ++ (dirVars (selDirs s)).filter fun v => !acc.contains v
    match s with
    | .field _ _ _ _ _ sub =>
      if deep then varsGo c deep n (sub.getD [] ++ rest) visited acc else varsGo c deep n rest visited acc
    | .spread nm _ _ _ =>
      if visited.contains nm then varsGo c deep n rest visited acc
      else match c.F nm with
        | some f => varsGo c deep n (f.sel ++ rest) (nm :: visited) acc
        | none => varsGo c deep n rest (nm :: visited) acc
    | .inline _ _ ss _ => varsGo c deep n (ss ++ rest) visited acc

def selVars (c : Ctx) (ss : List Selection) : List Name := (varsGo c false c.fuel ss [] []).eraseDups
def allVars (c : Ctx) (ss : List Selection) : List Name := (varsGo c true c.fuel ss [] []).eraseDups

/-- all total assignments of a list of variables -/
def assignments : List Name → List (List (Name × Bool))
  | [] => [[]]
  | v :: vs => (assignments vs).flatMap fun a => [(v, false) :: a, (v, true) :: a]

/-- decides `RefLocalN` (sound: `refLocalMem_sound`): the assignment of a selection set only matters on the
    variables that selection set mentions, so those are enumerated -/
def refLocalMem (c : Ctx) : Nat → Name → List Selection → J → Bool
  | 0, _, _, _ => false
  | n + 1, obj, ss, v =>
    (assignments (selVars c ss)).any fun a =>
      match collectFields c (sigmaOf a) obj ss with
      | some g => setOkB c (refLocalMem c n) obj g v
      | none => false

/-! ### bounded enumeration of responses (O stream) -/

/-- the k-th "diagonal" choice: every field takes its (k mod n)-th alternative -/
def diagonal (k : Nat) (alts : List (Name × List J)) : Option (List (Name × J)) :=
  alts.mapM fun (key, xs) => (xs[k % xs.length]?).map fun x => (key, x)

/-- one field varied, the others at their first alternative -/
def oneAtATime (alts : List (Name × List J)) : List (List (Name × J)) :=
  match diagonal 0 alts with
  | none => []
  | some base =>
    alts.flatMap fun (key, xs) =>
      (xs.drop 1).map fun x => base.map fun (k, b) => if k == key then (k, x) else (k, b)

/-- records over the alternatives of each key: the diagonals (every alternative of every key occurs) and the
    one-at-a-time variations; Σ rather than Π of the numbers of alternatives -/
def combos (alts : List (Name × List J)) : List (List (Name × J)) :=
  if alts.any (·.2.isEmpty) then []
  else
    let m := alts.foldl (fun m a => max m a.2.length) 1
    (List.range m).filterMap (diagonal · alts) ++ oneAtATime alts

/-- list values over element alternatives: lengths 0, 1, 2 -/
def listAlts (xs : List J) : List J :=
  match xs with
  | [] => [.arr []]
  | x0 :: r =>
    [.arr [x0], .arr [], .arr [x0, r.headD x0]] ++ (r.map fun x => J.arr [x])

mutual
def typeAlts (named : Name → List J) : GType → List J
  | .nonNull t => typeAltsNN named t
  | .named n _ => named n ++ [.null]
  | .list t _ => listAlts (typeAlts named t) ++ [.null]
def typeAltsNN (named : Name → List J) : GType → List J
  | .nonNull t => typeAltsNN named t
  | .named n _ => named n
  | .list t _ => listAlts (typeAlts named t)
end

/-- responses of `ss` on an object of type `obj` under σ; `width` bounds the alternatives kept per nested object -/
def enumSet (c : Ctx) (samples : Name → List J) (σ : Sigma) (width : Nat) : Nat → Name → List Selection → List J
  | 0, _, _ => []
  | n + 1, obj, ss =>
    match collectFields c σ obj ss with
    | none => []
    | some g =>
      let alts : List (Name × List J) := g.map fun (key, fs) =>
        (key, match fs with
          | [] => []
          | f :: _ =>
            if f.name == "__typename" then [J.str obj]
            else match c.S.field? obj f.name with
              | none => []
              | some fd =>
                typeAlts (fun tn =>
                  if c.S.isComposite tn then
                    (c.S.possibleTypes tn).flatMap fun o => (enumSet c samples σ width n o (mergedSub fs)).take width
                  else match c.S.typeDef? tn with
                    | some t => if t.kind == .enum then t.values.map (J.str ·.name) else samples tn
                    | none => []) fd.ty)
      (combos alts).map J.obj

/-- the assignments tried: all of them for up to 5 variables, otherwise all-false, all-true and every variable
    flipped alone against both -/
def sigmas (vars : List Name) : List (List (Name × Bool)) :=
  if vars.length ≤ 5 then assignments vars
  else
    let allF := vars.map (·, false)
    let allT := vars.map (·, true)
    [allF, allT] ++ vars.map (fun v => allF.map fun (k, b) => if k == v then (k, true) else (k, b))
      ++ vars.map (fun v => allT.map fun (k, b) => if k == v then (k, false) else (k, b))

/-- bounded enumeration of the responses of a selection set: every σ over the Boolean variables in play, every
    runtime type, null / non-null at each nullable position, list lengths 0/1/2 — at most `cap` values -/
def enumerate (c : Ctx) (samples : Name → List J) (root : Name) (ss : List Selection) (cap : Nat) :
    List (List (Name × Bool) × J) :=
  let σs := sigmas (allVars c ss)
  let per := max 1 (cap / max 1 σs.length)
  σs.flatMap fun a => ((enumSet c samples (sigmaOf a) 6 c.fuel root ss).take per).map fun v => (a, v)

/-! ### the abstract value domain of C02's quantifier (mutants of responses) -/

def foreignAtom : J := .atom "__foreign__"

/-- replacements tried at every position: (kind, value) -/
def replacements (lits : List String) (v : J) : List (String × J) :=
  ([("null", J.null), ("foreign-atom", foreignAtom), ("foreign-string", .str "__foreign__"), ("number", .num),
    ("empty-list", .arr []), ("singleton-list", .arr [v]), ("empty-record", .obj [])]
    ++ lits.map fun l => ("literal", J.str l)).filter fun r => !(r.2 == v)

mutual
/-- single-point mutants of a value -/
def mutate (lits : List String) (keys : List String) : J → List (String × J)
  | .arr xs =>
    replacements lits (.arr xs) ++ (mutateList lits keys xs).map (fun (k, l) => (k, J.arr l))
      ++ [("list-extended", .arr (xs ++ [foreignAtom]))]
  | .obj kvs =>
    [("extra-key", .obj (kvs ++ [("__extra__", .null)]))]
      ++ (keys.filter fun k => !kvs.any (·.1 == k)).map (fun k => ("extra-key", J.obj (kvs ++ [(k, .str "__foreign__")])))
      ++ (mutateFields lits keys kvs).map (fun (k, l) => (k, J.obj l))
      ++ replacements lits (.obj kvs)
  | v => replacements lits v
def mutateList (lits : List String) (keys : List String) : List J → List (String × List J)
  | [] => []
  | x :: xs =>
    (mutate lits keys x).map (fun (k, y) => (k, y :: xs)) ++ (mutateList lits keys xs).map (fun (k, l) => (k, x :: l))
def mutateFields (lits : List String) (keys : List String) : List (String × J) → List (String × List (String × J))
  | [] => []
  | (k, x) :: r =>
    [("key-dropped", r)] ++ (mutate lits keys x).map (fun (kind, y) => (kind, (k, y) :: r))
      ++ (mutateFields lits keys r).map (fun (kind, l) => (kind, (k, x) :: l))
end

/-- response keys and field names that occur in a document (candidates for extra keys) -/
def keysGo : Nat → List Selection → List String → List String
  | 0, _, acc => acc
  | _ + 1, [], acc => acc
  | n + 1, s :: rest, acc =>
    match s with
    | .field alias name _ _ _ sub =>
      let key := match alias with | some (a, _) => a | none => name
      let acc := if acc.contains key then acc else acc ++ [key]
      let acc := if acc.contains name then acc else acc ++ [name]
      keysGo n (sub.getD [] ++ rest) acc
    | .spread .. => keysGo n rest acc
    | .inline _ _ ss _ => keysGo n (ss ++ rest) acc

def keysInPlay (d : Doc) : List String :=
  let all := d.flatMap fun x => match x with
    | .op o => o.sel
    | .frag f => f.sel
    | .imp _ => []
  (keysGo (2 * all.length + 2000) all []).take 3

/-- literals in play: object type names and enum values -/
def litsInPlay (S : Schema) : List String :=
  ((S.typeDefs.filter (·.kind == .object)).map (·.name)).take 2
    ++ ((S.typeDefs.filter (·.kind == .enum)).flatMap fun t => t.values.map (·.name)).take 1

/-- the abstract values tested for a definition: the responses themselves and their single-point mutants -/
def mutants (keys lits : List String) (base : List J) (cap : Nat) : List (String × J) :=
  let bs := base.take 6
  let per := max 1 (4 * cap / max 1 bs.length)
  (base.map fun v => ("response", v)) ++ bs.flatMap fun v => (mutate lits keys v).take per

end NitroVerif.Exec
