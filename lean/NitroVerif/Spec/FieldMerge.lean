/-
Reference statement of GraphQL specification (October 2021) §5.3.2 "Field Selection Merging", written from the
specification's algorithms `FieldsInSetCanMerge` and `SameResponseShape` in the style of `Spec/Valid.lean`
(executable predicate, structurally recursive, kernel-evaluable).

  FieldsInSetCanMerge(set):
    fieldsForName = the fields of `set` with a given response name, *including visiting fragments and inline
                    fragments*                                                                (`fieldsAt`)
    for every pair fieldA, fieldB in fieldsForName:
      SameResponseShape(fieldA, fieldB) must be true
      if the parent types of fieldA and fieldB are equal or if either is not an Object Type:
        fieldA and fieldB must have identical field names
        fieldA and fieldB must have identical sets of arguments
        FieldsInSetCanMerge(selection set of fieldA ∪ selection set of fieldB) must be true

  SameResponseShape(fieldA, fieldB):
    unwrap Non-Null and List in parallel (a mismatch of wrappers is a failure)
    if either named type is a Scalar or Enum: they must be the same type
    otherwise (composite): every pair of equally-keyed fields of the union of the two sub-selection sets must have
    SameResponseShape

  rule: FieldsInSetCanMerge(set) for EVERY selection set of the document (`Valid.allCtxs`).

`Valid.rule_5_3_2` (in `Spec/Valid.lean`) is only a document-wide *sufficient* condition for this rule; the
predicate here is the rule itself. Both recursions of the specification go through fragment spreads, so they are
bounded here by fuels: the spread expansion by the stack of fragment names (as in `Valid`/the checker, fuel =
#fragments + 1), the descent into sub-selections by `mergeFuel D` = total size of the document + 1 (each step
descends one level of field nesting, possibly inside a fragment). An exhausted fuel counts as "can merge", so a
`false` verdict always exhibits a genuine conflict.

NOT implemented by nitrogql's checker (`Props/C03FieldMerge.lean` proves that on a witness).
Core Lean only.
-/
import NitroVerif.Spec.Valid
namespace NitroVerif.FieldMerge
open NitroVerif.Gql NitroVerif.Valid

/-- a field selection together with the type it is selected on -/
structure FieldAt where
  parent : Name
  key : Name
  name : Name
  args : List Arg
  sel : Option (List Selection)

abbrev FlatHandler := List Name → Name → List FieldAt

mutual
/-- the fields at the level of a selection set, through inline fragments (type condition = new parent type) and
    fragment spreads (`H`) -/
def fieldsAtSel (H : FlatHandler) (seen : List Name) (parent : Name) : Selection → List FieldAt
  | .field (some (a, _)) n _ args _ sel => [⟨parent, a, n, args, sel⟩]
  | .field none n _ args _ sel => [⟨parent, n, n, args, sel⟩]
  | .spread n _ _ _ => H seen n
  | .inline (some (c, _)) _ ss _ => fieldsAtSels H seen c ss
  | .inline none _ ss _ => fieldsAtSels H seen parent ss
def fieldsAtSels (H : FlatHandler) (seen : List Name) (parent : Name) : List Selection → List FieldAt
  | [] => []
  | s :: ss => fieldsAtSel H seen parent s ++ fieldsAtSels H seen parent ss
end

/-- expansion of a fragment spread: each fragment at most once along a path of spreads -/
def flatHandler (D : Doc) : Nat → FlatHandler
  | 0 => fun _ _ => []
  | fuel + 1 => fun seen n =>
    if seen.contains n then []
    else match frag? D n with
      | some f => fieldsAtSels (flatHandler D fuel) (seen ++ [n]) f.cond f.sel
      | none => []

/-- "the fields of `set`, including visiting fragments and inline fragments" -/
def fieldsAt (D : Doc) (parent : Name) (ss : List Selection) : List FieldAt :=
  fieldsAtSels (flatHandler D (reachFuel D)) [] parent ss

/-- the declared type of the field (none when the field is not defined — not this rule's business) -/
def fieldType (S : Schema) (f : FieldAt) : Option GType := (fieldDef? S f.parent f.name).map (·.ty)

/-- the fields of the sub-selection set of a field (parent type = the field's unwrapped type) -/
def subFields (S : Schema) (D : Doc) (f : FieldAt) : List FieldAt :=
  match f.sel, fieldType S f with
  | some ss, some t => fieldsAt D t.unwrapped ss
  | _, _ => []

/-- unwrap Non-Null and List wrappers in parallel; `none` = the wrappers differ -/
def unwrapBoth : GType → GType → Option (Name × Name)
  | .nonNull a, .nonNull b => unwrapBoth a b
  | .nonNull _, _ => none
  | _, .nonNull _ => none
  | .list a _, .list b _ => unwrapBoth a b
  | .list _ _, _ => none
  | _, .list _ _ => none
  | .named a _, .named b _ => some (a, b)

def isLeafType (S : Schema) (n : Name) : Bool :=
  match S.kindOf? n with
  | some k => isLeafKind k
  | none => false

/-- spec `SameResponseShape(fieldA, fieldB)` -/
def sameResponseShape (S : Schema) (D : Doc) : Nat → FieldAt → FieldAt → Bool
  | 0, _, _ => true
  | fuel + 1, a, b =>
    match fieldType S a, fieldType S b with
    | some ta, some tb =>
      (match unwrapBoth ta tb with
       | none => false
       | some (na, nb) =>
         if isLeafType S na || isLeafType S nb then na == nb
         else
           let merged := subFields S D a ++ subFields S D b
           merged.all fun x => merged.all fun y => x.key != y.key || sameResponseShape S D fuel x y)
    | _, _ => true

def isObjectType (S : Schema) (n : Name) : Bool := S.kindOf? n == some .object

/-- "identical sets of arguments": the same argument names with the same values (positions ignored) -/
def sameArguments (a b : List Arg) : Bool :=
  let sub (x y : List Arg) := x.all fun p => y.any fun q => p.1 == q.1 && Value.erasePos p.2.2 == Value.erasePos q.2.2
  sub a b && sub b a

/-- spec `FieldsInSetCanMerge(set)`, `set` given by its fields -/
def fieldsCanMerge (S : Schema) (D : Doc) (shapeFuel : Nat) : Nat → List FieldAt → Bool
  | 0, _ => true
  | fuel + 1, fs =>
    fs.all fun a => fs.all fun b =>
      a.key != b.key ||
      (sameResponseShape S D shapeFuel a b &&
       (if a.parent == b.parent || !isObjectType S a.parent || !isObjectType S b.parent then
          a.name == b.name && sameArguments a.args b.args &&
          fieldsCanMerge S D shapeFuel fuel (subFields S D a ++ subFields S D b)
        else true))

def defSize : ExecDef → Nat
  | .op o => Selection.sizeList o.sel + 1
  | .frag f => Selection.sizeList f.sel + 1
  | .imp _ => 0

/-- bound on the nesting depth of field selections reachable through spreads -/
def mergeFuel (D : Doc) : Nat := (D.map defSize).sum + 1

/-- 5.3.2 Field Selection Merging: `FieldsInSetCanMerge(set)` holds for every selection set of the document whose
    type in scope is known -/
def rule_5_3_2 (S : Schema) (D : Doc) : Bool :=
  (allCtxs S D).all fun c =>
    match c.parent with
    | some t => fieldsCanMerge S D (mergeFuel D) (mergeFuel D) (fieldsAt D t c.sels)
    | none => true

end NitroVerif.FieldMerge
