import NitroVerif.Spec.GqlTokens
/-
Reference specification (C16, token level, continued): canonical token streams of the TYPE-SYSTEM definitions
(GraphQL specification October 2021, §3 — the productions are quoted beside each function), and a recursive-descent
token parser, written from the productions, for
  * executable documents (§2.2–§2.12: operations, variable definitions, selection sets, fields, fragment spreads,
    inline fragments, fragment definitions), and
  * type-system documents with extensions (§3: schema / scalar / object / interface / union / enum / input-object
    definitions and extensions, directive definitions).
Plus "positions erased" (`erase…`) and "what the grammar can produce" (`wf…`) for every kind of node.

Conventions
  * Strings (descriptions, string values) are tokens by VALUE (`LTok.str`).
  * Where the grammar allows an optional leading separator (`implements &? A & B`, `= |? A | B`, `on |? A | B`) the
    canonical stream has it (the parser below accepts both forms).
  * Optional parts that are lists (`Directives?`, `FieldsDefinition?`, `ArgumentsDefinition?` …) are present in the
    stream iff the list is non-empty (the grammar requires one entry between the brackets).
  * All parsers take a fuel argument (structural recursion); `parseTsDocument` / `parseExecDocument` supply enough.
Core Lean only.
-/
namespace NitroVerif.GqlTokens
open NitroVerif.Gql

/-- concatenated streams of a list of nodes -/
def listToks {α : Type} (t : α → List LTok) : List α → List LTok
  | [] => []
  | x :: xs => t x ++ listToks t xs

/-! ### canonical token streams: type system -/

/-- `Description : StringValue` -/
def descToks : Option String → List LTok
  | none => []
  | some s => [.str s]

/-- `InputValueDefinition : Description? Name : Type DefaultValue? Directives[Const]?` -/
def inputValueDefToks (v : InputValueDef) : List LTok :=
  descToks v.desc ++ .name v.name :: .p ":" :: (typeToks v.ty ++
    (match v.default with
     | some d => .p "=" :: valueToks d
     | none => []) ++ dirsToks v.dirs)

/-- `ArgumentsDefinition : ( InputValueDefinition+ )` -/
def argDefsToks : List InputValueDef → List LTok
  | [] => []
  | v :: vs => .p "(" :: (listToks inputValueDefToks (v :: vs) ++ [.p ")"])

/-- `FieldDefinition : Description? Name ArgumentsDefinition? : Type Directives[Const]?` -/
def fieldDefToks (f : FieldDef) : List LTok :=
  descToks f.desc ++ .name f.name :: (argDefsToks f.args ++ .p ":" :: (typeToks f.ty ++ dirsToks f.dirs))

/-- `EnumValueDefinition : Description? EnumValue Directives[Const]?` -/
def enumValueDefToks (v : EnumValueDef) : List LTok :=
  descToks v.desc ++ .name v.name :: dirsToks v.dirs

/-- `{ X+ }`, absent when there is no `X` (`FieldsDefinition?`, `EnumValuesDefinition?`, `InputFieldsDefinition?`) -/
def bracedToks {α : Type} (t : α → List LTok) : List α → List LTok
  | [] => []
  | x :: xs => .p "{" :: (listToks t (x :: xs) ++ [.p "}"])

/-- `sep Name sep Name …` -/
def sepToks (sep : String) : List (Name × Pos) → List LTok
  | [] => []
  | (n, _) :: r => .p sep :: .name n :: sepToks sep r

/-- `ImplementsInterfaces : ImplementsInterfaces & NamedType | implements &? NamedType` -/
def implementsToks : List (Name × Pos) → List LTok
  | [] => []
  | i :: is => .name "implements" :: sepToks "&" (i :: is)

/-- `UnionMemberTypes : UnionMemberTypes | NamedType | = |? NamedType` -/
def membersToks : List (Name × Pos) → List LTok
  | [] => []
  | m :: ms => .p "=" :: sepToks "|" (m :: ms)

def kindKw : TypeKind → String
  | .scalar => "scalar" | .object => "type" | .interface => "interface"
  | .union => "union" | .enum => "enum" | .input => "input"

/-- what follows the name in a type definition / extension:
    scalar `Directives?`; object and interface `ImplementsInterfaces? Directives? FieldsDefinition?`;
    union `Directives? UnionMemberTypes?`; enum `Directives? EnumValuesDefinition?`;
    input object `Directives? InputFieldsDefinition?` -/
def typeBodyToks (t : TypeDef) : List LTok :=
  match t.kind with
  | .scalar => dirsToks t.dirs
  | .object | .interface => implementsToks t.implements ++ (dirsToks t.dirs ++ bracedToks fieldDefToks t.fields)
  | .union => dirsToks t.dirs ++ membersToks t.members
  | .enum => dirsToks t.dirs ++ bracedToks enumValueDefToks t.values
  | .input => dirsToks t.dirs ++ bracedToks inputValueDefToks t.inputs

/-- `Description? scalar|type|interface|union|enum|input Name …` -/
def typeDefToks (t : TypeDef) : List LTok :=
  descToks t.desc ++ .name (kindKw t.kind) :: .name t.name :: typeBodyToks t

/-- `extend scalar|type|interface|union|enum|input Name …` -/
def typeExtToks (t : TypeDef) : List LTok :=
  .name "extend" :: .name (kindKw t.kind) :: .name t.name :: typeBodyToks t

/-- `RootOperationTypeDefinition : OperationType : NamedType` -/
def rootToks (r : OpKind × Name × Pos) : List LTok := [.name r.1.asStr, .p ":", .name r.2.1]

/-- `SchemaDefinition : Description? schema Directives[Const]? { RootOperationTypeDefinition+ }` -/
def schemaDefToks (s : SchemaDef) : List LTok :=
  descToks s.desc ++ .name "schema" :: (dirsToks s.dirs ++ .p "{" :: (listToks rootToks s.roots ++ [.p "}"]))

/-- `SchemaExtension : extend schema Directives? { RootOperationTypeDefinition+ } | extend schema Directives` -/
def schemaExtToks (s : SchemaDef) : List LTok :=
  .name "extend" :: .name "schema" :: (dirsToks s.dirs ++ bracedToks rootToks s.roots)

/-- `DirectiveLocations : DirectiveLocations | DirectiveLocation | |? DirectiveLocation` -/
def locationsToks (ls : List Name) : List LTok := sepToks "|" (ls.map fun n => (n, Pos.none))

/-- `DirectiveDefinition : Description? directive @ Name ArgumentsDefinition? repeatable? on DirectiveLocations` -/
def directiveDefToks (d : DirectiveDef) : List LTok :=
  descToks d.desc ++ .name "directive" :: .p "@" :: .name d.name :: (argDefsToks d.args ++
    ((if d.repeatable then [.name "repeatable"] else []) ++ .name "on" :: locationsToks d.locations))

def tsItemToks : TsItem → List LTok
  | .schemaDef s => schemaDefToks s
  | .typeDef t => typeDefToks t
  | .directiveDef d => directiveDefToks d
  | .schemaExt s => schemaExtToks s
  | .typeExt t => typeExtToks t

/-- `TypeSystemExtensionDocument : TypeSystemDefinitionOrExtension+` -/
def tsDocToks (d : TsDoc) : List LTok := listToks tsItemToks d

/-- `ExecutableDefinition : OperationDefinition | FragmentDefinition`
    (an `#import` line of nitrogql is a comment for GraphQL: no tokens) -/
def execDefToks : ExecDef → List LTok
  | .op o => operationToks o
  | .frag f => fragmentToks f
  | .imp _ => []

/-- `ExecutableDocument : ExecutableDefinition+` -/
def docToks (d : Doc) : List LTok := listToks execDefToks d

/-! ### positions erased -/

def eraseDirs (ds : List Directive) : List Directive := ds.map eraseDirective

def eraseOptName : Option (Name × Pos) → Option (Name × Pos)
  | none => none
  | some (n, _) => some (n, Pos.none)

def eraseNames (l : List (Name × Pos)) : List (Name × Pos) := l.map fun x => (x.1, Pos.none)

mutual
def eraseSel : Selection → Selection
  | .field al n _ args dirs (some ss) =>
    .field (eraseOptName al) n Pos.none (Value.erasePosFields args) (eraseDirs dirs) (some (eraseSels ss))
  | .field al n _ args dirs none =>
    .field (eraseOptName al) n Pos.none (Value.erasePosFields args) (eraseDirs dirs) none
  | .spread n _ dirs _ => .spread n Pos.none (eraseDirs dirs) Pos.none
  | .inline c dirs ss _ => .inline (eraseOptName c) (eraseDirs dirs) (eraseSels ss) Pos.none
def eraseSels : List Selection → List Selection
  | [] => []
  | s :: r => eraseSel s :: eraseSels r
end

def eraseVarDef (v : VarDef) : VarDef :=
  { name := v.name, ty := v.ty.erasePos, default := v.default.map Value.erasePos, dirs := eraseDirs v.dirs }

def eraseOp (o : OperationDef) : OperationDef :=
  { kind := o.kind, name := eraseOptName o.name, vars := o.vars.map eraseVarDef, dirs := eraseDirs o.dirs,
    sel := eraseSels o.sel }

def eraseFrag (f : FragmentDef) : FragmentDef :=
  { name := f.name, cond := f.cond, dirs := eraseDirs f.dirs, sel := eraseSels f.sel }

def eraseExecDef : ExecDef → ExecDef
  | .op o => .op (eraseOp o)
  | .frag f => .frag (eraseFrag f)
  | .imp i => .imp { targets := i.targets.map eraseOptName, path := i.path }

def eraseDoc (d : Doc) : Doc := d.map eraseExecDef

def eraseIV (v : InputValueDef) : InputValueDef :=
  { desc := v.desc, name := v.name, ty := v.ty.erasePos, default := v.default.map Value.erasePos,
    dirs := eraseDirs v.dirs }

def eraseFieldDef (f : FieldDef) : FieldDef :=
  { desc := f.desc, name := f.name, args := f.args.map eraseIV, ty := f.ty.erasePos, dirs := eraseDirs f.dirs }

def eraseEnumValue (v : EnumValueDef) : EnumValueDef :=
  { desc := v.desc, name := v.name, dirs := eraseDirs v.dirs }

def eraseTypeDef (t : TypeDef) : TypeDef :=
  { kind := t.kind, desc := t.desc, name := t.name, implements := eraseNames t.implements, dirs := eraseDirs t.dirs,
    fields := t.fields.map eraseFieldDef, members := eraseNames t.members, values := t.values.map eraseEnumValue,
    inputs := t.inputs.map eraseIV }

def eraseRoot (r : OpKind × Name × Pos) : OpKind × Name × Pos := (r.1, r.2.1, Pos.none)

def eraseSchemaDef (s : SchemaDef) : SchemaDef :=
  { desc := s.desc, dirs := eraseDirs s.dirs, roots := s.roots.map eraseRoot }

def eraseDirectiveDef (d : DirectiveDef) : DirectiveDef :=
  { desc := d.desc, name := d.name, args := d.args.map eraseIV, repeatable := d.repeatable, locations := d.locations }

def eraseTsItem : TsItem → TsItem
  | .schemaDef s => .schemaDef (eraseSchemaDef s)
  | .typeDef t => .typeDef (eraseTypeDef t)
  | .directiveDef d => .directiveDef (eraseDirectiveDef d)
  | .schemaExt s => .schemaExt (eraseSchemaDef s)
  | .typeExt t => .typeExt (eraseTypeDef t)

def eraseTsDoc (d : TsDoc) : TsDoc := d.map eraseTsItem

/-! ### generic parser pieces -/

/-- elements read by `p`, up to the closing punctuator `close` (consumed) -/
def manyUntil {α : Type} (close : String) (p : List LTok → Option (α × List LTok)) :
    Nat → List LTok → Option (List α × List LTok)
  | 0, _ => none
  | _, [] => none
  | f + 1, tok :: r =>
    if tok = .p close then some ([], r)
    else match p (tok :: r) with
      | some (x, r') => (manyUntil close p f r').map fun y => (x :: y.1, y.2)
      | none => none

/-- `X+ close` -/
def many1Until {α : Type} (close : String) (p : List LTok → Option (α × List LTok)) (f : Nat) (toks : List LTok) :
    Option (List α × List LTok) :=
  match manyUntil close p f toks with
  | some (x :: xs, r) => some (x :: xs, r)
  | _ => none

/-- `( open X+ close )?` — present iff the next token is `open` -/
def optBracketed {α : Type} (open_ close : String) (p : List LTok → Option (α × List LTok)) (f : Nat) :
    List LTok → Option (List α × List LTok)
  | [] => some ([], [])
  | tok :: r => if tok = .p open_ then many1Until close p f r else some ([], tok :: r)

/-- definitions read by `p` up to the end of the input -/
def manyEnd {α : Type} (p : List LTok → Option (α × List LTok)) : Nat → List LTok → Option (List α)
  | 0, _ => none
  | _, [] => some []
  | f + 1, tok :: r =>
    match p (tok :: r) with
    | some (x, r') => (manyEnd p f r').map fun y => x :: y
    | none => none

/-- `(sep Name)*` -/
def sepNames (sep : String) : Nat → List LTok → Option (List (Name × Pos) × List LTok)
  | 0, _ => none
  | _, [] => some ([], [])
  | f + 1, tok :: r =>
    if tok = .p sep then
      match r with
      | .name n :: r' => (sepNames sep f r').map fun y => ((n, Pos.none) :: y.1, y.2)
      | _ => none
    else some ([], tok :: r)

/-- `sep? Name (sep Name)*` -/
def sepNames1 (sep : String) (f : Nat) : List LTok → Option (List (Name × Pos) × List LTok)
  | .name n :: r => (sepNames sep f r).map fun y => ((n, Pos.none) :: y.1, y.2)
  | toks =>
    match sepNames sep f toks with
    | some (x :: xs, r) => some (x :: xs, r)
    | _ => none

/-- `Directives? : Directive*` — as long as the next token is `@` -/
def parseDirs : Nat → List LTok → Option (List Directive × List LTok)
  | 0, _ => none
  | _, [] => some ([], [])
  | f + 1, tok :: r =>
    if tok = .p "@" then
      match parseDirective f (tok :: r) with
      | some (d, r') => (parseDirs f r').map fun y => (d :: y.1, y.2)
      | none => none
    else some ([], tok :: r)

/-- `Arguments? : ( Argument+ )` — present iff the next token is `(` -/
def parseArgsOpt (f : Nat) : List LTok → Option (List Arg × List LTok)
  | [] => some ([], [])
  | tok :: r =>
    if tok = .p "(" then
      match parseFields ")" f r with
      | some (a :: as, r') => some (a :: as, r')
      | _ => none
    else some ([], tok :: r)

/-- `DefaultValue? : = Value` — present iff the next token is `=` -/
def parseDefault (f : Nat) : List LTok → Option (Option Value × List LTok)
  | [] => some (none, [])
  | tok :: r =>
    if tok = .p "=" then (parseValue f r).map fun y => (some y.1, y.2)
    else some (none, tok :: r)

/-! ### executable documents -/

/-- `Alias? Name` after the first name `a` of a field: `a : n` or just `a` -/
def parseAlias (a : String) : List LTok → Option (Name × Pos) × Name × List LTok
  | colon :: .name n :: r => if colon = .p ":" then (some (a, Pos.none), n, r) else (none, a, colon :: .name n :: r)
  | toks => (none, a, toks)

mutual
/-- `Selection : Field | FragmentSpread | InlineFragment`
    `Field : Alias? Name Arguments? Directives? SelectionSet?`
    `FragmentSpread : ... FragmentName Directives?` (`FragmentName : Name but not on`)
    `InlineFragment : ... TypeCondition? Directives? SelectionSet` -/
def parseSelection : Nat → List LTok → Option (Selection × List LTok)
  | 0, _ => none
  | _, [] => none
  | f + 1, tok :: r =>
    if tok = .p "..." then
      match r with
      | .name n :: r1 =>
        if n = "on" then
          match r1 with
          | .name t :: r2 =>
            match parseDirs f r2 with
            | some (ds, r3) =>
              (parseSelSet f r3).map fun y => (.inline (some (t, Pos.none)) ds y.1 Pos.none, y.2)
            | none => none
          | _ => none
        else (parseDirs f r1).map fun y => (.spread n Pos.none y.1 Pos.none, y.2)
      | _ =>
        match parseDirs f r with
        | some (ds, r3) => (parseSelSet f r3).map fun y => (.inline none ds y.1 Pos.none, y.2)
        | none => none
    else
      match tok with
      | .name a =>
        match parseArgsOpt f (parseAlias a r).2.2 with
        | none => none
        | some (as, r2) =>
          match parseDirs f r2 with
          | none => none
          | some (ds, r3) =>
            match r3 with
            | tok3 :: _ =>
              if tok3 = .p "{" then
                (parseSelSet f r3).map fun y =>
                  (.field (parseAlias a r).1 (parseAlias a r).2.1 Pos.none as ds (some y.1), y.2)
              else some (.field (parseAlias a r).1 (parseAlias a r).2.1 Pos.none as ds none, r3)
            | [] => some (.field (parseAlias a r).1 (parseAlias a r).2.1 Pos.none as ds none, [])
      | _ => none
/-- `SelectionSet : { Selection+ }` -/
def parseSelSet : Nat → List LTok → Option (List Selection × List LTok)
  | 0, _ => none
  | _, [] => none
  | f + 1, tok :: r =>
    if tok = .p "{" then
      match parseSelections f r with
      | some (s :: ss, r') => some (s :: ss, r')
      | _ => none
    else none
/-- selections up to the closing `}` -/
def parseSelections : Nat → List LTok → Option (List Selection × List LTok)
  | 0, _ => none
  | _, [] => none
  | f + 1, tok :: r =>
    if tok = .p "}" then some ([], r)
    else match parseSelection f (tok :: r) with
      | some (s, r') => (parseSelections f r').map fun y => (s :: y.1, y.2)
      | none => none
end

/-- `VariableDefinition : Variable : Type DefaultValue? Directives[Const]?` -/
def parseVarDef (f : Nat) : List LTok → Option (VarDef × List LTok)
  | dollar :: .name n :: colon :: r =>
    if dollar = .p "$" ∧ colon = .p ":" then
      match parseType f r with
      | none => none
      | some (ty, r1) =>
        match parseDefault f r1 with
        | none => none
        | some (dv, r2) =>
          (parseDirs f r2).map fun y => ({ name := n, ty := ty, default := dv, dirs := y.1 }, y.2)
    else none
  | _ => none

def opKindOf (s : String) : Option OpKind :=
  if s = "query" then some .query
  else if s = "mutation" then some .mutation
  else if s = "subscription" then some .subscription
  else none

/-- the optional name of an operation -/
def parseOptName : List LTok → Option (Name × Pos) × List LTok
  | .name n :: r => (some (n, Pos.none), r)
  | toks => (none, toks)

/-- `OperationDefinition : OperationType Name? VariableDefinitions? Directives? SelectionSet | SelectionSet`
    `FragmentDefinition : fragment FragmentName TypeCondition Directives? SelectionSet` -/
def parseExecDef (f : Nat) : List LTok → Option (ExecDef × List LTok)
  | [] => none
  | tok :: r =>
    if tok = .p "{" then
      (parseSelSet f (tok :: r)).map fun y => (.op { kind := .query, sel := y.1 }, y.2)
    else
      match tok with
      | .name kw =>
        if kw = "fragment" then
          match r with
          | .name n :: .name on_ :: .name c :: r1 =>
            if on_ = "on" ∧ n ≠ "on" then
              match parseDirs f r1 with
              | none => none
              | some (ds, r2) =>
                (parseSelSet f r2).map fun y => (.frag { name := n, cond := c, dirs := ds, sel := y.1 }, y.2)
            else none
          | _ => none
        else
          match opKindOf kw with
          | none => none
          | some k =>
            match optBracketed "(" ")" (parseVarDef f) f (parseOptName r).2 with
            | none => none
            | some (vs, r2) =>
              match parseDirs f r2 with
              | none => none
              | some (ds, r3) =>
                (parseSelSet f r3).map fun y =>
                  (.op { kind := k, name := (parseOptName r).1, vars := vs, dirs := ds, sel := y.1 }, y.2)
      | _ => none

/-- `Document` restricted to executable definitions, up to the end of the input -/
def parseExecDoc (f : Nat) (toks : List LTok) : Option Doc := manyEnd (parseExecDef f) f toks

/-- the executable document denoted by a token sequence -/
def parseExecDocument (toks : List LTok) : Option Doc := parseExecDoc (2 * toks.length + 4) toks

/-! ### type-system documents -/

def parseDesc : List LTok → Option String × List LTok
  | .str s :: r => (some s, r)
  | toks => (none, toks)

/-- `InputValueDefinition : Description? Name : Type DefaultValue? Directives[Const]?` -/
def parseInputValueDef (f : Nat) (toks : List LTok) : Option (InputValueDef × List LTok) :=
  match (parseDesc toks).2 with
  | .name n :: colon :: r =>
    if colon = .p ":" then
      match parseType f r with
      | none => none
      | some (ty, r1) =>
        match parseDefault f r1 with
        | none => none
        | some (dv, r2) =>
          (parseDirs f r2).map fun y =>
            ({ desc := (parseDesc toks).1, name := n, ty := ty, default := dv, dirs := y.1 }, y.2)
    else none
  | _ => none

/-- `FieldDefinition : Description? Name ArgumentsDefinition? : Type Directives[Const]?` -/
def parseFieldDef (f : Nat) (toks : List LTok) : Option (FieldDef × List LTok) :=
  match (parseDesc toks).2 with
  | .name n :: r =>
    match optBracketed "(" ")" (parseInputValueDef f) f r with
    | none => none
    | some (as, colon :: r1) =>
      if colon = .p ":" then
        match parseType f r1 with
        | none => none
        | some (ty, r2) =>
          (parseDirs f r2).map fun y =>
            ({ desc := (parseDesc toks).1, name := n, args := as, ty := ty, dirs := y.1 }, y.2)
      else none
    | some (_, []) => none
  | _ => none

/-- `EnumValueDefinition : Description? EnumValue Directives[Const]?` (`EnumValue : Name but not true false null`) -/
def parseEnumValueDef (f : Nat) (toks : List LTok) : Option (EnumValueDef × List LTok) :=
  match (parseDesc toks).2 with
  | .name n :: r =>
    if okEnum n then
      (parseDirs f r).map fun y => ({ desc := (parseDesc toks).1, name := n, dirs := y.1 }, y.2)
    else none
  | _ => none

/-- `ImplementsInterfaces? : implements &? NamedType (& NamedType)*` -/
def parseImplements (f : Nat) : List LTok → Option (List (Name × Pos) × List LTok)
  | [] => some ([], [])
  | tok :: r => if tok = .name "implements" then sepNames1 "&" f r else some ([], tok :: r)

/-- `UnionMemberTypes? : = |? NamedType (| NamedType)*` -/
def parseMembers (f : Nat) : List LTok → Option (List (Name × Pos) × List LTok)
  | [] => some ([], [])
  | tok :: r => if tok = .p "=" then sepNames1 "|" f r else some ([], tok :: r)

def kindOfKw (s : String) : Option TypeKind :=
  if s = "scalar" then some .scalar
  else if s = "type" then some .object
  else if s = "interface" then some .interface
  else if s = "union" then some .union
  else if s = "enum" then some .enum
  else if s = "input" then some .input
  else none

/-- an extension must extend by something (`extend type T` alone is not derivable) -/
def nonTrivial (t : TypeDef) : Bool :=
  !t.implements.isEmpty || !t.dirs.isEmpty || !t.fields.isEmpty || !t.members.isEmpty || !t.values.isEmpty ||
    !t.inputs.isEmpty

/-- the part of a type definition / extension after its name -/
def parseTypeBody (f : Nat) (k : TypeKind) (desc : Option String) (n : Name) (toks : List LTok) :
    Option (TypeDef × List LTok) :=
  match k with
  | .scalar => (parseDirs f toks).map fun y => ({ kind := k, desc := desc, name := n, dirs := y.1 }, y.2)
  | .object | .interface =>
    match parseImplements f toks with
    | none => none
    | some (is, r1) =>
      match parseDirs f r1 with
      | none => none
      | some (ds, r2) =>
        (optBracketed "{" "}" (parseFieldDef f) f r2).map fun y =>
          ({ kind := k, desc := desc, name := n, implements := is, dirs := ds, fields := y.1 }, y.2)
  | .union =>
    match parseDirs f toks with
    | none => none
    | some (ds, r1) =>
      (parseMembers f r1).map fun y => ({ kind := k, desc := desc, name := n, dirs := ds, members := y.1 }, y.2)
  | .enum =>
    match parseDirs f toks with
    | none => none
    | some (ds, r1) =>
      (optBracketed "{" "}" (parseEnumValueDef f) f r1).map fun y =>
        ({ kind := k, desc := desc, name := n, dirs := ds, values := y.1 }, y.2)
  | .input =>
    match parseDirs f toks with
    | none => none
    | some (ds, r1) =>
      (optBracketed "{" "}" (parseInputValueDef f) f r1).map fun y =>
        ({ kind := k, desc := desc, name := n, dirs := ds, inputs := y.1 }, y.2)

/-- `RootOperationTypeDefinition : OperationType : NamedType` -/
def parseRoot : List LTok → Option ((OpKind × Name × Pos) × List LTok)
  | .name k :: colon :: .name n :: r =>
    if colon = .p ":" then (opKindOf k).map fun k' => ((k', n, Pos.none), r) else none
  | _ => none

/-- the DirectiveLocation names of §3.13 -/
def isLocation (s : String) : Bool :=
  s = "QUERY" ∨ s = "MUTATION" ∨ s = "SUBSCRIPTION" ∨ s = "FIELD" ∨ s = "FRAGMENT_DEFINITION" ∨ s = "FRAGMENT_SPREAD" ∨
  s = "INLINE_FRAGMENT" ∨ s = "VARIABLE_DEFINITION" ∨ s = "SCHEMA" ∨ s = "SCALAR" ∨ s = "OBJECT" ∨
  s = "FIELD_DEFINITION" ∨ s = "ARGUMENT_DEFINITION" ∨ s = "INTERFACE" ∨ s = "UNION" ∨ s = "ENUM" ∨ s = "ENUM_VALUE" ∨
  s = "INPUT_OBJECT" ∨ s = "INPUT_FIELD_DEFINITION"

/-- `repeatable?` -/
def parseRepeatable : List LTok → Bool × List LTok
  | tok :: r => if tok = .name "repeatable" then (true, r) else (false, tok :: r)
  | [] => (false, [])

/-- after `directive`: `@ Name ArgumentsDefinition? repeatable? on DirectiveLocations` -/
def parseDirectiveDefRest (f : Nat) (desc : Option String) : List LTok → Option (DirectiveDef × List LTok)
  | at_ :: .name n :: r =>
    if at_ = .p "@" then
      match optBracketed "(" ")" (parseInputValueDef f) f r with
      | none => none
      | some (as, r1) =>
        match (parseRepeatable r1).2 with
        | on_ :: r2 =>
          if on_ = .name "on" then
            match sepNames1 "|" f r2 with
            | none => none
            | some (ls, r3) =>
              if ls.all (fun x => isLocation x.1) then
                some ({ desc := desc, name := n, args := as, repeatable := (parseRepeatable r1).1,
                        locations := ls.map (·.1) }, r3)
              else none
          else none
        | [] => none
    else none
  | _ => none

/-- after `schema`: `Directives? { RootOperationTypeDefinition+ }` -/
def parseSchemaDefRest (f : Nat) (desc : Option String) (toks : List LTok) : Option (SchemaDef × List LTok) :=
  match parseDirs f toks with
  | none => none
  | some (ds, open_ :: r1) =>
    if open_ = .p "{" then
      (many1Until "}" parseRoot f r1).map fun y => ({ desc := desc, dirs := ds, roots := y.1 }, y.2)
    else none
  | some (_, []) => none

/-- after `extend schema`: `Directives? { RootOperationTypeDefinition+ }` or `Directives` -/
def parseSchemaExtRest (f : Nat) (toks : List LTok) : Option (SchemaDef × List LTok) :=
  match parseDirs f toks with
  | none => none
  | some (ds, r1) =>
    match optBracketed "{" "}" parseRoot f r1 with
    | none => none
    | some (rs, r2) => if ds.isEmpty && rs.isEmpty then none else some ({ dirs := ds, roots := rs }, r2)

/-- `TypeSystemDefinitionOrExtension` -/
def parseTsItem (f : Nat) (toks : List LTok) : Option (TsItem × List LTok) :=
  match (parseDesc toks).2 with
  | .name kw :: r =>
    if kw = "schema" then (parseSchemaDefRest f (parseDesc toks).1 r).map fun y => (.schemaDef y.1, y.2)
    else if kw = "directive" then (parseDirectiveDefRest f (parseDesc toks).1 r).map fun y => (.directiveDef y.1, y.2)
    else if kw = "extend" then
      (if (parseDesc toks).1.isSome then none
       else match r with
        | .name kw2 :: r1 =>
          if kw2 = "schema" then (parseSchemaExtRest f r1).map fun y => (.schemaExt y.1, y.2)
          else match kindOfKw kw2, r1 with
            | some k, .name n :: r2 =>
              match parseTypeBody f k none n r2 with
              | some (t, r3) => if nonTrivial t then some (.typeExt t, r3) else none
              | none => none
            | _, _ => none
        | _ => none)
    else match kindOfKw kw, r with
      | some k, .name n :: r1 => (parseTypeBody f k (parseDesc toks).1 n r1).map fun y => (.typeDef y.1, y.2)
      | _, _ => none
  | _ => none

def parseTsDoc (f : Nat) (toks : List LTok) : Option TsDoc := manyEnd (parseTsItem f) f toks

/-- the type-system document (definitions and extensions) denoted by a token sequence -/
def parseTsDocument (toks : List LTok) : Option TsDoc := parseTsDoc (2 * toks.length + 4) toks

/-! ### what the grammar can produce -/

def wfDir (d : Directive) : Bool := wfFields d.args
def wfDirs (ds : List Directive) : Bool := ds.all wfDir

mutual
/-- argument values derivable; selection sets non-empty; a fragment spread is not named `on` -/
def wfSel : Selection → Bool
  | .field _ _ _ args dirs (some ss) => wfFields args && wfDirs dirs && !ss.isEmpty && wfSels ss
  | .field _ _ _ args dirs none => wfFields args && wfDirs dirs
  | .spread n _ dirs _ => n != "on" && wfDirs dirs
  | .inline _ dirs ss _ => wfDirs dirs && !ss.isEmpty && wfSels ss
def wfSels : List Selection → Bool
  | [] => true
  | s :: r => wfSel s && wfSels r
end

def wfDefault : Option Value → Bool
  | none => true
  | some v => wfValue v

def wfVarDef (v : VarDef) : Bool := wfType v.ty && wfDefault v.default && wfDirs v.dirs

def wfOp (o : OperationDef) : Bool := o.vars.all wfVarDef && wfDirs o.dirs && !o.sel.isEmpty && wfSels o.sel

def wfFrag (f : FragmentDef) : Bool := f.name != "on" && wfDirs f.dirs && !f.sel.isEmpty && wfSels f.sel

/-- operations and fragments (an `#import` line is a comment, not a definition) -/
def wfExecDef : ExecDef → Bool
  | .op o => wfOp o
  | .frag f => wfFrag f
  | .imp _ => false

def wfDoc (d : Doc) : Bool := d.all wfExecDef

def wfIV (v : InputValueDef) : Bool := wfType v.ty && wfDefault v.default && wfDirs v.dirs

def wfFieldDef (f : FieldDef) : Bool := f.args.all wfIV && wfType f.ty && wfDirs f.dirs

def wfEnumValue (v : EnumValueDef) : Bool := okEnum v.name && wfDirs v.dirs

/-- the components a kind does not have are empty; every part is derivable -/
def wfTypeDef (t : TypeDef) : Bool :=
  wfDirs t.dirs &&
  (match t.kind with
   | .scalar => t.implements.isEmpty && t.fields.isEmpty && t.members.isEmpty && t.values.isEmpty && t.inputs.isEmpty
   | .object | .interface =>
     t.fields.all wfFieldDef && t.members.isEmpty && t.values.isEmpty && t.inputs.isEmpty
   | .union => t.implements.isEmpty && t.fields.isEmpty && t.values.isEmpty && t.inputs.isEmpty
   | .enum =>
     t.values.all wfEnumValue && t.implements.isEmpty && t.fields.isEmpty && t.members.isEmpty && t.inputs.isEmpty
   | .input =>
     t.inputs.all wfIV && t.implements.isEmpty && t.fields.isEmpty && t.members.isEmpty && t.values.isEmpty)

/-- an extension has no description and extends by something -/
def wfTypeExt (t : TypeDef) : Bool := wfTypeDef t && t.desc.isNone && nonTrivial t

def wfSchemaDef (s : SchemaDef) : Bool := wfDirs s.dirs && !s.roots.isEmpty

def wfSchemaExt (s : SchemaDef) : Bool := wfDirs s.dirs && s.desc.isNone && (!s.dirs.isEmpty || !s.roots.isEmpty)

def wfDirectiveDef (d : DirectiveDef) : Bool :=
  d.args.all wfIV && !d.locations.isEmpty && d.locations.all isLocation

def wfTsItem : TsItem → Bool
  | .schemaDef s => wfSchemaDef s
  | .typeDef t => wfTypeDef t
  | .directiveDef d => wfDirectiveDef d
  | .schemaExt s => wfSchemaExt s
  | .typeExt t => wfTypeExt t

def wfTsDoc (d : TsDoc) : Bool := d.all wfTsItem

end NitroVerif.GqlTokens
