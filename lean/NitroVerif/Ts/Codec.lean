/-
Decoder of the S-expression form produced by `harness/src/tsparse.rs` (grammar in that file's header) into
`Ts.Syntax`, and encoder back (for model output compared tree against tree). Drivers only (`partial`).
-/
import NitroVerif.Base.Sexp
import NitroVerif.Ts.Syntax
namespace NitroVerif.Ts
open NitroVerif

namespace Dec
def bool? : Sexp → Option Bool
  | .atom "true" => some true
  | .atom "false" => some false
  | _ => none
def str? : Sexp → Option String
  | .str s => some s
  | _ => none

mutual
partial def ty : Sexp → Option Ty
  | .list [.atom "prim", .str s] => some (.prim s)
  | .list [.atom "ref", .str s] => some (.ref s)
  | .list (.atom "qref" :: ps) => do some (.qref (← ps.mapM str?))
  | .list [.atom "app", f, .list as] => do some (.app (← ty f) (← as.mapM ty))
  | .list [.atom "strlit", .str s] => some (.strLit s)
  | .list [.atom "numlit", .str s] => some (.numLit s)
  | .list (.atom "obj" :: fs) => do some (.obj (← fs.mapM field))
  | .list [.atom "arr", t] => do some (.arr (← ty t))
  | .list [.atom "roarr", t] => do some (.roArr (← ty t))
  | .list (.atom "union" :: ts) => do some (.union (← ts.mapM ty))
  | .list (.atom "inter" :: ts) => do some (.inter (← ts.mapM ty))
  | .list [.atom "fn", .list ps, r] => do some (.fn (← ps.mapM param) (← ty r))
  | .list [.atom "index", t, k] => do some (.index (← ty t) (← ty k))
  | .list (.atom "tuple" :: ts) => do some (.tuple (← ts.mapM ty))
  | .list (.atom tag :: rest) =>
    if tag == "keyof" || tag == "typeof" || tag == "importtype" || tag == "readonly" || tag == "indexsig" then
      some (.other tag (rest.map Sexp.toString))
    else none
  | _ => none
partial def field : Sexp → Option Field
  | .list [.atom "field", .str k, r, o, t] => do some (k, ← bool? r, ← bool? o, ← ty t)
  | _ => none
partial def param : Sexp → Option (String × Ty)
  | .list [.atom "param", .str n, t] => do some (n, ← ty t)
  | _ => none
end

partial def js : Sexp → Option JsExpr
  | .list [.atom "null"] => some .null
  | .list [.atom "bool", b] => do some (.bool (← bool? b))
  | .list [.atom "num", .str s] => some (.num s)
  | .list [.atom "str", .str s] => some (.str s)
  | .list [.atom "ident", .str s] => some (.ident s)
  | .list (.atom "arr" :: xs) => do some (.arr (← xs.mapM js))
  | .list (.atom "obj" :: kvs) => do
    some (.obj (← kvs.mapM fun
      | .list [.str k, v] => do some (k, ← js v)
      | _ => none))
  | _ => none

def pair? : Sexp → Option (String × String)
  | .list [.str a, .str b] => some (a, b)
  | _ => none

def optTy : Sexp → Option (Option Ty)
  | .list [.atom "none"] => some none
  | t => do some (some (← ty t))

partial def stmt : Sexp → Option Stmt
  | .list [.atom "import", .str m, t, w] => do
    let what ← match w with
      | .list (.atom "named" :: items) => do some (ImportWhat.named (← items.mapM pair?))
      | .list [.atom "star", .str n] => some (.star n)
      | .list [.atom "default", .str n] => some (.default n)
      | _ => none
    some (.import m (← bool? t) what)
  | .list [.atom "type", e, .str n, .list ps, t] => do
    let params ← ps.mapM fun
      | .list [.str p, c] => do some (p, ← optTy c)
      | _ => none
    some (.type (← bool? e) n params (← ty t))
  | .list [.atom "rawtype", e, .str n, .str text] => do some (.rawType (← bool? e) n text)
  | .list [.atom "namespace", e, .str n, .list body] => do some (.namespace (← bool? e) n (← body.mapM stmt))
  | .list [.atom "exportlist", t, .list items] => do some (.exportList (← bool? t) (← items.mapM pair?))
  | .list [.atom "const", e, d, .str n, t, i] => do
    let init ← match i with
      | .list [.atom "none"] => some none
      | x => do some (some (← js x))
    some (.const (← bool? e) (← bool? d) n (← optTy t) init)
  | .list [.atom "exportdefault", .str n] => some (.exportDefault n)
  | .list [.atom "doc", .str s] => some (.doc s)
  | _ => none

def file : Sexp → Option File
  | .list (.atom "tsfile" :: ss) => ss.mapM stmt
  | _ => none
end Dec

namespace Enc
mutual
partial def ty : Ty → Sexp
  | .prim s => .list [.atom "prim", .str s]
  | .ref s => .list [.atom "ref", .str s]
  | .qref ps => .list (.atom "qref" :: ps.map .str)
  | .app f as => .list [.atom "app", ty f, .list (as.map ty)]
  | .strLit s => .list [.atom "strlit", .str s]
  | .numLit s => .list [.atom "numlit", .str s]
  | .obj fs => .list (.atom "obj" :: fs.map fun (k, r, o, t) => .list [.atom "field", .str k, Sexp.ofBool r, Sexp.ofBool o, ty t])
  | .arr t => .list [.atom "arr", ty t]
  | .roArr t => .list [.atom "roarr", ty t]
  | .union ts => .list (.atom "union" :: ts.map ty)
  | .inter ts => .list (.atom "inter" :: ts.map ty)
  | .fn ps r => .list [.atom "fn", .list (ps.map fun (n, t) => .list [.atom "param", .str n, ty t]), ty r]
  | .index t k => .list [.atom "index", ty t, ty k]
  | .tuple ts => .list (.atom "tuple" :: ts.map ty)
  | .other tag ps => .list (.atom tag :: ps.map .atom)
end
end Enc

end NitroVerif.Ts
