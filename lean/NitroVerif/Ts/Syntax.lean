/-
Shared vocabulary: abstract syntax of the TypeScript subset nitrogql emits (declaration files, resolvers
file, standalone `.graphql.ts`), as produced by the harness' parser `harness/src/tsparse.rs` from the
REAL emitted text, and as produced by the Lean models of the printers.
Core Lean only; nested lists handled by mutual structural recursion (kernel-evaluable).
-/
namespace NitroVerif.Ts

/-- a field of an object type: key, readonly, optional, type -/
inductive Ty where
  | prim (s : String)                       -- string number boolean bigint any unknown never null undefined void object symbol true false
  | ref (n : String)                        -- type reference / type variable
  | qref (path : List String)               -- namespace member A.B.C
  | app (f : Ty) (args : List Ty)           -- F<A, B>
  | strLit (s : String)
  | numLit (s : String)
  | obj (fields : List (String × Bool × Bool × Ty))   -- (key, readonly, optional, type)
  | arr (t : Ty)
  | roArr (t : Ty)
  | union (ts : List Ty)
  | inter (ts : List Ty)
  | fn (params : List (String × Ty)) (ret : Ty)
  | index (t : Ty) (k : Ty)
  | tuple (ts : List Ty)
  | other (tag : String) (parts : List String)  -- keyof / typeof / import("m").X … kept opaque
  deriving Repr, Inhabited

abbrev Field := String × Bool × Bool × Ty

mutual
def Ty.size : Ty → Nat
  | .app f as => f.size + Ty.sizeList as + 1
  | .obj fs => Ty.sizeFields fs + 1
  | .arr t | .roArr t => t.size + 1
  | .union ts | .inter ts | .tuple ts => Ty.sizeList ts + 1
  | .fn ps r => Ty.sizeParams ps + r.size + 1
  | .index t k => t.size + k.size + 1
  | _ => 1
def Ty.sizeList : List Ty → Nat
  | [] => 0
  | t :: ts => t.size + Ty.sizeList ts
def Ty.sizeFields : List (String × Bool × Bool × Ty) → Nat
  | [] => 0
  | (_, _, _, t) :: r => t.size + Ty.sizeFields r
def Ty.sizeParams : List (String × Ty) → Nat
  | [] => 0
  | (_, t) :: r => t.size + Ty.sizeParams r
end

mutual
def Ty.beq : Ty → Ty → Bool
  | .prim a, .prim b => a == b
  | .ref a, .ref b => a == b
  | .qref a, .qref b => a == b
  | .app f as, .app g bs => f.beq g && Ty.beqList as bs
  | .strLit a, .strLit b => a == b
  | .numLit a, .numLit b => a == b
  | .obj a, .obj b => Ty.beqFields a b
  | .arr a, .arr b => a.beq b
  | .roArr a, .roArr b => a.beq b
  | .union a, .union b => Ty.beqList a b
  | .inter a, .inter b => Ty.beqList a b
  | .fn ps r, .fn qs s => Ty.beqParams ps qs && r.beq s
  | .index a k, .index b l => a.beq b && k.beq l
  | .tuple a, .tuple b => Ty.beqList a b
  | .other t ps, .other u qs => t == u && ps == qs
  | _, _ => false
def Ty.beqList : List Ty → List Ty → Bool
  | [], [] => true
  | a :: as, b :: bs => a.beq b && Ty.beqList as bs
  | _, _ => false
def Ty.beqFields : List (String × Bool × Bool × Ty) → List (String × Bool × Bool × Ty) → Bool
  | [], [] => true
  | (k, r, o, a) :: as, (k', r', o', b) :: bs => k == k' && r == r' && o == o' && a.beq b && Ty.beqFields as bs
  | _, _ => false
def Ty.beqParams : List (String × Ty) → List (String × Ty) → Bool
  | [], [] => true
  | (k, a) :: as, (k', b) :: bs => k == k' && a.beq b && Ty.beqParams as bs
  | _, _ => false
end
instance : BEq Ty := ⟨Ty.beq⟩

/-- JSON-compatible expression (the runtime document object literal) -/
inductive JsExpr where
  | null | bool (b : Bool) | num (raw : String) | str (s : String) | ident (s : String)
  | arr (xs : List JsExpr)
  | obj (kvs : List (String × JsExpr))
  deriving Repr, Inhabited

inductive ImportWhat where
  | named (items : List (String × String))   -- (imported, local)
  | star (ns : String)
  | default (name : String)
  deriving Repr, Inhabited

inductive Stmt where
  | import (module : String) (isType : Bool) (what : ImportWhat)
  | type (exported : Bool) (name : String) (params : List (String × Option Ty)) (ty : Ty)
  | rawType (exported : Bool) (name : String) (text : String)
  | namespace (exported : Bool) (name : String) (body : List Stmt)
  | exportList (isType : Bool) (items : List (String × String))   -- (local, exported-as)
  | const (exported declared : Bool) (name : String) (ty : Option Ty) (init : Option JsExpr)
  | exportDefault (name : String)
  | doc (text : String)
  deriving Repr, Inhabited

abbrev File := List Stmt

end NitroVerif.Ts
