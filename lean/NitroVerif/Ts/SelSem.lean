/-
The meaning of the prelude's utility type `__SelectionSet<Orig, Obj, Others>` — the C01/C02 extension of the shared
TypeScript semantics (`Ts/Sem.lean`), installed through `Env.appHook`.

TRUSTED BASE (no TypeScript compiler in the sandbox; DESIGN.md §3 "`__SelectionSet`").  The emitted text is

    type __Beautify<Obj> = { [K in keyof Obj]: Obj[K] } & {};
    export type __SelectionSet<Orig, Obj, Others> =
      __Beautify<Pick<{
        [K in keyof Orig]: Obj extends { [P in K]?: infer V } ? V : unknown
      }, Extract<keyof Orig, keyof Obj>> & Others>;

and is read as: a record with
  * the keys of `Obj` that `Orig` declares — every other key of `Obj` is DROPPED (`Extract<keyof Orig, keyof Obj>`),
    which is what makes "every selected key exists in the schema declaration" an obligation of C02 —,
    each with `Obj`'s type for that key (`infer V`); a field whose type is `never` (printed `k?: never`) means
    that the key is ABSENT;
  * plus the fields of `Others` (`& Others`; a key on both sides gets the intersection of the two types, by the
    object-intersection normalisation of `Ts/Sem.lean`).
The reading applies only if the declaration the head resolves to carries exactly the prelude text this definition
was written against (`preludeText`, whitespace-normalised as `harness/src/tsparse.rs` keeps raw helper types);
otherwise the application stays opaque and every O case fails, which is the intended alarm.
Core Lean only; structurally recursive.
-/
import NitroVerif.Ts.Sem
namespace NitroVerif.Ts.SelSem
open NitroVerif.Ts

/-- text of the `__SelectionSet` declaration after the name, whitespace-normalised -/
def preludeText : String :=
  "<Orig, Obj, Others> = __Beautify<Pick<{ [K in keyof Orig]: Obj extends { [P in K]?: infer V } ? V : unknown }, Extract<keyof Orig, keyof Obj>> & Others>"

/-- text of the `__Beautify` declaration after the name -/
def beautifyText : String := "<Obj> = { [K in keyof Obj]: Obj[K] } & {}"

def isNever : Ty → Bool
  | .prim "never" => true
  | _ => false

/-- the fields of the record type a closed type denotes through aliases (for `keyof Orig`) -/
def origFields (d : Decls) : Nat → Ty → Option (List Field)
  | 0, _ => none
  | _ + 1, .obj fs => some fs
  | n + 1, .other "abs" path =>
    match d.body? path with
    | some ([], b) => origFields d n b
    | _ => none
  | _ + 1, _ => none

/-- the keys of `Obj` that `Orig` declares, with `Obj`'s types (`never` = absent) -/
def picked (orig obj : List Field) : List Field :=
  (obj.filter fun f => orig.any (·.1 == f.1)).map fun (k, _, _, t) => (k, false, isNever t, t)

/-- the record `__SelectionSet<Orig, Obj, Others>` denotes -/
def selectionSet (orig obj others : List Field) : List Field :=
  mergeFields (picked orig obj) others

/-- is `path` the prelude's `__SelectionSet`, declared with the text this reading was written against? -/
def isSelectionSet (d : Decls) (path : List String) : Bool :=
  path.getLast? == some "__SelectionSet" &&
    match d.findLocal path.dropLast "__SelectionSet" with
    | some x => match x.ty with
      | .other "raw" [text] => text == preludeText
      | _ => false
    | none => false

/-- `Env.appHook` -/
def hook (d : Decls) (head : Ty) (args : List Ty) : Option Ty :=
  match head, args with
  | .other "abs" path, [orig, .obj o, .obj others] =>
    if isSelectionSet d path then (origFields d 8 orig).map fun ofs => .obj (selectionSet ofs o others)
    else none
  | _, _ => none

/-- environment of an operation declaration file together with the schema declaration file it imports
    (`import type * as <NS> from "<module>"`) -/
def envOf (opFile : File) (module : String) (schemaFile : File) : Env :=
  { decls := Decls.ofFiles opFile [(module, schemaFile)], appHook := hook }

/-- a few members of a closed type (used by the O stream to pick values of scalar types; every candidate is
    re-checked with `memG`, so this is only a heuristic) -/
def candidates (e : Env) : Nat → Ty → List J
  | 0, _ => []
  | n + 1, t =>
    match t with
    | .prim "string" => [.str "s"]
    | .prim "number" => [.num]
    | .prim "boolean" => [.bool true]
    | .prim "true" => [.bool true]
    | .prim "false" => [.bool false]
    | .prim "unknown" => [.str "s", .num]
    | .prim "any" => [.str "s", .num]
    | .prim "null" => []
    | .prim "undefined" => []
    | .prim "void" => []
    | .prim "never" => []
    | .strLit s => [.str s]
    | .union ts => ts.flatMap (candidates e n)
    | .arr t' => [.arr ((candidates e n t').take 1), .arr []]
    | .roArr t' => [.arr ((candidates e n t').take 1), .arr []]
    | .obj fs => [.obj (fs.filterMap fun f => match candidates e n f.2.2.2 with
        | x :: _ => some (f.1, x)
        | [] => none)]
    | .other "abs" path =>
      match e.decls.body? path with
      | some ([], body) => candidates e n body
      | _ => [.atom t.show]
    | .app f as =>
      match e.appHook e.decls f as with
      | some t' => candidates e n t'
      | none => [.atom t.show]
    | .inter _ => []
    | _ => [.atom t.show]

def samples (e : Env) (fuel : Nat) (t : Ty) : List J :=
  ((candidates e fuel t).filter fun v => memG e 64 v t).take 3

end NitroVerif.Ts.SelSem
