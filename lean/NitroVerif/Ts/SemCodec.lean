/-
S-expression codec of the value domain `Ts.J` (`Ts/Sem.lean`) and a file/statement encoder of `Ts.Syntax`
(the inverse of `Ts.Dec.file`). Drivers only (`partial`); no theorem depends on this file.

  J := (null) | (absent) | (str "s") | (num) | (bool true|false) | (atom "tag") | (arr J…) | (obj ("k" J)…)
-/
import NitroVerif.Base.Sexp
import NitroVerif.Ts.Codec
import NitroVerif.Ts.Sem
namespace NitroVerif.Ts
open NitroVerif

partial def Dec.j : Sexp → Option J
  | .list [.atom "null"] => some .null
  | .list [.atom "absent"] => some .absent
  | .list [.atom "str", .str s] => some (.str s)
  | .list [.atom "num"] => some .num
  | .list [.atom "bool", b] => do some (.bool (← Dec.bool? b))
  | .list [.atom "atom", .str s] => some (.atom s)
  | .list (.atom "arr" :: xs) => do some (.arr (← xs.mapM Dec.j))
  | .list (.atom "obj" :: kvs) => do
    some (.obj (← kvs.mapM fun
      | .list [.str k, v] => do some (k, ← Dec.j v)
      | _ => none))
  | _ => none

partial def Enc.j : J → Sexp
  | .null => .list [.atom "null"]
  | .absent => .list [.atom "absent"]
  | .str s => .list [.atom "str", .str s]
  | .num => .list [.atom "num"]
  | .bool b => .list [.atom "bool", Sexp.ofBool b]
  | .atom s => .list [.atom "atom", .str s]
  | .arr xs => .list (.atom "arr" :: xs.map Enc.j)
  | .obj kvs => .list (.atom "obj" :: kvs.map fun (k, v) => .list [.str k, Enc.j v])

partial def Enc.js : JsExpr → Sexp
  | .null => .list [.atom "null"]
  | .bool b => .list [.atom "bool", Sexp.ofBool b]
  | .num s => .list [.atom "num", .str s]
  | .str s => .list [.atom "str", .str s]
  | .ident s => .list [.atom "ident", .str s]
  | .arr xs => .list (.atom "arr" :: xs.map Enc.js)
  | .obj kvs => .list (.atom "obj" :: kvs.map fun (k, v) => .list [.str k, Enc.js v])

def Enc.optTy : Option Ty → Sexp
  | none => .list [.atom "none"]
  | some t => Enc.ty t

partial def Enc.stmt : Stmt → Sexp
  | .import m t w =>
    let what := match w with
      | .named items => Sexp.list (.atom "named" :: items.map fun (a, b) => .list [.str a, .str b])
      | .star n => .list [.atom "star", .str n]
      | .default n => .list [.atom "default", .str n]
    .list [.atom "import", .str m, Sexp.ofBool t, what]
  | .type e n ps t =>
    .list [.atom "type", Sexp.ofBool e, .str n, .list (ps.map fun (p, c) => .list [.str p, Enc.optTy c]), Enc.ty t]
  | .rawType e n text => .list [.atom "rawtype", Sexp.ofBool e, .str n, .str text]
  | .namespace e n body => .list [.atom "namespace", Sexp.ofBool e, .str n, .list (body.map Enc.stmt)]
  | .exportList t items => .list [.atom "exportlist", Sexp.ofBool t, .list (items.map fun (a, b) => .list [.str a, .str b])]
  | .const e d n t i =>
    .list [.atom "const", Sexp.ofBool e, Sexp.ofBool d, .str n, Enc.optTy t,
      match i with | none => .list [.atom "none"] | some x => Enc.js x]
  | .exportDefault n => .list [.atom "exportdefault", .str n]
  | .doc s => .list [.atom "doc", .str s]

def Enc.file (f : File) : Sexp := .list (.atom "tsfile" :: f.map Enc.stmt)

/-- scope: a list of strings `("A" "B")` -/
def Dec.scope : Sexp → Option Scope
  | .list xs => xs.mapM Dec.str?
  | _ => none

end NitroVerif.Ts
