/-
Shared semantics of the TypeScript subset nitrogql emits (`Ts/Syntax.lean`), as sets of JSON-ish values.

TRUSTED BASE.  No TypeScript compiler exists in this sandbox, so the meaning of the emitted declaration
files is *defined* here, by hand, for the subset of TypeScript the printers produce.  Every theorem of
C01/C02/C09/C10 that speaks about "the values a TypeScript type admits" speaks about THIS definition.
The choices made (all on the strict side, see DESIGN.md §3 "Responses and TS types"):

* value domain `J`: `null`, `absent` (= `undefined`; JSON has neither a missing-key value nor `undefined`,
  so the two are identified), strings, one abstract number, booleans, opaque atoms, arrays, records;
* object types are read EXACTLY on keys: a record is a member iff every non-optional field is present and
  a member (a missing key counts as the value `absent`, so `x: T | undefined` may be omitted), optional
  fields are absent or members, and no undeclared key is present;
* intersections whose members all denote object types are first normalised into ONE record (fields united;
  a key declared on several sides gets the intersection of the field types, is optional iff optional on
  every side) and the exact reading is applied to the result; other intersections are member-wise;
* unions are member-wise; arrays and readonly arrays are lists of members;
* `string`/`number`/`boolean`/`null`/`undefined`/`void`/`unknown`/`any`/`never`/`true`/`false` and string
  literal types have their usual meaning and are NOT opaque;
* every type this model does not interpret — a reference that resolves to no declaration of the files at
  hand (a global/ambient TypeScript name such as `Date`), an application of such a name, `bigint`, `object`,
  `symbol`, numeric literal types, function / tuple / indexed-access / keyof / typeof types — is OPAQUE: it
  admits exactly one value, `atom (Ty.show t)`, the atom tagged by the type's canonical text.  Two different
  opaque texts are therefore disjoint and a foreign atom belongs to neither (this is how a configured scalar
  text like `Date` is told from a schema type that happens to be called `Date`);
* names are resolved as TypeScript resolves them: a reference inside a namespace denotes the declaration of
  that name bound in the innermost enclosing namespace body (or module top level), `export type { a as b }`
  exports `a` under the name `b` WITHOUT binding `b` locally, `N.M.x` denotes the exported member `x` of the
  namespace found by resolving `N` lexically, `import type * as A from "m"` binds `A` to the top level of
  module `m` when the module's file is supplied (`Decls.ofFiles`), type parameters shadow declarations.

Technically: `Decls` is the declaration table of a file (plus linked modules); `globalise` rewrites every
reference of a type into an ABSOLUTE reference `Ty.other "abs" path` (binding time, the way a compiler would),
after which membership `memG` needs no scope.  `memFuel env scope fuel v t` is the entry point; it is
structurally recursive on the fuel.  `Den env v t := ∃ fuel, memG … = true` is the denotation used in theorems.

Interface kept stable for `Ts/SelSem.lean` (C01/C02): `J`, `Decl`, `Decls`, `Decls.ofFile`, `Decls.ofFiles`,
`Decls.resolveRef`, `Decls.resolveQ`, `Decls.body?`, `globalise`, `Env` (with `appHook` — the extension point
for generic helper types such as `__SelectionSet<Orig,Obj,Others>`), `ObjView`, `objView`, `mergeFields`,
`memG`, `memFuel`, `Den`.
Core Lean only; everything structurally recursive (kernel-evaluable).
-/
import NitroVerif.Ts.Syntax
namespace NitroVerif.Ts

/-- JSON-ish value domain -/
inductive J where
  | null
  | absent
  | str (s : String)
  | num
  | bool (b : Bool)
  | atom (tag : String)
  | arr (xs : List J)
  | obj (kvs : List (String × J))
  deriving Repr, Inhabited

mutual
def J.beq : J → J → Bool
  | .null, .null => true
  | .absent, .absent => true
  | .str a, .str b => a == b
  | .num, .num => true
  | .bool a, .bool b => a == b
  | .atom a, .atom b => a == b
  | .arr a, .arr b => J.beqList a b
  | .obj a, .obj b => J.beqFields a b
  | _, _ => false
def J.beqList : List J → List J → Bool
  | [], [] => true
  | a :: as, b :: bs => a.beq b && J.beqList as bs
  | _, _ => false
def J.beqFields : List (String × J) → List (String × J) → Bool
  | [], [] => true
  | (k, a) :: as, (k', b) :: bs => k == k' && a.beq b && J.beqFields as bs
  | _, _ => false
end
instance : BEq J := ⟨J.beq⟩

mutual
def J.size : J → Nat
  | .arr xs => J.sizeList xs + 1
  | .obj kvs => J.sizeFields kvs + 1
  | _ => 1
def J.sizeList : List J → Nat
  | [] => 0
  | x :: xs => x.size + J.sizeList xs
def J.sizeFields : List (String × J) → Nat
  | [] => 0
  | (_, x) :: r => x.size + J.sizeFields r
end

def J.isAbsent : J → Bool
  | .absent => true
  | _ => false
def J.isNull : J → Bool
  | .null => true
  | _ => false

/-- value of a key in a record; a missing key is the value `absent` -/
def J.get (kvs : List (String × J)) (k : String) : J :=
  match kvs.find? (·.1 == k) with
  | some (_, v) => v
  | none => .absent

/-! ### canonical text of a type (tags of opaque atoms) -/

def sepBy (sep : String) : List String → String
  | [] => ""
  | [a] => a
  | a :: r => a ++ sep ++ sepBy sep r

mutual
def Ty.show : Ty → String
  | .prim s => s
  | .ref n => n
  | .qref p => sepBy "." p
  | .app f as => f.show ++ "<" ++ sepBy ", " (Ty.showList as) ++ ">"
  | .strLit s => "\"" ++ s ++ "\""
  | .numLit s => s
  | .obj fs => "{" ++ sepBy " " (Ty.showFields fs) ++ "}"
  | .arr t => "(" ++ t.show ++ ")[]"
  | .roArr t => "readonly (" ++ t.show ++ ")[]"
  | .union ts => sepBy " | " (Ty.showList ts)
  | .inter ts => sepBy " & " (Ty.showList ts)
  | .fn ps r => "(" ++ sepBy ", " (Ty.showParams ps) ++ ") => " ++ r.show
  | .index t k => t.show ++ "[" ++ k.show ++ "]"
  | .tuple ts => "[" ++ sepBy ", " (Ty.showList ts) ++ "]"
  | .other tag ps => tag ++ "(" ++ sepBy " " ps ++ ")"
def Ty.showList : List Ty → List String
  | [] => []
  | t :: ts => t.show :: Ty.showList ts
def Ty.showFields : List (String × Bool × Bool × Ty) → List String
  | [] => []
  | (k, r, o, t) :: fs =>
    ((if r then "readonly " else "") ++ k ++ (if o then "?" else "") ++ ": " ++ t.show ++ ";") :: Ty.showFields fs
def Ty.showParams : List (String × Ty) → List String
  | [] => []
  | (n, t) :: ps => (n ++ ": " ++ t.show) :: Ty.showParams ps
end

/-! ### declaration tables -/

abbrev Scope := List String

/-- one type alias bound in a namespace body / module top level -/
structure Decl where
  scope : Scope
  name : String
  exported : Bool
  params : List String
  ty : Ty
  deriving Repr, Inhabited

structure Decls where
  types : List Decl := []
  /-- `export type { local as exported }` entries: (scope, local, exported-as) -/
  exports : List (Scope × String × String) := []
  /-- paths of namespace bodies (and of linked module roots) -/
  namespaces : List Scope := []
  /-- module roots: lexical lookup does not continue outward past one -/
  roots : List Scope := []
  deriving Repr, Inhabited

/-- declarations of a statement list placed at `scope` (namespaces recursively; structural on the size bound) -/
def Decls.collect : Nat → Scope → List Stmt → Decls → Decls
  | 0, _, _, acc => acc
  | _, _, [], acc => acc
  | fuel + 1, scope, s :: rest, acc =>
    let acc :=
      match s with
      | .type ex n ps t => { acc with types := acc.types ++ [⟨scope, n, ex, ps.map (·.1), t⟩] }
      | .rawType ex n text => { acc with types := acc.types ++ [⟨scope, n, ex, [], .other "raw" [text]⟩] }
      | .namespace _ n body =>
        Decls.collect fuel (scope ++ [n]) body { acc with namespaces := acc.namespaces ++ [scope ++ [n]] }
      | .exportList _ items => { acc with exports := acc.exports ++ items.map fun (l, e) => (scope, l, e) }
      | _ => acc
    Decls.collect fuel scope rest acc

mutual
def Stmt.size : Stmt → Nat
  | .namespace _ _ body => Stmt.sizeList body + 1
  | _ => 1
def Stmt.sizeList : List Stmt → Nat
  | [] => 0
  | s :: r => s.size + Stmt.sizeList r
end

/-- the declaration table of one file -/
def Decls.ofFile (f : File) : Decls :=
  Decls.collect (Stmt.sizeList f + 1) [] f {}

/-- the table of `main` with the files of star-imported modules linked in:
    `import type * as A from "m"` with `("m", file) ∈ mods` places `file` under the module root `[A]` -/
def Decls.ofFiles (main : File) (mods : List (String × File)) : Decls :=
  main.foldl (fun acc s =>
    match s with
    | .import m _ (.star a) =>
      match mods.find? (·.1 == m) with
      | some (_, f) =>
        Decls.collect (Stmt.sizeList f + 1) [a] f
          { acc with namespaces := acc.namespaces ++ [[a]], roots := acc.roots ++ [[a]] }
      | none => acc
    | _ => acc) (Decls.ofFile main)

namespace Decls

/-- the declaration of `n` bound in exactly this scope -/
def findLocal (d : Decls) (scope : Scope) (n : String) : Option Decl :=
  d.types.find? fun x => x.scope == scope && x.name == n

/-- lexical resolution of a simple name: innermost enclosing body that binds it; stops at a module root -/
def resolveRefAux (d : Decls) (n : String) : Nat → Scope → Option Decl
  | 0, _ => none
  | fuel + 1, scope =>
    match d.findLocal scope n with
    | some x => some x
    | none => if scope.isEmpty || d.roots.contains scope then none else resolveRefAux d n fuel scope.dropLast

def resolveRef (d : Decls) (scope : Scope) (n : String) : Option Decl :=
  resolveRefAux d n (scope.length + 1) scope

/-- the exported member `n` of the namespace (or module) at `scope` -/
def findExported (d : Decls) (scope : Scope) (n : String) : Option Decl :=
  match d.types.find? fun x => x.scope == scope && x.name == n && x.exported with
  | some x => some x
  | none =>
    match d.exports.find? fun (s, _, e) => s == scope && e == n with
    | some (_, l, _) => d.resolveRef scope l
    | none => none

/-- lexical resolution of a namespace name -/
def resolveNsAux (d : Decls) (n : String) : Nat → Scope → Option Scope
  | 0, _ => none
  | fuel + 1, scope =>
    if d.namespaces.contains (scope ++ [n]) then some (scope ++ [n])
    else if scope.isEmpty || d.roots.contains scope then none
    else resolveNsAux d n fuel scope.dropLast

/-- `N.M.x` : resolve `N` lexically, descend through namespaces, take the exported member `x` -/
def resolveQ (d : Decls) (scope : Scope) (path : List String) : Option Decl :=
  match path with
  | [] => none
  | [n] => d.resolveRef scope n
  | n :: rest =>
    match resolveNsAux d n (scope.length + 1) scope with
    | none => none
    | some ns =>
      let inner := ns ++ rest.dropLast
      if d.namespaces.contains inner || rest.length == 1 then
        match rest.getLast? with
        | some x => d.findExported inner x
        | none => none
      else none

end Decls

/-! ### binding time: absolute references -/

/-- absolute reference to the declaration `name` bound in `scope` -/
def Ty.abs (scope : Scope) (name : String) : Ty := .other "abs" (scope ++ [name])

mutual
/-- rewrite every reference that resolves (from `scope`, not shadowed by a type parameter in `bound`) into an
    absolute reference; unresolvable references stay as they are (they are opaque) -/
def globalise (d : Decls) (scope : Scope) (bound : List String) : Ty → Ty
  | .ref n =>
    if bound.contains n then .ref n
    else match d.resolveRef scope n with
      | some x => Ty.abs x.scope x.name
      | none => .ref n
  | .qref p =>
    match p with
    | n :: _ =>
      if bound.contains n then .qref p
      else match d.resolveQ scope p with
        | some x => Ty.abs x.scope x.name
        | none => .qref p
    | [] => .qref p
  | .app f as => .app (globalise d scope bound f) (globaliseList d scope bound as)
  | .obj fs => .obj (globaliseFields d scope bound fs)
  | .arr t => .arr (globalise d scope bound t)
  | .roArr t => .roArr (globalise d scope bound t)
  | .union ts => .union (globaliseList d scope bound ts)
  | .inter ts => .inter (globaliseList d scope bound ts)
  | .fn ps r => .fn (globaliseParams d scope bound ps) (globalise d scope bound r)
  | .index t k => .index (globalise d scope bound t) (globalise d scope bound k)
  | .tuple ts => .tuple (globaliseList d scope bound ts)
  | t => t
def globaliseList (d : Decls) (scope : Scope) (bound : List String) : List Ty → List Ty
  | [] => []
  | t :: ts => globalise d scope bound t :: globaliseList d scope bound ts
def globaliseFields (d : Decls) (scope : Scope) (bound : List String) :
    List (String × Bool × Bool × Ty) → List (String × Bool × Bool × Ty)
  | [] => []
  | (k, r, o, t) :: fs => (k, r, o, globalise d scope bound t) :: globaliseFields d scope bound fs
def globaliseParams (d : Decls) (scope : Scope) (bound : List String) : List (String × Ty) → List (String × Ty)
  | [] => []
  | (n, t) :: ps => (n, globalise d scope bound t) :: globaliseParams d scope bound ps
end

namespace Decls
/-- the (closed) body of the declaration at an absolute path, with its type parameters -/
def body? (d : Decls) (path : List String) : Option (List String × Ty) :=
  match path.getLast? with
  | none => none
  | some n =>
    match d.findLocal path.dropLast n with
    | some x => some (x.params, globalise d x.scope x.params x.ty)
    | none => none
end Decls

/-- Environment of the membership relation: the declaration table and the extension point for generic helper
    types.  `appHook decls head args` (head and args closed) may return the closed type the application
    denotes; `none` = not handled here (generic aliases without a hook are opaque). -/
structure Env where
  decls : Decls
  appHook : Decls → Ty → List Ty → Option Ty := fun _ _ _ => none

def Env.ofFile (f : File) : Env := { decls := Decls.ofFile f }
def Env.ofFiles (main : File) (mods : List (String × File)) : Env := { decls := Decls.ofFiles main mods }
def Env.empty : Env := { decls := {} }

/-! ### object view (for intersections) -/

/-- what a closed type is, seen as a record -/
inductive ObjView where
  | isObj (fields : List Field)
  | notObj
  | outOfFuel
  deriving Inhabited

/-- unite two field lists: a key declared on both sides gets the intersection of the two types, is optional
    iff optional on both sides, readonly if readonly on either -/
def mergeField (f : Field) : List Field → List Field
  | [] => [f]
  | g :: gs =>
    if g.1 == f.1 then (g.1, g.2.1 || f.2.1, g.2.2.1 && f.2.2.1, Ty.inter [g.2.2.2, f.2.2.2]) :: gs
    else g :: mergeField f gs

def mergeFields (a b : List Field) : List Field :=
  b.foldl (fun acc f => mergeField f acc) a

def ObjView.merge : ObjView → ObjView → ObjView
  | .isObj a, .isObj b => .isObj (mergeFields a b)
  | .outOfFuel, _ => .outOfFuel
  | _, .outOfFuel => .outOfFuel
  | _, _ => .notObj

/-- resolve a closed type to a record type if it denotes one (through aliases, hooks and nested intersections) -/
def objView (e : Env) : Nat → Ty → ObjView
  | 0, _ => .outOfFuel
  | n + 1, t =>
    match t with
    | .obj fs => .isObj fs
    | .other "abs" path =>
      match e.decls.body? path with
      | some ([], body) => objView e n body
      | _ => .notObj
    | .app f as =>
      match e.appHook e.decls f as with
      | some t' => objView e n t'
      | none => .notObj
    | .inter ts =>
      match ts with
      | [] => .notObj
      | t0 :: rest => rest.foldl (fun acc t' => acc.merge (objView e n t')) (objView e n t0)
    | _ => .notObj

/-! ### membership -/

/-- exact-key reading of a record type, given the membership test for field types -/
def memRecord (mem : J → Ty → Bool) (fields : List Field) (kvs : List (String × J)) : Bool :=
  fields.all (fun f => let v := J.get kvs f.1; (f.2.2.1 && v.isAbsent) || mem v f.2.2.2)
  && kvs.all (fun kv => kv.2.isAbsent || fields.any (·.1 == kv.1))

/-- membership of a value in a CLOSED type (all resolvable references absolute) -/
def memG (e : Env) : Nat → J → Ty → Bool
  | 0, _, _ => false
  | n + 1, v, t =>
    match t with
    | .prim "string" => match v with | .str _ => true | _ => false
    | .prim "number" => match v with | .num => true | _ => false
    | .prim "boolean" => match v with | .bool _ => true | _ => false
    | .prim "true" => match v with | .bool true => true | _ => false
    | .prim "false" => match v with | .bool false => true | _ => false
    | .prim "null" => v.isNull
    | .prim "undefined" => v.isAbsent
    | .prim "void" => v.isAbsent
    | .prim "unknown" => true
    | .prim "any" => true
    | .prim "never" => false
    | .strLit s => match v with | .str s' => s' == s | _ => false
    | .obj fs => match v with | .obj kvs => memRecord (memG e n) fs kvs | _ => false
    | .arr t' => match v with | .arr xs => xs.all (memG e n · t') | _ => false
    | .roArr t' => match v with | .arr xs => xs.all (memG e n · t') | _ => false
    | .union ts => ts.any (memG e n v ·)
    | .inter ts =>
      match objView e n (.inter ts) with
      | .isObj fs => match v with | .obj kvs => memRecord (memG e n) fs kvs | _ => false
      | .notObj => ts.all (memG e n v ·)
      | .outOfFuel => false
    | .other "abs" path =>
      match e.decls.body? path with
      | some ([], body) => memG e n v body
      | _ => match v with | .atom tag => tag == t.show | _ => false
    | .app f as =>
      match e.appHook e.decls f as with
      | some t' => memG e n v t'
      | none => match v with | .atom tag => tag == t.show | _ => false
    | _ => match v with | .atom tag => tag == t.show | _ => false

/-- membership of `v` in the type `t` written in namespace `scope` of the files of `e` -/
def memFuel (e : Env) (scope : Scope) (fuel : Nat) (v : J) (t : Ty) : Bool :=
  memG e fuel v (globalise e.decls scope [] t)

/-- denotation: `v` is a value of the closed type `t` -/
def Den (e : Env) (v : J) (t : Ty) : Prop := ∃ n, memG e n v t = true

/-- denotation of a type written in `scope` -/
def DenIn (e : Env) (scope : Scope) (v : J) (t : Ty) : Prop := Den e v (globalise e.decls scope [] t)

/-! ### standard helper types

`Omit<T, "k1" | "k2">` (used by the resolvers declaration file: `type User = Omit<Schema.__ResolverOutput.User,
"__typename">`): the record type of `T` without the listed keys. Offered as an `appHook`; `Env.withStd` installs it.
Additive: `Env.ofFile` / `Env.ofFiles` keep the empty hook. -/

def Ty.strLits : Ty → Option (List String)
  | .strLit s => some [s]
  | .union ts => ts.foldr (fun t acc => match t, acc with | .strLit s, some r => some (s :: r) | _, _ => none) (some [])
  | .prim "never" => some []
  | _ => none

def stdHook (d : Decls) (f : Ty) (args : List Ty) : Option Ty :=
  match f, args with
  | .ref "Omit", [t, k] =>
    match objView { decls := d } 64 t, k.strLits with
    | .isObj fs, some ks => some (.obj (fs.filter fun fld => !ks.contains fld.1))
    | _, _ => none
  | _, _ => none

def Env.withStd (e : Env) : Env := { e with appHook := stdHook }

/-- opaque atom tags that occur in a (closed or open) type: candidates for an abstract value domain -/
def Ty.atomTags (e : Env) : Nat → Ty → List String
  | 0, _ => []
  | n + 1, t =>
    match t with
    | .prim s => if ["bigint", "object", "symbol"].contains s then [s] else []
    | .strLit _ => []
    | .obj fs => fs.flatMap fun f => Ty.atomTags e n f.2.2.2
    | .arr t' | .roArr t' => Ty.atomTags e n t'
    | .union ts | .inter ts => ts.flatMap (Ty.atomTags e n)
    | .other "abs" path =>
      match e.decls.body? path with
      | some ([], body) => Ty.atomTags e n body
      | _ => [t.show]
    | t => [t.show]

end NitroVerif.Ts
