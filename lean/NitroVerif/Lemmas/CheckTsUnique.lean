/-
Helper lemmas for C05 / C17 / C08 about `check_unique_names` (fix 8cdbacf, `CheckTs.checkUniqueNames`): the single
pass with two `seen` vectors is empty iff the loop over the type identifiers and the loop over the directive
identifiers are; what an empty type loop / directive loop says about the names (told apart by the `builtin` flag of
the position of the name); permutation invariance of "some name clash is reported".
Core Lean only.
-/
import NitroVerif.Lemmas.CheckTsValue
namespace NitroVerif.CheckTs
open NitroVerif.Gql NitroVerif.ValidTs

/-- the loop of `check_unique_names` restricted to one of its two `seen` vectors -/
def uniqLoop (isType : Bool) : List (Name × Pos) → List (Name × Pos) → List Err
  | _, [] => []
  | seen, x :: xs => uniqueStep isType seen x.1 x.2 ++ uniqLoop isType (seen ++ [x]) xs

theorem checkUniqueNamesAux_nil_iff (T : TsDoc) : ∀ st sd, checkUniqueNamesAux st sd T = [] ↔
    uniqLoop true st (typeIdents T) = [] ∧ uniqLoop false sd (directiveIdents T) = [] := by
  induction T with
  | nil => intro st sd; simp [checkUniqueNamesAux, typeIdents, directiveIdents, uniqLoop, ValidTs.typeDefs,
      ValidTs.directiveDefs, Schema.typeDefs, Schema.directiveDefs]
  | cons it r ih =>
    intro st sd
    cases it with
    | typeDef t =>
      have e1 : typeIdents (.typeDef t :: r) = (t.name, t.namePos) :: typeIdents r := rfl
      have e2 : directiveIdents (.typeDef t :: r) = directiveIdents r := rfl
      rw [e1, e2]
      simp only [checkUniqueNamesAux, uniqLoop, List.append_eq_nil_iff, ih, and_assoc]
    | directiveDef d =>
      have e1 : typeIdents (.directiveDef d :: r) = typeIdents r := rfl
      have e2 : directiveIdents (.directiveDef d :: r) = (d.name, d.namePos) :: directiveIdents r := rfl
      rw [e1, e2]
      simp only [checkUniqueNamesAux, uniqLoop, List.append_eq_nil_iff, ih]
      constructor
      · rintro ⟨a, b, c⟩; exact ⟨b, a, c⟩
      · rintro ⟨b, a, c⟩; exact ⟨a, b, c⟩
    | schemaDef s =>
      have e1 : typeIdents (.schemaDef s :: r) = typeIdents r := rfl
      have e2 : directiveIdents (.schemaDef s :: r) = directiveIdents r := rfl
      rw [e1, e2]; simp only [checkUniqueNamesAux, ih]
    | schemaExt s =>
      have e1 : typeIdents (.schemaExt s :: r) = typeIdents r := rfl
      have e2 : directiveIdents (.schemaExt s :: r) = directiveIdents r := rfl
      rw [e1, e2]; simp only [checkUniqueNamesAux, ih]
    | typeExt s =>
      have e1 : typeIdents (.typeExt s :: r) = typeIdents r := rfl
      have e2 : directiveIdents (.typeExt s :: r) = directiveIdents r := rfl
      rw [e1, e2]; simp only [checkUniqueNamesAux, ih]

theorem checkUniqueNames_nil_iff (T : TsDoc) : checkUniqueNames T = [] ↔
    uniqLoop true [] (typeIdents T) = [] ∧ uniqLoop false [] (directiveIdents T) = [] :=
  checkUniqueNamesAux_nil_iff T [] []

theorem checkSchema_nil_iff (T : TsDoc) : checkSchema T = [] ↔ checkUniqueNames T = [] ∧ checkSchemaItems T = [] := by
  simp only [checkSchema, List.append_eq_nil_iff]

theorem checkSchema_nil_unique {T : TsDoc} (h : checkSchema T = []) : checkUniqueNames T = [] :=
  ((checkSchema_nil_iff T).mp h).1

/-! ### membership in `userNames` / `builtinNames` -/

theorem mem_userNames {l : List (Name × Pos)} {n : Name} :
    n ∈ userNames l ↔ ∃ x ∈ l, x.2.builtin = false ∧ x.1 = n := by
  simp only [userNames, List.mem_map, List.mem_filter, Bool.not_eq_true']
  constructor
  · rintro ⟨x, ⟨hx, hb⟩, rfl⟩; exact ⟨x, hx, hb, rfl⟩
  · rintro ⟨x, hx, hb, rfl⟩; exact ⟨x, ⟨hx, hb⟩, rfl⟩

theorem mem_builtinNames {l : List (Name × Pos)} {n : Name} :
    n ∈ builtinNames l ↔ ∃ x ∈ l, x.2.builtin = true ∧ x.1 = n := by
  simp only [builtinNames, List.mem_map, List.mem_filter]
  constructor
  · rintro ⟨x, ⟨hx, hb⟩, rfl⟩; exact ⟨x, hx, hb, rfl⟩
  · rintro ⟨x, hx, hb, rfl⟩; exact ⟨x, ⟨hx, hb⟩, rfl⟩

theorem userNames_snoc (l : List (Name × Pos)) (x : Name × Pos) :
    userNames (l ++ [x]) = if x.2.builtin then userNames l else userNames l ++ [x.1] := by
  cases hb : x.2.builtin <;> simp [userNames, List.filter_append, hb]

theorem builtinNames_snoc (l : List (Name × Pos)) (x : Name × Pos) :
    builtinNames (l ++ [x]) = if x.2.builtin then builtinNames l ++ [x.1] else builtinNames l := by
  cases hb : x.2.builtin <;> simp [builtinNames, List.filter_append, hb]

theorem userNames_cons (x : Name × Pos) (l : List (Name × Pos)) :
    userNames (x :: l) = if x.2.builtin then userNames l else x.1 :: userNames l := by
  cases hb : x.2.builtin <;> simp [userNames, hb]

theorem builtinNames_cons (x : Name × Pos) (l : List (Name × Pos)) :
    builtinNames (x :: l) = if x.2.builtin then x.1 :: builtinNames l else builtinNames l := by
  cases hb : x.2.builtin <;> simp [builtinNames, hb]

theorem find?_name_none {seen : List (Name × Pos)} {n : Name} :
    seen.find? (·.1 == n) = none ↔ ∀ y ∈ seen, y.1 ≠ n := by
  simp [List.find?_eq_none]

theorem find?_name_some {seen : List (Name × Pos)} {n : Name} {o : Name × Pos}
    (h : seen.find? (·.1 == n) = some o) : o ∈ seen ∧ o.1 = n :=
  ⟨List.mem_of_find?_eq_some h, by simpa using List.find?_some h⟩

/-! ### the type loop: user names distinct, and none of them is the name of a built-in-position definition -/

/-- what the type loop maintains about the identifiers pushed so far -/
def IdentsOk (l : List (Name × Pos)) : Prop :=
  (userNames l).Nodup ∧ ∀ n ∈ userNames l, n ∉ builtinNames l

theorem identsOk_nil : IdentsOk [] := by
  simp [IdentsOk, userNames, builtinNames]

theorem uniqueStep_type_nil_iff {seen : List (Name × Pos)} (hinv : IdentsOk seen) (x : Name × Pos) :
    uniqueStep true seen x.1 x.2 = [] ↔ IdentsOk (seen ++ [x]) := by
  obtain ⟨hnd, hdis⟩ := hinv
  unfold IdentsOk
  rw [userNames_snoc, builtinNames_snoc]
  cases hb : x.2.builtin with
  | false =>
    simp only [Bool.false_eq_true, if_false]
    unfold uniqueStep
    cases hf : seen.find? (·.1 == x.1) with
    | none =>
      have hnone := find?_name_none.mp hf
      simp only [true_iff]
      have hxu : x.1 ∉ userNames seen := fun hm => by
        obtain ⟨y, hy, _, hyn⟩ := mem_userNames.mp hm
        exact hnone y hy hyn
      have hxb : x.1 ∉ builtinNames seen := fun hm => by
        obtain ⟨y, hy, _, hyn⟩ := mem_builtinNames.mp hm
        exact hnone y hy hyn
      refine ⟨?_, ?_⟩
      · rw [List.nodup_append]
        refine ⟨hnd, (by simp), ?_⟩
        intro a ha b hb'
        rw [List.mem_singleton] at hb'
        subst hb'
        exact fun e => hxu (e ▸ ha)
      · intro n hn
        rcases List.mem_append.mp hn with h | h
        · exact hdis n h
        · rw [List.mem_singleton] at h; subst h; exact hxb
    | some o =>
      obtain ⟨hom, hon⟩ := find?_name_some hf
      have hne : uniqueReport true o.2 x.2 ≠ [] := by
        unfold uniqueReport; rw [hb]; cases o.2.builtin <;> simp
      simp only [hne, false_iff]
      rintro ⟨hnd', hdis'⟩
      cases hob : o.2.builtin with
      | false =>
        have : x.1 ∈ userNames seen := mem_userNames.mpr ⟨o, hom, hob, hon⟩
        rw [List.nodup_append] at hnd'
        exact hnd'.2.2 x.1 this x.1 (List.mem_singleton.mpr rfl) rfl
      | true =>
        have : x.1 ∈ builtinNames seen := mem_builtinNames.mpr ⟨o, hom, hob, hon⟩
        exact hdis' x.1 (List.mem_append.mpr (Or.inr (List.mem_singleton.mpr rfl))) this
  | true =>
    simp only [if_true]
    unfold uniqueStep
    cases hf : seen.find? (·.1 == x.1) with
    | none =>
      have hnone := find?_name_none.mp hf
      simp only [true_iff]
      refine ⟨hnd, ?_⟩
      intro n hn hm
      rcases List.mem_append.mp hm with h | h
      · exact hdis n hn h
      · rw [List.mem_singleton] at h; subst h
        obtain ⟨y, hy, _, hyn⟩ := mem_userNames.mp hn
        exact hnone y hy hyn
    | some o =>
      obtain ⟨hom, hon⟩ := find?_name_some hf
      cases hob : o.2.builtin with
      | false =>
        have hne : uniqueReport true o.2 x.2 ≠ [] := by
          unfold uniqueReport; rw [hb, hob]; simp
        simp only [hne, false_iff]
        rintro ⟨_, hdis'⟩
        have : x.1 ∈ userNames seen := mem_userNames.mpr ⟨o, hom, hob, hon⟩
        exact hdis' x.1 this (List.mem_append.mpr (Or.inr (List.mem_singleton.mpr rfl)))
      | true =>
        have he : uniqueReport true o.2 x.2 = [] := by
          unfold uniqueReport; rw [hb, hob]
        simp only [he, true_iff]
        refine ⟨hnd, ?_⟩
        intro n hn hm
        rcases List.mem_append.mp hm with h | h
        · exact hdis n hn h
        · rw [List.mem_singleton] at h; subst h
          exact hdis x.1 hn (mem_builtinNames.mpr ⟨o, hom, hob, hon⟩)

theorem identsOk_of_snoc {l : List (Name × Pos)} {x : Name × Pos} (h : IdentsOk (l ++ [x])) : IdentsOk l := by
  obtain ⟨hnd, hdis⟩ := h
  rw [userNames_snoc] at hnd hdis
  rw [builtinNames_snoc] at hdis
  cases hb : x.2.builtin with
  | false =>
    rw [hb] at hnd hdis
    simp only [Bool.false_eq_true, if_false] at hnd hdis
    exact ⟨(List.nodup_append.mp hnd).1, fun n hn => hdis n (List.mem_append.mpr (Or.inl hn))⟩
  | true =>
    rw [hb] at hnd hdis
    simp only [if_true] at hnd hdis
    exact ⟨hnd, fun n hn hm => hdis n hn (List.mem_append.mpr (Or.inl hm))⟩

theorem identsOk_prefix : ∀ {xs l : List (Name × Pos)}, IdentsOk (l ++ xs) → IdentsOk l := by
  intro xs
  induction xs with
  | nil => intro l h; simpa using h
  | cons y ys ih =>
    intro l h
    have e : l ++ y :: ys = (l ++ [y]) ++ ys := by simp
    rw [e] at h
    exact identsOk_of_snoc (ih h)

/-- the type loop reports nothing exactly when the identifiers, together with those seen before, are fine -/
theorem uniqLoop_type_nil_iff : ∀ (xs seen : List (Name × Pos)), IdentsOk seen →
    (uniqLoop true seen xs = [] ↔ IdentsOk (seen ++ xs)) := by
  intro xs
  induction xs with
  | nil => intro seen hinv; simp [uniqLoop, hinv]
  | cons x xs ih =>
    intro seen hinv
    simp only [uniqLoop, List.append_eq_nil_iff]
    have e : seen ++ x :: xs = (seen ++ [x]) ++ xs := by simp
    rw [e]
    constructor
    · rintro ⟨h1, h2⟩
      have hinv' := (uniqueStep_type_nil_iff hinv x).mp h1
      exact (ih _ hinv').mp h2
    · intro h
      have hinv' : IdentsOk (seen ++ [x]) := identsOk_prefix h
      exact ⟨(uniqueStep_type_nil_iff hinv x).mpr hinv', (ih _ hinv').mpr h⟩

theorem uniqLoop_type_nil_iff' (xs : List (Name × Pos)) : uniqLoop true [] xs = [] ↔ IdentsOk xs := by
  have := uniqLoop_type_nil_iff xs [] identsOk_nil
  simpa using this

/-! ### the directive loop -/

/-- distinct user names ⇒ the directive loop reports nothing (no condition on the built-ins) -/
theorem uniqLoop_dir_nil_of_nodup : ∀ (xs seen : List (Name × Pos)), (userNames (seen ++ xs)).Nodup →
    uniqLoop false seen xs = [] := by
  intro xs
  induction xs with
  | nil => intro seen _; rfl
  | cons x xs ih =>
    intro seen hnd
    have e : seen ++ x :: xs = (seen ++ [x]) ++ xs := by simp
    simp only [uniqLoop, List.append_eq_nil_iff]
    refine ⟨?_, ih _ (e ▸ hnd)⟩
    unfold uniqueStep
    cases hf : seen.find? (·.1 == x.1) with
    | none => rfl
    | some o =>
      obtain ⟨hom, hon⟩ := find?_name_some hf
      simp only
      unfold uniqueReport
      cases hob : o.2.builtin <;> cases hb : x.2.builtin <;> simp
      -- both written by the user: the name would be twice among the user names
      exfalso
      have h1 : x.1 ∈ userNames seen := mem_userNames.mpr ⟨o, hom, hob, hon⟩
      have h2 : x.1 ∈ userNames (x :: xs) := mem_userNames.mpr ⟨x, List.mem_cons_self, hb, rfl⟩
      have hsplit : userNames (seen ++ x :: xs) = userNames seen ++ userNames (x :: xs) := by
        simp [userNames, List.filter_append]
      rw [hsplit, List.nodup_append] at hnd
      exact hnd.2.2 x.1 h1 x.1 h2 rfl

theorem builtinsLast_append_cons {l : List (Name × Pos)} {x : Name × Pos} {r : List (Name × Pos)}
    (h : builtinsLast (l ++ x :: r) = true) : ∀ o ∈ l, o.1 = x.1 → x.2.builtin = false → o.2.builtin = false := by
  induction l with
  | nil => intro o ho; cases ho
  | cons a l ih =>
    intro o ho hon hxb
    simp only [List.cons_append, builtinsLast, Bool.and_eq_true, Bool.or_eq_true, Bool.not_eq_true',
      List.all_eq_true] at h
    rcases List.mem_cons.mp ho with rfl | ho'
    · rcases h.1 with hb | hall
      · exact hb
      · have := hall x (List.mem_append.mpr (Or.inr List.mem_cons_self))
        simp [hon, hxb] at this
    · exact ih h.2 o ho' hon hxb

/-- the directive loop reports nothing and no built-in-position identifier precedes a user identifier of its name
    ⇒ the user names are distinct -/
theorem uniqLoop_dir_nodup_of_nil : ∀ (xs seen : List (Name × Pos)), uniqLoop false seen xs = [] →
    builtinsLast (seen ++ xs) = true → (userNames seen).Nodup → (userNames (seen ++ xs)).Nodup := by
  intro xs
  induction xs with
  | nil => intro seen _ _ h; simpa using h
  | cons x xs ih =>
    intro seen hl hbl hnd
    have e : seen ++ x :: xs = (seen ++ [x]) ++ xs := by simp
    simp only [uniqLoop, List.append_eq_nil_iff] at hl
    rw [e]
    apply ih _ hl.2 (e ▸ hbl)
    rw [userNames_snoc]
    cases hb : x.2.builtin with
    | true => simpa using hnd
    | false =>
      simp only [Bool.false_eq_true, if_false]
      rw [List.nodup_append]
      refine ⟨hnd, (by simp), ?_⟩
      intro a ha b hb'
      rw [List.mem_singleton] at hb'
      subst hb'
      intro hab
      subst hab
      obtain ⟨u, hu, hub, hun⟩ := mem_userNames.mp ha
      have hstep := hl.1
      unfold uniqueStep at hstep
      cases hf : seen.find? (·.1 == x.1) with
      | none => exact find?_name_none.mp hf u hu hun
      | some o =>
        obtain ⟨hom, hon⟩ := find?_name_some hf
        rw [hf] at hstep
        have hob := builtinsLast_append_cons hbl o hom hon hb
        simp [uniqueReport, hob, hb] at hstep

/-! ### all names distinct ⇒ nothing is reported (either loop) -/

theorem uniqLoop_nil_of_names_nodup (isType : Bool) : ∀ (xs seen : List (Name × Pos)),
    ((seen ++ xs).map (·.1)).Nodup → uniqLoop isType seen xs = [] := by
  intro xs
  induction xs with
  | nil => intro seen _; rfl
  | cons x xs ih =>
    intro seen hnd
    have e : seen ++ x :: xs = (seen ++ [x]) ++ xs := by simp
    simp only [uniqLoop, List.append_eq_nil_iff]
    refine ⟨?_, ih _ (e ▸ hnd)⟩
    unfold uniqueStep
    cases hf : seen.find? (·.1 == x.1) with
    | none => rfl
    | some o =>
      exfalso
      obtain ⟨hom, hon⟩ := find?_name_some hf
      rw [List.map_append, List.nodup_append] at hnd
      exact hnd.2.2 o.1 (List.mem_map.mpr ⟨o, hom, rfl⟩) x.1 (List.mem_map.mpr ⟨x, List.mem_cons_self, rfl⟩) hon

/-- user names distinct, built-in names distinct, no name on both sides ⇒ all names distinct -/
theorem names_nodup_of_parts : ∀ (l : List (Name × Pos)), (userNames l).Nodup → (builtinNames l).Nodup →
    (∀ n ∈ userNames l, n ∉ builtinNames l) → (l.map (·.1)).Nodup := by
  intro l
  induction l with
  | nil => intro _ _ _; simp
  | cons x l ih =>
    intro hu hb hd
    rw [userNames_cons] at hu hd
    rw [builtinNames_cons] at hb hd
    rw [List.map_cons, List.nodup_cons]
    cases hxb : x.2.builtin with
    | false =>
      rw [hxb] at hu hb hd
      simp only [Bool.false_eq_true, if_false] at hu hb hd
      rw [List.nodup_cons] at hu
      refine ⟨?_, ih hu.2 hb (fun n hn => hd n (List.mem_cons_of_mem _ hn))⟩
      intro hm
      obtain ⟨y, hy, hyn⟩ := List.mem_map.mp hm
      cases hyb : y.2.builtin with
      | false => exact hu.1 (mem_userNames.mpr ⟨y, hy, hyb, hyn⟩)
      | true => exact hd x.1 List.mem_cons_self (mem_builtinNames.mpr ⟨y, hy, hyb, hyn⟩)
    | true =>
      rw [hxb] at hu hb hd
      simp only [if_true] at hu hb hd
      rw [List.nodup_cons] at hb
      refine ⟨?_, ih hu hb.2 (fun n hn hm => hd n hn (List.mem_cons_of_mem _ hm))⟩
      intro hm
      obtain ⟨y, hy, hyn⟩ := List.mem_map.mp hm
      cases hyb : y.2.builtin with
      | false => exact hd x.1 (mem_userNames.mpr ⟨y, hy, hyb, hyn⟩) List.mem_cons_self
      | true => exact hb.1 (mem_builtinNames.mpr ⟨y, hy, hyb, hyn⟩)

theorem typeIdents_names (T : TsDoc) : (typeIdents T).map (·.1) = (ValidTs.typeDefs T).map (·.name) := by
  simp [typeIdents, List.map_map, Function.comp_def]

theorem directiveIdents_names (T : TsDoc) : (directiveIdents T).map (·.1) = (ValidTs.directiveDefs T).map (·.name) := by
  simp [directiveIdents, List.map_map, Function.comp_def]

/-! ### document level -/

/-- nothing reported by `check_unique_names` ⇒ the type identifiers are fine -/
theorem typeIdentsOk_of_unique {T : TsDoc} (h : checkUniqueNames T = []) : IdentsOk (typeIdents T) :=
  (uniqLoop_type_nil_iff' _).mp ((checkUniqueNames_nil_iff T).mp h).1

theorem typeIdentsOk_of_accepted {T : TsDoc} (h : checkSchema T = []) : IdentsOk (typeIdents T) :=
  typeIdentsOk_of_unique (checkSchema_nil_unique h)

/-- nothing reported, built-in-position type definitions distinct ⇒ `uniqueTypeNames` -/
theorem uniqueTypeNames_of_unique {T : TsDoc} (h : checkUniqueNames T = []) (hb : builtinTypeNamesDistinct T = true) :
    uniqueTypeNames T = true := by
  obtain ⟨h1, h2⟩ := typeIdentsOk_of_unique h
  unfold uniqueTypeNames
  rw [noDup_iff_nodup, ← typeIdents_names]
  exact names_nodup_of_parts _ h1 ((noDup_iff_nodup _).mp hb) h2

/-- accepted, built-in-position type definitions distinct ⇒ `uniqueTypeNames` -/
theorem uniqueTypeNames_of_accepted {T : TsDoc} (h : checkSchema T = []) (hb : builtinTypeNamesDistinct T = true) :
    uniqueTypeNames T = true :=
  uniqueTypeNames_of_unique (checkSchema_nil_unique h) hb

/-- the two name rules of the specification ⇒ `check_unique_names` reports nothing -/
theorem checkUniqueNames_nil_of_spec {T : TsDoc} (ht : uniqueTypeNames T = true) (hd : uniqueDirectiveNames T = true) :
    checkUniqueNames T = [] := by
  rw [checkUniqueNames_nil_iff]
  refine ⟨uniqLoop_nil_of_names_nodup true _ [] ?_, uniqLoop_nil_of_names_nodup false _ [] ?_⟩
  · rw [List.nil_append, typeIdents_names]; exact (noDup_iff_nodup _).mp ht
  · rw [List.nil_append, directiveIdents_names]; exact (noDup_iff_nodup _).mp hd

theorem builtinsLast_of_disjoint : ∀ (l : List (Name × Pos)), (∀ n ∈ userNames l, n ∉ builtinNames l) →
    builtinsLast l = true := by
  intro l
  induction l with
  | nil => intro _; rfl
  | cons x xs ih =>
    intro hd
    simp only [builtinsLast, Bool.and_eq_true, Bool.or_eq_true, Bool.not_eq_true', List.all_eq_true]
    refine ⟨?_, ih fun n hn hm => ?_⟩
    · cases hb : x.2.builtin with
      | false => exact Or.inl rfl
      | true =>
        refine Or.inr fun y hy => ?_
        cases hyb : y.2.builtin with
        | true => simp
        | false =>
          cases hyn : y.1 == x.1 with
          | false => simp
          | true =>
            exfalso
            have hyn' : y.1 = x.1 := by simpa using hyn
            exact hd x.1 (mem_userNames.mpr ⟨y, List.mem_cons_of_mem _ hy, hyb, hyn'⟩)
              (mem_builtinNames.mpr ⟨x, List.mem_cons_self, hb, rfl⟩)
    · obtain ⟨y, hy, hyb, hyn⟩ := mem_userNames.mp hn
      obtain ⟨z, hz, hzb, hzn⟩ := mem_builtinNames.mp hm
      exact hd n (mem_userNames.mpr ⟨y, List.mem_cons_of_mem _ hy, hyb, hyn⟩)
        (mem_builtinNames.mpr ⟨z, List.mem_cons_of_mem _ hz, hzb, hzn⟩)

theorem disjoint_of_all {l : List (Name × Pos)}
    (h : ((userNames l).all fun n => !(builtinNames l).contains n) = true) : ∀ n ∈ userNames l, n ∉ builtinNames l := by
  intro n hn hm
  have := List.all_eq_true.mp h n hn
  simp [hm] at this

theorem all_of_disjoint {l : List (Name × Pos)} (h : ∀ n ∈ userNames l, n ∉ builtinNames l) :
    ((userNames l).all fun n => !(builtinNames l).contains n) = true := by
  rw [List.all_eq_true]
  intro n hn
  simpa using h n hn

/-- accepted, no built-in-position directive definition before a user definition of its name ⇒ the user's directive
    names are distinct -/
theorem userDirectiveNamesUnique_of_unique {T : TsDoc} (h : checkUniqueNames T = [])
    (hl : builtinDirectivesLast T = true) : userDirectiveNamesUnique T = true := by
  have h2 := ((checkUniqueNames_nil_iff T).mp h).2
  have := uniqLoop_dir_nodup_of_nil (directiveIdents T) [] h2 (by simpa [builtinDirectivesLast] using hl) (by simp [userNames])
  exact (noDup_iff_nodup _).mpr (by simpa using this)

theorem userDirectiveNamesUnique_of_accepted {T : TsDoc} (h : checkSchema T = [])
    (hl : builtinDirectivesLast T = true) : userDirectiveNamesUnique T = true :=
  userDirectiveNamesUnique_of_unique (checkSchema_nil_unique h) hl

/-- nothing reported, built-in directives distinct and not re-declared ⇒ `uniqueDirectiveNames` -/
theorem uniqueDirectiveNames_of_unique {T : TsDoc} (h : checkUniqueNames T = [])
    (hb : builtinDirectiveNamesDistinct T = true) (hr : builtinDirectivesNotRedeclared T = true) :
    uniqueDirectiveNames T = true := by
  have hdis := disjoint_of_all hr
  have hu := userDirectiveNamesUnique_of_unique h (builtinsLast_of_disjoint _ hdis)
  unfold uniqueDirectiveNames
  rw [noDup_iff_nodup, ← directiveIdents_names]
  exact names_nodup_of_parts _ ((noDup_iff_nodup _).mp hu) ((noDup_iff_nodup _).mp hb) hdis

theorem uniqueDirectiveNames_of_accepted {T : TsDoc} (h : checkSchema T = [])
    (hb : builtinDirectiveNamesDistinct T = true) (hr : builtinDirectivesNotRedeclared T = true) :
    uniqueDirectiveNames T = true :=
  uniqueDirectiveNames_of_unique (checkSchema_nil_unique h) hb hr

/-- the three user-side statements ⇒ `check_unique_names` reports nothing, whatever the built-ins are (a re-declared
    built-in directive is not reported) -/
theorem checkUniqueNames_nil_of_user {T : TsDoc} (h1 : userTypeNamesUnique T = true)
    (h2 : builtinTypeNamesNotTaken T = true) (h3 : userDirectiveNamesUnique T = true) : checkUniqueNames T = [] := by
  rw [checkUniqueNames_nil_iff]
  refine ⟨(uniqLoop_type_nil_iff' _).mpr ⟨(noDup_iff_nodup _).mp h1, disjoint_of_all h2⟩,
    uniqLoop_dir_nil_of_nodup _ [] (by simpa using (noDup_iff_nodup _).mp h3)⟩

theorem sublist_nodup_names {l : List (Name × Pos)} (h : (l.map (·.1)).Nodup) (p : Name × Pos → Bool) :
    ((l.filter p).map (·.1)).Nodup :=
  (List.Sublist.map _ List.filter_sublist).nodup h

theorem builtinTypeNamesDistinct_of_unique {T : TsDoc} (h : uniqueTypeNames T = true) :
    builtinTypeNamesDistinct T = true := by
  unfold builtinTypeNamesDistinct builtinNames
  rw [noDup_iff_nodup]
  apply sublist_nodup_names
  rw [typeIdents_names]
  exact (noDup_iff_nodup _).mp h

end NitroVerif.CheckTs
