/-
More forward ("big-step") combinators for the PEG interpreter, extending `Lemmas/PegRun.lean`:
* `RunsL` / `FailsL` / `RunsRuleL` / `FailsRuleL` — the same notions under an arbitrary lookahead state (the body of
  `!e` / `&e` runs under `lookNot la` / `lookAnd la`); `Runs = RunsL .none` etc. definitionally;
* `!e`, `&e`, `ANY`, `e+`, `e?`, compound-atomic (`$`) rules, normal rules in any context, silent rules under lookahead;
* alternatives of one-character string terminals (`"a" | "b" | …`).
Used for the string and value sub-languages of Props/C07.
-/
import NitroVerif.Lemmas.PegRun
import NitroVerif.Lemmas.ParseText
namespace NitroVerif.Peg

variable (g : G)

def RunsL (la : Look) (n : Nat) (sk : Bool) (e : Expr) (at_ : Atomicity) (c c' : Cur) (ps : List Pair) : Prop :=
  ∀ tr, ∃ tr', ∀ f, n ≤ f → eval g f sk e at_ la tr c = (tr', .ok c' ps)
def FailsL (la : Look) (n : Nat) (sk : Bool) (e : Expr) (at_ : Atomicity) (c : Cur) : Prop :=
  ∀ tr, ∃ tr', ∀ f, n ≤ f → eval g f sk e at_ la tr c = (tr', .fail)
def RunsRuleL (la : Look) (n : Nat) (r : RuleId) (at_ : Atomicity) (c c' : Cur) (ps : List Pair) : Prop :=
  ∀ tr, ∃ tr', ∀ f, n ≤ f → callRule g f r at_ la tr c = (tr', .ok c' ps)
def FailsRuleL (la : Look) (n : Nat) (r : RuleId) (at_ : Atomicity) (c : Cur) : Prop :=
  ∀ tr, ∃ tr', ∀ f, n ≤ f → callRule g f r at_ la tr c = (tr', .fail)

variable {g}

theorem runs_iff {n sk e at_ c c' ps} : Runs g n sk e at_ c c' ps ↔ RunsL g .none n sk e at_ c c' ps := Iff.rfl
theorem fails_iff {n sk e at_ c} : Fails g n sk e at_ c ↔ FailsL g .none n sk e at_ c := Iff.rfl
theorem runsRule_iff {n r at_ c c' ps} : RunsRule g n r at_ c c' ps ↔ RunsRuleL g .none n r at_ c c' ps := Iff.rfl
theorem failsRule_iff {n r at_ c} : FailsRule g n r at_ c ↔ FailsRuleL g .none n r at_ c := Iff.rfl

theorem RunsL.mono {la n m sk e at_ c c' ps} (h : RunsL g la n sk e at_ c c' ps) (hnm : n ≤ m) :
    RunsL g la m sk e at_ c c' ps :=
  fun tr => let ⟨tr', h'⟩ := h tr; ⟨tr', fun f hf => h' f (Nat.le_trans hnm hf)⟩
theorem FailsL.mono {la n m sk e at_ c} (h : FailsL g la n sk e at_ c) (hnm : n ≤ m) : FailsL g la m sk e at_ c :=
  fun tr => let ⟨tr', h'⟩ := h tr; ⟨tr', fun f hf => h' f (Nat.le_trans hnm hf)⟩
theorem RunsRuleL.mono {la n m r at_ c c' ps} (h : RunsRuleL g la n r at_ c c' ps) (hnm : n ≤ m) :
    RunsRuleL g la m r at_ c c' ps :=
  fun tr => let ⟨tr', h'⟩ := h tr; ⟨tr', fun f hf => h' f (Nat.le_trans hnm hf)⟩
theorem FailsRuleL.mono {la n m r at_ c} (h : FailsRuleL g la n r at_ c) (hnm : n ≤ m) : FailsRuleL g la m r at_ c :=
  fun tr => let ⟨tr', h'⟩ := h tr; ⟨tr', fun f hf => h' f (Nat.le_trans hnm hf)⟩

private theorem succ_of_pos' {f n : Nat} (h : n + 1 ≤ f) : ∃ f', f = f' + 1 ∧ n ≤ f' := ⟨f - 1, by omega, by omega⟩

/-! ### terminals under any lookahead state -/

theorem runsL_str {la sk s at_ c r} (h : matchStr s c.rest = some r) :
    RunsL g la 1 sk (.str s) at_ c ⟨c.pos + s.length, r⟩ [] := by
  intro tr; refine ⟨tr, fun f hf => ?_⟩
  obtain ⟨f', rfl, _⟩ := succ_of_pos' hf
  simp only [eval, h]

theorem failsL_str {la sk s at_ c} (h : matchStr s c.rest = none) : FailsL g la 1 sk (.str s) at_ c := by
  intro tr; refine ⟨tr, fun f hf => ?_⟩
  obtain ⟨f', rfl, _⟩ := succ_of_pos' hf
  simp only [eval, h]

theorem runsL_range {la sk lo hi at_ c d r} (h : c.rest = d :: r) (hd : lo ≤ d ∧ d ≤ hi) :
    RunsL g la 1 sk (.range lo hi) at_ c ⟨c.pos + 1, r⟩ [] := by
  intro tr; refine ⟨tr, fun f hf => ?_⟩
  obtain ⟨f', rfl, _⟩ := succ_of_pos' hf
  simp only [eval, h, hd, and_self, if_true]

theorem failsL_range {la sk lo hi at_ c} (h : ∀ d r, c.rest = d :: r → ¬ (lo ≤ d ∧ d ≤ hi)) :
    FailsL g la 1 sk (.range lo hi) at_ c := by
  intro tr; refine ⟨tr, fun f hf => ?_⟩
  obtain ⟨f', rfl, _⟩ := succ_of_pos' hf
  simp only [eval]
  split
  · rename_i d r hr
    simp [h d r hr]
  · rfl

theorem runsL_any {la sk at_ c d r} (h : c.rest = d :: r) : RunsL g la 1 sk .any at_ c ⟨c.pos + 1, r⟩ [] := by
  intro tr; refine ⟨tr, fun f hf => ?_⟩
  obtain ⟨f', rfl, _⟩ := succ_of_pos' hf
  simp only [eval, h]

theorem failsL_any {la sk at_ c} (h : c.rest = []) : FailsL g la 1 sk .any at_ c := by
  intro tr; refine ⟨tr, fun f hf => ?_⟩
  obtain ⟨f', rfl, _⟩ := succ_of_pos' hf
  simp only [eval, h]

theorem runsL_insens {la sk s at_ c r} (h : matchInsens s c.rest = some r) :
    RunsL g la 1 sk (.insens s) at_ c ⟨c.pos + s.length, r⟩ [] := by
  intro tr; refine ⟨tr, fun f hf => ?_⟩
  obtain ⟨f', rfl, _⟩ := succ_of_pos' hf
  simp only [eval, h]

theorem failsL_insens {la sk s at_ c} (h : matchInsens s c.rest = none) : FailsL g la 1 sk (.insens s) at_ c := by
  intro tr; refine ⟨tr, fun f hf => ?_⟩
  obtain ⟨f', rfl, _⟩ := succ_of_pos' hf
  simp only [eval, h]

/-! ### combinators under any lookahead state -/

theorem runsL_choice_l {la n sk a b at_ c c' ps} (ha : RunsL g la n sk a at_ c c' ps) :
    RunsL g la (n + 1) sk (.choice a b) at_ c c' ps := by
  intro tr
  obtain ⟨tr1, h1⟩ := ha tr
  refine ⟨tr1, fun f hf => ?_⟩
  obtain ⟨f', rfl, hf'⟩ := succ_of_pos' hf
  simp only [eval, h1 f' hf']

theorem runsL_choice_r {la n sk a b at_ c c' ps} (ha : FailsL g la n sk a at_ c) (hb : RunsL g la n sk b at_ c c' ps) :
    RunsL g la (n + 1) sk (.choice a b) at_ c c' ps := by
  intro tr
  obtain ⟨tr1, h1⟩ := ha tr
  obtain ⟨tr2, h2⟩ := hb tr1
  refine ⟨tr2, fun f hf => ?_⟩
  obtain ⟨f', rfl, hf'⟩ := succ_of_pos' hf
  simp only [eval, h1 f' (by omega), h2 f' (by omega)]

theorem failsL_choice {la n sk a b at_ c} (ha : FailsL g la n sk a at_ c) (hb : FailsL g la n sk b at_ c) :
    FailsL g la (n + 1) sk (.choice a b) at_ c := by
  intro tr
  obtain ⟨tr1, h1⟩ := ha tr
  obtain ⟨tr2, h2⟩ := hb tr1
  refine ⟨tr2, fun f hf => ?_⟩
  obtain ⟨f', rfl, hf'⟩ := succ_of_pos' hf
  simp only [eval, h1 f' (by omega), h2 f' (by omega)]

/-- a sequence where the implicit skip is a no-op: body generated without skip calls, or atomic context -/
theorem runsL_seq_noskip {la n sk a b at_ c c1 c2 p1 p3} (hn : sk = false ∨ at_ ≠ .nonAtomic)
    (ha : RunsL g la n sk a at_ c c1 p1) (hb : RunsL g la n sk b at_ c1 c2 p3) :
    RunsL g la (n + 2) sk (.seq a b) at_ c c2 (p1 ++ p3) := by
  intro tr
  obtain ⟨tr1, h1⟩ := ha tr
  obtain ⟨tr3, h3⟩ := hb tr1
  refine ⟨tr3, fun f hf => ?_⟩
  obtain ⟨f', rfl, hf'⟩ := succ_of_pos' hf
  have es : doSkip g f' sk at_ la tr1 c1 = (tr1, .ok c1 []) := by
    obtain ⟨f'', rfl, _⟩ := succ_of_pos' (n := n) (f := f') (by omega)
    rcases hn with hn | hn
    · simp [doSkip, hn]
    · simp [doSkip, hn]
  simp only [eval, h1 f' (by omega), es, h3 f' (by omega), List.append_nil]

theorem failsL_seq_first {la n sk a b at_ c} (ha : FailsL g la n sk a at_ c) : FailsL g la (n + 1) sk (.seq a b) at_ c := by
  intro tr
  obtain ⟨tr1, h1⟩ := ha tr
  refine ⟨tr1, fun f hf => ?_⟩
  obtain ⟨f', rfl, hf'⟩ := succ_of_pos' hf
  simp only [eval, h1 f' hf']

theorem failsL_seq_last_noskip {la n sk a b at_ c c1 p1} (hn : sk = false ∨ at_ ≠ .nonAtomic)
    (ha : RunsL g la n sk a at_ c c1 p1) (hb : FailsL g la n sk b at_ c1) :
    FailsL g la (n + 2) sk (.seq a b) at_ c := by
  intro tr
  obtain ⟨tr1, h1⟩ := ha tr
  obtain ⟨tr3, h3⟩ := hb tr1
  refine ⟨tr3, fun f hf => ?_⟩
  obtain ⟨f', rfl, hf'⟩ := succ_of_pos' hf
  have es : doSkip g f' sk at_ la tr1 c1 = (tr1, .ok c1 []) := by
    obtain ⟨f'', rfl, _⟩ := succ_of_pos' (n := n) (f := f') (by omega)
    rcases hn with hn | hn
    · simp [doSkip, hn]
    · simp [doSkip, hn]
  simp only [eval, h1 f' (by omega), es, h3 f' (by omega)]

theorem runsL_opt_some {la n sk a at_ c c' ps} (ha : RunsL g la n sk a at_ c c' ps) :
    RunsL g la (n + 1) sk (.opt a) at_ c c' ps := by
  intro tr
  obtain ⟨tr1, h1⟩ := ha tr
  refine ⟨tr1, fun f hf => ?_⟩
  obtain ⟨f', rfl, hf'⟩ := succ_of_pos' hf
  simp only [eval, h1 f' hf']

theorem runsL_opt_none {la n sk a at_ c} (ha : FailsL g la n sk a at_ c) : RunsL g la (n + 1) sk (.opt a) at_ c c [] := by
  intro tr
  obtain ⟨tr1, h1⟩ := ha tr
  refine ⟨tr1, fun f hf => ?_⟩
  obtain ⟨f', rfl, hf'⟩ := succ_of_pos' hf
  simp only [eval, h1 f' hf']

theorem runsL_star_nil {la n a at_ c} (ha : FailsL g la n false a at_ c) : RunsL g la (n + 1) false (.star a) at_ c c [] := by
  intro tr
  obtain ⟨tr1, h1⟩ := ha tr
  refine ⟨tr1, fun f hf => ?_⟩
  obtain ⟨f', rfl, hf'⟩ := succ_of_pos' hf
  simp only [eval, Bool.false_eq_true, if_false, h1 f' hf']

theorem runsL_star_cons {la n a at_ c c1 c' p1 p2} (ha : RunsL g la n false a at_ c c1 p1)
    (hr : RunsL g la n false (.star a) at_ c1 c' p2) : RunsL g la (n + 1) false (.star a) at_ c c' (p1 ++ p2) := by
  intro tr
  obtain ⟨tr1, h1⟩ := ha tr
  obtain ⟨tr2, h2⟩ := hr tr1
  refine ⟨tr2, fun f hf => ?_⟩
  obtain ⟨f', rfl, hf'⟩ := succ_of_pos' hf
  simp only [eval, Bool.false_eq_true, if_false, h1 f' (by omega), h2 f' (by omega)]

theorem runsL_plus {la n sk a at_ c c' ps} (h : RunsL g la n sk (.seq a (.star a)) at_ c c' ps) :
    RunsL g la (n + 1) sk (.plus a) at_ c c' ps := by
  intro tr
  obtain ⟨tr1, h1⟩ := h tr
  refine ⟨tr1, fun f hf => ?_⟩
  obtain ⟨f', rfl, hf'⟩ := succ_of_pos' hf
  simp only [eval, h1 f' hf']

theorem failsL_plus {la n sk a at_ c} (h : FailsL g la n sk (.seq a (.star a)) at_ c) :
    FailsL g la (n + 1) sk (.plus a) at_ c := by
  intro tr
  obtain ⟨tr1, h1⟩ := h tr
  refine ⟨tr1, fun f hf => ?_⟩
  obtain ⟨f', rfl, hf'⟩ := succ_of_pos' hf
  simp only [eval, h1 f' hf']

/-- `!e` succeeds (consuming nothing) where `e` fails -/
theorem runsL_not {la n sk a at_ c} (ha : FailsL g (lookNot la) n sk a at_ c) : RunsL g la (n + 1) sk (.not a) at_ c c [] := by
  intro tr
  obtain ⟨tr1, h1⟩ := ha tr
  refine ⟨tr1, fun f hf => ?_⟩
  obtain ⟨f', rfl, hf'⟩ := succ_of_pos' hf
  simp only [eval, h1 f' hf']

/-- `!e` fails where `e` succeeds -/
theorem failsL_not {la n sk a at_ c c' ps} (ha : RunsL g (lookNot la) n sk a at_ c c' ps) :
    FailsL g la (n + 1) sk (.not a) at_ c := by
  intro tr
  obtain ⟨tr1, h1⟩ := ha tr
  refine ⟨tr1, fun f hf => ?_⟩
  obtain ⟨f', rfl, hf'⟩ := succ_of_pos' hf
  simp only [eval, h1 f' hf']

theorem runsL_call {la n sk r at_ c c' ps} (h : RunsRuleL g la n r at_ c c' ps) :
    RunsL g la (n + 1) sk (.call r) at_ c c' ps := by
  intro tr
  obtain ⟨tr1, h1⟩ := h tr
  refine ⟨tr1, fun f hf => ?_⟩
  obtain ⟨f', rfl, hf'⟩ := succ_of_pos' hf
  simp only [eval, h1 f' hf']

theorem failsL_call {la n sk r at_ c} (h : FailsRuleL g la n r at_ c) : FailsL g la (n + 1) sk (.call r) at_ c := by
  intro tr
  obtain ⟨tr1, h1⟩ := h tr
  refine ⟨tr1, fun f hf => ?_⟩
  obtain ⟨f', rfl, hf'⟩ := succ_of_pos' hf
  simp only [eval, h1 f' hf']

/-! ### rule calls -/

/-- a non-special silent rule, any context, any lookahead state -/
theorem runsRuleL_silent {la n r body at_ c c' ps} (hl : g.look r = some (.silent, body))
    (hsp : ¬ (g.ws = some r ∨ g.cm = some r)) (hb : RunsL g la n true body at_ c c' ps) :
    RunsRuleL g la (n + 1) r at_ c c' ps := by
  intro tr
  obtain ⟨tr1, h1⟩ := hb { tr with steps := tr.steps + 1 }
  refine ⟨tr1, fun f hf => ?_⟩
  obtain ⟨f', rfl, hf'⟩ := succ_of_pos' hf
  simp only [callRule, hl, hsp, if_false, h1 f' hf']

theorem failsRuleL_silent {la n r body at_ c} (hl : g.look r = some (.silent, body))
    (hsp : ¬ (g.ws = some r ∨ g.cm = some r)) (hb : FailsL g la n true body at_ c) : FailsRuleL g la (n + 1) r at_ c := by
  intro tr
  obtain ⟨tr1, h1⟩ := hb { tr with steps := tr.steps + 1 }
  refine ⟨tr1, fun f hf => ?_⟩
  obtain ⟨f', rfl, hf'⟩ := succ_of_pos' hf
  simp only [callRule, hl, hsp, if_false, h1 f' hf']

/-- an atomic rule (`@`) under any lookahead state: a pair iff outside lookahead and not inside an atomic rule -/
theorem runsRuleL_atomic {la n r body at_ c c' ps} (hl : g.look r = some (.atomic, body))
    (hb : RunsL g la n false body .atomic c c' ps) :
    RunsRuleL g la (n + 1) r at_ c c' (if la = .none ∧ at_ ≠ .atomic then [Pair.mk r c.pos c'.pos ps] else ps) := by
  intro tr
  obtain ⟨tr1, h1⟩ := hb { tr with steps := tr.steps + 1 }
  refine ⟨if la = .neg then track tr1 at_ c.pos else tr1, fun f hf => ?_⟩
  obtain ⟨f', rfl, hf'⟩ := succ_of_pos' hf
  simp only [callRule, hl, h1 f' hf', ruleWrap]

theorem failsRuleL_atomic {la n r body at_ c} (hl : g.look r = some (.atomic, body))
    (hb : FailsL g la n false body .atomic c) : FailsRuleL g la (n + 1) r at_ c := by
  intro tr
  obtain ⟨tr1, h1⟩ := hb { tr with steps := tr.steps + 1 }
  refine ⟨if la ≠ .neg then track tr1 at_ c.pos else tr1, fun f hf => ?_⟩
  obtain ⟨f', rfl, hf'⟩ := succ_of_pos' hf
  simp only [callRule, hl, h1 f' hf', ruleWrap]

/-- a compound-atomic rule (`$`): always a pair outside lookahead -/
theorem runsRule_compound {n r body at_ c c' ps} (hl : g.look r = some (.compound, body))
    (hb : Runs g n false body .compound c c' ps) :
    RunsRule g (n + 1) r at_ c c' [Pair.mk r c.pos c'.pos ps] := by
  intro tr
  obtain ⟨tr1, h1⟩ := hb { tr with steps := tr.steps + 1 }
  refine ⟨tr1, fun f hf => ?_⟩
  obtain ⟨f', rfl, hf'⟩ := succ_of_pos' hf
  simp only [callRule, hl, h1 f' hf', ruleWrap]
  simp

theorem failsRule_compound {n r body at_ c} (hl : g.look r = some (.compound, body))
    (hb : Fails g n false body .compound c) : FailsRule g (n + 1) r at_ c := by
  intro tr
  obtain ⟨tr1, h1⟩ := hb { tr with steps := tr.steps + 1 }
  refine ⟨track tr1 .compound c.pos, fun f hf => ?_⟩
  obtain ⟨f', rfl, hf'⟩ := succ_of_pos' hf
  simp only [callRule, hl, h1 f' hf', ruleWrap]
  simp

/-- a non-special normal rule under any lookahead state, in a non-atomic context -/
theorem runsRuleL_normal {la n r body c c' ps} (hl : g.look r = some (.normal, body))
    (hsp : ¬ (g.ws = some r ∨ g.cm = some r)) (hb : RunsL g la n true body .nonAtomic c c' ps) :
    RunsRuleL g la (n + 1) r .nonAtomic c c' (if la = .none then [Pair.mk r c.pos c'.pos ps] else ps) := by
  intro tr
  obtain ⟨tr1, h1⟩ := hb { tr with steps := tr.steps + 1 }
  refine ⟨if la = .neg then track tr1 .nonAtomic c.pos else tr1, fun f hf => ?_⟩
  obtain ⟨f', rfl, hf'⟩ := succ_of_pos' hf
  simp only [callRule, hl, hsp, if_false, h1 f' hf', ruleWrap]
  simp

theorem failsRuleL_normal {la n r body c} (hl : g.look r = some (.normal, body))
    (hsp : ¬ (g.ws = some r ∨ g.cm = some r)) (hb : FailsL g la n true body .nonAtomic c) :
    FailsRuleL g la (n + 1) r .nonAtomic c := by
  intro tr
  obtain ⟨tr1, h1⟩ := hb { tr with steps := tr.steps + 1 }
  refine ⟨if la ≠ .neg then track tr1 .nonAtomic c.pos else tr1, fun f hf => ?_⟩
  obtain ⟨f', rfl, hf'⟩ := succ_of_pos' hf
  simp only [callRule, hl, hsp, if_false, h1 f' hf', ruleWrap]

/-! ### alternatives of one-character terminals -/

theorem matchStr_single (x d : Char) (r : List Char) : matchStr [x] (d :: r) = if x = d then some r else none := by
  simp [matchStr]

/-- `"a" | "b" | …` (one character each) on a non-empty input: succeeds iff the head is one of them -/
theorem oneChar_alts {la : Look} {sk : Bool} {at_ : Atomicity} : ∀ (e : Expr) (ws : List (List Char)),
    strAlts e = some ws → (∀ w ∈ ws, w.length = 1) → ∀ (p : Nat) (d : Char) (r : List Char),
      ([d] ∈ ws → RunsL g la (ws.length + 1) sk e at_ ⟨p, d :: r⟩ ⟨p + 1, r⟩ []) ∧
      ([d] ∉ ws → FailsL g la (ws.length + 1) sk e at_ ⟨p, d :: r⟩) := by
  intro e
  induction e with
  | str s =>
    intro ws hws hlen p d r
    simp only [strAlts, Option.some.injEq] at hws
    subst hws
    have hs := hlen s (List.mem_singleton.mpr rfl)
    match s, hs with
    | [x], _ =>
      constructor
      · intro hm
        obtain rfl : d = x := by simpa using hm
        exact (runsL_str (c := ⟨p, _ :: r⟩) (by simp [matchStr])).mono (by simp)
      · intro hm
        have : ¬ x = d := by intro h; exact hm (by simp [h])
        exact (failsL_str (c := ⟨p, d :: r⟩) (by simp [matchStr, this])).mono (by simp)
  | choice a b _ ihb =>
    intro ws hws hlen p d r
    cases a with
    | str s =>
      simp only [strAlts] at hws
      cases hb : strAlts b with
      | none => simp [hb] at hws
      | some wb =>
        simp only [hb, Option.map_some, Option.some.injEq] at hws
        subst hws
        have hs := hlen s (List.mem_cons_self ..)
        obtain ⟨ih1, ih2⟩ := ihb wb hb (fun w hw => hlen w (List.mem_cons_of_mem _ hw)) p d r
        match s, hs with
        | [x], _ =>
          by_cases hx : x = d
          · subst hx
            refine ⟨fun _ => ?_, fun hm => absurd (List.mem_cons_self ..) hm⟩
            exact (runsL_choice_l (runsL_str (c := ⟨p, x :: r⟩) (by simp [matchStr]))).mono (by simp)
          · have hf : FailsL g la (wb.length + 1) sk (.str [x]) at_ ⟨p, d :: r⟩ :=
              (failsL_str (c := ⟨p, d :: r⟩) (by simp [matchStr, hx])).mono (by omega)
            constructor
            · intro hm
              have hm' : [d] ∈ wb := by
                rcases List.mem_cons.mp hm with h | h
                · exact absurd (by simpa using h.symm) hx
                · exact h
              simpa using runsL_choice_r hf (ih1 hm')
            · intro hm
              have hm' : [d] ∉ wb := fun h => hm (List.mem_cons_of_mem _ h)
              simpa using failsL_choice hf (ih2 hm')
    | _ => simp [strAlts] at hws
  | _ => intro ws hws; simp [strAlts] at hws

/-- … and on the empty input it fails -/
theorem oneChar_alts_nil {la : Look} {sk : Bool} {at_ : Atomicity} : ∀ (e : Expr) (ws : List (List Char)),
    strAlts e = some ws → (∀ w ∈ ws, w.length = 1) → ∀ (p : Nat),
      FailsL g la (ws.length + 1) sk e at_ ⟨p, []⟩ := by
  intro e
  induction e with
  | str s =>
    intro ws hws hlen p
    simp only [strAlts, Option.some.injEq] at hws
    subst hws
    have hs := hlen s (List.mem_singleton.mpr rfl)
    match s, hs with
    | [x], _ => exact (failsL_str (c := ⟨p, []⟩) (by simp [matchStr])).mono (by simp)
  | choice a b _ ihb =>
    intro ws hws hlen p
    cases a with
    | str s =>
      simp only [strAlts] at hws
      cases hb : strAlts b with
      | none => simp [hb] at hws
      | some wb =>
        simp only [hb, Option.map_some, Option.some.injEq] at hws
        subst hws
        have hs := hlen s (List.mem_cons_self ..)
        have ih := ihb wb hb (fun w hw => hlen w (List.mem_cons_of_mem _ hw)) p
        match s, hs with
        | [x], _ =>
          have hf : FailsL g la (wb.length + 1) sk (.str [x]) at_ ⟨p, []⟩ :=
            (failsL_str (c := ⟨p, []⟩) (by simp [matchStr])).mono (by omega)
          simpa using failsL_choice hf ih
    | _ => simp [strAlts] at hws
  | _ => intro ws hws; simp [strAlts] at hws

end NitroVerif.Peg
