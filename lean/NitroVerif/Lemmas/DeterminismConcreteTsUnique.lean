/-
Helper lemmas for C17 (concrete part 1, after fix 8cdbacf): `check_unique_names` under a permutation of the
definitions. With pairwise distinct names it reports nothing in any order; the statements about the built-in part
of a document (`BuiltinsApart`) are invariant under permutation; under them the verdict of the whole checker is the
same for every order, whatever the user's names are.
Core Lean only.
-/
import NitroVerif.Lemmas.DeterminismConcreteTs
import NitroVerif.Lemmas.CheckTsUnique
namespace NitroVerif.Determinism
open NitroVerif.Gql NitroVerif.CheckTs NitroVerif.ValidTs

theorem noDupTypeNames_iff (T : TsDoc) : NoDupTypeNames T ↔ uniqueTypeNames T = true := by
  unfold NoDupTypeNames uniqueTypeNames ValidTs.typeDefs
  exact (noDup_iff_nodup _).symm

theorem noDupDirectiveNames_iff (T : TsDoc) : NoDupDirectiveNames T ↔ uniqueDirectiveNames T = true := by
  unfold NoDupDirectiveNames uniqueDirectiveNames ValidTs.directiveDefs
  exact (noDup_iff_nodup _).symm

/-- distinct names ⇒ `check_unique_names` reports nothing -/
theorem checkUniqueNames_nil_of_noDup {T : TsDoc} (ndt : NoDupTypeNames T) (ndd : NoDupDirectiveNames T) :
    checkUniqueNames T = [] :=
  checkUniqueNames_nil_of_spec ((noDupTypeNames_iff T).mp ndt) ((noDupDirectiveNames_iff T).mp ndd)

/-- the part of the document that the user cannot influence: the built-in-position type definitions have pairwise
    distinct names, so have the built-in-position directive definitions, and no user directive definition re-declares
    one of the latter -/
def BuiltinsApart (T : TsDoc) : Prop :=
  builtinTypeNamesDistinct T = true ∧ builtinDirectiveNamesDistinct T = true ∧ builtinDirectivesNotRedeclared T = true

instance (T : TsDoc) : Decidable (BuiltinsApart T) := by unfold BuiltinsApart; infer_instance

theorem typeIdents_perm {T T' : TsDoc} (h : T.Perm T') : (typeIdents T).Perm (typeIdents T') :=
  (typeDefs_perm h).map _

theorem directiveIdents_perm {T T' : TsDoc} (h : T.Perm T') : (directiveIdents T).Perm (directiveIdents T') :=
  (directiveDefs_perm h).map _

theorem userNames_perm {l l' : List (Name × Pos)} (h : l.Perm l') : (userNames l).Perm (userNames l') :=
  (h.filter _).map _

theorem builtinNames_perm {l l' : List (Name × Pos)} (h : l.Perm l') : (builtinNames l).Perm (builtinNames l') :=
  (h.filter _).map _

theorem noDup_perm {l l' : List Name} (h : l.Perm l') (hn : noDup l = true) : noDup l' = true :=
  (noDup_iff_nodup _).mpr (h.nodup_iff.mp ((noDup_iff_nodup _).mp hn))

theorem BuiltinsApart.perm {T T' : TsDoc} (h : T.Perm T') (hb : BuiltinsApart T) : BuiltinsApart T' := by
  obtain ⟨h1, h2, h3⟩ := hb
  refine ⟨noDup_perm (builtinNames_perm (typeIdents_perm h)) h1,
    noDup_perm (builtinNames_perm (directiveIdents_perm h)) h2, ?_⟩
  apply all_of_disjoint
  intro n hn hm
  exact disjoint_of_all h3 n ((userNames_perm (directiveIdents_perm h)).mem_iff.mpr hn)
    ((builtinNames_perm (directiveIdents_perm h)).mem_iff.mpr hm)

/-- with the built-ins apart, "`check_unique_names` reports nothing" is "all names are pairwise distinct" -/
theorem noDup_of_unique_nil {T : TsDoc} (hb : BuiltinsApart T) (h : checkUniqueNames T = []) :
    NoDupTypeNames T ∧ NoDupDirectiveNames T :=
  ⟨(noDupTypeNames_iff T).mpr (uniqueTypeNames_of_unique h hb.1),
   (noDupDirectiveNames_iff T).mpr (uniqueDirectiveNames_of_unique h hb.2.1 hb.2.2)⟩

/-- the per-definition diagnostics of a name-distinct document are permuted -/
theorem checkSchemaItems_perm {T T' : TsDoc} (h : T.Perm T') (ndt : NoDupTypeNames T) (ndd : NoDupDirectiveNames T) :
    (checkSchemaItems T).Perm (checkSchemaItems T') := by
  unfold checkSchemaItems
  rw [checkItem_perm h ndt ndd]
  exact h.flatMap_right _

theorem checkSchema_perm {T T' : TsDoc} (h : T.Perm T') (ndt : NoDupTypeNames T) (ndd : NoDupDirectiveNames T) :
    (checkSchema T).Perm (checkSchema T') := by
  unfold checkSchema
  rw [checkUniqueNames_nil_of_noDup ndt ndd, checkUniqueNames_nil_of_noDup (ndt.perm h) (ndd.perm h)]
  exact checkSchemaItems_perm h ndt ndd

/-- one direction of the verdict theorem -/
theorem checkSchema_nil_perm {T T' : TsDoc} (h : T.Perm T') (hb : BuiltinsApart T) (e : checkSchema T = []) :
    checkSchema T' = [] := by
  obtain ⟨ndt, ndd⟩ := noDup_of_unique_nil hb (checkSchema_nil_unique e)
  have hp := checkSchema_perm h ndt ndd
  rw [e] at hp
  exact hp.symm.eq_nil

/-! ### permutations that keep the relative order of the definitions of each directive name

(what reordering SOURCE text can do to a re-declared built-in directive: the user's definition stays before the
built-in one) -/

theorem list_reverse_induction {α : Type} {P : List α → Prop} (h0 : P [])
    (hs : ∀ l x, P l → P (l ++ [x])) : ∀ l, P l := by
  intro l
  have : ∀ r : List α, P r.reverse := by
    intro r
    induction r with
    | nil => exact h0
    | cons x r ih => rw [List.reverse_cons]; exact hs _ _ ih
  simpa using this l.reverse

theorem uniqLoop_snoc (b : Bool) : ∀ (l seen : List (Name × Pos)) (x : Name × Pos),
    uniqLoop b seen (l ++ [x]) = uniqLoop b seen l ++ uniqueStep b (seen ++ l) x.1 x.2 := by
  intro l
  induction l with
  | nil => intro seen x; simp [uniqLoop]
  | cons y l ih =>
    intro seen x
    simp only [List.cons_append, uniqLoop, ih, List.append_assoc, List.singleton_append, List.nil_append]

/-- what the directive loop demands of the definitions of ONE name, in document order: if the first is the user's,
    all the others are at built-in positions -/
def groupOk : List (Name × Pos) → Bool
  | [] => true
  | o :: r => o.2.builtin || r.all (·.2.builtin)

theorem groupOk_snoc (g : List (Name × Pos)) (x : Name × Pos) :
    groupOk (g ++ [x]) = true ↔
      groupOk g = true ∧ (match g with | [] => True | o :: _ => o.2.builtin = true ∨ x.2.builtin = true) := by
  cases g with
  | nil => simp [groupOk]
  | cons o r =>
    simp only [List.cons_append, groupOk, List.all_append, List.all_cons, List.all_nil, Bool.and_true,
      Bool.or_eq_true, Bool.and_eq_true]
    constructor
    · rintro (h | ⟨h1, h2⟩)
      · exact ⟨Or.inl h, Or.inl h⟩
      · exact ⟨Or.inr h1, Or.inr h2⟩
    · rintro ⟨h1 | h1, h2 | h2⟩
      · exact Or.inl h1
      · exact Or.inl h1
      · exact Or.inl h2
      · exact Or.inr ⟨h1, h2⟩

theorem uniqueStep_dir_nil_iff (l : List (Name × Pos)) (x : Name × Pos) :
    uniqueStep false l x.1 x.2 = [] ↔
      (match l.filter (·.1 == x.1) with | [] => True | o :: _ => o.2.builtin = true ∨ x.2.builtin = true) := by
  unfold uniqueStep
  rw [← List.head?_filter]
  cases l.filter (·.1 == x.1) with
  | nil => simp
  | cons o r =>
    simp only [List.head?_cons]
    unfold uniqueReport
    cases o.2.builtin <;> cases x.2.builtin <;> simp

theorem uniqLoop_dir_nil_iff_groups : ∀ l : List (Name × Pos),
    uniqLoop false [] l = [] ↔ ∀ n : Name, groupOk (l.filter (·.1 == n)) = true := by
  apply list_reverse_induction
  · simp [uniqLoop, groupOk]
  · intro l x ih
    rw [uniqLoop_snoc, List.nil_append, List.append_eq_nil_iff, ih, uniqueStep_dir_nil_iff]
    have hf : ∀ n : Name, (l ++ [x]).filter (·.1 == n) =
        l.filter (·.1 == n) ++ (if x.1 == n then [x] else []) := by
      intro n
      rw [List.filter_append]
      cases h : x.1 == n <;> simp [List.filter_cons, h]
    constructor
    · rintro ⟨h1, h2⟩ n
      rw [hf]
      cases h : x.1 == n with
      | false => simpa using h1 n
      | true =>
        have hn : x.1 = n := by simpa using h
        subst hn
        simp only [if_true]
        exact (groupOk_snoc _ _).mpr ⟨h1 x.1, h2⟩
    · intro H
      have hx := H x.1
      rw [hf] at hx
      simp only [beq_self_eq_true, if_true] at hx
      obtain ⟨hx1, hx2⟩ := (groupOk_snoc _ _).mp hx
      refine ⟨fun n => ?_, hx2⟩
      cases h : x.1 == n with
      | false =>
        have := H n
        rw [hf, h] at this
        simpa using this
      | true =>
        have hn : x.1 = n := by simpa using h
        subst hn
        exact hx1

/-- the relative order of the definitions of every directive name is the same in both documents -/
def KeepsDirectiveOrder (T T' : TsDoc) : Prop :=
  ∀ n : Name, (Schema.mk T).directiveDefs.filter (·.name == n) = (Schema.mk T').directiveDefs.filter (·.name == n)

theorem KeepsDirectiveOrder.symm {T T' : TsDoc} (h : KeepsDirectiveOrder T T') : KeepsDirectiveOrder T' T :=
  fun n => (h n).symm

theorem directiveIdents_filter (T : TsDoc) (n : Name) :
    (directiveIdents T).filter (·.1 == n) =
      ((Schema.mk T).directiveDefs.filter (·.name == n)).map fun d => (d.name, d.namePos) := by
  unfold directiveIdents ValidTs.directiveDefs
  rw [List.filter_map]
  rfl

theorem identsOk_perm {l l' : List (Name × Pos)} (h : l.Perm l') (hi : IdentsOk l) : IdentsOk l' :=
  ⟨(userNames_perm h).nodup_iff.mp hi.1,
   fun n hn hm => hi.2 n ((userNames_perm h).mem_iff.mpr hn) ((builtinNames_perm h).mem_iff.mpr hm)⟩

/-- `check_unique_names` reports nothing for `T` ⇒ nothing for a permutation that keeps the per-name order of the
    directive definitions -/
theorem checkUniqueNames_nil_keeps {T T' : TsDoc} (h : T.Perm T') (hk : KeepsDirectiveOrder T T')
    (e : checkUniqueNames T = []) : checkUniqueNames T' = [] := by
  rw [checkUniqueNames_nil_iff] at e ⊢
  refine ⟨(uniqLoop_type_nil_iff' _).mpr (identsOk_perm (typeIdents_perm h) ((uniqLoop_type_nil_iff' _).mp e.1)), ?_⟩
  rw [uniqLoop_dir_nil_iff_groups] at e ⊢
  intro n
  rw [directiveIdents_filter, ← hk n, ← directiveIdents_filter]
  exact e.2 n

theorem sameView_of_keeps {T T' : TsDoc} (h : T.Perm T') (ndt : NoDupTypeNames T) (hk : KeepsDirectiveOrder T T') :
    SameView ⟨T⟩ ⟨T'⟩ :=
  ⟨fun n => find?_perm_of_unique _ (typeDefs_perm h) (filter_length_le_one_of_nodup (fun t : TypeDef => t.name) _ ndt n),
   fun n => by
     unfold Schema.directiveDef?
     rw [← List.head?_filter, ← List.head?_filter, hk n]⟩

theorem sameDefMap_of_keeps {T T' : TsDoc} (h : T.Perm T') (ndt : NoDupTypeNames T) (hk : KeepsDirectiveOrder T T') :
    SameDefMap T T' := by
  have hv := sameView_of_keeps h ndt hk
  refine ⟨fun n => ?_, fun n => ?_, h.length_eq⟩
  · rw [lastTypeDef?_eq_typeDef? ndt, lastTypeDef?_eq_typeDef? (ndt.perm h), hv.ty]
  · unfold lastDirectiveDef?
    rw [← List.head?_filter, ← List.head?_filter, List.filter_reverse, List.filter_reverse, hk n]

/-- one direction of the second verdict theorem -/
theorem checkSchema_nil_keeps {T T' : TsDoc} (h : T.Perm T') (hk : KeepsDirectiveOrder T T')
    (hb : builtinTypeNamesDistinct T = true) (e : checkSchema T = []) : checkSchema T' = [] := by
  obtain ⟨e1, e2⟩ := (checkSchema_nil_iff T).mp e
  have ndt : NoDupTypeNames T := (noDupTypeNames_iff T).mpr (uniqueTypeNames_of_unique e1 hb)
  rw [checkSchema_nil_iff]
  refine ⟨checkUniqueNames_nil_keeps h hk e1, ?_⟩
  have hf : checkItem T ⟨T⟩ = checkItem T' ⟨T'⟩ :=
    funext fun x => checkItem_congr (sameDefMap_of_keeps h ndt hk) (sameView_of_keeps h ndt hk) x
  have hp : (checkSchemaItems T).Perm (checkSchemaItems T') := by
    unfold checkSchemaItems
    rw [hf]
    exact h.flatMap_right _
  rw [e2] at hp
  exact hp.symm.eq_nil

theorem builtinTypeNamesDistinct_perm {T T' : TsDoc} (h : T.Perm T') (hb : builtinTypeNamesDistinct T = true) :
    builtinTypeNamesDistinct T' = true :=
  noDup_perm (builtinNames_perm (typeIdents_perm h)) hb

end NitroVerif.Determinism
