/-
Helper lemmas for C17 (concrete part 1, after fix 8cdbacf): `check_unique_names` under a permutation of the
definitions. With pairwise distinct names it reports nothing in any order; the statements about the built-in part
of a document (`BuiltinsApart`) are invariant under permutation; under them the verdict of the whole checker is the
same for every order, whatever the user's names are.
Core Lean only.
-/
import NitroVerif.Lemmas.DeterminismConcreteTs
import NitroVerif.Lemmas.CheckTsUnique
namespace NitroVerif.Determinism
open NitroVerif.Gql NitroVerif.CheckTs NitroVerif.ValidTs

theorem noDupTypeNames_iff (T : TsDoc) : NoDupTypeNames T ↔ uniqueTypeNames T = true := by
  unfold NoDupTypeNames uniqueTypeNames ValidTs.typeDefs
  exact (noDup_iff_nodup _).symm

theorem noDupDirectiveNames_iff (T : TsDoc) : NoDupDirectiveNames T ↔ uniqueDirectiveNames T = true := by
  unfold NoDupDirectiveNames uniqueDirectiveNames ValidTs.directiveDefs
  exact (noDup_iff_nodup _).symm

/-- distinct names ⇒ `check_unique_names` reports nothing -/
theorem checkUniqueNames_nil_of_noDup {T : TsDoc} (ndt : NoDupTypeNames T) (ndd : NoDupDirectiveNames T) :
    checkUniqueNames T = [] :=
  checkUniqueNames_nil_of_spec ((noDupTypeNames_iff T).mp ndt) ((noDupDirectiveNames_iff T).mp ndd)

/-- the part of the document that the user cannot influence: the built-in-position type definitions have pairwise
    distinct names, so have the built-in-position directive definitions, and no user directive definition re-declares
    one of the latter -/
def BuiltinsApart (T : TsDoc) : Prop :=
  builtinTypeNamesDistinct T = true ∧ builtinDirectiveNamesDistinct T = true ∧ builtinDirectivesNotRedeclared T = true

instance (T : TsDoc) : Decidable (BuiltinsApart T) := by unfold BuiltinsApart; infer_instance

theorem typeIdents_perm {T T' : TsDoc} (h : T.Perm T') : (typeIdents T).Perm (typeIdents T') :=
  (typeDefs_perm h).map _

theorem directiveIdents_perm {T T' : TsDoc} (h : T.Perm T') : (directiveIdents T).Perm (directiveIdents T') :=
  (directiveDefs_perm h).map _

theorem userNames_perm {l l' : List (Name × Pos)} (h : l.Perm l') : (userNames l).Perm (userNames l') :=
  (h.filter _).map _

theorem builtinNames_perm {l l' : List (Name × Pos)} (h : l.Perm l') : (builtinNames l).Perm (builtinNames l') :=
  (h.filter _).map _

theorem noDup_perm {l l' : List Name} (h : l.Perm l') (hn : noDup l = true) : noDup l' = true :=
  (noDup_iff_nodup _).mpr (h.nodup_iff.mp ((noDup_iff_nodup _).mp hn))

theorem BuiltinsApart.perm {T T' : TsDoc} (h : T.Perm T') (hb : BuiltinsApart T) : BuiltinsApart T' := by
  obtain ⟨h1, h2, h3⟩ := hb
  refine ⟨noDup_perm (builtinNames_perm (typeIdents_perm h)) h1,
    noDup_perm (builtinNames_perm (directiveIdents_perm h)) h2, ?_⟩
  apply all_of_disjoint
  intro n hn hm
  exact disjoint_of_all h3 n ((userNames_perm (directiveIdents_perm h)).mem_iff.mpr hn)
    ((builtinNames_perm (directiveIdents_perm h)).mem_iff.mpr hm)

/-- with the built-ins apart, "`check_unique_names` reports nothing" is "all names are pairwise distinct" -/
theorem noDup_of_unique_nil {T : TsDoc} (hb : BuiltinsApart T) (h : checkUniqueNames T = []) :
    NoDupTypeNames T ∧ NoDupDirectiveNames T :=
  ⟨(noDupTypeNames_iff T).mpr (uniqueTypeNames_of_unique h hb.1),
   (noDupDirectiveNames_iff T).mpr (uniqueDirectiveNames_of_unique h hb.2.1 hb.2.2)⟩

/-- the per-definition diagnostics of a name-distinct document are permuted -/
theorem checkSchemaItems_perm {T T' : TsDoc} (h : T.Perm T') (ndt : NoDupTypeNames T) (ndd : NoDupDirectiveNames T) :
    (checkSchemaItems T).Perm (checkSchemaItems T') := by
  unfold checkSchemaItems
  rw [checkItem_perm h ndt ndd]
  exact h.flatMap_right _

theorem checkSchema_perm {T T' : TsDoc} (h : T.Perm T') (ndt : NoDupTypeNames T) (ndd : NoDupDirectiveNames T) :
    (checkSchema T).Perm (checkSchema T') := by
  unfold checkSchema
  rw [checkUniqueNames_nil_of_noDup ndt ndd, checkUniqueNames_nil_of_noDup (ndt.perm h) (ndd.perm h)]
  exact checkSchemaItems_perm h ndt ndd

/-- one direction of the verdict theorem -/
theorem checkSchema_nil_perm {T T' : TsDoc} (h : T.Perm T') (hb : BuiltinsApart T) (e : checkSchema T = []) :
    checkSchema T' = [] := by
  obtain ⟨ndt, ndd⟩ := noDup_of_unique_nil hb (checkSchema_nil_unique e)
  have hp := checkSchema_perm h ndt ndd
  rw [e] at hp
  exact hp.symm.eq_nil

end NitroVerif.Determinism
