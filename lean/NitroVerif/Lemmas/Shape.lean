/-
Soundness of the abstract interpretation `Shape.post` (helper lemmas for Props/C08):
if `post A e S = some T` then from every state of `S` every word of `L(e)` runs through the automaton without a
missing transition and ends in a state of `T`.
-/
import NitroVerif.Model.Shape
import NitroVerif.Model.Build
namespace NitroVerif.Shape
open NitroVerif.Peg NitroVerif.Gen.Parts

/-- the language of a `Re` -/
inductive Mem : Re → List RuleId → Prop where
  | eps : Mem .eps []
  | sym (a : RuleId) : Mem (.sym a) [a]
  | seq {a b : Re} {u v : List RuleId} : Mem a u → Mem b v → Mem (.seq a b) (u ++ v)
  | altL {a b : Re} {u : List RuleId} : Mem a u → Mem (.alt a b) u
  | altR {a b : Re} {u : List RuleId} : Mem b u → Mem (.alt a b) u
  | starNil {a : Re} : Mem (.star a) []
  | starCons {a : Re} {u v : List RuleId} : Mem a u → Mem (.star a) v → Mem (.star a) (u ++ v)
  | top (w : List RuleId) : Mem .top w

variable {σ : Type} [DecidableEq σ]

theorem mem_insert {s t : σ} {S : List σ} : t ∈ insert s S ↔ t = s ∨ t ∈ S := by
  unfold insert
  split
  · rename_i h
    have : s ∈ S := by simpa using h
    constructor
    · intro ht; exact Or.inr ht
    · rintro (rfl | ht)
      · exact this
      · exact ht
  · simp [or_comm]

theorem mem_union {t : σ} {S T : List σ} : t ∈ union S T ↔ t ∈ S ∨ t ∈ T := by
  unfold union
  induction T generalizing S with
  | nil => simp
  | cons x T ih =>
    simp only [List.foldl_cons]
    rw [ih, mem_insert]
    simp only [List.mem_cons]
    constructor
    · rintro ((rfl | h) | h)
      · exact Or.inr (Or.inl rfl)
      · exact Or.inl h
      · exact Or.inr (Or.inr h)
    · rintro (h | rfl | h)
      · exact Or.inl (Or.inr h)
      · exact Or.inl (Or.inl rfl)
      · exact Or.inr h

theorem subset_iff {S T : List σ} : subset S T = true ↔ ∀ s ∈ S, s ∈ T := by
  simp [subset]

omit [DecidableEq σ] in
theorem run_append (A : Auto σ) (s : σ) (u v : List RuleId) :
    A.run s (u ++ v) = (A.run s u).bind fun t => A.run t v := by
  induction u generalizing s with
  | nil => simp [Auto.run]
  | cons a u ih =>
    simp only [List.cons_append, Auto.run]
    cases A.step s a with
    | none => simp
    | some t => simpa using ih t

theorem stepAll_sound (A : Auto σ) (a : RuleId) :
    ∀ (S T : List σ), stepAll A a S = some T → ∀ s ∈ S, ∃ t ∈ T, A.step s a = some t := by
  intro S
  induction S with
  | nil => intro T _ s hs; cases hs
  | cons x S ih =>
    intro T h s hs
    simp only [stepAll] at h
    cases hx : A.step x a with
    | none => simp [hx] at h
    | some t =>
      cases hS : stepAll A a S with
      | none => simp [hx, hS] at h
      | some T' =>
        simp only [hx, hS, Option.some.injEq] at h
        subst h
        rcases List.mem_cons.mp hs with rfl | hs
        · exact ⟨t, mem_insert.mpr (Or.inl rfl), hx⟩
        · obtain ⟨t', ht', e⟩ := ih T' hS s hs
          exact ⟨t', mem_insert.mpr (Or.inr ht'), e⟩

/-- a successful `iter` returns a superset of the start set that is closed under `f` -/
theorem iter_closed (f : List σ → Option (List σ)) :
    ∀ (n : Nat) (S T : List σ), iter f n S = some T →
      (∀ s ∈ S, s ∈ T) ∧ ∃ U, f T = some U ∧ ∀ u ∈ U, u ∈ T := by
  intro n
  induction n with
  | zero =>
    intro S T h
    simp only [iter] at h
    cases hf : f S with
    | none => simp [hf] at h
    | some U =>
      simp only [hf] at h
      split at h
      · rename_i hsub
        simp only [Option.some.injEq] at h
        subst h
        exact ⟨fun s hs => hs, U, hf, subset_iff.mp hsub⟩
      · cases h
  | succ n ih =>
    intro S T h
    simp only [iter] at h
    cases hf : f S with
    | none => simp [hf] at h
    | some U =>
      simp only [hf] at h
      split at h
      · rename_i hsub
        simp only [Option.some.injEq] at h
        subst h
        exact ⟨fun s hs => hs, U, hf, subset_iff.mp hsub⟩
      · obtain ⟨h1, h2⟩ := ih _ T h
        exact ⟨fun s hs => h1 s (mem_union.mpr (Or.inl hs)), h2⟩

theorem star_run (A : Auto σ) (a : Re) (T U : List σ)
    (hstep : ∀ s ∈ T, ∀ w, Mem a w → ∃ t ∈ U, A.run s w = some t) (hUT : ∀ u ∈ U, u ∈ T) :
    ∀ w, Mem (.star a) w → ∀ s ∈ T, ∃ t ∈ T, A.run s w = some t := by
  intro w hw
  generalize he : Re.star a = e at hw
  induction hw with
  | starNil => intro s hs; exact ⟨s, hs, rfl⟩
  | starCons h1 _ _ ih2 =>
    cases he
    intro s hs
    obtain ⟨t, htU, e1⟩ := hstep s hs _ h1
    obtain ⟨t', ht', e2⟩ := ih2 rfl t (hUT t htU)
    exact ⟨t', ht', by rw [run_append, e1]; simpa using e2⟩
  | eps => cases he
  | sym => cases he
  | seq => cases he
  | altL => cases he
  | altR => cases he
  | top => cases he

theorem post_sound (A : Auto σ) :
    ∀ (e : Re) (S T : List σ), post A e S = some T →
      ∀ s ∈ S, ∀ w, Mem e w → ∃ t ∈ T, A.run s w = some t := by
  intro e
  induction e with
  | eps =>
    intro S T h s hs w hw
    cases hw
    simp only [post, Option.some.injEq] at h
    subst h
    exact ⟨s, hs, rfl⟩
  | sym a =>
    intro S T h s hs w hw
    cases hw
    simp only [post] at h
    obtain ⟨t, ht, e⟩ := stepAll_sound A a S T h s hs
    exact ⟨t, ht, by simp [Auto.run, e]⟩
  | seq a b iha ihb =>
    intro S T h s hs w hw
    cases hw with
    | seq h1 h2 =>
      simp only [post] at h
      cases ha : post A a S with
      | none => simp [ha] at h
      | some T1 =>
        simp only [ha] at h
        obtain ⟨t1, ht1, e1⟩ := iha S T1 ha s hs _ h1
        obtain ⟨t2, ht2, e2⟩ := ihb T1 T h t1 ht1 _ h2
        exact ⟨t2, ht2, by rw [run_append, e1]; simpa using e2⟩
  | alt a b iha ihb =>
    intro S T h s hs w hw
    simp only [post] at h
    cases ha : post A a S with
    | none => simp [ha] at h
    | some Ta =>
      cases hb : post A b S with
      | none => simp [ha, hb] at h
      | some Tb =>
        simp only [ha, hb, Option.some.injEq] at h
        subst h
        cases hw with
        | altL h1 =>
          obtain ⟨t, ht, e⟩ := iha S Ta ha s hs _ h1
          exact ⟨t, mem_union.mpr (Or.inl ht), e⟩
        | altR h1 =>
          obtain ⟨t, ht, e⟩ := ihb S Tb hb s hs _ h1
          exact ⟨t, mem_union.mpr (Or.inr ht), e⟩
  | star a iha =>
    intro S T h s hs w hw
    simp only [post] at h
    obtain ⟨hST, U, hU, hUT⟩ := iter_closed (post A a) A.size S T h
    exact star_run A a T U (fun s hs w hw => iha T U hU s hs w hw) hUT w hw s (hST s hs)
  | top =>
    intro S T h
    simp [post] at h

theorem acceptsA_sound (A : Auto σ) (s0 : σ) (e : Re) (h : acceptsA A s0 e = true) :
    ∀ w, Mem e w → A.ok s0 w = true := by
  intro w hw
  unfold acceptsA at h
  cases hp : post A e [s0] with
  | none => simp [hp] at h
  | some T =>
    simp only [hp, List.all_eq_true] at h
    obtain ⟨t, ht, e1⟩ := post_sound A e [s0] T hp s0 (List.mem_singleton.mpr rfl) w hw
    simp [Auto.ok, e1, h t ht]

/-! ### the automata are the matchers of `Model/Build.lean` -/

open NitroVerif.Build in
/-- `parts!` as modelled in Build (`matchParts`) succeeds exactly when the `parts` automaton accepts the rules
    of the children -/
theorem matchParts_ok (items : List Item) (cs : List Pair) (n : Nat) :
    (matchParts items cs).isOk = (partsAuto n).ok items (cs.map Pair.rule) := by
  induction items generalizing cs with
  | nil =>
    cases cs with
    | nil => simp [matchParts, Auto.ok, Auto.run, partsAuto, partsFinal, Except.isOk, Except.toBool]
    | cons c cs =>
      have : ∀ (w : List RuleId), (partsAuto n).run [] w = some [] := by
        intro w
        induction w with
        | nil => rfl
        | cons a w ih => simp [Auto.run, partsAuto, partsStep] at ih ⊢; exact ih
      have h := this (c.rule :: cs.map Pair.rule)
      simp only [matchParts, List.map_cons, Auto.ok, h]
      simp [partsAuto, partsFinal, Except.isOk, Except.toBool]
  | cons it items ih =>
    cases it with
    | req r =>
      cases cs with
      | nil => simp [matchParts, Auto.ok, Auto.run, partsAuto, partsFinal, Except.isOk, Except.toBool]
      | cons c cs =>
        by_cases hc : c.rule = r
        · have := ih cs
          simp only [matchParts, hc, if_true, List.map_cons, Auto.ok, Auto.run, partsAuto, partsStep] at this ⊢
          cases hm : matchParts items cs <;> simp [hm, Except.map, Except.isOk, Except.toBool] at this ⊢ <;> exact this
        · simp [matchParts, hc, Auto.ok, Auto.run, partsAuto, partsStep, Except.isOk, Except.toBool]
    | opt r =>
      cases cs with
      | nil =>
        have := ih []
        simp only [matchParts, List.map_nil, Auto.ok, Auto.run, partsAuto, partsFinal] at this ⊢
        cases hm : matchParts items [] <;> simp [hm, Except.map, Except.isOk, Except.toBool] at this ⊢ <;> exact this
      | cons c cs =>
        by_cases hc : c.rule = r
        · have := ih cs
          simp only [matchParts, hc, if_true, List.map_cons, Auto.ok, Auto.run, partsAuto, partsStep] at this ⊢
          cases hm : matchParts items cs <;> simp [hm, Except.map, Except.isOk, Except.toBool] at this ⊢ <;> exact this
        · have := ih (c :: cs)
          simp only [matchParts, hc, if_false, List.map_cons, Auto.ok, Auto.run, partsAuto, partsStep] at this ⊢
          cases hm : matchParts items (c :: cs) <;> simp [hm, Except.map, Except.isOk, Except.toBool] at this ⊢ <;>
            exact this

end NitroVerif.Shape
