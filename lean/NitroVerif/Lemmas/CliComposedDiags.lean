/-
C18 composed (helper lemmas): which list `check_impl` returns (stage by stage), what the diagnostics of an outcome are,
and that an extension-resolution error names an existing `#import` line of the document.
-/
import NitroVerif.Lemmas.CliComposedDocs
import NitroVerif.Lemmas.CliComposedPos
namespace NitroVerif.CliComposed
open NitroVerif NitroVerif.Gql NitroVerif.Cli

/-- the five ways `check_impl` can end: the first stage that reports anything determines the whole result -/
theorem checkImpl_cases (r : Run) :
    (∃ d, r.schemaExt = some d ∧ checkImpl r = [⟨.schema, .schemaExt, d⟩]) ∨
    (r.schemaExt = none ∧ r.schemaCheck ≠ [] ∧ checkImpl r = tagged .schema .schemaCheck r.schemaCheck) ∨
    (r.schemaExt = none ∧ r.schemaCheck = [] ∧ r.opFiles.filterMap (·.ext) ≠ [] ∧
      checkImpl r = tagged .operation .opExt (r.opFiles.filterMap (·.ext))) ∨
    (r.schemaExt = none ∧ r.schemaCheck = [] ∧ r.opFiles.filterMap (·.ext) = [] ∧ r.opFiles.filterMap (·.imp) ≠ [] ∧
      checkImpl r = tagged .operation .opImport (r.opFiles.filterMap (·.imp))) ∨
    (r.schemaExt = none ∧ r.schemaCheck = [] ∧ r.opFiles.filterMap (·.ext) = [] ∧ r.opFiles.filterMap (·.imp) = [] ∧
      checkImpl r = tagged .operation .opCheck (r.opFiles.flatMap (·.check))) := by
  unfold checkImpl
  cases hse : r.schemaExt with
  | some d => exact Or.inl ⟨d, rfl, rfl⟩
  | none =>
    right
    by_cases h1 : r.schemaCheck = []
    · right
      by_cases h2 : r.opFiles.filterMap (·.ext) = []
      · right
        by_cases h3 : r.opFiles.filterMap (·.imp) = []
        · right
          refine ⟨rfl, h1, h2, h3, ?_⟩
          simp [h1, h2, h3]
        · left
          have : (r.opFiles.filterMap (·.imp)).isEmpty = false := by simpa using h3
          refine ⟨rfl, h1, h2, h3, ?_⟩
          simp [h1, h2, this]
      · left
        have : (r.opFiles.filterMap (·.ext)).isEmpty = false := by simpa using h2
        refine ⟨rfl, h1, h2, ?_⟩
        simp [h1, this]
    · left
      have : r.schemaCheck.isEmpty = false := by simpa using h1
      refine ⟨rfl, h1, ?_⟩
      simp [this]

/-- the diagnostics of a run: none, the parse errors of the schema files, the parse errors of the operation files, or
    the result of `check_impl` -/
theorem diags_cases (r : Run) (o : Outcome) (h : runCli r = some o) :
    o.diags = [] ∨ o.diags = parseErrs .schema .parseSchema 0 r.schemaFiles ∨
    o.diags = parseErrs .operation .parseOperation r.schemaFiles.length (r.opFiles.map (·.parse)) ∨
    (Cmd.check ∈ o.commandsRun ∧ o.diags = checkImpl r) := by
  obtain ⟨o', h', sh⟩ := runCli_shape r
  rw [h] at h'; cases h'
  cases sh with
  | noCommand _ ho => subst ho; left; rfl
  | schemaParse _ _ ho => subst ho; right; left; rfl
  | opParse _ _ _ ho => subst ho; right; right; left; rfl
  | commands _ _ _ ho =>
    subst ho
    have fin := (runCommands_spec r r.cmds St.init (Good.init r)).1
    by_cases hc : Cmd.check ∈ (runCommands r r.cmds St.init).1.commandsRun
    · right; right; right; exact ⟨hc, fin.ran hc⟩
    · left; exact fin.notRan hc

/-! ### an extension-resolution error names an existing import line -/

def Imports.ExtErr.line : Imports.ExtErr → Nat
  | .wildcardOnlyOnce l | .wildcardCombined l => l

theorem foldTargets_err_line (line : Nat) : ∀ (ts : List Imports.RawTarget) (acc : Imports.Targets) (i : Nat)
    (e : Imports.ExtErr), Imports.foldTargets line acc i ts = .error e → Imports.ExtErr.line e = line := by
  intro ts
  induction ts with
  | nil => intro acc i e h; simp [Imports.foldTargets] at h
  | cons t ts ih =>
    intro acc i e h
    cases acc with
    | wildcard =>
      cases t with
      | wildcard => simp only [Imports.foldTargets] at h; cases h; rfl
      | name n => simp only [Imports.foldTargets] at h; cases h; rfl
    | specific ids =>
      cases t with
      | wildcard =>
        simp only [Imports.foldTargets] at h
        split at h
        · exact ih _ _ e h
        · cases h; rfl
      | name n =>
        simp only [Imports.foldTargets] at h
        exact ih _ _ e h

theorem extLoop_err_line {ρ : Type} [DecidableEq ρ] : ∀ (raws : List (Imports.RawImport ρ)) (acc : List (Imports.Import ρ))
    (line : Nat) (e : Imports.ExtErr), Imports.extLoop acc line raws = .error e →
    line ≤ Imports.ExtErr.line e ∧ Imports.ExtErr.line e < line + raws.length := by
  intro raws
  induction raws with
  | nil => intro acc line e h; simp [Imports.extLoop] at h
  | cons raw raws ih =>
    intro acc line e h
    simp only [Imports.extLoop] at h
    cases hs : Imports.extStep acc line raw with
    | ok acc' =>
      rw [hs] at h
      have := ih acc' (line + 1) e h
      simp only [List.length_cons]
      omega
    | error e' =>
      rw [hs] at h
      cases h
      unfold Imports.extStep at hs
      simp only at hs
      split at hs
      · cases hs
      · rename_i e'' hf
        cases hs
        have := foldTargets_err_line line _ _ _ _ hf
        simp only [List.length_cons]
        omega

/-- the line an extension-resolution error names is one of the document's `#import` lines: its position is that
    line's position -/
theorem extErr_line_exists {code : Name → Nat} {D : Doc} {e : Imports.ExtErr} (h : extOf code D = .error e) :
    ∃ i, (importsOf D)[Imports.ExtErr.line e]? = some i ∧ extErrPos D e = i.pos := by
  unfold extOf Imports.resolveExt at h
  have hb := extLoop_err_line _ _ _ _ h
  have hlt : Imports.ExtErr.line e < (importsOf D).length := by
    have : (rawLines code D).length = (importsOf D).length := by simp [rawLines]
    omega
  refine ⟨(importsOf D)[Imports.ExtErr.line e], by simp [hlt], ?_⟩
  unfold extErrPos
  cases e <;> simp [Imports.ExtErr.line] at hlt ⊢ <;> simp [hlt]

theorem import_pos_mem {D : Doc} {l : Nat} {i : ImportDef} (h : (importsOf D)[l]? = some i) :
    i.pos ∈ Doc.positions D := by
  have hm : i ∈ importsOf D := List.mem_of_getElem? h
  unfold importsOf at hm
  obtain ⟨d, hd, he⟩ := List.mem_filterMap.mp hm
  cases d <;> simp at he
  subst he
  unfold Doc.positions
  exact List.mem_flatMap.mpr ⟨_, hd, by simp [ExecDef.positions, ImportDef.positions]⟩

end NitroVerif.CliComposed
