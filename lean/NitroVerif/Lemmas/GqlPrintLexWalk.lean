import NitroVerif.Lemmas.GqlPrintLexText
/-!
C16, character level: a walk over every printing function of `Model/GqlPrint.lean` showing that its token sequence is
`LexableK`: every punctuator / layout token is lexically what it claims, and every name, number and string token is
followed by a character that ends it (a blank, a line feed, a comma or a punctuator) — whatever the document is.
-/
namespace NitroVerif.C16
open NitroVerif.Gql NitroVerif.GqlPrint NitroVerif.GqlTokens NitroVerif.GqlLexer

/-- a character that ends every kind of token -/
def sepChar (c : Char) : Bool := !nameContinue c && c != '.' && c != '"'

def sepOpt (oc : Option Char) : Bool := ocAll sepChar oc

theorem followOK_of_sep (t : Tok) (oc : Option Char) (h : sepOpt oc = true) : followOK t oc = true := by
  cases oc with
  | none => cases t <;> rfl
  | some c =>
    simp only [sepOpt, ocAll, sepChar, Bool.and_eq_true, Bool.not_eq_true', bne_iff_ne, ne_eq] at h
    obtain ⟨⟨h1, h2⟩, h3⟩ := h
    have hns : nameStart c = false := by
      cases hn : nameStart c with
      | false => rfl
      | true => simp [nameContinue, hn] at h1
    have hd : isDigit c = false := by
      cases hn : isDigit c with
      | false => rfl
      | true => simp [nameContinue, hn] at h1
    cases t <;> simp [followOK, ocAll, h1, h2, h3, hns, hd]

/-- a punctuator or layout token of the printer with a lexically valid text -/
def isFixed : Tok → Bool
  | .p s => punctOK s
  | .lay s => s.toList.all isIgnored
  | _ => false

/-- the token writes something, and it starts with a separator -/
def sepHead (t : Tok) : Bool :=
  match chunkHead t with
  | some c => sepChar c
  | none => false

theorem LexableK_append (nxt : Option Char) (A B : List Tok) :
    LexableK nxt (A ++ B) = (LexableK (firstCharK nxt B) A && LexableK nxt B) := by
  induction A with
  | nil => simp [LexableK]
  | cons t ts ih =>
    have hfc : ∀ (X : List Tok), firstCharK nxt (X ++ B) = firstCharK (firstCharK nxt B) X := by
      intro X
      induction X with
      | nil => rfl
      | cons x xs ihx => simp only [List.cons_append, firstCharK, ihx]
    simp only [List.cons_append, LexableK, ih, hfc, Bool.and_assoc]

theorem firstCharK_append (nxt : Option Char) (A B : List Tok) :
    firstCharK nxt (A ++ B) = firstCharK (firstCharK nxt B) A := by
  induction A with
  | nil => rfl
  | cons x xs ih => simp only [List.cons_append, firstCharK, ih]

theorem lx_fixed (t : Tok) (B : List Tok) (nxt : Option Char) (h : isFixed t = true) :
    LexableK nxt (t :: B) = LexableK nxt B := by
  cases t <;> simp_all [isFixed, LexableK, fixedOK, followOK]

theorem fc_sep (t : Tok) (B : List Tok) (nxt : Option Char) (h : sepHead t = true) :
    sepOpt (firstCharK nxt (t :: B)) = true := by
  unfold sepHead at h
  cases hc : chunkHead t with
  | none => simp [hc] at h
  | some c => simpa [firstCharK, hc, sepOpt, ocAll] using h

theorem lx_ind (B : List Tok) (nxt : Option Char) : LexableK nxt (Tok.ind :: B) = LexableK nxt B := by
  simp [LexableK, fixedOK, followOK]
theorem lx_ded (B : List Tok) (nxt : Option Char) : LexableK nxt (Tok.ded :: B) = LexableK nxt B := by
  simp [LexableK, fixedOK, followOK]
theorem fc_ind (B : List Tok) (nxt : Option Char) : firstCharK nxt (Tok.ind :: B) = firstCharK nxt B := rfl
theorem fc_ded (B : List Tok) (nxt : Option Char) : firstCharK nxt (Tok.ded :: B) = firstCharK nxt B := rfl

/-- a token whose text comes from the document -/
def isData : Tok → Bool
  | .name _ | .var _ | .int _ | .float _ | .str _ => true
  | _ => false

/-- a token whose text comes from the document is fine when a separator follows -/
theorem lx_data (t : Tok) (B : List Tok) (nxt : Option Char) (ht : isData t = true)
    (h : sepOpt (firstCharK nxt B) = true) : LexableK nxt (t :: B) = LexableK nxt B := by
  have hf := followOK_of_sep t _ h
  cases t <;> simp_all [isData, LexableK, fixedOK]

/-- from the contract of an open function to its use in front of a continuation -/
theorem lx_app (A B : List Tok) (nxt : Option Char) (hA : ∀ n, sepOpt n = true → LexableK n A = true)
    (h : sepOpt (firstCharK nxt B) = true) : LexableK nxt (A ++ B) = LexableK nxt B := by
  rw [LexableK_append, hA _ h]; simp

/-- the same for a closed function (its last token needs no follower) -/
theorem lx_app_closed (A B : List Tok) (nxt : Option Char) (hA : ∀ n, LexableK n A = true) :
    LexableK nxt (A ++ B) = LexableK nxt B := by
  rw [LexableK_append, hA _]; simp

/-! ### the printer's fixed tokens -/

theorem lxs_lb (nxt : Option Char) (B : List Tok) : LexableK nxt (Tok.p "[" :: B) = LexableK nxt B :=
  lx_fixed _ _ _ (by decide)
theorem fcs_lb (nxt : Option Char) (B : List Tok) : sepOpt (firstCharK nxt (Tok.p "[" :: B)) = true :=
  fc_sep _ _ _ (by decide)
theorem lxs_rb (nxt : Option Char) (B : List Tok) : LexableK nxt (Tok.p "]" :: B) = LexableK nxt B :=
  lx_fixed _ _ _ (by decide)
theorem fcs_rb (nxt : Option Char) (B : List Tok) : sepOpt (firstCharK nxt (Tok.p "]" :: B)) = true :=
  fc_sep _ _ _ (by decide)
theorem lxs_bang (nxt : Option Char) (B : List Tok) : LexableK nxt (Tok.p "!" :: B) = LexableK nxt B :=
  lx_fixed _ _ _ (by decide)
theorem fcs_bang (nxt : Option Char) (B : List Tok) : sepOpt (firstCharK nxt (Tok.p "!" :: B)) = true :=
  fc_sep _ _ _ (by decide)
theorem lxs_lc (nxt : Option Char) (B : List Tok) : LexableK nxt (Tok.p "{" :: B) = LexableK nxt B :=
  lx_fixed _ _ _ (by decide)
theorem fcs_lc (nxt : Option Char) (B : List Tok) : sepOpt (firstCharK nxt (Tok.p "{" :: B)) = true :=
  fc_sep _ _ _ (by decide)
theorem lxs_rc (nxt : Option Char) (B : List Tok) : LexableK nxt (Tok.p "}" :: B) = LexableK nxt B :=
  lx_fixed _ _ _ (by decide)
theorem fcs_rc (nxt : Option Char) (B : List Tok) : sepOpt (firstCharK nxt (Tok.p "}" :: B)) = true :=
  fc_sep _ _ _ (by decide)
theorem lxs_colon (nxt : Option Char) (B : List Tok) : LexableK nxt (Tok.p ":" :: B) = LexableK nxt B :=
  lx_fixed _ _ _ (by decide)
theorem fcs_colon (nxt : Option Char) (B : List Tok) : sepOpt (firstCharK nxt (Tok.p ":" :: B)) = true :=
  fc_sep _ _ _ (by decide)
theorem lxs_lp (nxt : Option Char) (B : List Tok) : LexableK nxt (Tok.p "(" :: B) = LexableK nxt B :=
  lx_fixed _ _ _ (by decide)
theorem fcs_lp (nxt : Option Char) (B : List Tok) : sepOpt (firstCharK nxt (Tok.p "(" :: B)) = true :=
  fc_sep _ _ _ (by decide)
theorem lxs_rp (nxt : Option Char) (B : List Tok) : LexableK nxt (Tok.p ")" :: B) = LexableK nxt B :=
  lx_fixed _ _ _ (by decide)
theorem fcs_rp (nxt : Option Char) (B : List Tok) : sepOpt (firstCharK nxt (Tok.p ")" :: B)) = true :=
  fc_sep _ _ _ (by decide)
theorem lxs_at (nxt : Option Char) (B : List Tok) : LexableK nxt (Tok.p "@" :: B) = LexableK nxt B :=
  lx_fixed _ _ _ (by decide)
theorem fcs_at (nxt : Option Char) (B : List Tok) : sepOpt (firstCharK nxt (Tok.p "@" :: B)) = true :=
  fc_sep _ _ _ (by decide)
theorem lxs_eq (nxt : Option Char) (B : List Tok) : LexableK nxt (Tok.p "=" :: B) = LexableK nxt B :=
  lx_fixed _ _ _ (by decide)
theorem fcs_eq (nxt : Option Char) (B : List Tok) : sepOpt (firstCharK nxt (Tok.p "=" :: B)) = true :=
  fc_sep _ _ _ (by decide)
theorem lxs_amp (nxt : Option Char) (B : List Tok) : LexableK nxt (Tok.p "&" :: B) = LexableK nxt B :=
  lx_fixed _ _ _ (by decide)
theorem fcs_amp (nxt : Option Char) (B : List Tok) : sepOpt (firstCharK nxt (Tok.p "&" :: B)) = true :=
  fc_sep _ _ _ (by decide)
theorem lxs_bar (nxt : Option Char) (B : List Tok) : LexableK nxt (Tok.p "|" :: B) = LexableK nxt B :=
  lx_fixed _ _ _ (by decide)
theorem fcs_bar (nxt : Option Char) (B : List Tok) : sepOpt (firstCharK nxt (Tok.p "|" :: B)) = true :=
  fc_sep _ _ _ (by decide)
theorem lxs_sp (nxt : Option Char) (B : List Tok) : LexableK nxt (sp :: B) = LexableK nxt B :=
  lx_fixed _ _ _ (by decide)
theorem fcs_sp (nxt : Option Char) (B : List Tok) : sepOpt (firstCharK nxt (sp :: B)) = true :=
  fc_sep _ _ _ (by decide)
theorem lxs_nl (nxt : Option Char) (B : List Tok) : LexableK nxt (nl :: B) = LexableK nxt B :=
  lx_fixed _ _ _ (by decide)
theorem fcs_nl (nxt : Option Char) (B : List Tok) : sepOpt (firstCharK nxt (nl :: B)) = true :=
  fc_sep _ _ _ (by decide)
theorem lxs_comma (nxt : Option Char) (B : List Tok) : LexableK nxt (Tok.lay "," :: B) = LexableK nxt B :=
  lx_fixed _ _ _ (by decide)
theorem fcs_comma (nxt : Option Char) (B : List Tok) : sepOpt (firstCharK nxt (Tok.lay "," :: B)) = true :=
  fc_sep _ _ _ (by decide)
theorem lxs_commanl (nxt : Option Char) (B : List Tok) : LexableK nxt (Tok.lay ",\n" :: B) = LexableK nxt B :=
  lx_fixed _ _ _ (by decide)
theorem fcs_commanl (nxt : Option Char) (B : List Tok) : sepOpt (firstCharK nxt (Tok.lay ",\n" :: B)) = true :=
  fc_sep _ _ _ (by decide)
theorem lxs_commasp (nxt : Option Char) (B : List Tok) : LexableK nxt (Tok.lay ", " :: B) = LexableK nxt B :=
  lx_fixed _ _ _ (by decide)
theorem fcs_commasp (nxt : Option Char) (B : List Tok) : sepOpt (firstCharK nxt (Tok.lay ", " :: B)) = true :=
  fc_sep _ _ _ (by decide)
theorem lxs_dots (nxt : Option Char) (B : List Tok) : LexableK nxt (Tok.p "..." :: B) = LexableK nxt B :=
  lx_fixed _ _ _ (by decide)

theorem lxd_name (n : String) (nxt : Option Char) (B : List Tok) (h : sepOpt (firstCharK nxt B) = true) :
    LexableK nxt (Tok.name n :: B) = LexableK nxt B := lx_data _ _ _ rfl h
theorem lxd_var (n : String) (nxt : Option Char) (B : List Tok) (h : sepOpt (firstCharK nxt B) = true) :
    LexableK nxt (Tok.var n :: B) = LexableK nxt B := lx_data _ _ _ rfl h
theorem lxd_int (n : String) (nxt : Option Char) (B : List Tok) (h : sepOpt (firstCharK nxt B) = true) :
    LexableK nxt (Tok.int n :: B) = LexableK nxt B := lx_data _ _ _ rfl h
theorem lxd_float (n : String) (nxt : Option Char) (B : List Tok) (h : sepOpt (firstCharK nxt B) = true) :
    LexableK nxt (Tok.float n :: B) = LexableK nxt B := lx_data _ _ _ rfl h
theorem lxd_str (n : String) (nxt : Option Char) (B : List Tok) (h : sepOpt (firstCharK nxt B) = true) :
    LexableK nxt (Tok.str n :: B) = LexableK nxt B := lx_data _ _ _ rfl h

theorem LexableK_nil (nxt : Option Char) : LexableK nxt [] = true := rfl
theorem firstCharK_nil (nxt : Option Char) : firstCharK nxt [] = nxt := rfl

/-- the simp set of the walk -/
macro "lx_simp" " [" ls:Lean.Parser.Tactic.simpLemma,* "]" : tactic =>
  `(tactic| simp (maxDischargeDepth := 8) only [LexableK_append, firstCharK_append, LexableK_nil, firstCharK_nil, lx_ind, lx_ded, fc_ind, fc_ded,
      lxs_lb, lxs_rb, lxs_bang, lxs_lc, lxs_rc, lxs_colon, lxs_lp, lxs_rp, lxs_at, lxs_eq, lxs_amp, lxs_bar, lxs_sp, lxs_nl,
      lxs_comma, lxs_commanl, lxs_commasp, lxs_dots, fcs_lb, fcs_rb, fcs_bang, fcs_lc, fcs_rc, fcs_colon, fcs_lp, fcs_rp,
      fcs_at, fcs_eq, fcs_amp, fcs_bar, fcs_sp, fcs_nl, fcs_comma, fcs_commanl, fcs_commasp,
      lxd_name, lxd_var, lxd_int, lxd_float, lxd_str, List.cons_append, List.nil_append, List.append_assoc,
      Bool.and_self, Bool.and_true, Bool.true_and, $ls,*])

theorem lx_type (t : GType) : ∀ n, sepOpt n = true → LexableK n (printType t) = true := by
  induction t with
  | named nm p => intro n h; lx_simp [printType, h]
  | list t p ih => intro n h; lx_simp [printType, ih, h]
  | nonNull t ih => intro n h; lx_simp [printType, ih, h]

mutual
theorem lx_value : (v : Value) → ∀ n, sepOpt n = true → LexableK n (printValue v) = true
  | .var x _, n, h => by lx_simp [printValue, h]
  | .int x _, n, h => by lx_simp [printValue, h]
  | .float x _, n, h => by lx_simp [printValue, h]
  | .str x _, n, h => by lx_simp [printValue, h]
  | .bool b _, n, h => by lx_simp [printValue, h]
  | .null _, n, h => by lx_simp [printValue, h]
  | .enum x _, n, h => by lx_simp [printValue, h]
  | .list vs _, n, h => by
    have := lx_valueList vs true
    lx_simp [printValue, this, h]
  | .obj [] _, n, h => by lx_simp [printValue, h]
  | .obj [(k, _, v)] _, n, h => by
    have := lx_value v
    lx_simp [printValue, this, h]
  | .obj (f1 :: f2 :: fs) _, n, h => by
    have := lx_fieldLines (f1 :: f2 :: fs)
    lx_simp [printValue, this, h]
theorem lx_valueList : (vs : List Value) → (b : Bool) → ∀ n, sepOpt n = true → LexableK n (printValueList vs b) = true
  | [], _, n, h => by lx_simp [printValueList]
  | v :: vs, b, n, h => by
    have h1 := lx_value v
    have h2 := lx_valueList vs false
    have hfc : sepOpt (firstCharK n (printValueList vs false)) = true := by
      cases vs with
      | nil => lx_simp [printValueList, h]
      | cons w ws => lx_simp [printValueList, Bool.false_eq_true, if_false]
    cases b <;> lx_simp [printValueList, Bool.false_eq_true, if_false, if_true, h1, h2, hfc, h]
theorem lx_fieldLines : (fs : List (Name × Pos × Value)) → ∀ n, sepOpt n = true → LexableK n (printFieldLines fs) = true
  | [], n, h => by lx_simp [printFieldLines]
  | (k, _, v) :: r, n, h => by
    have h1 := lx_value v
    have h2 := lx_fieldLines r
    lx_simp [printFieldLines, h1, h2, h]
end

theorem lx_args : (as : List Arg) → ∀ n, sepOpt n = true → LexableK n (printArgs as) = true
  | [], n, h => by lx_simp [printArgs]
  | [(k, _, v)], n, h => by lx_simp [printArgs, lx_value v, h]
  | a1 :: a2 :: as, n, h => by lx_simp [printArgs, lx_fieldLines (a1 :: a2 :: as), h]

theorem fc_args : (as : List Arg) → ∀ n, sepOpt n = true → sepOpt (firstCharK n (printArgs as)) = true
  | [], n, h => by lx_simp [printArgs, h]
  | [(k, _, v)], n, h => by lx_simp [printArgs]
  | a1 :: a2 :: as, n, h => by lx_simp [printArgs]

theorem lx_directive (d : Directive) : ∀ n, sepOpt n = true → LexableK n (printDirective d) = true := by
  intro n h
  lx_simp [printDirective, lx_args d.args, fc_args d.args, h]

theorem lx_dirs (ds : List Directive) : ∀ n, sepOpt n = true → LexableK n (printDirs ds) = true := by
  induction ds with
  | nil => intro n h; lx_simp [printDirs]
  | cons d ds ih =>
    intro n h
    have hfc : sepOpt (firstCharK n (printDirs ds)) = true := by
      cases ds with
      | nil => lx_simp [printDirs, h]
      | cons e es => lx_simp [printDirs]
    lx_simp [printDirs, lx_directive d, ih, hfc, h]

theorem fc_dirs (ds : List Directive) : ∀ n, sepOpt n = true → sepOpt (firstCharK n (printDirs ds)) = true := by
  intro n h
  cases ds with
  | nil => lx_simp [printDirs, h]
  | cons e es => lx_simp [printDirs]

theorem fc_dirsTight (ds : List Directive) : ∀ n, sepOpt n = true → sepOpt (firstCharK n (printDirsTight ds)) = true := by
  intro n h
  cases ds with
  | nil => lx_simp [printDirsTight, h]
  | cons e es => lx_simp [printDirsTight, printDirective]

theorem lx_dirsTight (ds : List Directive) : ∀ n, sepOpt n = true → LexableK n (printDirsTight ds) = true := by
  induction ds with
  | nil => intro n h; lx_simp [printDirsTight]
  | cons d ds ih =>
    intro n h
    lx_simp [printDirsTight, lx_directive d, ih, fc_dirsTight ds, h]

mutual
theorem lx_selection : (s : Selection) → ∀ n, sepOpt n = true → LexableK n (printSelection s) = true
  | .field al nm _ as ds none, n, h => by
    rcases al with _ | ⟨a, p⟩ <;>
      lx_simp [printSelection, lx_args as, fc_args as, lx_dirs ds, fc_dirs ds, h]
  | .field al nm _ as ds (some xs), n, h => by
    have := lx_selLines xs
    rcases al with _ | ⟨a, p⟩ <;>
      lx_simp [printSelection, lx_args as, fc_args as, lx_dirs ds, fc_dirs ds, this, h]
  | .spread nm _ ds _, n, h => by lx_simp [printSelection, lx_dirs ds, fc_dirs ds, h]
  | .inline c ds ss _, n, h => by
    have := lx_selLines ss
    rcases c with _ | ⟨t, p⟩ <;>
      lx_simp [printSelection, lx_dirs ds, fc_dirs ds, this, h]
theorem lx_selLines : (ss : List Selection) → ∀ n, sepOpt n = true → LexableK n (printSelLines ss) = true
  | [], n, h => by lx_simp [printSelLines]
  | s :: ss, n, h => by
    have h1 := lx_selection s
    have h2 := lx_selLines ss
    lx_simp [printSelLines, h1, h2, h]
end

theorem lx_selSet (ss : List Selection) : ∀ n, LexableK n (printSelSet ss) = true := by
  intro n
  lx_simp [printSelSet, lx_selLines ss]

theorem lx_varDef (v : VarDef) : ∀ n, sepOpt n = true → LexableK n (printVarDef v) = true := by
  intro n h
  cases hd : v.default <;>
    lx_simp [printVarDef, hd, lx_type v.ty, lx_value, lx_dirs v.dirs, fc_dirs v.dirs, h]

theorem lx_varDefsSep (vs : List VarDef) : ∀ b n, sepOpt n = true → LexableK n (printVarDefsSep vs b) = true := by
  induction vs with
  | nil => intro b n h; lx_simp [printVarDefsSep]
  | cons v vs ih =>
    intro b n h
    have hfc : sepOpt (firstCharK n (printVarDefsSep vs false)) = true := by
      cases vs with
      | nil => lx_simp [printVarDefsSep, h]
      | cons w ws => lx_simp [printVarDefsSep, Bool.false_eq_true, if_false]
    cases b <;> lx_simp [printVarDefsSep, Bool.false_eq_true, if_false, if_true, lx_varDef v, ih, hfc, h]

theorem lx_varDefs : (vs : List VarDef) → ∀ n, LexableK n (printVarDefs vs) = true
  | [], n => by lx_simp [printVarDefs]
  | [v], n => by lx_simp [printVarDefs, lx_varDef v]
  | v1 :: v2 :: vs, n => by lx_simp [printVarDefs, lx_varDefsSep (v1 :: v2 :: vs)]

theorem fc_varDefs : (vs : List VarDef) → ∀ n, sepOpt n = true → sepOpt (firstCharK n (printVarDefs vs)) = true
  | [], n, h => by lx_simp [printVarDefs, h]
  | [v], n, h => by lx_simp [printVarDefs]
  | v1 :: v2 :: vs, n, h => by lx_simp [printVarDefs]

theorem lx_operation (o : OperationDef) : ∀ n, LexableK n (printOperation o) = true := by
  intro n
  rcases hn : o.name with _ | ⟨nm, p⟩ <;>
    lx_simp [printOperation, hn, lx_varDefs o.vars, fc_varDefs o.vars, lx_dirs o.dirs, fc_dirs o.dirs, lx_selSet o.sel]

theorem lx_fragment (f : FragmentDef) : ∀ n, LexableK n (printFragment f) = true := by
  intro n
  lx_simp [printFragment, lx_dirs f.dirs, fc_dirs f.dirs, lx_selSet f.sel]

theorem lx_doc (d : Doc) (h : noImports d = true) : ∀ n, LexableK n (printDoc d) = true := by
  induction d with
  | nil => intro n; lx_simp [printDoc]
  | cons i is ih =>
    intro n
    simp only [noImports, List.all_cons, Bool.and_eq_true] at h
    have hi : ∀ m, LexableK m (printExecDef i) = true := by
      cases i with
      | op o => exact lx_operation o
      | frag f => exact lx_fragment f
      | imp i => simp at h
    lx_simp [printDoc, hi, ih (by simpa [noImports] using h.2)]

/-! ### type-system definitions -/

theorem lx_desc (d : Option String) : ∀ n, LexableK n (printDesc d) = true := by
  intro n
  cases d <;> lx_simp [printDesc]

theorem lx_inputValueDef (v : InputValueDef) : ∀ n, sepOpt n = true → LexableK n (printInputValueDef v) = true := by
  intro n h
  cases hd : v.default <;>
    lx_simp [printInputValueDef, lx_desc, hd, lx_type v.ty, lx_value, lx_dirs v.dirs, fc_dirs v.dirs, h]

theorem lx_argDefsSep (vs : List InputValueDef) : ∀ b n, sepOpt n = true → LexableK n (printArgDefsSep vs b) = true := by
  induction vs with
  | nil => intro b n h; lx_simp [printArgDefsSep]
  | cons v vs ih =>
    intro b n h
    have hfc : sepOpt (firstCharK n (printArgDefsSep vs false)) = true := by
      cases vs with
      | nil => lx_simp [printArgDefsSep, h]
      | cons w ws => lx_simp [printArgDefsSep, Bool.false_eq_true, if_false]
    cases b <;> lx_simp [printArgDefsSep, Bool.false_eq_true, if_false, if_true, lx_inputValueDef v, ih, hfc, h]

theorem lx_argDefs : (vs : List InputValueDef) → ∀ n, LexableK n (printArgDefs vs) = true
  | [], n => by lx_simp [printArgDefs]
  | v :: vs, n => by lx_simp [printArgDefs, lx_argDefsSep (v :: vs)]

theorem fc_argDefs : (vs : List InputValueDef) → ∀ n, sepOpt n = true → sepOpt (firstCharK n (printArgDefs vs)) = true
  | [], n, h => by lx_simp [printArgDefs, h]
  | v :: vs, n, h => by lx_simp [printArgDefs]

theorem lx_fieldDef (f : FieldDef) : ∀ n, sepOpt n = true → LexableK n (printFieldDef f) = true := by
  intro n h
  lx_simp [printFieldDef, lx_desc, lx_argDefs f.args, fc_argDefs f.args, lx_type f.ty, lx_dirs f.dirs, fc_dirs f.dirs, h]

theorem lx_enumValueDef (v : EnumValueDef) : ∀ n, sepOpt n = true → LexableK n (printEnumValueDef v) = true := by
  intro n h
  lx_simp [printEnumValueDef, lx_desc, lx_dirs v.dirs, fc_dirs v.dirs, h]

theorem lx_fieldLinesTs (fs : List FieldDef) : ∀ n, LexableK n (printFieldLinesTs fs) = true := by
  induction fs with
  | nil => intro n; lx_simp [printFieldLinesTs]
  | cons f fs ih => intro n; lx_simp [printFieldLinesTs, lx_fieldDef f, ih]

theorem lx_enumValueLines (fs : List EnumValueDef) : ∀ n, LexableK n (printEnumValueLines fs) = true := by
  induction fs with
  | nil => intro n; lx_simp [printEnumValueLines]
  | cons f fs ih => intro n; lx_simp [printEnumValueLines, lx_enumValueDef f, ih]

theorem lx_inputLines (fs : List InputValueDef) : ∀ n, LexableK n (printInputLines fs) = true := by
  induction fs with
  | nil => intro n; lx_simp [printInputLines]
  | cons f fs ih => intro n; lx_simp [printInputLines, lx_inputValueDef f, ih]

theorem lx_braced (body : List Tok) (e : Bool) (hb : ∀ n, LexableK n body = true) :
    ∀ n, LexableK n (braced body e) = true := by
  intro n
  cases e <;> lx_simp [braced, Bool.false_eq_true, if_false, if_true, hb]

theorem fc_braced (body : List Tok) (e : Bool) : ∀ n, sepOpt n = true → sepOpt (firstCharK n (braced body e)) = true := by
  intro n h
  cases e <;> lx_simp [braced, Bool.false_eq_true, if_false, if_true, h]

theorem lx_sepList (s : String) (hs : ∀ n B, LexableK n (Tok.p s :: B) = LexableK n B) (l : List (Name × Pos)) :
    ∀ n, sepOpt n = true → LexableK n (l.flatMap fun x => [sp, Tok.p s, sp, Tok.name x.1]) = true := by
  induction l with
  | nil => intro n h; simp [LexableK]
  | cons x xs ih =>
    intro n h
    have hfc : sepOpt (firstCharK n (xs.flatMap fun x => [sp, Tok.p s, sp, Tok.name x.1])) = true := by
      cases xs with
      | nil => exact h
      | cons y ys => simp only [List.flatMap_cons]; lx_simp []
    simp only [List.flatMap_cons]
    lx_simp [hs, ih, hfc, h]

theorem fc_sepList (s : String) (l : List (Name × Pos)) :
    ∀ n, sepOpt n = true → sepOpt (firstCharK n (l.flatMap fun x => [sp, Tok.p s, sp, Tok.name x.1])) = true := by
  intro n h
  cases l with
  | nil => exact h
  | cons y ys => simp only [List.flatMap_cons]; lx_simp []

theorem lx_implements (l : List (Name × Pos)) : ∀ n, sepOpt n = true → LexableK n (printImplements l) = true := by
  intro n h
  cases l with
  | nil => lx_simp [printImplements]
  | cons x xs =>
    have h1 := lx_sepList "&" lxs_amp (x :: xs)
    have h2 := fc_sepList "&" (x :: xs)
    simp only [printImplements]
    lx_simp [h1, h2, h]

theorem fc_implements (l : List (Name × Pos)) : ∀ n, sepOpt n = true → sepOpt (firstCharK n (printImplements l)) = true := by
  intro n h
  cases l with
  | nil => lx_simp [printImplements, h]
  | cons x xs => simp only [printImplements]; lx_simp []

theorem lx_members (l : List (Name × Pos)) : ∀ n, sepOpt n = true → LexableK n (printMembers l) = true :=
  lx_sepList "|" lxs_bar l

theorem fc_members (l : List (Name × Pos)) : ∀ n, sepOpt n = true → sepOpt (firstCharK n (printMembers l)) = true :=
  fc_sepList "|" l

theorem lx_locations (l : List Name) : ∀ n, sepOpt n = true → LexableK n (printLocations l) = true := by
  induction l with
  | nil => intro n h; simp [printLocations, LexableK]
  | cons x xs ih =>
    intro n h
    have hfc : sepOpt (firstCharK n (printLocations xs)) = true := by
      cases xs with
      | nil => exact h
      | cons y ys => simp only [printLocations, List.flatMap_cons]; lx_simp []
    simp only [printLocations, List.flatMap_cons] at ih hfc ⊢
    lx_simp [ih, hfc, h]

theorem fc_locations (l : List Name) : ∀ n, sepOpt n = true → sepOpt (firstCharK n (printLocations l)) = true := by
  intro n h
  cases l with
  | nil => exact h
  | cons y ys => simp only [printLocations, List.flatMap_cons]; lx_simp []

theorem lx_typeBody (t : TypeDef) (ext : Bool) : ∀ n, LexableK n (printTypeBody t ext) = true := by
  intro n
  unfold printTypeBody
  cases t.kind
  · lx_simp [lx_dirs t.dirs]
  · lx_simp [lx_implements t.implements, lx_dirs t.dirs, fc_dirs t.dirs, fc_braced,
      lx_braced _ _ (lx_fieldLinesTs t.fields)]
  · lx_simp [lx_implements t.implements, lx_dirs t.dirs, fc_dirs t.dirs, fc_braced,
      lx_braced _ _ (lx_fieldLinesTs t.fields)]
  · lx_simp [lx_dirs t.dirs, lx_members t.members]
  · lx_simp [lx_dirs t.dirs, fc_braced, lx_braced _ _ (lx_enumValueLines t.values)]
  · lx_simp [lx_dirs t.dirs, fc_braced, lx_braced _ _ (lx_inputLines t.inputs)]

theorem fc_typeBody (t : TypeDef) (ext : Bool) : ∀ n, sepOpt (firstCharK n (printTypeBody t ext)) = true := by
  intro n
  unfold printTypeBody
  cases t.kind
  · lx_simp [fc_dirs t.dirs]
  · lx_simp [fc_implements t.implements, fc_dirs t.dirs, fc_braced]
  · lx_simp [fc_implements t.implements, fc_dirs t.dirs, fc_braced]
  · lx_simp [fc_dirs t.dirs]
  · lx_simp [fc_dirs t.dirs, fc_braced]
  · lx_simp [fc_dirs t.dirs, fc_braced]

theorem lx_typeDef (t : TypeDef) : ∀ n, LexableK n (printTypeDef t) = true := by
  intro n
  lx_simp [printTypeDef, lx_desc, lx_typeBody t false, fc_typeBody t false]

theorem lx_typeExt (t : TypeDef) : ∀ n, LexableK n (printTypeExt t) = true := by
  intro n
  lx_simp [printTypeExt, lx_typeBody t true, fc_typeBody t true]

theorem lx_roots (rs : List (OpKind × Name × Pos)) : ∀ n, LexableK n (printRoots rs) = true := by
  induction rs with
  | nil => intro n; lx_simp [printRoots]
  | cons r rs ih =>
    intro n
    obtain ⟨k, nm, p⟩ := r
    lx_simp [printRoots, ih]

theorem lx_schemaDef (s : SchemaDef) : ∀ n, LexableK n (printSchemaDef s) = true := by
  intro n
  lx_simp [printSchemaDef, lx_desc, lx_dirsTight s.dirs, lx_roots s.roots]

theorem lx_schemaExt (s : SchemaDef) : ∀ n, LexableK n (printSchemaExt s) = true := by
  intro n
  cases hr : s.roots.isEmpty <;>
    lx_simp [printSchemaExt, hr, Bool.false_eq_true, if_false, if_true, lx_dirsTight s.dirs, lx_roots s.roots]

theorem lx_directiveDef (d : DirectiveDef) : ∀ n, LexableK n (printDirectiveDef d) = true := by
  intro n
  cases hr : d.repeatable <;>
    lx_simp [printDirectiveDef, lx_desc, hr, Bool.false_eq_true, if_false, if_true, lx_argDefs d.args, fc_argDefs d.args,
      lx_locations d.locations, fc_locations d.locations]

theorem lx_tsItem (i : TsItem) : ∀ n, LexableK n (printTsItem i) = true := by
  cases i with
  | schemaDef s => exact lx_schemaDef s
  | typeDef t => exact lx_typeDef t
  | directiveDef d => exact lx_directiveDef d
  | schemaExt s => exact lx_schemaExt s
  | typeExt t => exact lx_typeExt t

theorem lx_tsDoc (d : TsDoc) : ∀ n, LexableK n (printTsDoc d) = true := by
  induction d with
  | nil => intro n; lx_simp [printTsDoc]
  | cons i is ih => intro n; lx_simp [printTsDoc, lx_tsItem i, ih]

theorem lx_tsExtDoc (d : TsDoc) : ∀ n, LexableK n (printTsExtDoc d) = true := by
  induction d with
  | nil => intro n; lx_simp [printTsExtDoc]
  | cons i is ih => intro n; lx_simp [printTsExtDoc, lx_tsItem i, ih]

end NitroVerif.C16
