/-
C01/C02 refinement: the invariant `RelTree` that ties a selection tree to a SET of selection sets (the sub-selections that
were merged into it), and the hypotheses of the refinement theorem.

  `PU c Sb o inc t`      the occurrence `t` is collected (for an object of type `o`, keeping a selection iff `inc dirs`)
                         from one of the selection sets of `Sb`
  `RelTree c T ty Sb`    `T` has the wrappers of `ty`; at the object position: for every possible object type and every
                         assignment σ there is a branch of that type whose recorded assignment agrees with σ, and every
                         branch whose assignment agrees with σ lists, per response key, what `PU c Sb o (included σ)`
                         collects: `empty` iff nothing, the typename leaf / the leaf of the declared type / an object field
                         whose tree is related to the set of the sub-selections collected under that key.
The relation is order-free and closed under the merge of trees (Lemmas/OpTypesRefMerge.lean).
-/
import NitroVerif.Lemmas.OpTypesRefSpec
import NitroVerif.Lemmas.OpTypesRefDeep
import NitroVerif.Lemmas.OpTypesDen
namespace NitroVerif.OpTypes.Ref
open NitroVerif.Gql NitroVerif.Ts NitroVerif.Exec

/-- a set of selection sets -/
abbrev SSet := List Selection → Prop

def allInc : Inc := fun _ => true

/-- collected from one of the selection sets of `Sb` -/
def PU (c : Ctx) (Sb : SSet) (o : Name) (inc : Inc) (t : FT) : Prop :=
  ∃ s, Sb s ∧ InFlat c.S c.F o inc [] s t

/-- the sub-selections of the occurrences collected under response key `k` -/
def SubSet (c : Ctx) (Sb : SSet) (o : Name) (inc : Inc) (k : Name) : SSet :=
  fun s => ∃ t, PU c Sb o inc t ∧ t.key = k ∧ t.sub = some s

/-- σ agrees with every entry of the recorded assignment -/
def Agree (σ : Sigma) (vars : List (Name × Bool)) : Prop :=
  ∀ p ∈ vars, σ p.1 = p.2


mutual
def RelTree (c : Ctx) : SelTree → GType → SSet → Prop
  | .nonNull T, ty, Sb => match ty with
    | .nonNull ty' => RelTree c T ty' Sb
    | _ => False
  | .list T, ty, Sb => match ty with
    | .list ty' _ => RelTree c T ty' Sb
    | _ => False
  | .object bs, ty, Sb => match ty with
    | .named n _ =>
      c.S.isComposite n = true ∧
      (∀ o ∈ c.S.possibleTypes n, ∀ σ : Sigma, ∃ b ∈ bs, b.typeName = o ∧ Agree σ b.vars) ∧
      RelBranches c bs n Sb
    | _ => False
def RelBranches (c : Ctx) : List Branch → Name → SSet → Prop
  | [], _, _ => True
  | b :: bs, n, Sb => RelBranch c b n Sb ∧ RelBranches c bs n Sb
def RelBranch (c : Ctx) : Branch → Name → SSet → Prop
  | .mk tn vars un al, n, Sb =>
    tn ∈ c.S.possibleTypes n ∧ (∃ td, c.S.typeDef? tn = some td ∧ td.kind = .object) ∧
    Agree (sigmaOf vars) vars ∧ (un.map SField.name).Nodup ∧ (al.map SField.name).Nodup ∧ (∀ f ∈ al, ∀ g ∈ un, g.name ≠ f.name) ∧
    ∀ σ : Sigma, Agree σ vars →
      RelFields c tn σ Sb false un ∧ RelFields c tn σ Sb true al ∧
      ∀ t, PU c Sb tn (included σ) t → ∃ f ∈ (if t.aliased = true then al else un), f.name = t.key ∧ f.isEmpty = false
def RelFields (c : Ctx) (tn : Name) (σ : Sigma) (Sb : SSet) (tag : Bool) : List SField → Prop
  | [] => True
  | f :: fs => RelField c tn σ Sb tag f ∧ RelFields c tn σ Sb tag fs
def RelField (c : Ctx) (tn : Name) (σ : Sigma) (Sb : SSet) (tag : Bool) : SField → Prop
  | .empty k => (∃ t, PU c Sb tn allInc t ∧ t.key = k ∧ t.aliased = tag) ∧ ∀ t, PU c Sb tn (included σ) t → t.key ≠ k
  | .leaf k ty isTn => ∃ t, PU c Sb tn (included σ) t ∧ t.key = k ∧ t.aliased = tag ∧
      if (t.name == "__typename") = true then isTn = true
      else isTn = false ∧ t.sub = none ∧ ∃ fd, c.S.field? tn t.name = some fd ∧ fd.ty = ty
  | .object k T => ∃ t fd, PU c Sb tn (included σ) t ∧ t.key = k ∧ t.aliased = tag ∧ t.sub.isSome = true ∧
      (t.name == "__typename") = false ∧ c.S.field? tn t.name = some fd ∧
      RelTree c T fd.ty (SubSet c Sb tn (included σ) k)
end

theorem relBranches_mem {c : Ctx} {n : Name} {Sb : SSet} : ∀ {bs : List Branch}, RelBranches c bs n Sb →
    ∀ b ∈ bs, RelBranch c b n Sb
  | [], _, _, hb => by cases hb
  | b0 :: bs, h, b, hb => by
    simp only [RelBranches] at h
    rcases List.mem_cons.1 hb with rfl | hb
    · exact h.1
    · exact relBranches_mem h.2 b hb

theorem relBranches_of_mem {c : Ctx} {n : Name} {Sb : SSet} : ∀ {bs : List Branch},
    (∀ b ∈ bs, RelBranch c b n Sb) → RelBranches c bs n Sb
  | [], _ => by simp [RelBranches]
  | b0 :: bs, h => by
    simp only [RelBranches]
    exact ⟨h b0 (by simp), relBranches_of_mem (fun b hb => h b (List.mem_cons_of_mem _ hb))⟩

theorem relFields_mem {c : Ctx} {tn : Name} {σ : Sigma} {Sb : SSet} {tag : Bool} : ∀ {fs : List SField},
    RelFields c tn σ Sb tag fs → ∀ f ∈ fs, RelField c tn σ Sb tag f
  | [], _, _, hf => by cases hf
  | f0 :: fs, h, f, hf => by
    simp only [RelFields] at h
    rcases List.mem_cons.1 hf with rfl | hf
    · exact h.1
    · exact relFields_mem h.2 f hf

theorem relFields_of_mem {c : Ctx} {tn : Name} {σ : Sigma} {Sb : SSet} {tag : Bool} : ∀ {fs : List SField},
    (∀ f ∈ fs, RelField c tn σ Sb tag f) → RelFields c tn σ Sb tag fs
  | [], _ => by simp [RelFields]
  | f0 :: fs, h => by
    simp only [RelFields]
    exact ⟨h f0 (by simp), relFields_of_mem (fun f hf => h f (List.mem_cons_of_mem _ hf))⟩

/-! ### `RelTree` depends on the set of selection sets only through what is collected from it -/

def PEquiv (c : Ctx) (Sb Sb' : SSet) : Prop := ∀ o inc t, PU c Sb o inc t ↔ PU c Sb' o inc t

theorem subSet_equiv {c : Ctx} {Sb Sb' : SSet} (h : PEquiv c Sb Sb') (o : Name) (inc : Inc) (k : Name) :
    PEquiv c (SubSet c Sb o inc k) (SubSet c Sb' o inc k) := by
  intro o' inc' t'
  simp only [PU, SubSet]
  constructor
  · rintro ⟨s, ⟨t, ht, hk, hs⟩, hin⟩; exact ⟨s, ⟨t, (h o inc t).1 ht, hk, hs⟩, hin⟩
  · rintro ⟨s, ⟨t, ht, hk, hs⟩, hin⟩; exact ⟨s, ⟨t, (h o inc t).2 ht, hk, hs⟩, hin⟩

mutual
theorem relTree_congr {c : Ctx} : ∀ (T : SelTree) (ty : GType) (Sb Sb' : SSet), PEquiv c Sb Sb' →
    RelTree c T ty Sb → RelTree c T ty Sb'
  | .nonNull T, ty, Sb, Sb', he, h => by
    cases ty <;> simp only [RelTree] at h ⊢
    exact relTree_congr T _ Sb Sb' he h
  | .list T, ty, Sb, Sb', he, h => by
    cases ty <;> simp only [RelTree] at h ⊢
    exact relTree_congr T _ Sb Sb' he h
  | .object bs, ty, Sb, Sb', he, h => by
    cases ty <;> simp only [RelTree] at h ⊢
    exact ⟨h.1, h.2.1, relBranches_congr bs _ Sb Sb' he h.2.2⟩
theorem relBranches_congr {c : Ctx} : ∀ (bs : List Branch) (n : Name) (Sb Sb' : SSet), PEquiv c Sb Sb' →
    RelBranches c bs n Sb → RelBranches c bs n Sb'
  | [], _, _, _, _, _ => by simp [RelBranches]
  | b :: bs, n, Sb, Sb', he, h => by
    simp only [RelBranches] at h ⊢
    exact ⟨relBranch_congr b n Sb Sb' he h.1, relBranches_congr bs n Sb Sb' he h.2⟩
theorem relBranch_congr {c : Ctx} : ∀ (b : Branch) (n : Name) (Sb Sb' : SSet), PEquiv c Sb Sb' →
    RelBranch c b n Sb → RelBranch c b n Sb'
  | .mk tn vars un al, n, Sb, Sb', he, h => by
    simp only [RelBranch] at h ⊢
    obtain ⟨h1, h2, h2', h3, h4, h5, h6⟩ := h
    refine ⟨h1, h2, h2', h3, h4, h5, fun σ hσ => ?_⟩
    obtain ⟨hu, ha, hc⟩ := h6 σ hσ
    exact ⟨relFields_congr tn σ false un Sb Sb' he hu, relFields_congr tn σ true al Sb Sb' he ha,
      fun t ht => hc t ((he _ _ _).2 ht)⟩
theorem relFields_congr {c : Ctx} (tn : Name) (σ : Sigma) (tag : Bool) : ∀ (fs : List SField) (Sb Sb' : SSet),
    PEquiv c Sb Sb' → RelFields c tn σ Sb tag fs → RelFields c tn σ Sb' tag fs
  | [], _, _, _, _ => by simp [RelFields]
  | f :: fs, Sb, Sb', he, h => by
    simp only [RelFields] at h ⊢
    exact ⟨relField_congr tn σ tag f Sb Sb' he h.1, relFields_congr tn σ tag fs Sb Sb' he h.2⟩
theorem relField_congr {c : Ctx} (tn : Name) (σ : Sigma) (tag : Bool) : ∀ (f : SField) (Sb Sb' : SSet),
    PEquiv c Sb Sb' → RelField c tn σ Sb tag f → RelField c tn σ Sb' tag f
  | .empty k, Sb, Sb', he, h => by
    simp only [RelField] at h ⊢
    obtain ⟨⟨t0, h0, h1⟩, h⟩ := h
    exact ⟨⟨t0, (he _ _ _).1 h0, h1⟩, fun t ht => h t ((he _ _ _).2 ht)⟩
  | .leaf k ty b, Sb, Sb', he, h => by
    simp only [RelField] at h ⊢
    obtain ⟨t, ht, hr⟩ := h
    exact ⟨t, (he _ _ _).1 ht, hr⟩
  | .object k T, Sb, Sb', he, h => by
    simp only [RelField] at h ⊢
    obtain ⟨t, fd, ht, h1, h2, h3, h4, h5, h6⟩ := h
    exact ⟨t, fd, (he _ _ _).1 ht, h1, h2, h3, h4, h5,
      relTree_congr T fd.ty _ _ (subSet_equiv he tn _ k) h6⟩
end

/-! ### nesting depth of a tree -/

mutual
def tdepth : SelTree → Nat
  | .nonNull t => tdepth t
  | .list t => tdepth t
  | .object bs => bsdepth bs + 1
def bsdepth : List Branch → Nat
  | [] => 0
  | b :: bs => max (bdepth b) (bsdepth bs)
def bdepth : Branch → Nat
  | .mk _ _ un al => max (fsdepth un) (fsdepth al)
def fsdepth : List SField → Nat
  | [] => 0
  | f :: fs => max (fdepth f) (fsdepth fs)
def fdepth : SField → Nat
  | .object _ t => tdepth t
  | _ => 0
end

theorem bsdepth_mem : ∀ {bs : List Branch} {b : Branch}, b ∈ bs → bdepth b ≤ bsdepth bs
  | b0 :: bs, b, h => by
    simp only [bsdepth]
    rcases List.mem_cons.1 h with rfl | h
    · omega
    · have := bsdepth_mem h; omega

theorem fsdepth_mem : ∀ {fs : List SField} {f : SField}, f ∈ fs → fdepth f ≤ fsdepth fs
  | f0 :: fs, f, h => by
    simp only [fsdepth]
    rcases List.mem_cons.1 h with rfl | h
    · omega
    · have := fsdepth_mem h; omega

/-! ### hypotheses of the refinement theorem -/

mutual
/-- hereditary absence of repeated keys in records (a JSON value that came out of a parser) -/
def JWf : J → Prop
  | .arr xs => JWfList xs
  | .obj kvs => (kvs.map (·.1)).Nodup ∧ JWfFields kvs
  | _ => True
def JWfList : List J → Prop
  | [] => True
  | x :: xs => JWf x ∧ JWfList xs
def JWfFields : List (String × J) → Prop
  | [] => True
  | (_, x) :: r => JWf x ∧ JWfFields r
end

theorem jWfList_mem : ∀ {xs : List J}, JWfList xs → ∀ x ∈ xs, JWf x
  | [], _, _, h => by cases h
  | x0 :: xs, hw, x, h => by
    simp only [JWfList] at hw
    rcases List.mem_cons.1 h with rfl | h
    · exact hw.1
    · exact jWfList_mem hw.2 x h

theorem jWfFields_mem : ∀ {kvs : List (String × J)}, JWfFields kvs → ∀ kv ∈ kvs, JWf kv.2
  | [], _, _, h => by cases h
  | (k0, x0) :: r, hw, kv, h => by
    simp only [JWfFields] at hw
    rcases List.mem_cons.1 h with rfl | h
    · exact hw.1
    · exact jWfFields_mem hw.2 kv h

theorem jget_mem {kvs : List (String × J)} {k : String} (h : J.get kvs k ≠ .absent) : (k, J.get kvs k) ∈ kvs := by
  unfold J.get at h ⊢
  cases hf : kvs.find? (·.1 == k) with
  | none => simp [hf] at h
  | some kv =>
    obtain ⟨k', x⟩ := kv
    have hm := List.mem_of_find?_eq_some hf
    have hk := List.find?_some hf
    simp only [beq_iff_eq] at hk
    subst hk
    exact hm

theorem jget_wf {kvs : List (String × J)} (hw : JWf (.obj kvs)) (k : String) : JWf (J.get kvs k) := by
  by_cases h : J.get kvs k = .absent
  · rw [h]; simp [JWf]
  · simp only [JWf] at hw
    exact jWfFields_mem hw.2 _ (jget_mem h)

/-- with distinct keys, `J.get` returns the value of every listed pair -/
theorem jget_of_mem : ∀ {kvs : List (String × J)}, (kvs.map (·.1)).Nodup → ∀ kv ∈ kvs, J.get kvs kv.1 = kv.2
  | [], _, _, h => by cases h
  | (k0, x0) :: r, hn, kv, h => by
    simp only [List.map_cons, List.nodup_cons] at hn
    rcases List.mem_cons.1 h with rfl | h
    · simp [J.get]
    · have hne : k0 ≠ kv.1 := by
        intro heq; exact hn.1 (heq ▸ List.mem_map_of_mem h)
      have ih := jget_of_mem hn.2 kv h
      simp only [J.get, List.find?_cons] at ih ⊢
      have : (k0 == kv.1) = false := by simpa using hne
      simp only [this]
      exact ih

/-- every occurrence collected when nothing is skipped -/
theorem inFlat_inc_mono {S : Schema} {F : Name → Option FragmentDef} {o : Name} {inc inc' : Inc}
    (hi : ∀ ds, inc ds = true → inc' ds = true) {V : List Name} {ss : List Selection} {t : FT}
    (h : InFlat S F o inc V ss t) : InFlat S F o inc' V ss t := by
  induction h with
  | field h1 => exact .field (hi _ h1)
  | inline h1 hc _ ih => exact .inline (hi _ h1) hc ih
  | spread h1 hv hf ha _ ih => exact .spread (hi _ h1) hv hf ha ih
  | tail _ ih => exact .tail ih

theorem pu_all {c : Ctx} {Sb : SSet} {o : Name} {inc : Inc} {t : FT} (h : PU c Sb o inc t) : PU c Sb o allInc t := by
  obtain ⟨s, hs, hin⟩ := h
  exact ⟨s, hs, inFlat_inc_mono (fun _ _ => rfl) hin⟩

/-- an occurrence is in the aliased group iff its response key differs from its field name -/
theorem inFlat_aliased {S : Schema} {F : Name → Option FragmentDef} {o : Name} {inc : Inc} {V : List Name}
    {ss : List Selection} {t : FT} (h : InFlat S F o inc V ss t) : t.aliased = (t.key != t.name) := by
  induction h with
  | @field alias name p args ds sub rest h1 =>
    cases alias with
    | none => simp [isAliased, keyOf]
    | some a => obtain ⟨a1, a2⟩ := a; simp [isAliased, keyOf]
  | inline _ _ _ ih => exact ih
  | spread _ _ _ _ _ ih => exact ih
  | tail _ ih => exact ih

/-- an unaliased occurrence has its field name as response key -/
theorem inFlat_key {S : Schema} {F : Name → Option FragmentDef} {o : Name} {inc : Inc} {V : List Name}
    {ss : List Selection} {t : FT} (h : InFlat S F o inc V ss t) : t.aliased = false → t.key = t.name := by
  intro ha
  rw [inFlat_aliased h] at ha
  simpa using ha

/-- a declared leaf type (scalar or enum) -/
def isLeafType (S : Schema) (n : Name) : Bool :=
  match S.kindOf? n with
  | some .scalar | some .enum => true
  | _ => false

theorem isLeaf_not_composite {S : Schema} {n : Name} (h : isLeafType S n = true) : S.isComposite n = false := by
  unfold isLeafType at h
  unfold Schema.isComposite
  cases hk : S.kindOf? n with
  | none => rfl
  | some k => cases k <;> simp_all

/-- local coherence of what is collected for an object of type `o` (when nothing is skipped): occurrences with the same
    response key agree on field name / having a sub-selection (consequence of FieldsInSetCanMerge), and a field without
    sub-selection has a leaf type (Leaf Field Selections) -/
def CohAt (c : Ctx) (Sb : SSet) (o : Name) : Prop :=
  (∀ t t', PU c Sb o allInc t → PU c Sb o allInc t' → t.key = t'.key →
    t.name = t'.name ∧ t.sub.isSome = t'.sub.isSome) ∧
  (∀ t fd, PU c Sb o allInc t → (t.name == "__typename") = false → c.S.field? o t.name = some fd → t.sub = none →
    isLeafType c.S fd.ty.unwrapped = true)

/-- coherence down to nesting depth `d` below the named type `n` -/
def Coh (c : Ctx) : Nat → SSet → Name → Prop
  | 0, _, _ => True
  | d + 1, Sb, n => ∀ o ∈ c.S.possibleTypes n, CohAt c Sb o ∧
      ∀ t fd, PU c Sb o allInc t → c.S.field? o t.name = some fd →
        Coh c d (SubSet c Sb o allInc t.key) fd.ty.unwrapped

/-- occurrences with the same response key are in the same alias group (since dda35cd the group is determined by
    response key and field name) -/
theorem cohAt_full {c : Ctx} {Sb : SSet} {o : Name} (h : CohAt c Sb o) (t t' : FT) (ht : PU c Sb o allInc t)
    (ht' : PU c Sb o allInc t') (hk : t.key = t'.key) :
    t.aliased = t'.aliased ∧ t.name = t'.name ∧ t.sub.isSome = t'.sub.isSome := by
  obtain ⟨hn, hs⟩ := h.1 t t' ht ht' hk
  obtain ⟨_, _, h1⟩ := ht
  obtain ⟨_, _, h2⟩ := ht'
  exact ⟨by rw [inFlat_aliased h1, inFlat_aliased h2, hk, hn], hn, hs⟩

theorem cohAt_congr {c : Ctx} {Sb Sb' : SSet} (he : PEquiv c Sb Sb') {o : Name} (h : CohAt c Sb o) : CohAt c Sb' o :=
  ⟨fun t t' ht ht' => h.1 t t' ((he _ _ _).2 ht) ((he _ _ _).2 ht'),
   fun t fd ht => h.2 t fd ((he _ _ _).2 ht)⟩

theorem coh_congr {c : Ctx} : ∀ (d : Nat) (Sb Sb' : SSet) (n : Name), PEquiv c Sb Sb' → Coh c d Sb n → Coh c d Sb' n
  | 0, _, _, _, _, _ => by simp [Coh]
  | d + 1, Sb, Sb', n, he, h => by
    simp only [Coh] at h ⊢
    intro o ho
    obtain ⟨h1, h2⟩ := h o ho
    refine ⟨cohAt_congr he h1, fun t fd ht hfd => ?_⟩
    exact coh_congr d _ _ _ (subSet_equiv he o allInc t.key) (h2 t fd ((he _ _ _).2 ht) hfd)

theorem coh_mono {c : Ctx} : ∀ (d d' : Nat), d' ≤ d → ∀ (Sb : SSet) (n : Name), Coh c d Sb n → Coh c d' Sb n
  | _, 0, _, _, _, _ => by simp [Coh]
  | 0, d' + 1, h, _, _, _ => by omega
  | d + 1, d' + 1, hd, Sb, n, h => by
    simp only [Coh] at h ⊢
    intro o ho
    obtain ⟨h1, h2⟩ := h o ho
    exact ⟨h1, fun t fd ht hfd => coh_mono d d' (by omega) _ _ (h2 t fd ht hfd)⟩

/-- a smaller set of selection sets is coherent if a bigger one is -/
theorem coh_subset {c : Ctx} : ∀ (d : Nat) (Sb Sb' : SSet) (n : Name), (∀ s, Sb' s → Sb s) → Coh c d Sb n → Coh c d Sb' n
  | 0, _, _, _, _, _ => by simp [Coh]
  | d + 1, Sb, Sb', n, hs, h => by
    simp only [Coh] at h ⊢
    have hp : ∀ o inc t, PU c Sb' o inc t → PU c Sb o inc t := by
      rintro o inc t ⟨s, h1, h2⟩; exact ⟨s, hs s h1, h2⟩
    intro o ho
    obtain ⟨h1, h2⟩ := h o ho
    refine ⟨⟨fun t t' ht ht' => h1.1 t t' (hp _ _ _ ht) (hp _ _ _ ht'), fun t fd ht => h1.2 t fd (hp _ _ _ ht)⟩,
      fun t fd ht hfd => ?_⟩
    refine coh_subset d _ _ _ ?_ (h2 t fd (hp _ _ _ ht) hfd)
    rintro s ⟨t', ht', hk, hsub⟩
    exact ⟨t', hp _ _ _ ht', hk, hsub⟩

/-- what the theorem assumes about the schema, the schema declaration file and the scalar values -/
structure Hyp (c : Ctx) (e : Env) (r : Refs) (orig : Name → Option (List Field)) : Prop where
  envOk : EnvOk e r orig
  /-- the declaration of every object type declares `__typename` and exactly the fields of the type -/
  origObj : ∀ tn td, c.S.typeDef? tn = some td → td.kind = .object →
    ∃ ofs, orig tn = some ofs ∧ ∀ k, ofs.any (·.1 == k) = true ↔ (k = "__typename" ∨ (c.S.field? tn k).isSome = true)
  /-- the declaration of a leaf type admits exactly the leaf's values (C09/C10's subject) -/
  leaf : ∀ n v, isLeafType c.S n = true → (Mem e v (r.out n) ↔ leafOk c n v = true)
  /-- `null` is not a value of a leaf type (no scalar is mapped to `unknown`/`any`/`null`) -/
  leafNotNull : ∀ n, leafOk c n .null = false
  /-- every composite type has a possible runtime object type -/
  inhabited : ∀ n, c.S.isComposite n = true → c.S.possibleTypes n ≠ []

end NitroVerif.OpTypes.Ref
