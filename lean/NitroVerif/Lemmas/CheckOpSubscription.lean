import NitroVerif.Lemmas.CheckOpValues4
/-! 5.2.3.1: the root keys the reference validator collects (`CollectFields`) are among those the checker's
`selection_set_has_more_than_one_fields` collects — on an accepted document the two walks follow the same top-level
spreads with the same fuel and stack, and the main walk's quietness keeps the fuel positive. -/
namespace NitroVerif.CheckOp
open NitroVerif.Gql NitroVerif.CheckCommon NitroVerif.Valid

/-- a response key collected at the top level of `ss`, through inline fragments and fragment spreads -/
inductive FlatKey (D : Doc) : List Selection → Name → Prop
  | here {ss : List Selection} {key : Name} : key ∈ keysFlat ss → FlatKey D ss key
  | through {ss : List Selection} {n key : Name} {f : FragmentDef} :
      n ∈ spreadsFlat ss → fragMap D n = some f → FlatKey D f.sel key → FlatKey D ss key

/-- structural facts about the checker's key collection, by size induction -/
theorem rootKeys_flat (H : KeysHandler) (seen : List Name) : ∀ (k : Nat) (ss : List Selection), Selection.sizeList ss ≤ k →
    (∀ key ∈ keysFlat ss, key ∈ rootKeys H seen ss) ∧
    (∀ n ∈ spreadsFlat ss, ∀ key ∈ H seen n, key ∈ rootKeys H seen ss) := by
  intro k
  induction k with
  | zero =>
    intro ss hsz
    cases ss with
    | nil => simp [keysFlat, spreadsFlat]
    | cons s ss => have := Selection.one_le_size s; simp [Selection.sizeList] at hsz; omega
  | succ k ih =>
    intro ss
    induction ss with
    | nil => intro _; simp [keysFlat, spreadsFlat]
    | cons s ss ihs =>
      intro hsz
      have hs1 := Selection.one_le_size s
      simp only [Selection.sizeList] at hsz
      obtain ⟨b1, b2⟩ := ihs (by omega)
      have hsel : (∀ key ∈ keysFlatSel s, key ∈ rootKeysSel H seen s) ∧
          (∀ n ∈ spreadsFlatSel s, ∀ key ∈ H seen n, key ∈ rootKeysSel H seen s) := by
        cases s with
        | field al name namePos args dirs sel =>
          cases al with
          | none => simp [keysFlatSel, rootKeysSel, spreadsFlatSel]
          | some a => obtain ⟨a, ap⟩ := a; simp [keysFlatSel, rootKeysSel, spreadsFlatSel]
        | spread name namePos dirs pos =>
          simp only [keysFlatSel, rootKeysSel, spreadsFlatSel, List.mem_singleton]
          exact ⟨(by intro key h; cases h), (by intro n hn key hk; subst hn; exact hk)⟩
        | inline cond dirs ss' pos =>
          have hss : Selection.sizeList ss' ≤ k := by simp [Selection.size] at hsz; omega
          simpa only [keysFlatSel, rootKeysSel, spreadsFlatSel] using ih ss' hss
      refine ⟨?_, ?_⟩
      · intro key hk
        simp only [keysFlat, List.mem_append] at hk
        simp only [rootKeys, List.mem_append]
        rcases hk with hk | hk
        · exact Or.inl (hsel.1 key hk)
        · exact Or.inr (b1 key hk)
      · intro n hn key hk
        simp only [spreadsFlat, List.mem_append] at hn
        simp only [rootKeys, List.mem_append]
        rcases hn with hn | hn
        · exact Or.inl (hsel.2 n hn key hk)
        · exact Or.inr (b2 n hn key hk)

/-- a top-level spread is a spread selection of the selection set or of an inline fragment nested in it, and it is
    visited by the walk with the SAME stack and handler (inline fragments do not change them) -/
theorem flat_spread_visited {S : Schema} {A : ErrKind → Bool} (hA : Admissible A)
    {H : SpreadHandler} {seen : List Name} {vars : Option (List VarDef)} (n : Name) :
    ∀ (k : Nat) (ss : List Selection), Selection.sizeList ss ≤ k → n ∈ spreadsFlat ss →
      ∀ (root : TypeDef) (fields : List FieldDef), directFields root = some fields →
        Quiet A (checkSelections S H seen vars root fields ss) →
        ∃ root' fields' np pos, directFields root' = some fields' ∧ Quiet A (H seen vars root' n np pos) := by
  intro k
  induction k with
  | zero =>
    intro ss hsz hn
    cases ss with
    | nil => simp [spreadsFlat] at hn
    | cons s ss => have := Selection.one_le_size s; simp [Selection.sizeList] at hsz; omega
  | succ k ih =>
    intro ss
    induction ss with
    | nil => intro _ hn; simp [spreadsFlat] at hn
    | cons s ss ihs =>
      intro hsz hn root fields hf hq
      have hs1 := Selection.one_le_size s
      simp only [Selection.sizeList] at hsz
      simp only [checkSelections] at hq
      rw [quiet_append] at hq
      simp only [spreadsFlat, List.mem_append] at hn
      rcases hn with hn | hn
      · cases s with
        | field => simp [spreadsFlatSel] at hn
        | spread name namePos dirs pos =>
          simp only [spreadsFlatSel, List.mem_singleton] at hn
          subst hn
          have h1 := hq.1
          simp only [checkSelection] at h1
          rw [quiet_append] at h1
          exact ⟨root, fields, namePos, pos, hf, h1.2⟩
        | inline cond dirs ss' pos =>
          have hss : Selection.sizeList ss' ≤ k := by simp [Selection.size] at hsz; omega
          have hn' : n ∈ spreadsFlat ss' := by simpa only [spreadsFlatSel] using hn
          have h1 := hq.1
          simp only [checkSelection] at h1
          rw [quiet_append] at h1
          cases cond with
          | none => exact ih ss' hss hn' root fields hf h1.2
          | some cc =>
            obtain ⟨c, cp⟩ := cc
            have h2 := h1.2
            simp only at h2
            cases hct : S.typeDef? c with
            | none =>
              simp only [hct] at h2
              have hk := hA _ (by decide : ErrKind.UnknownType ≠ ErrKind.UnknownVariable)
              rw [quiet_single, hk] at h2; cases h2
            | some ct =>
              simp only [hct, spreadApplicability_go hf, if_true] at h2
              rw [quiet_append] at h2
              cases hdf : directFields ct with
              | none =>
                have h3 := h2.2
                simp only [hdf] at h3
                have hk := hA _ (by decide : ErrKind.SelectionOnInvalidType ≠ ErrKind.UnknownVariable)
                rw [quiet_single, hk] at h3; cases h3
              | some cfields =>
                have h3 := h2.2
                simp only [hdf] at h3
                exact ih ss' hss hn' ct cfields hdf h3
      · exact ihs (by omega) hn root fields hf hq.2

/-- **Key lemma.** On a quietly walked selection set the checker's key collection, run with the same fuel and
    stack as the walk, contains every key the specification's `CollectFields` collects. -/
theorem flatKey_collected {S : Schema} {D : Doc} {A : ErrKind → Bool} (hA : Admissible A) (hC : CondsDefined S D)
    {vars : Option (List VarDef)} {ss : List Selection} {key : Name} (hk : FlatKey D ss key) :
    ∀ (k : Nat) (seen : List Name) (root : TypeDef) (fields : List FieldDef), directFields root = some fields →
      Quiet A (checkSelections S (spreadHandler S D k) seen vars root fields ss) →
      key ∈ rootKeys (keysHandler D k) seen ss := by
  induction hk with
  | here h => intro k seen root fields _ _; exact (rootKeys_flat _ _ _ _ (Nat.le_refl _)).1 _ h
  | @through ss n key f hn hm _ ih =>
    intro k seen root fields hf hq
    obtain ⟨root', fields', np, pos, hf', hq'⟩ := flat_spread_visited hA n _ ss (Nat.le_refl _) hn root fields hf hq
    obtain ⟨k', f', hk', hseen, hm', _, hrest⟩ := handler_quiet hA hf' hq'
    rw [hm] at hm'; cases hm'
    obtain ⟨ct, hct⟩ := hC f (fragMap_mem hm).1
    have hw := (hrest ct hct).2
    unfold checkSelectionSet at hw
    cases hdf : directFields ct with
    | none =>
      simp only [hdf] at hw
      have hkk := hA _ (by decide : ErrKind.SelectionOnInvalidType ≠ ErrKind.UnknownVariable)
      rw [quiet_single, hkk] at hw; cases hw
    | some cfields =>
      simp only [hdf] at hw
      have hin := ih k' (seen ++ [n]) ct cfields hdf hw
      have hH : key ∈ keysHandler D k seen n := by
        rw [hk']
        simp only [keysHandler, hseen, Bool.false_eq_true, if_false, hm]
        exact hin
      exact (rootKeys_flat _ _ _ _ (Nat.le_refl _)).2 n hn key hH

/-- fragments reached from the top level of a selection set -/
inductive FlatReach (D : Doc) (ss0 : List Selection) : Name → Prop
  | base {n : Name} : n ∈ spreadsFlat ss0 → FlatReach D ss0 n
  | step {m n : Name} {g : FragmentDef} : FlatReach D ss0 m → fragMap D m = some g → n ∈ spreadsFlat g.sel →
      FlatReach D ss0 n

theorem flatKey_of_reach {D : Doc} {ss : List Selection} {n : Name} (hr : FlatReach D ss n) :
    ∀ (f : FragmentDef) (key : Name), fragMap D n = some f → FlatKey D f.sel key → FlatKey D ss key := by
  induction hr with
  | base hn => intro f key hm hk; exact FlatKey.through hn hm hk
  | step _ hg hn ih => intro f key hm hk; exact ih _ key hg (FlatKey.through hn hm hk)

theorem reachableFlat_sound {D : Doc} (hnd : nodupB (fragNamesOf D) = true) {ss : List Selection} {n : Name}
    (h : n ∈ Valid.reachableFlat D ss) : FlatReach D ss n := by
  have key : ∀ (k : Nat) (acc : List Name), (∀ x ∈ acc, FlatReach D ss x) →
      ∀ x ∈ Valid.closure (fun n => match Valid.frag? D n with | some f => spreadsFlat f.sel | none => []) k acc,
        FlatReach D ss x := by
    intro k
    induction k with
    | zero => intro acc hacc x hx; exact hacc x hx
    | succ k ih =>
      intro acc hacc x hx
      simp only [Valid.closure] at hx
      refine ih _ ?_ x hx
      intro y hy
      have hy' := mem_dedup hy
      rcases List.mem_append.mp hy' with hy' | hy'
      · exact hacc y hy'
      · obtain ⟨m, hm, hym⟩ := List.mem_flatMap.mp hy'
        rw [frag?_eq_fragMap hnd] at hym
        cases hg : fragMap D m with
        | none => simp [hg] at hym
        | some g =>
          simp only [hg] at hym
          exact FlatReach.step (hacc m hm) hg hym
  refine key _ _ ?_ n h
  intro x hx
  exact FlatReach.base (mem_dedup hx)

theorem rootKeys_flatKey {D : Doc} (hnd : nodupB (fragNamesOf D) = true) {ss : List Selection} {key : Name}
    (h : key ∈ Valid.rootKeys D ss) : FlatKey D ss key := by
  have h' := mem_dedup h
  rcases List.mem_append.mp h' with h' | h'
  · exact FlatKey.here h'
  · obtain ⟨n, hn, hk⟩ := List.mem_flatMap.mp h'
    rw [frag?_eq_fragMap hnd] at hk
    cases hg : fragMap D n with
    | none => simp [hg] at hk
    | some g =>
      simp only [hg] at hk
      exact flatKey_of_reach (reachableFlat_sound hnd hn) g key hg (FlatKey.here hk)

/-! ### lengths of de-duplicated lists -/

theorem mem_foldl_dedup_of {x : Name} : ∀ (xs acc : List Name), (x ∈ acc ∨ x ∈ xs) →
    x ∈ xs.foldl (fun acc x => if acc.contains x then acc else acc ++ [x]) acc := by
  intro xs
  induction xs with
  | nil => intro acc h; rcases h with h | h; exact h; cases h
  | cons y ys ih =>
    intro acc h
    simp only [List.foldl_cons]
    apply ih
    rcases h with h | h
    · left; split; exact h; exact List.mem_append_left _ h
    · rcases List.mem_cons.mp h with rfl | h
      · left
        split
        · rename_i hc; simpa using hc
        · simp
      · right; exact h

theorem foldl_dedup_const {a : Name} : ∀ (xs acc : List Name), (∀ x ∈ xs, x = a) → (∀ x ∈ acc, x = a) → acc.length ≤ 1 →
    (xs.foldl (fun acc x => if acc.contains x then acc else acc ++ [x]) acc).length ≤ 1 := by
  intro xs
  induction xs with
  | nil => intro acc _ _ h; exact h
  | cons y ys ih =>
    intro acc hxs hacc hlen
    simp only [List.foldl_cons]
    have hy : y = a := hxs y (by simp)
    apply ih _ (fun x hx => hxs x (List.mem_cons_of_mem _ hx))
    · intro x hx
      split at hx
      · exact hacc x hx
      · rcases List.mem_append.mp hx with hx | hx
        · exact hacc x hx
        · simp at hx; rw [hx, hy]
    · split
      · exact hlen
      · rename_i hc
        cases acc with
        | nil => simp
        | cons z zs =>
          exfalso
          have hz : z = a := hacc z (by simp)
          apply hc
          simp [hz, hy]

theorem two_le_length_of_ne {x y : Name} {l : List Name} (hx : x ∈ l) (hy : y ∈ l) (hne : x ≠ y) : 2 ≤ l.length := by
  cases l with
  | nil => cases hx
  | cons a l =>
    cases l with
    | nil => simp at hx hy; exact absurd (hx.trans hy.symm) hne
    | cons b l => simp

/-- if the de-duplicated `M` has at most one element and every element of `L` is in `M`, the de-duplicated `L` has
    at most one element -/
theorem dedup_le_one_of_subset {L M : List Name} (hsub : ∀ x ∈ L, x ∈ M) (hM : (dedupNames M).length ≤ 1) :
    (Valid.dedup L).length ≤ 1 := by
  cases L with
  | nil => simp [Valid.dedup]
  | cons a L' =>
    have hall : ∀ x ∈ a :: L', x = a := by
      intro x hx
      cases hc : decide (x = a) with
      | true => exact of_decide_eq_true hc
      | false =>
        exfalso
        have hne : x ≠ a := of_decide_eq_false hc
        have h1 : x ∈ dedupNames M := mem_foldl_dedup_of M [] (Or.inr (hsub x hx))
        have h2 : a ∈ dedupNames M := mem_foldl_dedup_of M [] (Or.inr (hsub a (by simp)))
        have := two_le_length_of_ne h1 h2 hne
        omega
    exact foldl_dedup_const (a :: L') [] hall (by intro x hx; cases hx) (by simp)

end NitroVerif.CheckOp
