/-
`parse_no_panic`, the walk through the builders (helper lemmas for Props/C08), part 2: selection sets, executable
definitions and `build_operation_document` (builder/selection_set.rs, builder/operation.rs, builder.rs).
-/
import NitroVerif.Lemmas.ParseQuiet
namespace NitroVerif.Shape
open NitroVerif.Peg NitroVerif.Gen NitroVerif.Gen.Parts NitroVerif.Build NitroVerif.ParseText

/-! ### acceptance of the sites, evaluated by the kernel over the generated grammar and patterns -/

theorem acc_SelectionSet : accepts (.allChildren AC_SelectionSet) (ruleShape gList R.SelectionSet) = true := by decide +kernel
theorem acc_Selection : accepts (.onlyChild OC_Selection) (ruleShape gList R.Selection) = true := by decide +kernel
theorem acc_Field : accepts (.parts P_Field) (ruleShape gList R.Field) = true := by decide +kernel
theorem acc_Alias : accepts (.onlyChild OC_Alias) (ruleShape gList R.Alias) = true := by decide +kernel
theorem acc_FragmentSpread : accepts (.parts P_FragmentSpread) (ruleShape gList R.FragmentSpread) = true := by decide +kernel
theorem acc_InlineFragment : accepts (.parts P_InlineFragment) (ruleShape gList R.InlineFragment) = true := by decide +kernel
theorem acc_TypeCondition : accepts (.parts P_TypeCondition) (ruleShape gList R.TypeCondition) = true := by decide +kernel
theorem acc_VariablesDefinition :
    accepts (.allChildren AC_VariablesDefinition) (ruleShape gList R.VariablesDefinition) = true := by decide +kernel
theorem acc_VariableDefinition :
    accepts (.parts P_VariableDefinition) (ruleShape gList R.VariableDefinition) = true := by decide +kernel
theorem acc_ExecutableDefinition :
    accepts (.onlyChild OC_ExecutableDefinition) (ruleShape gList R.ExecutableDefinition) = true := by decide +kernel
theorem acc_OperationDefinition :
    accepts (.parts P_OperationDefinition) (ruleShape gList R.OperationDefinition) = true := by decide +kernel
theorem acc_FragmentDefinition :
    accepts (.parts P_FragmentDefinition) (ruleShape gList R.FragmentDefinition) = true := by decide +kernel
theorem acc_ext_ImportStatement :
    accepts (.onlyChild OC_ext_ImportStatement) (ruleShape gList R.ext_ImportStatement) = true := by decide +kernel
theorem acc_ext_ImportStatementContent :
    accepts (.parts P_ext_ImportStatementContent) (ruleShape gList R.ext_ImportStatementContent) = true := by
  decide +kernel

/-! ### selection sets -/

theorem quiet_typeConditionIdent {inp : List Char} {tc : Pair} (hg : Good inp tc) (hr : tc.rule = R.TypeCondition) :
    Quiet (typeConditionIdent (Ctx.spec inp) tc) := by
  obtain ⟨l, hl, hres⟩ := hg.parts (hr ▸ acc_TypeCondition)
  obtain ⟨a, l, rfl, _, _, hres⟩ := resOk_cons_req hres
  obtain ⟨b, l, rfl, _, _, hres⟩ := resOk_cons_req hres
  cases resOk_nil hres
  unfold typeConditionIdent
  rw [hl, ok_bind]
  simp only [get2, ok_bind]
  exact Quiet.ok _

theorem quiet_buildSelectionSet {inp : List Char} : ∀ fuel {p : Pair}, Good inp p → p.rule = R.SelectionSet →
    Quiet (buildSelectionSet (Ctx.spec inp) fuel p) := by
  intro fuel
  induction fuel with
  | zero => intro p _ _; simp only [buildSelectionSet]; exact Quiet.fuel
  | succ fuel ih =>
    intro p hg hr
    obtain ⟨hall, hcs⟩ := hg.all (hr ▸ acc_SelectionSet)
    simp only [buildSelectionSet]
    rw [hall, ok_bind]
    refine Quiet.mapM fun s hs => ?_
    obtain ⟨hsr, hgs⟩ := hcs s hs
    have hsr' : s.rule = R.Selection := hsr
    obtain ⟨c, _, hc, hgc, hoc, _⟩ := hgs.only "Selection" (hsr' ▸ acc_Selection)
    rw [hoc, ok_bind]
    split
    · rename_i h1
      obtain ⟨l, hl, hres⟩ := hgc.parts (h1 ▸ acc_Field)
      obtain ⟨al, l, rfl, hal, hres⟩ := resOk_cons_opt hres
      obtain ⟨name, l, rfl, _, _, hres⟩ := resOk_cons_req hres
      obtain ⟨args, l, rfl, hargs, hres⟩ := resOk_cons_opt hres
      obtain ⟨dirs, l, rfl, hdirs, hres⟩ := resOk_cons_opt hres
      obtain ⟨sel, l, rfl, hsel, hres⟩ := resOk_cons_opt hres
      cases resOk_nil hres
      rw [hl, ok_bind]
      dsimp only
      cases al with
      | none =>
        refine Quiet.bind (Quiet.pure _) fun _ _ => ?_
        refine Quiet.bind (quiet_optArgs fuel hgc hargs) fun _ _ => ?_
        refine Quiet.bind (quiet_optDirs fuel hgc hdirs) fun _ _ => ?_
        cases sel with
        | none => exact Quiet.bind (Quiet.pure _) fun _ _ => Quiet.ok _
        | some ss => exact Quiet.bind (ih (hgc.child (hsel ss rfl).2) (hsel ss rfl).1) fun _ _ => Quiet.bind (Quiet.pure _) fun _ _ => Quiet.ok _
      | some a =>
        obtain ⟨har, ham⟩ := hal a rfl
        obtain ⟨n, _, _, _, hon, _⟩ := (hgc.child ham).only "Alias" (har ▸ acc_Alias)
        dsimp only
        rw [hon, ok_bind]
        refine Quiet.bind (Quiet.pure _) fun _ _ => ?_
        refine Quiet.bind (quiet_optArgs fuel hgc hargs) fun _ _ => ?_
        refine Quiet.bind (quiet_optDirs fuel hgc hdirs) fun _ _ => ?_
        cases sel with
        | none => exact Quiet.bind (Quiet.pure _) fun _ _ => Quiet.ok _
        | some ss => exact Quiet.bind (ih (hgc.child (hsel ss rfl).2) (hsel ss rfl).1) fun _ _ => Quiet.bind (Quiet.pure _) fun _ _ => Quiet.ok _
    · split
      · rename_i h1 h2
        obtain ⟨l, hl, hres⟩ := hgc.parts (h2 ▸ acc_FragmentSpread)
        obtain ⟨name, l, rfl, _, _, hres⟩ := resOk_cons_req hres
        obtain ⟨dirs, l, rfl, hdirs, hres⟩ := resOk_cons_opt hres
        cases resOk_nil hres
        rw [hl, ok_bind]
        exact Quiet.bind (quiet_optDirs fuel hgc hdirs) fun _ _ => Quiet.ok _
      · split
        · rename_i h1 h2 h3
          obtain ⟨l, hl, hres⟩ := hgc.parts (h3 ▸ acc_InlineFragment)
          obtain ⟨tc, l, rfl, htc, hres⟩ := resOk_cons_opt hres
          obtain ⟨dirs, l, rfl, hdirs, hres⟩ := resOk_cons_opt hres
          obtain ⟨ss, l, rfl, hssr, hssm, hres⟩ := resOk_cons_req hres
          cases resOk_nil hres
          rw [hl, ok_bind]
          dsimp only
          cases tc with
          | none =>
            refine Quiet.bind (Quiet.pure _) fun _ _ => ?_
            refine Quiet.bind (quiet_optDirs fuel hgc hdirs) fun _ _ => ?_
            exact Quiet.bind (ih (hgc.child hssm) hssr) fun _ _ => Quiet.ok _
          | some t =>
            obtain ⟨htr, htm⟩ := htc t rfl
            refine Quiet.bind (quiet_typeConditionIdent (hgc.child htm) htr) fun _ _ => ?_
            refine Quiet.bind (Quiet.pure _) fun _ _ => ?_
            refine Quiet.bind (quiet_optDirs fuel hgc hdirs) fun _ _ => ?_
            exact Quiet.bind (ih (hgc.child hssm) hssr) fun _ _ => Quiet.ok _
        · rename_i h1 h2 h3
          rcases hc with h | h
          · simp [OC_Selection] at h
          · simp [OC_Selection, h1, h2, h3] at h

/-! ### executable definitions -/

theorem quiet_buildVariableDefinition {inp : List Char} (fuel : Nat) {p : Pair} (hg : Good inp p)
    (hr : p.rule = R.VariableDefinition) : Quiet (buildVariableDefinition (Ctx.spec inp) fuel p) := by
  obtain ⟨l, hl, hres⟩ := hg.parts (hr ▸ acc_VariableDefinition)
  obtain ⟨v, l, rfl, hvr, hvm, hres⟩ := resOk_cons_req hres
  obtain ⟨ty, l, rfl, htr, htm, hres⟩ := resOk_cons_req hres
  obtain ⟨dv, l, rfl, hdv, hres⟩ := resOk_cons_opt hres
  obtain ⟨dirs, l, rfl, hdirs, hres⟩ := resOk_cons_opt hres
  cases resOk_nil hres
  unfold buildVariableDefinition
  rw [hl, ok_bind]
  refine Quiet.bind (quiet_buildVariable (hg.child hvm) hvr) fun _ _ => ?_
  refine Quiet.bind (quiet_buildType fuel (hg.child htm) htr) fun _ _ => ?_
  refine Quiet.bind (quiet_optDefault fuel hg hdv) fun _ _ => ?_
  exact Quiet.bind (quiet_optDirs fuel hg hdirs) fun _ _ => Quiet.ok _

theorem quiet_buildVariablesDefinition {inp : List Char} (fuel : Nat) {p : Pair} (hg : Good inp p)
    (hr : p.rule = R.VariablesDefinition) : Quiet (buildVariablesDefinition (Ctx.spec inp) fuel p) := by
  obtain ⟨hall, hcs⟩ := hg.all (hr ▸ acc_VariablesDefinition)
  unfold buildVariablesDefinition
  rw [hall, ok_bind]
  exact Quiet.mapM fun v hv => quiet_buildVariableDefinition fuel (hcs v hv).2 (hcs v hv).1

theorem quiet_buildExecutableDefinition {inp : List Char} (fuel : Nat) {p : Pair} (hg : Good inp p)
    (hr : p.rule = R.ExecutableDefinition) : Quiet (buildExecutableDefinition (Ctx.spec inp) fuel p) := by
  obtain ⟨c, _, hc, hgc, hoc, _⟩ := hg.only "ExecutableDefinition" (hr ▸ acc_ExecutableDefinition)
  unfold buildExecutableDefinition
  rw [hoc, ok_bind]
  split
  · rename_i h1
    obtain ⟨l, hl, hres⟩ := hgc.parts (h1 ▸ acc_OperationDefinition)
    obtain ⟨opTy, l, rfl, hop, hres⟩ := resOk_cons_opt hres
    obtain ⟨name, l, rfl, _, hres⟩ := resOk_cons_opt hres
    obtain ⟨vars, l, rfl, hvars, hres⟩ := resOk_cons_opt hres
    obtain ⟨dirs, l, rfl, hdirs, hres⟩ := resOk_cons_opt hres
    obtain ⟨ss, l, rfl, hssr, hssm, hres⟩ := resOk_cons_req hres
    cases resOk_nil hres
    rw [hl, ok_bind]
    dsimp only
    have tail : ∀ vs : List Gql.VarDef, ∀ k : Gql.OpKind, Quiet (do
        let dirs ← optDirs (Ctx.spec inp) fuel dirs
        let sel ← buildSelectionSet (Ctx.spec inp) fuel ss
        Except.ok (Gql.ExecDef.op
          { kind := k, name := Option.map (ident (Ctx.spec inp)) name, vars := vs, dirs := dirs, sel := sel,
            pos := toPos (Ctx.spec inp) c })) := fun vs k =>
      Quiet.bind (quiet_optDirs fuel hgc hdirs) fun _ _ =>
        Quiet.bind (quiet_buildSelectionSet fuel (hgc.child hssm) hssr) fun _ _ => Quiet.ok _
    have tail2 : ∀ k : Gql.OpKind, Quiet (match vars with
        | some v => do
          let vars ← buildVariablesDefinition (Ctx.spec inp) fuel v
          let dirs ← optDirs (Ctx.spec inp) fuel dirs
          let sel ← buildSelectionSet (Ctx.spec inp) fuel ss
          Except.ok (Gql.ExecDef.op
            { kind := k, name := Option.map (ident (Ctx.spec inp)) name, vars := vars, dirs := dirs, sel := sel,
              pos := toPos (Ctx.spec inp) c })
        | none => do
          let vars ← pure []
          let dirs ← optDirs (Ctx.spec inp) fuel dirs
          let sel ← buildSelectionSet (Ctx.spec inp) fuel ss
          Except.ok (Gql.ExecDef.op
            { kind := k, name := Option.map (ident (Ctx.spec inp)) name, vars := vars, dirs := dirs, sel := sel,
              pos := toPos (Ctx.spec inp) c })) := by
      intro k
      cases vars with
      | none => exact Quiet.bind (Quiet.pure _) fun _ _ => tail _ k
      | some v =>
        obtain ⟨hvr, hvm⟩ := hvars v rfl
        exact Quiet.bind (quiet_buildVariablesDefinition fuel (hgc.child hvm) hvr) fun _ _ => tail _ k
    cases opTy with
    | none => exact Quiet.bind (Quiet.pure _) fun _ _ => tail2 _
    | some t =>
      obtain ⟨htr, htm⟩ := hop t rfl
      exact Quiet.bind (Quiet.of_ex (operationType_ok (hgc.child htm).wit htr)) fun _ _ => tail2 _
  · split
    · rename_i h1 h2
      obtain ⟨l, hl, hres⟩ := hgc.parts (h2 ▸ acc_FragmentDefinition)
      obtain ⟨kw, l, rfl, _, _, hres⟩ := resOk_cons_req hres
      obtain ⟨name, l, rfl, _, _, hres⟩ := resOk_cons_req hres
      obtain ⟨tc, l, rfl, htr, htm, hres⟩ := resOk_cons_req hres
      obtain ⟨dirs, l, rfl, hdirs, hres⟩ := resOk_cons_opt hres
      obtain ⟨ss, l, rfl, hssr, hssm, hres⟩ := resOk_cons_req hres
      cases resOk_nil hres
      rw [hl, ok_bind]
      refine Quiet.bind (quiet_typeConditionIdent (hgc.child htm) htr) fun ⟨_, _⟩ _ => ?_
      refine Quiet.bind (quiet_optDirs fuel hgc hdirs) fun _ _ => ?_
      exact Quiet.bind (quiet_buildSelectionSet fuel (hgc.child hssm) hssr) fun _ _ => Quiet.ok _
    · split
      · rename_i h1 h2 h3
        obtain ⟨inner, _, hin, hgin, _, hoin⟩ := hgc.only "ext_ImportStatement" (h3 ▸ acc_ext_ImportStatement)
        have hinr : inner.rule = R.ext_ImportStatementContent := by
          rcases hin with h | h
          · simp [OC_ext_ImportStatement] at h
          · simpa [OC_ext_ImportStatement] using h
        obtain ⟨l, hl, hres⟩ := hgin.parts (hinr ▸ acc_ext_ImportStatementContent)
        obtain ⟨kw, l, rfl, _, _, hres⟩ := resOk_cons_req hres
        obtain ⟨targets, l, rfl, _, _, hres⟩ := resOk_cons_req hres
        obtain ⟨kf, l, rfl, _, _, hres⟩ := resOk_cons_req hres
        obtain ⟨path, l, rfl, hpr, hpm, hres⟩ := resOk_cons_req hres
        cases resOk_nil hres
        rw [hoin, ok_bind, hl, ok_bind]
        exact Quiet.bind (quiet_buildStringValue (hgin.child hpm) hpr) fun ⟨_, _⟩ _ => Quiet.ok _
      · rename_i h1 h2 h3
        rcases hc with h | h
        · simp [OC_ExecutableDefinition] at h
        · simp [OC_ExecutableDefinition, h1, h2, h3] at h

/-- `build_operation_document` on the result of a parse with start rule `ExecutableDocument` -/
theorem quiet_buildOperationDocument {inp : List Char} (fuel : Nat) {p : Pair} (hg : Good inp p)
    (hr : p.rule = R.ExecutableDocument) : Quiet (buildOperationDocument (Ctx.spec inp) fuel [p]) := by
  simp only [buildOperationDocument, hr, if_true]
  refine Quiet.mapM fun d hd => ?_
  obtain ⟨hdm, hdr⟩ := List.mem_filter.mp hd
  exact quiet_buildExecutableDefinition fuel (hg.child hdm) (by simpa using hdr)

end NitroVerif.Shape
