/-
Helper lemmas for C17 (concrete part 4): reordering the definitions INSIDE an executable document. The operation
checker model reads the document — apart from visiting each definition once — only through the fragment map
(by name, last wins), the number of fragments and of operations, the SET of fragments reachable from operations, and
(duplicate-name rule) the names of the definitions before the current one.
Core Lean only.
-/
import NitroVerif.Lemmas.DeterminismConcreteOp
namespace NitroVerif.Determinism
open NitroVerif.Gql NitroVerif.CheckCommon NitroVerif.CheckOp

/-- everything `defBody S D` reads of the document `D` -/
structure SameDoc (D D' : Doc) : Prop where
  frag : ∀ n, fragMap D n = fragMap D' n
  nfrags : (fragsOf D).length = (fragsOf D').length
  nops : (opsOf D).length = (opsOf D').length
  used : ∀ n, n ∈ usedFragments D ↔ n ∈ usedFragments D'

section doc
variable {S : Schema} {D D' : Doc}

theorem spreadHandler_doc_congr (h : ∀ n, fragMap D n = fragMap D' n) (fuel : Nat) :
    spreadHandler S D fuel = spreadHandler S D' fuel := by
  induction fuel with
  | zero => rfl
  | succ n ih => simp only [spreadHandler, ih, h]

theorem keysHandler_doc_congr (h : ∀ n, fragMap D n = fragMap D' n) (fuel : Nat) :
    keysHandler D fuel = keysHandler D' fuel := by
  induction fuel with
  | zero => rfl
  | succ n ih => simp only [keysHandler, ih, h]

theorem fuelFor_doc_congr (h : SameDoc D D') : fuelFor D = fuelFor D' := by
  unfold fuelFor
  rw [h.nfrags]

theorem hasMoreThanOneField_doc_congr (h : SameDoc D D') (ss : List Selection) :
    hasMoreThanOneField D ss = hasMoreThanOneField D' ss := by
  unfold hasMoreThanOneField
  rw [fuelFor_doc_congr h, keysHandler_doc_congr h.frag]

theorem checkOperation_doc_congr (h : SameDoc D D') (op : OperationDef) :
    checkOperation S D op = checkOperation S D' op := by
  unfold checkOperation
  simp only [hasMoreThanOneField_doc_congr h, fuelFor_doc_congr h, spreadHandler_doc_congr h.frag]

theorem checkFragmentDefinition_doc_congr (h : SameDoc D D') (used : Bool) (f : FragmentDef) :
    checkFragmentDefinition S D used f = checkFragmentDefinition S D' used f := by
  unfold checkFragmentDefinition
  simp only [fuelFor_doc_congr h, spreadHandler_doc_congr h.frag]

theorem contains_eq_of_mem_iff {l l' : List Name} (h : ∀ n, n ∈ l ↔ n ∈ l') (n : Name) :
    l.contains n = l'.contains n := by
  rw [Bool.eq_iff_iff, List.contains_iff_mem, List.contains_iff_mem]
  exact h n

theorem defBody_doc_congr (h : SameDoc D D') (d : ExecDef) : defBody S D d = defBody S D' d := by
  cases d with
  | op o => simp only [defBody, checkOperation_doc_congr h]
  | frag f => simp only [defBody, checkFragmentDefinition_doc_congr h, contains_eq_of_mem_iff h.used]
  | imp _ => rfl

end doc

/-! ### the set of used fragments -/

theorem mem_dedupNames' (xs : List Name) (x : Name) : x ∈ dedupNames xs ↔ x ∈ xs := by
  unfold dedupNames
  rw [foldl_dedup_mem (fun n : Name => n)]
  simp

theorem mem_usedStep (D : Doc) (acc : List Name) (x : Name) :
    x ∈ usedStep D acc ↔ x ∈ acc ∨ ∃ n ∈ acc, x ∈ (match fragMap D n with | some f => spreadNames f.sel | none => []) := by
  unfold usedStep
  rw [mem_dedupNames', List.mem_append, List.mem_flatMap]
  exact Iff.rfl

theorem usedStep_set_congr {D D' : Doc} (h : ∀ n, fragMap D n = fragMap D' n) {a a' : List Name}
    (ha : ∀ x, x ∈ a ↔ x ∈ a') (x : Name) : x ∈ usedStep D a ↔ x ∈ usedStep D' a' := by
  rw [mem_usedStep, mem_usedStep]
  simp only [h, ha]

theorem usedIter_set_congr {D D' : Doc} (h : ∀ n, fragMap D n = fragMap D' n) (fuel : Nat) {a a' : List Name}
    (ha : ∀ x, x ∈ a ↔ x ∈ a') (x : Name) : x ∈ usedIter D fuel a ↔ x ∈ usedIter D' fuel a' := by
  induction fuel generalizing a a' with
  | zero => exact ha x
  | succ n ih => exact ih (usedStep_set_congr h ha)

/-! ### permutations of a document -/

theorem fragsOf_perm {D D' : Doc} (h : D.Perm D') : (fragsOf D).Perm (fragsOf D') := h.filterMap _
theorem opsOf_perm {D D' : Doc} (h : D.Perm D') : (opsOf D).Perm (opsOf D') := h.filterMap _

/-- the fragment definitions of the document have pairwise distinct names -/
def NoDupFragNames (D : Doc) : Prop := ((fragsOf D).map (·.name)).Nodup

/-- name of a named operation -/
def opName? (o : OperationDef) : Option Name := o.name.map (·.1)

/-- the NAMED operations of the document have pairwise distinct names (any number of anonymous ones) -/
def NoDupOpNames (D : Doc) : Prop := ((opsOf D).filterMap opName?).Nodup

theorem fragMap_perm {D D' : Doc} (h : D.Perm D') (nd : NoDupFragNames D) (n : Name) : fragMap D n = fragMap D' n := by
  unfold fragMap
  refine find?_perm_of_unique _ ?_ ?_
  · exact (List.reverse_perm _).trans ((fragsOf_perm h).trans (List.reverse_perm _).symm)
  · have : ((fragsOf D).reverse.filter fun f => f.name == n).Perm ((fragsOf D).filter fun f => f.name == n) :=
      (List.reverse_perm _).filter _
    rw [this.length_eq]
    exact filter_length_le_one_of_nodup (fun f : FragmentDef => f.name) _ nd n

theorem usedFragments_perm {D D' : Doc} (h : D.Perm D') (nd : NoDupFragNames D) (x : Name) :
    x ∈ usedFragments D ↔ x ∈ usedFragments D' := by
  unfold usedFragments
  rw [(fragsOf_perm h).length_eq]
  apply usedIter_set_congr (fragMap_perm h nd)
  intro y
  rw [mem_dedupNames', mem_dedupNames']
  exact ((opsOf_perm h).flatMap_right _).mem_iff

theorem sameDoc_of_perm {D D' : Doc} (h : D.Perm D') (nd : NoDupFragNames D) : SameDoc D D' :=
  ⟨fragMap_perm h nd, (fragsOf_perm h).length_eq, (opsOf_perm h).length_eq, usedFragments_perm h nd⟩

/-! ### the duplicate-name rule is silent on name-distinct documents -/

theorem fragsOf_append (a b : Doc) : fragsOf (a ++ b) = fragsOf a ++ fragsOf b := by
  simp [fragsOf, List.filterMap_append]
theorem opsOf_append (a b : Doc) : opsOf (a ++ b) = opsOf a ++ opsOf b := by
  simp [opsOf, List.filterMap_append]

theorem any_opHasName_false {earlier : List ExecDef} {n : Name} (hn : n ∉ (opsOf earlier).filterMap opName?) :
    earlier.any (opHasName n) = false := by
  rw [Bool.eq_false_iff]
  intro ht
  rw [List.any_eq_true] at ht
  obtain ⟨d, hd, hp⟩ := ht
  apply hn
  cases d with
  | op o =>
    cases hname : o.name with
    | none => simp [opHasName, hname] at hp
    | some m =>
      obtain ⟨m, mp⟩ := m
      simp only [opHasName, hname, beq_iff_eq] at hp
      rw [List.mem_filterMap]
      exact ⟨o, List.mem_filterMap.mpr ⟨_, hd, rfl⟩, by simp [opName?, hname, hp]⟩
  | frag f => simp [opHasName] at hp
  | imp i => simp [opHasName] at hp

theorem any_fragHasName_false {earlier : List ExecDef} {n : Name} (hn : n ∉ (fragsOf earlier).map (·.name)) :
    earlier.any (fragHasName n) = false := by
  rw [Bool.eq_false_iff]
  intro ht
  rw [List.any_eq_true] at ht
  obtain ⟨d, hd, hp⟩ := ht
  apply hn
  cases d with
  | op o => simp [fragHasName] at hp
  | frag f =>
    simp only [fragHasName, beq_iff_eq] at hp
    rw [List.mem_map]
    exact ⟨f, List.mem_filterMap.mpr ⟨_, hd, rfl⟩, hp⟩
  | imp i => simp [fragHasName] at hp

/-- on a name-distinct document the header of a definition does not depend on what came before it -/
theorem defHeader_nil_of_nodup (opNum : Nat) (earlier : List ExecDef) (d : ExecDef) (rest : List ExecDef)
    (ndo : NoDupOpNames (earlier ++ d :: rest)) (ndf : NoDupFragNames (earlier ++ d :: rest)) :
    defHeader opNum earlier d = defHeader opNum [] d := by
  cases d with
  | op o =>
    cases hname : o.name with
    | none => simp only [defHeader, hname]
    | some m =>
      obtain ⟨m, mp⟩ := m
      have hn : m ∉ (opsOf earlier).filterMap opName? := by
        unfold NoDupOpNames at ndo
        rw [opsOf_append, List.filterMap_append, List.nodup_append] at ndo
        intro hm
        refine ndo.2.2 m hm m ?_ rfl
        simp [opsOf, opName?, hname]
      simp only [defHeader, hname, any_opHasName_false hn, List.any_nil]
      rfl
  | frag f =>
    have hn : f.name ∉ (fragsOf earlier).map (·.name) := by
      unfold NoDupFragNames at ndf
      rw [fragsOf_append, List.map_append, List.nodup_append] at ndf
      intro hm
      refine ndf.2.2 f.name hm f.name ?_ rfl
      simp [fragsOf]
    simp only [defHeader, any_fragHasName_false hn, List.any_nil]
    rfl
  | imp _ => rfl

/-- on a name-distinct document the main loop is a `flatMap` of a per-definition function -/
theorem checkDefs_eq_flatMap (S : Schema) (D : Doc) (opNum : Nat) (earlier rest : List ExecDef)
    (ndo : NoDupOpNames (earlier ++ rest)) (ndf : NoDupFragNames (earlier ++ rest)) :
    checkDefs S D opNum earlier rest = rest.flatMap fun d => defHeader opNum [] d ++ defBody S D d := by
  induction rest generalizing earlier with
  | nil => rfl
  | cons d rest ih =>
    simp only [checkDefs, List.flatMap_cons]
    rw [defHeader_nil_of_nodup opNum earlier d rest ndo ndf,
      ih (earlier ++ [d]) (by simpa using ndo) (by simpa using ndf), List.append_assoc]

/-! ### a repeated name always produces a diagnostic -/

theorem any_opHasName_true {earlier : List ExecDef} {n : Name} (hn : n ∈ (opsOf earlier).filterMap opName?) :
    earlier.any (opHasName n) = true := by
  rw [List.mem_filterMap] at hn
  obtain ⟨o, ho, hname⟩ := hn
  rw [List.any_eq_true]
  refine ⟨.op o, ?_, ?_⟩
  · unfold opsOf at ho
    rw [List.mem_filterMap] at ho
    obtain ⟨d, hd, he⟩ := ho
    cases d <;> simp at he
    subst he
    exact hd
  · cases hm : o.name with
    | none => simp [opName?, hm] at hname
    | some m =>
      obtain ⟨m, mp⟩ := m
      simp only [opName?, hm, Option.map_some, Option.some.injEq] at hname
      simp [opHasName, hm, hname]

theorem any_fragHasName_true {earlier : List ExecDef} {n : Name} (hn : n ∈ (fragsOf earlier).map (·.name)) :
    earlier.any (fragHasName n) = true := by
  rw [List.mem_map] at hn
  obtain ⟨f, hf, hname⟩ := hn
  rw [List.any_eq_true]
  refine ⟨.frag f, ?_, ?_⟩
  · unfold fragsOf at hf
    rw [List.mem_filterMap] at hf
    obtain ⟨d, hd, he⟩ := hf
    cases d <;> simp at he
    subst he
    exact hd
  · simp [fragHasName, hname]

theorem checkDefs_ne_nil_of_dup (S : Schema) (D : Doc) (opNum : Nat) (earlier rest : List ExecDef)
    (he : NoDupOpNames earlier ∧ NoDupFragNames earlier)
    (hd : ¬ (NoDupOpNames (earlier ++ rest) ∧ NoDupFragNames (earlier ++ rest))) :
    checkDefs S D opNum earlier rest ≠ [] := by
  induction rest generalizing earlier with
  | nil => simp only [List.append_nil] at hd; exact absurd he hd
  | cons d rest ih =>
    simp only [checkDefs]
    by_cases hnext : NoDupOpNames (earlier ++ [d]) ∧ NoDupFragNames (earlier ++ [d])
    · have := ih (earlier ++ [d]) hnext (by simpa using hd)
      intro hnil
      simp only [List.append_eq_nil_iff] at hnil
      exact this hnil.2
    · intro hnil
      simp only [List.append_eq_nil_iff] at hnil
      apply hnext
      have hhead := hnil.1.1
      unfold NoDupOpNames NoDupFragNames at he hnext ⊢
      cases d with
      | op o =>
        refine ⟨?_, by simpa [fragsOf_append, fragsOf] using he.2⟩
        cases hm : o.name with
        | none => simpa [opsOf_append, opsOf, opName?, hm] using he.1
        | some m =>
          obtain ⟨m, mp⟩ := m
          have hnm : m ∉ (opsOf earlier).filterMap opName? := by
            intro hmem
            simp [defHeader, hm, any_opHasName_true hmem] at hhead
          rw [opsOf_append, List.filterMap_append, List.nodup_append]
          refine ⟨he.1, by simp [opsOf, opName?, hm], ?_⟩
          intro a ha b hb hab
          simp [opsOf, opName?, hm] at hb
          subst hb; subst hab
          exact hnm ha
      | frag f =>
        refine ⟨by simpa [opsOf_append, opsOf] using he.1, ?_⟩
        have hnm : f.name ∉ (fragsOf earlier).map (·.name) := by
          intro hmem
          simp [defHeader, any_fragHasName_true hmem] at hhead
        rw [fragsOf_append, List.map_append, List.nodup_append]
        refine ⟨he.2, by simp [fragsOf], ?_⟩
        intro a ha b hb hab
        simp [fragsOf] at hb
        subst hb; subst hab
        exact hnm ha
      | imp i =>
        exact ⟨by simpa [opsOf_append, opsOf] using he.1, by simpa [fragsOf_append, fragsOf] using he.2⟩

theorem NoDupFragNames.perm {D D' : Doc} (h : D.Perm D') (nd : NoDupFragNames D) : NoDupFragNames D' :=
  ((fragsOf_perm h).map _).nodup_iff.mp nd

theorem NoDupOpNames.perm {D D' : Doc} (h : D.Perm D') (nd : NoDupOpNames D) : NoDupOpNames D' :=
  ((opsOf_perm h).filterMap _).nodup_iff.mp nd

end NitroVerif.Determinism
