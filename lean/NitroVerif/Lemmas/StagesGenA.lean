/-
C08 (stages after parsing), the operation type printer, part A: the schema-side conditions and small facts.

The printer (`get_type_for_selection_set`) types a selection set once per POSSIBLE OBJECT TYPE of the parent, whereas the
checker walks it once, with the static parent type in scope.  To carry the checker's verdict over, the schema has to
satisfy what "IsValidImplementation" of the specification gives (`ifaceOkB`: an object type has every field of the
interfaces it declares, at a type whose possible object types are among those of the interface field's type), and the
directives `@skip` / `@include` the printer interprets have to be the built-in ones as far as their `if` argument goes
(`skipIncludeB`; a schema may shadow them — see `Props/C08Stages.lean` for the witness).

Here: those decidable conditions (and `schemaOkB`, the part of C03's `SchemaValid` that is used), `possibleTypes` facts, monotonicity of `selOkB` / `fitsS` in the
depth bound, `dirsOkB` from a quiet `check_directives`, and `OpTypes.fragsOf = fragMap`.
-/
import NitroVerif.Lemmas.CheckOpCompleteSites
import NitroVerif.Lemmas.OpTypesRefNoPanicE
namespace NitroVerif.Stages
open NitroVerif.Gql NitroVerif.CheckOp NitroVerif.CheckCommon NitroVerif.Valid NitroVerif.OpTypes NitroVerif.OpTypes.Ref
  NitroVerif.Exec

/-! ### the two schema conditions -/

/-- the possible object types of `a` are among those of `b` (and `a` has parent objects), unless `b` is a leaf type -/
def subOkB (S : Schema) (a b : Name) : Bool :=
  a == b || !S.isComposite b || (parentsOkB S a && (S.possibleTypes a).all fun o' => (S.possibleTypes b).contains o')

/-- every object type has every field of each interface it declares, at a type that is covariant in the sense of
    `subOkB` (spec 3.6 `IsValidImplementation`, the part the printer relies on) -/
def ifaceOkB (S : Schema) : Bool :=
  S.typeDefs.all fun od => od.kind != .object || od.implements.all fun i =>
    match S.typeDef? i.1 with
    | none => false
    | some idef => idef.fields.all fun f =>
      match od.fields.find? (·.name == f.name) with
      | none => false
      | some g => subOkB S g.ty.unwrapped f.ty.unwrapped

/-- the definitions of `@skip` and `@include` the schema holds (if any) require an `if` argument -/
def skipIncludeB (S : Schema) : Bool :=
  ["skip", "include"].all fun n => match S.directiveDef? n with
    | none => true
    | some dd => dd.args.any fun a => a.name == "if" && a.ty.isNonNull && a.default.isNone

/-- `o` names a defined object type -/
def IsObj (S : Schema) (o : Name) : Prop := ∃ od, S.typeDef? o = some od ∧ od.kind = .object

/-! ### the schema condition `schemaOkB` (a small part of C03's `SchemaValid`) -/

/-- type names are unique, no type declares a field named `__typename`, and the members of every union are defined
    object types.  Implied by `SchemaValid` (`schemaOk_of_valid`) and established by the schema checker for documents
    with unique type names (`schemaOk_of_accepted`, Lemmas/StagesIface.lean). -/
def schemaOkB (S : Schema) : Bool :=
  nodupB (S.typeDefs.map (·.name)) && noReservedFieldsB S &&
  S.typeDefs.all fun t => t.kind != .union || t.members.all fun m => S.kindOf? m.1 == some .object

theorem nodup_of_nodupB : ∀ {l : List Name}, nodupB l = true → l.Nodup
  | [], _ => List.nodup_nil
  | x :: xs, h => by
    obtain ⟨h1, h2⟩ := (nodupB_cons_iff x xs).mp h
    exact List.nodup_cons.2 ⟨h1, nodup_of_nodupB h2⟩

theorem typeNamesNodup_of_valid {S : Schema} (h : schemaOkB S = true) : TypeNamesNodup S := by
  unfold schemaOkB at h
  simp only [Bool.and_eq_true] at h
  exact nodup_of_nodupB h.1.1

theorem schemaOk_noReserved {S : Schema} (h : schemaOkB S = true) : NoReservedFields S := by
  unfold schemaOkB at h
  simp only [Bool.and_eq_true] at h
  exact h.1.2

theorem schemaOk_members {S : Schema} (h : schemaOkB S = true) {ct : TypeDef} (hm : ct ∈ S.typeDefs)
    (hk : ct.kind = .union) : ∀ m ∈ ct.members, ∃ o, S.typeDef? m.1 = some o ∧ o.kind = .object := by
  unfold schemaOkB at h
  simp only [Bool.and_eq_true] at h
  have h1 := List.all_eq_true.mp h.2 ct hm
  have hb : (TypeKind.union != TypeKind.union) = false := by decide
  simp only [hk, hb, Bool.false_or] at h1
  intro m hmm
  exact kindOf_beq_some (List.all_eq_true.mp h1 m hmm)

theorem schemaOk_of_valid {S : Schema} (h : SchemaValid S) : schemaOkB S = true := by
  have SF := schemaFacts_of_valid h
  unfold schemaOkB
  simp only [Bool.and_eq_true, List.all_eq_true]
  refine ⟨⟨SF.typeND, schemaValid_noReserved h⟩, ?_⟩
  intro t ht
  by_cases hk : t.kind = .union
  · have hb : (TypeKind.union != TypeKind.union) = false := by decide
    simp only [hk, hb, Bool.false_or, List.all_eq_true]
    intro m hm
    obtain ⟨o, ho, hok⟩ := SF.members t ht m hm
    simp only [Schema.kindOf?, ho, Option.map_some, hok]
    decide
  · have : (t.kind != TypeKind.union) = true := by
      cases hkk : t.kind <;> first | rfl | exact absurd hkk hk
    simp [this]

theorem parentsOk_of_composite {S : Schema} (hS : schemaOkB S = true) {n : Name} {ct : TypeDef}
    (hn : S.typeDef? n = some ct) (hc : (CheckOp.directFields ct).isSome = true) : parentsOkB S n = true := by
  unfold parentsOkB parentObjects
  rw [hn]
  cases hk : ct.kind with
  | scalar => simp [CheckOp.directFields, hk] at hc
  | enum => simp [CheckOp.directFields, hk] at hc
  | input => simp [CheckOp.directFields, hk] at hc
  | object => simp [hk]
  | interface => simp [hk]
  | union =>
    simp only [hk]
    split
    · rfl
    · next e heq =>
      exfalso
      refine mapM_ne_error ct.members (fun m hm => ?_) e heq
      obtain ⟨o, ho, hok⟩ := schemaOk_members hS (CheckOp.typeDef?_mem hn) hk m hm
      refine ⟨o, ?_⟩
      simp only [ho, hok]
      rfl

/-- under unique type names, a possible type of a type with parent objects is a defined object type -/
theorem isObj_of_possible {S : Schema} (hnd : TypeNamesNodup S) {n o : Name} (hp : parentsOkB S n = true)
    (ho : o ∈ S.possibleTypes n) : IsObj S o := by
  unfold parentsOkB at hp
  cases hpo : parentObjects S n with
  | error e => simp [hpo] at hp
  | ok objs =>
    obtain ⟨_, h2, h3⟩ := parentObjects_spec hpo
    obtain ⟨od, hod, rfl⟩ := h3 hnd o ho
    exact ⟨od, (h2 od hod).1, (h2 od hod).2.1⟩

/-- a fragment type condition that applies to a defined object type has it among its possible types -/
theorem possible_of_applies {S : Schema} (hnd : TypeNamesNodup S) {o cond : Name} (ho : IsObj S o)
    (h : fragmentTypeApplies S o cond = true) : o ∈ S.possibleTypes cond := by
  obtain ⟨od, hod, hobj⟩ := ho
  unfold fragmentTypeApplies at h
  unfold Schema.possibleTypes
  cases hc : S.typeDef? cond with
  | none => simp [hc] at h
  | some t =>
    simp only [hc] at h ⊢
    cases hk : t.kind with
    | scalar => simp [hk] at h
    | enum => simp [hk] at h
    | input => simp [hk] at h
    | object =>
      simp only [hk] at h
      have : t.name = o := by simpa using h
      simp [this]
    | union =>
      simp only [hk, List.any_eq_true] at h
      obtain ⟨m, hm, hmo⟩ := h
      simp only [List.mem_map]
      exact ⟨m, hm, by simpa using hmo⟩
    | interface =>
      simp only [hk, hod] at h
      simp only [Schema.objectImplementers, List.mem_map, List.mem_filter]
      refine ⟨od, ⟨CheckOp.typeDef?_mem hod, ?_⟩, CheckOp.typeDef?_name hod⟩
      rw [Bool.and_eq_true]
      exact ⟨by rw [hobj]; decide, h⟩

/-- the members of `possibleTypes` for each kind of composite type, read backwards -/
theorem possible_cases {S : Schema} (hnd : TypeNamesNodup S) {ct : TypeDef} (hct : S.typeDef? ct.name = some ct)
    {o : Name} (ho : o ∈ S.possibleTypes ct.name) {od : TypeDef} (hod : S.typeDef? o = some od) :
    (ct.kind = .object ∧ od = ct) ∨ (ct.kind = .interface ∧ od.implements.any (·.1 == ct.name) = true) ∨
    ct.kind = .union := by
  unfold Schema.possibleTypes at ho
  simp only [hct] at ho
  cases hk : ct.kind with
  | scalar => simp [hk] at ho
  | enum => simp [hk] at ho
  | input => simp [hk] at ho
  | union => exact Or.inr (Or.inr rfl)
  | object =>
    simp only [hk, List.mem_singleton] at ho
    subst ho
    rw [hct] at hod
    exact Or.inl ⟨rfl, (Option.some.inj hod).symm⟩
  | interface =>
    simp only [hk, Schema.objectImplementers, List.mem_map, List.mem_filter, Bool.and_eq_true] at ho
    obtain ⟨t, ⟨ht, _, himp⟩, hname⟩ := ho
    have := find_of_nodup hnd t ht
    have hto : S.typeDef? o = some t := by rw [← hname]; exact this
    rw [hto] at hod
    cases hod
    exact Or.inr (Or.inl ⟨rfl, himp⟩)

/-! ### the field of an object type below the static parent type -/

/-- a field the checker found on the static parent type `ct` exists on every possible object type `o` of `ct`, at a
    covariant type -/
theorem field_on_possible {S : Schema} (hS : schemaOkB S = true) (hI : ifaceOkB S = true) {ct : TypeDef}
    (hct : S.typeDef? ct.name = some ct) {cfields : List FieldDef} (hf : CheckOp.directFields ct = some cfields)
    {name : Name} {fd : FieldDef} (hfd : cfields.find? (·.name == name) = some fd) (hnt : name ≠ "__typename")
    {o : Name} (ho : o ∈ S.possibleTypes ct.name) (hobj : IsObj S o) :
    ∃ g, S.field? o name = some g ∧ subOkB S g.ty.unwrapped fd.ty.unwrapped = true := by
  have hnd := typeNamesNodup_of_valid hS
  obtain ⟨od, hod, hok⟩ := hobj
  have hfd' : ct.kind ≠ .union ∧ ct.fields.find? (·.name == name) = some fd := by
    rcases directFields_some hf with ⟨_, rfl⟩ | ⟨_, rfl⟩
    · rw [List.find?_append] at hfd
      cases h1 : ct.fields.find? (·.name == name) with
      | some x =>
        rw [h1] at hfd
        refine ⟨?_, by simpa using hfd⟩
        intro hu
        rcases directFields_some hf with ⟨hk | hk, _⟩ | ⟨_, h2⟩
        · rw [hu] at hk; cases hk
        · rw [hu] at hk; cases hk
        · have : (ct.fields ++ [typenameField]).length = 1 := by rw [h2]; rfl
          have hx := List.mem_of_find?_eq_some h1
          cases hfl : ct.fields with
          | nil => rw [hfl] at hx; cases hx
          | cons a b => rw [hfl] at this; simp at this
      | none =>
        rw [h1] at hfd
        simp only [Option.none_or, List.find?_cons, List.find?_nil] at hfd
        split at hfd
        · next hb =>
          have : "__typename" = name := by simpa [typenameField] using hb
          exact absurd this.symm hnt
        · cases hfd
    · simp only [List.find?_cons, List.find?_nil] at hfd
      split at hfd
      · next hb =>
        have : "__typename" = name := by simpa [typenameField] using hb
        exact absurd this.symm hnt
      · cases hfd
  obtain ⟨hnu, hfind⟩ := hfd'
  rcases possible_cases hnd hct ho hod with ⟨_, rfl⟩ | ⟨hki, himp⟩ | hu
  · refine ⟨fd, ?_, by simp [subOkB]⟩
    unfold Schema.field? Schema.fieldsOf
    rw [hod]; exact hfind
  · simp only [List.any_eq_true] at himp
    obtain ⟨i, hi, hin⟩ := himp
    have hin' : i.1 = ct.name := by simpa using hin
    have h1 := List.all_eq_true.mp hI od (CheckOp.typeDef?_mem hod)
    simp only [hok, bne_self_eq_false, Bool.false_or] at h1
    have h2 := List.all_eq_true.mp h1 i hi
    rw [hin', hct] at h2
    simp only at h2
    have h3 := List.all_eq_true.mp h2 fd (List.mem_of_find?_eq_some hfind)
    have hname : fd.name = name := by simpa using List.find?_some hfind
    cases hg : od.fields.find? (·.name == fd.name) with
    | none => simp [hg] at h3
    | some g =>
      simp only [hg] at h3
      refine ⟨g, ?_, h3⟩
      unfold Schema.field? Schema.fieldsOf
      rw [hod, ← hname]; exact hg
  · exact absurd hu hnu

/-! ### monotonicity in the depth bound -/

theorem selOkB_succ {S : Schema} {F : FragMap} : ∀ (D : Nat) (o : Name) (s : Selection),
    selOkB S F D o s = true → selOkB S F (D + 1) o s = true
  | 0, _, _, h => by simp [selOkB] at h
  | D + 1, o, s, h => by
    have hl : ∀ (o' : Name) (ss : List Selection), ss.all (selOkB S F D o') = true →
        ss.all (selOkB S F (D + 1) o') = true := by
      intro o' ss hs
      rw [List.all_eq_true] at hs ⊢
      exact fun x hx => selOkB_succ D o' x (hs x hx)
    cases s with
    | field a n p args ds sub =>
      simp only [selOkB, Bool.and_eq_true, Bool.or_eq_true] at h ⊢
      refine ⟨h.1, ?_⟩
      rcases h.2 with h2 | h2
      · exact Or.inl h2
      · right
        cases hfd : S.field? o n with
        | none => simp [hfd] at h2
        | some fd =>
          simp only [hfd] at h2 ⊢
          cases sub with
          | none => rfl
          | some ss' =>
            simp only [Bool.and_eq_true, List.all_eq_true] at h2 ⊢
            exact ⟨h2.1, fun o' ho' => List.all_eq_true.mp (hl o' ss' (List.all_eq_true.mpr (h2.2 o' ho')))⟩
    | spread nm np ds p =>
      simp only [selOkB, Bool.and_eq_true] at h ⊢
      refine ⟨h.1, ?_⟩
      cases hF : F nm with
      | none => simp [hF] at h
      | some fd =>
        simp only [hF, Bool.and_eq_true, Bool.or_eq_true] at h ⊢
        refine ⟨h.2.1, ?_⟩
        rcases h.2.2 with h3 | h3
        · exact Or.inl h3
        · exact Or.inr (hl o fd.sel h3)
    | inline cond ds ss' p =>
      simp only [selOkB, Bool.and_eq_true, Bool.or_eq_true] at h ⊢
      refine ⟨h.1, ?_⟩
      rcases h.2 with h3 | h3
      · exact Or.inl h3
      · exact Or.inr (hl o ss' h3)

theorem selOkB_mono {S : Schema} {F : FragMap} {D D' : Nat} (h : D ≤ D') {o : Name} {s : Selection}
    (hs : selOkB S F D o s = true) : selOkB S F D' o s = true := by
  induction h with
  | refl => exact hs
  | step _ ih => exact selOkB_succ _ o s ih

theorem fitsS_mono {F : FragMap} {D D' : Nat} (h : D ≤ D') {s : Selection} (hs : fitsS F D s = true) :
    fitsS F D' s = true := by
  induction h with
  | refl => exact hs
  | step _ ih => exact fitsS_succ _ s ih

/-- a common depth bound for the selections of a list -/
theorem depth_for_list {P : Nat → Selection → Prop} (hmono : ∀ D D' s, D ≤ D' → P D s → P D' s) :
    ∀ (ss : List Selection), (∀ s ∈ ss, ∃ D, P D s) → ∃ D, ∀ s ∈ ss, P D s
  | [], _ => ⟨0, fun s hs => by cases hs⟩
  | x :: xs, h => by
    obtain ⟨D1, h1⟩ := h x (by simp)
    obtain ⟨D2, h2⟩ := depth_for_list hmono xs (fun s hs => h s (List.mem_cons_of_mem _ hs))
    refine ⟨max D1 D2, fun s hs => ?_⟩
    rcases List.mem_cons.mp hs with rfl | hs
    · exact hmono _ _ _ (Nat.le_max_left _ _) h1
    · exact hmono _ _ _ (Nat.le_max_right _ _) (h2 s hs)

/-! ### `@skip` / `@include` carry their `if` argument -/

theorem dirsOk_of_quietAux {S : Schema} (hSI : skipIncludeB S = true) {A : ErrKind → Bool} (hA : Admissible A)
    {vars : Option (List VarDef)} {loc : String} : ∀ (dirs : List Directive) (seen : List Name),
    Quiet A (checkDirectivesAux S vars loc seen dirs) → dirsOkB dirs = true := by
  intro dirs
  induction dirs with
  | nil => intro _ _; rfl
  | cons d ds ih =>
    intro seen h
    simp only [checkDirectivesAux] at h
    cases hdd : S.directiveDef? d.name with
    | none =>
      simp only [hdd] at h
      have := (quiet_cons.mp h).1
      rw [hA _ (by decide)] at this; cases this
    | some dd =>
      simp only [hdd] at h
      rw [quiet_append, quiet_append, quiet_append] at h
      obtain ⟨⟨⟨_, _⟩, hargs⟩, hrest⟩ := h
      have ihd := ih _ hrest
      unfold dirsOkB at ihd ⊢
      simp only [List.all_cons, Bool.and_eq_true]
      refine ⟨?_, ihd⟩
      by_cases hsi : (d.name == "skip" || d.name == "include") = true
      · simp only [hsi, Bool.not_true, Bool.false_or]
        -- the definition requires `if`
        have hdef : dd.args.any (fun a => a.name == "if" && a.ty.isNonNull && a.default.isNone) = true := by
          have hmem : d.name ∈ ["skip", "include"] := by
            simp only [Bool.or_eq_true, beq_iff_eq] at hsi
            rcases hsi with h1 | h1 <;> simp [h1]
          have := List.all_eq_true.mp hSI d.name hmem
          simpa [hdd] using this
        simp only [List.any_eq_true, Bool.and_eq_true] at hdef
        obtain ⟨a, ha, ⟨han, hann⟩, had⟩ := hdef
        unfold checkArguments at hargs
        have hne : dd.args.isEmpty = false := by
          cases hl : dd.args with
          | nil => rw [hl] at ha; cases ha
          | cons _ _ => rfl
        simp only [hne, Bool.false_eq_true, if_false] at hargs
        rw [quiet_append, quiet_append] at hargs
        have hper := hargs.1.2
        -- the outcome for the definition of `if`
        have hq : Quiet A ((fun (dv : InputValueDef) =>
            match d.args.find? (fun (x : Arg) => dv.name == x.1) with
            | none => if !dv.ty.isNonNull || dv.default.isSome then (([] : List Diag), false)
                else ([(ErrKind.RequiredArgumentNotSpecified, d.pos)], false)
            | some x => (checkValue S vars x.2.2 dv.ty dv.default.isSome, true)) a).1 := by
          intro e he
          apply hper e
          simp only [argOutcomes, List.mem_flatMap, List.mem_map]
          exact ⟨_, ⟨a, ha, rfl⟩, he⟩
        simp only at hq
        cases hfind : d.args.find? (fun (x : Arg) => a.name == x.1) with
        | none =>
          rw [hfind] at hq
          have hreq : (!a.ty.isNonNull || a.default.isSome) = false := by
            cases hdflt : a.default with
            | none => simp [hann]
            | some v => rw [hdflt] at had; cases had
          simp only [hreq, Bool.false_eq_true, if_false] at hq
          have := quiet_single.mp hq
          rw [hA _ (by decide)] at this; cases this
        | some x =>
          have hx := List.find?_some hfind
          have hxm := List.mem_of_find?_eq_some hfind
          have hname : x.1 = "if" := by
            have h1 : a.name = "if" := by simpa using han
            have h2 : a.name = x.1 := by simpa using hx
            rw [← h2, h1]
          unfold ifArg
          cases hf2 : d.args.find? (·.1 == "if") with
          | some y => rfl
          | none =>
            have := List.find?_eq_none.mp hf2 x hxm
            simp [hname] at this
      · have : (d.name == "skip" || d.name == "include") = false := by simpa using hsi
        simp [this]

theorem dirsOk_of_quiet {S : Schema} (hSI : skipIncludeB S = true) {A : ErrKind → Bool} (hA : Admissible A)
    {vars : Option (List VarDef)} {loc : String} {dirs : List Directive}
    (h : Quiet A (checkDirectives S vars dirs loc)) : dirsOkB dirs = true :=
  dirsOk_of_quietAux hSI hA dirs [] h

/-! ### the printer's fragment map is the checker's -/

theorem opFragsOf_eq_fragMap (D : Doc) (n : Name) : OpTypes.fragsOf D n = fragMap D n := by
  unfold OpTypes.fragsOf fragMap
  have key : ∀ (g : Option FragmentDef → ExecDef → Option FragmentDef),
      (∀ acc f, g acc (.frag f) = if f.name == n then some f else acc) → (∀ acc o, g acc (.op o) = acc) →
      (∀ acc i, g acc (.imp i) = acc) → ∀ (D : Doc) (acc : Option FragmentDef),
      D.foldl g acc = ((CheckOp.fragsOf D).reverse.find? (·.name == n)).or acc := by
    intro g g1 g2 g3 D
    induction D with
    | nil => intro acc; simp [CheckOp.fragsOf]
    | cons d r ih =>
      intro acc
      cases d with
      | frag f =>
        have hf : CheckOp.fragsOf (ExecDef.frag f :: r) = f :: CheckOp.fragsOf r := by simp [CheckOp.fragsOf]
        rw [List.foldl_cons, ih, hf, List.reverse_cons, List.find?_append, g1]
        cases (CheckOp.fragsOf r).reverse.find? (·.name == n) with
        | some g => simp
        | none =>
          by_cases hfn : (f.name == n) = true
          · simp [hfn]
          · have : (f.name == n) = false := by simpa using hfn
            simp [this]
      | op o =>
        have hf : CheckOp.fragsOf (ExecDef.op o :: r) = CheckOp.fragsOf r := by simp [CheckOp.fragsOf]
        rw [List.foldl_cons, ih, hf, g2]
      | imp i =>
        have hf : CheckOp.fragsOf (ExecDef.imp i :: r) = CheckOp.fragsOf r := by simp [CheckOp.fragsOf]
        rw [List.foldl_cons, ih, hf, g3]
  rw [key _ (fun _ _ => rfl) (fun _ _ => rfl) (fun _ _ => rfl) D none]
  simp

end NitroVerif.Stages
