/-
C17 (concrete part 3b): `OpTypes.implTree` under a permutation of the schema's definitions — the resulting trees are
`TreeRel`-related (same tree up to the order of the branches of every object node), and `toTs` maps related trees to
types equal up to the order of union members.
Core Lean only.
-/
import NitroVerif.Lemmas.DeterminismConcreteTreeRel
namespace NitroVerif.DeterminismOpTypes
open NitroVerif.Gql NitroVerif.OpTypes NitroVerif.DeterminismRel
open NitroVerif.DeterminismDecls (RelList relList_refl relList_map relList_append)
open NitroVerif.Determinism (SameView NoDupTypeNames NoDupDirectiveNames sameView_of_perm)

/-- the two schemas answer every by-name lookup the same way and have the same SET of implementers per interface -/
structure SchemaRel (S S' : Schema) : Prop extends SameView S S' where
  impl : ∀ n, (implementers S n).Perm (implementers S' n)

theorem schemaRel_of_perm {T T' : TsDoc} (h : T.Perm T') (ndt : NoDupTypeNames T) (ndd : NoDupDirectiveNames T) :
    SchemaRel ⟨T⟩ ⟨T'⟩ :=
  { toSameView := sameView_of_perm h ndt ndd, impl := fun n => implementers_perm h ndt n }

section
variable {S S' : Schema}

theorem parentObjects_rel (h : SchemaRel S S') (n : Name) :
    ExRel List.Perm (parentObjects S n) (parentObjects S' n) := by
  unfold parentObjects
  simp only [h.ty]
  cases S'.typeDef? n with
  | none => trivial
  | some t =>
    cases hk : t.kind with
    | object => simp only [hk]; exact List.Perm.refl _
    | interface => simp only [hk]; exact h.impl _
    | union => simp only [hk]; exact exRel_refl List.Perm.refl _
    | scalar => simp only [hk]; trivial
    | enum => simp only [hk]; trivial
    | input => simp only [hk]; trivial

theorem branchConds_rel (h : SchemaRel S S') (F : Frags) (fuel : Nat) (ss : List Selection) (n : Name) :
    ExRel List.Perm (branchConds S F fuel ss n) (branchConds S' F fuel ss n) := by
  unfold branchConds
  apply exRel_bind (parentObjects_rel h n)
  intro objs objs' hobjs
  apply exRel_bind (exRel_refl (R := (· = ·)) (fun _ => rfl) _)
  intro vars vars' hv
  subst hv
  exact exRel_ok (hobjs.flatMap_right _)

/-- tagged fields: same tag, related field -/
def TaggedRel (a b : Tagged) : Prop := a.1 = b.1 ∧ FieldRel a.2 b.2

theorem toEmpty_rel {fs fs' : List Tagged} (h : RelList TaggedRel fs fs') :
    RelList TaggedRel (toEmpty fs) (toEmpty fs') := by
  unfold toEmpty
  apply relList_map' _ h
  intro a b hab
  obtain ⟨a1, a2⟩ := a
  obtain ⟨b1, b2⟩ := b
  exact ⟨hab.1, by show FieldRel (.empty a2.name) (.empty b2.name); rw [hab.2.name]; exact fieldRel_refl _⟩

theorem fieldTree_rel (obj : TypeDef) (key name : Name) (skipped : Bool) (sub : Option (List Selection))
    {rec rec' : GType → List Selection → Except Panic SelTree}
    (hrec : ∀ ty sub, ExRel TreeRel (rec ty sub) (rec' ty sub)) :
    ExRel FieldRel (fieldTree obj key name skipped sub rec) (fieldTree obj key name skipped sub rec') := by
  unfold fieldTree
  split
  · exact fieldRel_refl _
  · split
    · exact fieldRel_refl _
    · cases directField? obj name with
      | none => trivial
      | some ty =>
        cases sub with
        | none => exact fieldRel_refl _
        | some sub =>
          apply exRel_bind (hrec ty sub)
          intro a b hab
          exact exRel_ok (fieldRel_object.mpr ⟨b, rfl, hab⟩)

theorem wrapTree_rel {mk mk' : Name → Except Panic (List Branch)}
    (hmk : ∀ n, ExRel (PermRel BranchRel) (mk n) (mk' n)) :
    ∀ ty, ExRel TreeRel (wrapTree mk ty) (wrapTree mk' ty)
  | .named n _ => by
    simp only [wrapTree]
    apply exRel_bind (hmk n)
    intro a b hab
    exact exRel_ok (treeRel_object.mpr hab)
  | .list t _ => by
    simp only [wrapTree]
    apply exRel_bind (wrapTree_rel hmk t)
    intro a b hab
    exact exRel_ok (treeRel_list.mpr hab)
  | .nonNull t => by
    simp only [wrapTree]
    apply exRel_bind (wrapTree_rel hmk t)
    intro a b hab
    exact exRel_ok (treeRel_nonNull.mpr hab)

theorem untag_rel {fs fs' : List Tagged} (h : RelList TaggedRel fs fs') (p : Bool → Bool) :
    RelList FieldRel ((fs.filter fun x => p x.1).map (·.2)) ((fs'.filter fun x => p x.1).map (·.2)) :=
  relList_map' (fun _ _ hab => hab.2) (relList_filter (fun a b hab => by rw [hab.1]) h)

theorem skipGuard_rel {x y : Except Panic (List Tagged)} (hxy : ExRel (RelList TaggedRel) x y)
    (vars : List (Name × Bool)) (dirs : List Directive) :
    ExRel (RelList TaggedRel)
      (do let fs ← x; if ← checkSkip vars dirs then Except.ok (toEmpty fs) else Except.ok fs)
      (do let fs ← y; if ← checkSkip vars dirs then Except.ok (toEmpty fs) else Except.ok fs) := by
  apply exRel_bind hxy
  intro fs fs' hfs
  apply exRel_bind (exRel_refl (R := (· = ·)) (fun _ => rfl) _)
  intro b b' hb
  subst hb
  cases b
  · exact exRel_ok hfs
  · exact exRel_ok (toEmpty_rel hfs)

theorem implTree_fieldsFor_rel (h : SchemaRel S S') (F : Frags) (mfuel : Nat) : ∀ fuel,
    (∀ parent ss, ExRel TreeRel (implTree S F mfuel fuel parent ss) (implTree S' F mfuel fuel parent ss)) ∧
    (∀ c ss, ExRel (RelList TaggedRel) (fieldsFor S F mfuel fuel c ss) (fieldsFor S' F mfuel fuel c ss)) := by
  intro fuel
  induction fuel with
  | zero => exact ⟨fun _ _ => exRel_error _ _, fun _ _ => exRel_error _ _⟩
  | succ n ih =>
    obtain ⟨ih1, ih2⟩ := ih
    refine ⟨fun parent ss => ?_, fun c ss => ?_⟩
    · simp only [implTree]
      apply wrapTree_rel
      intro m
      apply exRel_bind (branchConds_rel h F mfuel ss m)
      intro conds conds' hconds
      apply exRel_mapM_permRel _ (PermRel.of_perm hconds)
      intro c c' hc
      subst hc
      apply exRel_bind (ih2 c ss)
      intro fs fs' hfs
      apply exRel_bind (deepMerge_rel mfuel (untag_rel hfs (!·)))
      intro un un' hun
      apply exRel_bind (deepMerge_rel mfuel (untag_rel hfs id))
      intro al al' hal
      exact exRel_ok (branchRel_iff.mpr ⟨rfl, rfl, hun, hal⟩)
    · simp only [fieldsFor, h.ty, fragmentApplies_congr h.toSameView]
      cases S'.typeDef? c.obj.name with
      | none => exact exRel_error _ _
      | some obj =>
        apply exRel_bind (exRel_refl (R := (· = ·)) (fun _ => rfl) _)
        intro obj1 obj2 ho
        subst ho
        apply exRel_bind (R := RelList TaggedRel)
        · apply exRel_filterMapM_rel (R := (· = ·)) _ (relList_refl (fun _ => rfl) ss)
          intro s s' hs
          subst hs
          cases s with
          | field alias name namePos args dirs sub =>
            apply exRel_bind (exRel_refl (R := (· = ·)) (fun _ => rfl) _)
            intro sk sk' hsk
            subst hsk
            apply exRel_bind (fieldTree_rel _ _ _ _ _ ih1)
            intro f f' hf
            exact exRel_ok (show OptRel TaggedRel (some _) (some _) from ⟨rfl, hf⟩)
          | spread nm namePos dirs pos => exact exRel_ok (show OptRel TaggedRel none none from trivial)
          | inline cond dirs sub pos => exact exRel_ok (show OptRel TaggedRel none none from trivial)
        · intro simple simple' hsimple
          apply exRel_bind (R := RelList (RelList TaggedRel))
          · apply exRel_mapM_rel (R := (· = ·)) _ (relList_refl (fun _ => rfl) ss)
            intro s s' hs
            subst hs
            cases s with
            | field alias name namePos args dirs sub => exact exRel_ok (show RelList TaggedRel [] [] from trivial)
            | spread nm namePos dirs pos =>
              dsimp only
              cases F nm with
              | none => exact exRel_error _ _
              | some fd =>
                apply exRel_bind (exRel_refl (R := (· = ·)) (fun _ => rfl) _)
                intro b b' hb
                subst hb
                cases b with
                | false => exact exRel_ok (show RelList TaggedRel [] [] from trivial)
                | true => exact skipGuard_rel (ih2 c fd.sel) c.vars dirs
            | inline cond dirs sub pos =>
              cases cond with
              | none => exact skipGuard_rel (ih2 c sub) c.vars dirs
              | some cp =>
                obtain ⟨cond, cp⟩ := cp
                apply exRel_bind (exRel_refl (R := (· = ·)) (fun _ => rfl) _)
                intro b b' hb
                subst hb
                cases b with
                | false => exact exRel_ok (show RelList TaggedRel [] [] from trivial)
                | true => exact skipGuard_rel (ih2 c sub) c.vars dirs
          · intro frags frags' hfr
            exact exRel_ok (relList_append hsimple (relList_flatten hfr))

end
end NitroVerif.DeterminismOpTypes
