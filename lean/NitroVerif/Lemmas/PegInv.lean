/-
Inversion lemmas for the PEG interpreter (`Model/Peg.lean`): what a successful (`Out.ok`) result of each clause of
`eval` / `doSkip` / `starRest` / `callRule` / `ruleWrap` was computed from. Every invariant of the interpreter
(shapes of child sequences — Props/C08; spans of pairs — Props/C07) is an induction on the depth bound that uses
only these lemmas. Helper lemmas, no property statements.
-/
import NitroVerif.Model.Peg
namespace NitroVerif.Peg

variable (g : G)

theorem eval_zero (sk e at_ la tr c) : eval g 0 sk e at_ la tr c = (tr, .oof) := by simp [eval]
theorem doSkip_zero (sk at_ la tr c) : doSkip g 0 sk at_ la tr c = (tr, .oof) := by simp [doSkip]
theorem starRest_zero (a at_ la tr c) : starRest g 0 a at_ la tr c = (tr, .oof) := by simp [starRest]
theorem callRule_zero (r at_ la tr c) : callRule g 0 r at_ la tr c = (tr, .oof) := by simp [callRule]

/-- terminals: a successful terminal returns no pairs and a cursor described by `TermStep` -/
inductive TermStep : Expr → Cur → Cur → Prop where
  | str {s c r} : matchStr s c.rest = some r → TermStep (.str s) c ⟨c.pos + s.length, r⟩
  | insens {s c r} : matchInsens s c.rest = some r → TermStep (.insens s) c ⟨c.pos + s.length, r⟩
  | range {lo hi c d r} : c.rest = d :: r → TermStep (.range lo hi) c ⟨c.pos + 1, r⟩
  | any {c d r} : c.rest = d :: r → TermStep .any c ⟨c.pos + 1, r⟩
  | soi {c} : TermStep .soi c c
  | eoi {c} : TermStep .eoi c c

theorem eval_str_ok {fuel sk s at_ la tr c tr' c' ps}
    (h : eval g (fuel + 1) sk (.str s) at_ la tr c = (tr', .ok c' ps)) : TermStep (.str s) c c' ∧ ps = [] := by
  simp only [eval] at h
  split at h
  · rename_i r hr
    simp only [Prod.mk.injEq, Out.ok.injEq] at h
    obtain ⟨_, rfl, rfl⟩ := h
    exact ⟨.str hr, rfl⟩
  · simp at h

theorem eval_insens_ok {fuel sk s at_ la tr c tr' c' ps}
    (h : eval g (fuel + 1) sk (.insens s) at_ la tr c = (tr', .ok c' ps)) : TermStep (.insens s) c c' ∧ ps = [] := by
  simp only [eval] at h
  split at h
  · rename_i r hr
    simp only [Prod.mk.injEq, Out.ok.injEq] at h
    obtain ⟨_, rfl, rfl⟩ := h
    exact ⟨.insens hr, rfl⟩
  · simp at h

theorem eval_range_ok {fuel sk lo hi at_ la tr c tr' c' ps}
    (h : eval g (fuel + 1) sk (.range lo hi) at_ la tr c = (tr', .ok c' ps)) :
    TermStep (.range lo hi) c c' ∧ ps = [] := by
  simp only [eval] at h
  split at h
  · rename_i d r hr
    split at h
    · simp only [Prod.mk.injEq, Out.ok.injEq] at h
      obtain ⟨_, rfl, rfl⟩ := h
      exact ⟨.range hr, rfl⟩
    · simp at h
  · simp at h

theorem eval_any_ok {fuel sk at_ la tr c tr' c' ps}
    (h : eval g (fuel + 1) sk .any at_ la tr c = (tr', .ok c' ps)) : TermStep .any c c' ∧ ps = [] := by
  simp only [eval] at h
  split at h
  · rename_i d r hr
    simp only [Prod.mk.injEq, Out.ok.injEq] at h
    obtain ⟨_, rfl, rfl⟩ := h
    exact ⟨.any hr, rfl⟩
  · simp at h

theorem eval_soi_ok {fuel sk at_ la tr c tr' c' ps}
    (h : eval g (fuel + 1) sk .soi at_ la tr c = (tr', .ok c' ps)) : TermStep .soi c c' ∧ ps = [] := by
  simp only [eval] at h
  split at h
  · simp only [Prod.mk.injEq, Out.ok.injEq] at h
    obtain ⟨_, rfl, rfl⟩ := h
    exact ⟨.soi, rfl⟩
  · simp at h

theorem eval_eoi_ok {fuel sk at_ la tr c tr' c' ps}
    (h : eval g (fuel + 1) sk .eoi at_ la tr c = (tr', .ok c' ps)) : TermStep .eoi c c' ∧ ps = [] := by
  simp only [eval] at h
  split at h
  · simp only [Prod.mk.injEq, Out.ok.injEq] at h
    obtain ⟨_, rfl, rfl⟩ := h
    exact ⟨.eoi, rfl⟩
  · simp at h

theorem eval_seq_ok {fuel sk a b at_ la tr c tr' c' ps}
    (h : eval g (fuel + 1) sk (.seq a b) at_ la tr c = (tr', .ok c' ps)) :
    ∃ tr1 c1 p1 tr2 c2 p2 p3,
      eval g fuel sk a at_ la tr c = (tr1, .ok c1 p1) ∧
      doSkip g fuel sk at_ la tr1 c1 = (tr2, .ok c2 p2) ∧
      eval g fuel sk b at_ la tr2 c2 = (tr', .ok c' p3) ∧ ps = p1 ++ p2 ++ p3 := by
  simp only [eval] at h
  rcases h1 : eval g fuel sk a at_ la tr c with ⟨tr1, o1⟩
  rw [h1] at h
  cases o1 with
  | ok c1 p1 =>
    dsimp only at h
    rcases h2 : doSkip g fuel sk at_ la tr1 c1 with ⟨tr2, o2⟩
    rw [h2] at h
    cases o2 with
    | ok c2 p2 =>
      dsimp only at h
      rcases h3 : eval g fuel sk b at_ la tr2 c2 with ⟨tr3, o3⟩
      rw [h3] at h
      cases o3 with
      | ok c3 p3 =>
        simp only [Prod.mk.injEq, Out.ok.injEq] at h
        obtain ⟨rfl, rfl, rfl⟩ := h
        exact ⟨_, _, _, _, _, _, _, rfl, h2, h3, rfl⟩
      | fail => simp at h
      | oof => simp at h
    | fail => simp at h
    | oof => simp at h
  | fail => simp at h
  | oof => simp at h

theorem eval_choice_ok {fuel sk a b at_ la tr c tr' c' ps}
    (h : eval g (fuel + 1) sk (.choice a b) at_ la tr c = (tr', .ok c' ps)) :
    eval g fuel sk a at_ la tr c = (tr', .ok c' ps) ∨
    ∃ tr1, eval g fuel sk a at_ la tr c = (tr1, .fail) ∧ eval g fuel sk b at_ la tr1 c = (tr', .ok c' ps) := by
  simp only [eval] at h
  rcases h1 : eval g fuel sk a at_ la tr c with ⟨tr1, o1⟩
  rw [h1] at h
  cases o1 with
  | ok c1 p1 => dsimp only at h; exact Or.inl h
  | fail => dsimp only at h; exact Or.inr ⟨tr1, rfl, h⟩
  | oof => simp at h

theorem eval_opt_ok {fuel sk a at_ la tr c tr' c' ps}
    (h : eval g (fuel + 1) sk (.opt a) at_ la tr c = (tr', .ok c' ps)) :
    eval g fuel sk a at_ la tr c = (tr', .ok c' ps) ∨ (c' = c ∧ ps = []) := by
  simp only [eval] at h
  rcases h1 : eval g fuel sk a at_ la tr c with ⟨tr1, o1⟩
  rw [h1] at h
  cases o1 with
  | ok c1 p1 => dsimp only at h; exact Or.inl h
  | fail =>
    simp only [Prod.mk.injEq, Out.ok.injEq] at h
    exact Or.inr ⟨h.2.1.symm, h.2.2.symm⟩
  | oof => simp at h

theorem eval_star_sk_ok {fuel a at_ la tr c tr' c' ps}
    (h : eval g (fuel + 1) true (.star a) at_ la tr c = (tr', .ok c' ps)) :
    (∃ tr1 c1 p1 p2, eval g fuel true a at_ la tr c = (tr1, .ok c1 p1) ∧
        starRest g fuel a at_ la tr1 c1 = (tr', .ok c' p2) ∧ ps = p1 ++ p2) ∨ (c' = c ∧ ps = []) := by
  simp only [eval, if_true] at h
  rcases h1 : eval g fuel true a at_ la tr c with ⟨tr1, o1⟩
  rw [h1] at h
  cases o1 with
  | ok c1 p1 =>
    dsimp only at h
    rcases h2 : starRest g fuel a at_ la tr1 c1 with ⟨tr2, o2⟩
    rw [h2] at h
    cases o2 with
    | ok c2 p2 =>
      simp only [Prod.mk.injEq, Out.ok.injEq] at h
      obtain ⟨rfl, rfl, rfl⟩ := h
      exact Or.inl ⟨_, _, _, _, rfl, h2, rfl⟩
    | fail => simp at h
    | oof => simp at h
  | fail =>
    simp only [Prod.mk.injEq, Out.ok.injEq] at h
    exact Or.inr ⟨h.2.1.symm, h.2.2.symm⟩
  | oof => simp at h

theorem eval_star_nosk_ok {fuel a at_ la tr c tr' c' ps}
    (h : eval g (fuel + 1) false (.star a) at_ la tr c = (tr', .ok c' ps)) :
    (∃ tr1 c1 p1 p2, eval g fuel false a at_ la tr c = (tr1, .ok c1 p1) ∧
        eval g fuel false (.star a) at_ la tr1 c1 = (tr', .ok c' p2) ∧ ps = p1 ++ p2) ∨ (c' = c ∧ ps = []) := by
  simp only [eval, Bool.false_eq_true, if_false] at h
  rcases h1 : eval g fuel false a at_ la tr c with ⟨tr1, o1⟩
  rw [h1] at h
  cases o1 with
  | ok c1 p1 =>
    dsimp only at h
    rcases h2 : eval g fuel false (.star a) at_ la tr1 c1 with ⟨tr2, o2⟩
    rw [h2] at h
    cases o2 with
    | ok c2 p2 =>
      simp only [Prod.mk.injEq, Out.ok.injEq] at h
      obtain ⟨rfl, rfl, rfl⟩ := h
      exact Or.inl ⟨_, _, _, _, rfl, h2, rfl⟩
    | fail => simp at h
    | oof => simp at h
  | fail =>
    simp only [Prod.mk.injEq, Out.ok.injEq] at h
    exact Or.inr ⟨h.2.1.symm, h.2.2.symm⟩
  | oof => simp at h

theorem eval_plus (fuel sk a at_ la tr c) :
    eval g (fuel + 1) sk (.plus a) at_ la tr c = eval g fuel sk (.seq a (.star a)) at_ la tr c := by
  simp only [eval]

theorem eval_rep (fuel sk n a at_ la tr c) :
    eval g (fuel + 1) sk (.rep n a) at_ la tr c = eval g fuel sk (unroll n a) at_ la tr c := by
  simp only [eval]

theorem eval_call (fuel sk r at_ la tr c) :
    eval g (fuel + 1) sk (.call r) at_ la tr c = callRule g fuel r at_ la tr c := by
  simp only [eval]

theorem eval_not_ok {fuel sk a at_ la tr c tr' c' ps}
    (h : eval g (fuel + 1) sk (.not a) at_ la tr c = (tr', .ok c' ps)) : c' = c ∧ ps = [] := by
  simp only [eval] at h
  rcases h1 : eval g fuel sk a at_ (lookNot la) tr c with ⟨tr1, o1⟩
  rw [h1] at h
  cases o1 with
  | ok c1 p1 => simp at h
  | fail =>
    simp only [Prod.mk.injEq, Out.ok.injEq] at h
    exact ⟨h.2.1.symm, h.2.2.symm⟩
  | oof => simp at h

theorem eval_and_ok {fuel sk a at_ la tr c tr' c' ps}
    (h : eval g (fuel + 1) sk (.and a) at_ la tr c = (tr', .ok c' ps)) : c' = c ∧ ps = [] := by
  simp only [eval] at h
  rcases h1 : eval g fuel sk a at_ (lookAnd la) tr c with ⟨tr1, o1⟩
  rw [h1] at h
  cases o1 with
  | ok c1 p1 =>
    simp only [Prod.mk.injEq, Out.ok.injEq] at h
    exact ⟨h.2.1.symm, h.2.2.symm⟩
  | fail => simp at h
  | oof => simp at h

theorem doSkip_ok {fuel sk at_ la tr c tr' c' ps}
    (h : doSkip g (fuel + 1) sk at_ la tr c = (tr', .ok c' ps)) :
    (sk = true ∧ at_ = .nonAtomic ∧ ∃ e, g.skipExpr = some e ∧ eval g fuel false e at_ la tr c = (tr', .ok c' ps)) ∨
    (c' = c ∧ ps = []) := by
  simp only [doSkip] at h
  split at h
  · rename_i hc
    split at h
    · rename_i e he
      exact Or.inl ⟨hc.1, hc.2, e, he, h⟩
    · simp only [Prod.mk.injEq, Out.ok.injEq] at h
      exact Or.inr ⟨h.2.1.symm, h.2.2.symm⟩
  · simp only [Prod.mk.injEq, Out.ok.injEq] at h
    exact Or.inr ⟨h.2.1.symm, h.2.2.symm⟩

theorem starRest_ok {fuel a at_ la tr c tr' c' ps}
    (h : starRest g (fuel + 1) a at_ la tr c = (tr', .ok c' ps)) :
    (∃ tr1 c1 p1 tr2 c2 p2 p3,
        doSkip g fuel true at_ la tr c = (tr1, .ok c1 p1) ∧
        eval g fuel true a at_ la tr1 c1 = (tr2, .ok c2 p2) ∧
        starRest g fuel a at_ la tr2 c2 = (tr', .ok c' p3) ∧ ps = p1 ++ p2 ++ p3) ∨ (c' = c ∧ ps = []) := by
  simp only [starRest] at h
  rcases h1 : doSkip g fuel true at_ la tr c with ⟨tr1, o1⟩
  rw [h1] at h
  cases o1 with
  | ok c1 p1 =>
    dsimp only at h
    rcases h2 : eval g fuel true a at_ la tr1 c1 with ⟨tr2, o2⟩
    rw [h2] at h
    cases o2 with
    | ok c2 p2 =>
      dsimp only at h
      rcases h3 : starRest g fuel a at_ la tr2 c2 with ⟨tr3, o3⟩
      rw [h3] at h
      cases o3 with
      | ok c3 p3 =>
        simp only [Prod.mk.injEq, Out.ok.injEq] at h
        obtain ⟨rfl, rfl, rfl⟩ := h
        exact Or.inl ⟨_, _, _, _, _, _, _, rfl, h2, h3, rfl⟩
      | fail => simp at h
      | oof => simp at h
    | fail =>
      simp only [Prod.mk.injEq, Out.ok.injEq] at h
      exact Or.inr ⟨h.2.1.symm, h.2.2.symm⟩
    | oof => simp at h
  | fail =>
    simp only [Prod.mk.injEq, Out.ok.injEq] at h
    exact Or.inr ⟨h.2.1.symm, h.2.2.symm⟩
  | oof => simp at h

theorem ruleWrap_ok {r seen la c res tr' c' ps} (h : ruleWrap r seen la c res = (tr', .ok c' ps)) :
    ∃ tr1 ps0, res = (tr1, .ok c' ps0) ∧
      ps = if la = .none ∧ seen ≠ .atomic then [Pair.mk r c.pos c'.pos ps0] else ps0 := by
  rcases res with ⟨tr1, o⟩
  cases o with
  | ok c1 p1 =>
    simp only [ruleWrap, Prod.mk.injEq, Out.ok.injEq] at h
    obtain ⟨_, rfl, rfl⟩ := h
    exact ⟨tr1, p1, rfl, rfl⟩
  | fail => simp [ruleWrap] at h
  | oof => simp [ruleWrap] at h

/-- how the body of rule `r` of kind `kind` is run when called under atomicity `at_`:
    (generated with skip calls?, atomicity of the body, atomicity seen by `state.rule`) -/
def bodyCfg (special : Bool) (kind : RuleKind) (at_ : Atomicity) : Bool × Atomicity × Atomicity :=
  match kind with
  | .silent => if special then (false, .atomic, at_) else (true, at_, at_)
  | .normal => if special then (false, .atomic, at_) else (true, at_, at_)
  | .atomic => (false, .atomic, at_)
  | .compound => (false, .compound, .compound)
  | .nonAtomic => (true, .nonAtomic, .nonAtomic)

/-- `callRule` in one normal form: look the rule up, run the body under `bodyCfg`, wrap unless silent -/
theorem callRule_ok {fuel r at_ la tr c tr' c' ps}
    (h : callRule g (fuel + 1) r at_ la tr c = (tr', .ok c' ps)) :
    ∃ kind body tr0 tr1 ps0,
      g.look r = some (kind, body) ∧
      eval g fuel (bodyCfg (decide (g.ws = some r ∨ g.cm = some r)) kind at_).1 body
        (bodyCfg (decide (g.ws = some r ∨ g.cm = some r)) kind at_).2.1 la tr0 c = (tr1, .ok c' ps0) ∧
      ps = if kind = .silent then ps0
           else if la = .none ∧ (bodyCfg (decide (g.ws = some r ∨ g.cm = some r)) kind at_).2.2 ≠ .atomic
             then [Pair.mk r c.pos c'.pos ps0] else ps0 := by
  simp only [callRule] at h
  split at h
  · simp at h
  · rename_i kind body hl
    refine ⟨kind, body, { tr with steps := tr.steps + 1 }, ?_⟩
    cases kind with
    | silent =>
      by_cases hs : g.ws = some r ∨ g.cm = some r
      · simp only [hs, if_true] at h
        exact ⟨tr', ps, hl, by simpa [bodyCfg, hs] using h, by simp⟩
      · simp only [hs, if_false] at h
        exact ⟨tr', ps, hl, by simpa [bodyCfg, hs] using h, by simp⟩
    | normal =>
      by_cases hs : g.ws = some r ∨ g.cm = some r
      · simp only [hs, if_true] at h
        obtain ⟨tr1, ps0, h1, h2⟩ := ruleWrap_ok h
        exact ⟨tr1, ps0, hl, by simpa [bodyCfg, hs] using h1, by simpa [bodyCfg, hs] using h2⟩
      · simp only [hs, if_false] at h
        obtain ⟨tr1, ps0, h1, h2⟩ := ruleWrap_ok h
        exact ⟨tr1, ps0, hl, by simpa [bodyCfg, hs] using h1, by simpa [bodyCfg, hs] using h2⟩
    | atomic =>
      dsimp only at h
      obtain ⟨tr1, ps0, h1, h2⟩ := ruleWrap_ok h
      refine ⟨tr1, ps0, hl, by simpa [bodyCfg] using h1, ?_⟩
      rw [h2]
      simp only [bodyCfg, reduceCtorEq, if_false]
      congr
    | compound =>
      dsimp only at h
      obtain ⟨tr1, ps0, h1, h2⟩ := ruleWrap_ok h
      exact ⟨tr1, ps0, hl, by simpa [bodyCfg] using h1, by simpa [bodyCfg] using h2⟩
    | nonAtomic =>
      dsimp only at h
      obtain ⟨tr1, ps0, h1, h2⟩ := ruleWrap_ok h
      exact ⟨tr1, ps0, hl, by simpa [bodyCfg] using h1, by simpa [bodyCfg] using h2⟩

end NitroVerif.Peg
