/-
C18 composed (helper lemmas): every position `check_operation_document` reports is a position of a node of the document
it was given or of the schema it was given (`checkOp_Q`).  Part 2: arguments, directives, the selection-set walk, the
definitions and the main loop.
-/
import NitroVerif.Lemmas.CliComposedPosOp
namespace NitroVerif.CliComposed
open NitroVerif NitroVerif.Gql NitroVerif.CheckCommon NitroVerif.CheckOp

section args
variable {S : Schema} {Q : Pos → Prop} (hS : SchemaQ S Q) (vars : Option (List VarDef))

theorem arg_mem_PQ {args : List Arg} (h : PQ Q (Value.positionsFields args)) :
    ∀ a ∈ args, Q a.2.1 ∧ PQ Q a.2.2.positions := by
  induction args with
  | nil => intro a ha; cases ha
  | cons b args ih =>
    obtain ⟨n, p, v⟩ := b
    simp only [Value.positionsFields] at h
    have h' := pq_append.mp (pq_cons.mp h).2
    intro a ha
    rcases List.mem_cons.mp ha with rfl | ha
    · exact ⟨(pq_cons.mp h).1, h'.1⟩
    · exact ih h'.2 a ha

theorem dupArgsAux_Q (seen : List Name) (args : List Arg) (h : PQ Q (Value.positionsFields args)) :
    AllQ Q (dupArgsAux seen args) := by
  induction args generalizing seen with
  | nil => exact allQ_nil
  | cons a args ih =>
    have ha := arg_mem_PQ h a (by simp)
    obtain ⟨n, p, v⟩ := a
    simp only [Value.positionsFields] at h
    simp only [dupArgsAux]
    rw [allQ_append]
    refine ⟨?_, ih _ (pq_append.mp (pq_cons.mp h).2).2⟩
    apply allQ_ite
    · intro _; exact allQ_single.mpr ha.1
    · intro _; exact allQ_nil

include hS in
/-- `check_arguments`: positions of the owner, of the arguments, of the expected types -/
theorem checkArguments_Q (parentPos : Pos) (args : List Arg) (defs : List InputValueDef) (hp : Q parentPos)
    (ha : PQ Q (Value.positionsFields args)) (hd : ∀ d ∈ defs, TOk S Q d.ty) :
    AllQ Q (checkArguments S vars parentPos args defs) := by
  unfold checkArguments
  apply allQ_ite
  · intro _
    apply allQ_ite
    · intro _; exact allQ_nil
    · intro _; exact allQ_single.mpr hp
  · intro _
    simp only
    rw [allQ_append, allQ_append]
    refine ⟨⟨dupArgsAux_Q [] args ha, ?_⟩, ?_⟩
    · apply allQ_flatMap
      intro o ho
      unfold argOutcomes at ho
      obtain ⟨d, hdm, rfl⟩ := List.mem_map.mp ho
      cases hf : args.find? (fun a => d.name == a.1) with
      | none =>
        simp only
        split
        · exact allQ_nil
        · exact allQ_single.mpr hp
      | some a =>
        simp only
        have ham : a ∈ args := List.mem_of_find?_eq_some hf
        exact checkValue_Q' hS vars _ _ _ (arg_mem_PQ ha a ham).2 (hd d hdm)
    · apply allQ_ite
      · intro _
        intro x hx
        obtain ⟨a, ham, rfl⟩ := List.mem_map.mp hx
        exact (arg_mem_PQ ha a (List.mem_filter.mp ham).1).1
      · intro _; exact allQ_nil

include hS in
theorem checkDirectivesAux_Q (loc : String) (seen : List Name) (dirs : List Directive) (h : PQ Q (dirsPositions dirs)) :
    AllQ Q (checkDirectivesAux S vars loc seen dirs) := by
  induction dirs generalizing seen with
  | nil => exact allQ_nil
  | cons d ds ih =>
    unfold dirsPositions at h
    rw [List.flatMap_cons] at h
    have hd := (pq_append.mp h).1
    have hds : PQ Q (dirsPositions ds) := (pq_append.mp h).2
    unfold Directive.positions at hd
    have hnp := (pq_cons.mp hd).1
    have hpos := (pq_cons.mp (pq_cons.mp hd).2).1
    have hargs := (pq_cons.mp (pq_cons.mp hd).2).2
    simp only [checkDirectivesAux]
    cases hdd : S.directiveDef? d.name with
    | none => exact allQ_cons.mpr ⟨hnp, ih _ hds⟩
    | some dd =>
      simp only
      rw [allQ_append, allQ_append, allQ_append]
      refine ⟨⟨⟨?_, ?_⟩, ?_⟩, ih _ hds⟩
      · apply allQ_ite
        · intro _; exact allQ_single.mpr hpos
        · intro _; exact allQ_nil
      · apply allQ_ite
        · intro _
          apply allQ_ite
          · intro _; exact allQ_nil
          · intro _; exact allQ_single.mpr hpos
        · intro _; exact allQ_nil
      · exact checkArguments_Q hS vars d.pos d.args dd.args hpos hargs (hS.dirArgs hdd)

include hS in
theorem checkDirectives_Q (dirs : List Directive) (loc : String) (h : PQ Q (dirsPositions dirs)) :
    AllQ Q (checkDirectives S vars dirs loc) :=
  checkDirectivesAux_Q hS vars loc [] dirs h

end args

/-! ### the selection-set walk -/

/-- the argument types of the fields satisfy `Q` -/
def FieldsQ (S : Schema) (Q : Pos → Prop) (fields : List FieldDef) : Prop :=
  ∀ fd ∈ fields, ∀ a ∈ fd.args, TOk S Q a.ty

/-- the spread handler only reports positions satisfying `Q` -/
def HQ (S : Schema) (Q : Pos → Prop) (H : SpreadHandler) : Prop :=
  ∀ seen vars root name namePos pos, FromS S root → Q namePos → Q pos →
    AllQ Q (H seen vars root name namePos pos)

section walk
variable {S : Schema} {Q : Pos → Prop} (hS : SchemaQ S Q)

include hS in
theorem directFields_FieldsQ {td : TypeDef} {fields : List FieldDef} (htd : FromS S td)
    (h : directFields td = some fields) : FieldsQ S Q fields := by
  obtain ⟨n0, hn0⟩ := htd
  have key : (td.kind = .object ∨ td.kind = .interface) → FieldsQ S Q (td.fields ++ [typenameField]) := by
    intro hk fd hfd a ha
    rcases List.mem_append.mp hfd with hfd | hfd
    · exact hS.fieldArgs hn0 hk fd hfd a ha
    · simp at hfd; subst hfd; simp [typenameField] at ha
  unfold directFields at h
  cases hk : td.kind <;> simp [hk] at h <;> subst h
  · exact key (Or.inl hk)
  · exact key (Or.inr hk)
  · intro fd hfd a ha; simp at hfd; subst hfd; simp [typenameField] at ha

theorem unionMemberImplements_Q (iface : Name) (ms : List (Name × Pos))
    (h : ∀ m ∈ ms, (∃ o, S.typeDef? m.1 = some o ∧ o.kind = .object) ∨ Q m.2) :
    AllQ Q (unionMemberImplements S iface ms).1 := by
  induction ms with
  | nil => exact allQ_nil
  | cons m ms ih =>
    obtain ⟨n, p⟩ := m
    have hp := h (n, p) (by simp)
    have ih' := ih (fun m hm => h m (List.mem_cons_of_mem _ hm))
    simp only [unionMemberImplements]
    cases hq : S.typeDef? n with
    | none =>
      rcases hp with ⟨o, ho, _⟩ | hp
      · simp only at ho; rw [hq] at ho; cases ho
      · exact allQ_single.mpr hp
    | some o =>
      simp only
      split
      · split
        · exact allQ_nil
        · exact ih'
      · rename_i hk
        rcases hp with ⟨o', ho', hk'⟩ | hp
        · simp only at ho'; rw [hq] at ho'; cases ho'
          rw [hk'] at hk; exact absurd rfl hk
        · exact allQ_single.mpr hp

include hS in
theorem spreadApplicability_Q (root cond : TypeDef) (pos : Pos) (hr : FromS S root) (hc : FromS S cond)
    (hp : Q pos) : AllQ Q (spreadApplicability S root cond pos).1 := by
  obtain ⟨nr, hr⟩ := hr
  obtain ⟨nc, hc⟩ := hc
  have hnever : AllQ Q [(ErrKind.FragmentConditionNeverMatches, pos)] := allQ_single.mpr hp
  have hite : ∀ (c : Bool), AllQ Q (if c then [] else [(ErrKind.FragmentConditionNeverMatches, pos)]) := by
    intro c; cases c
    · exact hnever
    · exact allQ_nil
  have hite' : ∀ (c : Bool), AllQ Q (if c then [(ErrKind.FragmentConditionNeverMatches, pos)] else []) := by
    intro c; cases c
    · exact allQ_nil
    · exact hnever
  unfold spreadApplicability
  simp only
  cases hrk : root.kind <;> cases hck : cond.kind <;> simp only
  all_goals first
    | exact allQ_nil
    | exact hite _
    | exact hite' _
    | (split
       · exact allQ_nil
       · exact hite _)
    | (rw [allQ_append]
       refine ⟨unionMemberImplements_Q _ _ ?_, hite _⟩
       first | exact hS.members hc hck | exact hS.members hr hrk)

theorem checkSelection_field_eq (H : SpreadHandler) (seen vars root fields al name namePos args dirs sel) :
    checkSelection S H seen vars root fields (.field al name namePos args dirs sel) =
      match fields.find? (·.name == name) with
      | none => [(ErrKind.FieldNotFound, namePos)]
      | some fd =>
        checkDirectives S vars dirs "FIELD" ++
        checkArguments S vars namePos args fd.args ++
        (match S.typeDef? fd.ty.unwrapped with
         | none => [(ErrKind.TypeSystemError, namePos)]
         | some ft =>
           match sel with
           | some ss =>
             (match directFields ft with
              | none => [(ErrKind.SelectionOnInvalidType, namePos)]
              | some ffields => checkSelections S H seen vars ft ffields ss)
           | none => if (directFields ft).isSome then [(ErrKind.MustSpecifySelectionSet, namePos)] else []) := by
  cases sel <;> simp only [checkSelection] <;> rfl

theorem Selection.one_le_size' (s : Selection) : 1 ≤ s.size := by
  cases s with
  | field a b c d e sel => cases sel <;> simp [Selection.size]
  | spread => simp [Selection.size]
  | inline => simp [Selection.size]

include hS

/-- the walk of a selection set: every reported position is a position of a selection (or of the schema, or what
    the spread handler reports) -/
theorem checkSelections_Q (H : SpreadHandler) (hH : HQ S Q H) (seen : List Name) (vars : Option (List VarDef)) :
    ∀ (k : Nat) (ss : List Selection), Selection.sizeList ss ≤ k → ∀ (root : TypeDef) (fields : List FieldDef),
      FromS S root → FieldsQ S Q fields → PQ Q (Selection.positionsList ss) →
      AllQ Q (checkSelections S H seen vars root fields ss) := by
  intro k
  induction k with
  | zero =>
    intro ss hsz root fields _ _ _
    cases ss with
    | nil => simp only [checkSelections]; exact allQ_nil
    | cons s ss => simp only [Selection.sizeList] at hsz; have := Selection.one_le_size' s; omega
  | succ k ih =>
    have hsel : ∀ (s : Selection), s.size ≤ k + 1 → ∀ (root : TypeDef) (fields : List FieldDef),
        FromS S root → FieldsQ S Q fields → PQ Q s.positions →
        AllQ Q (checkSelection S H seen vars root fields s) := by
      intro s hsz root fields hr hf hp
      cases s with
      | field al name namePos args dirs sel =>
        rw [checkSelection_field_eq]
        have hparts : Q namePos ∧ PQ Q (Value.positionsFields args) ∧ PQ Q (dirsPositions dirs) ∧
            (∀ ss, sel = some ss → PQ Q (Selection.positionsList ss)) := by
          cases sel with
          | none =>
            simp only [Selection.positions] at hp
            have h1 := pq_cons.mp (pq_append.mp hp).2
            exact ⟨h1.1, (pq_append.mp h1.2).1, (pq_append.mp h1.2).2, fun ss h => by cases h⟩
          | some ss =>
            simp only [Selection.positions] at hp
            have h1 := pq_cons.mp (pq_append.mp hp).2
            have h2 := pq_append.mp h1.2
            exact ⟨h1.1, (pq_append.mp h2.1).1, (pq_append.mp h2.1).2, fun ss' h => by cases h; exact h2.2⟩
        obtain ⟨hnp, hargs, hdirs, hss⟩ := hparts
        cases hfd : fields.find? (·.name == name) with
        | none => exact allQ_single.mpr hnp
        | some fd =>
          simp only
          have hfdm : fd ∈ fields := List.mem_of_find?_eq_some hfd
          rw [allQ_append, allQ_append]
          refine ⟨⟨checkDirectives_Q hS vars dirs _ hdirs,
            checkArguments_Q hS vars namePos args fd.args hnp hargs (hf fd hfdm)⟩, ?_⟩
          cases hft : S.typeDef? fd.ty.unwrapped with
          | none => exact allQ_single.mpr hnp
          | some ft =>
            simp only
            have hftq : FromS S ft := ⟨_, hft⟩
            cases sel with
            | none =>
              simp only
              split
              · exact allQ_single.mpr hnp
              · exact allQ_nil
            | some ss =>
              simp only
              cases hdf : directFields ft with
              | none => exact allQ_single.mpr hnp
              | some ffields =>
                simp only
                have hsz' : Selection.sizeList ss ≤ k := by simp only [Selection.size] at hsz; omega
                exact ih ss hsz' ft ffields hftq (directFields_FieldsQ hS hftq hdf) (hss ss rfl)
      | spread name namePos dirs pos =>
        simp only [Selection.positions] at hp
        simp only [checkSelection]
        rw [allQ_append]
        exact ⟨checkDirectives_Q hS vars dirs _ (pq_cons.mp (pq_cons.mp hp).2).2,
          hH seen vars root name namePos pos hr (pq_cons.mp hp).1 (pq_cons.mp (pq_cons.mp hp).2).1⟩
      | inline cond dirs ss pos =>
        simp only [Selection.positions] at hp
        have h1 := pq_cons.mp (pq_append.mp hp).2
        have hpos := h1.1
        have hdirs := (pq_append.mp h1.2).1
        have hss := (pq_append.mp h1.2).2
        have hsz' : Selection.sizeList ss ≤ k := by simp only [Selection.size] at hsz; omega
        simp only [checkSelection]
        rw [allQ_append]
        refine ⟨checkDirectives_Q hS vars dirs _ hdirs, ?_⟩
        cases cond with
        | none => exact ih ss hsz' root fields hr hf hss
        | some c =>
          obtain ⟨c, cp⟩ := c
          have hcp : Q cp := (pq_append.mp hp).1 cp (by simp [optNamePos])
          simp only
          cases hct : S.typeDef? c with
          | none => exact allQ_single.mpr hcp
          | some ct =>
            simp only
            have hctq : FromS S ct := ⟨_, hct⟩
            rw [allQ_append]
            refine ⟨spreadApplicability_Q hS root ct pos hr hctq hpos, ?_⟩
            apply allQ_ite
            · intro _
              cases hdf : directFields ct with
              | none => exact allQ_single.mpr hpos
              | some cfields => exact ih ss hsz' ct cfields hctq (directFields_FieldsQ hS hctq hdf) hss
            · intro _; exact allQ_nil
    intro ss hsz root fields hr hf hp
    cases ss with
    | nil => simp only [checkSelections]; exact allQ_nil
    | cons s ss =>
      simp only [Selection.sizeList] at hsz
      simp only [Selection.positionsList] at hp
      simp only [checkSelections]
      rw [allQ_append]
      refine ⟨hsel s (by omega) root fields hr hf (pq_append.mp hp).1, ?_⟩
      -- the tail is a selection list of size ≤ k + 1 too: iterate
      have htail : ∀ (ts : List Selection), Selection.sizeList ts ≤ k + 1 → PQ Q (Selection.positionsList ts) →
          AllQ Q (checkSelections S H seen vars root fields ts) := by
        intro ts
        induction ts with
        | nil => intro _ _; simp only [checkSelections]; exact allQ_nil
        | cons t ts iht =>
          intro hsz2 hp2
          simp only [Selection.sizeList] at hsz2
          simp only [Selection.positionsList] at hp2
          simp only [checkSelections]
          rw [allQ_append]
          exact ⟨hsel t (by omega) root fields hr hf (pq_append.mp hp2).1, iht (by omega) (pq_append.mp hp2).2⟩
      exact htail ss (by omega) (pq_append.mp hp).2

theorem checkSelectionSet_Q (H : SpreadHandler) (hH : HQ S Q H) (seen : List Name) (vars : Option (List VarDef))
    (root : TypeDef) (sels : List Selection) (anchor : Pos) (hr : FromS S root) (ha : Q anchor)
    (hp : PQ Q (Selection.positionsList sels)) : AllQ Q (checkSelectionSet S H seen vars root sels anchor) := by
  unfold checkSelectionSet
  cases hdf : directFields root with
  | none => exact allQ_single.mpr ha
  | some fields =>
    exact checkSelections_Q hS H hH seen vars _ sels (Nat.le_refl _) root fields hr (directFields_FieldsQ hS hr hdf) hp

end walk

end NitroVerif.CliComposed
