import NitroVerif.Spec.JsonText
import NitroVerif.Model.PrintMap
/-!
# C12, text level — the writer's text as a list of characters, and the string lemma

`chars t` is `(PrintMap.jsonText t).toList` (`jsonText_toList`): json-writer's compact text as the list of characters the
reference readers of `Spec/JsonText.lean` consume.

String lemma (`strBody_esc`, `js_strBody_esc`): for EVERY string `s` and every text `rest`, reading the escaped characters of
`s`, the closing quotation mark and `rest` gives back exactly `s` and `rest` — with the RFC 8259 scanner and with the ECMA-262
scanner. One character of `s` at a time (`strBodyFuel_escChar`): the nine classes of json-writer's `REPLACEMENTS` table
(`"` `\` `/` BS FF LF CR HT, the other C0 controls as `\u00XX`) and every other character (raw).
-/
namespace NitroVerif.JsonText
open NitroVerif NitroVerif.PrintMap

/-! ## the text as a list of characters -/

/-- the escaped characters of a string, without the quotation marks -/
def escChars (s : List Char) : List Char := s.flatMap jsonEscChar

/-- `write_string` -/
def strChars (s : String) : List Char := '"' :: (escChars s.toList ++ ['"'])

mutual
/-- `PrintMap.jsonText` as a list of characters -/
def chars : Json → List Char
  | .null => ['n', 'u', 'l', 'l']
  | .bool b => if b then ['t', 'r', 'u', 'e'] else ['f', 'a', 'l', 's', 'e']
  | .num r => r.toList
  | .str s => strChars s
  | .arr xs => '[' :: (charsList xs true ++ [']'])
  | .obj kvs => '{' :: (charsFields kvs true ++ ['}'])
def charsList : List Json → Bool → List Char
  | [], _ => []
  | x :: xs, first => (if first then [] else [',']) ++ chars x ++ charsList xs false
def charsFields : List (String × Json) → Bool → List Char
  | [], _ => []
  | (k, v) :: r, first => (if first then [] else [',']) ++ strChars k ++ ':' :: chars v ++ charsFields r false
end

theorem jsonStr_toList (s : String) : (jsonStr s).toList = strChars s := by
  simp [jsonStr, strChars, escChars, String.toList_append, String.toList_ofList]

mutual
theorem jsonText_toList : (t : Json) → (jsonText t).toList = chars t
  | .null => by simp [jsonText, chars]
  | .bool b => by cases b <;> simp [jsonText, chars]
  | .num r => by simp [jsonText, chars]
  | .str s => by simp [jsonText, chars, jsonStr_toList]
  | .arr xs => by simp [jsonText, chars, String.toList_append, jsonTextList_toList xs true]
  | .obj kvs => by simp [jsonText, chars, String.toList_append, jsonTextFields_toList kvs true]
theorem jsonTextList_toList : (xs : List Json) → (first : Bool) → (jsonTextList xs first).toList = charsList xs first
  | [], _ => by simp [jsonTextList, charsList]
  | x :: xs, first => by
    cases first <;>
      simp [jsonTextList, charsList, String.toList_append, jsonText_toList x, jsonTextList_toList xs false]
theorem jsonTextFields_toList : (kvs : List (String × Json)) → (first : Bool) →
    (jsonTextFields kvs first).toList = charsFields kvs first
  | [], _ => by simp [jsonTextFields, charsFields]
  | (k, v) :: r, first => by
    cases first <;>
      simp [jsonTextFields, charsFields, String.toList_append, jsonStr_toList, jsonText_toList v,
        jsonTextFields_toList r false]
end

/-! ## the string lemma -/

theorem hex4_control : ∀ n, n < 32 → hex4 '0' '0' (hexDigit (n / 16)) (hexDigit (n % 16)) = some n := by
  decide

theorem not_surrogate_of_lt {n : Nat} (h : n < 32) : isHighSurrogate n = false ∧ isLowSurrogate n = false := by
  simp [isHighSurrogate, isLowSurrogate]; omega

/-- one character of the string, as json-writer escapes it, read by the RFC 8259 scanner -/
theorem strBodyFuel_escChar (c : Char) (f : Nat) (tail : List Char) :
    strBodyFuel (f + 1) (jsonEscChar c ++ tail) = push c (strBodyFuel f tail) := by
  unfold jsonEscChar
  split
  · subst_vars; simp [strBodyFuel, simpleEscape]
  split
  · subst_vars; simp [strBodyFuel, simpleEscape]
  split
  · subst_vars; simp [strBodyFuel, simpleEscape]
  split
  · rename_i h; have : c = Char.ofNat 8 := by rw [← h, Char.ofNat_toNat]
    subst this; simp [strBodyFuel, simpleEscape]
  split
  · rename_i h; have : c = Char.ofNat 12 := by rw [← h, Char.ofNat_toNat]
    subst this; simp [strBodyFuel, simpleEscape]
  split
  · subst_vars; simp [strBodyFuel, simpleEscape]
  split
  · subst_vars; simp [strBodyFuel, simpleEscape]
  split
  · subst_vars; simp [strBodyFuel, simpleEscape]
  split
  · rename_i h
    have hs := not_surrogate_of_lt h
    simp [strBodyFuel, hex4_control _ h, unicodeEscape, hs.1, hs.2, Char.ofNat_toNat]
  · rename_i h1 h2 h3 h4 h5 h6 h7 h8 h9
    simp [strBodyFuel, h1, h2, h9]

theorem push_some (c : Char) (cs r : List Char) : push c (some (cs, r)) = some (c :: cs, r) := rfl

theorem strBodyFuel_esc (s rest : List Char) : ∀ f, s.length < f →
    strBodyFuel f (escChars s ++ '"' :: rest) = some (s, rest) := by
  induction s with
  | nil =>
    intro f hf
    obtain ⟨f, rfl⟩ : ∃ g, f = g + 1 := ⟨f - 1, by simp at hf; omega⟩
    simp [escChars, strBodyFuel]
  | cons c s ih =>
    intro f hf
    obtain ⟨f, rfl⟩ : ∃ g, f = g + 1 := ⟨f - 1, by simp at hf; omega⟩
    have : escChars (c :: s) ++ '"' :: rest = jsonEscChar c ++ (escChars s ++ '"' :: rest) := by
      simp [escChars]
    rw [this, strBodyFuel_escChar, ih f (by simp at hf; omega), push_some]

theorem length_jsonEscChar (c : Char) : 1 ≤ (jsonEscChar c).length := by
  unfold jsonEscChar
  repeat' split
  all_goals simp

theorem length_escChars (s : List Char) : s.length ≤ (escChars s).length := by
  induction s with
  | nil => simp [escChars]
  | cons c s ih =>
    have := length_jsonEscChar c
    simp [escChars] at ih ⊢
    omega

/-- STRING LEMMA (RFC 8259): the escaped characters of ANY string, the closing quotation mark and any text behind it are read
    back as exactly that string and that text -/
theorem strBody_esc (s rest : List Char) : strBody (escChars s ++ '"' :: rest) = some (s, rest) := by
  unfold strBody
  apply strBodyFuel_esc
  have := length_escChars s
  simp
  omega

/-! ### the same with the ECMA-262 scanner -/

/-- one character of the string, as json-writer escapes it, read by the ECMA-262 scanner of a `"`-delimited literal -/
theorem js_strBodyFuel_escChar (c : Char) (f : Nat) (tail : List Char) :
    JsLit.strBodyFuel '"' true (f + 1) (jsonEscChar c ++ tail) = push c (JsLit.strBodyFuel '"' true f tail) := by
  unfold jsonEscChar
  split
  · subst_vars; simp [JsLit.strBodyFuel, JsLit.singleEscape, JsLit.isLineTerminator, isDigit]
  split
  · subst_vars; simp [JsLit.strBodyFuel, JsLit.singleEscape, JsLit.isLineTerminator, isDigit]
  split
  · subst_vars; simp [JsLit.strBodyFuel, JsLit.singleEscape, JsLit.isLineTerminator, isDigit]
  split
  · rename_i h; have : c = Char.ofNat 8 := by rw [← h, Char.ofNat_toNat]
    subst this; simp [JsLit.strBodyFuel, JsLit.singleEscape, JsLit.isLineTerminator, isDigit]
  split
  · rename_i h; have : c = Char.ofNat 12 := by rw [← h, Char.ofNat_toNat]
    subst this; simp [JsLit.strBodyFuel, JsLit.singleEscape, JsLit.isLineTerminator, isDigit]
  split
  · subst_vars; simp [JsLit.strBodyFuel, JsLit.singleEscape, JsLit.isLineTerminator, isDigit]
  split
  · subst_vars; simp [JsLit.strBodyFuel, JsLit.singleEscape, JsLit.isLineTerminator, isDigit]
  split
  · subst_vars; simp [JsLit.strBodyFuel, JsLit.singleEscape, JsLit.isLineTerminator, isDigit]
  split
  · rename_i h
    have hs := not_surrogate_of_lt h
    simp [JsLit.strBodyFuel, hex4_control _ h, unicodeEscape, hs.1, hs.2, Char.ofNat_toNat]
  · rename_i h1 h2 h3 h4 h5 h6 h7 h8 h9
    have h10 : ¬ c.toNat = 10 := by
      intro h; apply h6; rw [← Char.ofNat_toNat c, h]
    have h13 : ¬ c.toNat = 13 := by
      intro h; apply h7; rw [← Char.ofNat_toNat c, h]
    simp [JsLit.strBodyFuel, h1, h2, h10, h13]

theorem js_strBodyFuel_esc (s rest : List Char) : ∀ f, s.length < f →
    JsLit.strBodyFuel '"' true f (escChars s ++ '"' :: rest) = some (s, rest) := by
  induction s with
  | nil =>
    intro f hf
    obtain ⟨f, rfl⟩ : ∃ g, f = g + 1 := ⟨f - 1, by simp at hf; omega⟩
    simp [escChars, JsLit.strBodyFuel]
  | cons c s ih =>
    intro f hf
    obtain ⟨f, rfl⟩ : ∃ g, f = g + 1 := ⟨f - 1, by simp at hf; omega⟩
    have : escChars (c :: s) ++ '"' :: rest = jsonEscChar c ++ (escChars s ++ '"' :: rest) := by
      simp [escChars]
    rw [this, js_strBodyFuel_escChar, ih f (by simp at hf; omega), push_some]

/-- STRING LEMMA (ECMA-262): the same text read as the rest of a `"`-delimited ECMAScript string literal -/
theorem js_strBody_esc (s rest : List Char) : JsLit.strBody true '"' (escChars s ++ '"' :: rest) = some (s, rest) := by
  unfold JsLit.strBody
  apply js_strBodyFuel_esc
  have := length_escChars s
  simp
  omega

end NitroVerif.JsonText
