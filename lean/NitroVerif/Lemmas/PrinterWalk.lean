import NitroVerif.Lemmas.TokChunks
/-!
C16: a walk over every printing function of `Model/GqlPrint.lean` showing that the punctuator and layout tokens
it emits (the printer's own fixed texts — its call sites of `writer.write("…")`) satisfy the chunk condition:
none holds a CR, none ends in `$`. What remains of `Tok.chunkOK` concerns only the names / numbers of the document.
-/
namespace NitroVerif.GqlPrint
open NitroVerif.Gql NitroVerif.JsTemplate

/-- punctuators and layout are fixed texts of the printer: the part of `chunkOK` that does not depend on the document -/
def Tok.fixedOK : Tok → Bool
  | .p s | .lay s => goodText s.toList
  | _ => true

/-- the part of `chunkOK` that depends on the document: names, numbers, variable names -/
def Tok.nameOK : Tok → Bool
  | .name s | .int s | .float s => goodText s.toList
  | .var n => goodText n.toList && headNotBrace n.toList
  | _ => true

theorem chunkOK_of (t : Tok) (h1 : t.fixedOK = true) (h2 : t.nameOK = true) : t.chunkOK = true := by
  cases t with
  | var n => simpa [Tok.chunkOK, Tok.nameOK] using h2
  | _ => simp_all [Tok.chunkOK, Tok.fixedOK, Tok.nameOK]

def allFixed (ts : List Tok) : Bool := ts.all Tok.fixedOK

@[simp] theorem allFixed_nil : allFixed [] = true := rfl
@[simp] theorem allFixed_append (a b : List Tok) : allFixed (a ++ b) = (allFixed a && allFixed b) := by simp [allFixed]
@[simp] theorem allFixed_cons (t : Tok) (ts : List Tok) : allFixed (t :: ts) = (t.fixedOK && allFixed ts) := by simp [allFixed]

theorem fixed_type (t : GType) : allFixed (printType t) = true := by
  induction t with
  | named n p => simp [printType, Tok.fixedOK]
  | list t p ih => simp [printType, Tok.fixedOK, ih]; decide
  | nonNull t ih => simp [printType, Tok.fixedOK, ih]; decide

mutual
theorem fixed_value : (v : Value) → allFixed (printValue v) = true
  | .var n _ => by simp [printValue, Tok.fixedOK]
  | .int s _ => by simp [printValue, Tok.fixedOK]
  | .float s _ => by simp [printValue, Tok.fixedOK]
  | .str s _ => by simp [printValue, Tok.fixedOK]
  | .bool b _ => by simp [printValue, Tok.fixedOK]
  | .null _ => by simp [printValue, Tok.fixedOK]
  | .enum n _ => by simp [printValue, Tok.fixedOK]
  | .list vs _ => by
    have := fixed_valueList vs true
    simp [printValue, Tok.fixedOK, this]; decide
  | .obj [] _ => by simp [printValue, Tok.fixedOK]; decide
  | .obj [(k, _, v)] _ => by
    have := fixed_value v
    simp [printValue, Tok.fixedOK, sp, this]; decide
  | .obj (f1 :: f2 :: fs) _ => by
    have := fixed_fieldLines (f1 :: f2 :: fs)
    simp [printValue, Tok.fixedOK, nl, this]; decide
theorem fixed_valueList : (vs : List Value) → (b : Bool) → allFixed (printValueList vs b) = true
  | [], _ => by simp [printValueList]
  | v :: vs, b => by
    have h1 := fixed_value v
    have h2 := fixed_valueList vs false
    cases b <;> simp [printValueList, Tok.fixedOK, h1, h2] <;> decide
theorem fixed_fieldLines : (fs : List (Name × Pos × Value)) → allFixed (printFieldLines fs) = true
  | [] => by simp [printFieldLines]
  | (k, _, v) :: r => by
    have h1 := fixed_value v
    have h2 := fixed_fieldLines r
    simp [printFieldLines, Tok.fixedOK, sp, nl, h1, h2]; decide
end

theorem fixed_args : (as : List Arg) → allFixed (printArgs as) = true
  | [] => by simp [printArgs]
  | [(k, _, v)] => by
    have := fixed_value v
    simp [printArgs, Tok.fixedOK, sp, this]; decide
  | a1 :: a2 :: as => by
    have := fixed_fieldLines (a1 :: a2 :: as)
    simp [printArgs, Tok.fixedOK, nl, this]; decide

theorem fixed_directive (d : Directive) : allFixed (printDirective d) = true := by
  simp [printDirective, Tok.fixedOK, fixed_args]; decide

theorem fixed_dirs (ds : List Directive) : allFixed (printDirs ds) = true := by
  induction ds with
  | nil => simp [printDirs]
  | cons d ds ih => simp [printDirs, Tok.fixedOK, sp, fixed_directive, ih]; decide

theorem fixed_dirsTight (ds : List Directive) : allFixed (printDirsTight ds) = true := by
  induction ds with
  | nil => simp [printDirsTight]
  | cons d ds ih => simp [printDirsTight, fixed_directive, ih]

theorem fixed_desc (d : Option String) : allFixed (printDesc d) = true := by
  cases d <;> simp [printDesc, Tok.fixedOK, nl] <;> decide

mutual
theorem fixed_selection : (s : Selection) → allFixed (printSelection s) = true
  | .field al n _ as ds none => by
    rcases al with _ | ⟨a, p⟩ <;> simp [printSelection, Tok.fixedOK, sp, fixed_args, fixed_dirs] <;> decide
  | .field al n _ as ds (some xs) => by
    have := fixed_selLines xs
    rcases al with _ | ⟨a, p⟩ <;> simp [printSelection, Tok.fixedOK, sp, nl, fixed_args, fixed_dirs, this] <;> decide
  | .spread n _ ds _ => by simp [printSelection, Tok.fixedOK, sp, fixed_dirs]; decide
  | .inline c ds ss _ => by
    have := fixed_selLines ss
    rcases c with _ | ⟨t, p⟩ <;> simp [printSelection, Tok.fixedOK, sp, nl, fixed_dirs, this] <;> decide
theorem fixed_selLines : (ss : List Selection) → allFixed (printSelLines ss) = true
  | [] => by simp [printSelLines]
  | s :: ss => by
    have h1 := fixed_selection s
    have h2 := fixed_selLines ss
    simp [printSelLines, Tok.fixedOK, nl, h1, h2]; decide
end

theorem fixed_selSet (ss : List Selection) : allFixed (printSelSet ss) = true := by
  simp [printSelSet, Tok.fixedOK, nl, fixed_selLines]; decide

theorem fixed_varDef (v : VarDef) : allFixed (printVarDef v) = true := by
  cases h : v.default <;> simp [printVarDef, h, Tok.fixedOK, sp, fixed_type, fixed_value, fixed_dirs] <;> decide

theorem fixed_varDefsSep (vs : List VarDef) : ∀ b, allFixed (printVarDefsSep vs b) = true := by
  induction vs with
  | nil => intro b; simp [printVarDefsSep]
  | cons v vs ih => intro b; cases b <;> simp [printVarDefsSep, Tok.fixedOK, fixed_varDef, ih] <;> decide

theorem fixed_varDefs : (vs : List VarDef) → allFixed (printVarDefs vs) = true
  | [] => by simp [printVarDefs]
  | [v] => by simp [printVarDefs, Tok.fixedOK, fixed_varDef]; decide
  | v1 :: v2 :: vs => by simp [printVarDefs, Tok.fixedOK, nl, fixed_varDefsSep]; decide

theorem fixed_operation (o : OperationDef) : allFixed (printOperation o) = true := by
  rcases h : o.name with _ | ⟨n, p⟩ <;>
    simp [printOperation, h, Tok.fixedOK, sp, nl, fixed_varDefs, fixed_dirs, fixed_selSet] <;> decide

theorem fixed_fragment (f : FragmentDef) : allFixed (printFragment f) = true := by
  simp [printFragment, Tok.fixedOK, sp, nl, fixed_dirs, fixed_selSet]; decide

theorem fixed_importTargets (ts : List (Option (Name × Pos))) : ∀ b, allFixed (printImportTargets ts b) = true := by
  induction ts with
  | nil => intro b; simp [printImportTargets]
  | cons t ts ih =>
    intro b
    rcases t with _ | ⟨n, p⟩ <;> cases b <;> simp [printImportTargets, Tok.fixedOK, ih] <;> decide

theorem fixed_import (i : ImportDef) : allFixed (printImport i) = true := by
  simp [printImport, Tok.fixedOK, sp, nl, fixed_importTargets]; decide

theorem fixed_execDef (d : ExecDef) : allFixed (printExecDef d) = true := by
  cases d <;> simp [printExecDef, fixed_operation, fixed_fragment, fixed_import]

theorem fixed_doc (d : Doc) : allFixed (printDoc d) = true := by
  induction d with
  | nil => simp [printDoc]
  | cons x xs ih => simp [printDoc, fixed_execDef, ih]

theorem fixed_inputValueDef (v : InputValueDef) : allFixed (printInputValueDef v) = true := by
  cases h : v.default <;>
    simp [printInputValueDef, h, Tok.fixedOK, sp, fixed_desc, fixed_type, fixed_value, fixed_dirs] <;> decide

theorem fixed_argDefsSep (vs : List InputValueDef) : ∀ b, allFixed (printArgDefsSep vs b) = true := by
  induction vs with
  | nil => intro b; simp [printArgDefsSep]
  | cons v vs ih => intro b; cases b <;> simp [printArgDefsSep, Tok.fixedOK, fixed_inputValueDef, ih] <;> decide

theorem fixed_argDefs : (vs : List InputValueDef) → allFixed (printArgDefs vs) = true
  | [] => by simp [printArgDefs]
  | v :: vs => by simp [printArgDefs, Tok.fixedOK, fixed_argDefsSep]; decide

theorem fixed_fieldDef (f : FieldDef) : allFixed (printFieldDef f) = true := by
  simp [printFieldDef, Tok.fixedOK, sp, fixed_desc, fixed_argDefs, fixed_type, fixed_dirs]; decide

theorem fixed_enumValueDef (v : EnumValueDef) : allFixed (printEnumValueDef v) = true := by
  simp [printEnumValueDef, Tok.fixedOK, fixed_desc, fixed_dirs]

theorem fixed_fieldLinesTs (fs : List FieldDef) : allFixed (printFieldLinesTs fs) = true := by
  induction fs with
  | nil => simp [printFieldLinesTs]
  | cons f fs ih => simp [printFieldLinesTs, Tok.fixedOK, nl, fixed_fieldDef, ih]; decide

theorem fixed_enumValueLines (fs : List EnumValueDef) : allFixed (printEnumValueLines fs) = true := by
  induction fs with
  | nil => simp [printEnumValueLines]
  | cons f fs ih => simp [printEnumValueLines, Tok.fixedOK, nl, fixed_enumValueDef, ih]; decide

theorem fixed_inputLines (fs : List InputValueDef) : allFixed (printInputLines fs) = true := by
  induction fs with
  | nil => simp [printInputLines]
  | cons f fs ih => simp [printInputLines, Tok.fixedOK, nl, fixed_inputValueDef, ih]; decide

theorem fixed_braced (body : List Tok) (e : Bool) (h : allFixed body = true) : allFixed (braced body e) = true := by
  cases e <;> simp [braced, Tok.fixedOK, sp, nl, h] <;> decide

theorem fixed_flatMap {α} (f : α → List Tok) (l : List α) (h : ∀ x, allFixed (f x) = true) :
    allFixed (l.flatMap f) = true := by
  induction l with
  | nil => simp
  | cons a as ih => simp [List.flatMap_cons, h a, ih]

theorem fixed_implements (is : List (Name × Pos)) : allFixed (printImplements is) = true := by
  cases is with
  | nil => simp [printImplements]
  | cons i is =>
    show allFixed ([sp, Tok.name "implements"] ++ (i :: is).flatMap _) = true
    rw [allFixed_append, fixed_flatMap _ _ (by intro x; simp [Tok.fixedOK, sp]; decide)]
    decide

theorem fixed_members (ms : List (Name × Pos)) : allFixed (printMembers ms) = true := by
  unfold printMembers
  exact fixed_flatMap _ _ (by intro x; simp [Tok.fixedOK, sp]; decide)

theorem fixed_locations (ls : List Name) : allFixed (printLocations ls) = true := by
  unfold printLocations
  exact fixed_flatMap _ _ (by intro x; simp [Tok.fixedOK, sp]; decide)

theorem fixed_typeBody (t : TypeDef) (ext : Bool) : allFixed (printTypeBody t ext) = true := by
  unfold printTypeBody
  cases t.kind <;>
    simp [Tok.fixedOK, sp, nl, fixed_dirs, fixed_implements, fixed_members, fixed_braced, fixed_fieldLinesTs,
      fixed_enumValueLines, fixed_inputLines] <;> decide

theorem fixed_typeDef (t : TypeDef) : allFixed (printTypeDef t) = true := by
  simp [printTypeDef, Tok.fixedOK, sp, fixed_desc, fixed_typeBody]; decide

theorem fixed_typeExt (t : TypeDef) : allFixed (printTypeExt t) = true := by
  simp [printTypeExt, Tok.fixedOK, sp, fixed_typeBody]; decide

theorem fixed_roots (rs : List (OpKind × Name × Pos)) : allFixed (printRoots rs) = true := by
  induction rs with
  | nil => simp [printRoots]
  | cons r rs ih =>
    obtain ⟨k, n, p⟩ := r
    simp [printRoots, Tok.fixedOK, sp, nl, ih]; decide

theorem fixed_schemaDef (s : SchemaDef) : allFixed (printSchemaDef s) = true := by
  simp [printSchemaDef, Tok.fixedOK, sp, nl, fixed_desc, fixed_dirsTight, fixed_roots]; decide

theorem fixed_schemaExt (s : SchemaDef) : allFixed (printSchemaExt s) = true := by
  unfold printSchemaExt
  cases s.roots.isEmpty <;> simp [Tok.fixedOK, sp, nl, fixed_dirsTight, fixed_roots] <;> decide

theorem fixed_directiveDef (d : DirectiveDef) : allFixed (printDirectiveDef d) = true := by
  unfold printDirectiveDef
  cases d.repeatable <;> simp [Tok.fixedOK, sp, nl, fixed_desc, fixed_argDefs, fixed_locations] <;> decide

theorem fixed_tsItem (i : TsItem) : allFixed (printTsItem i) = true := by
  cases i <;> simp [printTsItem, fixed_schemaDef, fixed_typeDef, fixed_directiveDef, fixed_schemaExt, fixed_typeExt]

theorem fixed_tsDoc (d : TsDoc) : allFixed (printTsDoc d) = true := by
  induction d with
  | nil => simp [printTsDoc]
  | cons x xs ih => simp [printTsDoc, fixed_tsItem, ih]

theorem fixed_tsExtDoc (d : TsDoc) : allFixed (printTsExtDoc d) = true := by
  induction d with
  | nil => simp [printTsExtDoc]
  | cons x xs ih => simp [printTsExtDoc, Tok.fixedOK, nl, fixed_tsItem, ih]; decide

/-- a printed token list is a safe chunk sequence as soon as its names are -/
theorem safe_of_names (ts : List Tok) (hf : allFixed ts = true) (hn : ∀ t ∈ ts, t.nameOK = true) :
    safeOps false (ops ts) = true :=
  safeOps_tokens ts fun t ht => chunkOK_of t ((List.all_eq_true.mp hf) t ht) (hn t ht)

end NitroVerif.GqlPrint
