/-
Helper lemmas for C05, part 2: soundness of the value check (`checkValue S v ty = [] → valueOk S v ty`) and of
`checkArguments`, with the counting arguments they need.
-/
import NitroVerif.Lemmas.CheckTs
import NitroVerif.Lemmas.IntLit
namespace NitroVerif.CheckTs
open NitroVerif.Gql NitroVerif.ValidTs

/-! ### lists: `noDup`, counting -/

theorem noDup_iff_nodup (l : List Name) : noDup l = true ↔ l.Nodup := by
  induction l with
  | nil => simp [noDup]
  | cons x xs ih =>
    simp only [noDup, Bool.and_eq_true, Bool.not_eq_true', List.nodup_cons, ih]
    rw [contains_eq_false_iff]

/-- a duplicate-free list of names all occurring in `l2` is at most as long as `l2` -/
theorem nodup_subset_length : ∀ (l1 l2 : List Name), l1.Nodup → (∀ x ∈ l1, x ∈ l2) → l1.length ≤ l2.length := by
  intro l1
  induction l1 with
  | nil => intro l2 _ _; simp
  | cons x r ih =>
    intro l2 hnd hs
    obtain ⟨hx, hr⟩ := List.nodup_cons.mp hnd
    have hxl : x ∈ l2 := hs x List.mem_cons_self
    have := ih (l2.erase x) hr (by
      intro y hy
      have hne : y ≠ x := fun h => hx (h ▸ hy)
      exact (List.mem_erase_of_ne hne).mpr (hs y (List.mem_cons_of_mem _ hy)))
    rw [List.length_erase_of_mem hxl] at this
    have hpos : 0 < l2.length := List.length_pos_of_mem hxl
    simp only [List.length_cons]
    omega

/-- … and if it is at least as long, `l2` is duplicate-free and has no other elements -/
theorem nodup_subset_ge : ∀ (l1 l2 : List Name), l1.Nodup → (∀ x ∈ l1, x ∈ l2) → l2.length ≤ l1.length →
    l2.Nodup ∧ ∀ x ∈ l2, x ∈ l1 := by
  intro l1
  induction l1 with
  | nil =>
    intro l2 _ _ hl
    have : l2 = [] := List.eq_nil_of_length_eq_zero (by simpa using hl)
    subst this; simp
  | cons x r ih =>
    intro l2 hnd hs hl
    obtain ⟨hx, hr⟩ := List.nodup_cons.mp hnd
    have hxl : x ∈ l2 := hs x List.mem_cons_self
    have hsub : ∀ y ∈ r, y ∈ l2.erase x := by
      intro y hy
      have hne : y ≠ x := fun h => hx (h ▸ hy)
      exact (List.mem_erase_of_ne hne).mpr (hs y (List.mem_cons_of_mem _ hy))
    have hlen : (l2.erase x).length ≤ r.length := by
      rw [List.length_erase_of_mem hxl]
      simp only [List.length_cons] at hl
      omega
    obtain ⟨h1, h2⟩ := ih (l2.erase x) hr hsub hlen
    have hperm := List.perm_cons_erase hxl
    refine ⟨?_, ?_⟩
    · rw [hperm.nodup_iff, List.nodup_cons]
      exact ⟨fun hin => hx (h2 x hin), h1⟩
    · intro y hy
      by_cases hyx : y = x
      · subst hyx; exact List.mem_cons_self
      · exact List.mem_cons_of_mem _ (h2 y ((List.mem_erase_of_ne hyx).mpr hy))

theorem filter_length_lt {α : Type} (p : α → Bool) : ∀ (l : List α), (∃ a ∈ l, p a = false) →
    (l.filter p).length < l.length := by
  intro l
  induction l with
  | nil => rintro ⟨a, ha, _⟩; cases ha
  | cons x r ih =>
    rintro ⟨a, ha, hp⟩
    have hle : (r.filter p).length ≤ r.length := List.length_filter_le p r
    cases hpx : p x with
    | false => simp only [List.filter, hpx, List.length_cons]; omega
    | true =>
      rcases List.mem_cons.mp ha with rfl | har
      · rw [hpx] at hp; cases hp
      · have := ih ⟨a, har, hp⟩
        simp only [List.filter, hpx, List.length_cons]; omega

/-- in a list with distinct keys, looking an element's key up finds that element -/
theorem find?_key_of_nodup {α : Type} (key : α → Name) : ∀ (l : List α), (l.map key).Nodup → ∀ a ∈ l,
    l.find? (fun x => key x == key a) = some a := by
  intro l
  induction l with
  | nil => intro _ a ha; cases ha
  | cons x r ih =>
    intro hnd a ha
    simp only [List.map_cons, List.nodup_cons] at hnd
    obtain ⟨hx, hr⟩ := hnd
    rcases List.mem_cons.mp ha with rfl | har
    · simp [List.find?]
    · have hne : (key x == key a) = false := by
        cases hb : key x == key a with
        | false => rfl
        | true =>
          exfalso
          have : key x = key a := by simpa using hb
          exact hx (this ▸ List.mem_map.mpr ⟨a, har, rfl⟩)
      simp only [List.find?, hne]
      exact ih hr a har

/-! ### `check_value` -/

theorem stripNN_eq (ty : GType) : CheckTs.stripNN ty = ValidTs.stripNN ty := by
  induction ty with
  | named n p => rfl
  | list t p _ => rfl
  | nonNull t ih => simpa [CheckTs.stripNN, ValidTs.stripNN] using ih

theorem stripNN_not_nonNull (ty t : GType) : ValidTs.stripNN ty ≠ .nonNull t := by
  induction ty with
  | named n p => simp [ValidTs.stripNN]
  | list u p _ => simp [ValidTs.stripNN]
  | nonNull u ih => simpa [ValidTs.stripNN] using ih

theorem stripNN_unwrapped (ty : GType) : (ValidTs.stripNN ty).unwrapped = ty.unwrapped := by
  induction ty with
  | named n p => rfl
  | list u p _ => rfl
  | nonNull u ih => simpa [ValidTs.stripNN, GType.unwrapped] using ih

theorem typeDef?_name {S : Schema} {n : Name} {td : TypeDef} (h : S.typeDef? n = some td) : td.name = n := by
  unfold Schema.typeDef? at h
  simpa using List.find?_some h

theorem scalar_ok (n : Name) (v : Value) (hv : ∀ p, v ≠ .null p) (h : scalarAccepts n v = true) :
    scalarLeafOk n v = true := by
  unfold scalarAccepts at h
  unfold scalarLeafOk
  by_cases h1 : n = "Boolean"
  · subst h1; cases v <;> simp_all
  by_cases h2 : n = "Int"
  · subst h2; cases v <;> simp_all [IntLit.intLiteralFitsI32_eq]
  by_cases h3 : n = "Float"
  · subst h3; cases v <;> simp_all
  by_cases h4 : n = "String"
  · subst h4; cases v <;> simp_all
  by_cases h5 : n = "ID"
  · subst h5; cases v <;> simp_all
  simp [h1, h2, h3, h4, h5]

theorem scalar_list_custom (n : Name) (vs : List Value) (p : Pos) (h : scalarAccepts n (.list vs p) = true) :
    builtinScalar n = false := by
  unfold scalarAccepts at h
  unfold builtinScalar
  by_cases h1 : n = "Boolean"
  · subst h1; simp at h
  by_cases h2 : n = "Int"
  · subst h2; simp at h
  by_cases h3 : n = "Float"
  · subst h3; simp at h
  by_cases h4 : n = "String"
  · subst h4; simp at h
  by_cases h5 : n = "ID"
  · subst h5; simp at h
  simp [h1, h2, h3, h4, h5]

theorem Value.size_pos (v : Value) : 0 < v.size := by
  cases v <;> simp [Value.size]

theorem size_mem_list : ∀ (vs : List Value) (v : Value), v ∈ vs → v.size ≤ Value.sizeList vs := by
  intro vs
  induction vs with
  | nil => intro v hv; cases hv
  | cons x r ih =>
    intro v hv
    simp only [Value.sizeList]
    rcases List.mem_cons.mp hv with rfl | h
    · omega
    · have := ih v h; omega

theorem size_mem_fields : ∀ (fs : List (Name × Pos × Value)) (f : Name × Pos × Value), f ∈ fs →
    f.2.2.size ≤ Value.sizeFields fs := by
  intro fs
  induction fs with
  | nil => intro f hf; cases hf
  | cons x r ih =>
    intro f hf
    obtain ⟨k, q, v⟩ := x
    simp only [Value.sizeFields]
    rcases List.mem_cons.mp hf with rfl | h
    · simp
    · have := ih f h; omega

theorem checkValueList_nil {S : Schema} : ∀ (vs : List Value) (ty : GType), checkValueList S vs ty = [] →
    ∀ v ∈ vs, checkValue S v ty = [] := by
  intro vs
  induction vs with
  | nil => intro _ _ v hv; cases hv
  | cons x r ih =>
    intro ty h v hv
    simp only [checkValueList, List.append_eq_nil_iff] at h
    rcases List.mem_cons.mp hv with rfl | hr
    · exact h.1
    · exact ih ty h.2 v hr

theorem valueOkList_of {S : Schema} : ∀ (vs : List Value) (ty : GType), (∀ v ∈ vs, valueOk S v ty = true) →
    valueOkList S vs ty = true := by
  intro vs
  induction vs with
  | nil => intro _ _; simp [valueOkList]
  | cons x r ih =>
    intro ty h
    simp only [valueOkList, Bool.and_eq_true]
    exact ⟨h x List.mem_cons_self, ih ty fun v hv => h v (List.mem_cons_of_mem _ hv)⟩

/-- `checkFieldFind` checks the first field of the literal with the key -/
theorem checkFieldFind_eq {S : Schema} : ∀ (fs : List (Name × Pos × Value)) (name : Name) (ty : GType),
    checkFieldFind S fs name ty =
      match fs.find? (fun f => f.1 == name) with
      | some f => checkValue S f.2.2 ty
      | none => [] := by
  intro fs
  induction fs with
  | nil => intro _ _; simp [checkFieldFind]
  | cons x r ih =>
    intro name ty
    obtain ⟨k, q, v⟩ := x
    simp only [checkFieldFind, List.find?]
    cases hk : k == name with
    | true => simp
    | false => simp [ih]

theorem fieldsOk_of {S : Schema} {defs : List InputValueDef} : ∀ (fs : List (Name × Pos × Value)),
    (∀ f ∈ fs, ∃ ef, defs.find? (·.name == f.1) = some ef ∧ valueOk S f.2.2 ef.ty = true) →
    fieldsOk S fs defs = true := by
  intro fs
  induction fs with
  | nil => intro _; simp [fieldsOk]
  | cons x r ih =>
    intro h
    obtain ⟨k, q, v⟩ := x
    simp only [fieldsOk, Bool.and_eq_true]
    refine ⟨?_, ih fun f hf => h f (List.mem_cons_of_mem _ hf)⟩
    obtain ⟨ef, hfind, hok⟩ := h (k, q, v) List.mem_cons_self
    simp only at hfind hok
    rw [hfind]; exact hok

/-- input object types have distinct field names (a consequence of the rule `uniqueFields`) -/
def InputsNodup (S : Schema) : Prop :=
  ∀ n td, S.typeDef? n = some td → td.kind = .input → (td.inputs.map (·.name)).Nodup

theorem checkValue_sound {S : Schema} (hI : InputsNodup S) :
    ∀ (n : Nat) (v : Value), v.size ≤ n → ∀ ty, checkValue S v ty = [] → valueOk S v ty = true := by
  intro n
  induction n with
  | zero => intro v hv; have := Value.size_pos v; omega
  | succ n ih =>
    intro v hsz ty h
    -- the common ending of the arms for non-list, non-null literals
    have leaf : ∀ (w : Value), (∀ p, w ≠ .null p) →
        (match S.typeDef? ty.unwrapped with
          | none => [(ErrKind.TypeSystemError, namedPos ty)]
          | some td =>
            match td.kind with
            | TypeKind.scalar => if scalarAccepts td.name w = true then [] else [(ErrKind.TypeMismatch, w.pos)]
            | _ => [(ErrKind.TypeMismatch, w.pos)]) = [] → leafOk S ty.unwrapped w = true := by
      intro w hw hh
      unfold leafOk
      cases ht : S.typeDef? ty.unwrapped with
      | none => rw [ht] at hh; simp at hh
      | some td =>
        rw [ht] at hh
        dsimp only at hh ⊢
        cases hk : td.kind <;> rw [hk] at hh <;> simp at hh
        rw [typeDef?_name ht] at hh
        exact scalar_ok _ _ hw hh
    cases v with
    | var x p => simp [checkValue] at h
    | int s p =>
      simp only [checkValue] at h
      simp only [valueOk]
      exact leaf (.int s p) (by intro q hc; cases hc) h
    | float s p =>
      simp only [checkValue] at h
      simp only [valueOk]
      exact leaf (.float s p) (by intro q hc; cases hc) h
    | str s p =>
      simp only [checkValue] at h
      simp only [valueOk]
      exact leaf (.str s p) (by intro q hc; cases hc) h
    | bool b p =>
      simp only [checkValue] at h
      simp only [valueOk]
      exact leaf (.bool b p) (by intro q hc; cases hc) h
    | null p =>
      simp only [checkValue] at h
      simp only [valueOk]
      cases hn : ty.isNonNull with
      | false => rfl
      | true => rw [hn] at h; simp at h
    | enum e p =>
      simp only [checkValue] at h
      simp only [valueOk]
      unfold leafOk
      cases ht : S.typeDef? ty.unwrapped with
      | none => rw [ht] at h; simp at h
      | some td =>
        rw [ht] at h
        dsimp only at h ⊢
        cases hk : td.kind <;> rw [hk] at h <;> simp at h
        · rw [typeDef?_name ht] at h
          exact scalar_ok _ _ (by intro q hc; cases hc) h
        · simpa using h
    | list vs p =>
      simp only [checkValue, stripNN_eq] at h
      simp only [valueOk]
      cases hs : ValidTs.stripNN ty with
      | nonNull t => exact absurd hs (stripNN_not_nonNull ty t)
      | list inner q =>
        rw [hs] at h
        dsimp only at h ⊢
        apply valueOkList_of
        intro v hv
        apply ih v _ inner (checkValueList_nil vs inner h v hv)
        have := size_mem_list vs v hv
        simp only [Value.size] at hsz
        omega
      | named nm q =>
        rw [hs] at h
        dsimp only at h ⊢
        cases ht : S.typeDef? nm with
        | none => rw [ht] at h; simp at h
        | some td =>
          rw [ht] at h
          dsimp only at h
          cases hk : td.kind <;> rw [hk] at h <;> simp at h
          rw [typeDef?_name ht] at h
          simp [Schema.kindOf?, ht, hk, scalar_list_custom nm [] p h]
    | obj fs p =>
      simp only [checkValue] at h
      simp only [valueOk]
      cases ht : S.typeDef? ty.unwrapped with
      | none => rw [ht] at h; simp at h
      | some td =>
        rw [ht] at h
        dsimp only at h ⊢
        cases hk : td.kind <;> rw [hk] at h <;> simp only [] at h ⊢
        case scalar =>
          unfold leafOk
          rw [ht]; dsimp only; rw [hk]; dsimp only
          have : scalarAccepts td.name (Value.obj [] p) = true := by
            cases hc : scalarAccepts td.name (Value.obj [] p) with
            | true => rfl
            | false => rw [hc] at h; simp at h
          rw [typeDef?_name ht] at this
          exact scalar_ok _ _ (by intro q hc; cases hc) this
        case input =>
          simp only [List.append_eq_nil_iff] at h
          obtain ⟨h1, h2⟩ := h
          have hshape : objShapeOk td.inputs fs = true := by
            cases hc : objShapeOk td.inputs fs with
            | true => rfl
            | false => rw [hc] at h2; simp at h2
          unfold objShapeOk at hshape
          simp only [Bool.and_eq_true, Bool.not_eq_true', decide_eq_false_iff_not, Nat.not_lt] at hshape
          obtain ⟨hreq, hcnt⟩ := hshape
          have hdefs : (td.inputs.map (·.name)).Nodup := hI _ td ht hk
          let P := td.inputs.filter fun ef => fs.any (·.1 == ef.name)
          have hPnd : (P.map (·.name)).Nodup :=
            hdefs.sublist (List.Sublist.map _ (List.filter_sublist))
          have hPsub : ∀ x ∈ P.map (·.name), x ∈ fs.map (·.1) := by
            intro x hx
            obtain ⟨ef, hef, rfl⟩ := List.mem_map.mp hx
            have := (List.mem_filter.mp hef).2
            obtain ⟨f, hf, hfe⟩ := List.any_eq_true.mp this
            exact List.mem_map.mpr ⟨f, hf, by simpa using hfe⟩
          have hlen : (fs.map (·.1)).length ≤ (P.map (·.name)).length := by
            simpa using hcnt
          obtain ⟨hknd, hksub⟩ := nodup_subset_ge _ _ hPnd hPsub hlen
          simp only [Bool.and_eq_true]
          refine ⟨⟨(noDup_iff_nodup _).mpr hknd, ?_⟩, ?_⟩
          · simp only [List.all_eq_true, Bool.or_eq_true, Bool.not_eq_true']
            intro ef hef
            have hany := List.any_eq_false.mp hreq ef hef
            simp only [Bool.and_eq_true, Bool.not_eq_true', not_and, Bool.not_eq_true] at hany
            cases hp : fs.any (fun x => x.1 == ef.name) with
            | true => left; rfl
            | false => right; exact hany hp
          · apply fieldsOk_of
            intro f hf
            have hk1 : f.1 ∈ P.map (·.name) := hksub _ (List.mem_map.mpr ⟨f, hf, rfl⟩)
            obtain ⟨ef, hefP, hname⟩ := List.mem_map.mp hk1
            have hef : ef ∈ td.inputs := (List.mem_filter.mp hefP).1
            have hfind := find?_key_of_nodup (fun (x : InputValueDef) => x.name) td.inputs hdefs ef hef
            simp only [hname] at hfind
            refine ⟨ef, hfind, ?_⟩
            have hcf := (List.flatMap_eq_nil_iff.mp h1) ef hef
            rw [checkFieldFind_eq, hname] at hcf
            have hff := find?_key_of_nodup (fun (x : Name × Pos × Value) => x.1) fs hknd f hf
            rw [hff] at hcf
            apply ih f.2.2 _ ef.ty hcf
            have := size_mem_fields fs f hf
            simp only [Value.size] at hsz
            omega
        all_goals (simp at h)

/-! ### `check_arguments` -/

/-- what an empty `checkArguments` says: every definition's argument is absent-and-optional or present with
    a checked value, and every given argument is defined (counting argument of the Rust code:
    "as many definitions matched as arguments given") -/
theorem checkArguments_nil {S : Schema} {pos : Pos} {args : List Arg} {defs : List InputValueDef}
    (hnd : (defs.map (·.name)).Nodup) (h : checkArguments S pos args defs = []) :
    (∀ ad ∈ defs, (args.any (·.1 == ad.name) = true ∨ requiredArg ad = false) ∧
      ∀ a, args.find? (·.1 == ad.name) = some a → checkValue S a.2.2 ad.ty = []) ∧
    (∀ a ∈ args, ∃ ad ∈ defs, ad.name = a.1) ∧ (args.map (·.1)).Nodup := by
  unfold checkArguments at h
  cases hde : defs.isEmpty with
  | true =>
    rw [hde] at h
    simp only [if_true] at h
    have hd : defs = [] := List.isEmpty_iff.mp hde
    have ha : args = [] := by
      cases hae : args.isEmpty with
      | true => exact List.isEmpty_iff.mp hae
      | false => rw [hae] at h; simp at h
    subst hd; subst ha
    exact ⟨(by intro ad h; cases h), (by intro a h; cases h), List.nodup_nil⟩
  | false =>
    rw [hde] at h
    simp only [Bool.false_eq_true, if_false, List.append_eq_nil_iff, List.flatMap_eq_nil_iff] at h
    obtain ⟨⟨hdup, h1⟩, h2⟩ := h
    have hkeys : (args.map (·.1)).Nodup :=
      (noDup_iff_nodup _).mp (loopSeen_nil (·.1) _ (by intro x; simp) args [] hdup).2.2
    have hknown : ∀ a ∈ args, ∃ ad ∈ defs, ad.name = a.1 := by
      intro a ha
      cases hu : defs.all (fun d => d.name != a.1) with
      | false =>
        obtain ⟨ad, had, hne⟩ := List.all_eq_false.mp hu
        exact ⟨ad, had, by simpa using hne⟩
      | true =>
        exfalso
        -- `a` is unknown: fewer definitions are matched than arguments are given, so `a` is reported
        let P := defs.filter fun ad => args.any (·.1 == ad.name)
        let K := args.filter fun x => !(defs.all fun d => d.name != x.1)
        have hPnd : (P.map (·.name)).Nodup := hnd.sublist (List.Sublist.map _ List.filter_sublist)
        have hPK : ∀ x ∈ P.map (·.name), x ∈ K.map (·.1) := by
          intro x hx
          obtain ⟨ad, hadP, rfl⟩ := List.mem_map.mp hx
          obtain ⟨had, hany⟩ := List.mem_filter.mp hadP
          obtain ⟨a', ha', hae⟩ := List.any_eq_true.mp hany
          have hae' : a'.1 = ad.name := by simpa using hae
          refine List.mem_map.mpr ⟨a', List.mem_filter.mpr ⟨ha', ?_⟩, hae'⟩
          simp only [Bool.not_eq_true', List.all_eq_false, bne_iff_ne, ne_eq, Classical.not_not]
          exact ⟨ad, had, hae'.symm⟩
        have h3 := nodup_subset_length _ _ hPnd hPK
        have h4 : K.length < args.length := filter_length_lt _ args ⟨a, ha, by simp [hu]⟩
        have hlt : P.length < args.length := by
          simp only [List.length_map] at h3; omega
        have hlt' : (defs.filter fun ad => args.any (·.1 == ad.name)).length < args.length := hlt
        rw [if_pos hlt'] at h2
        simp only [List.map_eq_nil_iff, List.filter_eq_nil_iff] at h2
        exact h2 a ha hu
    refine ⟨?_, hknown, hkeys⟩
    intro ad had
    have := h1 ad had
    refine ⟨?_, ?_⟩
    · cases hf : args.find? (·.1 == ad.name) with
      | none =>
        rw [hf] at this
        right
        cases hr : InputValueDef.required ad with
        | false => exact hr
        | true => rw [hr] at this; simp at this
      | some a =>
        left
        exact List.any_eq_true.mpr ⟨a, List.mem_of_find?_eq_some hf, by simpa using List.find?_some hf⟩
    · intro a hf
      rw [hf] at this
      exact this

end NitroVerif.CheckTs
