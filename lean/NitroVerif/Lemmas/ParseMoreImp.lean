/-
`#import` statements (helper lemmas for Props/C07 `parse_render_operation_document_full`):

  ext_ImportStatement        = { "#" ~ ext_ImportStatementContent }
  ext_ImportStatementContent = !{ ext_KEYWORD_import ~ ext_ImportTargets ~ ext_KEYWORD_from ~ StringValue }
  ext_ImportTargets          = { ext_NameOrAsterisk+ }
  ext_NameOrAsterisk         = _{ !ext_KEYWORD_from ~ Name | ext_PUNC_asterisk }

on the rendering `#` spaces `import` gap targets `from` gap "path" gap, followed by a `Tail`:
* `impT`     — the `ExecutableDefinition` rule succeeds with one pair on which `build_executable_definition` returns the import
               definition with the true position of `#` and of every target name;
* `imp_stop` — the implicit skip STOPS in front of the statement: `COMMENT` fails there because its negative lookahead
               `!ext_ImportStatementContent` finds the statement — the run of `ext_ImportStatementContent` proved outside
               lookahead is transferred under the lookahead by `RunsRule.look` (Lemmas/ParseMoreLook.lean).
-/
import NitroVerif.Lemmas.ParseMoreExec
namespace NitroVerif.DocParse
open NitroVerif.Peg NitroVerif.Gen NitroVerif.Gen.Parts NitroVerif.Build NitroVerif.TypeParse NitroVerif.StringParse
open NitroVerif.Gql NitroVerif.ValueParse NitroVerif.Spec.Lex NitroVerif.ParseText

set_option linter.unusedSimpArgs false
set_option linter.unusedVariables false

theorem look_ext_ImportStatement_full : gList.look R.ext_ImportStatement =
    some (.normal, .seq (.str ['#']) (.call R.ext_ImportStatementContent)) := rfl

variable {inp : List Char}

abbrev kwFrom : List Char := ['f', 'r', 'o', 'm']

theorem kwFrom_valid : validName kwFrom := ⟨by decide, fun x hx => by
  simp only [List.mem_cons, List.not_mem_nil, or_false] at hx
  rcases hx with rfl | rfl | rfl <;> decide⟩

/-! ### rule calls of the remaining kinds in the `RunsK` calculus -/

/-- a call of a `!{…}` (non-atomic) rule, with the end of its pair -/
theorem runsKE_nonAtomicKind {n r body c c1 c' ps} (hl : gList.look r = some (.nonAtomic, body))
    (hb : RunsKE n body c c1 c' ps) : RunsKE (n + 2) (.call r) c c1 c' [.mk r c.pos c1.pos ps] := by
  refine ⟨?_, hb.2.mono (by omega)⟩
  refine (runs_call (?_ : RunsRule gList (n + 1) r .nonAtomic c c1 [.mk r c.pos c1.pos ps]))
  intro tr
  obtain ⟨tr1, h1⟩ := hb.1 { tr with steps := tr.steps + 1 }
  refine ⟨tr1, fun f hf => ?_⟩
  obtain ⟨f', rfl⟩ : ∃ f', f = f' + 1 := ⟨f - 1, by omega⟩
  simp only [callRule, hl, h1 f' (by omega), ruleWrap]
  simp

/-- … called from ANY context (the kind ignores the caller's atomicity) -/
theorem runsRule_nonAtomicKind {n r body at_ c c1 ps} (hl : gList.look r = some (.nonAtomic, body))
    (hb : Runs gList n true body .nonAtomic c c1 ps) : RunsRule gList (n + 1) r at_ c c1 [.mk r c.pos c1.pos ps] := by
  intro tr
  obtain ⟨tr1, h1⟩ := hb { tr with steps := tr.steps + 1 }
  refine ⟨tr1, fun f hf => ?_⟩
  obtain ⟨f', rfl⟩ : ∃ f', f = f' + 1 := ⟨f - 1, by omega⟩
  simp only [callRule, hl, h1 f' (by omega), ruleWrap]
  simp

/-- a call of a silent rule -/
theorem runsK_silent {n r body c c' ps} (hl : gList.look r = some (.silent, body)) (h1 : r ≠ R.WHITESPACE)
    (h2 : r ≠ R.COMMENT) (hb : RunsK n body c c' ps) : RunsK (n + 2) (.call r) c c' ps := by
  obtain ⟨c1, hb1, hs⟩ := hb
  exact ⟨c1, runs_call (runsRule_silent hl (nsp h1 h2) hb1), hs.mono (by omega)⟩

theorem fails_silent {n r body c} (hl : gList.look r = some (.silent, body)) (h1 : r ≠ R.WHITESPACE)
    (h2 : r ≠ R.COMMENT) (hb : Fails gList n true body .nonAtomic c) : Fails gList (n + 2) true (.call r) .nonAtomic c :=
  fails_call (failsRule_silent hl (nsp h1 h2) hb)

/-- `a ~ b` where `a` is followed by its skip and only the run of `b` itself is needed (the END of the sequence) -/
theorem runs_seq_K {n m a b c c' c1 pa pb} (ha : RunsK n a c c' pa) (hb : Runs gList m true b .nonAtomic c' c1 pb) :
    Runs gList (max n m + 1) true (.seq a b) .nonAtomic c c1 (pa ++ pb) := by
  obtain ⟨c0, h1, h2⟩ := ha
  refine (runs_seq_skip' h1 h2 hb).mono ?_
  simp only [Nat.add_le_add_iff_right, Nat.max_le]; omega

/-! ### import targets -/

/-- one import target followed by its gap: a name (gap made non-empty when `s`) or `*` -/
def rTarget (τ : Trivia) : Bool → Nat → Option (Name × Pos) → List Char
  | s, p, some (n, _) => tk τ s p n.toList
  | _, p, none => tk τ false p ['*']

def wpTarget (inp : List Char) : Bool → Nat → Option (Name × Pos) → Option (Name × Pos)
  | _, p, some (n, _) => some (n, posAt inp p)
  | _, _, none => none

/-- what `build_executable_definition` maps over the children of `ext_ImportTargets` -/
def targetFn (ctx : Ctx) (t : Pair) : Option (String × Gql.Pos) := if t.rule = R.Name then some (ident ctx t) else none

def WFTarget : Option (Name × Pos) → Prop
  | some (n, _) => validName n.toList ∧ n.toList ≠ kwFrom
  | none => True

def TargetGood (inp : List Char) : Bool → Nat → Option (Name × Pos) → Pair → Prop := fun s q x pr =>
  CleanP pr ∧ targetFn (Ctx.spec inp) pr = wpTarget inp s q x

theorem hd_rTarget (τ : Trivia) (s : Bool) (p : Nat) (x : Option (Name × Pos)) (hwf : WFTarget x) :
    Hd (fun d => nameStart d ∨ d = '*') (rTarget τ s p x) := by
  cases x with
  | none => exact hd_tk (hd_cons _ (Or.inr rfl))
  | some a =>
    obtain ⟨n, np⟩ := a
    exact hd_tk ((hd_of_validName hwf.1).mono fun _ h => Or.inl h)

theorem targetT (τ : Trivia) (hτ : ∀ q, Ws (τ q)) (x : Option (Name × Pos)) (hwf : WFTarget x) {s : Bool} {p : Nat}
    (h : HasAt inp p (rTarget τ s p x)) (hn : Nxt inp (fun _ => False) s (p + (rTarget τ s p x).length)) :
    ∃ pr, RunsK (B (rTarget τ s p x).length + 40) (.call R.ext_NameOrAsterisk) (At inp p)
        (At inp (p + (rTarget τ s p x).length)) [pr] ∧ TargetGood inp s p x pr := by
  cases x with
  | some a =>
    obtain ⟨n, np⟩ := a
    obtain ⟨hv, hne⟩ := hwf
    simp only [rTarget] at h hn ⊢
    obtain ⟨gN, _, gGlue⟩ := tk_gap hτ h hn
    have rN := nameT hτ hv h hn
    have rNot := runsK_not (kw_fails_name (la := .neg) look_ext_KEYWORD_from kwFrom_valid hv hne gN gGlue)
      (tok_of_hd gN (hd_of_validName hv) (fun d => nameStart_not_trivia))
    have rA := runsK_silent look_ext_NameOrAsterisk (by decide) (by decide)
      (runsK_choice_l (b := .call R.ext_PUNC_asterisk) (runsK_seq rNot rN.toK))
    refine ⟨.mk R.Name p (p + n.toList.length) [], RunsK.cast (rA.mono (by barith)) rfl rfl (by simp),
      cleanP_of (by decide) (by decide) trivial, ?_⟩
    simp [targetFn, wpTarget, Pair.rule, ident, asString_spec', Pair.start, Pair.stop, gN.slice, toPos_spec']
  | none =>
    simp only [rTarget] at h hn ⊢
    have hs : HasAt inp p ['*'] := h.left
    have hstar : HeadNot nameStart (inp.drop p) := headNot_of_hd hs (hd_cons (P := (· = '*')) _ rfl) (by rintro c rfl; decide)
    have htok : Tok (At inp p) := tok_of_hd hs (hd_cons (P := (· = '*')) _ rfl) (by rintro c rfl; decide)
    have f1 : Fails gList 40 true (.seq (.not (.call R.ext_KEYWORD_from)) (.call R.Name)) .nonAtomic (At inp p) :=
      (fails_seq_K (runsK_not (kw_fails_head (la := .neg) look_ext_KEYWORD_from
          (headNot_of_hd hs (hd_cons (P := (· = '*')) _ rfl) (by rintro c rfl; decide))) htok)
        (name_fails_at hstar)).mono (by simp)
    have ht' : Tok (At inp (p + (tk τ false p ['*']).length)) := hn.tok
    have rS := strT hτ ['*'] h ht'
    obtain ⟨e, rP⟩ := runsK_rule look_ext_PUNC_asterisk (by decide) (by decide) rS
    have rA := runsK_silent look_ext_NameOrAsterisk (by decide) (by decide) (runsK_choice_r f1 rP)
    refine ⟨.mk R.ext_PUNC_asterisk (At inp p).pos e [], rA.mono (by barith), cleanP_of (by decide) (by decide) trivial, ?_⟩
    simp [targetFn, wpTarget, Pair.rule, At, R.ext_PUNC_asterisk, R.Name]

/-- `ext_NameOrAsterisk` fails in front of `from` -/
theorem target_fails_from {p : Nat} (h : HasAt inp p kwFrom) (hglue : HeadNot nameCont (inp.drop (p + kwFrom.length))) :
    Fails gList 40 true (.call R.ext_NameOrAsterisk) .nonAtomic (At inp p) := by
  obtain ⟨ps, hr⟩ := kw_runsL (la := .neg) look_ext_KEYWORD_from h hglue
  have f1 : Fails gList 20 true (.seq (.not (.call R.ext_KEYWORD_from)) (.call R.Name)) .nonAtomic (At inp p) :=
    (fails_seq_1 (fails_not hr)).mono (by omega)
  have f2 : Fails gList 20 true (.call R.ext_PUNC_asterisk) .nonAtomic (At inp p) :=
    (fails_rule look_ext_PUNC_asterisk (by decide) (by decide)
      (str_fails (headNot_of_hd h (hd_cons (P := (· = 'f')) _ rfl) (by rintro c rfl; decide)))).mono (by omega)
  exact (fails_silent look_ext_NameOrAsterisk (by decide) (by decide) (fails_choice_K f1 f2)).mono (by simp)

/-! ### the statement -/

/-- `#` followed by `k` spaces -/
def impHead (k : Nat) : List Char := '#' :: List.replicate k ' '

/-- `#` spaces `import` gap targets `from` gap "path" gap; `sp p` = number of spaces after the `#` written at offset `p` -/
def rImp (τ : Trivia) (sp : Nat → Nat) (sep : Bool) (p : Nat) (i : ImportDef) : List Char :=
  let tH := impHead (sp p)
  let tK := tk τ true (p + tH.length) kwImport
  let tT := renderItems (rTarget τ) true true (p + tH.length + tK.length) i.targets
  let tF := tk τ false (p + tH.length + tK.length + tT.length) kwFrom
  tH ++ (tK ++ (tT ++ (tF ++ tk τ sep (p + tH.length + tK.length + tT.length + tF.length) (quoted i.path.toList))))

def wpImp (τ : Trivia) (sp : Nat → Nat) (inp : List Char) (p : Nat) (i : ImportDef) : ImportDef :=
  let tH := impHead (sp p)
  let tK := tk τ true (p + tH.length) kwImport
  { targets := mapItems (rTarget τ) true true (wpTarget inp) (p + tH.length + tK.length) i.targets,
    path := i.path, pos := posAt inp p }

def WFImp (i : ImportDef) : Prop := i.targets ≠ [] ∧ ∀ t ∈ i.targets, WFTarget t

theorem p_isc_nodup : (P_ext_ImportStatementContent.map itemRule).Nodup := by decide

theorem hd_rImp (τ : Trivia) (sp : Nat → Nat) (sep : Bool) (p : Nat) (i : ImportDef) : Hd (· = '#') (rImp τ sp sep p i) :=
  hd_cons _ rfl

/-- an import statement: the definition, and the fact that the implicit skip stops in front of it -/
theorem impT (τ : Trivia) (hτ : ∀ q, Ws (τ q)) (sp : Nat → Nat) (i : ImportDef) (hwf : WFImp i) {sep : Bool} {p : Nat}
    {n : Nat} {c' : Cur} (h : HasAt inp p (rImp τ sp sep p i)) (ht : Tail inp n (p + (rImp τ sp sep p i).length) c')
    (hq : HeadNot (· = '"') (inp.drop (p + (rImp τ sp sep p i).length))) :
    DefOk' inp p (rImp τ sp sep p i) n c' (.imp (wpImp τ sp inp p i)) ∧
    FailsRule gList (B (rImp τ sp sep p i).length + 60) R.COMMENT .nonAtomic (At inp p) := by
  obtain ⟨hne, htg⟩ := hwf
  unfold DefOk'
  simp only [rImp, wpImp] at h ht hq ⊢
  generalize hH : impHead (sp p) = tH at *
  generalize hK : tk τ true (p + tH.length) kwImport = tK at *
  generalize hT : renderItems (rTarget τ) true true (p + tH.length + tK.length) i.targets = tT at *
  generalize hF : tk τ false (p + tH.length + tK.length + tT.length) kwFrom = tF at *
  generalize hS : tk τ sep (p + tH.length + tK.length + tT.length + tF.length) (quoted i.path.toList) = tS at *
  have hlen : p + (tH ++ (tK ++ (tT ++ (tF ++ tS)))).length =
      p + tH.length + tK.length + tT.length + tF.length + tS.length := by
    simp only [List.length_append]; omega
  rw [hlen] at ht hq
  have g0 : HasAt inp p tH := h.left
  have g1 : HasAt inp (p + tH.length) tK := h.right.left
  have g2 : HasAt inp (p + tH.length + tK.length) tT := h.right.right.left
  have g3 : HasAt inp (p + tH.length + tK.length + tT.length) tF := h.right.right.right.left
  have g4 : HasAt inp (p + tH.length + tK.length + tT.length + tF.length) tS := h.right.right.right.right
  have hdK : Hd (· = 'i') tK := hK ▸ hd_tk (hd_cons _ rfl)
  have hdF : Hd (· = 'f') tF := hF ▸ hd_tk (hd_cons _ rfl)
  have hdS : Hd (· = '"') tS := hS ▸ hd_tk (hd_cons _ rfl)
  have hlH : tH.length = 1 + sp p := by rw [← hH]; simp [impHead]; omega
  -- the targets
  obtain ⟨a, r, hi⟩ : ∃ a r, i.targets = a :: r := by
    cases hti : i.targets with
    | nil => exact absurd hti hne
    | cons a r => exact ⟨a, r, rfl⟩
  rw [hi] at hT htg
  have hSgap := tk_gap hτ (hF ▸ g3) (bad := fun _ => False) (by
    rw [hF]; exact Nxt.of_hd g4 hdS (by rintro c rfl; decide))
  have hnE : Nxt inp (fun _ => False) true (p + tH.length + tK.length + tT.length) :=
    Nxt.of_hd_sep g3 hdF (by rintro c rfl; decide)
  have hfail : Fails gList (40 + 100) true (.call R.ext_NameOrAsterisk) .nonAtomic
      (At inp (p + tH.length + tK.length + tT.length)) :=
    (target_fails_from hSgap.1 hSgap.2.2).mono (by omega)
  obtain ⟨pss, hmany, hgood⟩ := items_many1K (rTarget τ) true true (.call R.ext_NameOrAsterisk) (fun _ _ => False) 40
    (TargetGood inp) r a (p + tH.length + tK.length)
    (fun x hx s q hat hnx => targetT τ hτ x (htg x hx) hat hnx)
    (fun x hx s q => (hd_rTarget τ s q x (htg x hx)).mono (by
      rintro c (hc | rfl)
      · exact ⟨nameStart_not_trivia hc, id, fun h => by cases h⟩
      · exact ⟨by decide, id, fun h => by cases h⟩))
    (hT ▸ g2) (by rw [hT]; exact hnE) (by rw [hT]; exact hfail)
  rw [hT] at hmany
  obtain ⟨eT, rT⟩ := runsK_rule look_ext_ImportTargets (by decide) (by decide) (runsK_plus1 hmany)
  -- `import`
  have hdT : Hd (fun d => nameStart d ∨ d = '*') tT := by
    obtain ⟨s', tail, htl⟩ := renderItems_cons (rTarget τ) true true (p + tH.length + tK.length) a r
    rw [← hT, htl]
    exact (hd_rTarget τ s' _ a (htg a (List.mem_cons_self ..))).append _
  have rK := kwT hτ look_ext_KEYWORD_import (hK ▸ g1) (bad := fun _ => False) (by
    rw [hK]; exact Nxt.of_hd_sep g2 hdT (by
      rintro c (hc | rfl)
      · exact ⟨nameStart_not_trivia hc, id⟩
      · exact ⟨by decide, id⟩))
  rw [hK] at rK
  -- `from`
  have rF := kwT hτ look_ext_KEYWORD_from (hF ▸ g3) (bad := fun _ => False) (by
    rw [hF]; exact Nxt.of_hd g4 hdS (by rintro c rfl; decide))
  rw [hF] at rF
  -- the path
  have g4' : HasAt inp (p + tH.length + tK.length + tT.length + tF.length)
      (tk τ sep (p + tH.length + tK.length + tT.length + tF.length) (quoted i.path.toList)) := by rw [hS]; exact g4
  have hgS : HasAt inp (p + tH.length + tK.length + tT.length + tF.length + (quoted i.path.toList).length)
      (gapS sep (τ (p + tH.length + tK.length + tT.length + tF.length + (quoted i.path.toList).length))) := g4'.right
  have hlS : tS.length = (quoted i.path.toList).length +
      (gapS sep (τ (p + tH.length + tK.length + tT.length + tF.length + (quoted i.path.toList).length))).length := by
    rw [← hS, tk_length]
  have hend : StrEnd i.path.toList (inp.drop (p + tH.length + tK.length + tT.length + tF.length + (quoted i.path.toList).length)) := by
    intro _
    cases hgl : gapS sep (τ (p + tH.length + tK.length + tT.length + tF.length + (quoted i.path.toList).length)) with
    | nil =>
      have e : p + tH.length + tK.length + tT.length + tF.length + (quoted i.path.toList).length =
          p + tH.length + tK.length + tT.length + tF.length + tS.length := by rw [hlS, hgl]; simp
      rw [e]; exact hq
    | cons d rr =>
      rw [hgS.drop, hgl]
      refine headNot_cons ?_ _
      rintro rfl
      exact absurd (ws_head_trivia (ws_gapS (hτ _)) _ rr hgl) (by decide)
  have hRS : Runs gList (B tS.length) true (.call R.StringValue) .nonAtomic
      (At inp (p + tH.length + tK.length + tT.length + tF.length))
      (At inp (p + tH.length + tK.length + tT.length + tF.length + (quoted i.path.toList).length))
      [stringPair i.path.toList (p + tH.length + tK.length + tT.length + tF.length)] := by
    have := stringValue_runs i.path.toList (p + tH.length + tK.length + tT.length + tF.length) _ hend (at_ := .nonAtomic)
    simp only [At]
    rw [g4'.left.drop]
    refine (runs_call this).mono ?_
    have := specEscape_length_ge i.path.toList
    rw [hlS]; simp only [quoted, List.length_cons, List.length_append, List.length_nil, B]; omega
  have hSkipS : SkipTo (B tS.length + n)
      (At inp (p + tH.length + tK.length + tT.length + tF.length + (quoted i.path.toList).length)) c' := by
    refine (ht.skip hgS (ws_gapS (hτ _)) (by rw [hlS]; omega)).mono ?_
    rw [hlS]; simp [B]; omega
  -- ext_ImportStatementContent: the run itself (its depth does not depend on what follows), then with the final skip
  have hRunsBody := runs_seq_K rK.toK (runs_seq_K rT (runs_seq_K rF.toK hRS))
  have rBody : RunsKE (max (max (B tK.length) (max (max (B tT.length + 40 + 1) 20 + 4 + 2)
      (max (B tF.length) (B tS.length) + 1) + 1) + 1) (B tS.length + n)) _ _ _ c' _ :=
    ⟨hRunsBody.mono (Nat.le_max_left _ _), hSkipS.mono (Nat.le_max_right _ _)⟩
  have rI := runsKE_nonAtomicKind look_ext_ISC_full rBody
  -- `#` and the spaces
  have hsp : HasAt inp (p + 1) (List.replicate (sp p) ' ') := by
    have : HasAt inp p (['#'] ++ List.replicate (sp p) ' ') := by simpa [impHead, ← hH] using g0
    exact this.right
  have htokK : Tok (At inp (p + 1 + (List.replicate (sp p) ' ').length)) := by
    have e : p + 1 + (List.replicate (sp p) ' ').length = p + tH.length := by simp [hlH]; omega
    rw [e]
    exact tok_of_hd g1 hdK (by rintro c rfl; decide)
  have hgapH : Gap inp (p + 1) (List.replicate (sp p) ' ') :=
    ⟨hsp, ws_of_run (fun x hx => by
      rw [List.mem_replicate] at hx; rw [hx.2]; exact Or.inr (Or.inr (Or.inl rfl))), htokK⟩
  have hhash : HasAt inp p ['#'] := by
    have : HasAt inp p (['#'] ++ List.replicate (sp p) ' ') := by simpa [impHead, ← hH] using g0
    exact this.left
  have rH := strK ['#'] hhash hgapH
  have e1 : p + ['#'].length + (List.replicate (sp p) ' ').length = p + tH.length := by simp [hlH]; omega
  rw [e1] at rH
  have rStmt := runsKE_rule look_ext_ImportStatement_full (by decide) (by decide) (runsKE_seq rH rI)
  -- ExecutableDefinition: the two earlier alternatives fail on `#`
  have hdH : Hd (· = '#') tH := hH ▸ hd_cons _ rfl
  have f1 := opDef_fails (headNot_of_hd g0 hdH (by rintro c rfl; decide))
  have f2 : Fails gList 20 true (.call R.FragmentDefinition) .nonAtomic (At inp p) :=
    (fails_rule look_FragmentDefinition (by decide) (by decide)
      (fails_seq_1 (kw_fails_head (la := .none) look_KEYWORD_fragment
        (headNot_of_hd g0 hdH (by rintro c rfl; decide))))).mono (by omega)
  have rE := runsKE_rule look_ExecutableDefinition (by decide) (by decide)
    (runsKE_choice_r f1 (runsKE_choice_r f2 rStmt))
  have hclean : CleanL pss := goodItems_clean (rTarget τ) true true (TargetGood inp) (a :: r)
    (fun x _ s q pr hg => hg.1) _ pss hgood
  have hmap := goodItems_map (rTarget τ) true true (TargetGood inp) (targetFn (Ctx.spec inp)) (wpTarget inp) (a :: r)
    (fun x _ s q pr hg => hg.2) _ pss hgood
  have hlK : 1 ≤ tK.length := hdK.length_pos
  have hlT : 1 ≤ tT.length := hdT.length_pos
  have hlF : 1 ≤ tF.length := hdF.length_pos
  have hlS1 : 1 ≤ tS.length := hdS.length_pos
  refine ⟨⟨_, rE.toK.mono ?_, ?_, ?_⟩, ?_⟩
  · barith
  · refine pairOk_mk (by decide) (by decide) ⟨cleanP_of (by decide) (by decide) ?_, trivial⟩
    simp only [List.nil_append, cleanL_append, cleanL_cons, cleanL_nil, and_true]
    refine cleanP_of (by decide) (by decide) ?_
    simp only [cleanL_append, cleanL_cons, cleanL_nil, and_true]
    exact ⟨cleanP_of (by decide) (by decide) trivial, cleanP_of (by decide) (by decide) hclean,
      cleanP_of (by decide) (by decide) trivial, clean_stringPair _ _⟩
  · intro fuel hf
    generalize hkp : Pair.mk R.ext_KEYWORD_import (p + tH.length) (p + tH.length + kwImport.length) [] = kp at *
    generalize htp : Pair.mk R.ext_ImportTargets (At inp (p + tH.length + tK.length)).pos eT pss = tp at *
    generalize hfp : Pair.mk R.ext_KEYWORD_from (p + tH.length + tK.length + tT.length)
      (p + tH.length + tK.length + tT.length + kwFrom.length) [] = fp at *
    generalize hsp' : stringPair i.path.toList (p + tH.length + tK.length + tT.length + tF.length) = spp at *
    have hch : [kp] ++ ([tp] ++ ([fp] ++ [spp])) = slotPairs [some kp, some tp, some fp, some spp] := by simp [slotPairs]
    rw [hch]
    have hm := matchParts_slots P_ext_ImportStatementContent _ p_isc_nodup
      (show slotsOk P_ext_ImportStatementContent [some kp, some tp, some fp, some spp] from
        ⟨⟨_, rfl, hkp ▸ rfl⟩, ⟨_, rfl, htp ▸ rfl⟩, ⟨_, rfl, hfp ▸ rfl⟩, ⟨_, rfl, hsp' ▸ (by cases i.path.toList <;> rfl)⟩, trivial⟩)
    have hsv : buildStringValue (Ctx.spec inp) spp = .ok (i.path, posAt inp (p + tH.length + tK.length + tT.length + tF.length)) := by
      have := stringValueChars_stringPair (inp := inp) i.path.toList (p + tH.length + tK.length + tT.length + tF.length) _
        g4'.left.drop
      rw [← hsp']
      simp [buildStringValue, this, bind, Except.bind, posAt]
    have htc : tp.children.map (targetFn (Ctx.spec inp)) =
        mapItems (rTarget τ) true true (wpTarget inp) (p + tH.length + tK.length) (a :: r) := by
      rw [← htp]; exact hmap
    have htc' : List.map (fun t => if t.rule = R.Name then some (ident (Ctx.spec inp) t) else none) tp.children =
        mapItems (rTarget τ) true true (wpTarget inp) (p + tH.length + tK.length) (a :: r) := htc
    simp [buildExecutableDefinition, onlyChildOf, onlyChild, Pair.children, OC_ExecutableDefinition, Pair.rule, hm, hsv,
      htc', hi, At, toPos_spec', Pair.start, bind, Except.bind, pure, Except.pure, R.OperationDefinition,
      R.FragmentDefinition, R.ext_ImportStatement]
    exact htc'
  · -- the skip stops in front of the statement
    obtain ⟨N, hN⟩ : ∃ N, N = B (tH ++ (tK ++ (tT ++ (tF ++ tS)))).length + 20 := ⟨_, rfl⟩
    have hISC := (runsRule_nonAtomicKind (at_ := .atomic) look_ext_ISC_full hRunsBody).mono (m := N) (by
      rw [hN]; barith)
    have hneg := RunsRule.look (la' := .neg) hISC (by decide)
    -- COMMENT: "#", the spaces, then the lookahead fails
    have h1 : Runs gList 1 false (.str ['#']) .atomic (At inp p) (At inp (p + 1)) [] := by
      have : matchStr ['#'] (At inp p).rest = some (inp.drop (p + 1)) := by
        simp only [At]; rw [hhash.drop]; exact matchStr_self_append _ _
      exact runs_str (c := At inp p) this
    have hhd : HeadNot (· = ' ') (inp.drop (p + tH.length)) := headNot_of_hd g1 hdK (by rintro c rfl; decide)
    have h2 : Runs gList (sp p + 3) false (.star (.str [' '])) .atomic (At inp (p + 1)) (At inp (p + tH.length)) [] := by
      have := spaces_star (List.replicate (sp p) ' ') (p + 1) (inp.drop (p + tH.length))
        (fun x hx => (List.mem_replicate.mp hx).2) hhd
      simp only [List.length_replicate] at this
      refine Runs.cast this ?_ ?_ rfl
      · simp only [At]
        rw [hsp.drop]
        congr 2; simp [hlH]; omega
      · simp only [At]; congr 1; omega
    have hspN : sp p + 3 ≤ N := by rw [hN]; simp only [B, List.length_append]; omega
    have h3 : Fails gList (N + 2) false (.not (.call R.ext_ImportStatementContent)) .atomic (At inp (p + tH.length)) :=
      failsL_not (la := .none) (runsL_call hneg)
    have b3 : Fails gList (N + 3) false (.seq (.not (.call R.ext_ImportStatementContent))
        (.seq (.star (.call R.CommentCharacter)) (.choice (.call R.NEWLINE) (.call R.EOI)))) .atomic (At inp (p + tH.length)) :=
      fails_seq_first h3
    have b2 := failsL_seq_last_noskip (la := .none) (Or.inl rfl) (h2.mono (by omega : sp p + 3 ≤ N + 3)) b3
    have b1 := failsL_seq_last_noskip (la := .none) (Or.inl rfl) (h1.mono (by omega : 1 ≤ N + 3 + 2)) b2
    refine (failsRule_special look_COMMENT_full (Or.inr ws_cm.2) b1).mono ?_
    rw [hN]; omega

end NitroVerif.DocParse
