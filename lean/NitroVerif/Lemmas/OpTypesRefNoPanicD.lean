/-
No-panic, part D: the decidable validity check `selOkB` (fields exist on the parent object type, spreads and type
conditions are defined, `@skip`/`@include` carry their `if` argument, composite field types have parent objects) and the
induction that shows `get_fields_for_selection_set` / `get_type_for_selection_set` return a value under it.
-/
import NitroVerif.Lemmas.OpTypesRefNoPanicC
namespace NitroVerif.OpTypes.Ref
open NitroVerif.Gql NitroVerif.Ts NitroVerif.Exec NitroVerif.OpTypes

/-! ### the deep merge of one alias class of a branch succeeds -/

theorem class_ok {c : Ctx} {mt : SelTree → SelTree → Except Panic SelTree} {N G K : Nat} (HM : MergeSpec c mt)
    (MP : MergeProg c mt N) (hG : FieldDepthLe c G) (hN : (K + 1) * (G + 1) ≤ N) {o : Name}
    {ss : List Selection} {vars : List (Name × Bool)} {tag : Bool} {Lp Lc : List Entry}
    (hLc : ∀ q, q ∈ Lc ↔ q ∈ Lp ∧ q.2.1 = tag) (hgood : ∀ p ∈ Lp, Good c o vars ss p)
    (hcoh : CohAt c (Sb1 ss) o)
    (hnest : ∀ t fd, PU c (Sb1 ss) o allInc t → c.S.field? o t.name = some fd →
      ∀ d, Coh c d (SubSet c (Sb1 ss) o allInc t.key) fd.ty.unwrapped)
    (hK : NestLe c K (Sb1 ss)) : ∃ M, deepMergeWith mt (Lc.map (·.2.2)) = .ok M := by
  apply deepMerge_ok
  intro k f0 rest hfil
  rw [List.filter_map] at hfil
  obtain ⟨p0, prest, hps, hf0, hrest⟩ := map_eq_cons hfil
  have hfacts : ∀ q ∈ p0 :: prest, Good c o vars ss q ∧ q.1.1.key = k := by
    intro q hq
    rw [← hps] at hq
    obtain ⟨hq1, hq2⟩ := List.mem_filter.1 hq
    have hg := hgood q ((hLc q).1 hq1).1
    exact ⟨hg, by rw [← entryOk_name hg.1]; simpa using hq2⟩
  have hsubs : ∀ (Q : SSet), (∀ s, Q s → ∃ q ∈ [p0] ++ prest, q.1.1.sub = some s) →
      ∀ s, Q s → SubSet c (Sb1 ss) o allInc k s := by
    intro Q hQ s hs
    obtain ⟨q, hq, hsub⟩ := hQ s hs
    have hq' := hfacts q (by simpa using hq)
    exact ⟨q.1.1, pu_sb1.2 hq'.1.2.1, hq'.2, hsub⟩
  rw [← hf0, ← hrest]
  refine accInv_fold_ok (ss := ss) (k := k) HM MP hcoh prest [p0] p0.2.2
    (accInv_single (hfacts p0 (by simp)).1.1 (hfacts p0 (by simp)).2)
    (fun q hq => ⟨(hfacts q (by simpa using hq)).1.1, (hfacts q (by simpa using hq)).2,
      (hfacts q (by simpa using hq)).1.2.1⟩) ?_ ?_
  · intro Q hQ fd q hq hfd d
    have hq' := hfacts q (by simpa using hq)
    have := hnest q.1.1 fd (pu_sb1.2 hq'.1.2.1) hfd d
    rw [hq'.2] at this
    exact coh_subset d _ _ _ (hsubs Q hQ) this
  · intro Q hQ T fd q hq hfd hrel
    have hq' := hfacts q (by simpa using hq)
    have hn : NestLe c K Q := by
      have := nestLe_succ c K _ hK o q.1.1 (pu_sb1.2 hq'.1.2.1)
      rw [hq'.2] at this
      exact nestLe_subset K _ _ (hsubs Q hQ) this
    have h1 := wd_le hG T fd.ty Q K hrel hn
    have h2 := hG o q.1.1.name fd hfd
    have : (K + 1) * (G + 1) = K * (G + 1) + (G + 1) := by rw [Nat.add_mul]; simp
    omega

/-! ### the validity check -/

def dirsOkB (ds : List Directive) : Bool :=
  ds.all fun d => !(d.name == "skip" || d.name == "include") || (ifArg d).isSome

def parentsOkB (S : Schema) (n : Name) : Bool :=
  match parentObjects S n with
  | .ok _ => true
  | .error _ => false

/-- the selection can be typed for an object of type `o` (nesting at most `D`): directives are well formed, a field exists
    on `o` (or is `__typename`), the type of a field with a sub-selection has parent objects and the sub-selection can be
    typed for each of its possible object types, spreads and type conditions are defined, applicable fragments can be
    typed for `o` -/
def selOkB (S : Schema) (F : FragMap) : Nat → Name → Selection → Bool
  | 0, _, _ => false
  | D + 1, o, .field _ name _ _ dirs sub =>
    dirsOkB dirs && (name == "__typename" || match S.field? o name with
      | none => false
      | some fd => match sub with
        | none => true
        | some ss' => parentsOkB S fd.ty.unwrapped &&
            (S.possibleTypes fd.ty.unwrapped).all fun o' => ss'.all (selOkB S F D o'))
  | D + 1, o, .spread nm _ dirs _ =>
    dirsOkB dirs && match F nm with
      | none => false
      | some fd => (S.typeDef? fd.cond).isSome && (!fragmentTypeApplies S o fd.cond || fd.sel.all (selOkB S F D o))
  | D + 1, o, .inline cond dirs ss' _ =>
    dirsOkB dirs && (match cond with | some (t, _) => (S.typeDef? t).isSome | none => true) &&
      (!condApplies S o cond || ss'.all (selOkB S F D o))

theorem rd_of_mem {F : FragMap} {V : List Name} {s : Selection} : ∀ {ss : List Selection}, s ∈ ss →
    RD F V ss (Selection.dirs s)
  | [], h => by cases h
  | s0 :: rest, h => by
    rcases List.mem_cons.1 h with rfl | h
    · exact .here
    · exact .tail (rd_of_mem h)

theorem rd_into {F : FragMap} {V : List Name} {s : Selection} {d : List Directive} : ∀ {ss : List Selection}, s ∈ ss →
    RD F V [s] d → RD F V ss d
  | [], h, _ => by cases h
  | s0 :: rest, h, hd => by
    rcases List.mem_cons.1 h with rfl | h
    · have := (rd_append (F := F) (V := V) (a := [s]) (b := rest) (d := d)).2 (Or.inl hd)
      simpa using this
    · exact .tail (rd_into h hd)

theorem esz_le_of_mem {F : FragMap} {D : Nat} {s : Selection} : ∀ {ss : List Selection}, s ∈ ss →
    esz F D s ≤ eszL F D ss
  | [], h => by cases h
  | s0 :: rest, h => by
    rw [eszL_cons]
    rcases List.mem_cons.1 h with rfl | h
    · omega
    · have := esz_le_of_mem (F := F) (D := D) h; omega

theorem wrapTree_ok {mk : Name → Except Panic (List Branch)} : ∀ (ty : GType),
    (∃ bs, mk ty.unwrapped = .ok bs) → ∃ T, wrapTree mk ty = .ok T
  | .named n p, ⟨bs, h⟩ => ⟨.object bs, by simp only [GType.unwrapped] at h; simp [wrapTree, h, bind, Except.bind]⟩
  | .list t p, h => by
    obtain ⟨T, hT⟩ := wrapTree_ok t (by simpa [GType.unwrapped] using h)
    exact ⟨.list T, by simp [wrapTree, hT, bind, Except.bind]⟩
  | .nonNull t, h => by
    obtain ⟨T, hT⟩ := wrapTree_ok t (by simpa [GType.unwrapped] using h)
    exact ⟨.nonNull T, by simp [wrapTree, hT, bind, Except.bind]⟩

/-- the global assumptions of the no-panic argument -/
structure NPEnv (c : Ctx) (mfuel G K : Nat) : Prop where
  nodup : TypeNamesNodup c.S
  depth : FieldDepthLe c G
  fuel : (K + 1) * (G + 1) ≤ mfuel

def FFP (c : Ctx) (mfuel D : Nat) : Prop :=
  ∀ (fuel : Nat) (cnd : Cond) (ss ss0 : List Selection) (bv : List Name), 2 * D + 1 ≤ fuel →
    c.S.typeDef? cnd.obj.name = some cnd.obj →
    (∀ s ∈ ss, selOkB c.S c.F D cnd.obj.name s = true ∧ fitsS c.F D s = true) → eszL c.F D ss ≤ mfuel →
    SubCoh c cnd.obj.name ss → boolVars c.F mfuel ss0 = .ok bv → cnd.vars.map (·.1) = bv →
    (∀ ds, RD c.F [] ss ds → RD c.F [] ss0 ds) →
    ∃ L, fieldsFor c.S c.F mfuel fuel cnd ss = .ok L

def IP (c : Ctx) (mfuel D : Nat) : Prop :=
  ∀ (fuel : Nat) (ty : GType) (ss : List Selection), 2 * D + 2 ≤ fuel → parentsOkB c.S ty.unwrapped = true →
    (∀ o ∈ c.S.possibleTypes ty.unwrapped, ∀ s ∈ ss, selOkB c.S c.F D o s = true) →
    (∀ s ∈ ss, fitsS c.F D s = true) → eszL c.F D ss ≤ mfuel → (∀ d, Coh c d (Sb1 ss) ty.unwrapped) →
    ∃ T, implTree c.S c.F mfuel fuel ty ss = .ok T

theorem filter_class (Lp : List Entry) (f : Bool → Bool) :
    ((Lp.map (·.2)).filter fun x => f x.1).map (·.2) = (Lp.filter fun p => f p.2.1).map (·.2.2) := by
  rw [List.filter_map, List.map_map]
  rfl

/-- `get_type_for_selection_set` succeeds if `get_fields_for_selection_set` does (same nesting bound) -/
theorem ip_of_ffp {c : Ctx} {mfuel G K D : Nat} (E : NPEnv c mfuel G K) (hDK : D ≤ K) (HF : FFP c mfuel D) :
    IP c mfuel D := by
  intro fuel ty ss hfuel hpar hsel hfit hesz hC
  cases fuel with
  | zero => omega
  | succ f =>
    rw [implTree_succ]
    apply wrapTree_ok
    simp only [mkBranches, branchConds, bind, Except.bind]
    unfold parentsOkB at hpar
    cases hpo : parentObjects c.S ty.unwrapped with
    | error e => simp [hpo] at hpar
    | ok objs =>
      obtain ⟨vars, hbv⟩ := boolVars_ok (F := c.F) hfit hesz
      simp only [hbv]
      obtain ⟨_, hobjs, _⟩ := parentObjects_spec hpo
      have hvn := boolVars_nodup hbv
      apply mapM_ok
      intro cnd hc
      simp only [List.mem_flatMap, List.mem_map] at hc
      obtain ⟨obj, hobj, a, ha, rfl⟩ := hc
      have hav := (assignments_mem vars a).1 ha
      obtain ⟨h1, h2, h3⟩ := hobjs obj hobj
      -- coherence at this object type
      have hcoh : CohAt c (Sb1 ss) obj.name := by
        have := hC 1; simp only [Coh] at this; exact (this _ h3).1
      have hnest : ∀ t fd, PU c (Sb1 ss) obj.name allInc t → c.S.field? obj.name t.name = some fd →
          ∀ d, Coh c d (SubSet c (Sb1 ss) obj.name allInc t.key) fd.ty.unwrapped := by
        intro t fd ht hfd d
        have := hC (d + 1); simp only [Coh] at this; exact (this _ h3).2 t fd ht hfd
      have hsub : SubCoh c obj.name ss := by
        intro t fd s ht hs hfd d
        refine coh_subset d _ _ _ ?_ (hnest t fd (pu_sb1.2 ht) hfd d)
        intro s' hs'
        simp only [Sb1] at hs'; subst hs'
        exact ⟨t, pu_sb1.2 ht, rfl, hs⟩
      obtain ⟨L, hL⟩ := HF f ⟨obj, a⟩ ss ss vars (by omega) h1
        (fun s hs => ⟨hsel obj.name h3 s hs, hfit s hs⟩) hesz hsub hbv hav (fun _ h => h)
      simp only [branchOf, bind, Except.bind, hL]
      obtain ⟨Lp, rfl, hgood, _⟩ := (impl_rel c mfuel E.nodup f).2 ⟨obj, a⟩ ss L hL h1 hsub
      have hK : NestLe c K (Sb1 ss) := nestLe_mono c hDK (nestLe_of_fits c D _ (by
        intro s hs x hx
        simp only [Sb1] at hs; subst hs
        exact fitsS_fits D x (hfit x hx)))
      have HM := mergeTrees_rel c mfuel
      have MP := mergeTrees_ok c mfuel
      obtain ⟨un, hun⟩ := class_ok (tag := false) (Lc := Lp.filter fun p => !p.2.1) HM MP E.depth E.fuel
        (fun q => by simp [List.mem_filter]) hgood hcoh hnest hK
      obtain ⟨al, hal⟩ := class_ok (tag := true) (Lc := Lp.filter fun p => p.2.1) HM MP E.depth E.fuel
        (fun q => by simp [List.mem_filter]) hgood hcoh hnest hK
      have e1 := filter_class Lp (fun b => !b)
      have e2 := filter_class Lp (fun b => b)
      simp only [deepMerge, e1, e2, hun, hal]
      exact ⟨_, rfl⟩

end NitroVerif.OpTypes.Ref
