/-
C01/C02 refinement: the hypotheses of the refinement theorem hold on the witness schema `W` (Lemmas/OpTypes.lean:
`Query { a: A, name: String! }`, `A { x: Int, y: String }`, its schema declaration file as the printer writes it) and
the witness document `{ a { x } a { y @skip(if: $v) } }` (two object fields under one response key: the merge is
exercised).
-/
import NitroVerif.Lemmas.OpTypesRefThm
namespace NitroVerif.OpTypes.Ref.W
open NitroVerif.Gql NitroVerif.Ts NitroVerif.Exec NitroVerif.OpTypes NitroVerif.OpTypes.W NitroVerif.OpTypes.Ref

def r : Refs := (Refs.ofNs "Schema").close W.env.decls
def orig : Name → Option (List Field) := fun tn => SelSem.origFields W.env.decls 8 (r.out tn)

def dInt : TypeDef := { kind := .scalar, name := "Int" }
def dString : TypeDef := { kind := .scalar, name := "String" }
def dBoolean : TypeDef := { kind := .scalar, name := "Boolean" }
def dQuery : TypeDef :=
  { kind := .object, name := "Query", fields := [{ name := "a", ty := .named "A" {} }, { name := "name", ty := .nonNull (.named "String" {}) }] }
def dA : TypeDef :=
  { kind := .object, name := "A", fields := [{ name := "x", ty := .named "Int" {} }, { name := "y", ty := .named "String" {} }] }

theorem typeDefs_eq : W.S.typeDefs = [dInt, dString, dBoolean, dQuery, dA] := rfl

theorem typeDef_cases {n : Name} {t : TypeDef} (h : W.S.typeDef? n = some t) :
    (n = "Int" ∧ t = dInt) ∨ (n = "String" ∧ t = dString) ∨ (n = "Boolean" ∧ t = dBoolean) ∨
    (n = "Query" ∧ t = dQuery) ∨ (n = "A" ∧ t = dA) := by
  have hn := typeDef?_name h
  have hm := typeDef?_mem h
  rw [typeDefs_eq] at hm
  simp only [List.mem_cons, List.not_mem_nil, or_false] at hm
  rcases hm with rfl | rfl | rfl | rfl | rfl
  · exact Or.inl ⟨hn.symm, rfl⟩
  · exact Or.inr (Or.inl ⟨hn.symm, rfl⟩)
  · exact Or.inr (Or.inr (Or.inl ⟨hn.symm, rfl⟩))
  · exact Or.inr (Or.inr (Or.inr (Or.inl ⟨hn.symm, rfl⟩)))
  · exact Or.inr (Or.inr (Or.inr (Or.inr ⟨hn.symm, rfl⟩)))

theorem typeNamesNodup : TypeNamesNodup W.S := by
  unfold TypeNamesNodup
  rw [typeDefs_eq]
  decide

theorem out_eq (n : Name) : r.out n = globalise W.env.decls [] [] (.qref ["Schema", "__OperationOutput", n]) := rfl

set_option maxRecDepth 16384 in
theorem out_Int : r.out "Int" = .other "abs" ["Schema", "__OperationOutput", "Int"] := by rfl
set_option maxRecDepth 16384 in
theorem out_String : r.out "String" = .other "abs" ["Schema", "__OperationOutput", "String"] := by rfl
set_option maxRecDepth 16384 in
theorem out_Boolean : r.out "Boolean" = .other "abs" ["Schema", "__OperationOutput", "Boolean"] := by rfl
theorem bodyBoolean : W.env.decls.body? ["Schema", "__OperationOutput", "Boolean"] = some ([], .prim "boolean") := by rfl

theorem scalar_eq (n : Name) (v : J) : W.ctx.scalar n v = memG W.env 16 v (r.out n) := rfl

theorem leaf_prim {n : Name} {p : String} (path : List String) (hout : r.out n = .other "abs" path)
    (hbody : W.env.decls.body? path = some ([], .prim p)) (hop : (Ty.prim p).isOpaque W.env = false)
    (hm : ∀ v, primMem p v = true → memG W.env 16 v (.other "abs" path) = true) (v : J) :
    Mem W.env v (r.out n) ↔ memG W.env 16 v (r.out n) = true := by
  constructor
  · intro h
    rw [hout] at h ⊢
    rw [mem_alias_iff hbody, mem_prim_iff hop] at h
    exact hm v h
  · exact memG_sound 16 v _

set_option maxRecDepth 16384 in
theorem leafW (n : Name) (v : J) (hl : isLeafType W.S n = true) : Mem W.env v (r.out n) ↔ leafOk W.ctx n v = true := by
  unfold isLeafType Schema.kindOf? at hl
  cases ht : W.S.typeDef? n with
  | none => simp [ht] at hl
  | some t =>
    rcases typeDef_cases ht with ⟨rfl, rfl⟩ | ⟨rfl, rfl⟩ | ⟨rfl, rfl⟩ | ⟨rfl, rfl⟩ | ⟨rfl, rfl⟩
    · have hlf : leafOk W.ctx "Int" v = W.ctx.scalar "Int" v := by
        unfold leafOk
        rw [show W.ctx.S.typeDef? "Int" = some dInt from ht]
        rfl
      rw [hlf, scalar_eq]
      refine leaf_prim _ out_Int bodyInt (by simp [Ty.isOpaque]) ?_ v
      intro v hv; cases v <;> simp [primMem, J.isNum] at hv; decide +kernel
    · have hlf : leafOk W.ctx "String" v = W.ctx.scalar "String" v := by
        unfold leafOk
        rw [show W.ctx.S.typeDef? "String" = some dString from ht]
        rfl
      rw [hlf, scalar_eq]
      refine leaf_prim _ out_String bodyString (by simp [Ty.isOpaque]) ?_ v
      intro v hv
      cases v with
      | str s => simp [memG, bodyString]
      | _ => simp [primMem, J.isStr] at hv
    · have hlf : leafOk W.ctx "Boolean" v = W.ctx.scalar "Boolean" v := by
        unfold leafOk
        rw [show W.ctx.S.typeDef? "Boolean" = some dBoolean from ht]
        rfl
      rw [hlf, scalar_eq]
      refine leaf_prim _ out_Boolean bodyBoolean (by simp [Ty.isOpaque]) ?_ v
      intro v hv
      cases v with
      | bool b => simp [memG, bodyBoolean]
      | _ => simp [primMem, J.isBool] at hv
    · simp [ht, dQuery] at hl
    · simp [ht, dA] at hl

set_option maxRecDepth 16384 in
theorem leafNotNullW (n : Name) : leafOk W.ctx n .null = false := by
  unfold leafOk
  cases ht : W.ctx.S.typeDef? n with
  | none => rfl
  | some t =>
    rcases typeDef_cases ht with ⟨rfl, rfl⟩ | ⟨rfl, rfl⟩ | ⟨rfl, rfl⟩ | ⟨rfl, rfl⟩ | ⟨rfl, rfl⟩
    · show W.ctx.scalar "Int" .null = false; decide +kernel
    · show W.ctx.scalar "String" .null = false; decide +kernel
    · show W.ctx.scalar "Boolean" .null = false; decide +kernel
    · rfl
    · rfl

theorem inhabitedW (n : Name) (h : W.ctx.S.isComposite n = true) : W.ctx.S.possibleTypes n ≠ [] := by
  unfold Schema.isComposite Schema.kindOf? at h
  cases ht : W.ctx.S.typeDef? n with
  | none => simp [ht] at h
  | some t =>
    rcases typeDef_cases ht with ⟨rfl, rfl⟩ | ⟨rfl, rfl⟩ | ⟨rfl, rfl⟩ | ⟨rfl, rfl⟩ | ⟨rfl, rfl⟩
    · simp [ht, dInt] at h
    · simp [ht, dString] at h
    · simp [ht, dBoolean] at h
    · intro h'; have : W.ctx.S.possibleTypes "Query" = ["Query"] := rfl; rw [this] at h'; cases h'
    · intro h'; have : W.ctx.S.possibleTypes "A" = ["A"] := rfl; rw [this] at h'; cases h'

theorem any_key_iff (ofs : List Field) (k : String) : ofs.any (·.1 == k) = true ↔ k ∈ ofs.map (·.1) := by
  simp only [List.any_eq_true, beq_iff_eq, List.mem_map]

set_option maxRecDepth 16384 in
theorem orig_Query : ∃ ofs, orig "Query" = some ofs ∧ ofs.map (·.1) = ["__typename", "a", "name"] := ⟨_, rfl, rfl⟩
set_option maxRecDepth 16384 in
theorem orig_A : ∃ ofs, orig "A" = some ofs ∧ ofs.map (·.1) = ["__typename", "x", "y"] := ⟨_, rfl, rfl⟩

theorem field_Query (k : Name) : (W.ctx.S.field? "Query" k).isSome = true ↔ (k = "a" ∨ k = "name") := by
  have : W.ctx.S.field? "Query" k = dQuery.fields.find? (·.name == k) := rfl
  rw [this, List.find?_isSome]
  simp only [dQuery, List.mem_cons, List.not_mem_nil, or_false, beq_iff_eq]
  constructor
  · rintro ⟨x, (rfl | rfl), rfl⟩
    · exact Or.inl rfl
    · exact Or.inr rfl
  · rintro (rfl | rfl)
    · exact ⟨_, Or.inl rfl, rfl⟩
    · exact ⟨_, Or.inr rfl, rfl⟩

theorem field_A (k : Name) : (W.ctx.S.field? "A" k).isSome = true ↔ (k = "x" ∨ k = "y") := by
  have : W.ctx.S.field? "A" k = dA.fields.find? (·.name == k) := rfl
  rw [this, List.find?_isSome]
  simp only [dA, List.mem_cons, List.not_mem_nil, or_false, beq_iff_eq]
  constructor
  · rintro ⟨x, (rfl | rfl), rfl⟩
    · exact Or.inl rfl
    · exact Or.inr rfl
  · rintro (rfl | rfl)
    · exact ⟨_, Or.inl rfl, rfl⟩
    · exact ⟨_, Or.inr rfl, rfl⟩

theorem origObjW (tn : Name) (td : TypeDef) (ht : W.ctx.S.typeDef? tn = some td) (hk : td.kind = .object) :
    ∃ ofs, orig tn = some ofs ∧
      ∀ k, ofs.any (·.1 == k) = true ↔ (k = "__typename" ∨ (W.ctx.S.field? tn k).isSome = true) := by
  rcases typeDef_cases ht with ⟨rfl, rfl⟩ | ⟨rfl, rfl⟩ | ⟨rfl, rfl⟩ | ⟨rfl, rfl⟩ | ⟨rfl, rfl⟩
  · cases hk
  · cases hk
  · cases hk
  · obtain ⟨ofs, h1, h2⟩ := orig_Query
    refine ⟨ofs, h1, fun k => ?_⟩
    rw [any_key_iff, h2, field_Query]; simp
  · obtain ⟨ofs, h1, h2⟩ := orig_A
    refine ⟨ofs, h1, fun k => ?_⟩
    rw [any_key_iff, h2, field_A]; simp

set_option maxRecDepth 16384 in
/-- **the hypotheses about schema, declaration file and scalars hold on the witness** -/
theorem hyp : Hyp W.ctx W.env r orig where
  envOk := envOk_of_hook W.env.decls r ["Schema", "__SelectionSet"] rfl rfl
    (fun n => (globalise_qref_shape W.env.decls ["Schema", "__OperationOutput", n]).1)
    (fun n => (globalise_qref_shape W.env.decls ["Schema", "__OperationOutput", n]).2)
  origObj := origObjW
  leaf := fun n v hl => leafW n v hl
  leafNotNull := leafNotNullW
  inhabited := inhabitedW

/-! ### the witness document is coherent and within the specification's fuel -/

theorem coh_noposs {c : Ctx} {Sb : SSet} {n : Name} (h : c.S.possibleTypes n = []) : ∀ d, Coh c d Sb n
  | 0 => by simp [Coh]
  | d + 1 => by simp [Coh, h]

def tA1 : FT := ⟨"a", false, "a", some W.selX⟩
def tA2 : FT := ⟨"a", false, "a", some W.selYskip⟩
def tX : FT := ⟨"x", false, "x", none⟩
def tY : FT := ⟨"y", false, "y", none⟩

theorem flat_selA {o : Name} {inc : Inc} {t : FT} (h : InFlat W.ctx.S W.ctx.F o inc [] W.selA t) : t = tA1 ∨ t = tA2 := by
  cases h with
  | field _ => exact Or.inl rfl
  | tail h =>
    cases h with
    | field _ => exact Or.inr rfl
    | tail h => exact absurd h inFlat_nil

theorem flat_selX {o : Name} {inc : Inc} {t : FT} (h : InFlat W.ctx.S W.ctx.F o inc [] W.selX t) : t = tX := by
  cases h with
  | field _ => rfl
  | tail h => exact absurd h inFlat_nil

theorem flat_selY {o : Name} {inc : Inc} {t : FT} (h : InFlat W.ctx.S W.ctx.F o inc [] W.selYskip t) : t = tY := by
  cases h with
  | field _ => rfl
  | tail h => exact absurd h inFlat_nil

theorem sub_A {o : Name} {inc inc' : Inc} {k : Name} {o' : Name} {t' : FT}
    (h : PU W.ctx (SubSet W.ctx (Sb1 W.selA) o inc k) o' inc' t') : t' = tX ∨ t' = tY := by
  obtain ⟨s, ⟨t, ht, _, hs⟩, hin⟩ := h
  rcases flat_selA (pu_sb1.1 ht) with rfl | rfl
  · cases hs; exact Or.inl (flat_selX hin)
  · cases hs; exact Or.inr (flat_selY hin)

/-- the witness document `{ a { x } a { y @skip(if: $v) } }` is coherent at every depth -/
theorem coh_selA : ∀ d, Coh W.ctx d (Sb1 W.selA) "Query"
  | 0 => by simp [Coh]
  | d + 1 => by
    simp only [Coh]
    intro o ho
    have : W.ctx.S.possibleTypes "Query" = ["Query"] := rfl
    rw [this] at ho; simp only [List.mem_singleton] at ho; subst ho
    refine ⟨⟨?_, ?_⟩, ?_⟩
    · intro t t' ht ht' _
      rcases flat_selA (pu_sb1.1 ht) with rfl | rfl <;> rcases flat_selA (pu_sb1.1 ht') with rfl | rfl <;>
        exact ⟨rfl, rfl⟩
    · intro t fd ht _ _ hsub
      rcases flat_selA (pu_sb1.1 ht) with rfl | rfl <;> cases hsub
    · intro t fd ht hfd
      have hun : fd.ty.unwrapped = "A" := by
        rcases flat_selA (pu_sb1.1 ht) with rfl | rfl
        · have : W.ctx.S.field? "Query" "a" = some { name := "a", ty := .named "A" {} } := rfl
          simp only [tA1] at hfd; rw [this] at hfd; cases hfd; rfl
        · have : W.ctx.S.field? "Query" "a" = some { name := "a", ty := .named "A" {} } := rfl
          simp only [tA2] at hfd; rw [this] at hfd; cases hfd; rfl
      rw [hun]
      cases d with
      | zero => simp [Coh]
      | succ d =>
        simp only [Coh]
        intro o ho
        have : W.ctx.S.possibleTypes "A" = ["A"] := rfl
        rw [this] at ho; simp only [List.mem_singleton] at ho; subst ho
        refine ⟨⟨?_, ?_⟩, ?_⟩
        · intro t1 t2 h1 h2 hk
          rcases sub_A h1 with rfl | rfl <;> rcases sub_A h2 with rfl | rfl
          · exact ⟨rfl, rfl⟩
          · simp [tX, tY] at hk
          · simp [tX, tY] at hk
          · exact ⟨rfl, rfl⟩
        · intro t1 fd1 h1 _ hfd1 _
          rcases sub_A h1 with rfl | rfl
          · have : W.ctx.S.field? "A" "x" = some { name := "x", ty := .named "Int" {} } := rfl
            simp only [tX] at hfd1; rw [this] at hfd1; cases hfd1; rfl
          · have : W.ctx.S.field? "A" "y" = some { name := "y", ty := .named "String" {} } := rfl
            simp only [tY] at hfd1; rw [this] at hfd1; cases hfd1; rfl
        · intro t1 fd1 h1 hfd1
          apply coh_noposs
          rcases sub_A h1 with rfl | rfl
          · have : W.ctx.S.field? "A" "x" = some { name := "x", ty := .named "Int" {} } := rfl
            simp only [tX] at hfd1; rw [this] at hfd1; cases hfd1; rfl
          · have : W.ctx.S.field? "A" "y" = some { name := "y", ty := .named "String" {} } := rfl
            simp only [tY] at hfd1; rw [this] at hfd1; cases hfd1; rfl

theorem fuelOk_selA : FuelOk W.ctx 4 W.selA := by
  constructor
  · decide
  · decide

end NitroVerif.OpTypes.Ref.W
