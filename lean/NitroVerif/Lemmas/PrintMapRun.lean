import NitroVerif.Lemmas.SourceMap
import NitroVerif.Lemmas.PrintMap
/-!
# C06 — printer call sites composed with the model of `SourceWriter`

`site_segment`: whatever sequence of trait calls a printer performs (`ops`, possibly after a `set_file_index_mapper`),
if it contains a named `write_for text node` with a non-builtin position and a one-line text, then the final state of the
writer has recorded the segment pair of that call — (g₁, file, node position, name index)(g₂, file, node position + utf16(name)) —
the generated text between g₁ and g₂ is `text`, and the names table holds the node's name at the index.
The proof follows the run: everything the writer has emitted so far (buffer, mapping log, names table) only grows.
-/
namespace NitroVerif.PrintMap
open NitroVerif.SourceMap

/-! ### what a step of the writer preserves -/

/-- `b` comes from `a` by emitting text: only the buffer, the cursor and the pending flag change, the buffer grows -/
def TextOnly (a b : WState) : Prop :=
  b.mapping = a.mapping ∧ b.names = a.names ∧ b.mapper = a.mapper ∧ b.indent = a.indent ∧ ∃ x, b.buf = a.buf ++ x

theorem textOnly_refl (a : WState) : TextOnly a a := ⟨rfl, rfl, rfl, rfl, [], by simp⟩

theorem textOnly_trans {a b c : WState} (h1 : TextOnly a b) (h2 : TextOnly b c) : TextOnly a c := by
  obtain ⟨m1, n1, p1, i1, x1, b1⟩ := h1
  obtain ⟨m2, n2, p2, i2, x2, b2⟩ := h2
  exact ⟨m2.trans m1, n2.trans n1, p2.trans p1, i2.trans i1, x1 ++ x2, by rw [b2, b1, List.append_assoc]⟩

theorem textOnly_flush (st : WState) : TextOnly st (flushIndent st) := by
  unfold flushIndent
  split
  · exact ⟨rfl, rfl, rfl, rfl, _, rfl⟩
  · exact textOnly_refl st

theorem textOnly_writeLine (st : WState) (l : List Char) : TextOnly st (writeLine st l) := by
  unfold writeLine
  split
  · exact textOnly_refl st
  · exact textOnly_trans (textOnly_flush st) ⟨rfl, rfl, rfl, rfl, _, rfl⟩

theorem textOnly_newline (st : WState) : TextOnly st (newline st) := ⟨rfl, rfl, rfl, rfl, _, rfl⟩

theorem textOnly_writeLines (ls : List (List Char)) : ∀ st, TextOnly st (writeLines st ls) := by
  induction ls with
  | nil => intro st; exact textOnly_refl st
  | cons l ls ih => intro st; exact textOnly_trans (textOnly_trans (textOnly_newline st) (textOnly_writeLine _ l)) (ih _)

theorem textOnly_write (st : WState) (chunk : List Char) : TextOnly st (write st chunk) := by
  unfold write
  split
  · exact textOnly_refl st
  · exact textOnly_trans (textOnly_writeLine st _) (textOnly_writeLines _ _)

/-- everything emitted so far stays: buffer, mapping log and names table are extended at the end only; the names
    invariant is kept; the file mapper does not change -/
def Grow (a b : WState) : Prop :=
  (∃ x, b.buf = a.buf ++ x) ∧ (∃ y, b.mapping.log = a.mapping.log ++ y) ∧
  (∃ z, b.names.names = a.names.names ++ z) ∧ (NInv a.names → NInv b.names) ∧ b.mapper = a.mapper

theorem grow_refl (a : WState) : Grow a a := ⟨⟨[], by simp⟩, ⟨[], by simp⟩, ⟨[], by simp⟩, id, rfl⟩

theorem grow_trans {a b c : WState} (h1 : Grow a b) (h2 : Grow b c) : Grow a c := by
  obtain ⟨⟨x1, b1⟩, ⟨y1, l1⟩, ⟨z1, n1⟩, i1, m1⟩ := h1
  obtain ⟨⟨x2, b2⟩, ⟨y2, l2⟩, ⟨z2, n2⟩, i2, m2⟩ := h2
  exact ⟨⟨x1 ++ x2, by rw [b2, b1, List.append_assoc]⟩, ⟨y1 ++ y2, by rw [l2, l1, List.append_assoc]⟩,
    ⟨z1 ++ z2, by rw [n2, n1, List.append_assoc]⟩, fun h => i2 (i1 h), m2.trans m1⟩

theorem grow_of_textOnly {a b : WState} (h : TextOnly a b) : Grow a b := by
  obtain ⟨m, n, p, _, x, hb⟩ := h
  exact ⟨⟨x, hb⟩, ⟨[], by rw [m]; simp⟩, ⟨[], by rw [n]; simp⟩, fun h => by rw [n]; exact h, p⟩

theorem grow_wAddEntry (st : WState) (e : Entry) : Grow st (wAddEntry st e) :=
  ⟨⟨[], by simp [wAddEntry]⟩, ⟨[e], rfl⟩, ⟨[], by simp [wAddEntry]⟩, id, rfl⟩

theorem grow_writeFor (p : Policy) (hp : p.Sound) (st st' : WState) (chunk : List Char) (node : Node)
    (hr : writeFor p st chunk node = some st') : Grow st st' := by
  unfold writeFor at hr
  by_cases hb : node.builtin = true
  · simp only [hb, if_true, Option.some.injEq] at hr; subst hr; exact grow_of_textOnly (textOnly_write _ _)
  · simp only [hb, if_false, Bool.false_eq_true] at hr
    split at hr
    · cases hr
    · rename_i fileIndex _
      cases hn : node.name with
      | some nm =>
        simp only [hn, Option.some.injEq] at hr
        subst hr
        have g0 : Grow st { st with names := (mapName p st.names nm).1 } := by
          refine ⟨⟨[], by simp⟩, ⟨[], by simp⟩, ?_, ?_, rfl⟩
          · -- the names table grows whatever the cache holds
            unfold mapName
            split
            · exact ⟨[], by simp⟩
            · exact ⟨[nm], rfl⟩
          · intro h; exact (mapName_spec p hp st.names nm h).1
        refine grow_trans g0 (grow_trans (grow_of_textOnly (textOnly_flush _)) ?_)
        exact grow_trans (grow_wAddEntry _ _) (grow_trans (grow_of_textOnly (textOnly_write _ chunk)) (grow_wAddEntry _ _))
      | none =>
        simp only [hn, Option.some.injEq] at hr
        subst hr
        exact grow_trans (grow_wAddEntry _ _) (grow_of_textOnly (textOnly_write _ chunk))

/-- the trait calls never touch the file mapper -/
def NoMapper : Op → Prop
  | .setMapper _ => False
  | _ => True

theorem grow_step (p : Policy) (hp : p.Sound) (st st' : WState) (op : Op) (hm : NoMapper op)
    (hr : step p st op = some st') : Grow st st' := by
  cases op with
  | write c => simp only [step, Option.some.injEq] at hr; subst hr; exact grow_of_textOnly (textOnly_write _ _)
  | writeFor c n => exact grow_writeFor p hp st st' c n hr
  | indent => simp only [step, Option.some.injEq] at hr; subst hr; exact ⟨⟨[], by simp⟩, ⟨[], by simp⟩, ⟨[], by simp⟩, id, rfl⟩
  | dedent => simp only [step, Option.some.injEq] at hr; subst hr; exact ⟨⟨[], by simp⟩, ⟨[], by simp⟩, ⟨[], by simp⟩, id, rfl⟩
  | setMapper m => exact absurd hm (by simp [NoMapper])

theorem grow_run (p : Policy) (hp : p.Sound) (ops : List Op) : ∀ st st', (∀ op ∈ ops, NoMapper op) →
    run p st ops = some st' → Grow st st' := by
  induction ops with
  | nil => intro st st' _ hr; simp only [run, Option.some.injEq] at hr; subst hr; exact grow_refl _
  | cons op ops ih =>
    intro st st' hm hr
    simp only [run] at hr
    cases hs : step p st op with
    | none => rw [hs] at hr; cases hr
    | some st1 =>
      rw [hs] at hr
      exact grow_trans (grow_step p hp st st1 op (hm op (by simp)) hs) (ih st1 st' (fun o ho => hm o (by simp [ho])) hr)

theorem run_append (p : Policy) (a b : List Op) : ∀ st st', run p st (a ++ b) = some st' →
    ∃ st1, run p st a = some st1 ∧ run p st1 b = some st' := by
  induction a with
  | nil => intro st st' h; exact ⟨st, rfl, h⟩
  | cons op a ih =>
    intro st st' h
    simp only [List.cons_append, run] at h
    cases hs : step p st op with
    | none => rw [hs] at h; cases h
    | some s1 =>
      rw [hs] at h
      obtain ⟨st1, h1, h2⟩ := ih s1 st' h
      exact ⟨st1, by simp only [run, hs]; exact h1, h2⟩

theorem run_append_of (p : Policy) (a b : List Op) : ∀ st st1 st', run p st a = some st1 → run p st1 b = some st' →
    run p st (a ++ b) = some st' := by
  induction a with
  | nil => intro st st1 st' h1 h2; simp only [run, Option.some.injEq] at h1; subst h1; exact h2
  | cons op a ih =>
    intro st st1 st' h1 h2
    simp only [List.cons_append, run] at h1 ⊢
    cases hs : step p st op with
    | none => rw [hs] at h1; cases h1
    | some s1 => rw [hs] at h1; simp only []; exact ih s1 st1 st' h1 h2

/-! ### the names invariant along a run (with or without a leading `set_file_index_mapper`) -/

theorem ninv_step (p : Policy) (hp : p.Sound) (st st' : WState) (op : Op) (h : NInv st.names)
    (hr : step p st op = some st') : NInv st'.names := by
  cases op with
  | setMapper m => simp only [step, Option.some.injEq] at hr; subst hr; exact h
  | write c => exact (grow_step p hp st st' (.write c) trivial hr).2.2.2.1 h
  | writeFor c n => exact (grow_step p hp st st' (.writeFor c n) trivial hr).2.2.2.1 h
  | indent => exact (grow_step p hp st st' .indent trivial hr).2.2.2.1 h
  | dedent => exact (grow_step p hp st st' .dedent trivial hr).2.2.2.1 h

theorem ninv_run (p : Policy) (hp : p.Sound) (ops : List Op) : ∀ st st', NInv st.names →
    run p st ops = some st' → NInv st'.names := by
  induction ops with
  | nil => intro st st' h hr; simp only [run, Option.some.injEq] at hr; subst hr; exact h
  | cons op ops ih =>
    intro st st' h hr
    simp only [run] at hr
    cases hs : step p st op with
    | none => rw [hs] at hr; cases hr
    | some st1 => rw [hs] at hr; exact ih st1 st' (ninv_step p hp st st1 op h hs) hr

theorem ninv_init : NInv WState.init.names := by intro x hx; cases hx

/-! ### printer calls as writer operations -/

theorem toOp_noMapper (ops : List POp) : ∀ op ∈ ops.map POp.toOp, NoMapper op := by
  intro op hop
  obtain ⟨o, _, rfl⟩ := List.mem_map.mp hop
  cases o <;> simp [POp.toOp, NoMapper]

/-- every mapped call's file is inside the file mapper (vacuous without a mapper) -/
def FilesInMapper (mapper : Option (List Nat)) (ops : List POp) : Prop :=
  ∀ m, mapper = some m → ∀ t q n, POp.writeFor t q n ∈ ops → q.builtin = false → q.file < m.length

/-- the only step of a printer's call sequence that can panic in the writer is `map[original_pos.file]` -/
theorem run_total (p : Policy) (hp : p.Sound) (ops : List POp) : ∀ st : WState, FilesInMapper st.mapper ops →
    ∃ st', run p st (ops.map POp.toOp) = some st' := by
  induction ops with
  | nil => intro st _; exact ⟨st, rfl⟩
  | cons op ops ih =>
    intro st hm
    have hstep : ∃ s1, step p st (POp.toOp op) = some s1 := by
      cases op with
      | write t => exact ⟨_, rfl⟩
      | indent => exact ⟨_, rfl⟩
      | dedent => exact ⟨_, rfl⟩
      | writeFor t q n =>
        simp only [POp.toOp, step, writeFor]
        cases hb : q.builtin
        · cases hmp : st.mapper with
          | none =>
            simp only [Bool.false_eq_true, if_false]
            cases n <;> exact ⟨_, rfl⟩
          | some m =>
            have hlt := hm m hmp t q n (by simp) hb
            simp only [Bool.false_eq_true, if_false, List.getElem?_eq_getElem hlt]
            cases n <;> exact ⟨_, rfl⟩
        · exact ⟨_, rfl⟩
    obtain ⟨s1, hs⟩ := hstep
    have hm1 : s1.mapper = st.mapper :=
      (grow_step p hp st s1 (POp.toOp op) (toOp_noMapper [op] _ (by simp)) hs).2.2.2.2
    obtain ⟨st', h'⟩ := ih s1 (by
      rw [hm1]
      intro m hmp t q n hmem hb
      exact hm m hmp t q n (List.mem_cons_of_mem _ hmem) hb)
    exact ⟨st', by simp only [List.map_cons, run, hs]; exact h'⟩

/-- the `sources` index the writer records for a position in file `f`: `f` itself without a mapper, else `map[f]` -/
def fileIndexOf (mapper : Option (List Nat)) (f : Nat) : Option Nat :=
  match mapper with
  | none => some f
  | some m => m[f]?

theorem writeFor_fileIndex (p : Policy) (st st' : WState) (chunk nm : List Char) (node : Node)
    (hw : WInv st) (hb : node.builtin = false) (hname : node.name = some nm) (hnl : '\n' ∉ chunk)
    (hr : writeFor p st chunk node = some st') :
    ∃ (fileIndex : Nat) (pre ind : List Char) (l c : Nat),
      fileIndexOf st.mapper node.file = some fileIndex ∧
      st'.mapping.log = st.mapping.log ++
        [⟨l, c, node.line, node.col, fileIndex, some (mapName p st.names nm).2⟩,
         ⟨l, c + utf16Len chunk, node.line, node.col + utf16Len nm, fileIndex, none⟩] ∧
      st'.buf = pre ++ chunk ∧ pre = st.buf ++ ind ∧ (∀ x ∈ ind, x = ' ') ∧
      cursorOf pre = (l, c) ∧ st'.names = (mapName p st.names nm).1 := by
  obtain ⟨fi, pre, ind, l, c, h1, h2, h3, h4, h5, _, h7⟩ := writeFor_named p st st' chunk nm node hw hb hname hnl hr
  refine ⟨fi, pre, ind, l, c, ?_, h1, h2, h3, h4, h5, h7⟩
  -- recover the file index from the definition
  unfold writeFor at hr
  simp only [hb, Bool.false_eq_true, if_false] at hr
  unfold fileIndexOf
  split at hr
  · cases hr
  · rename_i fileIndex hfi
    simp only [hname, Option.some.injEq] at hr
    -- both descriptions of the log agree on the first appended entry
    have hfirst : (st'.mapping.log)[st.mapping.log.length]? =
        some ⟨l, c, node.line, node.col, fi, some (mapName p st.names nm).2⟩ := by
      rw [h1]; simp
    have hfirst' : (st'.mapping.log)[st.mapping.log.length]? =
        some ⟨(flushIndent { st with names := (mapName p st.names nm).1 }).line,
          (flushIndent { st with names := (mapName p st.names nm).1 }).col, node.line, node.col, fileIndex,
          some (mapName p st.names nm).2⟩ := by
      subst hr
      have hmap : (flushIndent { st with names := (mapName p st.names nm).1 }).mapping = st.mapping := by
        unfold flushIndent; split <;> rfl
      have e1 := (textOnly_write (wAddEntry (flushIndent { st with names := (mapName p st.names nm).1 })
        ⟨(flushIndent { st with names := (mapName p st.names nm).1 }).line,
          (flushIndent { st with names := (mapName p st.names nm).1 }).col, node.line, node.col, fileIndex,
          some (mapName p st.names nm).2⟩) chunk).1
      simp only [wAddEntry, addEntry] at e1 ⊢
      rw [e1]
      simp [hmap]
    rw [hfirst] at hfirst'
    have hfi' : fi = fileIndex := by
      have := Option.some.inj hfirst'
      exact congrArg Entry.src this
    rw [hfi']
    exact hfi

/-- The segment pair of a named, mapped, one-line `write_for` anywhere in a printer's call sequence is in the final
    mapping log, with the generated text between its two generated positions equal to the chunk. -/
theorem site_segment (pol : Policy) (hp : pol.Sound) (pre : List Op) (ops : List POp) (st0 st : WState)
    (hpre : run pol WState.init pre = some st0)
    (h : run pol st0 (ops.map POp.toOp) = some st)
    (t : String) (p : Gql.Pos) (n : String)
    (hmem : POp.writeFor t p (some n) ∈ ops) (hb : p.builtin = false) (hnl : '\n' ∉ t.toList) :
    ∃ (fi idx l c : Nat) (lpre lsuf : List Entry) (bpre bsuf : List Char),
      fileIndexOf st0.mapper p.file = some fi ∧
      st.mapping.log = lpre ++
        [⟨l, c, p.line, p.col, fi, some idx⟩,
         ⟨l, c + utf16Len t.toList, p.line, p.col + utf16Len n.toList, fi, none⟩] ++ lsuf ∧
      st.buf = bpre ++ t.toList ++ bsuf ∧ cursorOf bpre = (l, c) ∧
      cursorOf (bpre ++ t.toList) = (l, c + utf16Len t.toList) ∧
      st.names.names[idx]? = some n.toList := by
  obtain ⟨a, b, hab⟩ := List.append_of_mem hmem
  subst hab
  simp only [List.map_append, List.map_cons] at h
  obtain ⟨s1, h1, h2⟩ := run_append pol _ _ _ _ h
  simp only [run] at h2
  cases hs : step pol s1 (POp.toOp (.writeFor t p (some n))) with
  | none => rw [hs] at h2; cases h2
  | some s2 =>
    rw [hs] at h2
    have hw0 : WInv st0 := winv_run pol pre _ _ winv_init hpre
    have hw1 : WInv s1 := winv_run pol _ _ _ hw0 h1
    have hn0 : NInv st0.names := ninv_run pol hp pre _ _ ninv_init hpre
    have hn1 : NInv s1.names := ninv_run pol hp _ _ _ hn0 h1
    have g01 : Grow st0 s1 := grow_run pol hp _ _ _ (toOp_noMapper a) h1
    have g2 : Grow s2 st := grow_run pol hp _ _ _ (toOp_noMapper b) h2
    simp only [POp.toOp, step] at hs
    obtain ⟨fi, bp, ind, l, c, hfi, hlog, hbuf, _, _, hcur, hnames⟩ :=
      writeFor_fileIndex pol s1 s2 t.toList n.toList ⟨p.line, p.col, p.file, p.builtin, some n.toList⟩ hw1
        (by simpa using hb) rfl hnl hs
    obtain ⟨⟨x, hx⟩, ⟨y, hy⟩, ⟨z, hz⟩, _, _⟩ := g2
    obtain ⟨hni, hidx, _⟩ := mapName_spec pol hp s1.names n.toList hn1
    refine ⟨fi, (mapName pol s1.names n.toList).2, l, c, s1.mapping.log, y, bp, x, ?_, ?_, ?_, hcur, ?_, ?_⟩
    · rw [← g01.2.2.2.2]; exact hfi
    · rw [hy, hlog]
    · rw [hx, hbuf]
    · unfold cursorOf at hcur ⊢
      rw [cursorFrom_append, hcur, cursorFrom_noNl _ _ hnl]
    · rw [hz]
      apply getElem?_append_some
      rw [hnames]; exact hidx

open NitroVerif.SourceMapSpec (decodeMappings) in
/-- The final writer state `st` (file mapper `mapper`) holds a NAMED SEGMENT for the generated text `text` that points
    at the original position `pos` with name `name`:
    * the mapping log contains, next to each other, the entries (g₁, file, pos, name index) and
      (g₂, file, pos + utf16(name)), where file = `mapper[pos.file]` (or `pos.file` without a mapper);
    * g₁ = (l, c) is the cursor of a prefix `bpre` of the generated buffer, the buffer continues with `text`, and
      g₂ = (l, c + utf16(text)) is the cursor after it — the generated text between the two segments is `text`;
    * the names table holds `name` at the recorded index;
    * the reference Source Map decoder reads the emitted `mappings` back with these two segments next to each other. -/
def NamedSegment (st : WState) (mapper : Option (List Nat)) (text : String) (pos : Gql.Pos) (name : String) : Prop :=
  ∃ (fi idx l c : Nat) (lpre lsuf : List Entry) (bpre bsuf : List Char),
    fileIndexOf mapper pos.file = some fi ∧
    st.mapping.log = lpre ++
      [⟨l, c, pos.line, pos.col, fi, some idx⟩,
       ⟨l, c + utf16Len text.toList, pos.line, pos.col + utf16Len name.toList, fi, none⟩] ++ lsuf ∧
    st.buf = bpre ++ text.toList ++ bsuf ∧ cursorOf bpre = (l, c) ∧
    cursorOf (bpre ++ text.toList) = (l, c + utf16Len text.toList) ∧
    st.names.names[idx]? = some name.toList ∧
    ∃ segs, (decodeMappings st.mapping.buf).map (flattenFrom 0) = some segs ∧
      [(l, segOf ⟨l, c, pos.line, pos.col, fi, some idx⟩),
       (l, segOf ⟨l, c + utf16Len text.toList, pos.line, pos.col + utf16Len name.toList, fi, none⟩)] <:+: segs

end NitroVerif.PrintMap
