/-
Any string literal in its two grammatical contexts (helper lemmas for Props/C07, third stage): a `StringValue` that is parsed
at some offset is parsed there as a `Value` (the earlier alternatives `Variable`, `IntValue`, `FloatValue` fail on `"`) and as a
`Description`; `build_value` / the description builder return the characters `build_string_value` returns. Generic in the
literal: used with `litValue_runs` (every escape form) and `blockString_runs` (block strings).
-/
import NitroVerif.Lemmas.ParseMoreStrBuild
import NitroVerif.Lemmas.ParseMoreBlock
import NitroVerif.Lemmas.ParseValueAlt
namespace NitroVerif.StringParse
open NitroVerif.Peg NitroVerif.Gen NitroVerif.Gen.Parts NitroVerif.Build NitroVerif.Spec.Lex NitroVerif.TypeParse
open NitroVerif.ParseText NitroVerif.ValueParse

theorem look_Description' : gList.look R.Description = some (.normal, .call R.StringValue) := rfl

/-- a text that begins with `"` and is a `StringValue` is a `Value` -/
theorem value_of_string {n p : Nat} {r : List Char} {c' : Cur} {pr : Pair}
    (h : RunsRule gList n R.StringValue .nonAtomic ⟨p, '"' :: r⟩ c' [pr]) :
    RunsRule gList (max n 20 + 6) R.Value .nonAtomic ⟨p, '"' :: r⟩ c' [.mk R.Value p c'.pos [pr]] := by
  obtain ⟨f1, f2, f3⟩ := nonnum_fails (p := p) (text := '"' :: r) (headNot_cons (by decide) _) (headNot_cons (by decide) _)
  have h4 := runs_call (sk := true) h
  have := value_rule (runs_choice_r' f1 (runs_choice_r' f2 (runs_choice_r' f3 (runs_choice_l h4))))
  exact RunsRule.cast (this.mono (by simp only [Nat.add_le_add_iff_right, Nat.max_le]; omega)) rfl rfl rfl

/-- … and a `Description` -/
theorem description_of_string {n p : Nat} {r : List Char} {c' : Cur} {pr : Pair}
    (h : RunsRule gList n R.StringValue .nonAtomic ⟨p, '"' :: r⟩ c' [pr]) :
    RunsRule gList (n + 2) R.Description .nonAtomic ⟨p, '"' :: r⟩ c' [.mk R.Description p c'.pos [pr]] :=
  runsRule_normal look_Description' (notSpecial (by decide) (by decide)) (runs_call h)

/-- `build_value` on a `Value` pair whose only child is a `StringValue` pair -/
theorem buildValue_string {ctx : Ctx} {pr : Pair} {cs : List Char} {pos : Gql.Pos} (hr : pr.rule = R.StringValue)
    (hsv : stringValueChars ctx pr = .ok (cs, pos)) (fuel s e : Nat) :
    buildValue ctx (fuel + 1) (.mk R.Value s e [pr]) = .ok (.str (String.ofList cs) pos) := by
  simp [buildValue, onlyChildOf, onlyChild, Pair.children, OC_Value, hr, buildStringValue, hsv, bind, Except.bind,
    R.Variable, R.IntValue, R.FloatValue, R.StringValue]

/-- the description builder on a `Description` pair whose only child is a `StringValue` pair -/
theorem buildDescription_string {ctx : Ctx} {pr : Pair} {cs : List Char} {pos : Gql.Pos} (hr : pr.rule = R.StringValue)
    (hsv : stringValueChars ctx pr = .ok (cs, pos)) (s e : Nat) :
    buildDescription ctx (.mk R.Description s e [pr]) = .ok (String.ofList cs) := by
  simp [buildDescription, onlyChildOf, onlyChild, Pair.children, OC_Description, hr, buildStringValue, hsv, bind,
    Except.bind]

theorem litPair_rule (its : List SItem) (p : Nat) : (litPair its p).rule = R.StringValue := rfl
theorem blockPair_rule (n p : Nat) : (blockPair n p).rule = R.StringValue := rfl

end NitroVerif.StringParse
