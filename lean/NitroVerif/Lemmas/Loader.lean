import NitroVerif.Model.Loader
/-! Helper lemmas for C19 (no property statements here). -/
namespace NitroVerif.Loader

section Assoc
variable {K V : Type} [DecidableEq K]

@[simp] theorem lookup_nil (k : K) : lookup ([] : List (K × V)) k = none := rfl

theorem lookup_cons (k' : K) (v : V) (r : List (K × V)) (k : K) :
    lookup ((k', v) :: r) k = if k' = k then some v else lookup r k := rfl

theorem mem_erase {l : List (K × V)} {k : K} {e : K × V} : e ∈ erase l k ↔ e ∈ l ∧ e.1 ≠ k := by
  simp [erase]

theorem lookup_erase (l : List (K × V)) (k k' : K) :
    lookup (erase l k) k' = if k' = k then none else lookup l k' := by
  induction l with
  | nil => simp [erase]
  | cons e r ih =>
    obtain ⟨a, v⟩ := e
    by_cases h : a = k
    · subst h
      have : erase ((a, v) :: r) a = erase r a := by simp [erase]
      rw [this, ih, lookup_cons]
      by_cases h2 : k' = a
      · simp [h2]
      · have : ¬ a = k' := fun h => h2 h.symm
        simp [h2, this]
    · have : erase ((a, v) :: r) k = (a, v) :: erase r k := by simp [erase, h]
      rw [this, lookup_cons, lookup_cons, ih]
      by_cases h2 : a = k'
      · subst h2; simp [h]
      · simp [h2]

theorem lookup_insert (k : K) (v : V) (l : List (K × V)) (k' : K) :
    lookup (insert k v l) k' = if k = k' then some v else lookup l k' := by
  unfold insert
  rw [lookup_cons, lookup_erase]
  by_cases h : k = k'
  · simp [h]
  · have : ¬ k' = k := fun h' => h h'.symm
    simp [h, this]

theorem lookup_mem {l : List (K × V)} {k : K} {v : V} (h : lookup l k = some v) : (k, v) ∈ l := by
  induction l with
  | nil => simp at h
  | cons e r ih =>
    obtain ⟨a, w⟩ := e
    rw [lookup_cons] at h
    by_cases h2 : a = k
    · subst h2; simp at h; subst h; simp
    · simp [h2] at h; exact List.mem_cons_of_mem _ (ih h)

theorem lookup_none_of_not_mem {l : List (K × V)} {k : K} (h : ∀ e ∈ l, e.1 ≠ k) : lookup l k = none := by
  induction l with
  | nil => rfl
  | cons e r ih =>
    obtain ⟨a, w⟩ := e
    rw [lookup_cons]
    have : a ≠ k := h (a, w) (by simp)
    simp [this]
    exact ih fun e he => h e (List.mem_cons_of_mem _ he)

theorem lookup_isSome_of_mem {l : List (K × V)} {e : K × V} (h : e ∈ l) : (lookup l e.1).isSome := by
  induction l with
  | nil => simp at h
  | cons x r ih =>
    obtain ⟨a, w⟩ := x
    rw [lookup_cons]
    by_cases h2 : a = e.1
    · simp [h2]
    · simp [h2]
      rcases List.mem_cons.mp h with rfl | h
      · exact absurd rfl h2
      · exact ih h

theorem mem_insert {k : K} {v : V} {l : List (K × V)} {e : K × V} :
    e ∈ insert k v l ↔ e = (k, v) ∨ (e ∈ l ∧ e.1 ≠ k) := by
  simp [insert, mem_erase]

end Assoc

/-! ### `addNew` (order-preserving de-duplication used by `get_required_files`) -/

section AddNew
variable {P : Type} [DecidableEq P]

theorem mem_foldl_addNew (l acc : List P) (p : P) : p ∈ l.foldl addNew acc ↔ p ∈ acc ∨ p ∈ l := by
  induction l generalizing acc with
  | nil => simp
  | cons x r ih =>
    rw [List.foldl_cons, ih]
    unfold addNew
    by_cases h : x ∈ acc
    · simp [h]
      constructor
      · rintro (h1 | h1); exact Or.inl h1; exact Or.inr (Or.inr h1)
      · rintro (h1 | rfl | h1); exact Or.inl h1; exact Or.inl h; exact Or.inr h1
    · simp [h]
      constructor
      · rintro ((h1 | rfl) | h1); exact Or.inl h1; exact Or.inr (Or.inl rfl); exact Or.inr (Or.inr h1)
      · rintro (h1 | rfl | h1); exact Or.inl (Or.inl h1); exact Or.inl (Or.inr rfl); exact Or.inr h1

theorem nodup_foldl_addNew (l acc : List P) (h : acc.Nodup) : (l.foldl addNew acc).Nodup := by
  induction l generalizing acc with
  | nil => simpa
  | cons x r ih =>
    rw [List.foldl_cons]
    apply ih
    unfold addNew
    by_cases hx : x ∈ acc
    · simpa [hx]
    · simp [hx]
      rw [List.nodup_append]
      refine ⟨h, by simp, ?_⟩
      intro a ha b hb
      simp at hb; subst hb
      intro e; subst e; exact hx ha

end AddNew

/-! ### ids -/

section Steps
variable {P S J : Type} [DecidableEq P]

def issued : List (Resp P J) → List Nat
  | [] => []
  | .taskId n :: r => n :: issued r
  | _ :: r => issued r

theorem step_next_le (env : Env P S J) (σ : St P S J) (op : Op P S) : σ.next ≤ (step env σ op).1.next := by
  unfold step
  split
  · exact Nat.le_refl _
  · cases op with
    | getResult => dsimp only; split <;> simp
    | call c =>
      cases c <;> simp only [stepCall] <;> (repeat' split) <;> simp

theorem step_taskId (env : Env P S J) (σ : St P S J) (op : Op P S) (n : Nat)
    (h : (step env σ op).2 = .taskId n) : n = σ.next ∧ (step env σ op).1.next = σ.next + 1 := by
  unfold step at h ⊢
  split at h
  · simp at h
  · rename_i hd
    simp only [hd]
    cases op with
    | getResult => dsimp only at h; split at h <;> simp at h
    | call c =>
      cases c <;> simp only [stepCall] at h ⊢ <;> (repeat' split at h) <;> simp_all

theorem issued_ge (env : Env P S J) (σ : St P S J) (h : List (Op P S)) :
    ∀ n ∈ issued (runResps env σ h), σ.next ≤ n := by
  induction h generalizing σ with
  | nil => simp [runResps, issued]
  | cons op h ih =>
    intro n hn
    simp only [runResps] at hn
    have hle := step_next_le env σ op
    cases hr : (step env σ op).2 with
    | taskId m =>
      rw [hr] at hn
      simp only [issued, List.mem_cons] at hn
      have ⟨e1, e2⟩ := step_taskId env σ op m hr
      rcases hn with rfl | hn
      · omega
      · have := ih _ n hn; omega
    | _ =>
      rw [hr] at hn
      simp only [issued] at hn
      have := ih _ n hn; omega

theorem issued_pairwise (env : Env P S J) (σ : St P S J) (h : List (Op P S)) :
    (issued (runResps env σ h)).Pairwise (· < ·) := by
  induction h generalizing σ with
  | nil => simp [runResps, issued]
  | cons op h ih =>
    simp only [runResps]
    cases hr : (step env σ op).2 with
    | taskId m =>
      simp only [issued, List.pairwise_cons]
      have ⟨e1, e2⟩ := step_taskId env σ op m hr
      refine ⟨?_, ih _⟩
      intro n hn
      have := issued_ge env _ h n hn
      omega
    | _ => simp only [issued]; exact ih _

/-- every live id is below `next` -/
def KeysLt (σ : St P S J) : Prop := ∀ t, σ.next ≤ t → lookup σ.tasks t = none

omit [DecidableEq P] in
theorem keysLt_init : KeysLt (init : St P S J) := by intro t _; rfl

theorem step_keysLt (env : Env P S J) (σ : St P S J) (op : Op P S) (hk : KeysLt σ) : KeysLt (step env σ op).1 := by
  unfold step
  split
  · exact hk
  · cases op with
    | getResult => dsimp only; split <;> exact hk
    | call c =>
      cases c with
      | initiate f s =>
        simp only [stepCall]
        split
        · exact hk
        · intro t ht
          simp only at ht ⊢
          rw [lookup_cons]
          have : ¬ σ.next = t := by omega
          simp [this]; exact hk t (by omega)
      | required t => simp only [stepCall]; split <;> exact hk
      | load t f s =>
        simp only [stepCall]
        split
        · exact hk
        · rename_i task hl
          have hlt : t < σ.next := by
            by_cases h : σ.next ≤ t
            · rw [hk t h] at hl; simp at hl
            · omega
          split <;> (intro t' ht'; simp only at ht' ⊢; rw [lookup_insert]
                     have : ¬ t = t' := by omega
                     simp [this]; exact hk t' ht')
      | emit t => simp only [stepCall]; (repeat' split) <;> exact hk
      | free t =>
        simp only [stepCall]
        split
        · exact hk
        · intro t' ht'
          simp only at ht' ⊢
          rw [lookup_erase]; split
          · rfl
          · exact hk t' ht'

/-- an id below `next` that is not live stays not live (ids are never reused) -/
theorem step_not_live (env : Env P S J) (σ : St P S J) (op : Op P S) (t : Nat) (hlt : t < σ.next)
    (hn : lookup σ.tasks t = none) : lookup (step env σ op).1.tasks t = none := by
  unfold step
  split
  · exact hn
  · cases op with
    | getResult => dsimp only; split <;> exact hn
    | call c =>
      cases c with
      | initiate f s =>
        simp only [stepCall]
        split
        · exact hn
        · simp only; rw [lookup_cons]
          have : ¬ σ.next = t := by omega
          simp [this]; exact hn
      | required t' => simp only [stepCall]; split <;> exact hn
      | load t' f s =>
        simp only [stepCall]
        split
        · exact hn
        · rename_i task hl
          have : ¬ t' = t := by intro e; subst e; rw [hn] at hl; simp at hl
          split <;> (simp only; rw [lookup_insert]; simp [this]; exact hn)
      | emit t' => simp only [stepCall]; (repeat' split) <;> exact hn
      | free t' =>
        simp only [stepCall]
        split
        · exact hn
        · simp only; rw [lookup_erase]; split
          · rfl
          · exact hn

/-! ### equations of `step` on a live instance, call by call -/

theorem step_dead (env : Env P S J) (σ : St P S J) (op : Op P S) (hd : σ.dead = true) : step env σ op = (σ, .trap) := by
  simp [step, hd]

theorem step_initiate_err (env : Env P S J) {σ : St P S J} (hd : σ.dead = false) {s : S} {c : Nat}
    (hp : env.parse s = .error c) (f : P) :
    step env σ (.call (.initiate f s)) =
      ({ σ with heap := dropTask none (register env none σ.heap { root := f, files := [], borrows := [], drops := [] } f s).heap
                          (register env none σ.heap { root := f, files := [], borrows := [], drops := [] } f s).task,
                result := some (.msg (.source c)) }, .failed (.source c)) := by
  simp [step, stepCall, hd, hp]

theorem step_initiate_ok (env : Env P S J) {σ : St P S J} (hd : σ.dead = false) {s : S} {imps : List P}
    (hp : env.parse s = .ok imps) (f : P) :
    step env σ (.call (.initiate f s)) =
      ({ σ with next := σ.next + 1,
                tasks := (σ.next, (register env (some σ.next) σ.heap { root := f, files := [], borrows := [], drops := [] } f s).task) :: σ.tasks,
                heap := (register env (some σ.next) σ.heap { root := f, files := [], borrows := [], drops := [] } f s).heap },
       .taskId σ.next) := by
  simp [step, stepCall, hd, hp]

theorem step_required_none (env : Env P S J) {σ : St P S J} (hd : σ.dead = false) {t : Nat} (hl : lookup σ.tasks t = none) :
    step env σ (.call (.required t)) = ({ σ with result := some (.msg .taskNotFound) }, .failed .taskNotFound) := by
  simp [step, stepCall, hd, hl]

theorem step_required_some (env : Env P S J) {σ : St P S J} (hd : σ.dead = false) {t : Nat} {T : Task P S}
    (hl : lookup σ.tasks t = some T) :
    step env σ (.call (.required t)) =
      ({ σ with result := some (.files (requiredOf env T.files)) }, .files (requiredOf env T.files)) := by
  simp [step, stepCall, hd, hl]

theorem step_load_none (env : Env P S J) {σ : St P S J} (hd : σ.dead = false) {t : Nat} (hl : lookup σ.tasks t = none) (f : P) (s : S) :
    step env σ (.call (.load t f s)) = ({ σ with result := some (.msg .taskNotFound) }, .failed .taskNotFound) := by
  simp [step, stepCall, hd, hl]

theorem register_err (env : Env P S J) (who : Option Nat) (heap : List Buf) (T : Task P S) (f : P) {s : S} {c : Nat}
    (hp : env.parse s = .error c) :
    register env who heap T f s =
      { task := { T with drops := T.drops ++ [heap.length] }
        heap := heap ++ [{ id := heap.length, owner := who, freed := 0, borrowed := false, bad := false }]
        err := some c } := by
  simp [register, hp]

theorem register_ok (env : Env P S J) (who : Option Nat) (heap : List Buf) (T : Task P S) (f : P) {s : S} {imps : List P}
    (hp : env.parse s = .ok imps) :
    register env who heap T f s =
      { task := { T with drops := T.drops ++ [heap.length],
                         files := insert f { imports := imps, src := s } T.files,
                         borrows := insert f heap.length T.borrows }
        heap := unborrow ((T.borrows.filter fun e => decide (e.1 = f)).map (·.2)) heap
                ++ [{ id := heap.length, owner := who, freed := 0, borrowed := true, bad := false }]
        err := none } := by
  simp [register, hp]

theorem step_load_err (env : Env P S J) {σ : St P S J} (hd : σ.dead = false) {t : Nat} {T : Task P S}
    (hl : lookup σ.tasks t = some T) (f : P) {s : S} {c : Nat} (hp : env.parse s = .error c) :
    step env σ (.call (.load t f s)) =
      ({ σ with tasks := insert t (register env (some t) σ.heap T f s).task σ.tasks,
                heap := (register env (some t) σ.heap T f s).heap,
                result := some (.msg (.source c)) }, .failed (.source c)) := by
  simp [step, stepCall, hd, hl, register_err env _ _ _ _ hp]

theorem step_load_ok (env : Env P S J) {σ : St P S J} (hd : σ.dead = false) {t : Nat} {T : Task P S}
    (hl : lookup σ.tasks t = some T) (f : P) {s : S} {imps : List P} (hp : env.parse s = .ok imps) :
    step env σ (.call (.load t f s)) =
      ({ σ with tasks := insert t (register env (some t) σ.heap T f s).task σ.tasks,
                heap := (register env (some t) σ.heap T f s).heap }, .loaded) := by
  simp [step, stepCall, hd, hl, register_ok env _ _ _ _ hp]

theorem step_emit_none (env : Env P S J) {σ : St P S J} (hd : σ.dead = false) {t : Nat} (hl : lookup σ.tasks t = none) :
    step env σ (.call (.emit t)) = ({ σ with result := some (.msg .taskNotFound) }, .failed .taskNotFound) := by
  simp [step, stepCall, hd, hl]

theorem step_emit_some (env : Env P S J) {σ : St P S J} (hd : σ.dead = false) {t : Nat} {T : Task P S}
    (hl : lookup σ.tasks t = some T) {d : Doc P S} (hr : lookup T.files T.root = some d) :
    step env σ (.call (.emit t)) =
      (match env.emit T.root (lookup T.files) with
       | .js j => ({ σ with result := some (.js j) }, .js j)
       | .err c => ({ σ with result := some (.msg (.source c)) }, .failed (.source c))
       | .trap => ({ σ with dead := true }, .trap)) := by
  simp only [step, stepCall, hd, hl, hr]
  cases env.emit T.root (lookup T.files) <;> simp

theorem step_free_none (env : Env P S J) {σ : St P S J} (hd : σ.dead = false) {t : Nat} (hl : lookup σ.tasks t = none) :
    step env σ (.call (.free t)) = (σ, .freed) := by
  simp [step, stepCall, hd, hl]

theorem step_free_some (env : Env P S J) {σ : St P S J} (hd : σ.dead = false) {t : Nat} {T : Task P S}
    (hl : lookup σ.tasks t = some T) :
    step env σ (.call (.free t)) =
      ({ σ with tasks := erase σ.tasks t, heap := dropTask (some t) σ.heap T }, .freed) := by
  simp [step, stepCall, hd, hl]


/-- the emitter never panics (C08's claim for import resolution + the JS printer; searched by O) -/
def EmitTotal (env : Env P S J) : Prop := ∀ root look, env.emit root look ≠ .trap

/-- every live task still holds its root document -/
def RootOk (σ : St P S J) : Prop := ∀ t T, lookup σ.tasks t = some T → lookup T.files T.root ≠ none

theorem rootOk_init : RootOk (init : St P S J) := by intro t T h; simp [init] at h

theorem step_rootOk (env : Env P S J) (σ : St P S J) (op : Op P S) (hk : RootOk σ) : RootOk (step env σ op).1 := by
  cases hd : σ.dead with
  | true => rw [step_dead env σ op hd]; exact hk
  | false =>
  cases op with
  | getResult => simp only [step, hd]; simp; split <;> exact hk
  | call c =>
    cases c with
    | initiate f s =>
      cases hp : env.parse s with
      | error c => rw [step_initiate_err env hd hp]; exact hk
      | ok imps =>
        rw [step_initiate_ok env hd hp, register_ok env _ _ _ _ hp]
        intro t T; simp only; rw [lookup_cons]; split
        · intro h; simp at h; subst h; simp [lookup_insert]
        · exact hk t T
    | required t =>
      cases hl : lookup σ.tasks t with
      | none => rw [step_required_none env hd hl]; exact hk
      | some T => rw [step_required_some env hd hl]; exact hk
    | load t f s =>
      cases hl : lookup σ.tasks t with
      | none => rw [step_load_none env hd hl]; exact hk
      | some T =>
        have hT := hk t T hl
        cases hp : env.parse s with
        | error c =>
          rw [step_load_err env hd hl f hp, register_err env _ _ _ _ hp]
          intro t' T'; simp only; rw [lookup_insert]; split
          · intro h; simp at h; subst h; exact hT
          · exact hk t' T'
        | ok imps =>
          rw [step_load_ok env hd hl f hp, register_ok env _ _ _ _ hp]
          intro t' T'; simp only; rw [lookup_insert]; split
          · intro h; simp at h; subst h; simp only; rw [lookup_insert]; split <;> simp_all
          · exact hk t' T'
    | emit t =>
      cases hl : lookup σ.tasks t with
      | none => rw [step_emit_none env hd hl]; exact hk
      | some T =>
        cases hr : lookup T.files T.root with
        | none => exact absurd hr (hk t T hl)
        | some d => rw [step_emit_some env hd hl hr]; split <;> exact hk
    | free t =>
      cases hl : lookup σ.tasks t with
      | none => rw [step_free_none env hd hl]; exact hk
      | some T =>
        rw [step_free_some env hd hl]
        intro t' T'; simp only; rw [lookup_erase]; split
        · simp
        · exact hk t' T'

/-! ### projection of a history onto one task -/

/-- the task a call is addressed to (for `initiate`: the id it is about to issue) -/
def owner (env : Env P S J) (σ : St P S J) : Call P S → Option Nat
  | .initiate _ s => match env.parse s with
    | .ok _ => some σ.next
    | .error _ => none
  | .required t => some t
  | .load t _ _ => some t
  | .emit t => some t
  | .free t => some t

/-- id renaming: the projected task is the first (and only) task of the projected history -/
def renameCall : Call P S → Call P S
  | .initiate f s => .initiate f s
  | .required _ => .required 1
  | .load _ f s => .load 1 f s
  | .emit _ => .emit 1
  | .free _ => .free 1

def renameResp : Resp P J → Resp P J
  | .taskId _ => .taskId 1
  | r => r

/-- the calls of `h` addressed to task `t`, ids renamed -/
def proj (env : Env P S J) (t : Nat) : St P S J → List (Call P S) → List (Call P S)
  | _, [] => []
  | σ, c :: h =>
    if owner env σ c = some t then renameCall c :: proj env t (step env σ (.call c)).1 h
    else proj env t (step env σ (.call c)).1 h

/-- the responses of `h` to the calls addressed to task `t`, ids renamed -/
def respsOf (env : Env P S J) (t : Nat) : St P S J → List (Call P S) → List (Resp P J)
  | _, [] => []
  | σ, c :: h =>
    if owner env σ c = some t then renameResp (step env σ (.call c)).2 :: respsOf env t (step env σ (.call c)).1 h
    else respsOf env t (step env σ (.call c)).1 h

def TaskRel : Option (Task P S) → Option (Task P S) → Prop
  | none, none => True
  | some T, some U => T.root = U.root ∧ T.files = U.files
  | _, _ => False

structure Sim (t : Nat) (σ τ : St P S J) : Prop where
  sd : σ.dead = false
  td : τ.dead = false
  keys : KeysLt σ
  root : RootOk σ
  rel : TaskRel (lookup σ.tasks t) (lookup τ.tasks 1)
  phase : σ.next ≤ t → τ.next = 1

theorem sim_step (env : Env P S J) (he : EmitTotal env) (t : Nat) (σ τ : St P S J) (hs : Sim t σ τ) (c : Call P S) :
    (owner env σ c = some t →
      Sim t (step env σ (.call c)).1 (step env τ (.call (renameCall c))).1 ∧
      renameResp (step env σ (.call c)).2 = (step env τ (.call (renameCall c))).2) ∧
    (owner env σ c ≠ some t → Sim t (step env σ (.call c)).1 τ) := by
  obtain ⟨sd, td, keys, root, rel, phase⟩ := hs
  have hk' := step_keysLt env σ (.call c) keys
  have hr' := step_rootOk env σ (.call c) root
  cases c with
  | initiate f s =>
    simp only [renameCall]
    cases hp : env.parse s with
    | error e =>
      constructor
      · intro h; simp [owner, hp] at h
      · intro _
        rw [step_initiate_err env sd hp] at hk' hr' ⊢
        exact ⟨sd, td, hk', hr', rel, phase⟩
    | ok imps =>
      constructor
      · intro h
        simp [owner, hp] at h
        have hτ := phase (by omega)
        rw [step_initiate_ok env sd hp] at hk' hr' ⊢
        rw [step_initiate_ok env td hp]
        refine ⟨⟨sd, td, hk', hr', ?_, ?_⟩, ?_⟩
        · simp only; rw [lookup_cons, lookup_cons]
          simp [h, hτ, TaskRel, register_ok env _ _ _ _ hp]
        · simp only; omega
        · simp [renameResp, hτ]
      · intro h
        simp [owner, hp] at h
        rw [step_initiate_ok env sd hp] at hk' hr' ⊢
        refine ⟨sd, td, hk', hr', ?_, ?_⟩
        · simp only; rw [lookup_cons]; simp [h]; exact rel
        · simp only; intro h2; exact phase (by omega)
  | required t' =>
    simp only [renameCall]
    have hσ : (step env σ (.call (.required t'))).1 = { σ with result := (step env σ (.call (.required t'))).1.result } := by
      cases hl : lookup σ.tasks t' with
      | none => rw [step_required_none env sd hl]
      | some T => rw [step_required_some env sd hl]
    constructor
    · intro h
      simp [owner] at h; subst h
      cases h1 : lookup σ.tasks t' <;> cases h2 : lookup τ.tasks 1 <;> simp only [h1, h2, TaskRel] at rel
      · rw [step_required_none env sd h1] at hk' hr' ⊢; rw [step_required_none env td h2]
        exact ⟨⟨sd, td, hk', hr', by simp [h1, h2, TaskRel], phase⟩, rfl⟩
      · rw [step_required_some env sd h1] at hk' hr' ⊢; rw [step_required_some env td h2]
        exact ⟨⟨sd, td, hk', hr', by simp [h1, h2, TaskRel, rel], phase⟩, by simp [renameResp, rel.2]⟩
    · intro _
      rw [hσ] at hk' hr' ⊢
      exact ⟨sd, td, hk', hr', rel, phase⟩
  | load t' f s =>
    simp only [renameCall]
    constructor
    · intro h
      simp [owner] at h; subst h
      cases h1 : lookup σ.tasks t' <;> cases h2 : lookup τ.tasks 1 <;> simp only [h1, h2, TaskRel] at rel
      · rw [step_load_none env sd h1] at hk' hr' ⊢; rw [step_load_none env td h2]
        exact ⟨⟨sd, td, hk', hr', by simp [h1, h2, TaskRel], phase⟩, rfl⟩
      · cases hp : env.parse s with
        | error c =>
          rw [step_load_err env sd h1 f hp] at hk' hr' ⊢; rw [step_load_err env td h2 f hp]
          refine ⟨⟨sd, td, hk', hr', ?_, phase⟩, rfl⟩
          simp only; rw [lookup_insert, lookup_insert]
          simp [TaskRel, register_err env _ _ _ _ hp, rel.1, rel.2]
        | ok imps =>
          rw [step_load_ok env sd h1 f hp] at hk' hr' ⊢; rw [step_load_ok env td h2 f hp]
          refine ⟨⟨sd, td, hk', hr', ?_, phase⟩, rfl⟩
          simp only; rw [lookup_insert, lookup_insert]
          simp [TaskRel, register_ok env _ _ _ _ hp, rel.1, rel.2]
    · intro h
      simp [owner] at h
      have h' : ¬ t' = t := h
      cases h1 : lookup σ.tasks t' with
      | none => rw [step_load_none env sd h1] at hk' hr' ⊢; exact ⟨sd, td, hk', hr', rel, phase⟩
      | some T =>
        cases hp : env.parse s with
        | error c =>
          rw [step_load_err env sd h1 f hp] at hk' hr' ⊢
          refine ⟨sd, td, hk', hr', ?_, phase⟩
          simp only; rw [lookup_insert]; simp [h']; exact rel
        | ok imps =>
          rw [step_load_ok env sd h1 f hp] at hk' hr' ⊢
          refine ⟨sd, td, hk', hr', ?_, phase⟩
          simp only; rw [lookup_insert]; simp [h']; exact rel
  | emit t' =>
    simp only [renameCall]
    constructor
    · intro h
      simp [owner] at h; subst h
      cases h1 : lookup σ.tasks t' <;> cases h2 : lookup τ.tasks 1 <;> simp only [h1, h2, TaskRel] at rel
      · rw [step_emit_none env sd h1] at hk' hr' ⊢; rw [step_emit_none env td h2]
        exact ⟨⟨sd, td, hk', hr', by simp [h1, h2, TaskRel], phase⟩, rfl⟩
      · rename_i T U
        obtain ⟨r1, r2⟩ := rel
        cases h3 : lookup T.files T.root with
        | none => exact absurd h3 (root t' T h1)
        | some d =>
          have h3' : lookup U.files U.root = some d := by rw [← r1, ← r2]; exact h3
          rw [step_emit_some env sd h1 h3] at hk' hr' ⊢; rw [step_emit_some env td h2 h3', ← r1, ← r2]
          have het := he T.root (lookup T.files)
          cases h4 : env.emit T.root (lookup T.files) with
          | trap => exact absurd h4 het
          | js j =>
            simp only [h4] at hk' hr' ⊢
            exact ⟨⟨sd, td, hk', hr', by simp [h1, h2, TaskRel, r1, r2], phase⟩, rfl⟩
          | err e =>
            simp only [h4] at hk' hr' ⊢
            exact ⟨⟨sd, td, hk', hr', by simp [h1, h2, TaskRel, r1, r2], phase⟩, rfl⟩
    · intro _
      cases h1 : lookup σ.tasks t' with
      | none => rw [step_emit_none env sd h1] at hk' hr' ⊢; exact ⟨sd, td, hk', hr', rel, phase⟩
      | some T =>
        cases h3 : lookup T.files T.root with
        | none => exact absurd h3 (root t' T h1)
        | some d =>
          rw [step_emit_some env sd h1 h3] at hk' hr' ⊢
          have het := he T.root (lookup T.files)
          cases h4 : env.emit T.root (lookup T.files) with
          | trap => exact absurd h4 het
          | js j => simp only [h4] at hk' hr' ⊢; exact ⟨sd, td, hk', hr', rel, phase⟩
          | err e => simp only [h4] at hk' hr' ⊢; exact ⟨sd, td, hk', hr', rel, phase⟩
  | free t' =>
    simp only [renameCall]
    constructor
    · intro h
      simp [owner] at h; subst h
      cases h1 : lookup σ.tasks t' <;> cases h2 : lookup τ.tasks 1 <;> simp only [h1, h2, TaskRel] at rel
      · rw [step_free_none env sd h1] at hk' hr' ⊢; rw [step_free_none env td h2]
        exact ⟨⟨sd, td, hk', hr', by simp [h1, h2, TaskRel], phase⟩, rfl⟩
      · rw [step_free_some env sd h1] at hk' hr' ⊢; rw [step_free_some env td h2]
        refine ⟨⟨sd, td, hk', hr', ?_, phase⟩, rfl⟩
        simp [lookup_erase, TaskRel]
    · intro h
      simp [owner] at h
      have h' : ¬ t = t' := fun e => h e.symm
      cases h1 : lookup σ.tasks t' with
      | none => rw [step_free_none env sd h1] at hk' hr' ⊢; exact ⟨sd, td, hk', hr', rel, phase⟩
      | some T =>
        rw [step_free_some env sd h1] at hk' hr' ⊢
        refine ⟨sd, td, hk', hr', ?_, phase⟩
        simp only; rw [lookup_erase]; simp [h']; exact rel

theorem sim_run (env : Env P S J) (he : EmitTotal env) (t : Nat) (h : List (Call P S)) :
    ∀ σ τ : St P S J, Sim t σ τ → respsOf env t σ h = runResps env τ ((proj env t σ h).map .call) := by
  induction h with
  | nil => intro σ τ _; simp [respsOf, proj, runResps]
  | cons c h ih =>
    intro σ τ hs
    have ⟨h1, h2⟩ := sim_step env he t σ τ hs c
    simp only [respsOf, proj]
    by_cases ho : owner env σ c = some t
    · have ⟨hs', hr⟩ := h1 ho
      simp only [ho, if_true, List.map_cons, runResps]
      rw [hr, ih _ _ hs']
    · simp only [ho, if_false]
      exact ih _ _ (h2 ho)

theorem sim_init (t : Nat) : Sim t (init : St P S J) init :=
  ⟨rfl, rfl, keysLt_init, rootOk_init, by simp [init, TaskRel], fun _ => rfl⟩


theorem runSt_append (env : Env P S J) (σ : St P S J) (h1 h2 : List (Op P S)) :
    runSt env σ (h1 ++ h2) = runSt env (runSt env σ h1) h2 := by
  induction h1 generalizing σ with
  | nil => rfl
  | cons op h ih => simp only [List.cons_append, runSt]; exact ih _

/-- every loaded document is the parse of the source it was built from -/
def ParsedOk (env : Env P S J) (σ : St P S J) : Prop :=
  ∀ t T, lookup σ.tasks t = some T → ∀ e ∈ T.files, env.parse e.2.src = .ok e.2.imports

omit [DecidableEq P] in
theorem parsedOk_init (env : Env P S J) : ParsedOk env (init : St P S J) := by intro t T h; simp [init] at h

theorem step_parsedOk (env : Env P S J) (σ : St P S J) (op : Op P S) (hk : ParsedOk env σ) : ParsedOk env (step env σ op).1 := by
  cases hd : σ.dead with
  | true => rw [step_dead env σ op hd]; exact hk
  | false =>
  cases op with
  | getResult => simp only [step, hd]; simp; split <;> exact hk
  | call c =>
    cases c with
    | initiate f s =>
      cases hp : env.parse s with
      | error c => rw [step_initiate_err env hd hp]; exact hk
      | ok imps =>
        rw [step_initiate_ok env hd hp, register_ok env _ _ _ _ hp]
        intro t T; simp only; rw [lookup_cons]; split
        · intro h; simp at h; subst h; intro e he
          simp [insert, erase] at he; subst he; exact hp
        · exact hk t T
    | required t =>
      cases hl : lookup σ.tasks t with
      | none => rw [step_required_none env hd hl]; exact hk
      | some T => rw [step_required_some env hd hl]; exact hk
    | load t f s =>
      cases hl : lookup σ.tasks t with
      | none => rw [step_load_none env hd hl]; exact hk
      | some T =>
        have hT := hk t T hl
        cases hp : env.parse s with
        | error c =>
          rw [step_load_err env hd hl f hp, register_err env _ _ _ _ hp]
          intro t' T'; simp only; rw [lookup_insert]; split
          · intro h; simp at h; subst h; exact hT
          · exact hk t' T'
        | ok imps =>
          rw [step_load_ok env hd hl f hp, register_ok env _ _ _ _ hp]
          intro t' T'; simp only; rw [lookup_insert]; split
          · intro h; simp at h; subst h; intro e he
            rcases mem_insert.mp he with rfl | ⟨he, _⟩
            · exact hp
            · exact hT e he
          · exact hk t' T'
    | emit t =>
      cases hl : lookup σ.tasks t with
      | none => rw [step_emit_none env hd hl]; exact hk
      | some T =>
        simp only [step, stepCall, hd, hl]; simp; (repeat' split) <;> exact hk
    | free t =>
      cases hl : lookup σ.tasks t with
      | none => rw [step_free_none env hd hl]; exact hk
      | some T =>
        rw [step_free_some env hd hl]
        intro t' T'; simp only; rw [lookup_erase]; split
        · simp
        · exact hk t' T'

theorem run_inv (env : Env P S J) (h : List (Op P S)) (σ : St P S J) :
    KeysLt σ → RootOk σ → ParsedOk env σ →
    KeysLt (runSt env σ h) ∧ RootOk (runSt env σ h) ∧ ParsedOk env (runSt env σ h) := by
  induction h generalizing σ with
  | nil => intro a b c; exact ⟨a, b, c⟩
  | cons op h ih =>
    intro a b c
    exact ih _ (step_keysLt env σ op a) (step_rootOk env σ op b) (step_parsedOk env σ op c)

/-- supplying the files `fs` (last entry first) to live task `n` -/
def supplyAll (n : Nat) (fs : List (P × Doc P S)) : List (Op P S) :=
  fs.reverse.map fun e => .call (.load n e.1 e.2.src)

theorem run_supplyAll (env : Env P S J) (n : Nat) (fs : List (P × Doc P S))
    (hfs : ∀ e ∈ fs, env.parse e.2.src = .ok e.2.imports) :
    ∀ (σ : St P S J) (T : Task P S), σ.dead = false → lookup σ.tasks n = some T →
      ∃ T', (runSt env σ (supplyAll n fs)).dead = false ∧ lookup (runSt env σ (supplyAll n fs)).tasks n = some T' ∧
        T'.root = T.root ∧
        ∀ q, lookup T'.files q = (match lookup fs q with | some d => some d | none => lookup T.files q) := by
  induction fs with
  | nil => intro σ T hd hl; exact ⟨T, by simpa [supplyAll, runSt] using hd, by simpa [supplyAll, runSt] using hl, rfl, by simp⟩
  | cons e fs ih =>
    intro σ T hd hl
    obtain ⟨T1, hd1, hl1, hr1, hq1⟩ := ih (fun e he => hfs e (List.mem_cons_of_mem _ he)) σ T hd hl
    have hp := hfs e (by simp)
    have : supplyAll n (e :: fs) = supplyAll n fs ++ [.call (.load n e.1 e.2.src)] := by
      simp [supplyAll]
    rw [this, runSt_append]
    simp only [runSt]
    rw [step_load_ok env hd1 hl1 e.1 hp, register_ok env _ _ _ _ hp]
    refine ⟨{ T1 with drops := T1.drops ++ [(runSt env σ (supplyAll n fs)).heap.length],
                       files := insert e.1 { imports := e.2.imports, src := e.2.src } T1.files,
                       borrows := insert e.1 (runSt env σ (supplyAll n fs)).heap.length T1.borrows },
      hd1, by simp only; rw [lookup_insert]; simp, hr1, ?_⟩
    intro q
    simp only
    rw [lookup_insert]
    obtain ⟨p, d⟩ := e
    rw [lookup_cons]
    by_cases hpq : p = q
    · simp [hpq]
    · simp [hpq]; exact hq1 q


theorem run_not_live (env : Env P S J) (t : Nat) (h : List (Op P S)) :
    ∀ σ : St P S J, t < σ.next → lookup σ.tasks t = none → lookup (runSt env σ h).tasks t = none := by
  induction h with
  | nil => intro σ _ h0; exact h0
  | cons op h ih =>
    intro σ h1 h0
    exact ih _ (Nat.lt_of_lt_of_le h1 (step_next_le env σ op)) (step_not_live env σ op t h1 h0)

/-! ### definitions used in the statements of Props/C19 -/

/-- the history that gives a fresh task (which gets id `n`) the files of `T`: initiate with the root's
    source, then supply every file -/
def freshHist (n : Nat) (T : Task P S) (rootSrc : S) : List (Op P S) :=
  .call (.initiate T.root rootSrc) :: supplyAll n T.files

/-- an emitter that panics on one particular root document (source 1), as the pinned printer did on
    `query Q { ...Missing }` -/
def trapEnv : Env Nat Nat Nat :=
  ⟨fun _ => .ok [], fun a _ => a, fun _ look => match look 0 with
    | some d => if d.src = 1 then .trap else .js 0
    | none => .js 0⟩


end Steps

end NitroVerif.Loader
