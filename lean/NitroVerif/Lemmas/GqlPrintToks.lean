import NitroVerif.Lemmas.ValueTokens
import NitroVerif.Spec.GqlDocTokens
/-!
C16, token level for TYPE-SYSTEM definitions: the significant tokens the printer model writes are the canonical token
stream of `Spec/GqlDocTokens.lean` — for every definition / extension except a union without members, for which the
code writes a dangling `=` (`unionOK`).
-/
namespace NitroVerif.C16
open NitroVerif.Gql NitroVerif.GqlPrint NitroVerif.GqlTokens

theorem toks_desc (d : Option String) : (printDesc d).flatMap lex = descToks d := by
  cases d <;> simp [printDesc, descToks, lex, nl]

theorem toks_dirsTight (ds : List Directive) : (printDirsTight ds).flatMap lex = dirsToks ds := by
  induction ds with
  | nil => simp [printDirsTight, dirsToks]
  | cons d ds ih => simp [printDirsTight, dirsToks, List.flatMap_append, toks_directive, ih]

theorem toks_inputValueDef (v : InputValueDef) : (printInputValueDef v).flatMap lex = inputValueDefToks v := by
  cases h : v.default <;>
    simp [printInputValueDef, inputValueDefToks, h, lex, sp, List.flatMap_append, toks_desc, toks_type, toks_value,
      toks_dirs]

theorem toks_argDefsSep (vs : List InputValueDef) :
    ∀ b, (printArgDefsSep vs b).flatMap lex = listToks inputValueDefToks vs := by
  induction vs with
  | nil => intro b; simp [printArgDefsSep, listToks]
  | cons v vs ih =>
    intro b
    cases b <;> simp [printArgDefsSep, listToks, lex, List.flatMap_append, toks_inputValueDef, ih]

theorem toks_argDefs (vs : List InputValueDef) : (printArgDefs vs).flatMap lex = argDefsToks vs := by
  cases vs with
  | nil => simp [printArgDefs, argDefsToks]
  | cons v vs => simp [printArgDefs, argDefsToks, lex, List.flatMap_append, toks_argDefsSep]

theorem toks_fieldDef (f : FieldDef) : (printFieldDef f).flatMap lex = fieldDefToks f := by
  simp [printFieldDef, fieldDefToks, lex, sp, List.flatMap_append, toks_desc, toks_argDefs, toks_type, toks_dirs]

theorem toks_enumValueDef (v : EnumValueDef) : (printEnumValueDef v).flatMap lex = enumValueDefToks v := by
  simp [printEnumValueDef, enumValueDefToks, lex, List.flatMap_append, toks_desc, toks_dirs]

theorem toks_fieldLinesTs (fs : List FieldDef) : (printFieldLinesTs fs).flatMap lex = listToks fieldDefToks fs := by
  induction fs with
  | nil => simp [printFieldLinesTs, listToks]
  | cons f fs ih => simp [printFieldLinesTs, listToks, lex, nl, List.flatMap_append, toks_fieldDef, ih]

theorem toks_enumValueLines (fs : List EnumValueDef) :
    (printEnumValueLines fs).flatMap lex = listToks enumValueDefToks fs := by
  induction fs with
  | nil => simp [printEnumValueLines, listToks]
  | cons f fs ih => simp [printEnumValueLines, listToks, lex, nl, List.flatMap_append, toks_enumValueDef, ih]

theorem toks_inputLines (fs : List InputValueDef) :
    (printInputLines fs).flatMap lex = listToks inputValueDefToks fs := by
  induction fs with
  | nil => simp [printInputLines, listToks]
  | cons f fs ih => simp [printInputLines, listToks, lex, nl, List.flatMap_append, toks_inputValueDef, ih]

/-- ` {\n … }` of the printer against `{ X+ }` of the grammar -/
theorem toks_braced {α : Type} (t : α → List LTok) (xs : List α) (body : List Tok)
    (h : body.flatMap lex = listToks t xs) : (braced body xs.isEmpty).flatMap lex = bracedToks t xs := by
  cases xs with
  | nil => simp [braced, bracedToks]
  | cons x xs => simp [braced, bracedToks, lex, sp, nl, List.flatMap_append, h]

theorem toks_sep (s : String) (l : List (Name × Pos)) :
    (l.flatMap fun x => [sp, Tok.p s, sp, Tok.name x.1]).flatMap lex = sepToks s l := by
  induction l with
  | nil => simp [sepToks]
  | cons x xs ih =>
    obtain ⟨n, p⟩ := x
    simp only [List.flatMap_cons, List.flatMap_append, ih]
    simp [sepToks, lex, sp]

theorem toks_implements (l : List (Name × Pos)) : (printImplements l).flatMap lex = implementsToks l := by
  cases l with
  | nil => simp [printImplements, implementsToks]
  | cons x xs =>
    have := toks_sep "&" (x :: xs)
    simp only [printImplements, implementsToks, List.flatMap_append, this]
    simp [lex, sp]

theorem toks_members (l : List (Name × Pos)) : (printMembers l).flatMap lex = sepToks "|" l :=
  toks_sep "|" l

theorem toks_locations (l : List Name) : (printLocations l).flatMap lex = locationsToks l := by
  induction l with
  | nil => simp [printLocations, locationsToks, sepToks]
  | cons x xs ih =>
    simp only [printLocations, locationsToks, List.flatMap_cons, List.flatMap_append, List.map_cons] at ih ⊢
    rw [ih]
    simp [sepToks, lex, sp]

theorem toks_roots (rs : List (OpKind × Name × Pos)) : (printRoots rs).flatMap lex = listToks rootToks rs := by
  induction rs with
  | nil => simp [printRoots, listToks]
  | cons r rs ih =>
    obtain ⟨k, n, p⟩ := r
    simp only [printRoots, List.flatMap_append, ih]
    simp [listToks, rootToks, lex, sp, nl]

/-- the code writes ` =` after the name and directives of EVERY union definition / extension — also when there is
    no member, where the grammar has no `=` (`union U` / `extend union U @d`) -/
def unionOK (t : TypeDef) : Bool := t.kind != .union || !t.members.isEmpty

theorem toks_typeBody (t : TypeDef) (ext : Bool) (h : unionOK t = true) :
    (printTypeBody t ext).flatMap lex = typeBodyToks t := by
  unfold printTypeBody typeBodyToks
  cases hk : t.kind
  · simp [lex, nl, List.flatMap_append, toks_dirs]
  · simp only [List.flatMap_append, toks_implements, toks_dirs, toks_braced fieldDefToks t.fields _ (toks_fieldLinesTs _)]
    simp [lex, nl]
  · simp only [List.flatMap_append, toks_implements, toks_dirs, toks_braced fieldDefToks t.fields _ (toks_fieldLinesTs _)]
    simp [lex, nl]
  · simp only [unionOK, hk] at h
    cases hm : t.members with
    | nil => rw [hm] at h; exact absurd h (by decide)
    | cons m ms =>
      simp only [List.flatMap_append, toks_dirs, toks_members]
      simp [membersToks, lex, sp, nl]
  · simp only [List.flatMap_append, toks_dirs, toks_braced enumValueDefToks t.values _ (toks_enumValueLines _)]
    simp [lex, nl]
  · simp only [List.flatMap_append, toks_dirs, toks_braced inputValueDefToks t.inputs _ (toks_inputLines _)]
    simp [lex, nl]

theorem kindKeyword_eq (k : TypeKind) : kindKeyword k = kindKw k := by cases k <;> rfl

theorem toks_typeDef (t : TypeDef) (h : unionOK t = true) : (printTypeDef t).flatMap lex = typeDefToks t := by
  simp [printTypeDef, typeDefToks, lex, sp, List.flatMap_append, toks_desc, toks_typeBody t false h, kindKeyword_eq]

theorem toks_typeExt (t : TypeDef) (h : unionOK t = true) : (printTypeExt t).flatMap lex = typeExtToks t := by
  simp [printTypeExt, typeExtToks, lex, sp, List.flatMap_append, toks_typeBody t true h, kindKeyword_eq]

theorem toks_schemaDef (s : SchemaDef) : (printSchemaDef s).flatMap lex = schemaDefToks s := by
  simp [printSchemaDef, schemaDefToks, lex, sp, nl, List.flatMap_append, toks_desc, toks_dirsTight, toks_roots]

theorem toks_schemaExt (s : SchemaDef) : (printSchemaExt s).flatMap lex = schemaExtToks s := by
  cases hr : s.roots with
  | nil => simp [printSchemaExt, schemaExtToks, bracedToks, hr, lex, sp, nl, List.flatMap_append, toks_dirsTight]
  | cons r rs =>
    have := toks_roots (r :: rs)
    simp [printSchemaExt, schemaExtToks, bracedToks, hr, lex, sp, nl, List.flatMap_append, toks_dirsTight, this]

theorem toks_directiveDef (d : DirectiveDef) : (printDirectiveDef d).flatMap lex = directiveDefToks d := by
  cases hr : d.repeatable <;>
    simp [printDirectiveDef, directiveDefToks, hr, lex, sp, nl, List.flatMap_append, toks_desc, toks_argDefs,
      toks_locations]

/-- the side condition of an item: its union (if it is one) has a member -/
def itemUnionOK : TsItem → Bool
  | .typeDef t => unionOK t
  | .typeExt t => unionOK t
  | _ => true

theorem toks_tsItem (i : TsItem) (h : itemUnionOK i = true) : (printTsItem i).flatMap lex = tsItemToks i := by
  cases i with
  | schemaDef s => exact toks_schemaDef s
  | typeDef t => exact toks_typeDef t h
  | directiveDef d => exact toks_directiveDef d
  | schemaExt s => exact toks_schemaExt s
  | typeExt t => exact toks_typeExt t h

theorem toks_tsDoc (d : TsDoc) (h : d.all itemUnionOK = true) : (printTsDoc d).flatMap lex = tsDocToks d := by
  induction d with
  | nil => simp [printTsDoc, tsDocToks, listToks]
  | cons i is ih =>
    simp only [List.all_cons, Bool.and_eq_true] at h
    simp only [printTsDoc, tsDocToks, listToks, List.flatMap_append, toks_tsItem i h.1]
    rw [ih h.2]; rfl

theorem toks_tsExtDoc (d : TsDoc) (h : d.all itemUnionOK = true) : (printTsExtDoc d).flatMap lex = tsDocToks d := by
  induction d with
  | nil => simp [printTsExtDoc, tsDocToks, listToks]
  | cons i is ih =>
    simp only [List.all_cons, Bool.and_eq_true] at h
    simp only [printTsExtDoc, tsDocToks, listToks, List.flatMap_append, toks_tsItem i h.1]
    rw [ih h.2]; simp [lex, nl, tsDocToks]

/-- an executable document without `#import` lines -/
def noImports (d : Doc) : Bool := d.all fun | .imp _ => false | _ => true

theorem toks_doc (d : Doc) (h : noImports d = true) : (printDoc d).flatMap lex = docToks d := by
  induction d with
  | nil => simp [printDoc, docToks, listToks]
  | cons i is ih =>
    simp only [noImports, List.all_cons, Bool.and_eq_true] at h
    have hi : (printExecDef i).flatMap lex = execDefToks i := by
      cases i with
      | op o => exact toks_operation o
      | frag f => exact toks_fragment f
      | imp i => simp at h
    simp only [printDoc, docToks, listToks, List.flatMap_append, hi]
    rw [ih (by simpa [noImports] using h.2)]; rfl

end NitroVerif.C16
