/-
C08 (stages after parsing), part: the type-system checker.

The only recursion of `check_type_system_document` that is not structural is the breadth-first search of
`check_directive_recursion` (a `loop { … }` in the Rust code); the model `recLoop` runs it with `|T| + 2` rounds of fuel
and a SILENT out-of-fuel branch (`[]`) — and, since fix 2e4a65e, the recursion of `directives_in_type` through nested input
objects inside it (model `ditWalk`, `|T| + 1` nesting levels of fuel, silent out-of-fuel branch; second part of this file).  Here: `recLoopX` = the same loop with an ARBITRARY out-of-fuel behaviour `Z`,
and the proof that for every document, every directive definition (canonical or not, in the document or not) and
every fuel `≥ |T| + 2` the out-of-fuel branch is never evaluated (`checkTs_fuel`).  The measure is C05's `unseen`
(directive names of the document not yet in `seen`): every round that continues puts the name of a definition held by
the checker's hash map into `seen`, whether or not it reports a diagnostic (C05 proved the decrease only for rounds
without diagnostics, which is what its exactness theorem needed).
-/
import NitroVerif.Lemmas.CheckTsRec
import NitroVerif.Lemmas.CheckTsWalk
namespace NitroVerif.Stages
open NitroVerif.Gql NitroVerif.CheckTs NitroVerif.ValidTs

/-- `recLoop` with an arbitrary behaviour in the out-of-fuel branch -/
def recLoopX (T : TsDoc) (start : Name) (Z : List Name → List DirectiveDef → List Err) :
    Nat → List Name → List DirectiveDef → List Err
  | 0, seen, cur => Z seen cur
  | fuel + 1, seen, cur =>
    let r := recRound T start seen cur
    if r.2.2.isEmpty then r.2.1 else r.2.1 ++ recLoopX T start Z fuel r.1 r.2.2

theorem recLoopX_succ (T : TsDoc) (start : Name) (Z : List Name → List DirectiveDef → List Err) (fuel : Nat)
    (seen : List Name) (cur : List DirectiveDef) :
    recLoopX T start Z (fuel + 1) seen cur =
      if (recRound T start seen cur).2.2.isEmpty then (recRound T start seen cur).2.1
      else (recRound T start seen cur).2.1 ++
        recLoopX T start Z fuel (recRound T start seen cur).1 (recRound T start seen cur).2.2 := rfl

theorem recLoop_eq_X (T : TsDoc) (start : Name) : ∀ (n : Nat) (seen : List Name) (cur : List DirectiveDef),
    recLoop T start n seen cur = recLoopX T start (fun _ _ => []) n seen cur
  | 0, _, _ => rfl
  | n + 1, seen, cur => by
    simp only [recLoop, recLoopX]
    split
    · rfl
    · rw [recLoop_eq_X T start n]

/-- one round, whether or not it reports: `seen` only grows, and every directive pushed to `next_directives` is a
    successor of an element of `cur` whose name was not seen before the round and is seen after it -/
theorem recRound_grow (T : TsDoc) (start : Name) : ∀ (cur : List DirectiveDef) (seen : List Name),
    (∀ n ∈ seen, n ∈ (recRound T start seen cur).1) ∧
    (∀ s ∈ (recRound T start seen cur).2.2, ∃ c ∈ cur, s ∈ dirSuccessors T c ∧ c.name ∉ seen ∧
      c.name ∈ (recRound T start seen cur).1) := by
  intro cur
  induction cur with
  | nil => intro seen; simp [recRound_nil]
  | cons c rest ih =>
    intro seen
    cases hs : seen.contains c.name with
    | true =>
      rw [recRound_seen T start seen c rest hs]
      obtain ⟨a, b⟩ := ih seen
      refine ⟨a, ?_⟩
      intro s hsm
      obtain ⟨x, hx, h1, h2, h3⟩ := b s hsm
      exact ⟨x, List.mem_cons_of_mem _ hx, h1, h2, h3⟩
    | false =>
      rw [recRound_new T start seen c rest hs]
      have hcs : c.name ∉ seen := contains_eq_false_iff.mp hs
      obtain ⟨a, b⟩ := ih (c.name :: seen)
      refine ⟨fun n hn => a n (List.mem_cons_of_mem _ hn), ?_⟩
      intro s hsm
      rcases List.mem_append.mp hsm with h | h
      · exact ⟨c, List.mem_cons_self, h, hcs, a _ List.mem_cons_self⟩
      · obtain ⟨x, hx, h1, h2, h3⟩ := b s h
        exact ⟨x, List.mem_cons_of_mem _ hx, h1, fun hin => h2 (List.mem_cons_of_mem _ hin), h3⟩

theorem filter_length_le_of {α : Type} (p q : α → Bool) : ∀ (l : List α), (∀ x, q x = true → p x = true) →
    (l.filter q).length ≤ (l.filter p).length := by
  intro l h
  induction l with
  | nil => simp
  | cons z r ih =>
    cases hq : q z with
    | true => simp [List.filter, hq, h z hq]; exact ih
    | false =>
      cases hp : p z with
      | true => simp only [List.filter, hq, hp, List.length_cons]; omega
      | false => simpa [List.filter, hq, hp] using ih

theorem unseen_mono {T : TsDoc} {seen seen' : List Name} (h : ∀ n ∈ seen, n ∈ seen') :
    unseen T seen' ≤ unseen T seen := by
  unfold unseen
  apply filter_length_le_of
  intro n hn
  simp only [Bool.not_eq_true'] at hn ⊢
  rw [contains_eq_false_iff] at hn ⊢
  exact fun hin => hn (h n hin)

/-- a round that continues makes the measure drop — also when it reports a diagnostic -/
theorem unseen_drops {T : TsDoc} {start : Name} {seen : List Name} {cur : List DirectiveDef}
    (hcan : ∀ c ∈ cur, Canonical T c) (hne : (recRound T start seen cur).2.2.isEmpty = false) :
    unseen T (recRound T start seen cur).1 < unseen T seen := by
  obtain ⟨a, b⟩ := recRound_grow T start cur seen
  have : ∃ s, s ∈ (recRound T start seen cur).2.2 := by
    cases hl : (recRound T start seen cur).2.2 with
    | nil => rw [hl] at hne; simp at hne
    | cons s _ => exact ⟨s, List.mem_cons_self⟩
  obtain ⟨s, hs⟩ := this
  obtain ⟨x, hx, _, hxs, hxr⟩ := b s hs
  unfold unseen
  apply filter_length_lt_of
  · intro n hn
    simp only [Bool.not_eq_true'] at hn ⊢
    rw [contains_eq_false_iff] at hn ⊢
    exact fun hin => hn (a n hin)
  · refine ⟨x.name, List.mem_map.mpr ⟨x, canonical_mem (hcan x hx), rfl⟩, ?_, ?_⟩
    · simp only [Bool.not_eq_true']; exact contains_eq_false_iff.mpr hxs
    · simp only [Bool.not_eq_false']; exact List.contains_iff_mem.mpr hxr

theorem next_canonical {T : TsDoc} {start : Name} {seen : List Name} {cur : List DirectiveDef} :
    ∀ s ∈ (recRound T start seen cur).2.2, Canonical T s := by
  intro s hs
  obtain ⟨x, _, hx, _⟩ := (recRound_grow T start cur seen).2 s hs
  exact canonical_of_succ hx

/-- with more fuel than unseen names, the result does not depend on the fuel nor on the out-of-fuel behaviour -/
theorem recLoopX_indep (T : TsDoc) (start : Name) (Z Z' : List Name → List DirectiveDef → List Err) :
    ∀ (n m : Nat) (seen : List Name) (cur : List DirectiveDef), (∀ c ∈ cur, Canonical T c) →
      unseen T seen < n → unseen T seen < m →
      recLoopX T start Z n seen cur = recLoopX T start Z' m seen cur := by
  intro n
  induction n with
  | zero => intro m seen cur _ h; omega
  | succ n ih =>
    intro m seen cur hcan hn hm
    cases m with
    | zero => omega
    | succ m =>
      rw [recLoopX_succ, recLoopX_succ]
      cases hne : (recRound T start seen cur).2.2.isEmpty with
      | true => simp
      | false =>
        simp only [Bool.false_eq_true, if_false]
        have hd := unseen_drops (start := start) hcan hne
        rw [ih m _ _ next_canonical (by omega) (by omega)]

/-- the search started by `check_directive_recursion` for ANY directive definition `d` (the first round holds `d`
    itself, which need not be the definition the hash map holds for its name) -/
theorem checkDirectiveRecursion_fuel (T : TsDoc) (d : DirectiveDef) (Z : List Name → List DirectiveDef → List Err)
    (n : Nat) (hn : T.length + 2 ≤ n) : recLoopX T d.name Z n [] [d] = checkDirectiveRecursion T d := by
  unfold checkDirectiveRecursion
  rw [recLoop_eq_X]
  obtain ⟨k, rfl⟩ : ∃ k, n = k + 1 := ⟨n - 1, by omega⟩
  rw [show T.length + 2 = (T.length + 1) + 1 from rfl, recLoopX_succ, recLoopX_succ]
  cases hne : (recRound T d.name [] [d]).2.2.isEmpty with
  | true => simp
  | false =>
    simp only [Bool.false_eq_true, if_false]
    have hle := unseen_le T (recRound T d.name [] [d]).1
    rw [recLoopX_indep T d.name Z (fun _ _ => []) k (T.length + 1) _ _ next_canonical (by omega) (by omega)]

/-! ### the walk through nested input objects (fix 2e4a65e) with a fuel parameter -/

/-- the behaviour of `directives_in_type` where the fuel of its model runs out -/
abbrev WalkZ := TypeDef → List Name → List Directive × List Name

/-- `dirSuccessors` with `m` levels of fuel for each walk of `directives_in_type` and the behaviour `ZT` when it runs out -/
def dirSuccessorsX (T : TsDoc) (m : Nat) (ZT : WalkZ) (d : DirectiveDef) : List DirectiveDef :=
  (d.args.flatMap fun a =>
      a.dirs ++ (match lastTypeDef? T a.ty.unwrapped with
                 | none => []
                 | some t => (ditWalkX T ZT m t []).1)).filterMap fun dir => lastDirectiveDef? T dir.name

def recRoundX (T : TsDoc) (m : Nat) (ZT : WalkZ) (start : Name) :
    List Name → List DirectiveDef → List Name × List Err × List DirectiveDef
  | seen, [] => (seen, [], [])
  | seen, d :: ds =>
    if seen.contains d.name then
      let r := recRoundX T m ZT start seen ds
      (r.1, (if d.name == start then [(ErrKind.RecursingDirective, d.pos)] else []) ++ r.2.1, r.2.2)
    else
      let r := recRoundX T m ZT start (d.name :: seen) ds
      (r.1, r.2.1, dirSuccessorsX T m ZT d ++ r.2.2)

/-- the search with BOTH fuels explicit: `n` rounds (out-of-fuel behaviour `Z`), `m` nesting levels per walk (`ZT`) -/
def recLoopXX (T : TsDoc) (start : Name) (Z : List Name → List DirectiveDef → List Err) (m : Nat) (ZT : WalkZ) :
    Nat → List Name → List DirectiveDef → List Err
  | 0, seen, cur => Z seen cur
  | fuel + 1, seen, cur =>
    let r := recRoundX T m ZT start seen cur
    if r.2.2.isEmpty then r.2.1 else r.2.1 ++ recLoopXX T start Z m ZT fuel r.1 r.2.2

/-- with `m ≥ |T| + 1` the walk never reaches its out-of-fuel branch: the successors are those of the model -/
theorem dirSuccessorsX_eq (T : TsDoc) (m : Nat) (ZT : WalkZ) (hm : T.length + 1 ≤ m) (d : DirectiveDef) :
    dirSuccessorsX T m ZT d = dirSuccessors T d := by
  unfold dirSuccessorsX dirSuccessors
  congr 2
  funext a
  cases hl : lastTypeDef? T a.ty.unwrapped with
  | none => rfl
  | some t => simp only [directivesInType_fuel T ZT m hm t (tcanonical_of_lookup hl)]

theorem recRoundX_eq (T : TsDoc) (m : Nat) (ZT : WalkZ) (hm : T.length + 1 ≤ m) (start : Name) :
    ∀ (cur : List DirectiveDef) (seen : List Name), recRoundX T m ZT start seen cur = recRound T start seen cur
  | [], _ => rfl
  | d :: ds, seen => by
    simp only [recRoundX, recRound, recRoundX_eq T m ZT hm start ds, dirSuccessorsX_eq T m ZT hm]

theorem recLoopXX_eq (T : TsDoc) (start : Name) (Z : List Name → List DirectiveDef → List Err) (m : Nat) (ZT : WalkZ)
    (hm : T.length + 1 ≤ m) : ∀ (n : Nat) (seen : List Name) (cur : List DirectiveDef),
    recLoopXX T start Z m ZT n seen cur = recLoopX T start Z n seen cur
  | 0, _, _ => rfl
  | n + 1, seen, cur => by
    simp only [recLoopXX, recLoopX, recRoundX_eq T m ZT hm, recLoopXX_eq T start Z m ZT hm n]

/-! ### the whole checker with fuel parameters -/

def checkDirectiveDefX (T : TsDoc) (S : Schema) (n : Nat) (Z : List Name → List DirectiveDef → List Err)
    (m : Nat) (ZT : WalkZ) (d : DirectiveDef) : List Err :=
  recLoopXX T d.name Z m ZT n [] [d] ++
  (if reserved d.name then [(ErrKind.UnscoUnsco, d.namePos)] else []) ++
  checkArgsDef S d.args

def checkItemX (T : TsDoc) (S : Schema) (n : Nat) (Z : List Name → List DirectiveDef → List Err)
    (m : Nat) (ZT : WalkZ) : TsItem → List Err
  | .schemaDef s => checkSchemaDef T S s
  | .typeDef t => checkTypeDef T S t
  | .directiveDef d => checkDirectiveDefX T S n Z m ZT d
  | .schemaExt _ => []
  | .typeExt _ => []

/-- `check_type_system_document` run with `n` rounds of fuel for each directive-recursion search and the behaviour `Z`
    when that fuel runs out, and `m` nesting levels of fuel for each walk of `directives_in_type` through nested input
    objects with the behaviour `ZT` when that runs out (`check_unique_names`, which comes first since fix 8cdbacf, is one
    bounded pass over the definitions with two vectors — `iter().find`, `push` — and has neither a panic site nor fuel) -/
def checkSchemaX (T : TsDoc) (n : Nat) (Z : List Name → List DirectiveDef → List Err) (m : Nat) (ZT : WalkZ) : List Err :=
  checkUniqueNames T ++ T.flatMap (checkItemX T ⟨T⟩ n Z m ZT)

theorem checkItemX_eq (T : TsDoc) (S : Schema) (n : Nat) (Z : List Name → List DirectiveDef → List Err)
    (m : Nat) (ZT : WalkZ) (hn : T.length + 2 ≤ n) (hm : T.length + 1 ≤ m) (it : TsItem) :
    checkItemX T S n Z m ZT it = checkItem T S it := by
  cases it with
  | directiveDef d =>
    simp only [checkItemX, checkItem, checkDirectiveDefX, checkDirectiveDef, recLoopXX_eq T d.name Z m ZT hm,
      checkDirectiveRecursion_fuel T d Z n hn]
  | _ => rfl

theorem checkSchemaX_eq (T : TsDoc) (n : Nat) (Z : List Name → List DirectiveDef → List Err) (m : Nat) (ZT : WalkZ)
    (hn : T.length + 2 ≤ n) (hm : T.length + 1 ≤ m) : checkSchemaX T n Z m ZT = checkSchema T := by
  unfold checkSchemaX checkSchema checkSchemaItems
  congr 2
  funext it
  exact checkItemX_eq T ⟨T⟩ n Z m ZT hn hm it

end NitroVerif.Stages
