/-
C18 composed (helper lemmas): `resolve_schema_extensions` invents no position — every position of the resolved document
is a position of the document it was given, and so are the positions of its error (`resolve_PQ`, `resolve_err_PQ`).
-/
import NitroVerif.Lemmas.CliComposedPosTs
import NitroVerif.Lemmas.ExtResolve
namespace NitroVerif.CliComposed.Ext
open NitroVerif NitroVerif.Gql NitroVerif.ExtResolve NitroVerif.ExtMerge NitroVerif.CliComposed

variable {Q : Pos → Prop}

theorem dirsPositions_append (a b : List Directive) : dirsPositions (a ++ b) = dirsPositions a ++ dirsPositions b := by
  simp [dirsPositions]

theorem pq_dirs_flatMap {α : Type} (es : List α) (f : α → List Directive) (h : ∀ e ∈ es, PQ Q (dirsPositions (f e))) :
    PQ Q (dirsPositions (es.flatMap f)) := by
  unfold dirsPositions
  rw [List.flatMap_assoc]
  exact pq_flatMap.mpr h

/-- the converse of `typeDef_parts` -/
theorem typeDef_PQ_of_parts {t : TypeDef} (h1 : Q t.namePos) (h2 : Q t.pos) (h3 : ∀ i ∈ t.implements, Q i.2)
    (h4 : PQ Q (dirsPositions t.dirs)) (h5 : ∀ f ∈ t.fields, PQ Q f.positions) (h6 : ∀ m ∈ t.members, Q m.2)
    (h7 : ∀ v ∈ t.values, PQ Q v.positions) (h8 : ∀ v ∈ t.inputs, PQ Q v.positions) : PQ Q t.positions := by
  unfold TypeDef.positions
  refine pq_cons.mpr ⟨h1, pq_cons.mpr ⟨h2, ?_⟩⟩
  refine pq_append.mpr ⟨pq_append.mpr ⟨pq_append.mpr ⟨pq_append.mpr ⟨pq_append.mpr ⟨?_, h4⟩, ?_⟩, ?_⟩, ?_⟩, ?_⟩
  · exact pq_map.mpr h3
  · exact pq_flatMap.mpr h5
  · exact pq_map.mpr h6
  · exact pq_flatMap.mpr h7
  · exact pq_flatMap.mpr h8

theorem mem_append_ite_flatMap {α β : Type} {a : List β} {c : Bool} {es : List α} {f : α → List β} {x : β}
    (h : x ∈ a ++ (if c then es.flatMap f else [])) : x ∈ a ∨ ∃ e ∈ es, x ∈ f e := by
  rcases List.mem_append.mp h with h | h
  · exact Or.inl h
  · cases c
    · simp at h
    · simp only [if_true] at h
      obtain ⟨e, he, hx⟩ := List.mem_flatMap.mp h
      exact Or.inr ⟨e, he, hx⟩

theorem refTypeWith_PQ (t : TypeDef) (es : List TypeDef) (ht : PQ Q t.positions) (hes : ∀ e ∈ es, PQ Q e.positions) :
    PQ Q (refTypeWith t es).positions := by
  obtain ⟨h1, h2, h3, h4, h5, h6, h7, h8⟩ := Ts.typeDef_parts ht
  apply typeDef_PQ_of_parts
  · exact h1
  · exact h2
  · intro i hi
    rcases mem_append_ite_flatMap hi with hi | ⟨e, he, hi⟩
    · exact h3 i hi
    · exact (Ts.typeDef_parts (hes e he)).2.2.1 i hi
  · simp only [refTypeWith]
    rw [dirsPositions_append]
    exact pq_append.mpr ⟨h4, pq_dirs_flatMap es _ fun e he => (Ts.typeDef_parts (hes e he)).2.2.2.1⟩
  · intro f hf
    rcases mem_append_ite_flatMap hf with hf | ⟨e, he, hf⟩
    · exact h5 f hf
    · exact (Ts.typeDef_parts (hes e he)).2.2.2.2.1 f hf
  · intro m hm
    rcases mem_append_ite_flatMap hm with hm | ⟨e, he, hm⟩
    · exact h6 m hm
    · exact (Ts.typeDef_parts (hes e he)).2.2.2.2.2.1 m hm
  · intro v hv
    rcases mem_append_ite_flatMap hv with hv | ⟨e, he, hv⟩
    · exact h7 v hv
    · exact (Ts.typeDef_parts (hes e he)).2.2.2.2.2.2.1 v hv
  · intro v hv
    rcases mem_append_ite_flatMap hv with hv | ⟨e, he, hv⟩
    · exact h8 v hv
    · exact (Ts.typeDef_parts (hes e he)).2.2.2.2.2.2.2 v hv

theorem schemaDef_parts {s : SchemaDef} (h : PQ Q s.positions) :
    Q s.pos ∧ PQ Q (dirsPositions s.dirs) ∧ ∀ r ∈ s.roots, Q r.2.2 := by
  unfold SchemaDef.positions at h
  have h1 := pq_cons.mp h
  exact ⟨h1.1, (pq_append.mp h1.2).1, pq_map.mp (pq_append.mp h1.2).2⟩

theorem refSchemaWith_PQ (s : SchemaDef) (es : List SchemaDef) (hs : PQ Q s.positions)
    (hes : ∀ e ∈ es, PQ Q e.positions) : PQ Q (refSchemaWith s es).positions := by
  obtain ⟨h1, h2, h3⟩ := schemaDef_parts hs
  unfold SchemaDef.positions
  refine pq_cons.mpr ⟨h1, pq_append.mpr ⟨?_, pq_map.mpr ?_⟩⟩
  · simp only [refSchemaWith]
    rw [dirsPositions_append]
    exact pq_append.mpr ⟨h2, pq_dirs_flatMap es _ fun e he => (schemaDef_parts (hes e he)).2.1⟩
  · intro r hr
    simp only [refSchemaWith] at hr
    rcases List.mem_append.mp hr with hr | hr
    · exact h3 r hr
    · obtain ⟨e, he, hr⟩ := List.mem_flatMap.mp hr
      exact (schemaDef_parts (hes e he)).2.2 r hr

section doc
variable {doc : TsDoc} (hD : PQ Q (TsDoc.positions doc))
include hD

theorem item_PQ {it : TsItem} (h : it ∈ doc) : PQ Q it.positions := (pq_flatMap.mp hD) it h

theorem typeExts_PQ (k : TypeKind) (n : Name) : ∀ e ∈ typeExts k n doc, PQ Q e.positions := by
  intro e he
  unfold typeExts at he
  obtain ⟨it, hit, h⟩ := List.mem_filterMap.mp he
  cases it with
  | typeExt t =>
    simp only at h
    split at h
    · cases h; exact item_PQ hD hit
    · cases h
  | _ => simp at h

theorem typeExtsOfKind_PQ (k : TypeKind) : ∀ e ∈ typeExtsOfKind k doc, PQ Q e.positions := by
  intro e he
  exact item_PQ hD ((mem_typeExtsOfKind.mp he).1)

theorem typeDefs_PQ (k : TypeKind) : ∀ t ∈ ExtMerge.typeDefs k doc, PQ Q t.positions := by
  intro t ht
  exact item_PQ hD ((mem_typeDefs.mp ht).1)

theorem schemaExts_PQ : ∀ e ∈ schemaExts doc, PQ Q e.positions := by
  intro e he
  unfold schemaExts at he
  obtain ⟨it, hit, h⟩ := List.mem_filterMap.mp he
  cases it <;> simp at h
  subst h
  exact item_PQ hD hit

theorem schemaDefs_PQ : ∀ s ∈ ExtMerge.schemaDefs doc, PQ Q s.positions := by
  intro s hs
  unfold ExtMerge.schemaDefs at hs
  obtain ⟨it, hit, h⟩ := List.mem_filterMap.mp hs
  cases it <;> simp at h
  subst h
  exact item_PQ hD hit

/-- **`resolve_schema_extensions` invents no position** -/
theorem resolve_PQ {out : TsDoc} (h : resolve doc = .ok out) : PQ Q (TsDoc.positions out) := by
  obtain ⟨_, _, ss, ts, rfl, hss, hts⟩ := resolve_ok doc out h
  unfold TsDoc.positions
  rw [pq_flatMap]
  intro it hit
  rcases List.mem_append.mp hit with hit | hit
  · rcases List.mem_append.mp hit with hit | hit
    · obtain ⟨d, hd, rfl⟩ := List.mem_map.mp hit
      unfold dirsOf at hd
      obtain ⟨it', hit', h'⟩ := List.mem_filterMap.mp hd
      cases it' <;> simp at h'
      subst h'
      exact item_PQ hD hit'
    · have := hss.mem_iff.mp hit
      unfold schemaRef at this
      obtain ⟨s, hs, rfl⟩ := List.mem_map.mp this
      exact refSchemaWith_PQ s _ (schemaDefs_PQ hD s hs) (schemaExts_PQ hD)
  · have := hts.mem_iff.mp hit
    obtain ⟨k, _, hk⟩ := List.mem_flatMap.mp this
    unfold kindRef at hk
    obtain ⟨t, ht, rfl⟩ := List.mem_map.mp hk
    exact refTypeWith_PQ t _ (typeDefs_PQ hD k t ht) (typeExts_PQ hD _ _)

/-- … and its error names positions of the document -/
theorem resolve_err_PQ {e : ExtError} (h : resolve doc = .error e) : Q e.position ∧ ∀ p ∈ e.additional, Q p := by
  have hpos : ∀ {t : TypeDef}, PQ Q t.positions → Q t.pos := fun ht => (Ts.typeDef_parts ht).2.1
  rcases resolve_err doc e h with ⟨pre, it, post, hdoc, _, hcase⟩ | ⟨_, hcase⟩
  · have hpre : PQ Q (TsDoc.positions pre) := by
      rw [hdoc] at hD
      unfold TsDoc.positions at hD ⊢
      rw [List.flatMap_append] at hD
      exact (pq_append.mp hD).1
    have hit : PQ Q it.positions := item_PQ hD (by rw [hdoc]; simp)
    rcases hcase with ⟨s, f, rfl, hf, rfl⟩ | ⟨t, f, rfl, hf, rfl⟩
    · have hfm : f ∈ ExtMerge.schemaDefs pre := by rw [hf]; simp
      have hfq := (schemaDef_parts (schemaDefs_PQ hpre f hfm)).1
      have hsq := (schemaDef_parts hit).1
      exact ⟨hfq, by intro p hp; simp [ExtError.additional] at hp; subst hp; exact hsq⟩
    · have hfm : f ∈ ExtMerge.typeDefs t.kind pre := List.mem_of_find?_eq_some hf
      have hfq := hpos (typeDefs_PQ hpre _ f hfm)
      have htq := hpos hit
      exact ⟨hfq, by intro p hp; simp [ExtError.additional] at hp; subst hp; exact htq⟩
  · rcases hcase with ⟨x, _, hx, rfl⟩ | ⟨_, a, k, b, x, _, _, hx, rfl⟩
    · have hxm : x ∈ schemaExts doc := List.mem_of_mem_head? hx
      exact ⟨(schemaDef_parts (schemaExts_PQ hD x hxm)).1, by intro p hp; simp [ExtError.additional] at hp⟩
    · have hxm : x ∈ typeExtsOfKind k doc := List.mem_of_find?_eq_some hx
      exact ⟨hpos (typeExtsOfKind_PQ hD k x hxm), by intro p hp; simp [ExtError.additional] at hp⟩

end doc

end NitroVerif.CliComposed.Ext
