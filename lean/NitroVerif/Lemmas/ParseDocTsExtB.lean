/-
Type extensions II (helper lemmas for Props/C07Doc): enum and input object type extensions (derived from the proofs for
the corresponding definitions: `extend` in place of the optional description).
-/
import NitroVerif.Lemmas.ParseDocTsExtA
namespace NitroVerif.DocParse
open NitroVerif.Peg NitroVerif.Gen NitroVerif.Gen.Parts NitroVerif.Build NitroVerif.TypeParse NitroVerif.StringParse
open NitroVerif.Gql NitroVerif.ValueParse NitroVerif.Spec.Lex NitroVerif.ParseText

set_option linter.unusedSimpArgs false

variable {inp : List Char}

/-! ### enum -/

def rEnumExt (τ : Trivia) (sep : Bool) (p : Nat) (t : TypeDef) : List Char :=
  let tH := rExtHead τ (sep && t.values.isEmpty && t.dirs.isEmpty) p (kindKw .enum) t.name
  let tD := rDirs τ (sep && t.values.isEmpty) (p + tH.length) t.dirs
  tH ++ (tD ++ rOptEnumVals τ sep (p + tH.length + tD.length) t.values)

def wpEnumExt (τ : Trivia) (inp : List Char) (sep : Bool) (p : Nat) (t : TypeDef) : TypeDef :=
  let tH := rExtHead τ (sep && t.values.isEmpty && t.dirs.isEmpty) p (kindKw .enum) t.name
  let tD := rDirs τ (sep && t.values.isEmpty) (p + tH.length) t.dirs
  { kind := .enum, name := t.name, namePos := posAt inp (ehOffN τ p (kindKw .enum)),
    dirs := wpDirs τ inp (sep && t.values.isEmpty) (p + tH.length) t.dirs,
    values := wpEnumVals τ inp (p + tH.length + tD.length + (tk τ false (p + tH.length + tD.length) ['{']).length) t.values,
    pos := posAt inp p }

theorem p_enumExt_nodup : (P_EnumTypeExtension.map itemRule).Nodup := by decide

theorem enumExtT (τ : Trivia) (hτ : ∀ q, Ws (τ q)) (t : TypeDef) (hname : validName t.name.toList)
    (hdirs : WFDirs t.dirs) (hvals : ∀ v ∈ t.values, WFEnumVal v) {sep : Bool} {p : Nat}
    (h : HasAt inp p (rEnumExt τ sep p t)) (hn : Nxt inp tdBad sep (p + (rEnumExt τ sep p t).length)) :
    KindExtOk inp R.EnumTypeExtension p (rEnumExt τ sep p t) (wpEnumExt τ inp sep p t) := by
  unfold KindExtOk
  simp only [rEnumExt, wpEnumExt] at h hn ⊢
  generalize hsN : (sep && t.values.isEmpty && t.dirs.isEmpty) = sN at *
  generalize hsD : (sep && t.values.isEmpty) = sD at *
  generalize hH : rExtHead τ sN p (kindKw .enum) t.name = tH at *
  generalize hD : rDirs τ sD (p + tH.length) t.dirs = tD at *
  generalize hV : rOptEnumVals τ sep (p + tH.length + tD.length) t.values = tV at *
  have hlen : p + (tH ++ (tD ++ tV)).length = p + tH.length + tD.length + tV.length := by
    simp only [List.length_append]; omega
  rw [hlen] at hn ⊢
  have g0 : HasAt inp p tH := h.left
  have g1 : HasAt inp (p + tH.length) tD := h.right.left
  have g2 : HasAt inp (p + tH.length + tD.length) tV := h.right.right
  have n2 : Nxt inp (fun c => c = '@' ∨ c = '(') sD (p + tH.length + tD.length) := by
    refine Nxt.rest g2 hn (hV ▸ hd_rOptEnumVals τ sep _ t.values) (P := (· = '{')) (by rintro c rfl; decide)
      (fun c hc => hc.elim Or.inl (fun h => Or.inr (Or.inl h))) ?_
    intro ht hs
    have : t.values = [] := rOptEnumVals_eq_nil (hV.trans ht)
    rw [← hsD, this] at hs
    simpa using hs
  have n1 : Nxt inp (fun _ => False) sN (p + tH.length) := by
    refine Nxt.rest g1 n2 (hD ▸ hd_rDirs τ sD _ t.dirs) (P := (· = '@')) (by rintro c rfl; decide) (fun c hc => hc.elim) ?_
    intro ht hs
    have : t.dirs = [] := rDirs_eq_nil (hD.trans ht)
    rw [← hsN, this] at hs
    simpa using hs
  obtain ⟨hrun, hfail, hnm⟩ := extHeadK hτ (look_kindKw .enum) (kindKw_valid .enum) t.name hname
    (hH ▸ g0) (by rw [hH]; exact n1)
  rw [hH] at hrun hfail
  obtain ⟨oD, rD, hokD, _, hbD⟩ := optDirsT τ hτ t.dirs hdirs (bad := fun c => c = '@' ∨ c = '(') (Or.inr rfl)
    (Or.inl rfl) (hD ▸ g1) (by rw [hD]; exact n2)
  rw [hD] at rD hbD
  have hlH : 1 ≤ tH.length := hH ▸ (hd_rExtHead τ sN p _ t.name).length_pos
  have hname' := hnm.slice
  cases hvs : t.values with
  | nil =>
    have htV : tV = [] := by rw [← hV, hvs]; rfl
    subst htV
    simp only [List.length_nil, Nat.add_zero] at hn ⊢
    -- first alternative fails at the missing `{`, second succeeds
    have hbr : HeadNot (· = '{') (inp.drop (p + tH.length + tD.length)) :=
      headNot_mono (fun c (hc : c = '{') => Or.inr (Or.inr (Or.inl hc))) hn.ok
    have f1 := hfail _ _ (fails_seq_K rD (enumValsDef_fails hbr))
    have r2 := hrun _ _ _ _ (runsK_seq rD (notBraceK hn.tok hbr))
    obtain ⟨e, rR⟩ := runsK_rule look_EnumTypeExtension' (by decide) (by decide) (runsK_choice_r f1 r2)
    refine ⟨_, rR.mono (by barith), ?_, ?_⟩
    · refine pairOk_mk (by decide) (by decide) ?_
      simp only [cleanL_append, cleanL_cons, cleanL_nil, and_true]
      exact ⟨cleanP_of (by decide) (by decide) trivial, cleanP_of (by decide) (by decide) trivial,
        cleanP_of (by decide) (by decide) trivial, clean_opt (fun x hx => (hokD x hx).clean)⟩
    · intro fuel hf e'
      have hf' : tH.length + tD.length ≤ fuel := by simpa using hf
      have hch : [Pair.mk R.KEYWORD_extend p (p + kwExtend.length) []] ++ ([Pair.mk (kindKwRule .enum) (ehOffK τ p) (ehOffK τ p + (kindKw .enum).length) []] ++
            ([Pair.mk R.Name (ehOffN τ p (kindKw .enum)) (ehOffN τ p (kindKw .enum) + t.name.toList.length) []] ++
              (oD.toList ++ []))) =
          slotPairs [some (Pair.mk R.KEYWORD_extend p (p + kwExtend.length) []), some (Pair.mk R.KEYWORD_enum (ehOffK τ p) (ehOffK τ p + (kindKw .enum).length) []),
            some (Pair.mk R.Name (ehOffN τ p (kindKw .enum))
              (ehOffN τ p (kindKw .enum) + t.name.toList.length) []), oD, none] := by simp [slotPairs, kindKwRule]
      rw [hch]
      have hm := matchParts_slots P_EnumTypeExtension _ p_enumExt_nodup
        (show slotsOk P_EnumTypeExtension [some (Pair.mk R.KEYWORD_extend p (p + kwExtend.length) []), some (Pair.mk R.KEYWORD_enum (ehOffK τ p)
            (ehOffK τ p + (kindKw .enum).length) []), some (Pair.mk R.Name (ehOffN τ p (kindKw .enum))
              (ehOffN τ p (kindKw .enum) + t.name.toList.length) []), oD, none] from
          ⟨⟨_, rfl, rfl⟩, ⟨_, rfl, rfl⟩, ⟨_, rfl, rfl⟩, fun x hx => (hokD x hx).rule,
            (fun x hx => by cases hx), trivial⟩)
      simp only [show kwExtend.length = 6 from rfl] at hm
      simp [buildTypeExtension, onlyChildOf, onlyChild, Pair.children, OC_TypeExtension, Pair.rule, hm,
        hbD fuel (by omega), optEnumValues, wpEnumVals, mapItems, asString_spec', toPos_spec', Pair.start, Pair.stop,
        hname', At, bind, Except.bind, R.ScalarTypeExtension, R.ObjectTypeExtension, R.InterfaceTypeExtension,
        R.UnionTypeExtension, R.EnumTypeExtension]
  | cons a r =>
    rw [hvs] at hV hvals
    obtain ⟨prV, rV, hokV, hbV⟩ := enumValsT τ hτ a r hvals (hV ▸ g2) (by rw [hV]; exact hn.tok)
    rw [hV] at rV hbV
    have r1 := hrun _ _ _ _ (runsK_seq rD rV)
    obtain ⟨e, rR⟩ := runsK_rule look_EnumTypeExtension' (by decide) (by decide) (runsK_choice_l r1)
    refine ⟨_, rR.mono (by barith), ?_, ?_⟩
    · refine pairOk_mk (by decide) (by decide) ?_
      simp only [cleanL_append, cleanL_cons, cleanL_nil, and_true]
      exact ⟨cleanP_of (by decide) (by decide) trivial, cleanP_of (by decide) (by decide) trivial,
        cleanP_of (by decide) (by decide) trivial, clean_opt (fun x hx => (hokD x hx).clean), hokV.clean⟩
    · intro fuel hf e'
      have hf' : tH.length + (tD.length + tV.length) ≤ fuel := by simpa using hf
      have hch : [Pair.mk R.KEYWORD_extend p (p + kwExtend.length) []] ++ ([Pair.mk (kindKwRule .enum) (ehOffK τ p) (ehOffK τ p + (kindKw .enum).length) []] ++
            ([Pair.mk R.Name (ehOffN τ p (kindKw .enum)) (ehOffN τ p (kindKw .enum) + t.name.toList.length) []] ++
              (oD.toList ++ [prV]))) =
          slotPairs [some (Pair.mk R.KEYWORD_extend p (p + kwExtend.length) []), some (Pair.mk R.KEYWORD_enum (ehOffK τ p) (ehOffK τ p + (kindKw .enum).length) []),
            some (Pair.mk R.Name (ehOffN τ p (kindKw .enum))
              (ehOffN τ p (kindKw .enum) + t.name.toList.length) []), oD, some prV] := by
        simp [slotPairs, kindKwRule]
      rw [hch]
      have hm := matchParts_slots P_EnumTypeExtension _ p_enumExt_nodup
        (show slotsOk P_EnumTypeExtension [some (Pair.mk R.KEYWORD_extend p (p + kwExtend.length) []), some (Pair.mk R.KEYWORD_enum (ehOffK τ p)
            (ehOffK τ p + (kindKw .enum).length) []), some (Pair.mk R.Name (ehOffN τ p (kindKw .enum))
              (ehOffN τ p (kindKw .enum) + t.name.toList.length) []), oD, some prV] from
          ⟨⟨_, rfl, rfl⟩, ⟨_, rfl, rfl⟩, ⟨_, rfl, rfl⟩, fun x hx => (hokD x hx).rule,
            (fun x hx => by cases hx; exact hokV.rule), trivial⟩)
      simp only [show kwExtend.length = 6 from rfl] at hm
      simp [buildTypeExtension, onlyChildOf, onlyChild, Pair.children, OC_TypeExtension, Pair.rule, hm,
        hbD fuel (by omega), hbV fuel (by omega), asString_spec', toPos_spec', Pair.start, Pair.stop,
        hname', At, bind, Except.bind, R.ScalarTypeExtension, R.ObjectTypeExtension, R.InterfaceTypeExtension,
        R.UnionTypeExtension, R.EnumTypeExtension]

/-! ### input object -/

def rInputExt (τ : Trivia) (sep : Bool) (p : Nat) (t : TypeDef) : List Char :=
  let tH := rExtHead τ (sep && t.inputs.isEmpty && t.dirs.isEmpty) p (kindKw .input) t.name
  let tD := rDirs τ (sep && t.inputs.isEmpty) (p + tH.length) t.dirs
  tH ++ (tD ++ rOptInputs τ sep (p + tH.length + tD.length) t.inputs)

def wpInputExt (τ : Trivia) (inp : List Char) (sep : Bool) (p : Nat) (t : TypeDef) : TypeDef :=
  let tH := rExtHead τ (sep && t.inputs.isEmpty && t.dirs.isEmpty) p (kindKw .input) t.name
  let tD := rDirs τ (sep && t.inputs.isEmpty) (p + tH.length) t.dirs
  { kind := .input, name := t.name, namePos := posAt inp (ehOffN τ p (kindKw .input)),
    dirs := wpDirs τ inp (sep && t.inputs.isEmpty) (p + tH.length) t.dirs,
    inputs := wpIVDs τ inp (p + tH.length + tD.length + (tk τ false (p + tH.length + tD.length) ['{']).length) t.inputs,
    pos := posAt inp p }

theorem p_inputExt_nodup : (P_InputObjectTypeExtension.map itemRule).Nodup := by decide
theorem inputExtT (τ : Trivia) (hτ : ∀ q, Ws (τ q)) (t : TypeDef) (hname : validName t.name.toList)
    (hdirs : WFDirs t.dirs) (hvals : ∀ v ∈ t.inputs, WFIVD v) {sep : Bool} {p : Nat}
    (h : HasAt inp p (rInputExt τ sep p t)) (hn : Nxt inp tdBad sep (p + (rInputExt τ sep p t).length)) :
    KindExtOk inp R.InputObjectTypeExtension p (rInputExt τ sep p t) (wpInputExt τ inp sep p t) := by
  unfold KindExtOk
  simp only [rInputExt, wpInputExt] at h hn ⊢
  generalize hsN : (sep && t.inputs.isEmpty && t.dirs.isEmpty) = sN at *
  generalize hsD : (sep && t.inputs.isEmpty) = sD at *
  generalize hH : rExtHead τ sN p (kindKw .input) t.name = tH at *
  generalize hD : rDirs τ sD (p + tH.length) t.dirs = tD at *
  generalize hV : rOptInputs τ sep (p + tH.length + tD.length) t.inputs = tV at *
  have hlen : p + (tH ++ (tD ++ tV)).length = p + tH.length + tD.length + tV.length := by
    simp only [List.length_append]; omega
  rw [hlen] at hn ⊢
  have g0 : HasAt inp p tH := h.left
  have g1 : HasAt inp (p + tH.length) tD := h.right.left
  have g2 : HasAt inp (p + tH.length + tD.length) tV := h.right.right
  have n2 : Nxt inp (fun c => c = '@' ∨ c = '(') sD (p + tH.length + tD.length) := by
    refine Nxt.rest g2 hn (hV ▸ hd_rOptInputs τ sep _ t.inputs) (P := (· = '{')) (by rintro c rfl; decide)
      (fun c hc => hc.elim Or.inl (fun h => Or.inr (Or.inl h))) ?_
    intro ht hs
    have : t.inputs = [] := rOptInputs_eq_nil (hV.trans ht)
    rw [← hsD, this] at hs
    simpa using hs
  have n1 : Nxt inp (fun _ => False) sN (p + tH.length) := by
    refine Nxt.rest g1 n2 (hD ▸ hd_rDirs τ sD _ t.dirs) (P := (· = '@')) (by rintro c rfl; decide) (fun c hc => hc.elim) ?_
    intro ht hs
    have : t.dirs = [] := rDirs_eq_nil (hD.trans ht)
    rw [← hsN, this] at hs
    simpa using hs
  obtain ⟨hrun, hfail, hnm⟩ := extHeadK hτ (look_kindKw .input) (kindKw_valid .input) t.name hname
    (hH ▸ g0) (by rw [hH]; exact n1)
  rw [hH] at hrun hfail
  obtain ⟨oD, rD, hokD, _, hbD⟩ := optDirsT τ hτ t.dirs hdirs (bad := fun c => c = '@' ∨ c = '(') (Or.inr rfl)
    (Or.inl rfl) (hD ▸ g1) (by rw [hD]; exact n2)
  rw [hD] at rD hbD
  have hlH : 1 ≤ tH.length := hH ▸ (hd_rExtHead τ sN p _ t.name).length_pos
  have hname' := hnm.slice
  cases hvs : t.inputs with
  | nil =>
    have htV : tV = [] := by rw [← hV, hvs]; rfl
    subst htV
    simp only [List.length_nil, Nat.add_zero] at hn ⊢
    have hbr : HeadNot (· = '{') (inp.drop (p + tH.length + tD.length)) :=
      headNot_mono (fun c (hc : c = '{') => Or.inr (Or.inr (Or.inl hc))) hn.ok
    have f1 := hfail _ _ (fails_seq_K rD (inputFields_fails hbr))
    have r2 := hrun _ _ _ _ (runsK_seq rD (notBraceK hn.tok hbr))
    obtain ⟨e, rR⟩ := runsK_rule look_InputObjectTypeExtension' (by decide) (by decide) (runsK_choice_r f1 r2)
    refine ⟨_, rR.mono (by barith), ?_, ?_⟩
    · refine pairOk_mk (by decide) (by decide) ?_
      simp only [cleanL_append, cleanL_cons, cleanL_nil, and_true]
      exact ⟨cleanP_of (by decide) (by decide) trivial, cleanP_of (by decide) (by decide) trivial,
        cleanP_of (by decide) (by decide) trivial, clean_opt (fun x hx => (hokD x hx).clean)⟩
    · intro fuel hf e'
      have hf' : tH.length + tD.length ≤ fuel := by simpa using hf
      have hch : [Pair.mk R.KEYWORD_extend p (p + kwExtend.length) []] ++ ([Pair.mk (kindKwRule .input) (ehOffK τ p) (ehOffK τ p + (kindKw .input).length) []] ++
            ([Pair.mk R.Name (ehOffN τ p (kindKw .input)) (ehOffN τ p (kindKw .input) + t.name.toList.length) []] ++
              (oD.toList ++ []))) =
          slotPairs [some (Pair.mk R.KEYWORD_extend p (p + kwExtend.length) []), some (Pair.mk R.KEYWORD_input (ehOffK τ p) (ehOffK τ p + (kindKw .input).length) []),
            some (Pair.mk R.Name (ehOffN τ p (kindKw .input))
              (ehOffN τ p (kindKw .input) + t.name.toList.length) []), oD, none] := by simp [slotPairs, kindKwRule]
      rw [hch]
      have hm := matchParts_slots P_InputObjectTypeExtension _ p_inputExt_nodup
        (show slotsOk P_InputObjectTypeExtension [some (Pair.mk R.KEYWORD_extend p (p + kwExtend.length) []), some (Pair.mk R.KEYWORD_input (ehOffK τ p)
            (ehOffK τ p + (kindKw .input).length) []), some (Pair.mk R.Name (ehOffN τ p (kindKw .input))
              (ehOffN τ p (kindKw .input) + t.name.toList.length) []), oD, none] from
          ⟨⟨_, rfl, rfl⟩, ⟨_, rfl, rfl⟩, ⟨_, rfl, rfl⟩, fun x hx => (hokD x hx).rule,
            (fun x hx => by cases hx), trivial⟩)
      simp only [show kwExtend.length = 6 from rfl] at hm
      simp [buildTypeExtension, onlyChildOf, onlyChild, Pair.children, OC_TypeExtension, Pair.rule, hm,
        hbD fuel (by omega), optInputFields, wpIVDs, mapItems, asString_spec', toPos_spec', Pair.start, Pair.stop,
        hname', At, bind, Except.bind, R.ScalarTypeExtension, R.ObjectTypeExtension, R.InterfaceTypeExtension,
        R.UnionTypeExtension, R.EnumTypeExtension, R.InputObjectTypeExtension]
  | cons a r =>
    rw [hvs] at hV hvals
    obtain ⟨prV, rV, hokV, hbV⟩ := inputFieldsT τ hτ a r hvals (hV ▸ g2) (by rw [hV]; exact hn.tok)
    rw [hV] at rV hbV
    have r1 := hrun _ _ _ _ (runsK_seq rD rV)
    obtain ⟨e, rR⟩ := runsK_rule look_InputObjectTypeExtension' (by decide) (by decide) (runsK_choice_l r1)
    refine ⟨_, rR.mono (by barith), ?_, ?_⟩
    · refine pairOk_mk (by decide) (by decide) ?_
      simp only [cleanL_append, cleanL_cons, cleanL_nil, and_true]
      exact ⟨cleanP_of (by decide) (by decide) trivial, cleanP_of (by decide) (by decide) trivial,
        cleanP_of (by decide) (by decide) trivial, clean_opt (fun x hx => (hokD x hx).clean), hokV.clean⟩
    · intro fuel hf e'
      have hf' : tH.length + (tD.length + tV.length) ≤ fuel := by simpa using hf
      have hch : [Pair.mk R.KEYWORD_extend p (p + kwExtend.length) []] ++ ([Pair.mk (kindKwRule .input) (ehOffK τ p) (ehOffK τ p + (kindKw .input).length) []] ++
            ([Pair.mk R.Name (ehOffN τ p (kindKw .input)) (ehOffN τ p (kindKw .input) + t.name.toList.length) []] ++
              (oD.toList ++ [prV]))) =
          slotPairs [some (Pair.mk R.KEYWORD_extend p (p + kwExtend.length) []), some (Pair.mk R.KEYWORD_input (ehOffK τ p) (ehOffK τ p + (kindKw .input).length) []),
            some (Pair.mk R.Name (ehOffN τ p (kindKw .input))
              (ehOffN τ p (kindKw .input) + t.name.toList.length) []), oD, some prV] := by
        simp [slotPairs, kindKwRule]
      rw [hch]
      have hm := matchParts_slots P_InputObjectTypeExtension _ p_inputExt_nodup
        (show slotsOk P_InputObjectTypeExtension [some (Pair.mk R.KEYWORD_extend p (p + kwExtend.length) []), some (Pair.mk R.KEYWORD_input (ehOffK τ p)
            (ehOffK τ p + (kindKw .input).length) []), some (Pair.mk R.Name (ehOffN τ p (kindKw .input))
              (ehOffN τ p (kindKw .input) + t.name.toList.length) []), oD, some prV] from
          ⟨⟨_, rfl, rfl⟩, ⟨_, rfl, rfl⟩, ⟨_, rfl, rfl⟩, fun x hx => (hokD x hx).rule,
            (fun x hx => by cases hx; exact hokV.rule), trivial⟩)
      simp only [show kwExtend.length = 6 from rfl] at hm
      simp [buildTypeExtension, onlyChildOf, onlyChild, Pair.children, OC_TypeExtension, Pair.rule, hm,
        hbD fuel (by omega), hbV fuel (by omega), asString_spec', toPos_spec', Pair.start, Pair.stop,
        hname', At, bind, Except.bind, R.ScalarTypeExtension, R.ObjectTypeExtension, R.InterfaceTypeExtension,
        R.UnionTypeExtension, R.EnumTypeExtension, R.InputObjectTypeExtension]


end NitroVerif.DocParse
