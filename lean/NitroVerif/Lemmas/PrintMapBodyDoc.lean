import NitroVerif.Lemmas.PrintMapBodyTy
import NitroVerif.Lemmas.PrintMapOps
/-!
# C06 — the WHOLE call sequence of the operation printers: its projection and its members

* `opTypeOps_mapped` / `opJsOps_mapped`: the projection of the full sequences (`opTypeOps`, `opJsOps`) onto the mapped calls is
  the projection of the wave-3 lists (`opTypeSites`, `opJsSites`) — the two stages of the model agree, and nothing inside a
  selection-set type, a Variables type or a runtime document is mapped;
* `opTypeOps_operation` / `opTypeOps_fragment` (and the `opJs` versions): the calls an operation / a fragment of the document
  contributes are members of the full sequence.
-/
namespace NitroVerif.PrintMap
open NitroVerif.Gql NitroVerif.DeclCfg

@[simp] theorem mappedOps_exportKw (b : Bool) : mappedOps (exportKw b) = [] := by cases b <;> rfl

@[simp] theorem mappedOps_constPrefix (e pv : Bool) : mappedOps (constPrefixOps e pv) = [] := by
  cases e <;> cases pv <;> rfl

theorem mappedOps_simple (t : TSTy) (h : t.simple = true) : mappedOps (printTy t) = [] := by
  rw [mapped_printTy, simple_sites t h]

theorem resultTy_simple {ns : String} {S : Schema} {D : Doc} {x : ExecDef} {rt : TSTy} (h : resultTy ns S D x = .ok rt) :
    rt.simple = true := by
  unfold resultTy at h
  split at h
  · cases h; exact simple_treeTy ns _ false
  · cases h
  · cases h; rfl

/-- the mapped calls of one operation's statements are the five calls of the wave-3 model -/
theorem opTypeOperationOps_mapped {fo : FullOpts} {S : Schema} {D : Doc} {count : Nat} {op : OperationDef} {sp : Pos}
    {a : List POp} (h : opTypeOperationOps fo S D count op sp = .ok a) :
    mappedOps a = mappedOps (opTypeOperationSites fo.names op sp) := by
  unfold opTypeOperationOps at h
  split at h
  · cases h
  · rename_i rt hrt
    split at h
    · cases h
    · rename_i js _
      cases h
      have h1 := mappedOps_simple rt (resultTy_simple hrt)
      have h2 := mappedOps_simple _ (simple_varsTy fo.ns fo.optionalInput op.vars)
      have hd : mappedOps (if (fo.defaultExport && count == 1) = true then defaultExportOps fo op else []) = [] := by
        split <;> simp [defaultExportOps]
      simp only [resultDeclOps, varsDeclOps, opConstOps, opTypeOperationSites, mappedOps_append, mappedOps_exportKw,
        mappedOps_constPrefix, h1, h2, hd, List.nil_append, List.append_nil]
      cases js <;> cases (namePosOf op).2 <;>
        simp [mappedOps_writeFor_none, mappedOps_write, mappedOps_writeFor]

theorem opTypeFragmentOps_mapped {fo : FullOpts} {S : Schema} {D : Doc} {docFile : Nat} {f : FragmentDef}
    {a : List POp} (h : opTypeFragmentOps fo S D docFile f = .ok a) :
    mappedOps a = mappedOps (opTypeFragmentSites fo.names f) := by
  unfold opTypeFragmentOps at h
  split at h
  · cases h
  · rename_i rt hrt
    split at h
    · cases h
    · rename_i js hjs
      cases h
      have h1 := mappedOps_simple rt (resultTy_simple hrt)
      have hpv : js.isSome = fo.names.printValues := by
        unfold optRuntime at hjs
        split at hjs
        · rename_i hp
          cases hr : runtimeText D (.frag f) <;> simp [hr, Except.map] at hjs
          subst hjs; simp [hp]
        · rename_i hp
          cases hjs; simp at hp; simp [hp]
      simp only [fragDeclOps, fragConstOps, opTypeFragmentSites, mappedOps_append, mappedOps_exportKw,
        mappedOps_constPrefix, h1, List.nil_append, List.append_nil]
      cases js
      · have : fo.names.printValues = false := by simpa using hpv.symm
        simp [this]
      · have : fo.names.printValues = true := by simpa using hpv.symm
        simp [this]

theorem opTypeDefsOps_mapped (fo : FullOpts) (S : Schema) (D : Doc) (docFile count : Nat) :
    ∀ (L : Doc) (sps : List Pos) (r : List POp), opTypeDefsOps fo S D docFile count L sps = .ok r →
      mappedOps r = mappedOps (opTypeSites fo.names L sps)
  | [], _, r, h => by cases h; simp [opTypeSites]
  | .op op :: rest, sps, r, h => by
    simp only [opTypeDefsOps] at h
    split at h
    · cases h
    · rename_i a ha
      split at h
      · cases h
      · rename_i r' hr'
        cases h
        have ih := opTypeDefsOps_mapped fo S D docFile count rest sps.tail r' hr'
        cases sps with
        | nil => simpa [opTypeSites, opTypeOperationOps_mapped ha] using ih
        | cons sp sps => simpa [opTypeSites, opTypeOperationOps_mapped ha] using ih
  | .frag f :: rest, sps, r, h => by
    simp only [opTypeDefsOps] at h
    split at h
    · cases h
    · rename_i a ha
      split at h
      · cases h
      · rename_i r' hr'
        cases h
        have ih := opTypeDefsOps_mapped fo S D docFile count rest sps r' hr'
        simp [opTypeSites, opTypeFragmentOps_mapped ha, ih]
  | .imp _ :: rest, sps, r, h => by
    simp only [opTypeDefsOps] at h
    simpa [opTypeSites] using opTypeDefsOps_mapped fo S D docFile count rest sps r h

/-- the projection of the FULL sequence of the operation type printer is the projection of the wave-3 list -/
theorem opTypeOps_mapped {fo : FullOpts} {S : Schema} {D : Doc} {docFile : Nat} {sps : List Pos} {ops : List POp}
    (h : opTypeOps fo S D docFile sps = .ok ops) : mappedOps ops = mappedOps (opTypeSites fo.names D sps) := by
  unfold opTypeOps at h
  split at h
  · cases h
  · rename_i r hr
    cases h
    simp [opTypeHeaderOps, opTypeDefsOps_mapped fo S D docFile _ D sps r hr]

theorem opJsDefsOps_mapped (fo : FullOpts) (D : Doc) (docFile count : Nat) :
    ∀ (L : Doc) (r : List POp), opJsDefsOps fo D docFile count L = .ok r → mappedOps r = mappedOps (opJsSites fo.names L)
  | [], r, h => by cases h; simp [opJsSites]
  | .op op :: rest, r, h => by
    simp only [opJsDefsOps] at h
    split at h
    · cases h
    · split at h
      · cases h
      · rename_i r' hr'
        cases h
        have ih := opJsDefsOps_mapped fo D docFile count rest r' hr'
        have hd : mappedOps (if (fo.defaultExport && count == 1) = true then defaultExportOps fo op else []) = [] := by
          split <;> simp [defaultExportOps]
        simp only [jsConstOps, opJsSites, mappedOps_append, mappedOps_exportKw, hd, ih, List.nil_append]
        cases hn : (namePosOf op).2 <;> cases hb : (namePosOf op).1.builtin <;>
          simp [mappedOps, POp.mapped, hb, List.filter]
  | .frag f :: rest, r, h => by
    simp only [opJsDefsOps] at h
    split at h
    · cases h
    · split at h
      · cases h
      · rename_i r' hr'
        cases h
        have ih := opJsDefsOps_mapped fo D docFile count rest r' hr'
        simp only [jsConstOps, opJsSites, mappedOps_append, mappedOps_exportKw, ih, List.nil_append]
        cases hb : f.pos.builtin <;> simp [mappedOps, POp.mapped, hb, List.filter]
  | .imp _ :: rest, r, h => by
    simp only [opJsDefsOps] at h
    simpa [opJsSites] using opJsDefsOps_mapped fo D docFile count rest r h

theorem opJsOps_mapped {fo : FullOpts} {D : Doc} {docFile : Nat} {ops : List POp} (h : opJsOps fo D docFile = .ok ops) :
    mappedOps ops = mappedOps (opJsSites fo.names D) :=
  opJsDefsOps_mapped fo D docFile _ D ops h

/-! ### members -/

/-- every definition of the list contributes its block of calls to the loop's result -/
theorem opTypeDefsOps_operation (fo : FullOpts) (S : Schema) (D : Doc) (docFile count : Nat) :
    ∀ (L : Doc) (sps : List Pos) (r : List POp), opTypeDefsOps fo S D docFile count L sps = .ok r →
      ∀ op, .op op ∈ L → ∃ sp a, opTypeOperationOps fo S D count op sp = .ok a ∧ ∀ x ∈ a, x ∈ r
  | [], _, _, _ => by intro op h; cases h
  | .op o :: rest, sps, r, h => by
    simp only [opTypeDefsOps] at h
    split at h
    · cases h
    · rename_i a ha
      split at h
      · cases h
      · rename_i r' hr'
        cases h
        intro op hop
        rcases List.mem_cons.mp hop with e | hop
        · cases e
          exact ⟨_, a, ha, fun x hx => List.mem_append_left _ hx⟩
        · obtain ⟨sp, b, hb, hsub⟩ := opTypeDefsOps_operation fo S D docFile count rest sps.tail r' hr' op hop
          exact ⟨sp, b, hb, fun x hx => List.mem_append_right _ (hsub x hx)⟩
  | .frag f :: rest, sps, r, h => by
    simp only [opTypeDefsOps] at h
    split at h
    · cases h
    · split at h
      · cases h
      · rename_i r' hr'
        cases h
        intro op hop
        rcases List.mem_cons.mp hop with e | hop
        · cases e
        · obtain ⟨sp, b, hb, hsub⟩ := opTypeDefsOps_operation fo S D docFile count rest sps r' hr' op hop
          exact ⟨sp, b, hb, fun x hx => List.mem_append_right _ (hsub x hx)⟩
  | .imp _ :: rest, sps, r, h => by
    simp only [opTypeDefsOps] at h
    intro op hop
    rcases List.mem_cons.mp hop with e | hop
    · cases e
    · exact opTypeDefsOps_operation fo S D docFile count rest sps r h op hop

theorem opTypeDefsOps_fragment (fo : FullOpts) (S : Schema) (D : Doc) (docFile count : Nat) :
    ∀ (L : Doc) (sps : List Pos) (r : List POp), opTypeDefsOps fo S D docFile count L sps = .ok r →
      ∀ f, .frag f ∈ L → ∃ a, opTypeFragmentOps fo S D docFile f = .ok a ∧ ∀ x ∈ a, x ∈ r
  | [], _, _, _ => by intro f h; cases h
  | .op o :: rest, sps, r, h => by
    simp only [opTypeDefsOps] at h
    split at h
    · cases h
    · split at h
      · cases h
      · rename_i r' hr'
        cases h
        intro f hf
        rcases List.mem_cons.mp hf with e | hf
        · cases e
        · obtain ⟨b, hb, hsub⟩ := opTypeDefsOps_fragment fo S D docFile count rest sps.tail r' hr' f hf
          exact ⟨b, hb, fun x hx => List.mem_append_right _ (hsub x hx)⟩
  | .frag g :: rest, sps, r, h => by
    simp only [opTypeDefsOps] at h
    split at h
    · cases h
    · rename_i a ha
      split at h
      · cases h
      · rename_i r' hr'
        cases h
        intro f hf
        rcases List.mem_cons.mp hf with e | hf
        · cases e
          exact ⟨a, ha, fun x hx => List.mem_append_left _ hx⟩
        · obtain ⟨b, hb, hsub⟩ := opTypeDefsOps_fragment fo S D docFile count rest sps r' hr' f hf
          exact ⟨b, hb, fun x hx => List.mem_append_right _ (hsub x hx)⟩
  | .imp _ :: rest, sps, r, h => by
    simp only [opTypeDefsOps] at h
    intro f hf
    rcases List.mem_cons.mp hf with e | hf
    · cases e
    · exact opTypeDefsOps_fragment fo S D docFile count rest sps r h f hf

/-- the three declarations of an operation are calls of the full sequence: `write_for(<name>, name_pos())` -/
theorem opTypeOps_operation {fo : FullOpts} {S : Schema} {D : Doc} {docFile : Nat} {sps : List Pos} {ops : List POp}
    (h : opTypeOps fo S D docFile sps = .ok ops) (op : OperationDef) (hop : .op op ∈ D) :
    POp.writeFor (operationName fo.names op ++ fo.names.resultSuffix) (namePosOf op).1 (namePosOf op).2 ∈ ops ∧
    POp.writeFor (operationName fo.names op ++ fo.names.variablesSuffix) (namePosOf op).1 (namePosOf op).2 ∈ ops ∧
    POp.writeFor (operationVariableName fo.names op) (namePosOf op).1 (namePosOf op).2 ∈ ops := by
  unfold opTypeOps at h
  split at h
  · cases h
  · rename_i r hr
    cases h
    obtain ⟨sp, a, ha, hsub⟩ := opTypeDefsOps_operation fo S D docFile _ D sps r hr op hop
    unfold opTypeOperationOps at ha
    split at ha
    · cases ha
    · split at ha
      · cases ha
      · cases ha
        refine ⟨List.mem_append_right _ (hsub _ ?_), List.mem_append_right _ (hsub _ ?_),
          List.mem_append_right _ (hsub _ ?_)⟩
        · simp [resultDeclOps]
        · simp [varsDeclOps]
        · simp [opConstOps]

/-- a fragment's type alias and constant are calls of the full sequence: `write_for(<name>, fragment)` -/
theorem opTypeOps_fragment {fo : FullOpts} {S : Schema} {D : Doc} {docFile : Nat} {sps : List Pos} {ops : List POp}
    (h : opTypeOps fo S D docFile sps = .ok ops) (f : FragmentDef) (hf : .frag f ∈ D) :
    POp.writeFor (f.name ++ fo.names.fragmentTypeSuffix) f.pos (some f.name) ∈ ops ∧
    POp.writeFor (f.name ++ fo.names.fragmentVariableSuffix) f.pos (some f.name) ∈ ops := by
  unfold opTypeOps at h
  split at h
  · cases h
  · rename_i r hr
    cases h
    obtain ⟨a, ha, hsub⟩ := opTypeDefsOps_fragment fo S D docFile _ D sps r hr f hf
    unfold opTypeFragmentOps at ha
    split at ha
    · cases ha
    · split at ha
      · cases ha
      · cases ha
        refine ⟨List.mem_append_right _ (hsub _ ?_), List.mem_append_right _ (hsub _ ?_)⟩
        · simp [fragDeclOps]
        · simp [fragConstOps]

/-- the constants of the JavaScript module are calls of its full sequence -/
theorem opJsDefsOps_members (fo : FullOpts) (D : Doc) (docFile count : Nat) :
    ∀ (L : Doc) (r : List POp), opJsDefsOps fo D docFile count L = .ok r →
      (∀ op, .op op ∈ L →
        POp.writeFor (operationVariableName fo.names op) (namePosOf op).1 (namePosOf op).2 ∈ r) ∧
      (∀ f, .frag f ∈ L → POp.writeFor (f.name ++ fo.names.fragmentVariableSuffix) f.pos (some f.name) ∈ r)
  | [], _, _ => by
    constructor
    · intro op hop; cases hop
    · intro f hf; cases hf
  | .op o :: rest, r, h => by
    simp only [opJsDefsOps] at h
    split at h
    · cases h
    · split at h
      · cases h
      · rename_i r' hr'
        cases h
        obtain ⟨ih1, ih2⟩ := opJsDefsOps_members fo D docFile count rest r' hr'
        constructor
        · intro op hop
          rcases List.mem_cons.mp hop with e | hop
          · cases e; simp [jsConstOps]
          · exact List.mem_append_right _ (ih1 op hop)
        · intro f hf
          rcases List.mem_cons.mp hf with e | hf
          · cases e
          · exact List.mem_append_right _ (ih2 f hf)
  | .frag g :: rest, r, h => by
    simp only [opJsDefsOps] at h
    split at h
    · cases h
    · split at h
      · cases h
      · rename_i r' hr'
        cases h
        obtain ⟨ih1, ih2⟩ := opJsDefsOps_members fo D docFile count rest r' hr'
        constructor
        · intro op hop
          rcases List.mem_cons.mp hop with e | hop
          · cases e
          · exact List.mem_append_right _ (ih1 op hop)
        · intro f hf
          rcases List.mem_cons.mp hf with e | hf
          · cases e; simp [jsConstOps]
          · exact List.mem_append_right _ (ih2 f hf)
  | .imp _ :: rest, r, h => by
    simp only [opJsDefsOps] at h
    obtain ⟨ih1, ih2⟩ := opJsDefsOps_members fo D docFile count rest r h
    constructor
    · intro op hop
      rcases List.mem_cons.mp hop with e | hop
      · cases e
      · exact ih1 op hop
    · intro f hf
      rcases List.mem_cons.mp hf with e | hf
      · cases e
      · exact ih2 f hf

end NitroVerif.PrintMap
