/-
The cursor invariant of the PEG interpreter (helper lemmas for Props/C07 `pair_span`): starting from a cursor that
is consistent with the input (`rest = input.drop pos`, `pos ≤ |input|`), every successful call returns a consistent
cursor further right, and the returned pairs are well-formed spans: in order, non-overlapping, inside
[start cursor, end cursor], children inside their parent (`SpanOk`). Induction on the depth bound over the four
mutually recursive functions, using the inversion lemmas of `Lemmas/PegInv.lean`.
-/
import NitroVerif.Lemmas.PegInv
namespace NitroVerif.Peg

/-- the pairs lie in `[lo, hi]`, in order and without overlap; each pair is `start ≤ stop` with its children
    (recursively) inside `[start, stop]` -/
inductive SpanOk : Nat → Nat → List Pair → Prop where
  | nil {lo hi : Nat} : lo ≤ hi → SpanOk lo hi []
  | cons {lo hi : Nat} {r : RuleId} {s e : Nat} {cs ps : List Pair} :
      lo ≤ s → SpanOk s e cs → SpanOk e hi ps → SpanOk lo hi (.mk r s e cs :: ps)

theorem SpanOk.le {lo hi : Nat} {ps : List Pair} (h : SpanOk lo hi ps) : lo ≤ hi := by
  induction h with
  | nil h => exact h
  | cons h1 _ _ ih1 ih2 => omega

theorem SpanOk.append {lo mid hi : Nat} {ps qs : List Pair} (h1 : SpanOk lo mid ps) (h2 : SpanOk mid hi qs) :
    SpanOk lo hi (ps ++ qs) := by
  induction h1 with
  | nil h =>
    simp only [List.nil_append]
    clear ps
    induction h2 with
    | nil h' => exact .nil (by omega)
    | cons h' hc hr _ _ => exact .cons (by omega) hc hr
  | cons h' hc _ _ ih2 => exact .cons h' hc (ih2 h2)

theorem SpanOk.widen {lo hi hi' : Nat} {ps : List Pair} (h : SpanOk lo hi ps) (hh : hi ≤ hi') : SpanOk lo hi' ps := by
  induction h with
  | nil h => exact .nil (by omega)
  | cons h' hc _ _ ih2 => exact .cons h' hc (ih2 hh)

/-- the cursor is consistent with the input -/
def CurOk (inp : List Char) (c : Cur) : Prop := c.pos ≤ inp.length ∧ c.rest = inp.drop c.pos

theorem matchStr_eq {s rest r : List Char} (h : matchStr s rest = some r) : rest = s ++ r := by
  induction s generalizing rest with
  | nil => simp [matchStr] at h; simp [h]
  | cons c s ih =>
    cases rest with
    | nil => simp [matchStr] at h
    | cons d rest =>
      simp only [matchStr] at h
      split at h
      · rename_i hcd; subst hcd; simp [ih h]
      · cases h

theorem matchInsens_eq {s rest r : List Char} (h : matchInsens s rest = some r) :
    ∃ t, rest = t ++ r ∧ t.length = s.length := by
  induction s generalizing rest with
  | nil => simp [matchInsens] at h; exact ⟨[], by simp [h], rfl⟩
  | cons c s ih =>
    cases rest with
    | nil => simp [matchInsens] at h
    | cons d rest =>
      simp only [matchInsens] at h
      split at h
      · obtain ⟨t, ht, hl⟩ := ih h
        exact ⟨d :: t, by simp [ht], by simp [hl]⟩
      · cases h

theorem drop_split {inp t r : List Char} {p : Nat} (hp : p ≤ inp.length) (h : inp.drop p = t ++ r) :
    p + t.length ≤ inp.length ∧ r = inp.drop (p + t.length) := by
  have hl : (inp.drop p).length = t.length + r.length := by rw [h]; simp
  simp only [List.length_drop] at hl
  refine ⟨by omega, ?_⟩
  rw [← List.drop_drop, h]
  simp

theorem termStep_curOk {inp : List Char} {e : Expr} {c c' : Cur} (hc : CurOk inp c) (h : TermStep e c c') :
    CurOk inp c' ∧ c.pos ≤ c'.pos := by
  obtain ⟨hp, hr⟩ := hc
  cases h with
  | str hm =>
    have := matchStr_eq hm
    rw [hr] at this
    obtain ⟨h1, h2⟩ := drop_split hp this
    exact ⟨⟨h1, h2⟩, by simp⟩
  | insens hm =>
    obtain ⟨t, ht, hl⟩ := matchInsens_eq hm
    rw [hr] at ht
    obtain ⟨h1, h2⟩ := drop_split hp ht
    rw [hl] at h1 h2
    exact ⟨⟨h1, h2⟩, by simp⟩
  | range hd =>
    rename_i d r
    rw [hr] at hd
    obtain ⟨h1, h2⟩ := drop_split (t := [d]) hp (by simpa using hd)
    exact ⟨⟨h1, h2⟩, by simp⟩
  | any hd =>
    rename_i d r
    rw [hr] at hd
    obtain ⟨h1, h2⟩ := drop_split (t := [d]) hp (by simpa using hd)
    exact ⟨⟨h1, h2⟩, by simp⟩
  | soi => exact ⟨⟨hp, hr⟩, Nat.le_refl _⟩
  | eoi => exact ⟨⟨hp, hr⟩, Nat.le_refl _⟩

/-- the statement of the invariant for one result -/
def SpanRes (inp : List Char) (c c' : Cur) (ps : List Pair) : Prop := CurOk inp c' ∧ SpanOk c.pos c'.pos ps

structure SpanInv (g : G) (inp : List Char) (fuel : Nat) : Prop where
  ev : ∀ sk e at_ la tr c tr' c' ps, CurOk inp c → eval g fuel sk e at_ la tr c = (tr', .ok c' ps) → SpanRes inp c c' ps
  sk : ∀ sk at_ la tr c tr' c' ps, CurOk inp c → doSkip g fuel sk at_ la tr c = (tr', .ok c' ps) → SpanRes inp c c' ps
  sr : ∀ a at_ la tr c tr' c' ps, CurOk inp c → starRest g fuel a at_ la tr c = (tr', .ok c' ps) → SpanRes inp c c' ps
  cr : ∀ r at_ la tr c tr' c' ps, CurOk inp c → callRule g fuel r at_ la tr c = (tr', .ok c' ps) → SpanRes inp c c' ps

theorem spanInv (g : G) (inp : List Char) : ∀ fuel, SpanInv g inp fuel := by
  intro fuel
  induction fuel with
  | zero =>
    exact ⟨fun _ _ _ _ _ _ _ _ _ _ h => by simp [eval_zero] at h, fun _ _ _ _ _ _ _ _ _ h => by simp [doSkip_zero] at h,
      fun _ _ _ _ _ _ _ _ _ h => by simp [starRest_zero] at h, fun _ _ _ _ _ _ _ _ _ h => by simp [callRule_zero] at h⟩
  | succ fuel ih =>
    have here : ∀ {c : Cur}, CurOk inp c → SpanRes inp c c [] := fun hc => ⟨hc, .nil (Nat.le_refl _)⟩
    have term : ∀ {e : Expr} {c c' : Cur}, CurOk inp c → TermStep e c c' → SpanRes inp c c' [] := by
      intro e c c' hc ht
      obtain ⟨h1, h2⟩ := termStep_curOk hc ht
      exact ⟨h1, .nil h2⟩
    refine ⟨?_, ?_, ?_, ?_⟩
    · intro sk e at_ la tr c tr' c' ps hc h
      cases e with
      | str s => obtain ⟨ht, rfl⟩ := eval_str_ok g h; exact term hc ht
      | insens s => obtain ⟨ht, rfl⟩ := eval_insens_ok g h; exact term hc ht
      | range lo hi => obtain ⟨ht, rfl⟩ := eval_range_ok g h; exact term hc ht
      | any => obtain ⟨ht, rfl⟩ := eval_any_ok g h; exact term hc ht
      | soi => obtain ⟨ht, rfl⟩ := eval_soi_ok g h; exact term hc ht
      | eoi => obtain ⟨ht, rfl⟩ := eval_eoi_ok g h; exact term hc ht
      | seq a b =>
        obtain ⟨tr1, c1, p1, tr2, c2, p2, p3, h1, h2, h3, rfl⟩ := eval_seq_ok g h
        obtain ⟨hc1, s1⟩ := ih.ev _ _ _ _ _ _ _ _ _ hc h1
        obtain ⟨hc2, s2⟩ := ih.sk _ _ _ _ _ _ _ _ hc1 h2
        obtain ⟨hc3, s3⟩ := ih.ev _ _ _ _ _ _ _ _ _ hc2 h3
        exact ⟨hc3, (s1.append s2).append s3⟩
      | choice a b =>
        rcases eval_choice_ok g h with h1 | ⟨tr1, _, h2⟩
        · exact ih.ev _ _ _ _ _ _ _ _ _ hc h1
        · exact ih.ev _ _ _ _ _ _ _ _ _ hc h2
      | opt a =>
        rcases eval_opt_ok g h with h1 | ⟨rfl, rfl⟩
        · exact ih.ev _ _ _ _ _ _ _ _ _ hc h1
        · exact here hc
      | star a =>
        cases sk with
        | true =>
          rcases eval_star_sk_ok g h with ⟨tr1, c1, p1, p2, h1, h2, rfl⟩ | ⟨rfl, rfl⟩
          · obtain ⟨hc1, s1⟩ := ih.ev _ _ _ _ _ _ _ _ _ hc h1
            obtain ⟨hc2, s2⟩ := ih.sr _ _ _ _ _ _ _ _ hc1 h2
            exact ⟨hc2, s1.append s2⟩
          · exact here hc
        | false =>
          rcases eval_star_nosk_ok g h with ⟨tr1, c1, p1, p2, h1, h2, rfl⟩ | ⟨rfl, rfl⟩
          · obtain ⟨hc1, s1⟩ := ih.ev _ _ _ _ _ _ _ _ _ hc h1
            obtain ⟨hc2, s2⟩ := ih.ev _ _ _ _ _ _ _ _ _ hc1 h2
            exact ⟨hc2, s1.append s2⟩
          · exact here hc
      | plus a => rw [eval_plus] at h; exact ih.ev _ _ _ _ _ _ _ _ _ hc h
      | rep n a => rw [eval_rep] at h; exact ih.ev _ _ _ _ _ _ _ _ _ hc h
      | not a => obtain ⟨rfl, rfl⟩ := eval_not_ok g h; exact here hc
      | and a => obtain ⟨rfl, rfl⟩ := eval_and_ok g h; exact here hc
      | call r => rw [eval_call] at h; exact ih.cr _ _ _ _ _ _ _ _ hc h
    · intro sk at_ la tr c tr' c' ps hc h
      rcases doSkip_ok g h with ⟨_, _, e, _, h1⟩ | ⟨rfl, rfl⟩
      · exact ih.ev _ _ _ _ _ _ _ _ _ hc h1
      · exact here hc
    · intro a at_ la tr c tr' c' ps hc h
      rcases starRest_ok g h with ⟨tr1, c1, p1, tr2, c2, p2, p3, h1, h2, h3, rfl⟩ | ⟨rfl, rfl⟩
      · obtain ⟨hc1, s1⟩ := ih.sk _ _ _ _ _ _ _ _ hc h1
        obtain ⟨hc2, s2⟩ := ih.ev _ _ _ _ _ _ _ _ _ hc1 h2
        obtain ⟨hc3, s3⟩ := ih.sr _ _ _ _ _ _ _ _ hc2 h3
        exact ⟨hc3, (s1.append s2).append s3⟩
      · exact here hc
    · intro r at_ la tr c tr' c' ps hc h
      obtain ⟨kind, body, tr0, tr1, ps0, hl, hb, hps⟩ := callRule_ok g h
      obtain ⟨hc', s0⟩ := ih.ev _ _ _ _ _ _ _ _ _ hc hb
      refine ⟨hc', ?_⟩
      subst hps
      split
      · exact s0
      · split
        · exact .cons (Nat.le_refl _) s0 (.nil (Nat.le_refl _))
        · exact s0

end NitroVerif.Peg
